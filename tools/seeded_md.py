#!/usr/bin/env python3
"""Regenerates the SEEDED block of DESIGN.md from seeded/*/meta.json, confirm.log and detect*.log; also stamps meta.json
with what the integrator ran."""
import json, os, re, glob
rows = ["| seeded change | property | what it changes (needs to manifest) | confirmed | caught by (check: verdict) |", "|---|---|---|---|---|"]
for d in sorted(glob.glob('/verif/seeded/C*-m*')):
    name = os.path.basename(d)
    try: m = json.load(open(d + '/meta.json'))
    except Exception: continue
    conf = 'no'
    if os.path.exists(d + '/confirm.log'):
        t = open(d + '/confirm.log').read()
        if re.search(r'^CONFIRMED', t, re.M): conf = 'yes (demo fails with / passes without; build + existing suite pass)'
        elif 'NOT-CONFIRMED' in t: conf = 'NOT confirmed'
    caught = []
    for lg in sorted(glob.glob(d + '/detect*.log')):
        t = open(lg).read()
        mm = re.search(r'^(C\d+) (OK|FAIL) tier=(\w+)', t, re.M)
        chk = mm.group(1) if mm else (re.search(r'detect-(C\d+)', lg).group(1) if 'detect-' in lg else m.get('property'))
        tier = mm.group(3) if mm else '?'
        if re.search(r'^VIOLATION .*no-failing-input-found', t, re.M): v = 'broken obligation/channel, no failing input found'
        elif re.search(r'^VIOLATION', t, re.M): v = 'located with replay'
        elif 'PATCH DOES NOT APPLY' in t: v = 'patch does not apply'
        elif re.search(r'^detect rc=0', t, re.M): v = 'MISSED'
        else: v = 'not run'
        caught.append('%s %s: %s' % (chk, tier, v))
    m['integrator'] = {'confirmed': conf, 'checks_run': caught}
    json.dump(m, open(d + '/meta.json', 'w'), indent=1)
    what = (m.get('summary', '')[:230] + ' (needs: ' + m.get('needs_to_manifest', '')[:200] + ')').replace('|', '\\|').replace('\n', ' ')
    rows.append("| %s | %s | %s | %s | %s |" % (name, m.get('property'), what, conf.split(' (')[0], '; '.join(caught) or 'not run yet'))
block = "<!-- SEEDED:BEGIN -->\n" + "\n".join(rows) + "\n<!-- SEEDED:END -->"
p = '/verif/DESIGN.md'; s = open(p).read()
if '<!-- SEEDED:BEGIN -->' in s:
    s = re.sub(r'<!-- SEEDED:BEGIN -->.*?<!-- SEEDED:END -->', lambda _: block, s, flags=re.S)
else:
    s += "\n\n## 13. Seeded changes and which checks catch them (generated from seeded/)\n\nEach change was written by an independent sub-agent that saw only the property text and a scratch worktree, confirmed by `seeded/confirm.sh` (demonstration fails with the change and passes without it; build and the existing suite pass), and run against the checks with `seeded/detect.sh` (the patch is applied to a scratch copy; /repo is never touched).\n\n" + block + "\n"
open(p, 'w').write(s)
print(len(rows) - 2, 'seeded changes')
