#!/usr/bin/env python3
"""Regenerates the STATUS block of DESIGN.md: per property what is proved, how it is tied, what is assumed (from
Props/*.lean, evidence/*.json, props/*.json, MANIFEST.json)."""
import json, re, os, glob
man = {c['property_id']: c for c in json.load(open('/verif/MANIFEST.json'))['checks']}
out = []
for pid in sorted(man):
    ev = json.load(open('/verif/evidence/%s.json' % pid)) if os.path.exists('/verif/evidence/%s.json' % pid) else {}
    cfg = json.load(open('/verif/props/%s.json' % pid))
    cov = ev.get('coverage', {})
    thms = [t['name'] for t in cov.get('theorems', [])]
    prop = [t for t in thms if not re.match(r'c\d+_x_', t)]
    xs = [t for t in thms if re.match(r'c\d+_x_', t)]
    partial = [t for t in prop if 'partial' in t]
    hist = [t for t in prop if re.search(r'witness|counterexample|defect|_old', t)]
    src = open('/verif/lean/SeqVerif/Props/%s.lean' % pid).read()
    mods = sorted(set(re.findall(r'^import (SeqVerif\.[\w.]+)', src, re.M)))
    out.append("### %s - as built\n" % pid)
    out.append("* **Level**: %s" % man[pid]['level_claimed']['text'])
    out.append("* **Theorems** (%d obligations = %d property theorems + %d extracted-fact obligations; last run %s/%s discharged, axioms %s): %s" % (
        len(thms), len(prop), len(xs), cov.get('discharged'), cov.get('obligations'),
        ', '.join(sorted({a for t in cov.get('theorems', []) for a in (t.get('axioms') or [])})) or 'none',
        ', '.join('`%s`' % t for t in prop if t not in hist)))
    if partial: out.append("* **Partial** (full statement kept next to it in Props/%s.lean): %s" % (pid, ', '.join('`%s`' % t for t in partial)))
    if hist: out.append("* **Historical witnesses** (defects of the tree as found, `decide`): %s" % ', '.join('`%s`' % t for t in hist))
    out.append("* **Extracted-fact obligations**: %s" % (', '.join('`%s`' % t for t in xs) or '-'))
    out.append("* **Lean modules imported by Props/%s.lean**: %s" % (pid, ', '.join(m.replace('SeqVerif.', '') for m in mods)))
    ch = cov.get('channels') or []; orc = cov.get('oracles') or []
    out.append("* **Correspondence channels** (impl vs Lean driver, quick tier cases): %s" % ('; '.join('%s %s%s' % (c['name'], c.get('cases'), ' (exhaustive)' if c.get('exhaustive') else '') for c in ch) or '-'))
    out.append("* **System oracles** (property on the real code): %s" % ('; '.join('%s %s' % (o['name'], o.get('cases')) for o in orc) or '-'))
    out.append("* **Assumed / modelled, not verified**: %s" % ' | '.join(cfg.get('assumptions', [])))
    out.append("* **Extra trusted base**: %s" % (' | '.join(cfg.get('trusted_base', [])) or '-'))
    out.append("")
block = "<!-- STATUS:BEGIN -->\n" + "\n".join(out) + "\n<!-- STATUS:END -->"
p = '/verif/DESIGN.md'; s = open(p).read()
if '<!-- STATUS:BEGIN -->' in s:
    s = re.sub(r'<!-- STATUS:BEGIN -->.*?<!-- STATUS:END -->', lambda _: block, s, flags=re.S)
else:
    s += "\n\n## 14. Per-property status as built (generated from Props/, evidence/, props/)\n\nSection 5 is the plan written before the code; this section is what exists. Names are the Lean theorem names in `lean/SeqVerif/Props/Cxx.lean`.\n\n" + block + "\n"
open(p, 'w').write(s)
print('ok', len(man))
