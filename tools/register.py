#!/usr/bin/env python3
"""register.py ID 'technique' 'level text' 'level note'  - claim a property in MANIFEST.json (moves it out of not_applicable)."""
import json, sys
pid, technique, text, note = sys.argv[1:5]
m = json.load(open('/verif/MANIFEST.json'))
m['checks'] = [c for c in m['checks'] if c['property_id'] != pid]
m['checks'].append({
    "property_id": pid, "quick_cmd": "./check %s --tier quick" % pid, "thorough_cmd": "./check %s --tier thorough" % pid,
    "evidence_file": "/verif/evidence/%s.json" % pid, "replay_cmd_template": "./check %s --replay {path}" % pid, "engine": "lean",
    "level_claimed": {"category": "proof", "text": text, "design_ref": "DESIGN.md section 5, %s" % pid},
    "level_note": note, "technique": technique})
m['checks'].sort(key=lambda c: c['property_id'])
m['not_applicable'] = [n for n in m.get('not_applicable', []) if n['property_id'] != pid]
for e in m['engines']:
    e['serves_properties'] = sorted({c['property_id'] for c in m['checks']})
json.dump(m, open('/verif/MANIFEST.json', 'w'), indent=1)
print("registered", pid, "claimed:", [c['property_id'] for c in m['checks']])
