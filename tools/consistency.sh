#!/usr/bin/env bash
# Model-consistency check: builds lean/SeqVerif/Consistency.lean (the umbrella over lean/SeqVerif/Consistency/*.lean,
# theorems `cons_*` in namespace SV.Consistency proving that separately written Lean models of one Go function
# agree) and audits it:
#   1. every file of lean/SeqVerif/Consistency/ is imported (directly or transitively) by the umbrella module;
#   2. `lake build SeqVerif.Consistency` succeeds (under the build lock);
#   1b. no Consistency module depends (transitively) on SeqVerif.Extracted.* (regenerated per run) or Props;
#   3. no forbidden token (sorry, admit, axiom, native_decide, bv_decide, implemented_by, unsafe, maxHeartbeats 0)
#      outside comments / strings in any Consistency file;
#   4. `#print axioms` of every `cons_*` theorem (generated file lean/.audit/Consistency.lean) stays within
#      propext, Classical.choice, Quot.sound.
# Exit 0 = all consistent; exit 1 = something broke (details on stdout).  Usage: tools/consistency.sh [-v]
set -u
ROOT="$(cd "$(dirname "$0")/.." && pwd)"
LEAN="$ROOT/lean"
VERBOSE="${1:-}"
cd "$LEAN" || exit 1

t0=$(date +%s)
if ! flock .build.lock lake build SeqVerif.Consistency > /tmp/consistency-build.$$ 2>&1; then
  echo "CONSISTENCY: BUILD FAILED"
  grep -E "error|✖" /tmp/consistency-build.$$ | head -40
  rm -f /tmp/consistency-build.$$
  exit 1
fi
t1=$(date +%s)
rm -f /tmp/consistency-build.$$

python3 - "$LEAN" "$VERBOSE" "$((t1 - t0))" <<'EOF'
import os, re, subprocess, sys
LEAN, verbose, build_s = sys.argv[1], sys.argv[2] == "-v", sys.argv[3]
CDIR = os.path.join(LEAN, "SeqVerif", "Consistency")
ALLOWED = {"propext", "Classical.choice", "Quot.sound"}
FORBIDDEN = re.compile(r"\b(sorry|admit|native_decide|bv_decide|implemented_by|unsafe)\b|^\s*axiom\s|maxHeartbeats\s+0\b")

def strip_comments(src):
    out, i, depth, n = [], 0, 0, len(src)
    while i < n:
        if src.startswith("/-", i):
            depth += 1; i += 2
        elif depth and src.startswith("-/", i):
            depth -= 1; i += 2
        elif depth:
            if src[i] == "\n": out.append("\n")
            i += 1
        elif src.startswith("--", i):
            while i < n and src[i] != "\n": i += 1
        elif src[i] == '"':
            i += 1
            while i < n and src[i] != '"': i += 2 if src[i] == "\\" else 1
            i += 1
        else:
            out.append(src[i]); i += 1
    return "".join(out)

bad = []
files = sorted(f for f in os.listdir(CDIR) if f.endswith(".lean"))
mods = {"SeqVerif.Consistency." + f[:-5]: os.path.join(CDIR, f) for f in files}

# 1. umbrella covers every file (transitively through Consistency modules)
def imports(path):
    return set(re.findall(r"^import\s+(\S+)", open(path).read(), re.M))
seen, todo = set(), [m for m in imports(os.path.join(LEAN, "SeqVerif", "Consistency.lean")) if m in mods]
while todo:
    m = todo.pop()
    if m in seen: continue
    seen.add(m)
    todo += [x for x in imports(mods[m]) if x in mods]
for m in sorted(set(mods) - seen):
    bad.append("module %s is not imported by SeqVerif/Consistency.lean" % m)

# 1b. no Consistency module may depend (transitively) on a generated SeqVerif.Extracted.* module or on Props:
#     those files are rewritten by every ./check run (also for scratch repos), so such a theorem breaks at random
def lean_path(m):
    return os.path.join(LEAN, m.replace(".", os.sep) + ".lean")
dep_seen = {}
def deps(m):
    if m in dep_seen: return dep_seen[m]
    dep_seen[m] = set()
    p = lean_path(m)
    out = set()
    if os.path.exists(p):
        for x in imports(p):
            if x.startswith("SeqVerif."):
                out.add(x); out |= deps(x)
    dep_seen[m] = out
    return out
for m in sorted(mods):
    gen = sorted(x for x in deps(m) if ".Extracted." in x or ".Props." in x)
    if gen:
        bad.append("module %s depends on generated / property modules: %s" % (m, ", ".join(gen[:4])))

# 3. forbidden tokens, and collect the theorems
thms = []
for m, path in sorted(mods.items()):
    src = strip_comments(open(path).read())
    for ln, line in enumerate(src.split("\n"), 1):
        if FORBIDDEN.search(line):
            bad.append("forbidden token at %s:%d: %s" % (path, ln, line.strip()[:80]))
    ns = "SV.Consistency"
    for mm in re.finditer(r"^(namespace\s+(\S+)|(?:@\[[^\]]*\]\s*)?(?:private\s+|protected\s+)?theorem\s+(cons_\S+))", src, re.M):
        if mm.group(2): ns = mm.group(2)
        else: thms.append((ns + "." + mm.group(3), m))
names = [t for t, _ in thms]
dups = sorted({n for n in names if names.count(n) > 1})
for n in dups:
    bad.append("theorem declared twice: " + n)

# 4. axiom audit
adir = os.path.join(LEAN, ".audit")
os.makedirs(adir, exist_ok=True)
afile = os.path.join(adir, "Consistency.lean")
with open(afile, "w") as f:
    f.write("import SeqVerif.Consistency\n")
    for n in names:
        f.write("#print axioms %s\n" % n)
p = subprocess.run(["lake", "env", "lean", afile], cwd=LEAN, capture_output=True, text=True)
text = (p.stdout + p.stderr).replace("\n  ", " ")
axioms = {}
for mm in re.finditer(r"'(\S+?)' (depends on axioms: \[([^\]]*)\]|does not depend on any axioms)", text):
    axioms[mm.group(1)] = {a.strip() for a in (mm.group(3) or "").split(",") if a.strip()}
for n in names:
    if n not in axioms:
        bad.append("axiom audit produced no line for %s" % n)
    elif not axioms[n] <= ALLOWED:
        bad.append("%s depends on axioms outside the allowed set: %s" % (n, sorted(axioms[n])))
if p.returncode != 0 and not bad:
    bad.append("audit file failed: " + text[-800:])

witnesses = [n for n in names if n.endswith("_witness")]
print("CONSISTENCY: %d modules, %d cons_* theorems (%d disagreement/limit witnesses), build %ss"
      % (len(mods), len(names), len(witnesses), build_s))
if verbose:
    for n, m in thms:
        print("  %-28s %s  %s" % (m.split(".")[-1], n.split(".")[-1], sorted(axioms.get(n, []))))
if bad:
    print("CONSISTENCY: FAILED")
    for b in bad: print("  " + b)
    sys.exit(1)
print("CONSISTENCY: OK (axioms within propext, Classical.choice, Quot.sound; no forbidden tokens)")
EOF
