#!/usr/bin/env python3
"""Regenerates the block between <!-- FINDINGS:BEGIN --> and <!-- FINDINGS:END --> in DESIGN.md from known_findings.json."""
import json, re
k = json.load(open('/verif/known_findings.json'))
rows = ["| prop | id | status | commit | site | class | what |", "|---|---|---|---|---|---|---|"]
for e in sorted(k, key=lambda e: (e['property'], e['status'], e['id'])):
    what = e['what']
    what = re.sub(r'^fixed: property=\S+ \S+ ', '', what)
    rows.append("| %s | %s | %s | %s | `%s` | %s | %s |" % (e['property'], e['id'], e['status'], e.get('commit', '-'), e['signature']['site'], e['signature']['class'], what.replace('|', '\\|').replace('\n', ' ')))
block = "<!-- FINDINGS:BEGIN -->\n" + "\n".join(rows) + "\n<!-- FINDINGS:END -->"
p = '/verif/DESIGN.md'; s = open(p).read()
if '<!-- FINDINGS:BEGIN -->' in s:
    s = re.sub(r'<!-- FINDINGS:BEGIN -->.*?<!-- FINDINGS:END -->', lambda m: block, s, flags=re.S)
else:
    s += "\n\n## 12. Findings on the pinned tree (generated from known_findings.json)\n\nEvery row was first exhibited by a system oracle on the real code (replay in the `what` column or in `corpus/`), has a Lean witness (`decide`) on the model of the code as found, and - when fixed - a `fix:` commit in /repo after which the model follows the repaired code and the full theorem replaces the `_partial` one. `open` rows are printed as `KNOWN-FINDING` lines by the check of their property; they are matched by site + class, so any other violation of the same property is still reported.\n\n" + block + "\n"
open(p, 'w').write(s)
print(len(k), "findings")
