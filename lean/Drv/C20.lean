import SeqVerif.Base.Proto
import SeqVerif.Model.Fields
/-!
Driver for C20.  Names are hex-encoded byte strings (`-` = empty name is written `00x`, see `name?`).
  `fields <allow|except> <names> <doc keys> <emptyDoc 0|1> <isObject 0|1>`
      -> `verbatim` | `ok <positions (in the stored document) of the surviving fields, in output order>`
  `pipe <pipes ;-separated: F:<except 0|1>:<names +-separated> | O>` -> `none` | `ok <allowList 0|1> <names>`
  `parse <tokens ,-separated: <u|q><s|n><l|x><hex>>` (the lexer tokens after a `|`; u/q = unquoted/quoted, l/x = first
      rune is a unicode letter/digit or not, s/n = white
      space skipped before the token or not; text = UTF-8 bytes)
      -> `err` | `ok <allowList 0|1> <names> rest=<number of tokens left>`        parser.parsePipeFields
-/
open SV SV.Proto SV.Fields

/-- a name: hex bytes, the empty name is `e` (so that `-` stays the empty list) -/
def name? (s : String) : Option (List Nat) := if s = "e" then some [] else hex? s

def fmtName (n : List Nat) : String := if n.isEmpty then "e" else fmtHex n

def names? (s : String) (sep : String := ",") : Option (List (List Nat)) := (splitList s sep).mapM name?

def parsePipe (s : String) : Option (Option (List (List Nat) × Bool)) :=
  match s.splitOn ":" with
  | ["O"] => some none
  | ["F", e, ns] => do pure (some ((← names? ns "+"), (← bool? e)))
  | _ => none

def bytesToChars (bs : List Nat) : Option (List Char) :=
  (String.fromUTF8? (ByteArray.mk (bs.map UInt8.ofNat).toArray)).map String.toList

def charsToBytes (cs : List Char) : List Nat := (String.ofList cs).toUTF8.toList.map UInt8.toNat

/-- token = `<u|q><s|n><l|x><hex of the UTF-8 text | e>`: unquoted / quoted, space skipped before it / not, first rune
is a unicode letter or digit (Go's answer) / is not -/
def parseTok (s : String) : Option Tok :=
  match s.toList with
  | k :: sp :: lt :: r =>
    if (k = 'u' ∨ k = 'q') ∧ (sp = 's' ∨ sp = 'n') ∧ (lt = 'l' ∨ lt = 'x') then
      (name? (String.ofList r)).bind fun bs => (bytesToChars bs).map fun cs => ⟨cs, k = 'q', sp = 's', lt = 'l'⟩
    else none
  | _ => none

def step (line : String) : String :=
  match fields line with
  | ["fields", mode, ns, keys, e, o] =>
    match names? ns, names? keys, bool? e, bool? o with
    | some ns, some keys, some e, some o =>
      if mode = "allow" ∨ mode = "except" then
        let doc : List (Fld (List Nat) Unit) := (keys.zipIdx).map fun p => ⟨p.2, p.1, ()⟩
        match filterFields (mode = "allow") ns e o doc with
        | .verbatim => "verbatim"
        | .encoded fs => s!"ok {fmtNats (fs.map (·.tag))}"
      else "bad-op"
    | _, _, _, _ => "bad-op"
  | ["parse", ts] =>
    match (splitList ts).mapM parseTok with
    | some toks =>
      match parsePipeFields toks with
      | none => "err"
      | some (except, names, rest) =>
        s!"ok {fmtBool (!except)} {fmtList (fun (n : List Char) => fmtName (charsToBytes n)) names} rest={rest.length}"
    | none => "bad-op"
  | ["pipe", ps] =>
    match (splitList ps ";").mapM parsePipe with
    | some pipes =>
      match firstFieldsPipe pipes with
      | none => "none"
      | some (ns, allow) => s!"ok {fmtBool allow} {fmtList fmtName ns}"
    | none => "bad-op"
  | _ => "bad-op"

def main : IO Unit := SV.Proto.main step
