import SeqVerif.Base.Proto
import SeqVerif.Model.Lifecycle
import SeqVerif.Extracted.C15
/-!
Driver for C15.  Requests:

  `load <fs>`                          -> `ok <loaded> left=<fs>`           (`SV.FileSet.startup` with the extracted `orphanFatal`)
  `life <skip> <keep> <events>`        -> `ok <role>:<fs>;... served=<what a start from the last state serves>`, one
                                          entry per event, or `err not-enabled <i>`
  `shrink <limit> <sizes>`             -> `ok <number of fractions removed>`

`<fs>` = nine characters (docs docs.del sdocs _sdocs sdocs.del index _index index.del meta), `a`bsent `e`mpty `t`orn `h`oled
`f`ull; in `life` answers only what a directory listing shows is printed: `a`bsent, `e`mpty, `f` = not empty.
`<events>` = `;`-separated `new | fill | seal | sealpub | asuicide | ssuicide | suicide | start | startc`, each optionally `@k` = the process dies after
`k` operations of the procedure (if it has at least `k`).  Sealing uses the extracted generator facts, no write fault and one sorted-docs write.
-/
open SV SV.Proto SV.FileSet SV.SealOps SV.Lifecycle

def contentChar : Content → Char
  | .absent => 'a' | .empty => 'e' | .torn => 't' | .holed => 'h' | .full => 'f'

def content? : Char → Option Content
  | 'a' => some .absent | 'e' => some .empty | 't' => some .torn | 'h' => some .holed | 'f' => some .full | _ => none

def fmtFs (fs : FileSet) : String :=
  String.ofList ([fs.docs, fs.docsDel, fs.sdocs, fs.sdocsTmp, fs.sdocsDel, fs.index, fs.indexTmp, fs.indexDel, fs.metaF].map contentChar)

def fs? (s : String) : Option FileSet :=
  match s.toList.mapM content? with
  | some [a, b, c, d, e, f, g, h, i] =>
    some { docs := a, docsDel := b, sdocs := c, sdocsTmp := d, sdocsDel := e, index := f, indexTmp := g, indexDel := h, metaF := i }
  | _ => none

def fmtLoaded : Loaded → String
  | .none => "none" | .active => "active" | .sealed => "sealed" | .down => "down"

def fmtServed : Served → String
  | .all => "all" | .part => "part" | .none => "none" | .down => "down"

def fmtRole : Role → String
  | .none => "none" | .active => "active" | .sealed => "sealed" | .crashed => "crashed"

def srcFacts : Facts :=
  { tokensGen := SV.Extracted.C15.tokensGenPropagates, tokenTableGen := SV.Extracted.C15.tokenTableGenPropagates,
    idsGen := SV.Extracted.C15.idsGenPropagates, lidsGen := SV.Extracted.C15.lidsGenPropagates }

def orphanFatal : Bool := SV.Extracted.C15.orphanFatal

def lifePlan : Plan := { sdocs := 1, tokens := 2, tokensTail := 2, tokenTable := 2, tokenTableTail := 2, ids := 6, lids := 2 }

def proc? (s : String) : Option Proc :=
  match s with
  | "new" => some .newActive | "fill" => some .fill | "seal" => some (.sealing lifePlan [] [])
  | "asuicide" => some .activeSuicide | "ssuicide" => some .sealedSuicide | "start" => some .startup | _ => none

/-- decidable version of `Proc.enabled` for the driver -/
def enabledB (r : Role) (fs : FileSet) : Proc → Bool
  | .newActive => r == .none && fs == {}
  | .fill => r == .active
  | .sealing _ _ _ => r == .active && fs.docs == .full
  | .activeSuicide => r == .active
  | .sealedSuicide => r == .sealed
  | .startup => true

def listingChar (c : Char) : Char := if c = 'a' then 'a' else if c = 'e' then 'e' else 'f'

def lifeGo (c : Cfg) : List String → Nat → Role → FileSet → List String → String
  | [], _, _, fs, acc => "ok " ++ fmtList id acc.reverse ";" ++ " served=" ++ fmtServed (served orphanFatal fs)
  | ev :: rest, i, r, fs, acc =>
    let parts := ev.splitOn "@"
    -- `suicide` = what a retention pass does to the fraction: `Active.Suicide` or `Sealed.Suicide` by the role held
    let name := if parts.headD "" = "suicide" then (if r = .sealed then "ssuicide" else "asuicide") else parts.headD ""
    -- `sealpub` = `proxyFrac.Seal` up to and including the publication of the sealed fraction (everything but
    -- `Active.Release`): the window in which a waiting `proxyFrac.Suicide` already runs `Sealed.Suicide`
    -- `startc` = a start-up whose context is cancelled during the replay (the number after `@` only tells the harness
    -- when to cancel): `cancelledStartOps`, and the process ends
    if name = "startc" then
      let fs' := run (cancelledStartOps orphanFatal fs) fs
      lifeGo c rest (i + 1) .crashed fs' (s!"crashed:{(fmtFs fs').map listingChar}" :: acc)
    else
    if name = "sealpub" then
      if !(enabledB r fs (.sealing lifePlan [] [])) then s!"err not-enabled {i}" else
      let tr := sealTrace c srcFacts lifePlan [] []
      let ops := tr.2.take (tr.2.length - (releaseOps c).length)
      let fs' := run ops fs
      lifeGo c rest (i + 1) .sealed fs' (s!"sealed:{(fmtFs fs').map listingChar}" :: acc)
    else
    match proc? name, (parts.drop 1).head?.map String.toNat? with
    | some p, k =>
      if !(enabledB r fs p) then s!"err not-enabled {i}" else
      let ops := p.ops c srcFacts orphanFatal fs
      match k with
      | some (some k) =>
        if k ≤ ops.length then
          let fs' := run (ops.take k) fs
          lifeGo c rest (i + 1) .crashed fs' (s!"crashed:{(fmtFs fs').map listingChar}" :: acc)
        else   -- the procedure has fewer than k operations: it runs to its end
          let fs' := run ops fs
          let r' := p.roleAfter c srcFacts orphanFatal fs
          lifeGo c rest (i + 1) r' fs' (s!"{fmtRole r'}:{(fmtFs fs').map listingChar}" :: acc)
      | some none => "bad-op"
      | none =>
        let fs' := run ops fs
        let r' := p.roleAfter c srcFacts orphanFatal fs
        lifeGo c rest (i + 1) r' fs' (s!"{fmtRole r'}:{(fmtFs fs').map listingChar}" :: acc)
    | none, _ => "bad-op"

def step (line : String) : String :=
  match fields line with
  | ["load", fs] =>
    match fs? fs with
    | some fs => let r := startup orphanFatal fs; s!"ok {fmtLoaded r.1} left={fmtFs r.2}"
    | none => "bad-op"
  | ["life", skip, keep, evs] =>
    match bool? skip, bool? keep with
    | some skip, some keep => lifeGo ⟨skip, keep⟩ (splitList evs ";") 0 .none {} []
    | _, _ => "bad-op"
  | ["shrink", limit, sizes] =>
    match limit.toNat?, natList? sizes with
    | some l, some ss => s!"ok {(shrink l ss).1.length}"
    | _, _ => "bad-op"
  | _ => "bad-op"

def main : IO Unit := SV.Proto.main step
