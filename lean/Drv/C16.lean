import SeqVerif.Base.Proto
import SeqVerif.Model.ProxyRead
import SeqVerif.Model.ProxyApi
import SeqVerif.Extracted.C16
/-!
Driver for C16.  IDs are `mid.rid`; lists are `,`-separated, `-` = empty.

  shard <calls>                         calls `;`-separated: `f` | `w` | `u` | `r<n|w|u|f>:<total>:<nerr>:<ids>`
  shardp <p0.p1...> <calls>             the same with ShuffleReplicas: replicas asked in the order p0, p1, ...
  stores <arrival>                      arrival `|`-separated `<shard>=<calls>` in arrival order
  search <hot> <cold> <offset> <size> <rev 0|1> <src 0|1>
  less <ids> <a> <b>                    ids / a / b : `mid.rid@src#hint`
  merge <ids> <streams>                 streams `|`-separated lists of `mid.rid@src=data`
  grpc <src> <total> <evs>              evs: `mid.rid=data` | `!`
  fetch <ids> <order> <behav>           behav `|`-separated `<src>:x` (open failed) | `<src>:<evs>`
  uniq <docs>
  full <hot> <cold> <offset> <size> <rev> <src 0|1> <hint> <fetch 0|1> <order> <behav>
  api <hot> <cold> <offset> <size> <rev> <hint> <order> <behav>     the same through proxyapi Search
  export <maxDocs> <hot> <cold> <offset> <size> <hint> <order> <behav>   proxyapi Export (newest first)
  wire <hot> <cold> <offset> <size> <rev> <hint> <order> <behav>     Search over the real gRPC server (recover interceptor)
  fetchapi <ids> <srcs> <order> <behav>                              proxyapi Fetch (Ingestor.Documents)
-/
open SV SV.Proto SV.ProxySearch SV.DocsMerge SV.ProxyRead SV.ProxyApi

def parseID (s : String) : Option ProxySearch.ID :=
  match s.splitOn "." with
  | [a, b] => do pure ((← a.toNat?), (← b.toNat?))
  | _ => none

def parseIDs (s : String) : Option (List ProxySearch.ID) := (splitList s).mapM parseID

def parseCode (s : String) : Option Code :=
  if s = "n" then some .none else if s = "w" then some .wod else if s = "u" then some .tmu
  else if s = "f" then some .tmf else none

def parseCall (s : String) : Option Call :=
  if s = "f" then some .fail else if s = "w" then some .failWod else if s = "u" then some .failTmu
  else
    match s.splitOn ":" with
    | [c, t, e, ids] =>
      match c.toList with
      | ['r', k] => do pure (.resp (← parseCode (String.singleton k)) (← parseIDs ids) (← t.toNat?) (← e.toNat?))
      | _ => none
    | _ => none

def parseCalls (s : String) : Option (List Call) := (splitList s ";").mapM parseCall

/-- `<shard>=<calls>` (replicas asked in index order) or `<shard>~p0.p1.p2=<calls>` (asked in the order p0, p1, ...) -/
def parseArrival (s : String) : Option (List (Nat × ShardRes)) :=
  (splitList s "|").mapM fun e =>
    match e.splitOn "=" with
    | [i, calls] =>
      match i.splitOn "~" with
      | [i] => do pure ((← i.toNat?), searchShard (← parseCalls calls))
      | [i, perm] => do pure ((← i.toNat?), searchShardP (← natList? perm ".") (← parseCalls calls))
      | _ => none
    | _ => none

def fmtID (i : ProxySearch.ID) : String := s!"{i.1}.{i.2}"
def fmtIDs (l : List ProxySearch.ID) : String := fmtList fmtID l

def fmtShard : ShardRes → String
  | .ok rep ids t e => s!"ok ok rep={rep} total={t} nerr={e} ids={fmtIDs ids}"
  | .wod => "ok wod"
  | .tmu => "ok tmu"
  | .tmf => "ok tmf"
  | .failed => "ok failed"
  | .nilResp => "ok nil"

def fmtKind : ErrKind → String
  | .wod => "wod" | .tmf => "tmf" | .tmu => "tmu" | .other => "other"

def insQ (q : QPR) : List QPR → List QPR
  | [] => [q]
  | y :: ys => if q.src.1 < y.src.1 then q :: y :: ys else y :: insQ q ys

def fmtStores : StoresRes → String
  | .err k => s!"err {fmtKind k}"
  | .panic => "panic nilresp"
  | .data qprs p =>
    let qs := qprs.foldr insQ []
    s!"ok partial={fmtBool p} qprs=" ++
      fmtList (fun (q : QPR) => s!"{q.src.1}:{q.src.2}:{q.total}:{q.nerr}:{fmtIDs q.ids}") qs ";"

def fmtTagged (withSrc : Bool) (l : List (ProxySearch.ID × Src)) : String :=
  fmtList (fun (p : ProxySearch.ID × Src) => if withSrc then s!"{fmtID p.1}@{p.2.1}:{p.2.2}" else fmtID p.1) l

def fmtOutcome (withSrc : Bool) : Outcome → String
  | .err k => s!"err {fmtKind k}"
  | .panic => "panic nilresp"
  | .ok ids t e p c => s!"ok partial={fmtBool p} cold={fmtBool c} total={t} nerr={e} ids={fmtTagged withSrc ids}"

/-- `mid.rid@src#hint` -/
def parseIDS (s : String) : Option IDS :=
  match s.splitOn "@" with
  | [i, r] =>
    match r.splitOn "#" with
    | [src, h] => do pure ⟨(← parseID i), (← src.toNat?), (← h.toNat?)⟩
    | _ => none
  | _ => none

def parseIDSs (s : String) : Option (List IDS) := (splitList s).mapM parseIDS

/-- `mid.rid@src=data` -/
def parseDoc (s : String) : Option Doc :=
  match s.splitOn "=" with
  | [k, d] =>
    match k.splitOn "@" with
    | [i, src] => do pure ⟨(← parseID i), (← src.toNat?), (← d.toNat?)⟩
    | _ => none
  | _ => none

def parseDocs (s : String) : Option (List Doc) := (splitList s).mapM parseDoc

def fmtDoc (d : Doc) : String := s!"{fmtID d.id}@{d.src}={d.data}"
def fmtDocs (l : List Doc) : String := fmtList fmtDoc l

def parseEv (s : String) : Option Ev :=
  if s = "!" then some .err else
  match s.splitOn "=" with
  | [i, d] => do pure (.doc (← parseID i) (← d.toNat?))
  | _ => none

def parseEvs (s : String) : Option (List Ev) := (splitList s).mapM parseEv

def parseBehav (s : String) : Option (List (Nat × Option (List Ev))) :=
  (splitList s "|").mapM fun e =>
    match e.splitOn ":" with
    | [src, b] => do
      let src ← src.toNat?
      if b = "x" then pure (src, none) else pure (src, some (← parseEvs b))
    | _ => none

def behavFn (l : List (Nat × Option (List Ev))) (s : Nat) : Option (List Ev) :=
  match l.find? (·.1 == s) with
  | some (_, b) => b
  | none => some []

def fmtOutDocs : Out (List Doc) → String
  | .val ds => s!"ok {fmtDocs ds}"
  | .panic => "panic unknown-ids"
  | .nofuel => "err nofuel"

def fmtEnd : End → String
  | .eof => "eof" | .wrongCount => "wrongcount" | .recvErr => "recverr"

/-- an optional last field `ca=<k>`: the request context is done after `k` calls of the document iterator -/
def splitCancel (fs : List String) : List String × Option Nat :=
  match fs.reverse with
  | last :: rest =>
    if last.startsWith "ca=" then (rest.reverse, (last.drop 3).toNat?) else (fs, none)
  | [] => (fs, none)

def stepC (fs : List String) (ca : Option Nat) : String :=
  match fs with
  | ["shard", calls] =>
    match parseCalls calls with
    | some cs => fmtShard (searchShard cs)
    | none => "bad-op"
  | ["shardp", perm, calls] =>
    match natList? perm ".", parseCalls calls with
    | some p, some cs => fmtShard (searchShardP p cs)
    | _, _ => "bad-op"
  | ["stores", arr] =>
    match parseArrival arr with
    | some a => fmtStores (searchStores a)
    | none => "bad-op"
  | ["search", hot, cold, off, sz, rev, src] =>
    match parseArrival hot, parseArrival cold, off.toNat?, sz.toNat?, bool? rev, bool? src with
    | some h, some c, some off, some sz, some rev, some src => fmtOutcome src (search h c off sz rev)
    | _, _, _, _, _, _ => "bad-op"
  | ["less", ids, a, b] =>
    match parseIDSs ids, parseIDS a, parseIDS b with
    | some ids, some a, some b =>
      match less ids a b with
      | some r => s!"ok {fmtBool r}"
      | none => "panic unknown-ids"
    | _, _, _ => "bad-op"
  | ["merge", ids, streams] =>
    match parseIDSs ids, (splitList streams "|").mapM parseDocs with
    | some ids, some ss => fmtOutDocs (mergedDocs ids ss)
    | _, _ => "bad-op"
  | ["grpc", src, total, evs] =>
    match src.toNat?, total.toNat?, parseEvs evs with
    | some src, some total, some evs =>
      let r := grpcIter src total 0 evs
      s!"ok {fmtEnd r.2} {fmtDocs r.1}"
    | _, _, _ => "bad-op"
  | ["fetch", ids, order, behav] =>
    match parseIDSs ids, natList? order, parseBehav behav with
    | some ids, some order, some b =>
      match fetchDocsStream ids order (behavFn b) with
      | none => "err allfailed"
      | some r => fmtOutDocs r
    | _, _, _ => "bad-op"
  | ["uniq", docs] =>
    match parseDocs docs with
    | some ds => s!"ok {fmtDocs (uniq ds)}"
    | none => "bad-op"
  | ["full", hot, cold, off, sz, rev, src, hint, fetch, order, behav] =>
    match parseArrival hot, parseArrival cold, off.toNat?, sz.toNat?, bool? rev, bool? src, hint.toNat?, bool? fetch,
      natList? order, parseBehav behav with
    | some h, some c, some off, some sz, some rev, some src, some hint, some fetch, some order, some b =>
      match searchAndFetchC h c off sz rev hint fetch order (behavFn b) ca with
      | .err k => s!"err {fmtKind k}"
      | .panic => "panic"
      | .fetchErr => "err allfailed"
      | .ok ids t e p c docs =>
        s!"ok partial={fmtBool p} cold={fmtBool c} total={t} nerr={e} ids={fmtTagged src ids} docs={fmtDocs docs}"
    | _, _, _, _, _, _, _, _, _, _ => "bad-op"
  | ["api", hot, cold, off, sz, rev, hint, order, behav] =>
    match parseArrival hot, parseArrival cold, off.toNat?, sz.toNat?, bool? rev, hint.toNat?,
      natList? order, parseBehav behav with
    | some h, some c, some off, some sz, some rev, some hint, some order, some b =>
      match api (searchAndFetchC h c off sz rev hint true order (behavFn b) ca) with
      | .status ia => if ia then "err invalid-argument" else "err internal"
      | .refused => "ok refused tmf"
      | .panic => "panic"
      | .resp ids docs p t => s!"ok partial={fmtBool p} total={toInt64 t} ids={fmtIDs ids} docs={fmtNats docs}"
    | _, _, _, _, _, _, _, _ => "bad-op"
  | ["export", maxDocs, hot, cold, off, sz, hint, order, behav] =>
    match maxDocs.toNat?, parseArrival hot, parseArrival cold, off.toNat?, sz.toNat?, hint.toNat?, natList? order, parseBehav behav with
    | some md, some h, some c, some off, some sz, some hint, some order, some b =>
      match apiExportReq md sz SV.Extracted.C16.exportReportsPartial (searchAndFetch h c off sz false hint true order (behavFn b)) with
      | .status ia => if ia then "err invalid-argument" else "err internal"
      | .plainErr => "err unknown"
      | .panic => "panic"
      | .stream docs e => s!"ok end={if e then "error" else "ok"} docs=" ++ fmtList (fun (d : ProxySearch.ID × Nat) => s!"{fmtID d.1}={d.2}") docs
    | _, _, _, _, _, _, _, _ => "bad-op"
  | ["storereq", _cap, off, sz] =>
    -- GetAPISearchRequest: what every store is asked, whatever conf.MaxRequestedDocuments (`_cap`) is
    match off.toNat?, sz.toNat? with
    | some off, some sz => let r := storeRequest off sz; s!"size={r.size} offset={r.offset} limit={r.limit}"
    | _, _ => "bad-op"
  | ["wire", hot, cold, off, sz, rev, hint, order, behav] =>
    -- the Search handler behind the server's recover interceptor: a panic reaches the client as codes.Internal
    match parseArrival hot, parseArrival cold, off.toNat?, sz.toNat?, bool? rev, hint.toNat?,
      natList? order, parseBehav behav with
    | some h, some c, some off, some sz, some rev, some hint, some order, some b =>
      match overWire (api (searchAndFetchC h c off sz rev hint true order (behavFn b) ca)) with
      | .status ia => if ia then "err invalid-argument" else "err internal"
      | .refused => "ok refused tmf"
      | .panic => "panic"
      | .resp ids docs p t => s!"ok partial={fmtBool p} total={toInt64 t} ids={fmtIDs ids} docs={fmtNats docs}"
    | _, _, _, _, _, _, _, _ => "bad-op"
  | ["fetchapi", ids, srcs, order, behav] =>
    match parseIDs ids, natList? srcs, natList? order, parseBehav behav with
    | some ids, some srcs, some order, some b =>
      match apiFetch ids srcs order (behavFn b) with
      | .internal => "err internal"
      | .panic => "panic"
      | .docs l => "ok " ++ fmtList (fun (d : ProxySearch.ID × Nat) => s!"{fmtID d.1}={d.2}") l
    | _, _, _, _ => "bad-op"
  | _ => "bad-op"

def step (line : String) : String :=
  let p := splitCancel (fields line)
  stepC p.1 p.2

def main : IO Unit := SV.Proto.main step
