import SeqVerif.Base.Proto
import SeqVerif.Model.ParserTok
import SeqVerif.Extracted.C12
/-!
Driver for C12.  Trees are written in prefix notation, comma separated: `a<n>` leaf, `!` not, `&` and, `|` or, `^` nand
(e.g. `|,a0,&,a1,!,a2`).  Abstract tokens, comma separated: `(` `)` `and` `or` `not` `pipe` `*` `fields` `bad`
and `a<n>.<fid>.<p|r|i>` (field filter number n on field fid written plain / as range / as in-list).
Mapping = comma separated main type per field id: `z` noop `k` keyword `t` text `o` object `g` tags `p` path `n` nested `e` exists.

Requests:
  `pnot <tree>`                       -> `ok <tree> <not 0|1>`            (SV.Parser.propagateNot)
  `finish <tree>`                     -> `ok <tree>`                      (SV.Parser.finish)
  `eval <k> <tree>`                   -> `ok <2^k bits>`                  (SV.Parser.Ast.eval, env i = bits of i)
  `sqfilter <mapping> <tokens>`       -> `ok <tree> end|pipe|other` | `err` | `panic`   (sqFilter at depth 0)
  `sqraw|sqfull|lgraw|lgfull <mapping> <tokens>` -> `ok <tree>` | `err` | `panic`
       (sqParseRaw / sqParse on tokSeqQL, lgParseRaw / lgParse on tokLegacy; the `default:` behaviour of the type switch
        and the nesting limit are the ones extracted from the source: SV.Extracted.C12.seqqlDefaultPanics /
        legacyDefaultPanics / seqqlMaxNest / legacyMaxNest)
-/
open SV SV.Proto SV.Parser

def fmtTree : Ast Nat → List String
  | .leaf n => [s!"a{n}"]
  | .not c => "!" :: fmtTree c
  | .bin .and l r => "&" :: (fmtTree l ++ fmtTree r)
  | .bin .or l r => "|" :: (fmtTree l ++ fmtTree r)
  | .bin .nand l r => "^" :: (fmtTree l ++ fmtTree r)

def showTree (t : Ast Nat) : String := ",".intercalate (fmtTree t)

/-- prefix notation decoder: fold from the right with a stack -/
def parseTree (s : String) : Option (Ast Nat) :=
  let step (tok : String) (st : Option (List (Ast Nat))) : Option (List (Ast Nat)) :=
    match st with
    | none => none
    | some stack =>
      if tok = "!" then
        match stack with
        | c :: rest => some (.not c :: rest)
        | _ => none
      else if tok = "&" ∨ tok = "|" ∨ tok = "^" then
        match stack with
        | l :: r :: rest =>
          some (.bin (if tok = "&" then .and else if tok = "|" then .or else .nand) l r :: rest)
        | _ => none
      else if tok.startsWith "a" then
        (tok.drop 1).toString.toNat?.map fun n => .leaf n :: stack
      else none
  match (s.splitOn ",").foldr step (some []) with
  | some [t] => some t
  | _ => none

def parseTok (s : String) : Option Tok :=
  if s = "(" then some .lp else if s = ")" then some .rp else if s = "and" then some .and
  else if s = "or" then some .or else if s = "not" then some .not else if s = "pipe" then some .pipe
  else if s = "*" then some .star else if s = "fields" then some .flds else if s = "bad" then some .bad
  else if s.startsWith "a" then
    match (s.drop 1).toString.splitOn "." with
    | [n, fid, form] => do
      let n ← n.toNat?
      let fid ← fid.toNat?
      let form ← (if form = "p" then some Form.plain else if form = "r" then some .range else if form = "i" then some .inList else none)
      pure (.atom n fid form)
    | _ => none
  else none

def parseFType (s : String) : Option FType :=
  if s = "z" then some .noop else if s = "k" then some .keyword else if s = "t" then some .text
  else if s = "o" then some .object else if s = "g" then some .tags else if s = "p" then some .path
  else if s = "n" then some .nested else if s = "e" then some .exists else none

def mappingOf (l : List FType) : Nat → FType := fun i => l.getD i .noop

def fmtRes : PRes (Ast Nat) → String
  | .ok t => "ok " ++ showTree t
  | .err => "err"
  | .panic => "panic"
  | .oof => "oof"

def bits (k : Nat) (t : Ast Nat) : String :=
  String.ofList ((List.range (2 ^ k)).map fun i => if t.eval (fun j => i.testBit j) then '1' else '0')

def step (line : String) : String :=
  match fields line with
  | ["pnot", t] =>
    match parseTree t with
    | some t => let r := propagateNot t; s!"ok {showTree r.1} {fmtBool r.2}"
    | none => "bad-op"
  | ["finish", t] =>
    match parseTree t with
    | some t => s!"ok {showTree (finish t)}"
    | none => "bad-op"
  | ["eval", k, t] =>
    match k.toNat?, parseTree t with
    | some k, some t => if k ≤ 8 then s!"ok {bits k t}" else "bad-op"
    | _, _ => "bad-op"
  | [cmd, m, toks] =>
    match (splitList m).mapM parseFType, (splitList toks).mapM parseTok with
    | some m, some toks =>
      let dpS := SV.Extracted.C12.seqqlDefaultPanics
      let dpL := SV.Extracted.C12.legacyDefaultPanics
      let mxS := SV.Extracted.C12.seqqlMaxNest
      let mxL := SV.Extracted.C12.legacyMaxNest
      if cmd = "sqfilter" then
        match sqFilter (tokSeqQL dpS mxS (mappingOf m)) (fuelFor toks) toks 0 0 with
        | .ok (t, rest) =>
          let where_ := match rest with
            | [] => "end"
            | t' :: _ => if t'.kind = K.pipe then "pipe" else "other"
          s!"ok {showTree t} {where_}"
        | .err => "err"
        | .panic => "panic"
        | .oof => "oof"
      else if cmd = "sqraw" then fmtRes (sqParseRaw (tokSeqQL dpS mxS (mappingOf m)) toks)
      else if cmd = "sqfull" then fmtRes (sqParse (tokSeqQL dpS mxS (mappingOf m)) toks)
      else if cmd = "lgraw" then fmtRes (lgParseRaw (tokLegacy dpL mxL (mappingOf m)) toks)
      else if cmd = "lgfull" then fmtRes (lgParse (tokLegacy dpL mxL (mappingOf m)) toks)
      else "bad-op"
    | _, _ => "bad-op"
  | _ => "bad-op"

def main : IO Unit := SV.Proto.main step
