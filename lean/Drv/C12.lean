import SeqVerif.Base.Proto
import SeqVerif.Model.ParserTok
import SeqVerif.Model.SeqQLFilter
import SeqVerif.Model.LegacyParser
import SeqVerif.Model.SeqQLLexer
import SeqVerif.Extracted.C12
/-!
Driver for C12.  Trees are written in prefix notation, comma separated: `a<n>` leaf, `!` not, `&` and, `|` or, `^` nand
(e.g. `|,a0,&,a1,!,a2`).  Abstract tokens, comma separated: `(` `)` `and` `or` `not` `pipe` `*` `fields` `bad`
and `a<n>.<fid>.<p|r|i>` (field filter number n on field fid written plain / as range / as in-list).
Mapping = comma separated main type per field id: `z` noop `k` keyword `t` text `o` object `g` tags `p` path `n` nested `e` exists.

Requests:
  `pnot <tree>`                       -> `ok <tree> <not 0|1>`            (SV.Parser.propagateNot)
  `finish <tree>`                     -> `ok <tree>`                      (SV.Parser.finish)
  `eval <k> <tree>`                   -> `ok <2^k bits>`                  (SV.Parser.Ast.eval, env i = bits of i)
  `sqfilter <mapping> <tokens>`       -> `ok <tree> end|pipe|other` | `err` | `panic`   (sqFilter at depth 0)
  `sqraw|sqfull|lgraw|lgfull <mapping> <tokens>` -> `ok <tree>` | `err` | `panic`
       (sqParseRaw / sqParse on tokSeqQL, lgParseRaw / lgParse on tokLegacy; the `default:` behaviour of the type switch
        and the nesting limit are the ones extracted from the source: SV.Extracted.C12.seqqlDefaultPanics /
        legacyDefaultPanics / seqqlMaxNest / legacyMaxNest)
-/
open SV SV.Proto SV.Parser

def fmtTree : Ast Nat → List String
  | .leaf n => [s!"a{n}"]
  | .not c => "!" :: fmtTree c
  | .bin .and l r => "&" :: (fmtTree l ++ fmtTree r)
  | .bin .or l r => "|" :: (fmtTree l ++ fmtTree r)
  | .bin .nand l r => "^" :: (fmtTree l ++ fmtTree r)

def showTree (t : Ast Nat) : String := ",".intercalate (fmtTree t)

/-- prefix notation decoder: fold from the right with a stack -/
def parseTree (s : String) : Option (Ast Nat) :=
  let step (tok : String) (st : Option (List (Ast Nat))) : Option (List (Ast Nat)) :=
    match st with
    | none => none
    | some stack =>
      if tok = "!" then
        match stack with
        | c :: rest => some (.not c :: rest)
        | _ => none
      else if tok = "&" ∨ tok = "|" ∨ tok = "^" then
        match stack with
        | l :: r :: rest =>
          some (.bin (if tok = "&" then .and else if tok = "|" then .or else .nand) l r :: rest)
        | _ => none
      else if tok.startsWith "a" then
        (tok.drop 1).toString.toNat?.map fun n => .leaf n :: stack
      else none
  match (s.splitOn ",").foldr step (some []) with
  | some [t] => some t
  | _ => none

def parseTok (s : String) : Option Tok :=
  if s = "(" then some .lp else if s = ")" then some .rp else if s = "and" then some .and
  else if s = "or" then some .or else if s = "not" then some .not else if s = "pipe" then some .pipe
  else if s = "*" then some .star else if s = "fields" then some .flds else if s = "bad" then some .bad
  else if s.startsWith "a" then
    match (s.drop 1).toString.splitOn "." with
    | [n, fid, form] => do
      let n ← n.toNat?
      let fid ← fid.toNat?
      let form ← (if form = "p" then some Form.plain else if form = "r" then some .range else if form = "i" then some .inList else none)
      pure (.atom n fid form)
    | _ => none
  else none

def parseFType (s : String) : Option FType :=
  if s = "z" then some .noop else if s = "k" then some .keyword else if s = "t" then some .text
  else if s = "o" then some .object else if s = "g" then some .tags else if s = "p" then some .path
  else if s = "n" then some .nested else if s = "e" then some .exists else none

def mappingOf (l : List FType) : Nat → FType := fun i => l.getD i .noop

def fmtRes : PRes (Ast Nat) → String
  | .ok t => "ok " ++ showTree t
  | .err => "err"
  | .panic => "panic"
  | .oof => "oof"

def bits (k : Nat) (t : Ast Nat) : String :=
  String.ofList ((List.range (2 ^ k)).map fun i => if t.eval (fun j => i.testBit j) then '1' else '0')

/-! ### level B: the lexer's token stream

  `sqlex <cs 0|1> <mapping> <tokens>` -> `ok <tree> <pipes>` | `err` | `panic`      (SV.Parser.parseSeqQL)
  mapping = `nil` | `-` | `,`-separated `<hex field name>=<type char>`
  tokens  = `;`-separated `<q|-><s|->:<kw>:<runes>`, runes = `.`-separated `<hex bytes>/<code point>/<l><n><d><s>/<lower>` or `-`
  tree leaves: `L<hex field>~<term>...` (term = `t<code points joined by _>` text, `s...` symbol), `R<hex field>~<from>~<to>~<incFrom><incTo>`
  pipes: `-` or `,`-separated `P<e|i>~<hex field>...` -/

def parseKW (s : String) : Option KW :=
  if s = "none" then some .none else if s = "empty" then some .empty else if s = "and" then some .and
  else if s = "or" then some .or else if s = "not" then some .not else if s = "lp" then some .lp
  else if s = "rp" then some .rp else if s = "lbr" then some .lbr else if s = "rbr" then some .rbr
  else if s = "comma" then some .comma else if s = "colon" then some .colon else if s = "pipe" then some .pipe
  else if s = "in" then some .in_ else if s = "to" then some .to else if s = "fields" then some .fields
  else if s = "except" then some .except else if s = "star" then some .star else none

def parseRn (s : String) : Option Rn :=
  match s.splitOn "/" with
  | [b, cp, cls, lo] => do
    let b ← hex? b
    let cp ← cp.toNat?
    let lo ← lo.toNat?
    match cls.toList with
    | [l, n, d, sp] => pure ⟨b, cp, l = '1', n = '1', d = '1', lo, sp = '1'⟩
    | _ => none
  | _ => none

def parseLTok (s : String) : Option LTok :=
  match s.splitOn ":" with
  | [fl, kw, rs] => do
    let kw ← parseKW kw
    let rs ← (splitList rs ".").mapM parseRn
    match fl.toList with
    | [q, sp] => pure ⟨rs, q = 'q', sp = 's', kw⟩
    | _ => none
  | _ => none

def parseFT (s : String) : Option FT :=
  if s = "z" then some .noop else if s = "k" then some .keyword else if s = "t" then some .text
  else if s = "o" then some .object else if s = "g" then some .tags else if s = "p" then some .path
  else if s = "n" then some .nested else if s = "e" then some .exists else none

def parseMapping (s : String) : Option (Option (List (List Nat × FT))) :=
  if s = "nil" then some none
  else ((splitList s).mapM fun (e : String) =>
    match e.splitOn "=" with
    | [n, t] => do pure ((← hex? n), (← parseFT t))
    | _ => none).map some

def fmtCps (xs : List Nat) : String := "_".intercalate (xs.map toString)
def fmtTerm (t : Term) : String := (if t.sym then "s" else "t") ++ fmtCps t.data

def fmtLeaf : Leaf → String
  | .lit f ts => "L" ++ fmtHex f ++ String.join (ts.map fun t => "~" ++ fmtTerm t)
  | .range f a b i j => "R" ++ fmtHex f ++ "~" ++ fmtTerm a ++ "~" ++ fmtTerm b ++ "~" ++ fmtBool i ++ fmtBool j

def fmtTreeL : Ast Leaf → List String
  | .leaf l => [fmtLeaf l]
  | .not c => "!" :: fmtTreeL c
  | .bin .and l r => "&" :: (fmtTreeL l ++ fmtTreeL r)
  | .bin .or l r => "|" :: (fmtTreeL l ++ fmtTreeL r)
  | .bin .nand l r => "^" :: (fmtTreeL l ++ fmtTreeL r)

def fmtPipes (ps : List PipeFields) : String :=
  fmtList (fun p => "P" ++ (if p.except then "e" else "i") ++ String.join (p.fields.map fun f => "~" ++ fmtHex f)) ps

def stepLex (cs m toks : String) : String :=
  match bool? cs, parseMapping m, (splitList toks ";").mapM parseLTok with
  | some cs, some m, some toks =>
    match parseSeqQL ⟨SV.Extracted.C12.seqqlDefaultPanics, cs, m, SV.Extracted.C12.legacyRangeLowercases⟩ SV.Extracted.C12.seqqlMaxNest toks with
    | .ok (t, ps) => s!"ok {",".intercalate (fmtTreeL t)} {fmtPipes ps}"
    | .err => "err"
    | .panic => "panic"
    | .oof => "oof"
  | _, _, _ => "bad-op"

/-- `lgstr <cs> <mapping> <runes>` -> `ok <tree>` | `err` | `panic`       (SV.Parser.parseQueryRunes on `[]rune(query)`)
    `aggstr <cs> <runes>` -> `ok <leaf>` | `ok -` | `err` | `panic`            (SV.Parser.parseAggFilter) -/
def stepLegacy (cs m rs : String) : String :=
  match bool? cs, parseMapping m, (splitList rs ".").mapM parseRn with
  | some cs, some m, some rs =>
    match parseQueryRunes ⟨SV.Extracted.C12.legacyDefaultPanics, cs, m, SV.Extracted.C12.legacyRangeLowercases⟩ SV.Extracted.C12.legacyMaxNest rs with
    | .ok t => s!"ok {",".intercalate (fmtTreeL t)}"
    | .err => "err"
    | .panic => "panic"
    | .oof => "oof"
  | _, _, _ => "bad-op"

def stepAgg (cs rs : String) : String :=
  match bool? cs, (splitList rs ".").mapM parseRn with
  | some cs, some rs =>
    match parseAggFilter SV.Extracted.C12.legacyDefaultPanics SV.Extracted.C12.legacyRangeLowercases cs rs with
    | .ok (some l) => s!"ok {fmtLeaf l}"
    | .ok none => "ok -"
    | .err => "err"
    | .panic => "panic"
    | .oof => "oof"
  | _, _ => "bad-op"

/-- `lexer <qrunes>` -> `ok <tokens>`  (SV.Parser.lexAll); qrunes = `.`-separated `<rune>!<uqS>!<uqD>` with
    uq = `-` | `<rune>~<runes consumed>`; tokens = `-` | `;`-separated `<q|-><s|-><r|->:<hex bytes of the token>` -/
def parseUq (s : String) : Option (Option (Rn × Nat)) :=
  if s = "-" then some none
  else match s.splitOn "~" with
    | [r, k] => do pure (some ((← parseRn r), (← k.toNat?)))
    | _ => none

def parseQRn (s : String) : Option QRn :=
  match s.splitOn "!" with
  | [r, a, b] => do pure ⟨(← parseRn r), (← parseUq a), (← parseUq b)⟩
  | _ => none

def fmtRawTok (t : RawTok) : String :=
  (if t.quoted then "q" else "-") ++ (if t.space then "s" else "-") ++ (if t.raw then "r" else "-") ++ ":" ++
    fmtHex (t.rs.flatMap (·.bytes))

def stepLexer (q : String) : String :=
  match (splitList q ".").mapM parseQRn with
  | some q =>
    match lexAll (q.length + 1) q with
    | .ok ts => "ok " ++ fmtList fmtRawTok ts ";"
    | .err => "err"
    | .panic => "panic"
    | .oof => "oof"
  | none => "bad-op"

def step (line : String) : String :=
  match fields line with
  | ["pnot", t] =>
    match parseTree t with
    | some t => let r := propagateNot t; s!"ok {showTree r.1} {fmtBool r.2}"
    | none => "bad-op"
  | ["finish", t] =>
    match parseTree t with
    | some t => s!"ok {showTree (finish t)}"
    | none => "bad-op"
  | ["eval", k, t] =>
    match k.toNat?, parseTree t with
    | some k, some t => if k ≤ 8 then s!"ok {bits k t}" else "bad-op"
    | _, _ => "bad-op"
  | ["sqlex", cs, m, toks] => stepLex cs m toks
  | ["lexer", q] => stepLexer q
  | ["lgstr", cs, m, rs] => stepLegacy cs m rs
  | ["aggstr", cs, rs] => stepAgg cs rs
  | [cmd, m, toks] =>
    match (splitList m).mapM parseFType, (splitList toks).mapM parseTok with
    | some m, some toks =>
      let dpS := SV.Extracted.C12.seqqlDefaultPanics
      let dpL := SV.Extracted.C12.legacyDefaultPanics
      let mxS := SV.Extracted.C12.seqqlMaxNest
      let mxL := SV.Extracted.C12.legacyMaxNest
      if cmd = "sqfilter" then
        match sqFilter (tokSeqQL dpS mxS (mappingOf m)) (fuelFor toks) toks 0 0 with
        | .ok (t, rest) =>
          let where_ := match rest with
            | [] => "end"
            | t' :: _ => if t'.kind = K.pipe then "pipe" else "other"
          s!"ok {showTree t} {where_}"
        | .err => "err"
        | .panic => "panic"
        | .oof => "oof"
      else if cmd = "sqraw" then fmtRes (sqParseRaw (tokSeqQL dpS mxS (mappingOf m)) toks)
      else if cmd = "sqfull" then fmtRes (sqParse (tokSeqQL dpS mxS (mappingOf m)) toks)
      else if cmd = "lgraw" then fmtRes (lgParseRaw (tokLegacy dpL mxL (mappingOf m)) toks)
      else if cmd = "lgfull" then fmtRes (lgParse (tokLegacy dpL mxL (mappingOf m)) toks)
      else "bad-op"
    | _, _ => "bad-op"
  | _ => "bad-op"

def main : IO Unit := SV.Proto.main step
