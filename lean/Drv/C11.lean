import SeqVerif.Base.Proto
import SeqVerif.Model.Tokenizer
import SeqVerif.Extracted.C11
/-!
Driver for C11.
  `tok <k|t|p> <maxTokenSize> <cs> <partial> <maxFieldValueLength> <fieldMax> <trunes>` -> `ok <tokens>`
     (SV.Tok.keywordTokens / textTokens / pathTokens; whether the case-sensitive branch normalises invalid UTF-8 is read
      from the source: SV.Extracted.C11.csNormalizesInvalid); trunes = `-` | `.`-separated `<rune>!<hex lowerBytes>!<hex lower2Bytes>`,
     rune = `<hex bytes>/<code point>/<l><n><d><s>/<lower>`; tokens = `-` (none) | `;`-separated hex (`e` = the empty token)
  `lower <trunes>` -> `ok <hex>`   (SV.Tok.lowerTok = toLowerTryInplace)
-/
open SV SV.Proto SV.Parser SV.Tok

def parseRn (s : String) : Option Rn :=
  match s.splitOn "/" with
  | [b, cp, cls, lo] => do
    let b ← hex? b
    let cp ← cp.toNat?
    let lo ← lo.toNat?
    match cls.toList with
    | [l, n, d, sp] => pure ⟨b, cp, l = '1', n = '1', d = '1', lo, sp = '1'⟩
    | _ => none
  | _ => none

def parseTRn (s : String) : Option TRn :=
  match s.splitOn "!" with
  | [r, a, b] => do pure ⟨(← parseRn r), (← hex? a), (← hex? b)⟩
  | _ => none

def fmtTokens (ts : List (List Nat)) : String :=
  fmtList (fun t => if t.isEmpty then "e" else fmtHex t) ts ";"

def step (line : String) : String :=
  match fields line with
  | ["tok", kind, mts, cs, part, mfl, fmax, rs] =>
    match mts.toNat?, bool? cs, bool? part, mfl.toNat?, fmax.toNat?, (splitList rs ".").mapM parseTRn with
    | some mts, some cs, some part, some mfl, some fmax, some rs =>
      let c : TokCfg := ⟨mts, cs, part, mfl, SV.Extracted.C11.csNormalizesInvalid⟩
      if kind = "k" then "ok " ++ fmtTokens (keywordTokens c fmax rs)
      else if kind = "t" then "ok " ++ fmtTokens (textTokens c fmax rs)
      else if kind = "p" then "ok " ++ fmtTokens (pathTokens c fmax rs)
      else "bad-op"
    | _, _, _, _, _, _ => "bad-op"
  | ["lower", rs] =>
    match (splitList rs ".").mapM parseTRn with
    | some rs => "ok " ++ fmtHex (lowerTok rs)
    | none => "bad-op"
  | _ => "bad-op"

def main : IO Unit := SV.Proto.main step
