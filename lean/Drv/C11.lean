import SeqVerif.Base.Proto
import SeqVerif.Model.Tokenizer
import SeqVerif.Extracted.C11
/-!
Driver for C11.
  `tok <k|t|p> <maxTokenSize> <cs> <partial> <maxFieldValueLength> <fieldMax> <trunes>` -> `ok <tokens>`
     (SV.Tok.keywordTokens / textTokens / pathTokens; whether the case-sensitive branch normalises invalid UTF-8 is read
      from the source: SV.Extracted.C11.csNormalizesInvalid); trunes = `-` | `.`-separated `<rune>!<hex lowerBytes>!<hex lower2Bytes>`,
     rune = `<hex bytes>/<code point>/<l><n><d><s>/<lower>`; tokens = `-` (none) | `;`-separated hex (`e` = the empty token)
  `lower <trunes>` -> `ok <hex>`   (SV.Tok.lowerTok = toLowerTryInplace)
-/
open SV SV.Proto SV.Parser SV.Tok

def parseRn (s : String) : Option Rn :=
  match s.splitOn "/" with
  | [b, cp, cls, lo] => do
    let b ← hex? b
    let cp ← cp.toNat?
    let lo ← lo.toNat?
    match cls.toList with
    | [l, n, d, sp] => pure ⟨b, cp, l = '1', n = '1', d = '1', lo, sp = '1'⟩
    | _ => none
  | _ => none

def parseTRn (s : String) : Option TRn :=
  match s.splitOn "!" with
  | [r, a, b] => do pure ⟨(← parseRn r), (← hex? a), (← hex? b)⟩
  | _ => none

def fmtTokens (ts : List (List Nat)) : String :=
  fmtList (fun t => if t.isEmpty then "e" else fmtHex t) ts ";"

/-- `mmap <hex field> <types>` -> `ok main=<hex title>:<tt>:<size> all=<...>` | `err`   (SV.Tok.convertTypes);
    types = `,`-separated `<hex title or ->:<k|t|p|x|o>:<size>`
    `index <maxTokenSize> <cs> <partial> <fields>` -> `ok <name>=<value>;...`   (SV.Tok.indexField per field, in order);
    fields = `+`-separated `<hex key>|<types as above, titles final>|<nil or trunes>` -/
def parseTT (s : String) : Option TT :=
  if s = "k" then some .keyword else if s = "t" then some .text else if s = "p" then some .path
  else if s = "x" then some .exists else if s = "o" then some .other else none

def fmtTT : TT → String
  | .keyword => "k" | .text => "t" | .path => "p" | .exists => "x" | .other => "o"

def parseTypeIn (s : String) : Option TypeIn :=
  match s.splitOn ":" with
  | [t, k, n] => do pure ⟨(← hex? t), (← parseTT k), (← n.toNat?)⟩
  | _ => none

def fmtMType (m : MType) : String := fmtHex m.title ++ ":" ++ fmtTT m.tt ++ ":" ++ toString m.maxSize

def parseField (s : String) : Option (List Nat × List MType × Option (List TRn)) :=
  match s.splitOn "|" with
  | [k, ts, v] => do
    let k ← hex? k
    let ts ← (splitList ts).mapM fun (x : String) => (parseTypeIn x).map fun t => (⟨t.title, t.tt, t.size⟩ : MType)
    let v ← (if v = "nil" then some none else ((splitList v ".").mapM parseTRn).map some)
    pure (k, ts, v)
  | _ => none

def step (line : String) : String :=
  match fields line with
  | ["tok", kind, mts, cs, part, mfl, fmax, rs] =>
    match mts.toNat?, bool? cs, bool? part, mfl.toNat?, fmax.toNat?, (splitList rs ".").mapM parseTRn with
    | some mts, some cs, some part, some mfl, some fmax, some rs =>
      let c : TokCfg := ⟨mts, cs, part, mfl, SV.Extracted.C11.csNormalizesInvalid⟩
      if kind = "k" then "ok " ++ fmtTokens (keywordTokens c fmax rs)
      else if kind = "t" then "ok " ++ fmtTokens (textTokens c fmax rs)
      else if kind = "p" then "ok " ++ fmtTokens (pathTokens c fmax rs)
      else "bad-op"
    | _, _, _, _, _, _ => "bad-op"
  | ["mmap", fn, ts] =>
    match hex? fn, (splitList ts).mapM parseTypeIn with
    | some fn, some ts =>
      match convertTypes fn ts with
      | some (m, all) => s!"ok main={fmtMType m} all={fmtList fmtMType all}"
      | none => "err"
    | _, _ => "bad-op"
  | ["index", mts, cs, part, fs] =>
    match mts.toNat?, bool? cs, bool? part, (splitList fs "+").mapM parseField with
    | some mts, some cs, some part, some fs =>
      let c : TokCfg := ⟨mts, cs, part, SV.Extracted.C11.maxTextFieldValueLength, SV.Extracted.C11.csNormalizesInvalid⟩
      let toks := fs.flatMap fun f => indexField c f.2.1 f.1 f.2.2
      "ok " ++ fmtList (fun (t : List Nat × List Nat) => fmtHex t.1 ++ "=" ++ (if t.2.isEmpty then "e" else fmtHex t.2)) toks ";"
    | _, _, _, _ => "bad-op"
  | ["lower", rs] =>
    match (splitList rs ".").mapM parseTRn with
    | some rs => "ok " ++ fmtHex (lowerTok rs)
    | none => "bad-op"
  | _ => "bad-op"

def main : IO Unit := SV.Proto.main step
