import SeqVerif.Base.Proto
import SeqVerif.Model.Cache
import SeqVerif.Model.Budget
import SeqVerif.Extracted.C18
/-!
Driver for C18 (package cache).  Requests:

  `seq <sizeLimit> <entrySize> <op>;<op>;...`      sequential public calls (`SV.Cache.runSeq`)
      op = `n` NewCache | `g<c>.<k>.<v>.<sz>` Get, loader returns (v, sz) | `e<c>.<k>` GetWithError, loader fails |
           `p<c>.<k>` Get, loader panics | `x<c>` Release | `r` Rotate | `c` Cleanup | `z` CleanEmptyGenerations |
           `b` ReleaseBuckets | `t` / `T` one maintenance tick without / with garbage collection
  `trace <sizeLimit> <entrySize> <label>;...`       one label per critical section (`SV.Cache.run`)
      label = `n` | `G<t>.<c>.<k>` | `W<t>` | `F<t>.<v>.<sz>` | `E<t>` | `P<t>` | `x<c>` | `r` | `cb` | `ck` | `z` | `b` |
              `C` (one whole Cleanup call: `cb` followed by one `ck` per bucket)
  `split <CacheSize> <FracSize> <SortCacheSize> <effective sort size|x> <limits|->`  the cache budget (SV.Budget, with the
      rule the source has: extracted fact sortCacheCapped)
  `rb <flags as 0/1 per bucket>` / `rbold <flags>`  ReleaseBuckets (repaired / historical swap loop) on buckets 0..n-1

Response of seq/trace: `ok <outs of step 1>@<getSize>;... | size=<getSize> live=<liveSum> buckets=<ids> gens=<sizes> caches=<..>`
or `err step <i>` when the i-th (0-based) step is not enabled.
Outs: `-` | `v<val>` | `w` | `l` | `e` | `p` | `r<0|1>.<lastGenSize>` | `c<0|1>.<sizeToClean>.<gens>.<freed>.<bucketsCleaned>.<mapsRebuilt>` |
`f<n>` | `n<count>`; several outs of one op are joined by `+`.
-/
open SV SV.Proto SV.Cache

def fmtOut : Out → String
  | .none => "-"
  | .value v => s!"v{v}"
  | .waiting => "w"
  | .loading => "l"
  | .err => "e"
  | .panic => "p"
  | .rotated b n => s!"r{fmtBool b}.{n}"
  | .cleanup b t g => s!"c{fmtBool b}.{t}.{g}"
  | .freed n b => s!"f{n}{if b then "R" else ""}"
  | .count n => s!"n{n}"

/-- canonical form of the outs of one sequential op: a Cleanup pass is summarised the way `CleanStat` does -/
def fmtOuts (os : List Out) : String :=
  match os with
  | .cleanup true t g :: rest =>
    let freed := rest.filterMap fun o => match o with | .freed n _ => some n | _ => none
    let rebuilt := rest.filter fun o => match o with | .freed _ true => true | _ => false
    s!"c1.{t}.{g}.{freed.sum}.{(freed.filter (· ≠ 0)).length}.{rebuilt.length}"
  | _ => "+".intercalate (os.map fmtOut)

def genPos (s : St) (g : Nat) : String :=
  if s.stale g then "s" else
  match s.glist.findIdx? (· == g) with
  | some i => toString i
  | none => "x"

def fmtCache (s : St) (c : Nat) : String :=
  let es := (s.heap.filter fun e => e.inMap && e.cache == c).map fun e => (e.key, e)
  let es := es.mergeSort fun a b => a.1 ≤ b.1
  let body := fmtList (fun (p : Nat × Entry) =>
    s!"{p.1}:{p.2.size}:{genPos s p.2.gen}:{match p.2.st with | .valid => "v" | .loading => "l" | .abandoned => "a"}") es
  s!"{c}/{fmtBool (s.released c)}/{genPos s (s.cur c)}/{s.maxP c}/{body}"

def fmtState (s : St) : String :=
  s!"size={getSize s} live={liveSum s.heap} buckets={fmtNats s.buckets} gens={fmtInts (s.glist.map s.gsize)} caches={fmtList (fmtCache s) (List.range s.ncaches) "|"}"

def nat3? (s : String) : Option (List Nat) := natList? s "."

def parseOp (s : String) : Option Op :=
  match s.toList with
  | ['n'] => some .newCache
  | ['r'] => some .rotate
  | ['c'] => some .cleanup
  | ['z'] => some .cleanEmpty
  | ['b'] => some .releaseBuckets
  | 'g' :: rest => match nat3? (String.ofList rest) with
    | some [c, k, v, sz] => some (.get c k (.ok v sz))
    | _ => none
  | 'e' :: rest => match nat3? (String.ofList rest) with
    | some [c, k] => some (.get c k .err)
    | _ => none
  | 'p' :: rest => match nat3? (String.ofList rest) with
    | some [c, k] => some (.get c k .panic)
    | _ => none
  | 'x' :: rest => (String.ofList rest).toNat?.map .release
  | _ => none

def parseLabel (s : String) : Option Label :=
  match s.toList with
  | ['n'] => some .newCache
  | ['r'] => some .rotate
  | ['c', 'b'] => some .cleanupBegin
  | ['c', 'k'] => some .cleanupBucket
  | ['z'] => some .cleanEmpty
  | ['b'] => some .releaseBuckets
  | 'G' :: rest => match nat3? (String.ofList rest) with
    | some [t, c, k] => some (.get t c k)
    | _ => none
  | 'W' :: rest => (String.ofList rest).toNat?.map .wake
  | 'F' :: rest => match nat3? (String.ofList rest) with
    | some [t, v, sz] => some (.finish t (.ok v sz))
    | _ => none
  | 'E' :: rest => (String.ofList rest).toNat?.map fun t => .finish t .err
  | 'P' :: rest => (String.ofList rest).toNat?.map fun t => .finish t .panic
  | 'x' :: rest => (String.ofList rest).toNat?.map .release
  | _ => none

/-- sequential run that remembers `getSize` after every op; `Sum.inr gc` is one maintenance tick (`tickOps gc`),
of which only the resulting size is printed (the real tick returns nothing) -/
def goSeq (cfg : Cfg) (short : Bool := false) : St → List (Op ⊕ Bool) → Nat → List String → String
  | s, [], _, acc =>
    if short then s!"ok {fmtList id acc.reverse ";"} | size={getSize s} gens={fmtInts (s.glist.map s.gsize)}"
    else s!"ok {fmtList id acc.reverse ";"} | {fmtState s}"
  | s, .inl o :: os, i, acc =>
    match seqOp cfg s o with
    | none => s!"err step {i}"
    | some (s1, out) => goSeq cfg short s1 os (i + 1) (s!"{fmtOuts out}@{getSize s1}" :: acc)
  | s, .inr gc :: os, i, acc =>
    match runSeq cfg s (tickOps gc) with
    | none => s!"err step {i}"
    | some (s1, _) => goSeq cfg short s1 os (i + 1) (s!"{if gc then "T" else "t"}@{getSize s1}" :: acc)

def parseSeqItem (s : String) : Option (Op ⊕ Bool) :=
  if s = "t" then some (.inr false) else if s = "T" then some (.inr true) else (parseOp s).map .inl

def goTrace (cfg : Cfg) : St → List (Option Label) → Nat → List String → String
  | s, [], _, acc => s!"ok {fmtList id acc.reverse ";"} | {fmtState s}"
  | s, some l :: ls, i, acc =>
    match Cache.step cfg s l with
    | none => s!"err step {i}"
    | some (s1, out) => goTrace cfg s1 ls (i + 1) (s!"{fmtOut out}@{getSize s1}" :: acc)
  | s, none :: ls, i, acc =>
    match Cache.run cfg s (cleanupLabels cfg s) with
    | none => s!"err step {i}"
    | some (s1, outs) => goTrace cfg s1 ls (i + 1) (s!"{fmtOuts outs}@{getSize s1}" :: acc)

def flags? (s : String) : Option (List Bool) :=
  if s = "-" then some [] else s.toList.mapM fun c => if c = '1' then some true else if c = '0' then some false else none

def step (line : String) : String :=
  match fields line with
  | ["seq", lim, es, ops] =>
    match lim.toNat?, es.toNat?, (splitList ops ";").mapM parseSeqItem with
    | some lim, some es, some ops => goSeq ⟨lim, es⟩ false init ops 0 []
    | _, _, _ => "bad-op"
  | ["seqsz", lim, es, ops] =>
    match lim.toNat?, es.toNat?, (splitList ops ";").mapM parseSeqItem with
    | some lim, some es, some ops => goSeq ⟨lim, es⟩ true init ops 0 []
    | _, _, _ => "bad-op"
  | ["split", c, _, sc, "x", "-"] =>
    match c.toNat?, sc.toNat? with
    | some c, some sc =>
      if SV.Budget.acceptedOf SV.Extracted.C18.sortCacheCapped c sc then "ok accepted-by-the-model" else "ok rejected"
    | _, _ => "bad-op"
  | ["split", c, f, sc, rs, ls] =>
    match c.toNat?, f.toNat?, sc.toNat?, rs.toNat?, natList? ls with
    | some c, some f, some sc, some rs, some ls =>
      if !SV.Budget.acceptedOf SV.Extracted.C18.sortCacheCapped c sc then "ok rejected-by-the-model" else
      s!"ok sort={fmtBool (decide (rs = SV.Budget.sortSizeOf SV.Extracted.C18.sortCacheCapped c f sc))} lim={String.join ((SV.Budget.checkLimits c rs ls).map fmtBool)}"
    | _, _, _, _, _ => "bad-op"
  | ["trace", lim, es, ls] =>
    match lim.toNat?, es.toNat?, (splitList ls ";").mapM (fun x => if x = "C" then some none else (parseLabel x).map some) with
    | some lim, some es, some ls => goTrace ⟨lim, es⟩ init ls 0 []
    | _, _, _ => "bad-op"
  | ["rb", fl] =>
    match flags? fl with
    | some fl => s!"ok {fmtNats (releaseBuckets (fun i => fl.getD i false) (List.range fl.length))}"
    | none => "bad-op"
  | ["rbold", fl] =>
    match flags? fl with
    | some fl => s!"ok {fmtNats (releaseBucketsOld (fun i => fl.getD i false) (List.range fl.length))}"
    | none => "bad-op"
  | _ => "bad-op"

def main : IO Unit := SV.Proto.main step
