import SeqVerif.Base.Proto
import SeqVerif.Model.WritePath
import SeqVerif.Model.WPPlain
import SeqVerif.Model.FileWriter
import SeqVerif.Model.BulkHandler
/-!
Driver for C01.  Requests:
  `wp.run <fix 0|1> <ev;ev;...>`   ev = `B:<docs hex>:<meta hex>` | `T:<docs hex>:<meta hex>:<d|m><k>` | `R`
      -> `ok docs=<hex> meta=<hex> offD=<n> offM=<n> idx=<pos>:<hex>,...` | `panic`
  `wp.present <fix 0|1> <events> <docs hex>:<meta hex>;...`
      -> `ok up=<0|1> present=<0|1 per queried bulk>`
  `replay <meta file hex>`
      -> `ok docsPos=<n> metaPos=<n> entries=<pos>:<ext1>:<len>,...` | `panic`
  `rd <file hex> <offset>`      (ReadDocBlockPayload) -> `ok <hex>` | `err` | `panic`
  `bulk.h <count> <inflight> <limit> <ctx done from look k|-> <first acknowledged try k|->`   (GrpcV1.Bulk -> .. -> Active.Append)
      -> `ok <attempt>` | `err ctx` | `err proto` | `err limit` | `spinning`
  `fw.check <start offset> <labels>`  labels: r<off>:<len> w<off>:<0|1> q<off>:<size> n<off> k t<n> b e<0|1> x<off>:<0|1>
      -> `ok path rets=<n> syncs=<n> end=<offset>` | `err step <i>`   (is the logged trace a path of SV.FWr ?)
  `index.k <fix> <events> <ids> <tokens>`  -> `ok blocks=<sorted offsets> fetch=.. search=..` (several index workers)
  `index <fix 0|1> <events> <mid.rid;...> <token hex;...>`   (blocks packed without compression)
      -> `ok blocks=<offsets> pos=<block>.<offset>|-;... fetch=<hex>|none;... search=<mid.rid,...>;...` | `panic`
Block bytes are decoded to the model's `Blk` and must re-encode to the same bytes (else `bad-op`).
-/
open SV SV.Proto SV.WPath

/-- bytes of a complete DocBlock -> `Blk` (only accepted when `enc` gives the bytes back) -/
def decBlk (bs : Bytes) : Option Blk :=
  if bs.length < headerLen then none
  else
    let b : Blk := ⟨getCodec bs, getRaw bs, getExt1 bs, getExt2 bs, bs.drop headerLen⟩
    if enc b = bs then some b else none

def hexBlk (s : String) : Option Blk := do decBlk (← hex? s)

def parsePt (s : String) : Option CrashPt :=
  match s.toList with
  | 'd' :: k => (String.ofList k).toNat?.map .docsTorn
  | 'm' :: k => (String.ofList k).toNat?.map .metaTorn
  | _ => none

def parseEv (s : String) : Option Ev :=
  match s.splitOn ":" with
  | ["R"] => some .restart
  | ["B", d, m] => do pure (.bulk (← hexBlk d) (← hexBlk m))
  | ["T", d, m, p] => do pure (.tornBulk (← hexBlk d) (← hexBlk m) (← parsePt p))
  | _ => none

def parseHist (s : String) : Option (List Ev) := (splitList s ";").mapM parseEv

def fmtEntry (e : Entry) : String := s!"{e.pos}:{fmtHex e.blk}"

def parseID (s : String) : Option DocID :=
  match s.splitOn "." with
  | [a, b] => do pure ((← a.toNat?), (← b.toNat?))
  | _ => none

def idLe (a b : DocID) : Bool := a.1 < b.1 || (a.1 == b.1 && a.2 ≤ b.2)
def fmtID (i : DocID) : String := s!"{i.1}.{i.2}"
def fmtIDs (l : List DocID) : String := fmtList fmtID (l.mergeSort idLe).eraseDups

def parseLbl (s : String) : Option FWr.Lbl :=
  let two (r : String) : Option (Nat × Nat) :=
    match r.splitOn ":" with
    | [a, b] => do pure ((← a.toNat?), (← b.toNat?))
    | _ => none
  match s.toList with
  | ['k'] => some .wake
  | ['b'] => some .syncBegin
  | 'r' :: r => (two (String.ofList r)).map fun p => .reserve p.1 p.2
  | 'w' :: r => (two (String.ofList r)).map fun p => .written p.1 (p.2 != 0)
  | 'q' :: r => (two (String.ofList r)).map fun p => .enqueue p.1 p.2
  | 'x' :: r => (two (String.ofList r)).map fun p => .ret p.1 (p.2 != 0)
  | 'n' :: r => (String.ofList r).toNat?.map .notify
  | 't' :: r => (String.ofList r).toNat?.map .take
  | 'e' :: r => (String.ofList r).toNat?.map fun v => .syncEnd (v != 0)
  | _ => none

def step (line : String) : String :=
  match fields line with
  | ["bulk.h", count, infl, lim, cx, ak] =>
    let optNat (s : String) : Option (Option Nat) := if s = "-" then some none else s.toNat?.map some
    match count.toNat?, infl.toNat?, lim.toNat?, optNat cx, optNat ak with
    | some count, some infl, some lim, some cx, some ak =>
      let e : BulkH.Env :=
        ⟨fun i => match cx with | some k => decide (k ≤ i) | none => false,
         fun i => match ak with | some k => if k ≤ i then .acked else .notWritable | none => .notWritable, infl, lim⟩
      match BulkH.doBulk 100000 count e with
      | .ok k => s!"ok {k}"
      | .ctxErr => "err ctx"
      | .protoErr => "err proto"
      | .limitErr => "err limit"
      | .spinning => "spinning"
    | _, _, _, _, _ => "bad-op"
  | ["fw.check", start, lbls] =>
    match start.toNat?, (splitList lbls).mapM parseLbl with
    | some start, some tr =>
      match FWr.firstBad (FWr.init start) tr 0 with
      | some i => s!"err step {i}"
      | none =>
        match FWr.exec (FWr.init start) tr with
        | some st =>
          let rets := (tr.filter fun l => match l with | .ret _ _ => true | _ => false).length
          let syncs := (tr.filter fun l => match l with | .syncEnd _ => true | _ => false).length
          s!"ok path rets={rets} syncs={syncs} end={st.offset}"
        | none => "err exec"
    | _, _ => "bad-op"
  | ["index.k", fx, evs, ids, toks] =>
    -- several index workers: block numbering is a permutation; only what fetch and search serve is compared
    match bool? fx, parseHist evs, (splitList ids ";").mapM parseID, (splitList toks ";").mapM hex? with
    | some fx, some h, some ids, some toks =>
      let st := run fx init h
      if st.panicked then "panic"
      else
        let ix := buildIndex plainCodec st.idx
        let fet := fmtList (fun i => match fetch plainCodec st.docs ix i with
          | some b => fmtHex b
          | none => "none") ids ";"
        let sr := fmtList (fun t => fmtIDs (search ix t)) toks ";"
        s!"ok blocks={fmtNats (ix.blocks.mergeSort (· ≤ ·))} fetch={fet} search={sr}"
    | _, _, _, _ => "bad-op"
  | ["index", fx, evs, ids, toks] =>
    match bool? fx, parseHist evs, (splitList ids ";").mapM parseID, (splitList toks ";").mapM hex? with
    | some fx, some h, some ids, some toks =>
      let st := run fx init h
      if st.panicked then "panic"
      else
        let ix := buildIndex plainCodec st.idx
        let pos := fmtList (fun i => match lookupPos ix.positions i with
          | some p => s!"{p.1}.{p.2}"
          | none => "-") ids ";"
        let fet := fmtList (fun i => match fetch plainCodec st.docs ix i with
          | some b => fmtHex b
          | none => "none") ids ";"
        let sr := fmtList (fun t => fmtIDs (search ix t)) toks ";"
        s!"ok blocks={fmtNats ix.blocks} pos={pos} fetch={fet} search={sr}"
    | _, _, _, _ => "bad-op"
  | ["wp.run", fx, evs] =>
    match bool? fx, parseHist evs with
    | some fx, some h =>
      let st := run fx init h
      if st.panicked then "panic"
      else s!"ok docs={fmtHex st.docs} meta={fmtHex st.mfile} offD={st.offD} offM={st.offM} idx={fmtList fmtEntry st.idx}"
    | _, _ => "bad-op"
  | ["wp.present", fx, evs, qs] =>
    match bool? fx, parseHist evs, (splitList qs ";").mapM (fun q =>
        match q.splitOn ":" with
        | [d, m] => do pure ((← hexBlk d), (← hexBlk m))
        | _ => none) with
    | some fx, some h, some qs =>
      let st := run fx init h
      s!"ok up={fmtBool (!st.panicked)} present={fmtList (fun (q : Blk × Blk) => fmtBool (present st q.1 q.2)) qs}"
    | _, _, _ => "bad-op"
  | ["replay", mf] =>
    match hex? mf with
    | some bytes =>
      let r := replay bytes
      if r.panicked then "panic"
      else s!"ok docsPos={r.docsPos} metaPos={r.metaPos} entries={fmtList (fun (e : Entry) => s!"{e.pos}:{getExt1 e.blk}:{e.blk.length}") r.entries}"
    | none => "bad-op"
  | ["rd", f, off] =>
    match hex? f, off.toNat? with
    | some bytes, some off =>
      match readDocBlock (bytes.drop off) with
      | .full blk _ => s!"ok {fmtHex blk}"
      | .panic => "panic"
      | _ => "err"
    | _, _ => "bad-op"
  | _ => "bad-op"

def main : IO Unit := SV.Proto.main step
