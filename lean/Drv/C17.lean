import SeqVerif.Base.Proto
import SeqVerif.Model.DedupIndex
import SeqVerif.Model.CollectorReuse
import SeqVerif.Model.Repetitions
/-!
Driver for C17.  Requests (one per line):

  `coll <blockIndex> <metas> <appended|*> <lids|*>`
      parse a bulk into a fresh collector (`collect`), optionally `Filter(appended)`, optionally `GroupLIDsByToken(lids)`
  `setm <dp> <ids> <positions>`            `DocsPositions.SetMultiple`
  `hist <history> <tokens> <ids>`          `run Active.empty history`, then queue of every token, position and fetch of every id
  `reuse <steps>`                          ONE collector reused over a sequence of bulks (`reuseRun`), see `stepReuse`
  `conc <events> <tokens> <ids>`           `crun` of a schedule: events `|`-separated, `S<bulk>` (start) or `F<k>` (publish waiting collector k)
  `rep <interval> <idsources> <hist>`      `removeRepetitionsAdvanced`
  `merge <asc> <limit> <interval> <qprs>`  id/total/histogram part of `MergeQPRs`

Syntax: id `mid.rid`; meta `mid.rid/size/doc/tokens`, tokens `,`-separated `hexkey=hexvalue` (`-` none);
metas `;`-separated (`-` none); bulks `|`-separated (`_` = no bulk at all); position `block:offset`; dp entry `mid.rid@block:offset`;
id source `mid.rid:src`; histogram `bucket:count,...`; qpr `total/idsources/hist`, qprs `|`-separated.
-/
open SV SV.Proto

namespace C17
open SV.Collector

def parseID (s : String) : Option ID :=
  match s.splitOn "." with
  | [a, b] => do pure ((← a.toNat?), (← b.toNat?))
  | _ => none

def parseIDs (s : String) : Option (List ID) := (splitList s).mapM parseID

def parseTok (s : String) : Option MetaToken :=
  match s.splitOn "=" with
  | [k, v] => do pure ⟨(← hexGo k.toList), (← hexGo v.toList)⟩
  | _ => none

def parseMeta (s : String) : Option Meta :=
  match s.splitOn "/" with
  | [i, sz, d, ts] => do
    pure { id := (← parseID i), size := (← sz.toNat?), doc := (← d.toNat?), tokens := (← (splitList ts).mapM parseTok) }
  | _ => none

def parseBulk (s : String) : Option (List Meta) := (splitList s ";").mapM parseMeta

def parsePos (s : String) : Option DocPos :=
  match s.splitOn ":" with
  | [a, b] => do pure ((← a.toNat?), (← b.toNat?))
  | _ => none

def parseDpEntry (s : String) : Option (ID × DocPos) :=
  match s.splitOn "@" with
  | [a, b] => do pure ((← parseID a), (← parsePos b))
  | _ => none

def fmtID (i : ID) : String := s!"{i.1}.{i.2}"
def fmtIDs (l : List ID) : String := fmtList fmtID l
def fmtHexBytes (b : Bytes) : String := String.ofList (b.flatMap fun x => [hexDigit (x / 16 % 16), hexDigit (x % 16)])

def idLe (a b : ID) : Bool := a.1 < b.1 || (a.1 == b.1 && a.2 ≤ b.2)

def fmtCollectorBody (c : Collector) (groups : Option (List (List Nat))) : String :=
  let g := match groups with
    | none => "*"
    | some gs => fmtList fmtNats gs ";"
  s!"min={c.minMID} max={c.maxMID} docs={c.docsCounter} size={c.sizeCounter} tv={fmtList fmtHexBytes c.tokensValues} fl={fmtNats c.fieldsLengths} ids={fmtIDs c.ids} tid={fmtNats c.tokensInDocs} ti={fmtNats c.tokensIndex} pos={fmtNats (c.positions.map packDocPos)} groups={g}"

def fmtCollector (c : Collector) (groups : Option (List (List Nat))) : String := "ok " ++ fmtCollectorBody c groups

def stepColl (b ms app lids : String) : String :=
  match b.toNat?, parseBulk ms with
  | some b, some ms =>
    if bulkPanics ms then "panic nested-first" else
    let c0 := collect b ms
    let c? : Option Collector := if app = "*" then some c0 else (parseIDs app).map (filter c0)
    match c? with
    | none => "bad-op"
    | some c =>
      if lids = "*" then fmtCollector c none else
      match natList? lids with
      | some l => fmtCollector c (some (groupLIDsByToken c l))
      | none => "bad-op"
  | _, _ => "bad-op"

def stepSetm (dp ids ps : String) : String :=
  match (splitList dp).mapM parseDpEntry, parseIDs ids, (splitList ps).mapM parsePos with
  | some dp, some ids, some ps =>
    let r := setMultiple dp ids ps
    let sorted := r.1.mergeSort fun a b => idLe a.1 b.1
    s!"ok appended={fmtIDs r.2} dp={fmtList (fun (e : ID × DocPos) => s!"{fmtID e.1}@{packDocPos e.2}") sorted}"
  | _, _, _ => "bad-op"

def stepHist (h toks ids : String) : String :=
  match (if h = "_" then some [] else (h.splitOn "|").mapM parseBulk), (splitList toks).mapM (fun s => hexGo s.toList), parseIDs ids with
  | some h, some toks, some ids =>
    if h.any bulkPanics then "panic nested-first" else
    let a := run Active.empty h
    let q := toks.map fun t => fmtNats ((queue a t).eraseDups.mergeSort (· ≤ ·))
    let pos := ids.map fun i => match a.dp.lookup i with | none => "n" | some p => toString (packDocPos p)
    let fe := ids.map fun i => match fetch a i with | none => "n" | some d => toString d
    s!"ok ids={fmtIDs a.ids} total={a.docsTotal} raw={a.docsRaw} from={a.from_} to={a.to} blocks={a.blocks.length} q={fmtList id q ";"} pos={fmtList id pos} fetch={fmtList id fe}"
  | _, _, _ => "bad-op"

def parseDec (s : String) : Option InitDec :=
  let f (c : Char) : Option Nat := if c = 'r' then some 8 else none
  match s.toList with
  | [a, b, c, d] => some ⟨f a, f b, f c, f d⟩
  | _ => none

def parseStep (s : String) : Option Step :=
  match s.splitOn "@" with
  | [d, b, ms, app] => do
    let app ← (if app = "*" then some none else (parseIDs app).map some)
    pure ⟨(← parseDec d), (← b.toNat?), (← parseBulk ms), app⟩
  | _ => none

/-- `reuse <step>#<step>...`, step = `<decisions>@<blockIndex>@<metas>@<appended|*>`, decisions = 4 letters
`r` (re-allocate) / `k` (keep) for the ids, tokensBuf, tokensIndex, tokensValues solvers.  One collector is driven
through all steps (`reuseRun`); the answer lists the collector after every step (groups for LIDs 1..n). -/
def stepReuse (steps : String) : String :=
  match (steps.splitOn "#").mapM parseStep with
  | none => "bad-op"
  | some steps =>
    if steps.any (fun st => bulkPanics st.metas) then "panic nested-first" else
    let cs := reuseRun RCollector.new steps
    "ok " ++ "#".intercalate (cs.map fun c =>
      fmtCollectorBody c (some (groupLIDsByToken c (List.range' 1 c.ids.length))))

def parseEv (s : String) : Option Ev :=
  match s.toList with
  | 'S' :: rest => (parseBulk (String.ofList rest)).map Ev.start
  | 'F' :: rest => (String.ofList rest).toNat?.map Ev.finish
  | _ => none

def stepConc (evs toks ids : String) : String :=
  match (evs.splitOn "|").mapM parseEv, (splitList toks).mapM (fun s => hexGo s.toList), parseIDs ids with
  | some evs, some toks, some ids =>
    if (startedBulks evs).any bulkPanics then "panic nested-first" else
    let s := crun ⟨Active.empty, []⟩ evs
    let a := s.a
    let q := toks.map fun t => fmtNats ((queue a t).eraseDups.mergeSort (· ≤ ·))
    let pos := ids.map fun i => match a.dp.lookup i with | none => "n" | some p => toString (packDocPos p)
    let fe := ids.map fun i => match fetch a i with | none => "n" | some d => toString d
    s!"ok pending={s.pending.length} ids={fmtIDs a.ids} total={a.docsTotal} raw={a.docsRaw} from={a.from_} to={a.to} blocks={a.blocks.length} q={fmtList id q ";"} pos={fmtList id pos} fetch={fmtList id fe}"
  | _, _, _ => "bad-op"

end C17

namespace C17R
open SV.Repetitions

def parseSrc (s : String) : Option IDSource :=
  match s.splitOn ":" with
  | [a, b] => do pure ((← C17.parseID a), (← b.toNat?))
  | _ => none

def parseHist (s : String) : Option (List (Nat × Nat)) :=
  (splitList s).mapM fun e =>
    match e.splitOn ":" with
    | [a, b] => do pure ((← a.toNat?), (← b.toNat?))
    | _ => none

def histFn (h : List (Nat × Nat)) : Hist := fun k => (h.lookup k).getD 0

def fmtSrcs (l : List IDSource) : String := fmtList (fun (x : IDSource) => s!"{x.1.1}.{x.1.2}:{x.2}") l

def fmtHist (keys : List Nat) (h : Hist) : String :=
  fmtList (fun k => s!"{k}:{h k}") (keys.eraseDups.mergeSort (· ≤ ·))

def stepRep (iv ids hist : String) : String :=
  match iv.toNat?, (splitList ids).mapM parseSrc, parseHist hist with
  | some iv, some ids, some hist =>
    let r := removeRepetitions ids (histFn hist) iv
    let keys := hist.map (·.1) ++ (if iv > 0 then ids.map (fun x => bucketOf x.1 iv) else [])
    s!"ok ids={fmtSrcs r.1} removed={r.2.1} hist={fmtHist keys r.2.2}"
  | _, _, _ => "bad-op"

def parseQPR (s : String) : Option QPR :=
  match s.splitOn "/" with
  | [t, ids, h] => do pure ⟨(← (splitList ids).mapM parseSrc), (← t.toNat?), (← parseHist h)⟩
  | _ => none

def stepMerge (asc limit iv qs : String) : String :=
  match bool? asc, limit.toNat?, iv.toNat?, (splitList qs "|").mapM parseQPR with
  | some asc, some limit, some iv, some qs =>
    let r := mergeQPRs qs limit iv asc
    let keys := qs.flatMap (fun q => q.hist.map (·.1)) ++
      (if iv > 0 then qs.flatMap (fun q => q.ids.map (fun x => bucketOf x.1 iv)) else [])
    s!"ok ids={C17.fmtIDs (r.1.map (·.1))} total={r.2.1} hist={fmtHist keys r.2.2}"
  | _, _, _, _ => "bad-op"

end C17R

def step (line : String) : String :=
  match fields line with
  | ["coll", b, ms, app, lids] => C17.stepColl b ms app lids
  | ["setm", dp, ids, ps] => C17.stepSetm dp ids ps
  | ["hist", h, toks, ids] => C17.stepHist h toks ids
  | ["conc", evs, toks, ids] => C17.stepConc evs toks ids
  | ["reuse", steps] => C17.stepReuse steps
  | ["rep", iv, ids, hist] => C17R.stepRep iv ids hist
  | ["merge", asc, limit, iv, qs] => C17R.stepMerge asc limit iv qs
  | _ => "bad-op"

def main : IO Unit := SV.Proto.main step
