import SeqVerif.Base.Proto
import SeqVerif.Model.Replica
/-!
Driver for C09.  Request:
  `replica <coldS> <coldR> <hotS> <hotR> <attempt>;<attempt>;...`
  attempt = `<coldVisits>|<hotVisits>`, visits = `,`-separated `<shard>:<call>` (or `-`),
  call = `o` (circuit open) | `e<outs as 0/1 per replica><t|n>` (executed, timed out or not).
Response: `ok <acked 0|1> coldlog=<successful (shard:replica) calls in order> hotlog=<...>`
-/
open SV SV.Proto SV.Replica

def parseCall (s : String) : Option Call :=
  match s.toList with
  | ['o'] => some .open
  | 'e' :: rest =>
    match rest.reverse with
    | t :: bitsRev =>
      if t = 't' ∨ t = 'n' then
        (bitsRev.reverse.mapM fun c => if c = '1' then some true else if c = '0' then some false else none).map
          fun outs => Call.exec outs (t = 't')
      else none
    | [] => none
  | _ => none

def parseVisits (s : String) : Option (List (Nat × Call)) :=
  (splitList s).mapM fun v =>
    match v.splitOn ":" with
    | [a, c] => do pure ((← a.toNat?), (← parseCall c))
    | _ => none

def parseAttempt (s : String) : Option (List (Nat × Call) × List (Nat × Call)) :=
  match s.splitOn "|" with
  | [c, h] => do pure ((← parseVisits c), (← parseVisits h))
  | _ => none

def step (line : String) : String :=
  match fields line with
  | ["replica", cs, cr, hs, hr, atts] =>
    match cs.toNat?, cr.toNat?, hs.toNat?, hr.toNat?, (splitList atts ";").mapM parseAttempt with
    | some cs, some cr, some hs, some hr, some oracle =>
      let res := storeDocuments ⟨cs, cr⟩ ⟨hs, hr⟩ oracle init
      let fmtLog (l : Log) := fmtList (fun (p : Nat × Nat) => s!"{p.1}:{p.2}") l.reverse
      s!"ok {fmtBool res.1} coldlog={fmtLog res.2.coldLog} hotlog={fmtLog res.2.hotLog}"
    | _, _, _, _, _ => "bad-op"
  | _ => "bad-op"

def main : IO Unit := SV.Proto.main step
