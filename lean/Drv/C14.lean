import SeqVerif.Base.Proto
import SeqVerif.Model.Pruning
import SeqVerif.Model.C14Consts
import SeqVerif.Model.SearchDocs
import SeqVerif.Model.C03Codec
/-!
Driver for C14.  Numbers are decimal; times and durations are nanoseconds (`Int`), MIDs are `Nat`; bitmaps are hex.
A matrix over probes `p_0..p_k` is `row_0,row_1,..` with `row_i[j]` = answer for `(p_i, p_j)`: `0`/`1`/`p` (panic).

  `hb <hex> <n>`                         all `HasBitsIn(l, r)`, `l, r < n`              -> `ok <matrix>`
  `hbp <hex> <l> <r>`                    one `HasBitsIn` with Go's index panics         -> `ok 0|1` / `panic`
  `bm <size> <ops>`                      `NewBitmask(size)`, ops `s<pos>` / `c<pos>` / `g<pos>` (`,`-separated)
                                         -> `ok <hex> <get results>` / `panic`
  `dist <from> <to> <bucket> <adds> <probes>`  `NewMIDsDistribution`, `Add`s, then `midToIndex` and `IsIntersecting`
                                         -> `ok size=<n> bin=<hex> idx=<..> isect=<matrix>` / `panic`
  `json <from> <to> <bucket> <adds>`     `MarshalJSON` image and whether `UnmarshalJSON` restores the distribution
                                         -> `ok null` / `ok <from> <to> <bucket> <hex> rt=<same|notsame>` / `panic`
  `unjson <from> <to> <bucket> <hex>`    `UnmarshalJSON` of a given image
                                         -> `ok <from> <to> <bucket> <size> <hex>` / `panic`
  `info <total> <from> <to> <ct> <mids|nobuild> <probes>`   `Info{..}`, `BuildDistribution(mids)`, `IsIntersecting`, Save/Load
                                         -> `ok dist=<null|from/to/bucket/size/hex> isect=<matrix> persist=<same|notsame>`
  `frac <active|sealed> <ct> <bulks> <probes>`  info of a fraction that indexed the bulks (`;`-separated MID lists)
                                         -> `ok from=<..> to=<..> total=<..> dist=<..> isect=<matrix>`
  `prune <active|sealed>:<ct>:<bulk>;<bulk>|... <qf> <qt>`  fractions (docs `mid.rid`), reference scan and pruned scan
                                         -> `ok kept=<0/1 per fraction> all=<ids> pruned=<ids>`
-/
open SV SV.Proto SV.Bitmask SV.Dist SV.FracInfo SV.Pruning

/-- the constants re-extracted from /repo, the very ones the theorems are instantiated at -/
def consts : Consts := FracInfo.extractedConsts

def optChar : Option Bool → Char
  | none => 'p'
  | some true => '1'
  | some false => '0'

def matrix (ps : List Nat) (f : Nat → Nat → Option Bool) : String :=
  fmtList (fun a => String.ofList (ps.map fun b => optChar (f a b))) ps

def fmtDist (d : Dist) : String :=
  s!"{d.dfrom}/{d.dto}/{d.bucket}/{d.mask.size}/{fmtHex d.mask.bin}"

def fmtDistOpt : Option Dist → String
  | none => "null"
  | some d => if d.bucket = 0 then "null" else fmtDist d

/-- the sequence of `Add`s with Go's panics -/
def addAll? (d : Dist) : List Nat → Option Dist
  | [] => some d
  | m :: ms => (Dist.add? d m).bind fun d' => addAll? d' ms

def bmOps (bin : List Nat) (acc : List String) : List String → Option (List Nat × List String)
  | [] => some (bin, acc.reverse)
  | op :: ops =>
    match op.toList with
    | 's' :: r => match (String.ofList r).toNat? with
      | some p => (Bitmask.set? bin p true).bind fun b => bmOps b acc ops
      | none => none
    | 'c' :: r => match (String.ofList r).toNat? with
      | some p => (Bitmask.set? bin p false).bind fun b => bmOps b acc ops
      | none => none
    | 'g' :: r => match (String.ofList r).toNat? with
      | some p => (Bitmask.get? bin p).bind fun v => bmOps bin (fmtBool v :: acc) ops
      | none => none
    | _ => none

def parseBulks (s : String) : Option (List (List Nat)) :=
  (splitList s ";").mapM fun b => natList? b

def parseDocs (s : String) : Option (List (Nat × Nat)) :=
  (splitList s).mapM fun d =>
    match d.splitOn "." with
    | [a, b] => do pure ((← a.toNat?), (← b.toNat?))
    | _ => none

/-- `mid.rid@pos` entries of a bulk -/
def parseEntries (s : String) : Option (List Entry) :=
  (splitList s).mapM fun d =>
    match d.splitOn "@" with
    | [idS, p] =>
      match idS.splitOn "." with
      | [a, b] => do pure (((← a.toNat?), (← b.toNat?)), (← p.toNat?))
      | _ => none
    | _ => none

def parseFrac (s : String) : Option Frac :=
  match s.splitOn ":" with
  | [kind, ct, bulks] => do
    let ct ← ct.toNat?
    let bs ← (splitList bulks ";").mapM parseDocs
    let mids := bs.map (·.map Prod.fst)
    if kind = "active" then pure ⟨mids.foldl appendBulk (newInfo ct), bs.flatten⟩
    else if kind = "sealed" then pure ⟨FracInfo.sealed consts ct mids, bs.flatten⟩
    else if kind = "loaded" then (FracInfo.persist? (FracInfo.sealed consts ct mids)).map fun i => ⟨i, bs.flatten⟩
    else none
  | _ => none

def fmtIDs (ids : List (Nat × Nat)) : String := fmtList (fun (p : Nat × Nat) => s!"{p.1}.{p.2}") ids

def step (line : String) : String :=
  match fields line with
  | ["hb", hex, n] =>
    match hex? hex, n.toNat? with
    | some bin, some n => s!"ok {matrix (List.range n) fun l r => hasBitsIn? bin l r}"
    | _, _ => "bad-op"
  | ["hbp", hex, l, r] =>
    match hex? hex, l.toNat?, r.toNat? with
    | some bin, some l, some r =>
      match hasBitsIn? bin l r with
      | some b => s!"ok {fmtBool b}"
      | none => "panic"
    | _, _, _ => "bad-op"
  | ["bm", size, ops] =>
    match size.toInt? with
    | some size =>
      match (Bitmask.new? size).bind fun b => bmOps b.bin [] (splitList ops) with
      | some (bin, gets) => s!"ok {fmtHex bin} {fmtList id gets}"
      | none => "panic"
    | none => "bad-op"
  | ["dist", f, t, b, adds, probes] =>
    match f.toInt?, t.toInt?, b.toInt?, natList? adds, natList? probes with
    | some f, some t, some b, some adds, some ps =>
      match (Dist.new? f t b).bind fun d => addAll? d adds with
      | none => "panic"
      | some d =>
        s!"ok size={d.mask.size} bin={fmtHex d.mask.bin} idx={fmtInts (ps.map (midToIndex d))} isect={matrix ps (Dist.isIntersecting? d)}"
    | _, _, _, _, _ => "bad-op"
  | ["json", f, t, b, adds] =>
    match f.toInt?, t.toInt?, b.toInt?, natList? adds with
    | some f, some t, some b, some adds =>
      match (Dist.new? f t b).bind fun d => addAll? d adds with
      | none => "panic"
      | some d =>
        match Dist.marshal d with
        | none => "ok null"
        | some j =>
          let rt := if Dist.unmarshal? j = some d then "same" else "notsame"
          s!"ok {j.jfrom} {j.jto} {j.jbucket} {fmtHex j.bitmask} rt={rt}"
    | _, _, _, _ => "bad-op"
  | ["unjson", f, t, b, hex] =>
    match f.toNat?, t.toNat?, b.toNat?, hex? hex with
    | some f, some t, some b, some bin =>
      match Dist.unmarshal? ⟨f, t, b, bin⟩ with
      | none => "panic"
      | some d => s!"ok {d.dfrom} {d.dto} {d.bucket} {d.mask.size} {fmtHex d.mask.bin}"
    | _, _, _, _ => "bad-op"
  | ["info", total, f, t, ct, mids, probes] =>
    match total.toNat?, f.toNat?, t.toNat?, ct.toNat?, natList? probes with
    | some total, some f, some t, some ct, some ps =>
      let s0 : Info := ⟨total, f, t, ct, none⟩
      let s? : Option Info := if mids = "nobuild" then some s0 else (natList? mids).map (buildDistribution consts s0)
      match s? with
      | none => "bad-op"
      | some s =>
        let persist := if FracInfo.persist? s = some s then "same" else "notsame"
        s!"ok dist={fmtDistOpt s.dist} isect={matrix ps (FracInfo.isIntersecting? s)} persist={persist}"
    | _, _, _, _, _ => "bad-op"
  | ["frac", kind, ct, bulks, probes] =>
    match ct.toNat?, parseBulks bulks, natList? probes with
    | some ct, some bs, some ps =>
      let s : Info :=
        if kind = "sealed" then FracInfo.sealed consts ct bs
        else if kind = "legacy" then legacyEntry (FracInfo.sealed consts ct bs)
        else bs.foldl appendBulk (newInfo ct)
      s!"ok from={s.ifrom} to={s.ito} total={s.docsTotal} dist={fmtDistOpt s.dist} isect={matrix ps (FracInfo.isIntersecting? s)}"
    | _, _, _ => "bad-op"
  | ["prune", fracs, qf, qt] =>
    match (splitList fracs "|").mapM parseFrac, qf.toNat?, qt.toNat? with
    | some fs, some qf, some qt =>
      let kept := String.ofList (fs.map fun f => if FracInfo.isIntersecting f.info qf qt then '1' else '0')
      s!"ok kept={kept} all={fmtIDs (scanAll fs qf qt)} pruned={fmtIDs (scanPruned fs qf qt)}"
    | _, _, _ => "bad-op"
  | ["collect", ids, appended] =>
    -- `collect <collector ids mid.rid,..> <appended ids | all>`: stats after AppendMeta of all ids and, unless `all`,
    -- Filter(appended) -> `ok <MinMID> <MaxMID> <surviving ids>`
    match parseDocs ids with
    | some ids =>
      let surv? : Option (List (Nat × Nat)) :=
        if appended = "all" then some ids else (parseDocs appended).map fun a => ids.filter fun id => decide (id ∈ a)
      match surv? with
      | some surv => s!"ok {(collectorStats surv).1} {(collectorStats surv).2} {fmtIDs surv}"
      | none => "bad-op"
    | none => "bad-op"
  | ["ingest", ct, hist, probes] =>
    -- `ingest <ct> <bulk;bulk;.. of mid.rid@pos> <probes>`: the active fraction after the history of bulks:
    -- per bulk what the worker hands to UpdateStats and AppendIDs, then the info
    match ct.toNat?, (splitList hist ";").mapM parseEntries, natList? probes with
    | some ct, some hist, some ps =>
      let st := hist.foldl ingestBulk (newActive ct)
      let steps := (List.range hist.length).map fun i =>
        let before := (hist.take i).foldl ingestBulk (newActive ct)
        let r := setMultiple before.pos (hist.getD i [])
        let surv := survivors ((hist.getD i []).map Prod.fst) r.2
        s!"{(collectorStats surv).1}/{(collectorStats surv).2}/{r.2.length}/{fmtIDs surv}"
      s!"ok steps={fmtList id steps ";"} from={st.info.ifrom} to={st.info.ito} total={st.info.docsTotal} ids={fmtIDs st.ids} lids={fmtIDs st.lids} isect={matrix ps (FracInfo.isIntersecting? st.info)}"
    | _, _, _ => "bad-op"
  | ["ingeststeps", hist] =>
    -- per bulk of the history: `MinMID/MaxMID/DocsCounter/collector IDs` as handed to UpdateStats / AppendIDs
    match (splitList hist ";").mapM parseEntries with
    | some hist =>
      let steps := (List.range hist.length).map fun i =>
        let before := (hist.take i).foldl ingestBulk (newActive 0)
        let r := setMultiple before.pos (hist.getD i [])
        let surv := survivors ((hist.getD i []).map Prod.fst) r.2
        s!"{(collectorStats surv).1}/{(collectorStats surv).2}/{r.2.length}/{fmtIDs surv}"
      s!"ok {fmtList id steps ";"}"
    | none => "bad-op"
  | ["midsrt", mids] =>
    -- `midsrt <mids>`: DiskIDsBlock.packMIDs then UnpackCache.unpackMIDs (C03's codec model) -> `ok <packed bytes> <mids>`
    match natList? mids with
    | some ms =>
      match SV.C03.unpackDeltas (SV.C03.packDeltas ms) with
      | some r => s!"ok {(SV.C03.packDeltas ms).length} {fmtNats r}"
      | none => "panic"
    | none => "bad-op"
  | ["ensured", desc, ids, next] =>
    -- `ensured <desc 0|1> <ids mid.rid,..> <from:to | none>`: calcEnsuredIDsCount(ids, [next fraction], order) -> `ok n`
    match bool? desc, parseDocs ids with
    | some desc, some ids =>
      let keys := ids.map fun p => SV.Merge.key p.1 p.2
      if next = "none" then s!"ok {SV.Merge.calcEnsured desc keys []}"
      else match next.splitOn ":" with
        | [f, t] => match f.toNat?, t.toNat? with
          | some f, some t => s!"ok {SV.Merge.calcEnsured desc keys [⟨1, f, t, []⟩]}"
          | _, _ => "bad-op"
        | _ => "bad-op"
    | _, _ => "bad-op"
  | _ => "bad-op"

def main : IO Unit := SV.Proto.main step
