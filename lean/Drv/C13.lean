import SeqVerif.Base.Proto
import SeqVerif.Model.PatternGlob
import SeqVerif.Model.PatternSpecWith
import SeqVerif.Model.PatternDigits
/-!
Driver for C13.  Byte strings: hex, `_` = empty.  Lists: `,`-separated, `-` = empty list.
Terms: `*` or `T<hex>` (`T_` = empty text).  Token: `L/<terms>` or `R/<from>/<to>/<incFrom><incTo>` with an end
`*` or `T<hex>`.  Number oracle (only needed for ranges): last field `num=<hex>:<key>;...` (strings that
`strconv.ParseFloat` accepts as finite, with their order key), `num=-` if none.

  pf <pat>                                   -> ok <prefFunc> | panic
  find <s> <pat>                             -> ok <end | -1> | panic
  seq <s> <frag;frag;...>                    -> ok <n found> <n fragments> | panic
  check <terms> <token> <narrowed 0|1>       -> ok <0|1> | panic      (literalSearch / wildcardSearch .check)
  glob <terms> <token>                       -> ok <0|1>              (declarative matcher globB)
  specleaf <token> <value>                   -> ok <0|1>              (SV.Spec.Leaf.valMatch of the shared Spec)
  specleafw <token> <value> num=...          -> ok <0|1>              (SV.Spec.Leaf.valMatchWith, reading = the oracle table)
  bcmp <a> <b>                               -> ok lt|eq|gt           (bytes.Compare as modelled: dictionary / text-range order)
  dval <value>                               -> ok <n> | ok none      (digitsNat: unbounded value of an all-digit string)
  wf <terms>                                 -> ok <0|1>              (hypothesis WF of c13_wildcard_iff_glob)
  rcheck <R/...> <token> num=...             -> ok <n|t> <0|1>        (n = numeric search chosen, t = text)
  search <token> <ordered> <base> <dict> num=...   -> ok <tids> | panic
  active <token> <tid:hex,...> num=...       -> ok <tids> | panic     (TokenList.FindPattern)
  pget <base> <block;block> <tids>           -> ok <hex,...>          (token.Provider.GetToken, call sequence)
  sealedseq <base@blocks+base@blocks> <fieldIdx=token|...> num=...  -> ok <tids> | <tids> | ...   (one index, call sequence)
  select <hint> <minVal> <maxVals>           -> ok <l> <r>
  sealed <token> <base> <block;block> num=...      -> ok <tids> | panic
  maxkey                                     -> ok <key of math.MaxFloat64>
-/
open SV SV.Proto SV.Kmp SV.Pattern

def bytes? (s : String) : Option Bytes := if s = "_" then some [] else hexGo s.toList

def bytesList? (s : String) (sep : String := ",") : Option (List Bytes) := (splitList s sep).mapM bytes?

def term? (s : String) : Option Term :=
  if s = "*" then some .star
  else match s.toList with
    | 'T' :: rest => (bytes? (String.ofList rest)).map .text
    | _ => none

def terms? (s : String) : Option (List Term) := (splitList s).mapM term?

def end? (s : String) : Option (Option Bytes) :=
  if s = "*" then some none
  else match s.toList with
    | 'T' :: rest => (bytes? (String.ofList rest)).map some
    | _ => none

def token? (s : String) : Option Token :=
  match s.splitOn "/" with
  | ["L", ts] => (terms? ts).map .literal
  | ["R", f, t, inc] =>
    match end? f, end? t, inc.toList with
    | some f, some t, [a, b] =>
      if (a = '0' ∨ a = '1') ∧ (b = '0' ∨ b = '1') then some (.range ⟨f, t, a = '1', b = '1'⟩) else none
    | _, _, _ => none
  | _ => none

def numTable? (s : String) : Option (List (Bytes × Int)) :=
  match s.splitOn "=" with
  | ["num", tab] =>
    (splitList tab ";").mapM fun e =>
      match e.splitOn ":" with
      | [h, k] => do pure ((← bytes? h), (← k.toInt?))
      | _ => none
  | _ => none

def mkPf (tab : List (Bytes × Int)) (b : Bytes) : Option Int := (tab.find? fun e => e.1 == b).map (·.2)

def fmtB (b : Bytes) : String := if b.isEmpty then "_" else fmtHex b

def fmtTids : Option (List Nat) → String
  | none => "panic"
  | some l => "ok " ++ fmtNats l

def step (line : String) : String :=
  match fields line with
  | ["maxkey"] => s!"ok {maxFloatKey}"
  | ["pf", p] =>
    match bytes? p with
    | some p => match newSubstringPattern p with
      | none => "panic"
      | some sp => "ok " ++ fmtNats sp.pf
    | none => "bad-op"
  | ["find", s, p] =>
    match bytes? s, bytes? p with
    | some s, some p => match newSubstringPattern p with
      | none => "panic"
      | some sp => match findSubstring s sp with
        | none => "ok -1"
        | some e => s!"ok {e}"
    | _, _ => "bad-op"
  | ["seq", s, fr] =>
    match bytes? s, bytesList? fr ";" with
    | some s, some fr => match newSubstringPatterns fr with
      | none => "panic"
      | some sps => s!"ok {findSequence s sps} {sps.length}"
    | _, _ => "bad-op"
  | ["check", ts, v, n] =>
    match terms? ts, bytes? v, bool? n with
    | some ts, some v, some n => match checkTerms ts n v with
      | none => "panic"
      | some b => "ok " ++ fmtBool b
    | _, _, _ => "bad-op"
  | ["glob", ts, v] =>
    match terms? ts, bytes? v with
    | some ts, some v => "ok " ++ fmtBool (globB ts v)
    | _, _ => "bad-op"
  | ["specleaf", tk, v] =>
    match token? tk, bytes? v with
    | some tk, some v => "ok " ++ fmtBool ((specLeaf [] tk).valMatch v)
    | _, _ => "bad-op"
  | ["specleafw", tk, v, num] =>
    match token? tk, bytes? v, numTable? num with
    | some tk, some v, some tab => "ok " ++ fmtBool ((specLeaf [] tk).valMatchWith (mkPf tab) v)
    | _, _, _ => "bad-op"
  | ["bcmp", a, b] =>
    match bytes? a, bytes? b with
    | some a, some b => "ok " ++ (match bcmp a b with | .lt => "lt" | .eq => "eq" | .gt => "gt")
    | _, _ => "bad-op"
  | ["dval", v] =>
    match bytes? v with
    | some v => match digitsNat v with
      | some n => s!"ok {n}"
      | none => "ok none"
    | none => "bad-op"
  | ["wf", ts] =>
    match terms? ts with
    | some ts => "ok " ++ fmtBool (wfB ts)
    | none => "bad-op"
  | ["rcheck", tk, v, num] =>
    match token? tk, bytes? v, numTable? num with
    | some (.range r), some v, some tab =>
      let pf := mkPf tab
      match newRangeNumberSearch pf maxFloatKey r with
      | some s => "ok n " ++ fmtBool (s.check pf v)
      | none => "ok t " ++ fmtBool (r.checkText v)
    | _, _, _ => "bad-op"
  | ["search", tk, ord, base, dict, num] =>
    match token? tk, bool? ord, base.toNat?, bytesList? dict, numTable? num with
    | some tk, some ord, some base, some dict, some tab =>
      fmtTids (search (mkPf tab) maxFloatKey tk ⟨base, dict, ord⟩)
    | _, _, _, _, _ => "bad-op"
  | ["active", tk, ents, num] =>
    let ent? (e : String) : Option (Nat × Bytes) :=
      match e.splitOn ":" with
      | [t, h] => do pure ((← t.toNat?), (← bytes? h))
      | _ => none
    match token? tk, (splitList ents).mapM ent?, numTable? num with
    | some tk, some ents, some tab => fmtTids (activeFind (mkPf tab) maxFloatKey tk ents)
    | _, _, _ => "bad-op"
  | ["pget", base, blocks, tids] =>
    match base.toNat?, (splitList blocks ";").mapM (bytesList? ·), natList? tids with
    | some base, some blocks, some tids =>
      "ok " ++ fmtList fmtB (providerGetTokens (mkEntries base blocks) blocks none tids)
    | _, _, _ => "bad-op"
  | ["sealedseq", flds, calls, num] =>
    let fld? (f : String) : Option (Nat × List (List Bytes)) :=
      match f.splitOn "@" with
      | [b, bl] => do pure ((← b.toNat?), (← (splitList bl ";").mapM (bytesList? ·)))
      | _ => none
    let call? (c : String) : Option (Nat × Token) :=
      match c.splitOn "=" with
      | [i, t] => do pure ((← i.toNat?), (← token? t))
      | _ => none
    match (splitList flds "+").mapM fld?, (splitList calls "|").mapM call?, numTable? num with
    | some flds, some calls, some tab =>
      "ok " ++ " | ".intercalate ((sealedSearchSeq (mkPf tab) maxFloatKey flds calls).map fun r =>
        match r with | none => "panic" | some l => fmtNats l)
    | _, _, _ => "bad-op"
  | ["select", hint, mn, mx] =>
    match bytes? hint, bytes? mn, bytesList? mx with
    | some hint, some mn, some mx =>
      let lr := selectEntries hint mn mx
      s!"ok {lr.1} {lr.2}"
    | _, _, _ => "bad-op"
  | ["sealed", tk, base, blocks, num] =>
    match token? tk, base.toNat?, (splitList blocks ";").mapM (bytesList? ·), numTable? num with
    | some tk, some base, some blocks, some tab =>
      fmtTids (sealedSearch (mkPf tab) maxFloatKey tk base blocks)
    | _, _, _, _ => "bad-op"
  | _ => "bad-op"

def main : IO Unit := SV.Proto.main step
