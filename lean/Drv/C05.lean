import SeqVerif.Base.Proto
import SeqVerif.Model.SearchDocs
import SeqVerif.Model.ApiSearch
import SeqVerif.Model.MergeAggs
/-!
Driver for C05.  Lists: `,`; IDs `mid:rid`; QPR = `<ids>/<total>/<hist>` with hist = `nil` | `-` | `k=v,...`;
several QPRs / fractions separated by `;`.  Requests:
  `merge <desc> <limit> <histInterval> <dstQPR> <qpr;qpr;...>`          -> `ok <qpr>` | `panic nil-map`
  `ensured <desc> <ids> <from:to,...>`                                   -> `ok <n>`
  `sortfracs <desc> <from:to,...>`                                       -> `ok <sort keys in order>`
  `filter <from> <to> <docsTotal:from:to,...>`                           -> `ok <kept indices>`
  `paginate <offset> <size> <ids>`                                       -> `ok <ids> <size>`
  `searchdocs <desc> <withTotal> <hi> <hasAgg> <perIter> <maxHits> <from> <to> <limit> <frac;frac;...>`
        frac = `<docsTotal>/<from>/<to>/<ids>`                           -> `ok <qpr>` | `err too-many-fractions`
  `proxymerge <desc> <offset> <size> <hi> <qpr;qpr;...>`                 -> `ok <qpr>` | `panic nil-map`
Printed histogram: entries sorted by key.
-/
open SV SV.Proto SV.Merge SV.Api

def parseId (s : String) : Option Nat :=
  match s.splitOn ":" with
  | [m, r] => do
    let m ← m.toNat?
    let r ← r.toNat?
    if r < R then pure (key m r) else none
  | _ => none

def parseIds (s : String) : Option (List Nat) := (splitList s).mapM parseId

def fmtIds (ids : List Nat) : String := fmtList (fun k => s!"{midOf k}:{ridOf k}") ids

def parseKV (e : String) : Option (Nat × Nat) :=
  match e.splitOn "=" with
  | [k, v] => do
    let k ← k.toNat?
    let v ← v.toNat?
    pure (k, v)
  | _ => none

def parseHist (s : String) : Option (Option Hist) :=
  if s = "nil" then some none else
  match (splitList s).mapM parseKV with
  | some h => some (some h)
  | none => none

def insertKV (p : Nat × Nat) : List (Nat × Nat) → List (Nat × Nat)
  | [] => [p]
  | q :: qs => if q.1 < p.1 then q :: insertKV p qs else p :: q :: qs

def fmtHist (h : Option Hist) : String :=
  match h with
  | none => "nil"
  | some h => fmtList (fun (p : Nat × Nat) => s!"{p.1}={p.2}") (h.foldr insertKV [])

def parseQPR (s : String) : Option QPR :=
  match s.splitOn "/" with
  | [ids, total, hist] => do pure { ids := (← parseIds ids), total := (← total.toNat?), hist := (← parseHist hist) }
  | _ => none

def fmtQPR (q : QPR) : String := s!"{fmtIds q.ids}/{q.total}/{fmtHist q.hist}"

def parseQPRs (s : String) : Option (List QPR) := (splitList s ";").mapM parseQPR

def parseFrac (s : String) : Option Frac :=
  match s.splitOn "/" with
  | [dt, f, t, ids] => do
    pure { docsTotal := (← dt.toNat?), from_ := (← f.toNat?), to_ := (← t.toNat?), docs := (← parseIds ids) }
  | _ => none

def parseFT (s : String) : Option Frac :=
  match s.splitOn ":" with
  | [f, t] => do pure { docsTotal := 1, from_ := (← f.toNat?), to_ := (← t.toNat?), docs := [] }
  | [dt, f, t] => do pure { docsTotal := (← dt.toNat?), from_ := (← f.toNat?), to_ := (← t.toNat?), docs := [] }
  | _ => none

def indicesWhere {α} (p : α → Bool) (xs : List α) : List Nat :=
  ((List.range xs.length).zip xs).filterMap fun (i, x) => if p x then some i else none

def parseRaw (s : String) : Option RawFrac :=
  match s.splitOn "/" with
  | [dt, f, t, ids] => do
    pure { docsTotal := (← dt.toNat?), from_ := (← f.toNat?), to_ := (← t.toNat?), docs := (← parseIds ids) }
  | _ => none

def fmtResp : Resp → String
  | .ok q => s!"ok {fmtQPR q}"
  | .wantsOldData => "code INGESTOR_QUERY_WANTS_OLD_DATA"
  | .tooManyFractions => "code TOO_MANY_FRACTIONS_HIT"
  | .panic => "panic"

def fmtBits (n : Nat) (vs : List Nat) : String := String.join ((List.range n).map fun i => if vs.contains i then "1" else "0")

/-- `grpc <hot> <mature> <oldestCT> <perIter> <maxHits> <from> <to> <size> <offset> <interval> <wt> <order> <fracs>` -/
def stepGrpc (f : List String) : String :=
  match f with
  | [hot, mature, oldest, per, mh, from_, to_, size, off, iv, wt, order, fracs] =>
    match bool? hot, bool? mature, oldest.toNat?, per.toNat?, mh.toNat?, from_.toInt?, to_.toInt?, size.toInt?, off.toInt?,
        iv.toInt?, bool? wt, order.toInt?, (splitList fracs ";").mapM parseRaw with
    | some hot, some mature, some oldest, some per, some mh, some from_, some to_, some size, some off, some iv, some wt,
        some order, some fs =>
      fmtResp (grpcSearch ⟨hot, mature, oldest, per, mh⟩ fs ⟨from_, to_, size, off, iv, wt, order, false⟩)
    | _, _, _, _, _, _, _, _, _, _, _, _, _ => "bad-op"
  | _ => "bad-op"

/-- `proxyreq <shuffle> <perIter> <maxHits> <from> <to> <size> <offset> <interval> <wt> <order> <shard|shard|...>`:
two replicas per shard serving the same store, replica 0 of odd shards down, shuffle = "replica 1 first" -/
def stepProxy (f : List String) : String :=
  match f with
  | [shuffle, per, mh, from_, to_, size, off, iv, wt, order, shards] =>
    match bool? shuffle, per.toNat?, mh.toNat?, from_.toNat?, to_.toNat?, size.toInt?, off.toInt?, iv.toNat?, bool? wt,
        order.toNat?, (shards.splitOn "|").mapM (fun s => (splitList s ";").mapM parseRaw) with
    | some shuffle, some per, some mh, some from_, some to_, some size, some off, some iv, some wt, some order, some shs =>
      let r : ProxyReq := ⟨from_, to_, size, off, iv, wt, order⟩
      let visit := if shuffle then [1, 0] else [0, 1]
      let ups := (List.range shs.length).map fun s => [decide (s % 2 = 0), true]
      let answers := match apiRequest r with
        | none => []
        | some sr => shs.map fun fs => grpcSearch ⟨false, false, 0, per, mh⟩ fs sr
      let asked := ",".intercalate (ups.map fun up => fmtBits 2 (visited visit up))
      match proxySearch r answers with
      | .ok q => s!"ok {fmtQPR q} asked={asked}"
      | .invalidArgument => "err invalid-argument"
      | .tooManyFractions => "err too-many-fractions"
      | .panic => "panic"
      | .otherError => "err other"
    | _, _, _, _, _, _, _, _, _, _, _ => "bad-op"
  | _ => "bad-op"

/-! aggregations: `nil` | `-` | `agg&agg...`, agg = `<notExists>#<bin>+<bin>...`,
bin = `<mid>~<token hex>~<min>~<max>~<sum>~<total>~<notExists>~<samples separated by '.'>` (min/max `x` when total = 0) -/

def parseSCf (f : List String) : Option (Agg.Bin × Agg.SC) :=
  match f with
  | [mid, tok, mn, mx, sum, total, ne, samples] => do
    let total ← total.toNat?
    let mn ← if mn = "x" then some Agg.maxInt64 else mn.toInt?
    let mx ← if mx = "x" then some Agg.minInt64 else mx.toInt?
    pure (⟨← mid.toNat?, tok⟩, ⟨mn, mx, ← sum.toInt?, total, ← ne.toNat?, ← (splitList samples ".").mapM String.toInt?⟩)
  | _ => none

def parseAgg (s : String) : Option Agg.AS :=
  match s.splitOn "#" with
  | [ne, bins] => do pure ⟨← (splitList bins "+").mapM (fun b => parseSCf (b.splitOn "~")), ← ne.toNat?⟩
  | _ => none

def parseAggs (s : String) : Option (Option (List Agg.AS)) :=
  if s = "nil" then some none else ((splitList s "&").mapM parseAgg).map some

def insertBin (p : Agg.Bin × Agg.SC) : List (Agg.Bin × Agg.SC) → List (Agg.Bin × Agg.SC)
  | [] => [p]
  | q :: qs => if q.1.mid < p.1.mid ∨ (q.1.mid = p.1.mid ∧ q.1.token < p.1.token) then q :: insertBin p qs else p :: q :: qs

def insertInt (v : Int) : List Int → List Int
  | [] => [v]
  | w :: ws => if w < v then w :: insertInt v ws else v :: w :: ws

def fmtBin (p : Agg.Bin × Agg.SC) : String :=
  let c := p.2
  let mm := if c.total = 0 then "x~x" else s!"{c.min}~{c.max}"
  s!"{p.1.mid}~{p.1.token}~{mm}~{c.sum}~{c.total}~{c.notExists}~{fmtList toString (c.samples.foldr insertInt []) "."}"

def fmtAggs (a : Option (List Agg.AS)) : String :=
  match a with
  | none => "nil"
  | some as => fmtList (fun (x : Agg.AS) => s!"{x.notExists}#{fmtList fmtBin (x.bins.foldr insertBin []) "+"}") as "&"

def step (line : String) : String :=
  match fields line with
  | ["mergeaggs", dst, qs] =>
    match parseAggs dst, (splitList qs ";").mapM parseAggs with
    | some dst, some qs =>
      match mergeAggs dst qs with
      | none => "panic index"
      | some r => s!"ok {fmtAggs r}"
    | _, _ => "bad-op"
  | "grpc" :: rest => stepGrpc rest
  | "proxyreq" :: rest => stepProxy rest
  | ["merge", desc, limit, hi, dst, qs] =>
    match bool? desc, limit.toNat?, hi.toNat?, parseQPR dst, parseQPRs qs with
    | some desc, some limit, some hi, some dst, some qs =>
      if mergePanics desc dst qs hi then "panic nil-map" else s!"ok {fmtQPR (mergeQPRs desc dst qs limit hi)}"
    | _, _, _, _, _ => "bad-op"
  | ["ensured", desc, ids, fts] =>
    match bool? desc, parseIds ids, (splitList fts).mapM parseFT with
    | some desc, some ids, some rest => s!"ok {calcEnsured desc ids rest}"
    | _, _, _ => "bad-op"
  | ["sortfracs", desc, fts] =>
    match bool? desc, (splitList fts).mapM parseFT with
    | some desc, some fs => s!"ok {fmtNats ((sortFracs desc fs).map fun f => if desc then f.to_ else f.from_)}"
    | _, _ => "bad-op"
  | ["filter", from_, to_, fts] =>
    match from_.toNat?, to_.toNat?, (splitList fts).mapM parseFT with
    | some from_, some to_, some fs => s!"ok {fmtNats (indicesWhere (isIntersecting · from_ to_) fs)}"
    | _, _, _ => "bad-op"
  | ["paginate", off, size, ids] =>
    match off.toNat?, size.toNat?, parseIds ids with
    | some off, some size, some ids => s!"ok {fmtIds (paginate ids off size).1} {(paginate ids off size).2}"
    | _, _, _ => "bad-op"
  | ["searchdocs", desc, wt, hi, agg, per, maxHits, from_, to_, limit, fracs] =>
    match bool? desc, bool? wt, hi.toNat?, bool? agg, per.toNat?, maxHits.toNat?, from_.toNat?, to_.toNat?, limit.toNat?,
        (splitList fracs ";").mapM parseFrac with
    | some desc, some wt, some hi, some agg, some per, some maxHits, some from_, some to_, some limit, some fs =>
      match searchDocs { desc := desc, withTotal := wt, hi := hi, hasAgg := agg, perIter := per, maxHits := maxHits } fs from_ to_ limit with
      | none => "err too-many-fractions"
      | some q => s!"ok {fmtQPR q}"
    | _, _, _, _, _, _, _, _, _, _ => "bad-op"
  | ["proxymerge", desc, off, size, hi, qs] =>
    match bool? desc, off.toNat?, size.toNat?, hi.toNat?, parseQPRs qs with
    | some desc, some off, some size, some hi, some qs =>
      if mergePanics desc emptyQPR qs hi then "panic nil-map" else s!"ok {fmtQPR (proxyMerge desc qs off size hi)}"
    | _, _, _, _, _ => "bad-op"
  | _ => "bad-op"

def main : IO Unit := SV.Proto.main step
