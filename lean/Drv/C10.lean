import SeqVerif.Base.Proto
import SeqVerif.Model.Bulk
import SeqVerif.Model.BulkTime
import SeqVerif.Model.BulkMeta
import SeqVerif.Model.BulkMetaCodec
import SeqVerif.Model.BulkIndex
import SeqVerif.Model.BulkResponse
import SeqVerif.Model.BulkConfig
import SeqVerif.Model.BulkID
import SeqVerif.Model.BulkHandover
import SeqVerif.Extracted.C10
/-!
Driver for C10.  Requests (hex = byte string, `-` = empty):
  `bulk.readline <B> <eager> <clean> <stream hex>`          -> `ok eof` | `ok fail` | `ok line <hex> <pre 0|1> <rest length>`
  `bulk.frame <B> <eager> <clean> <body hex>`           -> `ok <doc hex,...> <done | err proto | err io>`
  `bulk.proc <B> <eager> <clean> <storeOk> <body hex> <kinds: hex=o|n|i,...>`
                                                            -> `ok <items> <none | count:payload hex>` | `err <400|500> <none | count:payload hex>`
  `bulk.ingest <B> <eager> <clean> <storeOk> <req ns> <drift> <futureDrift> <body hex> <kinds: hex=o|n|i[@doc ns],...>`
                                                            -> as `bulk.proc`, the store call printed as `count:payload hex:mid/size,...`
  `bulk.encode <doc hex,...>`                               -> `ok <payload hex>`
  `bulk.decode <payload hex>`                               -> `ok <doc hex,...>` | `err malformed`
  `bulk.index <maxTokenSize> <cs> <partial> <maxFieldValueLength> <doc ns | none> <req ns> <drift> <futureDrift> <doc length> <mapping> <tree>`
                                                            -> `ok <mid/size/khex=vhex+...;...>`  one entry per meta (SV.Bulk.metasFor: time rule, indexDoc)
     mapping = `,`-separated `<path hex>=<x|o|g|n|l>:<title hex>/<k|t|p|e|o>/<maxSize>+...`;
     tree = `|`-separated preorder: node = `<AsBytes hex>~<trunes of encodeInsaneNode>~<o|a|x>~<#fields>~<#items>` followed by
     (`<name hex>`, node) per field and a node per item; trunes as in the C11 driver
  `bulk.resp <took ms> <total>`                             -> `ok <body hex>`   (SV.Bulk.bulkResponse = writeBulkResponse)
  `bulk.defaults <searchTimeout> <exportTimeout> <maxInflightBulks> <allowedTimeDrift> <futureAllowedTimeDrift>`
                                                            -> `ok <the five values after SV.Bulk.setDefaults>` (defaults: extracted consts)
  `bulk.newid <t ns> <rand.Uint64 draw> <proxy index>`      -> `ok <MID> <RID>`  (SV.BulkTime.newID on processRandomness)
  `bulk.handover <clone|held|pooled> <events: a<payload> | w, comma separated>`
                                                            -> `ok <payload accepted>=<payload read | x>,...`  (SV.Handover.run)
  `bulk.metas <metas payload hex>`                          -> `ok <mid:rid:size:khex=vhex+...,...> reenc=<0|1>` | `err malformed`
  `bulk.delayed <docDelay> <drift> <futureDrift>`           -> `ok <0|1>`     (extracted translation of documentDelayed)
  `bulk.mid <doc ns | none> <req ns> <drift> <futureDrift>` -> `ok <MID>`
  `bulk.extract <nFormats> <value hex,...> <oracle: f:hex=ns;...>` -> `ok <ns | none>`
Lines of a document unknown to the `kinds` table count as invalid JSON.  The number of checked action lines is
the extracted `actionLinesToCheck`.
-/
open SV SV.Proto SV.Bulk SV.BulkTime

def errClass : Err → String
  | .actionTooLong => "proto"
  | .unknownAction => "proto"
  | .emptyDoc => "proto"
  | .scan => "io"
  | .readDoc => "io"
  | .badJSON => "json"
  | .store => "store"
  | .fuel => "fuel"

def fmtDocs (ds : List Bytes) : String := fmtList fmtHex ds

def env? (b eager clean : String) : Option Env := do
  pure ⟨← b.toNat?, ← bool? eager, ← bool? clean⟩

def hexList? (s : String) : Option (List Bytes) := (splitList s).mapM hex?

def kinds? (s : String) : Option (List (Bytes × Kind × Option Int)) :=
  (splitList s).mapM fun kv =>
    match kv.splitOn "=" with
    | [h, kt] => do
      let b ← hex? h
      let (k, t) ← (match kt.splitOn "@" with
        | [k] => some (k, none)
        | [k, t] => t.toInt?.map fun t => (k, some t)
        | _ => none)
      let k ← (if k = "o" then some Kind.object else if k = "n" then some Kind.nonObject else if k = "i" then some Kind.invalid else none)
      pure (b, k, t)
    | _ => none

def kindOf (tbl : List (Bytes × Kind × Option Int)) (d : Bytes) : Kind :=
  match tbl.find? (fun p => p.1 = d) with
  | some p => p.2.1
  | none => .invalid

def timeOfTbl (tbl : List (Bytes × Kind × Option Int)) (d : Bytes) : Option Int :=
  match tbl.find? (fun p => p.1 = d) with
  | some p => p.2.2
  | none => none

def fmtStored (withMetas : Bool) : Option (Nat × Bytes × List Meta) → String
  | none => "none"
  | some (n, p, ms) =>
    if withMetas then s!"{n}:{fmtHex p}:{fmtList (fun (m : Meta) => s!"{m.mid}/{m.size}") ms}" else s!"{n}:{fmtHex p}"

def fmtResult (withMetas : Bool) (r : Result) : String :=
  match r.resp with
  | .ok n => s!"ok {n} {fmtStored withMetas r.stored}"
  | .error e => if errClass e = "fuel" then "err fuel" else s!"err {httpStatus r.resp} {fmtStored withMetas r.stored}"

def parseOracle (s : String) : Option (List (Nat × Bytes × Int)) :=
  (splitList s ";").mapM fun e =>
    match e.splitOn "=" with
    | [k, v] =>
      match k.splitOn ":" with
      | [f, h] => do pure ((← f.toNat?), (← hex? h), (← v.toInt?))
      | _ => none
    | _ => none

open SV.Parser SV.Tok SV.BulkIndex in
def parseRn (s : String) : Option Rn :=
  match s.splitOn "/" with
  | [b, cp, cls, lo] => do
    let b ← hex? b
    let cp ← cp.toNat?
    let lo ← lo.toNat?
    match cls.toList with
    | [l, n, d, sp] => pure ⟨b, cp, l = '1', n = '1', d = '1', lo, sp = '1'⟩
    | _ => none
  | _ => none

open SV.Tok in
def parseTRn (s : String) : Option TRn :=
  match s.splitOn "!" with
  | [r, a, b] => do pure ⟨(← parseRn r), (← hex? a), (← hex? b)⟩
  | _ => none

open SV.BulkIndex SV.Tok in
mutual
def parseNode : Nat → List String → Option (JV × List String)
  | 0, _ => none
  | _, [] => none
  | f + 1, hdr :: rest =>
    match hdr.splitOn "~" with
    | [ab, rs, sh, nf, ni] => do
      let ab ← hex? ab
      let rs ← (splitList rs ".").mapM parseTRn
      let shape ← (if sh = "o" then some Shape.obj else if sh = "a" then some Shape.arr else if sh = "x" then some Shape.other else none)
      let (fs, rest) ← parseFields f (← nf.toNat?) rest
      let (is, rest) ← parseItems f (← ni.toNat?) rest
      pure (JV.mk ab rs shape fs is, rest)
    | _ => none
def parseFields : Nat → Nat → List String → Option (List (Bytes × JV) × List String)
  | _, 0, rest => some ([], rest)
  | 0, _, _ => none
  | _, _, [] => none
  | f + 1, n + 1, name :: rest => do
    let name ← hex? name
    let (v, rest) ← parseNode f rest
    let (fs, rest) ← parseFields f n rest
    pure ((name, v) :: fs, rest)
def parseItems : Nat → Nat → List String → Option (List JV × List String)
  | _, 0, rest => some ([], rest)
  | 0, _, _ => none
  | f + 1, n + 1, rest => do
    let (v, rest) ← parseNode f rest
    let (is, rest) ← parseItems f n rest
    pure (v :: is, rest)
end

open SV.BulkIndex SV.Tok in
def parseMapping (s : String) : Option (List (Bytes × MTypes)) :=
  (splitList s).mapM fun e =>
    match e.splitOn "=" with
    | [p, v] =>
      match v.splitOn ":" with
      | [m, all] => do
        let p ← hex? p
        let m ← (if m = "x" then some Main.noop else if m = "o" then some Main.object else if m = "g" then some Main.tags
                 else if m = "n" then some Main.nested else if m = "l" then some Main.leaf else none)
        let all ← (splitList all "+").mapM fun t =>
          match t.splitOn "/" with
          | [title, tt, mx] => do
            let tt ← (if tt = "k" then some TT.keyword else if tt = "t" then some TT.text else if tt = "p" then some TT.path
                      else if tt = "e" then some TT.exists else if tt = "o" then some TT.other else none)
            pure (⟨← hex? title, tt, ← mx.toNat?⟩ : MType)
          | _ => none
        pure (p, ⟨m, all⟩)
      | _ => none
    | _ => none

def step (line : String) : String :=
  match fields line with
  | ["bulk.readline", b, eager, clean, body] =>
    match env? b eager clean, hex? body with
    | some E, some s =>
      match readLine E s with
      | .eof => "ok eof"
      | .fail => "ok fail"
      | .line l pre rest => s!"ok line {fmtHex l} {fmtBool pre} {rest.length}"
    | _, _ => "bad-op"
  | ["bulk.frame", b, eager, clean, body] =>
    match env? b eager clean, some SV.Extracted.C10.actionLinesToCheck, hex? body with
    | some E, some c, some s =>
      let r := readAll E c s
      let e := match r.2 with
        | .done => "done"
        | .err e => "err " ++ errClass e
      s!"ok {fmtDocs r.1} {e}"
    | _, _, _ => "bad-op"
  | ["bulk.proc", b, eager, clean, storeOk, body, kinds] =>
    match env? b eager clean, some SV.Extracted.C10.actionLinesToCheck, bool? storeOk, hex? body, kinds? kinds with
    | some E, some c, some so, some s, some tbl =>
      fmtResult false (processDocuments E c (kindOf tbl) (fun d => [⟨0, 0, d.length, []⟩]) so s)
    | _, _, _, _, _ => "bad-op"
  | ["bulk.ingest", b, eager, clean, storeOk, req, drift, fut, body, kinds] =>
    match env? b eager clean, some SV.Extracted.C10.actionLinesToCheck, bool? storeOk, hex? body, kinds? kinds, req.toInt?, drift.toInt?, fut.toInt? with
    | some E, some c, some so, some s, some tbl, some req, some drift, some fut =>
      -- the ingest channel runs without a nested mapping: the index side is an empty tree (one meta per document)
      let T : TimeCfg := ⟨SV.Extracted.C10.documentDelayedX, timeOfTbl tbl, req, drift, fut⟩
      let I : IndexCfg := ⟨⟨0, false, false, 0, false⟩, fun _ => ⟨.noop, []⟩, fun _ => .mk [] [] .obj [] [], fun _ => 0⟩
      fmtResult true (processDocuments E c (kindOf tbl) (metasFor T I) so s)
    | _, _, _, _, _, _, _, _ => "bad-op"
  | ["bulk.encode", docs] =>
    match hexList? docs with
    | some ds => s!"ok {fmtHex (encodeDocs ds)}"
    | none => "bad-op"
  | ["bulk.decode", payload] =>
    match hex? payload with
    | some p =>
      match decodeDocs p.length p with
      | some ds => s!"ok {fmtDocs ds}"
      | none => "err malformed"
    | none => "bad-op"
  | ["bulk.index", mts, cs, part, mfl, doc, req, drift, fut, dlen, mapping, tree] =>
    let doc? : Option (Option Int) := if doc = "none" then some none else doc.toInt?.map some
    let toks := tree.splitOn "|"
    match mts.toNat?, bool? cs, bool? part, mfl.toNat?, doc?, req.toInt?, drift.toInt?, fut.toInt?, dlen.toNat?,
        parseMapping mapping, parseNode (3 * toks.length + 3) toks with
    | some mts, some cs, some part, some mfl, some doc, some req, some drift, some fut, some dlen, some tbl, some (root, []) =>
      let c : SV.Tok.TokCfg := ⟨mts, cs, part, mfl, SV.Extracted.C10.csNormalizesInvalid⟩
      let mp (k : Bytes) : SV.BulkIndex.MTypes := match tbl.find? (fun e => e.1 = k) with
        | some e => e.2
        | none => ⟨.noop, []⟩
      let d : Bytes := List.replicate dlen 0
      let T : TimeCfg := ⟨SV.Extracted.C10.documentDelayedX, fun _ => doc, req, drift, fut⟩
      let ms := metasFor T ⟨c, mp, fun _ => root, fun _ => 0⟩ d
      let fmtTok (t : Bytes × Bytes) := s!"{fmtHex t.1}={fmtHex t.2}"
      "ok " ++ fmtList (fun (m : Meta) => s!"{m.mid}/{m.size}/{fmtList fmtTok m.tokens "+"}") ms ";"
    | _, _, _, _, _, _, _, _, _, _, _ => "bad-op"
  | ["bulk.defaults", st, et, mi, dr, fu] =>
    match st.toInt?, et.toInt?, mi.toInt?, dr.toInt?, fu.toInt? with
    | some st, some et, some mi, some dr, some fu =>
      let c := setDefaults SV.Extracted.C10.defaultSearchTimeout SV.Extracted.C10.defaultExportTimeout
        SV.Extracted.C10.ingestorMaxInflightBulks ⟨st, et, mi, dr, fu⟩
      s!"ok {c.searchTimeout} {c.exportTimeout} {c.maxInflightBulks} {c.allowedTimeDrift} {c.futureAllowedTimeDrift}"
    | _, _, _, _, _ => "bad-op"
  | ["bulk.handover", disc, evs] =>
    let evs? : Option (List SV.Handover.Ev) := (splitList evs).mapM fun e =>
      if e = "w" then some SV.Handover.Ev.work
      else match e.toList with
        | 'a' :: rest => (String.ofList rest).toNat?.map SV.Handover.Ev.accept
        | _ => none
    let step? : Option (SV.Handover.St → SV.Handover.Ev → SV.Handover.St) :=
      if disc = "clone" then some SV.Handover.stepClone else if disc = "held" then some SV.Handover.stepHeld
      else if disc = "pooled" then some SV.Handover.stepPooled else none
    match evs?, step? with
    | some evs, some step =>
      let out := (SV.Handover.run step evs).out
      "ok " ++ fmtList (fun (o : Nat × Option Nat) => s!"{o.1}=" ++ (match o.2 with
        | some r => if r = o.1 then toString r else "x"
        | none => "x")) out
    | _, _ => "bad-op"
  | ["bulk.newid", t, r, idx] =>
    match t.toInt?, r.toNat?, idx.toNat? with
    | some t, some r, some idx =>
      let id := newID t (processRandomness r idx)
      s!"ok {id.1} {id.2}"
    | _, _, _ => "bad-op"
  | ["bulk.resp", took, total] =>
    match took.toNat?, total.toNat? with
    | some t, some n => s!"ok {fmtHex (bulkResponse t n)}"
    | _, _ => "bad-op"
  | ["bulk.metas", payload] =>
    match hex? payload with
    | some p =>
      match (decodeDocs p.length p).bind (fun rs => rs.mapM decMeta) with
      | some ms =>
        let fmtTok (t : Token) := s!"{fmtHex t.key}={fmtHex t.val}"
        let fmtM (m : MetaRec) := s!"{m.mid}:{m.rid}:{m.size}:{fmtList fmtTok m.tokens "+"}"
        s!"ok {fmtList fmtM ms} reenc={fmtBool (encodeMetas ms == p)}"
      | none => "err malformed"
    | none => "bad-op"
  | ["bulk.delayed", d, p, f] =>
    match d.toInt?, p.toInt?, f.toInt? with
    | some d, some p, some f => s!"ok {fmtBool (SV.Extracted.C10.documentDelayedX d p f)}"
    | _, _, _ => "bad-op"
  | ["bulk.mid", doc, req, p, f] =>
    let doc? : Option (Option Int) := if doc = "none" then some none else doc.toInt?.map some
    match doc?, req.toInt?, p.toInt?, f.toInt? with
    | some doc, some req, some p, some f => s!"ok {docMID SV.Extracted.C10.documentDelayedX doc req p f}"
    | _, _, _, _ => "bad-op"
  | ["bulk.extract", nf, vals, oracle] =>
    match nf.toNat?, hexList? vals, parseOracle oracle with
    | some nf, some vs, some tbl =>
      let parse (f : Nat) (v : Bytes) : Option Int := (tbl.find? fun e => e.1 = f ∧ e.2.1 = v).map (·.2.2)
      match extractDocTime nf parse vs with
      | some t => s!"ok {t}"
      | none => "ok none"
    | _, _, _ => "bad-op"
  | _ => "bad-op"

def main : IO Unit := SV.Proto.main step
