import SeqVerif.Base.Proto
import SeqVerif.Model.Async
import SeqVerif.Model.ApiAsync
import SeqVerif.Model.ProxyAsync
import SeqVerif.Extracted.C19
/-!
Driver for C19.  QPR text: `<ids>/<total>/<hist>/<aggs>` (ids `mid:rid,...`; hist `nil` | `-` | `k=v,...`;
aggs `nil` | `agg&agg...`, agg = `<notExists>#<bin>+<bin>...`, bin = `<mid>~<hex token>~<total>~<notExists>`).
  `codec <qpr>`            -> `ok <qpr>` : every aggregation bin goes through `toKey` / `fromKey` (the JSON map key),
                              the rest of the QPR is encoded verbatim by encoding/json (identity in the model)
  `fetch <desc> <request histInterval> <qpr;...>` -> `ok <qpr>` | `panic nil-map` : `SV.Async.fetchFoldWith` /
                              `fetchPanicsWith` at the interval the code uses: the literal 1, or the request's
                              interval when the re-extracted fact `fetchUsesRequestInterval` says so
-/
open SV SV.Proto SV.Merge SV.Async SV.ProxyAsync

def parseId (s : String) : Option Nat :=
  match s.splitOn ":" with
  | [m, r] => do
    let m ← m.toNat?
    let r ← r.toNat?
    if r < R then pure (key m r) else none
  | _ => none

def parseIds (s : String) : Option (List Nat) := (splitList s).mapM parseId
def fmtIds (ids : List Nat) : String := fmtList (fun k => s!"{midOf k}:{ridOf k}") ids

def parseKV (e : String) : Option (Nat × Nat) :=
  match e.splitOn "=" with
  | [k, v] => do
    let k ← k.toNat?
    let v ← v.toNat?
    pure (k, v)
  | _ => none

def parseHist (s : String) : Option (Option Hist) :=
  if s = "nil" then some none else
  match (splitList s).mapM parseKV with
  | some h => some (some h)
  | none => none

def insertKV (p : Nat × Nat) : List (Nat × Nat) → List (Nat × Nat)
  | [] => [p]
  | q :: qs => if q.1 < p.1 then q :: insertKV p qs else p :: q :: qs

def fmtHist (h : Option Hist) : String :=
  match h with
  | none => "nil"
  | some h => fmtList (fun (p : Nat × Nat) => s!"{p.1}={p.2}") (h.foldr insertKV [])

/-- one aggregation bin through the key codec; `none` = `fromKey` panics -/
def codecBin (b : String) : Option String :=
  match b.splitOn "~" with
  | [mid, tok, total, ne] => do
    let mid ← mid.toNat?
    let tok ← hex? tok
    let (mid', tok') ← fromKey parseInt (toKey renderInt mid tok)
    pure s!"{mid'}~{fmtHex tok'}~{total}~{ne}"
  | _ => none

def insertStr (p : String) : List String → List String
  | [] => [p]
  | q :: qs => if q < p then q :: insertStr p qs else p :: q :: qs

def codecAgg (a : String) : Option String :=
  match a.splitOn "#" with
  | [ne, bins] => do
    let bs ← (splitList bins "+").mapM codecBin
    pure s!"{ne}#{fmtList id (bs.foldr insertStr []) "+"}"
  | _ => none

def codecAggs (s : String) : Option String :=
  if s = "nil" then some "nil" else
  ((splitList s "&").mapM codecAgg).map (fun as => fmtList id as "&")

def parseQPR3 (ids total hist : String) : Option QPR := do
  pure { ids := (← parseIds ids), total := (← total.toNat?), hist := (← parseHist hist) }

/-- replica outcome: `n` NotFound, `u` Unavailable, `e` other error, `o<done>=<ids>/<total>/<hist>` -/
def parseROut (s : String) : Option ROut :=
  if s = "n" then some .notFound else if s = "u" then some .unavailable else if s = "e" then some .otherErr else
  match s.splitOn "=" with
  | tag :: rest =>
    if tag = "o1" ∨ tag = "o0" then
      match ("=".intercalate rest).splitOn "/" with
      | [ids, total, hist] => (parseQPR3 ids total hist).map (ROut.ok (tag = "o1"))
      | _ => none
    else none
  | _ => none

def bitsOf (bs : List Bool) : String := String.join (bs.map fmtBool)

def step (line : String) : String :=
  match fields line with
  | ["codec", q] =>
    match q.splitOn "/" with
    | [ids, total, hist, aggs] =>
      match parseQPR3 ids total hist, codecAggs aggs with
      | some q, some aggs => s!"ok {fmtIds q.ids}/{q.total}/{fmtHist q.hist}/{aggs}"
      | some _, none => "panic fromKey"
      | _, _ => "bad-op"
    | _ => "bad-op"
  | ["fetch", desc, reqHi, qs] =>
    match bool? desc, reqHi.toNat?, (splitList qs ";").mapM (fun q =>
        match q.splitOn "/" with
        | [ids, total, hist, _] => parseQPR3 ids total hist
        | _ => none) with
    | some desc, some reqHi, some qs =>
      let hi := if SV.Extracted.C19.fetchUsesRequestInterval then reqHi else 1
      if fetchPanicsWith hi desc zeroQPR qs then "panic nil-map"
      else
        let r := fetchFoldWith hi desc qs
        s!"ok {fmtIds r.ids}/{r.total}/{fmtHist r.hist}/nil"
    | _, _, _ => "bad-op"
  | ["pfetch", desc, size, hi, shards] =>
    match bool? desc, size.toNat?, hi.toNat?,
        (shards.splitOn "|").mapM (fun sh => if sh = "z" then some [] else (sh.splitOn "+").mapM parseROut) with
    | some desc, some size, some hi, some shs =>
      match proxyFetch desc size hi shs with
      | .ok done q => s!"ok {fmtBool done} {fmtIds q.ids}/{q.total}/{fmtHist q.hist}"
      | .notFound => "err not-found"
      | .error => "err fail"
      | .panic => "panic"
    | _, _, _, _ => "bad-op"
  | ["hfetch", desc, offset, size, hi, shards] =>
    match bool? desc, offset.toNat?, size.toNat?, hi.toNat?,
        (shards.splitOn "|").mapM (fun sh => if sh = "z" then some [] else (sh.splitOn "+").mapM parseROut) with
    | some desc, some offset, some size, some hi, some shs =>
      match handlerFetch SV.Extracted.C19.makeProtoDocsNilSafe SV.Extracted.C19.proxyAsyncPaginates desc offset size hi shs with
      | .ok done docs q => s!"ok {fmtBool done} docs={fmtIds docs} hist={fmtHist q.hist}"
      | .notFound => "err not-found"
      | .error => "err fail"
      | .panic => "panic"
    | _, _, _, _, _ => "bad-op"
  | ["pstart", shards] =>
    match (shards.splitOn "|").mapM (fun sh => if sh = "z" then some [] else sh.toList.mapM (fun c => if c = '1' then some true else if c = '0' then some false else none)) with
    | some shs =>
      let r := proxyStart shs
      s!"{if r.2 then "ok" else "err"} {"|".intercalate (r.1.map fun bs => if bs.isEmpty then "z" else bitsOf bs)}"
    | none => "bad-op"
  | ["asyncparams", from_, to_, iv, order] =>
    match from_.toInt?, to_.toInt?, iv.toInt?, order.toInt? with
    | some from_, some to_, some iv, some order =>
      match asyncParams ⟨from_, to_, iv, order⟩ with
      | none => "panic"
      | some p => s!"ok {p.from_} {p.to_} {p.limit} {p.hi} {fmtBool p.withTotal} {fmtBool p.desc} retention={retentionHours} expiry-start={retentionHours}"
    | _, _, _, _ => "bad-op"
  | _ => "bad-op"

def main : IO Unit := SV.Proto.main step
