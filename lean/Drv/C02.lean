import SeqVerif.Base.Proto
import SeqVerif.Model.EvalTree
import SeqVerif.Model.ActiveIndex
import SeqVerif.Model.RangeGo
import SeqVerif.Model.Bitmask
/-!
Driver for C02.  Lists are comma separated, `-` = empty; byte strings hex.  LID lists of `nodes`/`ortree`
are given in iteration order (descending for `desc`).

  nodes and|or|nand <asc|desc> <xs> <ys>            -> ok <lids>
  nodes not <asc|desc> <xs> <lo> <hi>               -> ok <lids>
  nodes range <asc|desc> <lo> <hi>                  -> ok <lids>
  ortree <asc|desc> <l1;l2;...>                     -> ok <lids>
  hasbits <bytes hex> <left> <right>                -> ok <0|1>   (util.Bitmask.HasBitsIn, C14's byte-level model)
  narrow <asc|desc> <lo> <hi> <posting ascending>   -> ok <lids>   (EvalTree.narrow: the posting list cut to the borders)
  rangego <asc|desc> <lo> <hi> <fuel>               -> ok <values> <ended 0|1>   (nodeRange with Go's int/uint32)
  borders <from> <to> <ids mid:rid,...>             -> ok <minLID> <maxLID>
  eval <asc|desc> <lo> <hi> <toks> <query>          -> ok <lids>
  search <asc|desc> <from> <to> <limit> <withTotal> <ids> <toks> <query>   -> ok <ids> <total>
  spec.search <asc|desc> <from> <to> <limit> <withTotal> <docs> <query>    -> ok <ids> <total>
  mergesorted <right> <left> <ids of lids 0..>      -> ok <lids>
  inverse <mapping> <size> <lo> <hi> <unmapped>     -> ok <lids>
  active.search <asc|desc> <from> <to> <limit> <withTotal> <arrival ids> <toks (arrival lids)> <query> -> ok <ids> <total>

toks  = `;`-separated `fieldhex:valhex:lids`           docs = `;`-separated `mid:rid:fieldhex=valhex&...`
query = `/`-separated prefix form: A O D (binary), N (unary), `L:fieldhex:terms` (terms `.`-separated `T<hex>` | `S`),
        `R:fieldhex:<lohex|*>:<0|1>:<hihex|*>:<0|1>`
-/
open SV SV.Proto SV.Spec SV.EvalTree SV.Borders

def parseRev (s : String) : Option Bool :=
  if s = "asc" then some false else if s = "desc" then some true else none

/-- order keyword of the search commands: `asc` = seq.DocsOrderAsc = reverse LID iteration -/
def parseOrder (s : String) : Option Bool :=
  if s = "asc" then some true else if s = "desc" then some false else none

def parseID (s : String) : Option ID :=
  match s.splitOn ":" with
  | [m, r] => do pure ⟨← m.toNat?, ← r.toNat?⟩
  | _ => none

def parseIDs (s : String) : Option (List ID) := (splitList s).mapM parseID

def fmtIDs (l : List ID) : String := fmtList (fun (i : ID) => s!"{i.mid}:{i.rid}") l

def parseTok (s : String) : Option TokenEntry :=
  match s.splitOn ":" with
  | [f, v, l] => do pure ⟨← hex? f, ← hex? v, ← natList? l⟩
  | _ => none

def parseToks (s : String) : Option (List TokenEntry) := (splitList s ";").mapM parseTok

def parseDocTok (s : String) : Option (Bytes × Bytes) :=
  match s.splitOn "=" with
  | [f, v] => do pure (← hex? f, ← hex? v)
  | _ => none

def parseDoc (s : String) : Option Doc :=
  match s.splitOn ":" with
  | [m, r, t] => do pure { id := ⟨← m.toNat?, ← r.toNat?⟩, tokens := ← (splitList t "&").mapM parseDocTok }
  | _ => none

def parseDocs (s : String) : Option (List Doc) := (splitList s ";").mapM parseDoc

def parseTerm (s : String) : Option Term :=
  match s.toList with
  | ['S'] => some .star
  | 'T' :: rest => (hex? (String.ofList rest)).map .text
  | _ => none

def parseBound (s : String) : Option (Option Bytes) :=
  if s = "*" then some none else (hex? s).map some

def parseLeaf (s : String) : Option Leaf :=
  match s.splitOn ":" with
  | ["L", f, ts] => do pure (.lit (← hex? f) (← (splitList ts ".").mapM parseTerm))
  | ["R", f, lo, il, hi, ih] => do pure (.range (← hex? f) (← parseBound lo) (← bool? il) (← parseBound hi) (← bool? ih))
  | _ => none

def parseQueryGo : Nat → List String → Option (Query × List String)
  | 0, _ => none
  | _ + 1, [] => none
  | fuel + 1, t :: rest =>
    if t = "A" ∨ t = "O" ∨ t = "D" then
      match parseQueryGo fuel rest with
      | none => none
      | some (a, r1) =>
        match parseQueryGo fuel r1 with
        | none => none
        | some (b, r2) => some ((if t = "A" then Query.and a b else if t = "O" then Query.or a b else Query.nand a b), r2)
    else if t = "N" then
      match parseQueryGo fuel rest with
      | none => none
      | some (a, r1) => some (Query.not a, r1)
    else (parseLeaf t).map fun l => (Query.leaf l, rest)

def parseQuery (s : String) : Option Query :=
  let ts := s.splitOn "/"
  match parseQueryGo (ts.length + 1) ts with
  | some (q, []) => some q
  | _ => none

def fmtResult (r : Result) : String := s!"ok {fmtIDs r.ids} {r.total}"

def step (line : String) : String :=
  match fields line with
  | ["nodes", op, dir, xs, ys] =>
    match parseRev dir, natList? xs, natList? ys with
    | some rev, some xs, some ys =>
      if op = "and" then s!"ok {fmtNats (andMerge rev xs ys)}"
      else if op = "or" then s!"ok {fmtNats (orMerge rev xs ys)}"
      else if op = "nand" then s!"ok {fmtNats (nandMerge rev xs ys)}"
      else if op = "range" then
        match xs, ys with
        | [lo], [hi] => s!"ok {fmtNats (rangeNode rev lo hi)}"
        | _, _ => "bad-op"
      else "bad-op"
    | _, _, _ => "bad-op"
  | ["nodes", "not", dir, xs, lo, hi] =>
    match parseRev dir, natList? xs, lo.toNat?, hi.toNat? with
    | some rev, some xs, some lo, some hi => s!"ok {fmtNats (notNode rev xs lo hi)}"
    | _, _, _, _ => "bad-op"
  | ["rangego", dir, lo, hi, fuel] =>
    match parseRev dir, lo.toNat?, hi.toNat?, fuel.toNat? with
    | some rev, some lo, some hi, some fuel =>
      let r := RangeGo.drain rev (RangeGo.newRange rev lo hi).1 fuel (RangeGo.newRange rev lo hi).2
      s!"ok {fmtNats r.1} {fmtBool r.2}"
    | _, _, _, _ => "bad-op"
  | ["narrow", dir, lo, hi, xs] =>
    match parseRev dir, lo.toNat?, hi.toNat?, natList? xs with
    | some rev, some lo, some hi, some xs => s!"ok {fmtNats (narrow rev lo hi xs)}"
    | _, _, _, _ => "bad-op"
  | ["hasbits", bin, l, r] =>
    match hex? bin, l.toNat?, r.toNat? with
    | some bin, some l, some r => s!"ok {fmtBool (SV.Bitmask.hasBitsIn bin l r)}"
    | _, _, _ => "bad-op"
  | ["ortree", dir, ls] =>
    match parseRev dir, (splitList ls ";").mapM (natList? ·) with
    | some rev, some ls => s!"ok {fmtNats (treeFold rev ls)}"
    | _, _ => "bad-op"
  | ["borders", f, t, ids] =>
    match f.toNat?, t.toNat?, parseIDs ids with
    | some f, some t, some ids =>
      let b := getLIDsBorders f t ids
      s!"ok {b.1} {b.2}"
    | _, _, _ => "bad-op"
  | ["eval", dir, lo, hi, toks, q] =>
    match parseRev dir, lo.toNat?, hi.toNat?, parseToks toks, parseQuery q with
    | some rev, some lo, some hi, some toks, some q => s!"ok {fmtNats (evalTree ⟨[], toks⟩ rev lo hi q)}"
    | _, _, _, _, _ => "bad-op"
  | ["search", ord, f, t, lim, wt, ids, toks, q] =>
    match parseOrder ord, f.toNat?, t.toNat?, lim.toNat?, bool? wt, parseIDs ids, parseToks toks, parseQuery q with
    | some asc, some f, some t, some lim, some wt, some ids, some toks, some q =>
      fmtResult (EvalTree.search ⟨ids, toks⟩ q f t asc lim wt)
    | _, _, _, _, _, _, _, _ => "bad-op"
  | ["spec.search", ord, f, t, lim, wt, docs, q] =>
    match parseOrder ord, f.toNat?, t.toNat?, lim.toNat?, bool? wt, parseDocs docs, parseQuery q with
    | some asc, some f, some t, some lim, some wt, some docs, some q =>
      fmtResult (Spec.search docs q f t asc lim wt)
    | _, _, _, _, _, _, _ => "bad-op"
  | ["mergesorted", r, l, ids] =>
    match natList? r, natList? l, parseIDs ids with
    | some r, some l, some ids => s!"ok {fmtNats (ActiveIndex.mergeSorted ids r l)}"
    | _, _, _ => "bad-op"
  | ["inverse", mapping, size, lo, hi, unmapped] =>
    match natList? mapping, size.toNat?, lo.toNat?, hi.toNat?, natList? unmapped with
    | some m, some size, some lo, some hi, some u => s!"ok {fmtNats (ActiveIndex.inverseLIDs m size lo hi u)}"
    | _, _, _, _, _ => "bad-op"
  | ["active.search", ord, f, t, lim, wt, ids, toks, q] =>
    match parseOrder ord, f.toNat?, t.toNat?, lim.toNat?, bool? wt, parseIDs ids, parseToks toks, parseQuery q with
    | some asc, some f, some t, some lim, some wt, some ids, some toks, some q =>
      fmtResult (ActiveIndex.search ⟨ids, toks⟩ q f t asc lim wt)
    | _, _, _, _, _, _, _, _ => "bad-op"
  | _ => "bad-op"

def main : IO Unit := SV.Proto.main step
