import SeqVerif.Base.Proto
import SeqVerif.Model.C03Codec
import SeqVerif.Model.C03Lids
/-!
Driver for C03.  Lists: `,` inside a posting list / chunk, `;` between chunks / tokens, `|` between fields / blocks,
`-` = empty list at any level, `_` = no chunks at all.
  varint <int>                                   -> ok <hex>
  unvarint <hex>                                 -> ok <int> <bytes left> | err
  deltas.pack <nats>                             -> ok <hex>
  deltas.unpack <hex>                            -> ok <nats> | err
  chunks.pack <chunks> <isLast>                  -> ok <hex>
  chunks.unpack <hex>                            -> ok <chunks> <isLast> | err
  docpos.pack <block> <offset>                   -> ok <pos> <block'> <offset'> | panic
  lidsgen <cap> <oldToNew> <fields>              -> ok <min:max:cont:last:chunks|...>
  lidstable <cap> <oldToNew> <fields>            -> ok <mins> <maxs> <conts> ext=<ext1:ext2,...> loaded=<0|1>
  lidsiter <asc|desc> <cap> <tid> <minLID> <maxLID> <oldToNew> <fields>  -> ok <lids> | panic <site>
-/
open SV SV.Proto SV.C03

def parseChunks (s : String) : Option (List (List Nat)) :=
  if s = "_" then some [] else (s.splitOn ";").mapM (natList? ·)

def fmtChunks (cs : List (List Nat)) : String :=
  if cs.isEmpty then "_" else ";".intercalate (cs.map fmtNats)

def parseFields (s : String) : Option (List (List (List Nat))) :=
  (splitList s "|").mapM fun f => (splitList f ";").mapM (natList? ·)

def fmtBlock (b : Block) : String :=
  s!"{b.minTID}:{b.maxTID}:{fmtBool b.isContinued}:{fmtBool b.isLastLID}:{fmtChunks b.chunks}"

def o2n (idx : List Nat) (lid : Nat) : Nat := idx.getD lid 0

def fmtExcept (r : Except String (List Nat)) : String :=
  match r with
  | .ok l => s!"ok {fmtNats l}"
  | .error e => s!"panic {e}"

def step (line : String) : String :=
  match fields line with
  | ["varint", x] =>
    match x.toInt? with
    | some x => s!"ok {fmtHex (putVarint x)}"
    | none => "bad-op"
  | ["unvarint", h] =>
    match hex? h with
    | some bs => match getVarint bs with
      | some r => s!"ok {r.1} {r.2.length}"
      | none => "err"
    | none => "bad-op"
  | ["deltas.pack", xs] =>
    match natList? xs with
    | some xs => s!"ok {fmtHex (packDeltas xs)}"
    | none => "bad-op"
  | ["deltas.unpack", h] =>
    match hex? h with
    | some bs => match unpackDeltas bs with
      | some r => s!"ok {fmtNats r}"
      | none => "err"
    | none => "bad-op"
  | ["chunks.pack", cs, l] =>
    match parseChunks cs, bool? l with
    | some cs, some l => s!"ok {fmtHex (packBytes cs l)}"
    | _, _ => "bad-op"
  | ["chunks.unpack", h] =>
    match hex? h with
    | some bs => match unpackBytes bs with
      | some r => s!"ok {fmtChunks r.1} {fmtBool r.2}"
      | none => "err"
    | none => "bad-op"
  | ["docpos.pack", b, o] =>
    match b.toNat?, o.toNat? with
    | some b, some o => match packDocPos b o with
      | some p => s!"ok {p} {(unpackDocPos p).1} {(unpackDocPos p).2}"
      | none => "panic offset"
    | _, _ => "bad-op"
  | ["lidsgen", cap, idx, fs] =>
    match cap.toNat?, natList? idx, parseFields fs with
    | some cap, some idx, some fs => s!"ok {fmtList fmtBlock (genBlocks cap (o2n idx) fs) "|"}"
    | _, _, _ => "bad-op"
  | ["lidstable", cap, idx, fs] =>
    match cap.toNat?, natList? idx, parseFields fs with
    | some cap, some idx, some fs =>
      let bs := genBlocks cap (o2n idx) fs
      let t := tableOf bs
      let exts := bs.map fun b => lidExt b.minTID b.maxTID b.isContinued
      let loaded : Table := ⟨exts.map (lidExtLoad · |>.1), exts.map (lidExtLoad · |>.2.1), exts.map (lidExtLoad · |>.2.2)⟩
      s!"ok {fmtNats t.minTIDs} {fmtNats t.maxTIDs} {fmtList fmtBool t.isContinued} ext={fmtList (fun (e : Nat × Nat) => s!"{e.1}:{e.2}") exts} loaded={fmtBool (decide (loaded = t))}"
    | _, _, _ => "bad-op"
  | ["lidsiter", dir, cap, tid, mn, mx, idx, fs] =>
    match cap.toNat?, tid.toNat?, mn.toNat?, mx.toNat?, natList? idx, parseFields fs with
    | some cap, some tid, some mn, some mx, some idx, some fs =>
      let bs := genBlocks cap (o2n idx) fs
      if dir = "desc" then fmtExcept (iterDesc bs (tableOf bs) tid mn mx)
      else if dir = "asc" then fmtExcept (iterAsc bs (tableOf bs) tid mn mx)
      else "bad-op"
    | _, _, _, _, _, _ => "bad-op"
  | _ => "bad-op"

def main : IO Unit := SV.Proto.main step
