import SeqVerif.Base.Proto
import SeqVerif.Model.C03Codec
import SeqVerif.Model.C03Lids
import SeqVerif.Model.C03Ids
import SeqVerif.Model.C03Tokens
import SeqVerif.Model.C03Frac
import SeqVerif.Model.C03Search
import SeqVerif.Model.C03Docs
import SeqVerif.Model.C03TokenTable
import SeqVerif.Model.C03Loader
import Std.Data.HashMap
/-!
Driver for C03.  Lists: `,` inside a posting list / chunk, `;` between chunks / tokens, `|` between fields / blocks,
`-` = empty list at any level, `_` = no chunks at all.
  varint <int>                                   -> ok <hex>
  unvarint <hex>                                 -> ok <int> <bytes left> | err
  packer.u32 <n> / packer.u64 <n> / packer.str <xhex>   -> ok <hex>      (PutUint32 / PutUint64 / PutStringWithSize)
  packer.getu32 <hex> / packer.getbinary <hex>       -> ok <n> <bytes left> / ok <xhex> <bytes left>
  deltas.pack <nats>                             -> ok <hex>
  deltas.unpack <hex>                            -> ok <nats> | err
  chunks.pack <chunks> <isLast>                  -> ok <hex>
  chunks.unpack <hex>                            -> ok <chunks> <isLast> | err
  docpos.pack <block> <offset>                   -> ok <pos> <block'> <offset'> | panic
  lidsgen <cap> <oldToNew> <fields>              -> ok <min:max:cont:last:chunks|...>
  lidstable <cap> <oldToNew> <fields>            -> ok <mins> <maxs> <conts> ext=<ext1:ext2,...> loaded=<0|1>
  lidsiter <asc|desc> <cap> <tid> <minLID> <maxLID> <oldToNew> <fields>  -> ok <lids> | panic <site>
  ids.blocks <size> <ids mid:rid,...> <positions>  -> ok <ext mid:rid,...> <hexMIDs/hexRIDs/hexPos|...>
  ids.query <per> <ids> <positions> <lid@mid:rid;...>  -> ok <mid:rid:pos:loe;...>   (x = panic)
  tokens.gen <old|new> <rbs> <fields: hex,hex|...>   -> ok <field:isStart:total:startTID:hex,hex|...> | panic
  tokens.table <rbs> <base> <fields>               -> ok entries=<field:startIndex:startTID:blockIndex:valCount:min:max;...> vals=<hex,...> | panic
  tokens.getseq <rbs> <base> <fields> <tids>       -> ok <x hex or ? per call, in call order>   (one index instance)
  loader.probe <headers len:ext1:ext2,...>          -> ok idsStart=<i> ids=<mid:rid,...> lidsStart=<i> lids=<min:max:cont,...> | panic
  tokens.tablecodec <rbs> <fields: xNAME=startTID:valCount:startIndex:blockIndex:xMIN|-:xMAX;...|...>
        -> ok <hex of every table block|...> loaded=<xNAME=xMINVAL[startIndex:startTID:blockIndex:valCount:xMAX;...]|...>
  tokens.tablebytes <rbs> <base> <name pad> <fields>  -> ok <hex of every token TABLE block|...> loaded=<1 iff loadTable = kept table>
  tokens.select <hint> <minVal> <maxVals>          -> ok <l> <r>
  frac.index <mids> <rids> <allDocs> <posting> <minLID> <maxLID>  -> ok ids=<mid:rid,...> index=<...> asc=<lids> desc=<lids>
  docs.write <minBlockSize> <block lens> <ids> <docs hex,...>   (writeDoc for every pair, then Flush)
        -> ok offsets=<...> positions=<mid:rid=pos,... newest entry per id, request order> read=<x hex per id> | panic
  docs.group <positions>                           -> ok <block:slot@off,slot@off|...>
  docs.fetch <offsets> <file: off=hex;...> <positions>  -> ok <xhex or nil per position> | err
  frac.search <mids> <rids> <allDocs> <fields: xTOK=lid,lid;...|...> <idsBlock> <lidCap> <rbs> <query rpn: t<tid>,&,|,!> <from> <to> <rev> <limit> <interval>
        -> ok total=<n> ids=<mid:rid,...> hist=<bucket:count,...>  (sealed and active model answers agree) | DIFF ... | panic
-/
open SV SV.Proto SV.C03

def parseChunks (s : String) : Option (List (List Nat)) :=
  if s = "_" then some [] else (s.splitOn ";").mapM (natList? ·)

def fmtChunks (cs : List (List Nat)) : String :=
  if cs.isEmpty then "_" else ";".intercalate (cs.map fmtNats)

def parseFields (s : String) : Option (List (List (List Nat))) :=
  (splitList s "|").mapM fun f => (splitList f ";").mapM (natList? ·)

def fmtBlock (b : Block) : String :=
  s!"{b.minTID}:{b.maxTID}:{fmtBool b.isContinued}:{fmtBool b.isLastLID}:{fmtChunks b.chunks}"

def o2n (idx : List Nat) (lid : Nat) : Nat := idx.getD lid 0

def fmtExcept (r : Except String (List Nat)) : String :=
  match r with
  | .ok l => s!"ok {fmtNats l}"
  | .error e => s!"panic {e}"

def parseID (s : String) : Option ID :=
  match s.splitOn ":" with
  | [a, b] => do pure ((← a.toNat?), (← b.toNat?))
  | _ => none

def parseIDs (s : String) : Option (List ID) := (splitList s).mapM parseID

def fmtID (x : ID) : String := s!"{x.1}:{x.2}"

def mkPosMap (ids : List ID) (pos : List Nat) : Std.HashMap ID Nat :=
  (ids.zip pos).foldl (fun m p => m.insert p.1 p.2) {}

def posOfMap (m : Std.HashMap ID Nat) (id : ID) : Nat := (m.get? id).getD 18446744073709551615

def fmtOptNat (o : Option Nat) : String := match o with | some v => toString v | none => "x"

/-- tokens are written `x<hex>` (`x` = the empty token) -/
def xhex? (s : String) : Option Tok := if s.startsWith "x" then hexGo (s.drop 1).toString.toList else none

def fmtX (t : Tok) : String := "x" ++ (if t.isEmpty then "" else fmtHex t)

def parseTokFields (s : String) : Option (List (List Tok)) :=
  (splitList s "|").mapM fun f => (splitList f).mapM xhex?

def fmtTBlock (b : TBlock) : String :=
  s!"{b.field}:{fmtBool b.isStart}:{b.totalSize}:{b.startTID}:{fmtList fmtX b.tokens}"

def fmtEntry (e : TEntry) : String :=
  s!"{e.field}:{e.startIndex}:{e.startTID}:{e.blockIndex}:{e.valCount}:{e.minVal.map fmtX |>.getD "-"}:{fmtX e.maxVal}"

def parseATok (s : String) : Option ATok :=
  match s.splitOn "=" with
  | [v, p] => do pure { val := (← xhex? v), post := (← natList? p) }
  | _ => none

def parseAFields (s : String) : Option (List (List ATok)) :=
  (splitList s "|").mapM fun f => (splitList f ";").mapM parseATok

def parseRPN (s : String) : Option Q :=
  let go := fun (st : Option (List Q)) (tok : String) => do
    let st ← st
    if tok.startsWith "t" then
      pure (Q.leaf (← (tok.drop 1).toString.toNat?) :: st)
    else match tok, st with
      | "&", r :: l :: rest => pure (Q.and l r :: rest)
      | "|", r :: l :: rest => pure (Q.or l r :: rest)
      | "!", r :: n :: rest => pure (Q.nand n r :: rest)
      | _, _ => none
  match (s.splitOn ",").foldl go (some []) with
  | some [q] => some q
  | _ => none

def histCounts : List Nat → List (Nat × Nat)
  | [] => []
  | b :: rest =>
    let r := histCounts rest
    if r.any (·.1 == b) then r.map (fun p => if p.1 == b then (p.1, p.2 + 1) else p) else (b, 1) :: r

def insertSorted (p : Nat × Nat) : List (Nat × Nat) → List (Nat × Nat)
  | [] => [p]
  | q :: rest => if p.1 ≤ q.1 then p :: q :: rest else q :: insertSorted p rest

def fmtAnswer (r : Except String Answer) : String :=
  match r with
  | .error e => s!"panic {e}"
  | .ok a =>
    let h := (histCounts a.hist).foldl (fun acc p => insertSorted p acc) []
    s!"total={a.total} ids={fmtList fmtID a.ids} hist={fmtList (fun (p : Nat × Nat) => s!"{p.1}:{p.2}") h}"

def step (line : String) : String :=
  match fields line with
  | ["varint", x] =>
    match x.toInt? with
    | some x => s!"ok {fmtHex (putVarint x)}"
    | none => "bad-op"
  | ["unvarint", h] =>
    match hex? h with
    | some bs => match getVarint bs with
      | some r => s!"ok {r.1} {r.2.length}"
      | none => "err"
    | none => "bad-op"
  | ["packer.u32", n] =>
    match n.toNat? with
    | some n => s!"ok {fmtHex (le32 n)}"
    | none => "bad-op"
  | ["packer.u64", n] =>
    match n.toNat? with
    | some n => s!"ok {fmtHex (le64 n)}"
    | none => "bad-op"
  | ["packer.str", x] =>
    match xhex? x with
    | some v => s!"ok {fmtHex (putStr v)}"
    | none => "bad-op"
  | ["packer.getu32", h] =>
    match hex? h with
    | some bs => s!"ok {(getU32 bs).1} {(getU32 bs).2.length}"
    | none => "bad-op"
  | ["packer.getbinary", h] =>
    match hex? h with
    | some bs => s!"ok {fmtX (getBinary bs).1} {(getBinary bs).2.length}"
    | none => "bad-op"
  | ["deltas.pack", xs] =>
    match natList? xs with
    | some xs => s!"ok {fmtHex (packDeltas xs)}"
    | none => "bad-op"
  | ["deltas.unpack", h] =>
    match hex? h with
    | some bs => match unpackDeltas bs with
      | some r => s!"ok {fmtNats r}"
      | none => "err"
    | none => "bad-op"
  | ["chunks.pack", cs, l] =>
    match parseChunks cs, bool? l with
    | some cs, some l => s!"ok {fmtHex (packBytes cs l)}"
    | _, _ => "bad-op"
  | ["chunks.unpack", h] =>
    match hex? h with
    | some bs => match unpackBytes bs with
      | some r => s!"ok {fmtChunks r.1} {fmtBool r.2}"
      | none => "err"
    | none => "bad-op"
  | ["docpos.pack", b, o] =>
    match b.toNat?, o.toNat? with
    | some b, some o => match packDocPos b o with
      | some p => s!"ok {p} {(unpackDocPos p).1} {(unpackDocPos p).2}"
      | none => "panic offset"
    | _, _ => "bad-op"
  | ["lidsgen", cap, idx, fs] =>
    match cap.toNat?, natList? idx, parseFields fs with
    | some cap, some idx, some fs => s!"ok {fmtList fmtBlock (genBlocks cap (o2n idx) fs) "|"}"
    | _, _, _ => "bad-op"
  | ["lidstable", cap, idx, fs] =>
    match cap.toNat?, natList? idx, parseFields fs with
    | some cap, some idx, some fs =>
      let bs := genBlocks cap (o2n idx) fs
      let t := tableOf bs
      let exts := bs.map fun b => lidExt b.minTID b.maxTID b.isContinued
      let loaded : Table := ⟨exts.map (lidExtLoad · |>.1), exts.map (lidExtLoad · |>.2.1), exts.map (lidExtLoad · |>.2.2)⟩
      s!"ok {fmtNats t.minTIDs} {fmtNats t.maxTIDs} {fmtList fmtBool t.isContinued} ext={fmtList (fun (e : Nat × Nat) => s!"{e.1}:{e.2}") exts} loaded={fmtBool (decide (loaded = t))}"
    | _, _, _ => "bad-op"
  | ["lidsiter", dir, cap, tid, mn, mx, idx, fs] =>
    match cap.toNat?, tid.toNat?, mn.toNat?, mx.toNat?, natList? idx, parseFields fs with
    | some cap, some tid, some mn, some mx, some idx, some fs =>
      let bs := genBlocks cap (o2n idx) fs
      if dir = "desc" then fmtExcept (iterDesc bs (tableOf bs) tid mn mx)
      else if dir = "asc" then fmtExcept (iterAsc bs (tableOf bs) tid mn mx)
      else "bad-op"
    | _, _, _, _, _, _ => "bad-op"
  | ["ids.blocks", size, ids, pos] =>
    match size.toNat?, parseIDs ids, natList? pos with
    | some size, some ids, some pos =>
      let m := mkPosMap ids pos
      let bs := writeIDs size ids (posOfMap m)
      s!"ok {fmtList (fun (b : IDBlockDisk) => fmtID b.ext) bs} {fmtList (fun (b : IDBlockDisk) => s!"{fmtHex b.mids}/{fmtHex b.rids}/{fmtHex b.pos}") bs "|"}"
    | _, _, _ => "bad-op"
  | ["ids.query", per, ids, pos, qs] =>
    match per.toNat?, parseIDs ids, natList? pos, (splitList qs ";").mapM (fun q => match q.splitOn "@" with
        | [l, i] => do pure ((l.startsWith "L"), (← (l.dropWhile (· == 'L')).toNat?), (← parseID i))
        | _ => none) with
    | some per, some ids, some pos, some qs =>
      let m := mkPosMap ids pos
      let bs := writeIDs per ids (posOfMap m)
      let t := idsTableOf bs ids.length
      let one := fun (q : Bool × Nat × ID) =>
        let loe := match lessOrEqual per t bs q.2.1 q.2.2 with | some b => fmtBool b | none => "x"
        if q.1 then s!"-:-:-:{loe}" else
        s!"{fmtOptNat (getMID per bs q.2.1)}:{fmtOptNat (getRID per bs q.2.1)}:{fmtOptNat (getPos per bs q.2.1)}:{loe}"
      s!"ok {fmtList one qs ";"}"
    | _, _, _, _ => "bad-op"
  | ["tokens.gen", ver, rbs, fs] =>
    match rbs.toNat?, parseTokFields fs with
    | some rbs, some fs =>
      match genTokenBlocks (if ver = "old" then bsOld else bsNew) rbs fs with
      | .ok bs => s!"ok {fmtList fmtTBlock bs "|"}"
      | .error _ => "panic"
    | _, _ => "bad-op"
  | ["tokens.table", rbs, base, fs] =>
    match rbs.toNat?, base.toNat?, parseTokFields fs with
    | some rbs, some base, some fs =>
      match genTokenBlocks bsNew rbs fs with
      | .ok bs =>
        let w := writeTokens rbs base bs
        let n := fs.flatten.length
        let vals := (List.range n).map fun i => match getValByTID base w (i + 1) with | some v => fmtX v | none => "?"
        s!"ok entries={fmtList fmtEntry w.entries ";"} vals={fmtList id vals}"
      | .error _ => "panic"
    | _, _, _ => "bad-op"
  | ["tokens.getseq", rbs, base, fs, tids] =>
    match rbs.toNat?, base.toNat?, parseTokFields fs, natList? tids with
    | some rbs, some base, some fs, some tids =>
      match genTokenBlocks bsNew rbs fs with
      | .ok bs =>
        let w := writeTokens rbs base bs
        s!"ok {fmtList (fun (v : Option Tok) => match v with | some v => fmtX v | none => "?") (getValSeq base w tids)}"
      | .error _ => "panic"
    | _, _, _, _ => "bad-op"
  | ["loader.probe", hs] =>
    match (splitList hs).mapM (fun h => match h.splitOn ":" with
        | [a, b, c] => do pure ({ len := (← a.toNat?), ext1 := (← b.toNat?), ext2 := (← c.toNat?) } : Hdr)
        | _ => none) with
    | some reg =>
      match loadTables reg with
      | some t => s!"ok idsStart={t.idsStart} ids={fmtList fmtID t.minBlockIDs} lidsStart={t.lidsStart} lids={fmtList (fun (x : Nat × Nat × Bool) => s!"{x.1}:{x.2.1}:{fmtBool x.2.2}") t.lids}"
      | none => "panic"
    | none => "bad-op"
  | ["tokens.tablecodec", rbs, fs] =>
    let parseE := fun (e : String) => match e.splitOn ":" with
      | [a, b, c, d, mn, mx] => do
        let mnv ← if mn = "-" then some none else (xhex? mn).map some
        pure ({ field := 0, startTID := (← a.toNat?), valCount := (← b.toNat?), startIndex := (← c.toNat?),
                blockIndex := (← d.toNat?), minVal := mnv, maxVal := (← xhex? mx) } : TEntry)
      | _ => none
    let parseF := fun (f : String) => match f.splitOn "=" with
      | [n, es] => do pure ({ name := (← xhex? n), entries := (← (splitList es ";").mapM parseE) } : FieldEntries)
      | _ => none
    match rbs.toNat?, (splitList fs "|").mapM parseF with
    | some rbs, some fes =>
      let blocks := writeTable rbs fes []
      let fmtL := fun (f : LField) =>
        s!"{fmtX f.name}={fmtX f.minVal}[{fmtList (fun (e : LEntry) => s!"{e.startIndex}:{e.startTID}:{e.blockIndex}:{e.valCount}:{fmtX e.maxVal}") f.entries ";"}]"
      s!"ok {fmtList fmtHex blocks "|"} loaded={fmtList fmtL (loadTable blocks) "|"}"
    | _, _ => "bad-op"
  | ["tokens.tablebytes", rbs, base, pad, fs] =>
    match rbs.toNat?, base.toNat?, pad.toNat?, parseTokFields fs with
    | some rbs, some base, some pad, some fs =>
      match genTokenBlocks bsNew rbs fs with
      | .ok bs =>
        let w := writeTokens rbs base bs
        let digit := fun (n : Nat) => 48 + n % 10
        let nameOf := fun (i : Nat) => [102, digit (i / 100), digit (i / 10), digit i] ++ List.replicate pad 95
        let fes : List FieldEntries := (List.range fs.length).filterMap fun i =>
          let es := w.entries.filter (·.field == i)
          if es.isEmpty then none else some { name := nameOf i, entries := es }
        let blocks := writeTable rbs fes []
        s!"ok {fmtList fmtHex blocks "|"} loaded={fmtBool (decide (loadTable blocks = fes.map keptField))}"
      | .error _ => "panic"
    | _, _, _, _ => "bad-op"
  | ["tokens.select", hint, mn, mxs] =>
    match xhex? hint, xhex? mn, (mxs.splitOn ",").mapM xhex? with
    | some hint, some mn, some mxs =>
      let r := selectEntries hint mn mxs
      if r.1 ≥ r.2 then "ok empty" else s!"ok {r.1} {r.2}"
    | _, _, _ => "bad-op"
  | ["frac.index", mids, rids, all, post, mn, mx] =>
    match natList? mids, natList? rids, natList? all, natList? post, mn.toNat?, mx.toNat? with
    | some mids, some rids, some all, some post, some mn, some mx =>
      let a : Active := { mids := mids, rids := rids, allDocs := all, fields := [] }
      s!"ok ids={fmtList fmtID (sealedIDs a)} index={fmtNats a.index} asc={fmtNats (activeNode a post mn mx false)} desc={fmtNats (activeNode a post mn mx true)}"
    | _, _, _, _, _, _ => "bad-op"
  | ["frac.search", mids, rids, all, fs, per, cap, rbs, q, fr, to, rev, limit, interval] =>
    match natList? mids, natList? rids, natList? all, parseAFields fs, per.toNat?, cap.toNat?, rbs.toNat?, parseRPN q with
    | some mids, some rids, some all, some fs, some per, some cap, some rbs, some q =>
      match fr.toNat?, to.toNat?, bool? rev, limit.toNat?, interval.toNat? with
      | some fr, some to, some rev, some limit, some interval =>
        let a : Active := { mids := mids, rids := rids, allDocs := all, fields := fs }
        match sealFrac per per cap rbs 1 (fun _ => 0) a with
        | .error e => s!"panic {e}"
        | .ok s =>
          let x := fmtAnswer (search (sealedIndex s) q fr to rev limit interval)
          let y := fmtAnswer (search (activeIndex a) q fr to rev limit interval)
          if x = y then s!"ok {x}" else s!"DIFF sealed[{x}] active[{y}]"
      | _, _, _, _, _ => "bad-op"
    | _, _, _, _, _, _, _, _ => "bad-op"
  | ["docs.write", minBS, lens, ids, docs] =>
    match minBS.toNat?, natList? lens, parseIDs ids, (splitList docs).mapM xhex? with
    | some minBS, some lens, some ids, some docs =>
      let clen := fun (i : Nat) (_ : List Nat) => lens.getD i 1
      let w := (ids.zip docs).foldl (fun (w : Option DW) p => w.bind (fun w => writeDoc clen (docBlockSizeOf minBS) w p.1 p.2)) (some DW.init)
      match w.map (flushDW clen) with
      | none => "panic"
      | some w =>
        let uniq := ids.eraseDups
        let ps := uniq.map fun id => s!"{fmtID id}={fmtOptNat (lookupPos w.positions id)}"
        let rd := uniq.map fun id => match (lookupPos w.positions id).bind (readAt w.blockOffsets w.file) with | some d => fmtX d | none => "nil"
        s!"ok offsets={fmtNats w.blockOffsets} positions={fmtList id ps} read={fmtList id rd}"
    | _, _, _, _ => "bad-op"
  | ["docs.group", ps] =>
    match natList? ps with
    | some ps =>
      let g := groupDocsOffsets ps
      s!"ok {fmtList (fun (p : Nat × List (Nat × Nat)) => s!"{p.1}:{fmtList (fun (x : Nat × Nat) => s!"{x.1}@{x.2}") p.2}") g "|"}"
    | none => "bad-op"
  | ["docs.fetch", offs, file, ps] =>
    match natList? offs, (splitList file ";").mapM (fun e => match e.splitOn "=" with
        | [o, h] => do pure ((← o.toNat?), (← xhex? h))
        | _ => none), natList? ps with
    | some offs, some file, some ps =>
      match indexFetch offs file ps with
      | some res => s!"ok {fmtList (fun (d : Option DocB) => match d with | some d => fmtX d | none => "nil") res}"
      | none => "err"
    | _, _, _ => "bad-op"
  | _ => "bad-op"

def main : IO Unit := SV.Proto.main step
