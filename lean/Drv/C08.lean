import SeqVerif.Base.Proto
import SeqVerif.Model.SealOps
import SeqVerif.Model.BufWriter
import SeqVerif.Extracted.C08
/-!
Driver for C08 (and the loader part of C15).  Requests:

  `startup <fs>`                                  -> `ok <classify> <loaded> left=<fs> served=<served>`
  `load <fs>`                                     -> `ok <loaded> left=<fs>`     (the observable part of `startup`)
  `writeidx <facts> <plan> <oi>`                  -> `ok <0|1> calls=<n> failed=<0|1>`
  `seal <facts> <skip> <keep> <plan> <oi> <os>`   -> `ok <0|1> trace=<ops>`
  `crash <facts> <skip> <keep> <plan> <oi> <os> <fs0>` -> `ok <presence>:<served>;...` (one entry per prefix of the trace;
                                                     presence = `a`bsent / `p`resent per file)
  `crashfull ...`                                 -> the same with contents instead of presence
  `bwriter <C> <cmds> <answers>`                  -> `ok <results> out=<hex> buf=<len>`   (SV.BufWriter.exec)
       cmds = `,`-separated `w<len>` (a Write of the next <len> bytes of the sequence 0,1,2,.. mod 251) | `f` (Flush);
       answers of the downstream writer = `,`-separated `k` (ok) | `e<k>` (error / short write after k bytes);
       results = per command `<n>:<1|0>` for a Write, `<1|0>` for a Flush

`<fs>` = nine characters, one per suffix in the order docs docs.del sdocs _sdocs sdocs.del index _index index.del meta,
each `a`bsent `e`mpty `t`orn `h`oled `f`ull.  `<facts>` = `src` (the facts extracted from /repo) or four 0/1 for the
tokens / token-table / ids / lids generators.  `<plan>` = seven comma separated numbers (sdocs, tokens, tokensTail,
tokenTable, tokenTableTail, ids, lids).  `<oi>`, `<os>` = answers of the environment as a string of 0/1 (`-` = none).
-/
open SV SV.Proto SV.FileSet SV.SealOps

def contentChar : Content → Char
  | .absent => 'a' | .empty => 'e' | .torn => 't' | .holed => 'h' | .full => 'f'

def content? : Char → Option Content
  | 'a' => some .absent | 'e' => some .empty | 't' => some .torn | 'h' => some .holed | 'f' => some .full | _ => none

def fmtFs (fs : FileSet) : String :=
  String.ofList ([fs.docs, fs.docsDel, fs.sdocs, fs.sdocsTmp, fs.sdocsDel, fs.index, fs.indexTmp, fs.indexDel, fs.metaF].map contentChar)

def fs? (s : String) : Option FileSet :=
  match s.toList.mapM content? with
  | some [a, b, c, d, e, f, g, h, i] =>
    some { docs := a, docsDel := b, sdocs := c, sdocsTmp := d, sdocsDel := e, index := f, indexTmp := g, indexDel := h, metaF := i }
  | _ => none

def fmtSuffix : Suffix → String
  | .docs => "docs" | .docsDel => "docs.del" | .sdocs => "sdocs" | .sdocsTmp => "_sdocs" | .sdocsDel => "sdocs.del"
  | .index => "index" | .indexTmp => "_index" | .indexDel => "index.del" | .metaF => "meta"

def fmtOutcome : Outcome → String
  | .unknown => "unknown" | .cleaned => "cleaned" | .skipped => "skipped" | .orphan => "orphan"
  | .sealed s => "sealed:" ++ fmtSuffix s | .active => "active"

def fmtLoaded : Loaded → String
  | .none => "none" | .active => "active" | .sealed => "sealed" | .down => "down"

def fmtServed : Served → String
  | .all => "all" | .part => "part" | .none => "none" | .down => "down"

def fmtOp : Op → String
  | .touch s => "touch:" ++ fmtSuffix s
  | .fill => "fill"
  | .create s => "create:" ++ fmtSuffix s
  | .write s => "write:" ++ fmtSuffix s
  | .lose s => "lose:" ++ fmtSuffix s
  | .sync s => "sync:" ++ fmtSuffix s
  | .rename a b => "rename:" ++ fmtSuffix a ++ ">" ++ fmtSuffix b
  | .syncDir => "syncdir"
  | .remove s => "remove:" ++ fmtSuffix s

def bits? (s : String) : Option (List Bool) :=
  if s = "-" then some [] else s.toList.mapM fun c => if c = '1' then some true else if c = '0' then some false else none

def facts? (s : String) : Option Facts :=
  if s = "src" then
    some { tokensGen := SV.Extracted.C08.tokensGenPropagates, tokenTableGen := SV.Extracted.C08.tokenTableGenPropagates,
           idsGen := SV.Extracted.C08.idsGenPropagates, lidsGen := SV.Extracted.C08.lidsGenPropagates }
  else match bits? s with
    | some [a, b, c, d] => some { tokensGen := a, tokenTableGen := b, idsGen := c, lidsGen := d }
    | _ => none

def plan? (s : String) : Option Plan :=
  match natList? s with
  | some [a, b, c, d, e, f, g] => some { sdocs := a, tokens := b, tokensTail := c, tokenTable := d, tokenTableTail := e, ids := f, lids := g }
  | _ => none

/-- the states after every prefix of `ops` -/
def statesAlong : List Op → St → List St
  | [], st => [st]
  | o :: r, st => st :: statesAlong r (step o st)

def bwCmds (toks : List String) : Nat → Option (List SV.BufWriter.Cmd)
  | _ => go toks 0
where
  go : List String → Nat → Option (List SV.BufWriter.Cmd)
    | [], _ => some []
    | t :: r, pos =>
      if t = "f" then (go r pos).map (SV.BufWriter.Cmd.f :: ·)
      else match t.toList with
        | 'w' :: ds => do
          let n ← (String.ofList ds).toNat?
          let rest ← go r (pos + n)
          pure (SV.BufWriter.Cmd.w ((List.range n).map fun i => (pos + i) % 251) :: rest)
        | _ => none

def bwAnswers (toks : List String) : Option (List (Option Nat)) :=
  toks.mapM fun t =>
    if t = "k" then some none
    else match t.toList with
      | 'e' :: ds => (String.ofList ds).toNat?.map some
      | _ => none

def bwRun (C : Nat) : List SV.BufWriter.Cmd → SV.BufWriter.St → List String → List String × SV.BufWriter.St
  | [], s, acc => (acc.reverse, s)
  | .w b :: r, s, acc =>
    let x := SV.BufWriter.write C b s
    bwRun C r x.2 (s!"{x.1.1}:{fmtBool x.1.2}" :: acc)
  | .f :: r, s, acc =>
    let x := SV.BufWriter.flush s
    bwRun C r x.2 (fmtBool x.1 :: acc)

def step (line : String) : String :=
  match fields line with
  | ["startup", fs] =>
    match fs? fs with
    | some fs =>
      let r := startup SV.Extracted.C08.orphanFatal fs
      s!"ok {fmtOutcome (classify fs)} {fmtLoaded r.1} left={fmtFs r.2} served={fmtServed (served SV.Extracted.C08.orphanFatal fs)}"
    | none => "bad-op"
  | ["bwriter", c, cmds, answers] =>
    match c.toNat?, bwCmds (splitList cmds) 0, bwAnswers (splitList answers) with
    | some c, some cmds, some ans =>
      let r := bwRun c cmds { oracle := ans } []
      s!"ok {fmtList id r.1} out={fmtHex r.2.out} buf={r.2.buf.length}"
    | _, _, _ => "bad-op"
  | ["load", fs] =>
    match fs? fs with
    | some fs => let r := startup SV.Extracted.C08.orphanFatal fs; s!"ok {fmtLoaded r.1} left={fmtFs r.2}"
    | none => "bad-op"
  | ["writeidx", f, p, oi] =>
    match facts? f, plan? p, bits? oi with
    | some f, some p, some oi =>
      let r := writeIndex f p { oracle := oi }
      s!"ok {fmtBool r.1} calls={r.2.calls} failed={fmtBool r.2.failed}"
    | _, _, _ => "bad-op"
  | ["seal", f, skip, keep, p, oi, os] =>
    match facts? f, bool? skip, bool? keep, plan? p, bits? oi, bits? os with
    | some f, some skip, some keep, some p, some oi, some os =>
      let r := sealTrace ⟨skip, keep⟩ f p oi os
      s!"ok {fmtBool r.1} trace={fmtList fmtOp r.2 ";"}"
    | _, _, _, _, _, _ => "bad-op"
  | [cmd, f, skip, keep, p, oi, os, fs0] =>
    if cmd ≠ "crash" ∧ cmd ≠ "crashfull" then "bad-op" else
    match facts? f, bool? skip, bool? keep, plan? p, bits? oi, bits? os, fs? fs0 with
    | some f, some skip, some keep, some p, some oi, some os, some fs0 =>
      let r := sealTrace ⟨skip, keep⟩ f p oi os
      let sts := statesAlong r.2 ⟨fs0, []⟩
      let render (fs : FileSet) : String := if cmd = "crash" then (fmtFs fs).map (fun c => if c = 'a' then 'a' else 'p') else fmtFs fs
      s!"ok {fmtList (fun (st : St) => render st.fs ++ ":" ++ fmtServed (served SV.Extracted.C08.orphanFatal st.fs)) sts ";"}"
    | _, _, _, _, _, _, _ => "bad-op"
  | _ => "bad-op"

def main : IO Unit := SV.Proto.main step
