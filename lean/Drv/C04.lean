import SeqVerif.Base.Proto
import SeqVerif.Model.Chunking
import SeqVerif.Model.FetchIDs
import SeqVerif.Model.FetchIndex
import SeqVerif.Model.FetchDocs
import SeqVerif.Model.FetchFracs
import SeqVerif.Model.FetchBytes
import SeqVerif.Model.FetchRange
import SeqVerif.Model.IDString
/-!
Driver for C04.  Requests (ids are `mid:rid`, lists comma separated, `-` = empty):
  `chunksize <maxFetch> <lens> <prev>`        -> `ok <n>`                 docsStream.calcChunkSize (repaired form)
  `chunksize.old <maxFetch> <lens> <prev>`    -> `ok <n>` | `panic div0`  the form before the repair
  `findlids <table> <ids>`                    -> `ok <lids>` | `panic`    sealedFetchIndex.findLIDs (repaired form)
  `findlids.old <table> <ids>`                -> `ok <lids>` | `panic`
  `lessorequal <cap> <table> <minBlockIDs> <lid> <id>` -> `ok <0|1>`      sealedIDsIndex.LessOrEqual
  `idstr.enc <mid> <rid>`                     -> `ok <string bytes, hex>` seq.ID.String
  `idstr.dec <string bytes, hex>`             -> `ok <mid> <rid>` | `err` seq.FromString
  `fetchhop <mid:rid:hinthex,...|->`          -> `ok <mid:rid:hinthex,...>` | `err`   storeapi.extractIDs (Ingestor.makeFetchReq ids)
  `docpos.pack <bits> <block> <off>`          -> `ok <pos>`               seq.PackDocPos
  `docpos.unpack <bits> <pos>`                -> `ok <block> <off>`       DocPos.Unpack
  `groupoffsets <bits> <positions>`           -> `ok <block>/<offs +>/<idx +>;...`   seq.GroupDocsOffsets
  `indexfetch <bits> <positions>`             -> `ok <block>.<off>|-,...`   processor.IndexFetch (documents named by where they are read)
  `extract <block hex> <offsets>`             -> `ok <doc hex>,...`       extractDocsFromBlockFunc
  `filterstats <collector ids> <appended ids>` -> `ok min= max= kept=`   metaDataCollector.Filter
  `groupids <fracs> <ids>`                    -> `ok <name>=<ids>;...` | `panic`     fracmanager.groupIDsByFraction
        frac = `<name>/<isect lo:hi:0|1>/<contains mid=0|1 +>` (the fraction's answers are oracle arguments),
        id = `mid:rid:hint` (hint = fraction name or `-`)
  `fetchdocs <bits> <fracs> <ids>`            -> `ok <name>.<block>.<off>|-,...` | `err` | `crash`   Fetcher.FetchDocs
        frac = `<name>/<isect>/<contains>/<S|A>/<entries mid:rid:pos +>`; S: entries are the ID table in LID order
        (entry 0 = system ID), A: the position map
-/
open SV SV.Proto SV.Fetch

def parseID (s : String) : Option ID :=
  match s.splitOn ":" with
  | [a, b] => do pure ⟨(← a.toNat?), (← b.toNat?)⟩
  | _ => none

def parseIDs (s : String) : Option (List ID) := (splitList s).mapM parseID

def parseIDS (s : String) : Option IDS :=
  match s.splitOn ":" with
  | [a, b, h] => do
    let hint ← if h = "-" then some none else h.toNat?.map some
    pure ⟨⟨(← a.toNat?), (← b.toNat?)⟩, hint⟩
  | _ => none

def fmtOptNats : Option (List Nat) → String
  | some l => s!"ok {fmtNats l}"
  | none => "panic"

def fmtID (i : ID) : String := s!"{i.mid}:{i.rid}"

/-- `mid=0|1+...` -> lookup table, unknown timestamps answer true -/
def parseContains (s : String) : Option (Nat → Bool) := do
  let es ← (splitList s "+").mapM fun e =>
    match e.splitOn "=" with
    | [m, v] => do pure ((← m.toNat?), (← bool? v))
    | _ => none
  pure fun mid => match es.find? (fun e => e.1 = mid) with
    | some e => e.2
    | none => true

def parseIsect (s : String) : Option (Nat → Nat → Bool) :=
  match s.splitOn ":" with
  | [lo, hi, v] => do
    let lo ← lo.toNat?
    let hi ← hi.toNat?
    let v ← bool? v
    pure fun a b => if a = lo ∧ b = hi then v else true
  | _ => none

abbrev Tok := Nat × Nat × Nat

def parseEntries (s : String) : Option (List (ID × Nat)) :=
  (splitList s "+").mapM fun e =>
    match e.splitOn ":" with
    | [m, r, p] => do pure (⟨(← m.toNat?), (← r.toNat?)⟩, (← p.toNat?))
    | _ => none

def parseFrac (full : Bool) (s : String) : Option (Frac Tok) :=
  match s.splitOn "/", full with
  | [name, isect, cont], false => do
    let name ← name.toNat?
    pure ⟨name, (← parseContains cont), (← parseIsect isect), fun ids => some (ids.map fun _ => notFound), fun b o => (name, b, o)⟩
  | [name, isect, cont, kind, entries], true => do
    let name ← name.toNat?
    let es ← parseEntries entries
    let rd : Nat → Nat → Tok := fun b o => (name, b, o)
    if kind = "S" then
      pure (sealedFrac name (← parseContains cont) (← parseIsect isect) (es.map (·.1)) (es.map (·.2)) rd)
    else if kind = "A" then
      pure (activeFrac name (← parseContains cont) (← parseIsect isect) es rd)
    else none
  | _, _ => none

def fmtGroup (g : Group) : String :=
  s!"{g.block}/{fmtList toString g.offsets "+"}/{fmtList toString g.index "+"}"

def step (line : String) : String :=
  match fields line with
  | ["chunksize", m, lens, prev] =>
    match m.toNat?, natList? lens, prev.toNat? with
    | some m, some lens, some prev => s!"ok {Chunking.calcFixed m lens prev}"
    | _, _, _ => "bad-op"
  | ["chunksize.old", m, lens, prev] =>
    match m.toNat?, natList? lens, prev.toNat? with
    | some m, some lens, some prev =>
      match Chunking.calcChunkSize m lens prev with
      | some n => s!"ok {n}"
      | none => "panic div0"
    | _, _, _ => "bad-op"
  | ["findlids", t, ids] =>
    match parseIDs t, parseIDs ids with
    | some t, some ids => fmtOptNats (findLIDsFixed t ids)
    | _, _ => "bad-op"
  | ["findlids.old", t, ids] =>
    match parseIDs t, parseIDs ids with
    | some t, some ids => fmtOptNats (findLIDs t ids)
    | _, _ => "bad-op"
  | ["lessorequal", cap, t, mins, lid, id] =>
    match cap.toNat?, parseIDs t, parseIDs mins, lid.toNat?, parseID id with
    | some cap, some t, some mins, some lid, some id => s!"ok {fmtBool (lessOrEqualBlk cap mins t lid id)}"
    | _, _, _, _, _ => "bad-op"
  | ["idstr.enc", m, r] =>
    match m.toNat?, r.toNat? with
    | some m, some r => s!"ok {fmtHex (SV.IDStr.idString m r)}"
    | _, _ => "bad-op"
  | ["idstr.dec", x] =>
    match hex? x with
    | some bs =>
      match SV.IDStr.fromString bs with
      | some (m, r) => s!"ok {m} {r}"
      | none => "err"
    | none => "bad-op"
  | ["fetchhop", ids] =>
    -- ids: `mid:rid:hinthex` separated by `,` (`-` = no ids); answer: what the store's extractIDs reads
    let parse (e : String) : Option SV.IDStr.IDSrc :=
      match e.splitOn ":" with
      | [m, r, h] =>
        match m.toNat?, r.toNat?, (if h = "" then some [] else hex? h) with
        | some m, some r, some h => some ⟨m, r, h⟩
        | _, _, _ => none
      | _ => none
    match (if ids = "-" then some [] else (splitList ids).mapM parse) with
    | some l =>
      match SV.IDStr.extractIDs (SV.IDStr.makeFetchReq l) with
      | some out => s!"ok {fmtList (fun (i : SV.IDStr.IDSrc) => s!"{i.mid}:{i.rid}:{fmtHex i.hint}") out}"
      | none => "err"
    | none => "bad-op"
  | ["docpos.pack", bits, b, o] =>
    match bits.toNat?, b.toNat?, o.toNat? with
    | some bits, some b, some o => s!"ok {packDocPos bits b o}"
    | _, _, _ => "bad-op"
  | ["docpos.unpack", bits, p] =>
    match bits.toNat?, p.toNat? with
    | some bits, some p => s!"ok {(unpackDocPos bits p).1} {(unpackDocPos bits p).2}"
    | _, _ => "bad-op"
  | ["groupoffsets", bits, ps] =>
    match bits.toNat?, natList? ps with
    | some bits, some ps => s!"ok {fmtList fmtGroup (groupDocsOffsets bits ps) ";"}"
    | _, _ => "bad-op"
  | ["indexfetch", bits, ps] =>
    match bits.toNat?, natList? ps with
    | some bits, some ps =>
      s!"ok {fmtList (fun (d : Option (Nat × Nat)) => match d with
        | none => "-"
        | some t => s!"{t.1}.{t.2}") (indexFetch bits (fun b o => (b, o)) ps)}"
    | _, _ => "bad-op"
  | ["extract", blk, offs] =>
    match hex? blk, natList? offs with
    | some blk, some offs => s!"ok {fmtList fmtHex (extractDocs blk offs)}"
    | _, _ => "bad-op"
  | ["filterstats", ids, appended] =>
    match parseIDs ids, parseIDs appended with
    | some ids, some appended =>
      let st := filterStats ids appended
      s!"ok min={st.1} max={st.2} kept={fmtList fmtID (keptIDs ids appended)}"
    | _, _ => "bad-op"
  | ["groupids", fracs, ids] =>
    match (splitList fracs ";").mapM (parseFrac false), (splitList ids).mapM parseIDS with
    | some fracs, some ids =>
      match groupIDsByFraction fracs ids with
      | none => "panic"
      | some gs => s!"ok {fmtList (fun (g : Frac Tok × List ID) => s!"{g.1.name}={fmtList fmtID g.2}") gs ";"}"
    | _, _ => "bad-op"
  | ["fetchdocs", bits, fracs, ids] =>
    match bits.toNat?, (splitList fracs ";").mapM (parseFrac true), (splitList ids).mapM parseIDS with
    | some bits, some fracs, some ids =>
      match fetchDocs bits fracs ids with
      | .crash => "crash"
      | .err => "err"
      | .ok docs =>
        s!"ok {fmtList (fun (d : Option Tok) => match d with
          | none => "-"
          | some t => s!"{t.1}.{t.2.1}.{t.2.2}") docs}"
    | _, _, _ => "bad-op"
  | _ => "bad-op"

def main : IO Unit := SV.Proto.main step
