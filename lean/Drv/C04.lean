import SeqVerif.Base.Proto
import SeqVerif.Model.Chunking
import SeqVerif.Model.FetchIDs
/-!
Driver for C04.  Requests (ids are `mid:rid`, lists comma separated, `-` = empty):
  `chunksize <maxFetch> <lens> <prev>`        -> `ok <n>`                 (docsStream.calcChunkSize, repaired form)
  `chunksize.old <maxFetch> <lens> <prev>`    -> `ok <n>` | `panic div0`  (the form before the repair)
  `findlids <table> <ids>`                    -> `ok <lids>` | `panic`    (sealedFetchIndex.findLIDs, repaired form)
  `findlids.old <table> <ids>`                -> `ok <lids>` | `panic`
-/
open SV SV.Proto SV.Fetch

def parseID (s : String) : Option ID :=
  match s.splitOn ":" with
  | [a, b] => do pure ⟨(← a.toNat?), (← b.toNat?)⟩
  | _ => none

def parseIDs (s : String) : Option (List ID) := (splitList s).mapM parseID

def fmtOptNats : Option (List Nat) → String
  | some l => s!"ok {fmtNats l}"
  | none => "panic"

def step (line : String) : String :=
  match fields line with
  | ["chunksize", m, lens, prev] =>
    match m.toNat?, natList? lens, prev.toNat? with
    | some m, some lens, some prev => s!"ok {Chunking.calcFixed m lens prev}"
    | _, _, _ => "bad-op"
  | ["chunksize.old", m, lens, prev] =>
    match m.toNat?, natList? lens, prev.toNat? with
    | some m, some lens, some prev =>
      match Chunking.calcChunkSize m lens prev with
      | some n => s!"ok {n}"
      | none => "panic div0"
    | _, _, _ => "bad-op"
  | ["findlids", t, ids] =>
    match parseIDs t, parseIDs ids with
    | some t, some ids => fmtOptNats (findLIDsFixed t ids)
    | _, _ => "bad-op"
  | ["findlids.old", t, ids] =>
    match parseIDs t, parseIDs ids with
    | some t, some ids => fmtOptNats (findLIDs t ids)
    | _, _ => "bad-op"
  | _ => "bad-op"

def main : IO Unit := SV.Proto.main step
