import SeqVerif.Base.Proto
import SeqVerif.Model.Agg
import SeqVerif.Extracted.C06
import SeqVerif.Model.AggCodec
import SeqVerif.Model.AggNum
/-!
Driver for C06.  Encodings: SC = `min/max/sum/total/ne/samples`; bin = `mid@token@SC`; AS = `ne#bin;bin` (`ne#-` if
no bins); value = `nan` | `n` | `n/d`; bucket = `mid@name@value@q,q@ne`.

  `sc.ops <full|len> <op;op;...>` ops on `NewSamplesContainers()`: `n:num:cnt` InsertNTimes, `s:num` InsertSample,
                         `t:num:cnt` InsertSampleNTimes, `m:SC` Merge(SC), `q:qn:qd` Quantile (recorded)
                         -> `ok <SC> q=<values>`   (samples in slice order; only their number once above the limit)
  `as.tree <fn> <qs> <skip> <rpn> <AS>...`  rpn: `i` push leaf i, `z` push the zero AS, `m` = second.Merge(top)
                         -> `ok as=<AS sorted by key> res=<ne>#<buckets>` | `panic empty-quantiles`
  `hist.run <interval> <mids>` / `hist.merge <h> <h>...` -> `ok k:c,k:c` (sorted by key)
  `agg <fn> <rev> <interval> <qs> <lids> <mids> <g postings|x> <f postings|x> <gvals> <fvals>`
                         -> `ok <AS sorted by key>` | `err parse`
-/
open SV SV.Proto SV.Agg

def lim := maxHistogramSamples
/-- which `Quantile` the source has (re-extracted on every run) -/
def fixed : Bool := SV.Extracted.C06.quantileFixed
def pick0 : List Int → Nat := fun _ => 0

def fmtSC (c : SC) (lenOnly : Bool := false) : String :=
  let ss := if lenOnly then s!"#{c.samples.length}" else fmtInts c.samples
  s!"{c.min}/{c.max}/{c.sum}/{c.total}/{c.notExists}/{ss}"

def parseSC (s : String) : Option SC :=
  match s.splitOn "/" with
  | [mn, mx, sm, t, ne, ss] => do
    pure ⟨← mn.toInt?, ← mx.toInt?, ← sm.toInt?, ← t.toNat?, ← ne.toNat?, ← intList? ss⟩
  | _ => none

/-- canonical rendering: reduced fraction (rendering only) -/
def fmtVal : Val → String
  | .nan => "nan"
  | .rat n d =>
    let g := Nat.gcd n.natAbs d
    if g = 0 then "nan" else if d / g = 1 then toString (n / g) else s!"{n / g}/{d / g}"

def parseBin (s : String) : Option (Bin × SC) :=
  match s.splitOn "@" with
  | [m, t, c] => do pure (⟨← m.toNat?, t⟩, ← parseSC c)
  | _ => none

def parseAS (s : String) : Option AS :=
  match s.splitOn "#" with
  | [ne, bs] => do pure ⟨← (splitList bs ";").mapM parseBin, ← ne.toNat?⟩
  | _ => none

def binLe (a b : Bin × SC) : Bool := a.1.mid < b.1.mid || (a.1.mid == b.1.mid && a.1.token ≤ b.1.token)

/-- bins sorted by key (they come out of a Go map); `sortSamples`: samples as a sorted list where their order
depends on map iteration (TwoSourceAggregator.Aggregate ranges over `countBySource`) -/
def fmtAS (a : AS) (sortSamples : Bool := false) : String :=
  let bs := a.bins.mergeSort binLe
  let f := fun (c : SC) => if sortSamples then { c with samples := isort c.samples } else c
  s!"{a.notExists}#" ++ fmtList (fun (kh : Bin × SC) => s!"{kh.1.mid}@{kh.1.token}@{fmtSC (f kh.2)}") bs ";"

def fmtBucket (b : Bucket) : String :=
  s!"{b.mid}@{b.name}@{fmtVal b.value}@{fmtList fmtVal b.quantiles}@{b.notExists}"

def parseFn : String → Option Fn
  | "count" => some .count | "sum" => some .sum | "min" => some .min | "max" => some .max
  | "avg" => some .avg | "quantile" => some .quantile | "unique" => some .unique | _ => none

def parseQ (s : String) : Option (Nat × Nat) :=
  match s.splitOn "/" with
  | [a, b] => do
    let a ← a.toNat?
    let b ← b.toNat?
    if b = 0 ∨ a > b then none else pure (a, b)
  | _ => none

/-- ops on one container; returns the container and the recorded quantile answers -/
def runOps : List String → SC → List Val → Option (SC × List Val)
  | [], c, qs => some (c, qs.reverse)
  | op :: rest, c, qs =>
    match op.splitOn ":" with
    | ["n", num, cnt] => do runOps rest (c.insertNTimes (← num.toInt?) (← cnt.toNat?)) qs
    | ["s", num] => do runOps rest (c.insertSample lim pick0 (← num.toInt?)) qs
    | ["t", num, cnt] => do runOps rest (c.insertSampleNTimes lim pick0 (← num.toInt?) (← cnt.toNat?)) qs
    | ["m", sc] => do runOps rest (SC.merge lim pick0 c (← parseSC sc)) qs
    | ["q", qn, qd] => do
      let q ← parseQ (qn ++ "/" ++ qd)
      runOps rest (c.afterQuantile fixed q.1 q.2) (c.quantile fixed q.1 q.2 :: qs)
    | _ => none

/-- merge tree in reverse polish notation -/
def runRpn (leaves : Array AS) : List String → List AS → Option AS
  | [], [a] => some a
  | [], _ => none
  | "z" :: rest, st => runRpn leaves rest (AS.empty :: st)
  | "m" :: rest, b :: a :: st => runRpn leaves rest (AS.merge lim pick0 a b :: st)
  | "m" :: _, _ => none
  | t :: rest, st => do
    let i ← t.toNat?
    let a ← leaves[i]?
    runRpn leaves rest (a :: st)

def fmtHist (h : Hist) : String :=
  fmtList (fun (kc : Nat × Nat) => s!"{kc.1}:{kc.2}") (h.mergeSort fun a b => a.1 ≤ b.1)

def parseHist (s : String) : Option Hist :=
  (splitList s).mapM fun kc =>
    match kc.splitOn ":" with
    | [k, c] => do pure (← k.toNat?, ← c.toNat?)
    | _ => none

def parsePostings (s : String) : Option (Option (List (List Nat))) :=
  if s = "x" then some none else (((splitList s "/").mapM fun p => natList? p).map some)

def lookupMid (tbl : List (Nat × Nat)) (lid : Nat) : Nat := (tbl.lookup lid).getD 0

def fmtPBBin (b : PBBin) : String := s!"{b.label}@{b.ts.1}@{b.ts.2}@{fmtSC b.hist}"

def pbBinLe (a b : PBBin) : Bool :=
  a.ts.1 < b.ts.1 || (a.ts.1 == b.ts.1 && (a.ts.2 < b.ts.2 || (a.ts.2 == b.ts.2 && a.label ≤ b.label)))

def parsePBBin (s : String) : Option PBBin :=
  match s.splitOn "@" with
  | [l, sec, ns, c] => do pure ⟨l, (← sec.toInt?, ← ns.toInt?), ← parseSC c⟩
  | _ => none

def parsePBAgg (s : String) : Option PBAgg :=
  match s.splitOn "#" with
  | [ne, bs] => do pure ⟨← (splitList bs ";").mapM parsePBBin, ← ne.toNat?⟩
  | _ => none

def fmtTs : Option (Int × Int) → String
  | none => "-"
  | some ts => s!"{ts.1}.{ts.2}"

def fmtApiBucket (b : ApiBucket) : String :=
  s!"{b.key}@{fmtVal b.value}@{b.notExists}@{fmtList fmtVal b.quantiles}@{fmtTs b.ts}"

/-- a field token of a request: `h<hex of the raw token>` is valued by the model's `tokenInt` (the specification of
`parseNum`), a plain integer stands for itself, anything else is not a number -/
def fieldTokenValue (t : String) : Option Int :=
  if t.startsWith "h" then
    match hex? (t.drop 1).toString with
    | some bs => tokenInt (String.ofList (bs.map Char.ofNat))
    | none => none
  else t.toInt?

def step (line : String) : String :=
  match fields line with
  | ["sc.ops", mode, ops] =>
    match runOps (splitList ops ";") SC.new [] with
    | some (c, qs) => s!"ok {fmtSC c (mode == "len")} q={fmtList fmtVal qs}"
    | none => "bad-op"
  | "as.tree" :: fn :: qs :: skip :: rpn :: leaves =>
    match parseFn fn, (splitList qs).mapM parseQ, bool? skip, leaves.mapM parseAS with
    | some fn, some qs, some skip, some leaves =>
      match runRpn leaves.toArray (splitList rpn) [] with
      | some a =>
        match aggregate fixed fn qs skip a with
        | some r => s!"ok as={fmtAS a} res={r.notExists}#{fmtList fmtBucket r.buckets ";"}"
        | none => "panic empty-quantiles"
      | none => "bad-op"
    | _, _, _, _ => "bad-op"
  | ["num", t] =>
    match hex? t with
    | some bs =>
      match parseNumSpec (bs.map Char.ofNat) with
      | some (n, d) => s!"ok {fmtVal (.rat n d)}"
      | none => "err"
    | none => "bad-op"
  | ["pb.build", a] =>
    match parseAS a with
    | some a =>
      let p := buildAgg a
      s!"ok ne={p.notExists} ts={fmtList fmtPBBin (p.timeseries.mergeSort pbBinLe) ";"}"
    | none => "bad-op"
  | ["pb.toas", p] =>
    match parsePBAgg p with
    | some p => s!"ok {fmtAS (aggToAS p)}"
    | none => "bad-op"
  | ["api.agg", fn, qs, skip, a] =>
    match parseFn fn, (splitList qs).mapM parseQ, bool? skip, parseAS a with
    | some fn, some qs, some skip, some a =>
      match aggregate fixed fn qs skip a with
      | some r =>
        let p := makeProtoAggregation r
        s!"ok ne={p.2} {fmtList fmtApiBucket p.1 ";"}"
      | none => "panic empty-quantiles"
    | _, _, _, _ => "bad-op"
  | ["api.hist", h] =>
    match parseHist h with
    | some h =>
      let bs := (makeProtoHistogram h).mergeSort fun a b =>
        a.2.1 < b.2.1 || (a.2.1 == b.2.1 && (a.2.2 < b.2.2 || (a.2.2 == b.2.2 && a.1 ≤ b.1)))
      s!"ok {fmtList (fun (b : Nat × (Int × Int)) => s!"{b.1}@{b.2.1}@{b.2.2}") bs}"
    | none => "bad-op"
  | ["hist.run", interval, mids] =>
    match interval.toNat?, natList? mids with
    | some i, some ms => s!"ok {fmtHist (histRun i ms)}"
    | _, _ => "bad-op"
  | "hist.merge" :: h :: hs =>
    match parseHist h, hs.mapM parseHist with
    | some h, some hs => s!"ok {fmtHist (hs.foldl histMerge h)}"
    | _, _ => "bad-op"
  | ["agg", fn, rev, interval, qs, lids, mids, g, f, gv, fv] =>
    match parseFn fn, bool? rev, interval.toInt?, (splitList qs).mapM parseQ, natList? lids, natList? mids,
        parsePostings g, parsePostings f with
    | some fn, some rev, some interval, some qs, some lids, some mids, some g, some f =>
      let gvals := (splitList gv).toArray
      let fvals := ((splitList fv).map fieldTokenValue).toArray
      let gval := fun i => gvals.getD i ""
      let fval := fun i => fvals.getD i none
      let tbl := lids.zip mids
      let evs := events rev interval (lookupMid tbl) (g.map (buildStream rev)) (f.map (buildStream rev)) lids
      match evalAgg SV.Extracted.C06.groupNotExistsPerBin lim pick0 fn qs g.isSome gval fval evs with
      | some a => s!"ok {fmtAS a true}"
      | none => "err parse"
    | _, _, _, _, _, _, _, _ => "bad-op"
  | _ => "bad-op"

def main : IO Unit := SV.Proto.main step
