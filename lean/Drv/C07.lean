import SeqVerif.Base.Proto
import SeqVerif.Model.ProxyFrac
import SeqVerif.Model.ActiveConc
import SeqVerif.Model.C07Cfg
/-!
Driver for C07 (trace validation: is the logged sequence of critical sections a path of the Lean transition system,
and does the system predict what the implementation answered).

`pfrac <label>,<label>,...`
   labels: ab af aw ae id | sb sf0 sf1 si sbt sbe sp sd sr | st<a><s><g> sw sy<a><s><g> sa ss | da ds de ra rs re
   -> `ok a=_ s=_ ro=_ rel=_ asu=_ ssu=_ begun=_ indexed=_ sealed=_ lost=_`  |  `err step <i>`

`aconc <label>|<label>|...`
   wn/<i>/<mid>.<rid>.<t>+<t>;<doc>;...   wb/<i> wp/<i> wi/<i> wg/<i> wt/<i> wq/<i> ws/<i> wd/<i>
   rn/<i>/<query>/<from>/<to>   (query in prefix form, `.`-separated: T<n> | A q q | O q q | N q)
   ri/<i> rb/<i> rm/<i> rM/<i> rR/<i> rl/<i> re/<i> rf/<i>/<mid>.<rid> rc/<i>
   -> `ok obs=<one number per label> r<i>=<ids sorted>/<fetch outcomes F|N|P> ...`  |  `err step <i>`
   obs: wb block index, wp/wi documents kept, wg tokens created, wt number of queue calls, wq LIDs queued, rm |mapping|, rM/rR |ids|,
        rl LIDs in the token's list before inverseLIDs, everything else 0.
-/
open SV SV.Proto

namespace PF
open SV.ProxyFrac

def bit? (c : Char) : Option Bool := if c = '1' then some true else if c = '0' then some false else none

def label? (s : String) : Option Label :=
  match s with
  | "ab" => some .appendBegin | "af" => some .appendFail | "aw" => some .appendWrite | "ae" => some .appendWriteErr
  | "id" => some .indexDone
  | "sb" => some .sealBegin | "sf0" => some (.sealFail false) | "sf1" => some (.sealFail true)
  | "si" => some .sealIdle | "sbt" => some .sealBuilt | "sbe" => some .sealBuildErr | "sp" => some .sealPublish
  | "sd" => some .sealWgDone | "sr" => some .sealRelease
  | "sw" => some .suWoken | "sa" => some .suActive | "ss" => some .suSealed
  | "da" => some (.dpAcquire .active) | "ds" => some (.dpAcquire .sealed) | "de" => some (.dpAcquire .empty)
  | "ra" => some (.dpRelease .active) | "rs" => some (.dpRelease .sealed) | "re" => some (.dpRelease .empty)
  | _ =>
    match s.toList with
    | ['s', 't', a, b, c] => do pure (.suTry (← bit? a) (← bit? b) (← bit? c))
    | ['s', 'y', a, b, c] => do pure (.suRetry (← bit? a) (← bit? b) (← bit? c))
    | _ => none

def fmt (s : St) : String :=
  s!"a={fmtBool s.active} s={fmtBool s.sealed} ro={fmtBool s.readonly} rel={fmtBool s.aReleased} asu={fmtBool s.aSuicided} ssu={fmtBool s.sSuicided} begun={s.begun} indexed={s.indexed} sealed={s.sealedDocs} lost={s.lostWrites}"

def cmd (arg : String) : String :=
  match (splitList arg).mapM label? with
  | none => "bad-op"
  | some tr =>
    match firstBad SV.C07.fx init tr 0 with
    | some i => s!"err step {i}"
    | none =>
      match run SV.C07.fx init tr with
      | some s => "ok " ++ fmt s
      | none => "err step ?"

end PF

namespace AC
open SV.ActiveConc

def doc? (s : String) : Option Doc :=
  match s.splitOn "." with
  | [m, r, ts] => do pure ⟨← m.toNat?, ← r.toNat?, ← natList? ts "+"⟩
  | _ => none

/-- prefix-form query parser over a token list -/
def query? : Nat → List String → Option (Query × List String)
  | 0, _ => none
  | _, [] => none
  | fuel + 1, t :: rest =>
    if t = "A" then do
      let (a, r1) ← query? fuel rest
      let (b, r2) ← query? fuel r1
      pure (.and a b, r2)
    else if t = "O" then do
      let (a, r1) ← query? fuel rest
      let (b, r2) ← query? fuel r1
      pure (.or a b, r2)
    else if t = "N" then do
      let (a, r1) ← query? fuel rest
      pure (.not a, r1)
    else
      match t.toList with
      | 'T' :: ds => do pure (.tok (← (String.ofList ds).toNat?), rest)
      | _ => none

def id? (s : String) : Option ID :=
  match s.splitOn "." with
  | [m, r] => do pure (← m.toNat?, ← r.toNat?)
  | _ => none

def label? (s : String) : Option Label :=
  match s.splitOn "/" with
  | ["wn", i, docs] => do pure (.wNew (← i.toNat?) (← (splitList docs ";").mapM doc?))
  | ["wb", i] => i.toNat?.map .wBlock | ["wp", i] => i.toNat?.map .wPos | ["wi", i] => i.toNat?.map .wIds
  | ["wg", i] => i.toNat?.map .wTokGet | ["wt", i] => i.toNat?.map .wToks | ["wq", i] => i.toNat?.map .wQueue | ["ws", i] => i.toNat?.map .wStats
  | ["wd", i] => i.toNat?.map .wDone
  | ["rn", i, q, a, b] => do
    let toks := q.splitOn "."
    let (qq, rest) ← query? (toks.length + 1) toks
    if rest.isEmpty then pure (.rNew (← i.toNat?) qq (← a.toNat?) (← b.toNat?)) else none
  | ["ri", i] => i.toNat?.map .rInfo | ["rb", i] => i.toNat?.map .rBlocks | ["rm", i] => i.toNat?.map .rMapping
  | ["rM", i] => i.toNat?.map .rMids | ["rR", i] => i.toNat?.map .rRids | ["rl", i] => i.toNat?.map .rLeaf
  | ["re", i] => i.toNat?.map .rEval | ["rc", i] => i.toNat?.map .rClose
  | ["rf", i, id] => do pure (.rFetch (← i.toNat?) (← id?  id))
  | _ => none

/-- what the hooks can see of a step (compared with the hook arguments) -/
def obs (s s' : St) : Label → Nat
  | .wBlock i => (s'.ws i).blk
  | .wPos i => (s'.ws i).napp
  | .wIds i => (s'.ws i).docs.length
  | .wTokGet i => (s'.ws i).newToks.length
  | .wToks i => (s'.ws i).todo.length
  | .wQueue i => match (s.ws i).todo with | (_, ls) :: _ => ls.length | [] => 0
  | .rMapping i => (s'.rs i).mapping.length
  | .rMids i => (s'.rs i).nmids
  | .rRids i => (s'.rs i).nrids
  | .rLeaf i => match (s.rs i).todo with
    | t :: _ => if s.sh.dict.contains t then (s.sh.tok t).length else 0
    | [] => 0
  | _ => 0

def runObs : St → List Label → Nat → List Nat → Except Nat (St × List Nat)
  | s, [], _, acc => .ok (s, acc.reverse)
  | s, l :: ls, k, acc =>
    match step SV.C07.cfg s l with
    | some s' => runObs s' ls (k + 1) (obs s s' l :: acc)
    | none => .error k

def readerOf : Label → Option Nat
  | .rNew i _ _ _ => some i
  | _ => none

def idLe (a b : ID) : Bool := a.1 < b.1 || (a.1 == b.1 && a.2 ≤ b.2)

def fmtReader (s : St) (i : Nat) : String :=
  let r := s.rs i
  let ids := ((r.result.filterMap fun l => (s.sh.ids[l]?).map Doc.id).eraseDups).mergeSort idLe   -- the searcher drops repeated IDs
  let fs := r.fetched.map fun p => match p.2 with | .found _ _ => "F" | .notFound => "N" | .panic => "P"
  s!"r{i}={fmtList (fun (p : ID) => s!"{p.1}.{p.2}") ids "+"}/{fmtList id fs ""}"

def cmd (arg : String) : String :=
  match (splitList arg "|").mapM label? with
  | none => "bad-op"
  | some tr =>
    match runObs init tr 0 [] with
    | .error k => s!"err step {k}"
    | .ok (s, os) =>
      let readers := ((tr.filterMap readerOf).eraseDups).mergeSort (fun a b => decide (a ≤ b))
      "ok obs=" ++ fmtNats os ++ (readers.foldl (fun acc i => acc ++ " " ++ fmtReader s i) "")

end AC

def step (line : String) : String :=
  match fields line with
  | ["pfrac", tr] => PF.cmd tr
  | ["aconc", tr] => AC.cmd tr
  | ["cfg"] => s!"ok fx={fmtBool SV.C07.fx} allLast={fmtBool SV.C07.cfg.allLast} live={fmtBool SV.C07.cfg.live} tlLock={fmtBool SV.C07.cfg.tlLock}"
  | _ => "bad-op"

def main : IO Unit := SV.Proto.main step
