import SeqVerif.Model.Budget
import SeqVerif.Model.CacheRefine
/-!
# Consistency (final wave): the cache budget (C18 `SV.Budget`) against the cleaner model's `sizeLimit` (C18 `SV.Cache`)

`SV.Budget.limitOf C sort w` (Model/Budget.lean) is the `sizeLimit` `fracmanager.createCleaners` passes to
`cache.NewCleaner` for a weighted layer; `SV.Cache.Cfg.sizeLimit` (Model/Cache.lean) is that field in the cleaner
model.  `SV.Cache.tick_bounded` (Model/CacheRefine.lean; Props `c18_tick_bounded`) bounds a layer by its `sizeLimit`
under `0 < sizeLimit`; `Cfg.maxGenSize = sizeLimit / 20` and `minSize` are exact readings of the float code below 2^50.
The two modules do not import each other and nothing tied the limits Budget hands out to those hypotheses.

/repo HEAD has the capped rule (fracmanager/config.go:66-73: default `min(8*FracSize, 0.8*CacheSize)`, explicit value
above 80% is fatal) = `SV.Budget.sortSizeCapped` / `acceptedCapped`.
-/
namespace SV.Consistency
open SV

/-- every layer's limit is at most the whole cache (from `SV.Budget.sum_limits_le`) -/
theorem cons_budget_limit_le_total (C sort w : Nat) (hw : w ∈ SV.Budget.weights) (h : 10 * sort ≤ 9 * C) :
    SV.Budget.limitOf C sort w ≤ C := by
  have hs := SV.Budget.sum_limits_le C sort h
  simp only [SV.Budget.limits, SV.Budget.weights, List.map_cons, List.map_nil, List.sum_cons, List.sum_nil] at hs
  simp only [SV.Budget.weights, List.mem_cons, List.not_mem_nil, or_false] at hw
  rcases hw with rfl | rfl | rfl | rfl | rfl | rfl <;> omega

/-- under the rule of /repo HEAD (sort cache at most 80%) the remainder is at least a tenth of the cache -/
theorem budget_capped_remainder (C F S : Nat) (hacc : S = 0 ∨ SV.Budget.acceptedCapped C S) :
    10 * SV.Budget.sortSizeCapped C F S + C ≤ 9 * C := by
  unfold SV.Budget.sortSizeCapped
  split
  · have : min (8 * F) (C * 8 / 10) ≤ C * 8 / 10 := Nat.min_le_right _ _
    omega
  · rename_i hS
    rcases hacc with h | h
    · exact absurd h hS
    · unfold SV.Budget.acceptedCapped at h; omega

/-- **the limits Budget hands out are exactly what `tick_bounded` needs**: with the sort-cache rule of /repo HEAD, a
cache of at least 334 bytes and below 2^50 (1 PiB: the float exactness assumption of `maxGenSize`/`minSize`), every
weighted layer gets `0 < sizeLimit < 2^50`, all limits plus the sort cache fit into the cache -/
theorem cons_budget_limits_meet_cache_hypotheses (C F S w : Nat) (hw : w ∈ SV.Budget.weights)
    (hacc : S = 0 ∨ SV.Budget.acceptedCapped C S) (hC : 334 ≤ C) (hC2 : C < 1125899906842624) :
    0 < SV.Budget.limitOf C (SV.Budget.sortSizeCapped C F S) w ∧
    SV.Budget.limitOf C (SV.Budget.sortSizeCapped C F S) w < 1125899906842624 ∧
    (SV.Budget.limits C (SV.Budget.sortSizeCapped C F S)).sum + SV.Budget.sortSizeCapped C F S ≤ C := by
  have hr := budget_capped_remainder C F S hacc
  have hw3 : 3 ≤ w := by
    simp only [SV.Budget.weights, List.mem_cons, List.not_mem_nil, or_false] at hw
    rcases hw with rfl | rfl | rfl | rfl | rfl | rfl <;> omega
  refine ⟨SV.Budget.limit_pos C _ w hw3 (by omega), ?_, SV.Budget.sum_limits_le C _ (by omega)⟩
  have := cons_budget_limit_le_total C (SV.Budget.sortSizeCapped C F S) w hw (by omega)
  omega

example : (8 : Nat) ∈ SV.Budget.weights ∧ ((0 : Nat) = 0 ∨ SV.Budget.acceptedCapped 8589934592 0) ∧ 334 ≤ 8589934592 ∧
    8589934592 < 1125899906842624 := by decide

/-- **composition**: a layer configured by Budget is bounded by its share, hence by the cache: `tick_bounded`
instantiated at `sizeLimit := limitOf ..` (its hypothesis `0 < sizeLimit` discharged above) -/
theorem cons_budget_tick_bounded_layer (C F S w es : Nat) (hw : w ∈ SV.Budget.weights)
    (hacc : S = 0 ∨ SV.Budget.acceptedCapped C S) (hC : 334 ≤ C) (hC2 : C < 1125899906842624) (hes : 0 < es)
    {s s' : SV.Cache.St} {gc : Bool} {outs : List (List SV.Cache.Out)}
    (hr : SV.Cache.SeqReach ⟨SV.Budget.limitOf C (SV.Budget.sortSizeCapped C F S) w, es⟩ s)
    (h : SV.Cache.runSeq ⟨SV.Budget.limitOf C (SV.Budget.sortSizeCapped C F S) w, es⟩ s (SV.Cache.tickOps gc) = some (s', outs)) :
    SV.Cache.liveSum s'.heap ≤ (SV.Budget.limitOf C (SV.Budget.sortSizeCapped C F S) w : Int) ∧
    SV.Cache.liveSum s'.heap ≤ (C : Int) := by
  have hyp := cons_budget_limits_meet_cache_hypotheses C F S w hw hacc hC hC2
  have hb := SV.Cache.tick_bounded (cfg := ⟨SV.Budget.limitOf C (SV.Budget.sortSizeCapped C F S) w, es⟩) hes hyp.1 hr h
  have hle := cons_budget_limit_le_total C (SV.Budget.sortSizeCapped C F S) w hw (by
    have := budget_capped_remainder C F S hacc; omega)
  simp only at hb
  exact ⟨hb, by omega⟩

/-! ## when Budget hands out a zero limit -/

/-- a zero `sizeLimit` does not mean "keep nothing": the cleaner never cleans (cache/cleaner.go:108
`if c.sizeLimit == 0 { return false }`; model `cleanupBegin`), so the layer is UNBOUNDED - `tick_bounded`'s hypothesis
`0 < sizeLimit` is not a technicality.  Model and Go agree on this behaviour. -/
theorem cons_budget_zero_limit_never_cleans (es : Nat) (s : SV.Cache.St) :
    SV.Cache.cleanupBegin ⟨0, es⟩ s = (s, .cleanup false 0 0) := by
  simp [SV.Cache.cleanupBegin]

/-- Budget CAN hand out zero limits with the rule of /repo HEAD, but only for caches below 334 bytes (the smallest
weight is 3 and the sort cache may take 80%: `(9C - 8C) * 3 / 1000 = 0`), e.g. `CacheSize = 320` with a default sort
cache capped at 80% (large `FracSize`), and for `CacheSize = 0`
(every layer unlimited).  Not a practical configuration; stated so the domain of the theorem above is sharp. -/
theorem cons_budget_zero_limit_small_cache_witness :
    SV.Budget.limitOf 320 (SV.Budget.sortSizeCapped 320 1000 0) 3 = 0 ∧ SV.Budget.acceptedCapped 320 0 ∧
    SV.Budget.limitOf 334 (SV.Budget.sortSizeCapped 334 1000 0) 3 = 1 ∧
    SV.Budget.limits 0 (SV.Budget.sortSizeCapped 0 0 0) = [0, 0, 0, 0, 0, 0] := by decide

/-- with the rule BEFORE the fix (`SV.Budget.accepted`: an explicit sort cache up to the whole cache) a realistic
configuration gave every weighted layer the limit 0 = unlimited: sort cache = 90% of a 1 GB cache (remainder exactly 0;
above 90% the remainder is negative and the limits are garbage, `SV.Budget.negative`).  /repo HEAD rejects it
(`acceptedCapped` fails); the fix is /verif/fixes/C18-cache-budget.patch, already in /repo. -/
theorem cons_budget_zero_limit_uncapped_witness :
    SV.Budget.accepted 1000000000 900000000 ∧
    SV.Budget.limits 1000000000 (SV.Budget.sortSize 1000000000 0 900000000) = [0, 0, 0, 0, 0, 0] ∧
    ¬ SV.Budget.acceptedCapped 1000000000 900000000 := by decide

end SV.Consistency
