import SeqVerif.Consistency.FileSet
import SeqVerif.Proofs.SealCrash
import SeqVerif.Model.AsyncLemmas
import SeqVerif.Model.AsyncAck
/-!
# Consistency (wave 2): "synced before rename" / "durable before ack"

* C08's new syntactic check `SV.SealOps.syncedBeforeRename` (dirty-set scan of an operation list) vs the CONTENT
  semantics of the same operations (`SV.SealOps.step`: `sync` turns `torn`/`empty` into `full`, `rename` moves the
  content) that wave 1 used for `atomicWriteOps` / `cons_fileset_atomicWriteOps_atomic`: the scan is sound for the
  semantics when every rename finds its source (`cons_sealsync_syncedBeforeRename_sound`); without that side condition it
  is not (`cons_sealsync_scan_accepts_torn_visible_witness` - a rename of a missing file, which Go reports as an error
  and which no modelled procedure performs).
* the scan on wave 1's `atomicWriteOps` (the `mustWriteFileAtomic` / `syncRename` pattern) and on C15's operation lists
  (`SV.Lifecycle`): `Sealed.Suicide` renames WITHOUT fsync - the scan only accepts it from a clean start.
* C19: `SV.AsyncAck` (new: many requests, `(id, done)` on disk) vs `SV.Async` (one request, its info + result files):
  the disk entry of AsyncAck is the projection of Async's state at the three points the two models share
  (acknowledgement, completion, crash + resume).

Wave-1 theorems re-checked: `sealTrace`, `releaseOps`, `step` are unchanged by commit fbc206e (it only ADDS
`syncedBeforeRename` and `sealTrace_syncedBeforeRename`), FileSet.lean / ProxyFracLife.lean compile unchanged and their
doc comments still describe their statements.
-/
namespace SV.Consistency
open SV SV.FileSet SV.SealOps

/-! ## the scan on the write-sync-rename pattern -/

theorem sealsync_scan_writes (t : Suffix) (k : Nat) (rest : List Op) (d : Suffix → Bool) (h : d t = true) :
    syncedBeforeRename (List.replicate k (.write t) ++ rest) d = syncedBeforeRename rest d :=
  syncedBeforeRename_writes t k rest d h

/-- wave 1's `atomicWriteOps` (= `mustWriteFileAtomic`, `writeSortedDocs` + `syncRename`) passes C08's new scan from
ANY dirty set: the file is created, written, fsynced, and only then renamed.  All `t`, `s`, `n`, `d`. -/
theorem cons_sealsync_atomicWriteOps_syncedBeforeRename (t s : Suffix) (n : Nat) (d : Suffix → Bool) :
    syncedBeforeRename (atomicWriteOps t s n) d = true := by
  unfold atomicWriteOps
  simp only [syncedBeforeRename]
  rw [sealsync_scan_writes t n _ _ (by simp)]
  simp [syncedBeforeRename]

/-- dropping the `Sync` makes the scan fail: the check is not vacuous on the pattern -/
theorem cons_sealsync_unsynced_rename_rejected (t s : Suffix) (d : Suffix → Bool) :
    syncedBeforeRename [.create t, .write t, .rename t s, .syncDir] d = false := by
  simp [syncedBeforeRename]

/-- C08's own `sealTrace_syncedBeforeRename` re-exported: the shared seal trace passes the scan -/
theorem cons_sealsync_sealTrace_syncedBeforeRename (c : Cfg) (f : Facts) (p : Plan) (oi os : List Bool) :
    syncedBeforeRename (sealTrace c f p oi os).2 (fun _ => true) = true :=
  sealTrace_syncedBeforeRename c f p oi os

/-! ## the scan is sound for the content semantics -/

/-- a file the scan regards as clean is neither being written nor freshly created -/
def SealSyncClean (d : Suffix → Bool) (st : St) : Prop :=
  ∀ x, d x = false → st.fs.get x ≠ .torn ∧ st.fs.get x ≠ .empty

/-- every rename of the list finds its source present and moves a file that is not torn / empty -/
def SealSyncRenamesDurable : List Op → St → Prop
  | [], _ => True
  | .rename a b :: r, st =>
      (st.fs.get a ≠ .torn ∧ st.fs.get a ≠ .empty) ∧ SealSyncRenamesDurable r (step (.rename a b) st)
  | o :: r, st => SealSyncRenamesDurable r (step o st)

/-- every rename of the list finds its source (Go: `os.Rename` returned nil) -/
def SealSyncSourcesPresent : List Op → St → Prop
  | [], _ => True
  | .rename a b :: r, st => st.fs.get a ≠ .absent ∧ SealSyncSourcesPresent r (step (.rename a b) st)
  | o :: r, st => SealSyncSourcesPresent r (step o st)

theorem sealsync_get_set (fs : FileSet) (s x : Suffix) (c : Content) :
    (fs.set s c).get x = if x = s then c else fs.get x := by
  by_cases h : x = s
  · subst h; simp [get_set_same]
  · simp [h, get_set_other _ _ _ _ h]

/-- **C08 `syncedBeforeRename` (syntactic) refines the content semantics of `SV.SealOps.step`**: if the scan accepts
the list from dirty set `d`, `d` under-approximates the dirty files of the start state, and every rename finds its
source, then no rename ever publishes a torn or empty file.  All lists, states, dirty sets. -/
theorem cons_sealsync_syncedBeforeRename_sound (ops : List Op) :
    ∀ (d : Suffix → Bool) (st : St), syncedBeforeRename ops d = true → SealSyncClean d st →
      SealSyncSourcesPresent ops st → SealSyncRenamesDurable ops st := by
  induction ops with
  | nil => intro d st _ _ _; trivial
  | cons o r ih =>
    intro d st hscan hcl hsrc
    cases o with
    | rename a b =>
      simp only [syncedBeforeRename, Bool.and_eq_true, Bool.not_eq_true'] at hscan
      simp only [SealSyncSourcesPresent] at hsrc
      simp only [SealSyncRenamesDurable]
      refine ⟨hcl a hscan.1, ih _ _ hscan.2 ?_ hsrc.2⟩
      intro x hx
      simp only [step, hsrc.1, if_false]
      rw [sealsync_get_set, sealsync_get_set]
      by_cases hxa : x = a
      · simp [hxa]
      · simp only [hxa, if_false]
        by_cases hxb : x = b
        · simp only [hxb, if_true]; exact hcl a hscan.1
        · simp only [hxb, if_false] at hx ⊢; exact hcl x hx
    | create s =>
      simp only [syncedBeforeRename] at hscan
      refine ih _ _ hscan ?_ hsrc
      intro x hx
      by_cases hxs : x = s
      · simp [hxs] at hx
      · simp only [hxs, if_false] at hx
        simp only [step]; rw [get_set_other _ _ _ _ hxs]; exact hcl x hx
    | write s =>
      simp only [syncedBeforeRename] at hscan
      refine ih _ _ hscan ?_ hsrc
      intro x hx
      by_cases hxs : x = s
      · simp [hxs] at hx
      · simp only [hxs, if_false] at hx
        simp only [step]; rw [get_set_other _ _ _ _ hxs]; exact hcl x hx
    | lose s =>
      simp only [syncedBeforeRename] at hscan
      refine ih _ _ hscan ?_ hsrc
      intro x hx
      by_cases hxs : x = s
      · simp [hxs] at hx
      · simp only [hxs, if_false] at hx
        simp only [step]; rw [get_set_other _ _ _ _ hxs]; exact hcl x hx
    | touch s =>
      simp only [syncedBeforeRename] at hscan
      refine ih _ _ hscan ?_ hsrc
      intro x hx
      by_cases hxs : x = s
      · simp [hxs] at hx
      · simp only [hxs, if_false] at hx
        simp only [step]
        split
        · simp only; rw [get_set_other _ _ _ _ hxs]; exact hcl x hx
        · exact hcl x hx
    | sync s =>
      simp only [syncedBeforeRename] at hscan
      refine ih _ _ hscan ?_ hsrc
      intro x hx
      simp only [step]
      by_cases hxs : x = s
      · subst hxs
        rw [get_set_same]
        cases st.fs.get x <;> simp
      · simp only [hxs, if_false] at hx
        rw [get_set_other _ _ _ _ hxs]; exact hcl x hx
    | fill =>
      simp only [syncedBeforeRename] at hscan
      refine ih _ _ hscan ?_ hsrc
      intro x hx
      have := hcl x hx
      simp only [step]
      cases x <;> simp_all [FileSet.get]
    | syncDir =>
      simp only [syncedBeforeRename] at hscan
      exact ih _ _ hscan (fun x hx => hcl x hx) hsrc
    | remove s =>
      simp only [syncedBeforeRename] at hscan
      refine ih _ _ hscan ?_ hsrc
      intro x hx
      simp only [step]
      by_cases hxs : x = s
      · subst hxs; rw [get_set_same]; simp
      · rw [get_set_other _ _ _ _ hxs]; exact hcl x hx

/-- non-vacuity: the pattern from the empty directory satisfies all three hypotheses -/
example : syncedBeforeRename (atomicWriteOps .indexTmp .index 2) (fun _ => true) = true ∧
    SealSyncClean (fun _ => true) ⟨{}, []⟩ ∧ SealSyncSourcesPresent (atomicWriteOps .indexTmp .index 2) ⟨{}, []⟩ := by
  refine ⟨by decide, ?_, ?_⟩
  · intro x hx; cases hx
  · simp [atomicWriteOps, SealSyncSourcesPresent, step, FileSet.set, FileSet.get]

/-- **Gap between the two readings of "durable before visible".**  Without the side condition the scan accepts a list
after which a torn, never-synced file sits under the final name: `sync` / `rename` of a MISSING temporary file leave
the destination as it was, but the scan marks the destination clean.  Go side: `os.Rename` of a missing file returns
an error and `frac.Seal` aborts (the trace ends), so no modelled procedure contains such a step - the content
semantics (`step`: "rename of a missing file fails; nothing changes") is the faithful one, the scan is a sufficient
check only for lists whose renames succeed (all of `sealTrace`, see `crash_safe` / `cons_fileset_atomicWriteOps_atomic`). -/
theorem cons_sealsync_scan_accepts_torn_visible_witness :
    syncedBeforeRename [.create .index, .write .index, .sync .indexTmp, .rename .indexTmp .index] (fun _ => true) = true ∧
      (applyOps [.create .index, .write .index, .sync .indexTmp, .rename .indexTmp .index] ⟨{}, []⟩).fs.index = .torn := by
  decide

/-! ## the scan on C15's operation lists -/

/-- `NewActive`, `Active.Suicide`, `removeFractionFiles` (C15 `SV.Lifecycle`) contain no rename: trivially accepted -/
theorem cons_sealsync_lifecycle_norename (d : Suffix → Bool) :
    syncedBeforeRename Lifecycle.newActiveOps d = true ∧ syncedBeforeRename Lifecycle.activeSuicideOps d = true ∧
      syncedBeforeRename Lifecycle.removeFractionFilesOps d = true := by
  simp [Lifecycle.newActiveOps, Lifecycle.activeSuicideOps, Lifecycle.removeFractionFilesOps, syncedBeforeRename]

/-- `Sealed.Suicide` (C15 `sealedSuicideOps`) renames `.docs/.sdocs/.index` to `.del` WITHOUT an fsync (frac/sealed.go:
three bare `os.Rename`).  C08's scan with its default "every file starts dirty" rejects it; it accepts it from a clean
start - which is what C15's `ShapeS` (index and documents `full`) provides.  So `syncedBeforeRename _ (fun _ => true)`
is a property of `proxyFrac.Seal` only, not an invariant of every C15 procedure. -/
theorem cons_sealsync_sealedSuicide_scan :
    syncedBeforeRename Lifecycle.sealedSuicideOps (fun _ => true) = false ∧
      syncedBeforeRename Lifecycle.sealedSuicideOps (fun _ => false) = true := by
  decide

/-! ## C19: `SV.AsyncAck` (many requests, done flag) vs `SV.Async` (one request, info + result files) -/

/-- what AsyncAck keeps of one request's directory: its id and the `Done` flag of the info file, if that exists -/
def asyncAckDiskOf (id : String) (st : Async.St) : List (String × Bool) :=
  match st.info with
  | none => []
  | some i => [(id, i.done)]

/-- Go `StartSearch` up to its `return nil`: the first atomic write of C19-old `SV.Async.startWrites` leaves on disk
what C19-new `SV.AsyncAck.step .start` records (`Done` = "no fraction in range").  All inputs. -/
theorem cons_sealsync_asyncAck_start_eq_async (search : String → Merge.QPR) (fracs : List String) (id : String) :
    asyncAckDiskOf id (Async.run Async.emptySt ((Async.startWrites search fracs).take 1))
      = (AsyncAck.run [.start id fracs.isEmpty]).disk := by
  simp [Async.startWrites, Async.run, Async.apply, Async.emptySt, asyncAckDiskOf, AsyncAck.run, AsyncAck.step]

/-- a crash before the first atomic write completed (`startTorn`): nothing on disk in both models -/
theorem cons_sealsync_asyncAck_startTorn_eq_async (search : String → Merge.QPR) (fracs : List String) (id : String) :
    asyncAckDiskOf id (Async.run Async.emptySt ((Async.startWrites search fracs).take 0))
      = (AsyncAck.run [.startTorn id]).disk := by
  simp [Async.run, Async.emptySt, asyncAckDiskOf, AsyncAck.run, AsyncAck.step]

/-- Go `doSearch` run to its end: all of `startWrites` = `start` then `finish` -/
theorem cons_sealsync_asyncAck_finish_eq_async (search : String → Merge.QPR) (fracs : List String) (id : String) :
    asyncAckDiskOf id (Async.run Async.emptySt (Async.startWrites search fracs))
      = (AsyncAck.run [.start id fracs.isEmpty, .finish id]).disk := by
  rw [Async.run_start_full]
  simp [asyncAckDiskOf, AsyncAck.run, AsyncAck.step, AsyncAck.setDone]

/-- crash after the acknowledgement, restart (`MustStartAsync`), resume: both models end with the request done.
Domain of `SV.Async.crashAndResume_eq`: distinct fraction names, at least the info write completed. -/
theorem cons_sealsync_asyncAck_crash_resume_eq_async (search : String → Merge.QPR) (fracs : List String) (id : String)
    (hnd : fracs.Nodup) (k : Nat) (hk : 1 ≤ k) :
    asyncAckDiskOf id (Async.crashAndResume search fracs k)
      = (AsyncAck.run [.start id fracs.isEmpty, .crash, .finish id]).disk := by
  rw [Async.crashAndResume_eq search fracs hnd k hk, Async.run_start_full]
  simp [asyncAckDiskOf, AsyncAck.run, AsyncAck.step, AsyncAck.setDone]

example : (["a", "b"] : List String).Nodup ∧ 1 ≤ 2 := by decide

end SV.Consistency
