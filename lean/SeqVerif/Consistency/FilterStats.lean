import SeqVerif.Model.FracInfo
import SeqVerif.Model.FetchRange
import SeqVerif.Model.DedupLemmas
/-!
# Consistency (wave 3): `metaDataCollector.Filter` (kept IDs, `MinMID` / `MaxMID`) and `Active.UpdateStats` - three models

* C14 `SV.FracInfo.survivors`, `collectorStats`, `setMultiple`, `ingestBulk`, `updateStats`      (Model/FracInfo.lean)
* C04 `SV.Fetch.keptIDs`, `filterStats`, `updateStats`                                            (Model/FetchRange.lean)
* C17 `SV.Collector.filter`, `setMultiple`, `dedupCollector`, `indexBulk`       (Model/Collector.lean, DedupIndex.lean)

IDs: C14 and C17 use pairs `(mid, rid)`, C04 the record `SV.Fetch.ID`; `filterstatsFetchID` converts.
Sentinels: all three start `MinMID` at `math.MaxUint64` (`18446744073709551615` / `SV.Collector.maxU64`) and `MaxMID`
at `0`; a range is the pair `(From, To)` in C04, the fields `ifrom/ito` in C14, `from_/to` in C17.
(C07's `Option` range and its sentinel conversion are wave 1/2: `cons_fracrange_updateStats_eq_widen`,
`cons_updateStats_activeconc_eq_collector`, `cons_statsOf_activeconc_eq_collector`.  The translated C04T slices
`T.metaDataCollector_Filter...` are tied to C04's definitions by Props/C04T.lean - cited, not imported.)
-/
namespace SV.Consistency
open SV

/-- pair -> C04 record -/
def filterstatsFetchID (p : Nat × Nat) : Fetch.ID := ⟨p.1, p.2⟩

theorem filterstats_fetchID_inj (p q : Nat × Nat) (h : filterstatsFetchID p = filterstatsFetchID q) : p = q := by
  cases p; cases q; simp only [filterstatsFetchID, Fetch.ID.mk.injEq] at h; simp [h.1, h.2]

theorem filterstats_contains_map (app : List (Nat × Nat)) (x : Nat × Nat) :
    (app.map filterstatsFetchID).contains (filterstatsFetchID x) = decide (x ∈ app) := by
  rw [Bool.eq_iff_iff]
  simp only [List.contains_iff_mem, List.mem_map, decide_eq_true_eq]
  constructor
  · rintro ⟨y, hy, he⟩; rw [← filterstats_fetchID_inj _ _ he]; exact hy
  · intro h; exact ⟨x, h, rfl⟩

/-! ## the kept IDs -/

/-- the filter branch of C14's `survivors` = C04's `keptIDs`.  All inputs. -/
theorem cons_filterstats_c14_filter_eq_c04_keptIDs (bulk app : List (Nat × Nat)) :
    (bulk.filter fun id => decide (id ∈ app)).map filterstatsFetchID
      = Fetch.keptIDs (bulk.map filterstatsFetchID) (app.map filterstatsFetchID) := by
  unfold Fetch.keptIDs
  rw [List.filter_map]
  congr 1
  apply List.filter_congr
  intro x _
  simp only [Function.comp, filterstats_contains_map]

/-- `(range n).filter (p l[i]!)` then `l[·]!` is `l.filter p` (the shape of `getIndexesOfIntercept` + the loop of `Filter`) -/
theorem filterstats_index_filter {α} [Inhabited α] (p : α → Bool) (l : List α) :
    ((List.range l.length).filter fun i => p l[i]!).map (l[·]!) = l.filter p := by
  induction l with
  | nil => rfl
  | cons x t ih =>
    rw [List.length_cons, List.range_succ_eq_map, List.filter_cons]
    simp only [List.filter_cons, List.getElem!_cons_zero]
    have hrest : (((List.range t.length).map Nat.succ).filter fun i => p (x :: t)[i]!).map ((x :: t)[·]!) = t.filter p := by
      rw [List.filter_map, List.map_map]
      rw [← ih]
      congr 1
    by_cases hx : p x = true
    · simp only [hx, if_true, List.map_cons, List.getElem!_cons_zero, hrest]
    · have hx' : p x = false := by simpa using hx
      simp only [hx', Bool.false_eq_true, if_false, hrest]

/-- **Go `Filter`: the IDs kept.**  C17 `SV.Collector.filter` keeps `c.ids.filter (· ∈ appended)` - the same list as the
filter branch of C14's `survivors` (same representation), hence (previous theorem) C04's `keptIDs`.  All inputs. -/
theorem cons_filterstats_c17_filter_ids_eq_c14 (c : Collector.Collector) (app : List Collector.ID) :
    (Collector.filter c app).ids = c.ids.filter fun id => decide (id ∈ app) := by
  unfold Collector.filter Collector.indexesOfIntercept
  exact filterstats_index_filter (fun id => decide (id ∈ app)) c.ids

/-- C14's `survivors` has the caller's shortcut `len(appended) == len(collector.IDs)` built in, C04's `keptIDs` and
C17's `filter` do not.  They agree whenever `appended` is a sublist of the bulk - which `SetMultiple`'s result always
is (`SV.FracInfo.setMultiple_sublist`). -/
theorem cons_filterstats_c14_survivors_eq_c04_keptIDs (bulk app : List (Nat × Nat)) (hsub : app.Sublist bulk) :
    (FracInfo.survivors bulk app).map filterstatsFetchID
      = Fetch.keptIDs (bulk.map filterstatsFetchID) (app.map filterstatsFetchID) := by
  rw [← cons_filterstats_c14_filter_eq_c04_keptIDs]
  unfold FracInfo.survivors
  split
  · rename_i hlen
    have : app = bulk := hsub.eq_of_length hlen
    subst this
    congr 1
    symm
    rw [List.filter_eq_self]
    intro x hx; simpa using hx
  · rfl

example : ([(1, 1)] : List (Nat × Nat)).Sublist [(1, 1), (2, 2)] := by decide

/-- outside that domain they differ (difference of generality: the shortcut lives in `appendWorker`, not in `Filter`;
`appended` is never anything but a sublist of the collector's IDs in Go) -/
theorem cons_filterstats_c14_survivors_ne_c04_keptIDs_witness :
    (FracInfo.survivors [(1, 1)] [(2, 2)]).map filterstatsFetchID = [⟨1, 1⟩] ∧
      Fetch.keptIDs ([(1, 1)].map filterstatsFetchID) ([(2, 2)].map filterstatsFetchID) = [] := by decide

/-! ## `MinMID` / `MaxMID` -/

/-- C04 folds the pair, C14 / C17 fold the two components separately -/
theorem filterstats_fold_pair (l : List (Nat × Nat)) (a b : Nat) :
    (l.map filterstatsFetchID).foldl
        (fun s i => (if i.mid < s.1 then i.mid else s.1, if i.mid > s.2 then i.mid else s.2)) (a, b)
      = ((l.map Prod.fst).foldl (fun a m => if m < a then m else a) a,
         (l.map Prod.fst).foldl (fun a m => if m > a then m else a) b) := by
  induction l generalizing a b with
  | nil => rfl
  | cons x t ih =>
    simp only [List.map_cons, List.foldl_cons, filterstatsFetchID]
    exact ih _ _

/-- **Go `Filter`: the recomputed `(MinMID, MaxMID)`.**  C04 `SV.Fetch.filterStats` = C14 `SV.FracInfo.collectorStats`
of the kept IDs.  All inputs; same sentinels `(MaxUint64, 0)`. -/
theorem cons_filterstats_c04_filterStats_eq_c14_collectorStats (bulk app : List (Nat × Nat)) :
    Fetch.filterStats (bulk.map filterstatsFetchID) (app.map filterstatsFetchID)
      = FracInfo.collectorStats (bulk.filter fun id => decide (id ∈ app)) := by
  unfold Fetch.filterStats FracInfo.collectorStats FracInfo.batchMin FracInfo.batchMax
  rw [← cons_filterstats_c14_filter_eq_c04_keptIDs, filterstats_fold_pair]

/-- with the shortcut, on `SetMultiple`'s domain -/
theorem cons_filterstats_c04_filterStats_eq_c14_survivors (bulk app : List (Nat × Nat)) (hsub : app.Sublist bulk) :
    Fetch.filterStats (bulk.map filterstatsFetchID) (app.map filterstatsFetchID)
      = FracInfo.collectorStats (FracInfo.survivors bulk app) := by
  unfold Fetch.filterStats FracInfo.collectorStats FracInfo.batchMin FracInfo.batchMax
  rw [← cons_filterstats_c14_survivors_eq_c04_keptIDs bulk app hsub, filterstats_fold_pair]

/-- C17: every collector `appendWorker` ends up with (filtered or not) carries C14's `collectorStats` of its IDs
(from C17's own `minmax_collect` / `minmax_filter`).  `SV.Collector.maxU64` is the same literal. -/
theorem cons_filterstats_c17_minmax_eq_c14_collectorStats (c : Collector.Collector) (h : Collector.MinMaxOk c) :
    (c.minMID, c.maxMID) = FracInfo.collectorStats c.ids := by
  unfold FracInfo.collectorStats FracInfo.batchMin FracInfo.batchMax
  rw [h.1, h.2, List.foldl_map, List.foldl_map]
  rfl

theorem cons_filterstats_c17_filter_stats_eq_c14 (c : Collector.Collector) (app : List Collector.ID) :
    ((Collector.filter c app).minMID, (Collector.filter c app).maxMID)
      = FracInfo.collectorStats (c.ids.filter fun id => decide (id ∈ app)) := by
  rw [cons_filterstats_c17_minmax_eq_c14_collectorStats _ (Collector.minmax_filter c app),
    cons_filterstats_c17_filter_ids_eq_c14]

theorem cons_filterstats_c17_collect_stats_eq_c14 (b : Nat) (ms : List Collector.Meta) :
    ((Collector.collect b ms).minMID, (Collector.collect b ms).maxMID) = FracInfo.collectorStats (ms.map (·.id)) := by
  rw [cons_filterstats_c17_minmax_eq_c14_collectorStats _ (Collector.minmax_collect b ms), (Collector.collect_spec b ms).2.2.1]

/-- C17's `dedupCollector` (collect, `SetMultiple`, `Filter` iff something was rejected) in C14's terms: its IDs are
`survivors` of the bulk and its stats their `collectorStats`.  All inputs. -/
theorem cons_filterstats_c17_dedupCollector_eq_c14_survivors (a : Collector.Active) (ms : List Collector.Meta) :
    (Collector.dedupCollector a ms).1.ids
        = FracInfo.survivors (ms.map (·.id))
            (Collector.setMultiple a.dp (ms.map (·.id)) (Collector.collect a.blocks.length ms).positions).2 ∧
      ((Collector.dedupCollector a ms).1.minMID, (Collector.dedupCollector a ms).1.maxMID)
        = FracInfo.collectorStats (Collector.dedupCollector a ms).1.ids := by
  have hids := (Collector.collect_spec a.blocks.length ms).2.2.1
  unfold Collector.dedupCollector FracInfo.survivors
  simp only [hids]
  by_cases hl : (Collector.setMultiple a.dp (ms.map (·.id)) (Collector.collect a.blocks.length ms).positions).2.length
      = (ms.map (·.id)).length
  · simp only [hl, ne_eq, not_true_eq_false, if_false, if_true]
    exact ⟨hids, cons_filterstats_c17_minmax_eq_c14_collectorStats _ (Collector.minmax_collect _ ms)⟩
  · simp only [hl, ne_eq, not_false_eq_true, if_true, if_false]
    refine ⟨?_, cons_filterstats_c17_minmax_eq_c14_collectorStats _ (Collector.minmax_filter _ _)⟩
    rw [cons_filterstats_c17_filter_ids_eq_c14, hids]

/-! ## `UpdateStats` -/

/-- **Go `Active.UpdateStats` (`From` / `To`)**: C14 `SV.FracInfo.updateStats` = C04 `SV.Fetch.updateStats` on the pair
of borders.  All inputs. -/
theorem cons_filterstats_c14_updateStats_eq_c04 (s : FracInfo.Info) (mn mx cnt : Nat) :
    ((FracInfo.updateStats s mn mx cnt).ifrom, (FracInfo.updateStats s mn mx cnt).ito)
      = Fetch.updateStats (s.ifrom, s.ito) (mn, mx) := rfl

/-- C17 `SV.Collector.indexBulk`'s `from_` / `to` = C04 `updateStats` with the collector's stats.  All inputs. -/
theorem cons_filterstats_c17_indexBulk_eq_c04_updateStats (a : Collector.Active) (ms : List Collector.Meta) :
    ((Collector.indexBulk a ms).from_, (Collector.indexBulk a ms).to)
      = Fetch.updateStats (a.from_, a.to)
          ((Collector.dedupCollector a ms).1.minMID, (Collector.dedupCollector a ms).1.maxMID) := rfl

/-! ## `SetMultiple` and the composed bulk step -/

/-- C17's `SetMultiple` follows the source (`!ok || savedPos == pos[i]`); C14's works on IDs only ("plain documents").
They return the same `appended` when no incoming position equals a stored one for the same ID and the positions of
the bulk are pairwise different - i.e. no nested metas and a fresh doc block, C14's declared scope. -/
theorem cons_filterstats_c17_setMultiple_eq_c14 (ids : List Collector.ID) :
    ∀ (ps : List Collector.DocPos) (dp : Collector.DocsPositions) (stored : List (Nat × Nat)),
      ps.length = ids.length → ps.Nodup →
      (∀ id, (dp.lookup id).isSome ↔ id ∈ stored) → (∀ id q, dp.lookup id = some q → q ∉ ps) →
      (Collector.setMultiple dp ids ps).2 = FracInfo.setMultiple stored ids := by
  induction ids with
  | nil => intro ps dp stored _ _ _ _; cases ps <;> rfl
  | cons id rest ih =>
    intro ps dp stored hlen hnd hdom hfresh
    cases ps with
    | nil => cases hlen
    | cons p ps' =>
      simp only [List.length_cons, Nat.add_right_cancel_iff] at hlen
      rw [List.nodup_cons] at hnd
      unfold Collector.setMultiple FracInfo.setMultiple
      cases hl : dp.lookup id with
      | none =>
        have hns : id ∉ stored := by
          intro h; have := (hdom id).mpr h; rw [hl] at this; cases this
        simp only [hns, if_false]
        congr 1
        apply ih ps' _ _ hlen hnd.2
        · intro x
          simp only [List.lookup_cons, List.mem_cons]
          by_cases hx : x = id
          · subst hx; simp
          · have : (x == id) = false := by simpa using hx
            simp only [this, hx, false_or]; exact hdom x
        · intro x q hq
          simp only [List.lookup_cons] at hq
          by_cases hx : x = id
          · subst hx
            simp only [beq_self_eq_true, Option.some.injEq] at hq
            subst hq; exact hnd.1
          · have : (x == id) = false := by simpa using hx
            simp only [this] at hq
            exact fun hm => hfresh x q hq (List.mem_cons_of_mem _ hm)
      | some q =>
        have hs : id ∈ stored := (hdom id).mp (by rw [hl]; rfl)
        have hqp : q ≠ p := fun h => hfresh id q hl (by rw [h]; exact List.mem_cons_self)
        simp only [hs, if_true, hqp, if_false]
        exact ih ps' dp stored hlen hnd.2 hdom
          (fun x q' hq' hm => hfresh x q' hq' (List.mem_cons_of_mem _ hm))

example : let ps : List Collector.DocPos := [(1, 0), (1, 9)]
    ps.length = 2 ∧ ps.Nodup ∧ (∀ id, (([] : Collector.DocsPositions).lookup id).isSome ↔ id ∈ ([] : List (Nat × Nat))) := by
  refine ⟨rfl, by decide, fun id => by simp⟩

/-- **Disagreement outside that scope (nested metas).**  A nested meta carries its parent's ID and position
(`Positions may be equal in case of nested index`): Go appends the ID again, C17 does, C14's ID-only `setMultiple` does
not.  Go side: C17 (frac/active_docs_positions.go: `!ok || savedPos == pos[i]`).  Reachable for bulks with nested
documents; effect on C14's subject: none on `From/To` (a repeated ID changes neither min nor max - next theorem), only
`DocsTotal` counts differ (C14 adds 1, Go adds 2). -/
theorem cons_filterstats_c17_setMultiple_ne_c14_nested_witness :
    (Collector.setMultiple [] [(5, 1), (5, 1)] [(0, 0), (0, 0)]).2 = [(5, 1), (5, 1)] ∧
      FracInfo.setMultiple [] [(5, 1), (5, 1)] = [(5, 1)] := by decide

theorem cons_filterstats_nested_same_stats_witness :
    FracInfo.collectorStats [(5, 1), (5, 1)] = FracInfo.collectorStats [(5, 1)] := by decide

/-- **One bulk through the index worker: C14 `SV.FracInfo.ingestBulk` = C04 `updateStats ∘ filterStats` = C17
`SV.Collector.indexBulk`** on the borders `(From, To)`, whenever the two `SetMultiple`s returned the same `appended`
(previous theorems give when) and the fraction's borders agree beforehand.  All bulks. -/
theorem cons_filterstats_ingestBulk_eq_indexBulk (st : FracInfo.Info × List (Nat × Nat)) (a : Collector.Active)
    (ms : List Collector.Meta) (hb : (st.1.ifrom, st.1.ito) = (a.from_, a.to))
    (happ : (Collector.setMultiple a.dp (ms.map (·.id)) (Collector.collect a.blocks.length ms).positions).2
      = FracInfo.setMultiple st.2 (ms.map (·.id))) :
    (((FracInfo.ingestBulk st (ms.map (·.id))).1.ifrom, (FracInfo.ingestBulk st (ms.map (·.id))).1.ito)
        = ((Collector.indexBulk a ms).from_, (Collector.indexBulk a ms).to)) ∧
      (((FracInfo.ingestBulk st (ms.map (·.id))).1.ifrom, (FracInfo.ingestBulk st (ms.map (·.id))).1.ito)
        = Fetch.updateStats (st.1.ifrom, st.1.ito)
            (Fetch.filterStats ((ms.map (·.id)).map filterstatsFetchID)
              ((FracInfo.setMultiple st.2 (ms.map (·.id))).map filterstatsFetchID))) := by
  have hd := cons_filterstats_c17_dedupCollector_eq_c14_survivors a ms
  rw [happ] at hd
  constructor
  · rw [cons_filterstats_c17_indexBulk_eq_c04_updateStats, hd.2, hd.1, ← hb]
    rfl
  · rw [cons_filterstats_c04_filterStats_eq_c14_survivors _ _ (FracInfo.setMultiple_sublist _ _)]
    rfl

end SV.Consistency
