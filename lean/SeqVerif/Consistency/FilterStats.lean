import SeqVerif.Model.FracInfo
import SeqVerif.Model.FetchRange
import SeqVerif.Model.DedupLemmas
/-!
# Consistency (wave 3): `metaDataCollector.Filter` (kept IDs, `MinMID` / `MaxMID`) and `Active.UpdateStats` - three models

* C14 `SV.FracInfo.survivors`, `collectorStats`, `setMultiple`, `ingestBulk`, `updateStats`      (Model/FracInfo.lean)
* C04 `SV.Fetch.keptIDs`, `filterStats`, `updateStats`                                            (Model/FetchRange.lean)
* C17 `SV.Collector.filter`, `setMultiple`, `dedupCollector`, `indexBulk`       (Model/Collector.lean, DedupIndex.lean)

IDs: C14 and C17 use pairs `(mid, rid)`, C04 the record `SV.Fetch.ID`; `filterstatsFetchID` converts.
Sentinels: all three start `MinMID` at `math.MaxUint64` (`18446744073709551615` / `SV.Collector.maxU64`) and `MaxMID`
at `0`; a range is the pair `(From, To)` in C04, the fields `ifrom/ito` in C14, `from_/to` in C17.
(C07's `Option` range and its sentinel conversion are wave 1/2: `cons_fracrange_updateStats_eq_widen`,
`cons_updateStats_activeconc_eq_collector`, `cons_statsOf_activeconc_eq_collector`.  The translated C04T slices
`T.metaDataCollector_Filter...` are tied to C04's definitions by Props/C04T.lean - cited, not imported.)
-/
namespace SV.Consistency
open SV

/-- pair -> C04 record -/
def filterstatsFetchID (p : Nat × Nat) : Fetch.ID := ⟨p.1, p.2⟩

theorem filterstats_fetchID_inj (p q : Nat × Nat) (h : filterstatsFetchID p = filterstatsFetchID q) : p = q := by
  cases p; cases q; simp only [filterstatsFetchID, Fetch.ID.mk.injEq] at h; simp [h.1, h.2]

theorem filterstats_contains_map (app : List (Nat × Nat)) (x : Nat × Nat) :
    (app.map filterstatsFetchID).contains (filterstatsFetchID x) = decide (x ∈ app) := by
  rw [Bool.eq_iff_iff]
  simp only [List.contains_iff_mem, List.mem_map, decide_eq_true_eq]
  constructor
  · rintro ⟨y, hy, he⟩; rw [← filterstats_fetchID_inj _ _ he]; exact hy
  · intro h; exact ⟨x, h, rfl⟩

/-! ## the kept IDs -/

/-- the filter branch of C14's `survivors` = C04's `keptIDs`.  All inputs. -/
theorem cons_filterstats_c14_filter_eq_c04_keptIDs (bulk app : List (Nat × Nat)) :
    (bulk.filter fun id => decide (id ∈ app)).map filterstatsFetchID
      = Fetch.keptIDs (bulk.map filterstatsFetchID) (app.map filterstatsFetchID) := by
  unfold Fetch.keptIDs
  rw [List.filter_map]
  congr 1
  apply List.filter_congr
  intro x _
  simp only [Function.comp, filterstats_contains_map]

/-- `(range n).filter (p l[i]!)` then `l[·]!` is `l.filter p` (the shape of `getIndexesOfIntercept` + the loop of `Filter`) -/
theorem filterstats_index_filter {α} [Inhabited α] (p : α → Bool) (l : List α) :
    ((List.range l.length).filter fun i => p l[i]!).map (l[·]!) = l.filter p := by
  induction l with
  | nil => rfl
  | cons x t ih =>
    rw [List.length_cons, List.range_succ_eq_map, List.filter_cons]
    simp only [List.filter_cons, List.getElem!_cons_zero]
    have hrest : (((List.range t.length).map Nat.succ).filter fun i => p (x :: t)[i]!).map ((x :: t)[·]!) = t.filter p := by
      rw [List.filter_map, List.map_map]
      rw [← ih]
      congr 1
    by_cases hx : p x = true
    · simp only [hx, if_true, List.map_cons, List.getElem!_cons_zero, hrest]
    · have hx' : p x = false := by simpa using hx
      simp only [hx', Bool.false_eq_true, if_false, hrest]

/-- **Go `Filter`: the IDs kept.**  C17 `SV.Collector.filter` keeps `c.ids.filter (· ∈ appended)` - the same list as the
filter branch of C14's `survivors` (same representation), hence (previous theorem) C04's `keptIDs`.  All inputs. -/
theorem cons_filterstats_c17_filter_ids_eq_c14 (c : Collector.Collector) (app : List Collector.ID) :
    (Collector.filter c app).ids = c.ids.filter fun id => decide (id ∈ app) := by
  unfold Collector.filter Collector.indexesOfIntercept
  exact filterstats_index_filter (fun id => decide (id ∈ app)) c.ids

/-- C14's `survivors` has the caller's shortcut `len(appended) == len(collector.IDs)` built in, C04's `keptIDs` and
C17's `filter` do not.  They agree whenever `appended` is a sublist of the bulk - which `SetMultiple`'s result always
is (`SV.FracInfo.setMultiple_sublist`). -/
theorem cons_filterstats_c14_survivors_eq_c04_keptIDs (bulk app : List (Nat × Nat)) (hsub : app.Sublist bulk) :
    (FracInfo.survivors bulk app).map filterstatsFetchID
      = Fetch.keptIDs (bulk.map filterstatsFetchID) (app.map filterstatsFetchID) := by
  rw [← cons_filterstats_c14_filter_eq_c04_keptIDs]
  unfold FracInfo.survivors
  split
  · rename_i hlen
    have : app = bulk := hsub.eq_of_length hlen
    subst this
    congr 1
    symm
    rw [List.filter_eq_self]
    intro x hx; simpa using hx
  · rfl

example : ([(1, 1)] : List (Nat × Nat)).Sublist [(1, 1), (2, 2)] := by decide

/-- outside that domain they differ (difference of generality: the shortcut lives in `appendWorker`, not in `Filter`;
`appended` is never anything but a sublist of the collector's IDs in Go) -/
theorem cons_filterstats_c14_survivors_ne_c04_keptIDs_witness :
    (FracInfo.survivors [(1, 1)] [(2, 2)]).map filterstatsFetchID = [⟨1, 1⟩] ∧
      Fetch.keptIDs ([(1, 1)].map filterstatsFetchID) ([(2, 2)].map filterstatsFetchID) = [] := by decide

/-! ## `MinMID` / `MaxMID` -/

/-- C04 folds the pair, C14 / C17 fold the two components separately -/
theorem filterstats_fold_pair (l : List (Nat × Nat)) (a b : Nat) :
    (l.map filterstatsFetchID).foldl
        (fun s i => (if i.mid < s.1 then i.mid else s.1, if i.mid > s.2 then i.mid else s.2)) (a, b)
      = ((l.map Prod.fst).foldl (fun a m => if m < a then m else a) a,
         (l.map Prod.fst).foldl (fun a m => if m > a then m else a) b) := by
  induction l generalizing a b with
  | nil => rfl
  | cons x t ih =>
    simp only [List.map_cons, List.foldl_cons, filterstatsFetchID]
    exact ih _ _

/-- **Go `Filter`: the recomputed `(MinMID, MaxMID)`.**  C04 `SV.Fetch.filterStats` = C14 `SV.FracInfo.collectorStats`
of the kept IDs.  All inputs; same sentinels `(MaxUint64, 0)`. -/
theorem cons_filterstats_c04_filterStats_eq_c14_collectorStats (bulk app : List (Nat × Nat)) :
    Fetch.filterStats (bulk.map filterstatsFetchID) (app.map filterstatsFetchID)
      = FracInfo.collectorStats (bulk.filter fun id => decide (id ∈ app)) := by
  unfold Fetch.filterStats FracInfo.collectorStats FracInfo.batchMin FracInfo.batchMax
  rw [← cons_filterstats_c14_filter_eq_c04_keptIDs, filterstats_fold_pair]

/-- with the shortcut, on `SetMultiple`'s domain -/
theorem cons_filterstats_c04_filterStats_eq_c14_survivors (bulk app : List (Nat × Nat)) (hsub : app.Sublist bulk) :
    Fetch.filterStats (bulk.map filterstatsFetchID) (app.map filterstatsFetchID)
      = FracInfo.collectorStats (FracInfo.survivors bulk app) := by
  unfold Fetch.filterStats FracInfo.collectorStats FracInfo.batchMin FracInfo.batchMax
  rw [← cons_filterstats_c14_survivors_eq_c04_keptIDs bulk app hsub, filterstats_fold_pair]

/-- C17: every collector `appendWorker` ends up with (filtered or not) carries C14's `collectorStats` of its IDs
(from C17's own `minmax_collect` / `minmax_filter`).  `SV.Collector.maxU64` is the same literal. -/
theorem cons_filterstats_c17_minmax_eq_c14_collectorStats (c : Collector.Collector) (h : Collector.MinMaxOk c) :
    (c.minMID, c.maxMID) = FracInfo.collectorStats c.ids := by
  unfold FracInfo.collectorStats FracInfo.batchMin FracInfo.batchMax
  rw [h.1, h.2, List.foldl_map, List.foldl_map]
  rfl

theorem cons_filterstats_c17_filter_stats_eq_c14 (c : Collector.Collector) (app : List Collector.ID) :
    ((Collector.filter c app).minMID, (Collector.filter c app).maxMID)
      = FracInfo.collectorStats (c.ids.filter fun id => decide (id ∈ app)) := by
  rw [cons_filterstats_c17_minmax_eq_c14_collectorStats _ (Collector.minmax_filter c app),
    cons_filterstats_c17_filter_ids_eq_c14]

theorem cons_filterstats_c17_collect_stats_eq_c14 (b : Nat) (ms : List Collector.Meta) :
    ((Collector.collect b ms).minMID, (Collector.collect b ms).maxMID) = FracInfo.collectorStats (ms.map (·.id)) := by
  rw [cons_filterstats_c17_minmax_eq_c14_collectorStats _ (Collector.minmax_collect b ms), (Collector.collect_spec b ms).2.2.1]

/-- C17's `dedupCollector` (collect, `SetMultiple`, `Filter` iff something was rejected) in C14's terms: its IDs are
`survivors` of the bulk and its stats their `collectorStats`.  All inputs. -/
theorem cons_filterstats_c17_dedupCollector_eq_c14_survivors (a : Collector.Active) (ms : List Collector.Meta) :
    (Collector.dedupCollector a ms).1.ids
        = FracInfo.survivors (ms.map (·.id))
            (Collector.setMultiple a.dp (ms.map (·.id)) (Collector.collect a.blocks.length ms).positions).2 ∧
      ((Collector.dedupCollector a ms).1.minMID, (Collector.dedupCollector a ms).1.maxMID)
        = FracInfo.collectorStats (Collector.dedupCollector a ms).1.ids := by
  have hids := (Collector.collect_spec a.blocks.length ms).2.2.1
  unfold Collector.dedupCollector FracInfo.survivors
  simp only [hids]
  by_cases hl : (Collector.setMultiple a.dp (ms.map (·.id)) (Collector.collect a.blocks.length ms).positions).2.length
      = (ms.map (·.id)).length
  · simp only [hl, ne_eq, not_true_eq_false, if_false, if_true]
    exact ⟨hids, cons_filterstats_c17_minmax_eq_c14_collectorStats _ (Collector.minmax_collect _ ms)⟩
  · simp only [hl, ne_eq, not_false_eq_true, if_true, if_false]
    refine ⟨?_, cons_filterstats_c17_minmax_eq_c14_collectorStats _ (Collector.minmax_filter _ _)⟩
    rw [cons_filterstats_c17_filter_ids_eq_c14, hids]

/-! ## `UpdateStats` -/

/-- **Go `Active.UpdateStats` (`From` / `To`)**: C14 `SV.FracInfo.updateStats` = C04 `SV.Fetch.updateStats` on the pair
of borders.  All inputs. -/
theorem cons_filterstats_c14_updateStats_eq_c04 (s : FracInfo.Info) (mn mx cnt : Nat) :
    ((FracInfo.updateStats s mn mx cnt).ifrom, (FracInfo.updateStats s mn mx cnt).ito)
      = Fetch.updateStats (s.ifrom, s.ito) (mn, mx) := rfl

/-- C17 `SV.Collector.indexBulk`'s `from_` / `to` = C04 `updateStats` with the collector's stats.  All inputs. -/
theorem cons_filterstats_c17_indexBulk_eq_c04_updateStats (a : Collector.Active) (ms : List Collector.Meta) :
    ((Collector.indexBulk a ms).from_, (Collector.indexBulk a ms).to)
      = Fetch.updateStats (a.from_, a.to)
          ((Collector.dedupCollector a ms).1.minMID, (Collector.dedupCollector a ms).1.maxMID) := rfl

/-! ## `SetMultiple` and the composed bulk step -/

/-- C17 positions are pairs `(block, offset)`, C14's are naturals (`seq.DocPos` packed): any injective `enc` converts.
C17 `(ids, positions)` -> C14 bulk -/
def filterstatsEntries (enc : Collector.DocPos → Nat) (ids : List Collector.ID) (ps : List Collector.DocPos) :
    List FracInfo.Entry :=
  (ids.zip ps).map fun e => (e.1, enc e.2)

/-- C17 `DocsPositions` -> C14 positions map -/
def filterstatsDp (enc : Collector.DocPos → Nat) (dp : Collector.DocsPositions) : List FracInfo.Entry :=
  dp.map fun e => (e.1, enc e.2)

theorem filterstats_lookup_map (enc : Collector.DocPos → Nat) (dp : Collector.DocsPositions) (id : Collector.ID) :
    (filterstatsDp enc dp).lookup id = (dp.lookup id).map enc := by
  unfold filterstatsDp
  induction dp with
  | nil => rfl
  | cons e t ih =>
    obtain ⟨k, v⟩ := e
    simp only [List.map_cons, List.lookup_cons]
    cases id == k <;> simp [ih]

/-- **Go `DocsPositions.SetMultiple`: C14 `SV.FracInfo.setMultiple` = C17 `SV.Collector.setMultiple`** (both follow
`!ok || savedPos == pos[i]` since C14's round-6 repair), new map and `appended` slice alike.  Representation change:
`filterstatsEntries` / `filterstatsDp` with any injective position encoding.  All inputs (nested metas, retried
documents, lists of different length - both stop at the shorter). -/
theorem cons_filterstats_c17_setMultiple_eq_c14 (enc : Collector.DocPos → Nat) (henc : ∀ p q, enc p = enc q → p = q)
    (ids : List Collector.ID) : ∀ (ps : List Collector.DocPos) (dp : Collector.DocsPositions),
      FracInfo.setMultiple (filterstatsDp enc dp) (filterstatsEntries enc ids ps)
        = (filterstatsDp enc (Collector.setMultiple dp ids ps).1, (Collector.setMultiple dp ids ps).2) := by
  induction ids with
  | nil => intro ps dp; cases ps <;> rfl
  | cons id rest ih =>
    intro ps dp
    cases ps with
    | nil => rfl
    | cons p ps' =>
      have hcons : filterstatsEntries enc (id :: rest) (p :: ps') = (id, enc p) :: filterstatsEntries enc rest ps' := rfl
      rw [hcons]
      unfold FracInfo.setMultiple Collector.setMultiple
      rw [filterstats_lookup_map]
      cases hl : dp.lookup id with
      | none =>
        simp only [Option.map_none]
        have := ih ps' ((id, p) :: dp)
        have hdp : filterstatsDp enc ((id, p) :: dp) = (id, enc p) :: filterstatsDp enc dp := rfl
        rw [hdp] at this
        rw [this]
      | some q =>
        simp only [Option.map_some]
        by_cases hq : q = p
        · subst hq
          simp only [if_true]
          rw [ih ps' dp]
        · have hq' : ¬ enc q = enc p := fun h => hq (henc _ _ h)
          simp only [hq, hq', if_false]
          exact ih ps' dp

/-- the nested case (a meta with its parent's ID and position): BOTH models now append the ID again, as Go does
(before the repair C14's ID-only `setMultiple` returned `[(5, 1)]` - wave 3's former `..._ne_c14_nested_witness`) -/
theorem cons_filterstats_setMultiple_nested_agree_witness :
    (Collector.setMultiple [] [(5, 1), (5, 1)] [(0, 0), (0, 0)]).2 = [(5, 1), (5, 1)] ∧
      (FracInfo.setMultiple [] [((5, 1), 0), ((5, 1), 0)]).2 = [(5, 1), (5, 1)] ∧
      (FracInfo.setMultiple [] [((5, 1), 0), ((5, 1), 7)]).2 = [(5, 1)] := by decide

theorem filterstats_entries_fst (enc : Collector.DocPos → Nat) (ids : List Collector.ID) (ps : List Collector.DocPos)
    (h : ps.length = ids.length) : (filterstatsEntries enc ids ps).map Prod.fst = ids := by
  unfold filterstatsEntries
  rw [List.map_map]
  have : (Prod.fst ∘ fun e : Collector.ID × Collector.DocPos => (e.1, enc e.2)) = Prod.fst := rfl
  rw [this]
  exact List.map_fst_zip (by omega)

/-- **One bulk through the index worker: C14 `SV.FracInfo.ingestBulk` = C04 `updateStats ∘ filterStats` = C17
`SV.Collector.indexBulk`**: borders `(From, To)` and positions map, for every bulk, whenever the two states agree
beforehand.  No hypothesis on `SetMultiple` any more (previous theorem). -/
theorem cons_filterstats_ingestBulk_eq_indexBulk (enc : Collector.DocPos → Nat) (henc : ∀ p q, enc p = enc q → p = q)
    (st : FracInfo.AState) (a : Collector.Active) (ms : List Collector.Meta)
    (hb : (st.info.ifrom, st.info.ito) = (a.from_, a.to)) (hp : st.pos = filterstatsDp enc a.dp) :
    (((FracInfo.ingestBulk st
          (filterstatsEntries enc (ms.map (·.id)) (Collector.collect a.blocks.length ms).positions)).info.ifrom,
        (FracInfo.ingestBulk st
          (filterstatsEntries enc (ms.map (·.id)) (Collector.collect a.blocks.length ms).positions)).info.ito)
        = ((Collector.indexBulk a ms).from_, (Collector.indexBulk a ms).to)) ∧
      (FracInfo.ingestBulk st
          (filterstatsEntries enc (ms.map (·.id)) (Collector.collect a.blocks.length ms).positions)).pos
        = filterstatsDp enc (Collector.indexBulk a ms).dp ∧
      (((FracInfo.ingestBulk st
          (filterstatsEntries enc (ms.map (·.id)) (Collector.collect a.blocks.length ms).positions)).info.ifrom,
        (FracInfo.ingestBulk st
          (filterstatsEntries enc (ms.map (·.id)) (Collector.collect a.blocks.length ms).positions)).info.ito)
        = Fetch.updateStats (st.info.ifrom, st.info.ito)
            (Fetch.filterStats ((ms.map (·.id)).map filterstatsFetchID)
              ((Collector.setMultiple a.dp (ms.map (·.id)) (Collector.collect a.blocks.length ms).positions).2.map
                filterstatsFetchID))) := by
  have hspec := Collector.collect_spec a.blocks.length ms
  have hids := hspec.2.2.1
  have hlen : (Collector.collect a.blocks.length ms).positions.length = (ms.map (·.id)).length := by
    rw [← hids]; exact hspec.1.1.1
  have hsm := cons_filterstats_c17_setMultiple_eq_c14 enc henc (ms.map (·.id))
    (Collector.collect a.blocks.length ms).positions a.dp
  have hfst := filterstats_entries_fst enc (ms.map (·.id)) _ hlen
  have hd := cons_filterstats_c17_dedupCollector_eq_c14_survivors a ms
  have hdp : (Collector.indexBulk a ms).dp
      = (Collector.setMultiple a.dp (ms.map (·.id)) (Collector.collect a.blocks.length ms).positions).1 := by
    show (Collector.dedupCollector a ms).2 = _
    unfold Collector.dedupCollector
    simp only [hids]
  have hsub : (Collector.setMultiple a.dp (ms.map (·.id)) (Collector.collect a.blocks.length ms).positions).2.Sublist
      (ms.map (·.id)) := by
    have := FracInfo.setMultiple_sublist (filterstatsDp enc a.dp)
      (filterstatsEntries enc (ms.map (·.id)) (Collector.collect a.blocks.length ms).positions)
    rw [hsm, hfst] at this
    exact this
  unfold FracInfo.ingestBulk
  simp only [hp, hsm, hfst]
  refine ⟨?_, hdp.symm ▸ rfl, ?_⟩
  · rw [cons_filterstats_c17_indexBulk_eq_c04_updateStats, hd.2, hd.1, ← hb]
    rfl
  · rw [cons_filterstats_c04_filterStats_eq_c14_survivors _ _ hsub]
    rfl

/-- **Go `AppendIDs(collector.IDs)` after the optional `Filter`: C14 `AState.lids` = the IDs C17's `indexBulk` appends**
(the survivors of `SV.Collector.filter`), for every bulk, whenever the positions maps agree beforehand.  With the IDs
appended so far in agreement (`a.ids = pre ++ st.lids`, `pre` = C17's stub entry) they agree afterwards.
Representation change: `filterstatsEntries` / `filterstatsDp`, any injective position encoding.  All inputs. -/
theorem cons_filterstats_c14_lids_eq_c17_indexBulk_ids (enc : Collector.DocPos → Nat)
    (henc : ∀ p q, enc p = enc q → p = q) (st : FracInfo.AState) (a : Collector.Active) (ms : List Collector.Meta)
    (hp : st.pos = filterstatsDp enc a.dp) :
    (FracInfo.ingestBulk st
        (filterstatsEntries enc (ms.map (·.id)) (Collector.collect a.blocks.length ms).positions)).lids
        = st.lids ++ (Collector.dedupCollector a ms).1.ids ∧
      ∀ pre, a.ids = pre ++ st.lids →
        (Collector.indexBulk a ms).ids = pre ++ (FracInfo.ingestBulk st
          (filterstatsEntries enc (ms.map (·.id)) (Collector.collect a.blocks.length ms).positions)).lids := by
  have hspec := Collector.collect_spec a.blocks.length ms
  have hids := hspec.2.2.1
  have hlen : (Collector.collect a.blocks.length ms).positions.length = (ms.map (·.id)).length := by
    rw [← hids]; exact hspec.1.1.1
  have hsm := cons_filterstats_c17_setMultiple_eq_c14 enc henc (ms.map (·.id))
    (Collector.collect a.blocks.length ms).positions a.dp
  have hfst := filterstats_entries_fst enc (ms.map (·.id)) _ hlen
  have hd := cons_filterstats_c17_dedupCollector_eq_c14_survivors a ms
  have h1 : (FracInfo.ingestBulk st
        (filterstatsEntries enc (ms.map (·.id)) (Collector.collect a.blocks.length ms).positions)).lids
        = st.lids ++ (Collector.dedupCollector a ms).1.ids := by
    unfold FracInfo.ingestBulk
    simp only [hp, hsm, hfst]
    rw [hd.1]
  refine ⟨h1, fun pre hpre => ?_⟩
  rw [h1, ← List.append_assoc, ← hpre]
  rfl

example : (Collector.Active.empty).ids = (Collector.Active.empty).ids ++ (FracInfo.newActive 0).lids := by
  simp [FracInfo.newActive]

/-- the other ghost list, `AState.ids` (what `SetMultiple` appended, the thing `DocsTotal` counts), is NOT what
`AppendIDs` receives: on a bulk with the same ID at two positions it has the ID once, `lids` / C17 / Go's `MIDs` twice.
(Both lists are intended by C14 now; kept as the record of why `lids` was added.) -/
theorem cons_filterstats_c14_ids_ne_c17_survivors_witness :
    (FracInfo.ingestBulk (FracInfo.newActive 0) [((5, 1), 0), ((5, 1), 7)]).ids = [(5, 1)] ∧
      (FracInfo.ingestBulk (FracInfo.newActive 0) [((5, 1), 0), ((5, 1), 7)]).lids = [(5, 1), (5, 1)] ∧
      FracInfo.survivors [(5, 1), (5, 1)] (FracInfo.setMultiple [] [((5, 1), 0), ((5, 1), 7)]).2 = [(5, 1), (5, 1)] := by
  decide

end SV.Consistency
