import SeqVerif.Model.FileWriterProofs
import SeqVerif.Model.WritePathInv
import SeqVerif.Model.SealOps
import SeqVerif.Model.AsyncAck
/-!
# Consistency (wave 3): "persist, then publish / acknowledge" - one abstract trace predicate, four model instances

`PersistBeforePublish published covered tr`: for every position `k` of the trace at which item `i` is published
(acknowledged, made visible under its final name), there is a position `j ≤ k` at which a completed sync COVERING `i`
took place.  `published` / `covered` are the explicit refinement maps of each model; `PersistBeforePublishStrict` is
the same with `j < k` (persist and publish are different events of the model).

| model | item | publish event | covering sync | strict? |
| C01 `SV.FWr` (frac/file_writer.go)      | reserved offset | `ret off true`   | `syncEnd true` whose `syncBegin` follows `written off true` | yes |
| C08 `SV.SealOps.syncedBeforeRename`     | file (suffix)   | `rename a b`     | `sync a` (or a rename onto `a`) with no write to `a` since  | yes |
| C01 `SV.WPath` (ActiveWriter.Write)     | bulk `(d, m)`   | `Ev.bulk d m`    | the same event: the model takes an acknowledged `Append` as ONE atomic step | no |
| C19 `SV.AsyncAck` (StartSearch)         | request id      | `start id` newly acknowledging | the same event (info written, then ack, one atomic model step) | no |

So the two models with an explicit sync event (C01 FileWriter, C08) satisfy the strict form - no path acknowledges
before the sync; the two request-level models (C01 write path, C19) do not SEPARATE persist from ack at all: inside them
"ack before sync" is not expressible, the order inside the step is the business of the finer model (FileWriter for
`ActiveWriter.Write`; for `StartSearch` of `SV.Async.startWrites` + the extracted statement order pinned in Props/C19).
`c01_filewriter_durable` lives in Props/C01.lean (not importable here); `cons_durableack_c01_filewriter_returned_covered`
restates it over the model-level invariant `SV.FWr.Inv` it is proved from.
-/
namespace SV.Consistency
open SV

/-- the abstract predicate -/
def PersistBeforePublish {E ι : Type} (published : List E → Nat → ι → Prop) (covered : List E → Nat → Nat → ι → Prop)
    (tr : List E) : Prop :=
  ∀ k i, k < tr.length → published tr k i → ∃ j, j ≤ k ∧ covered tr j k i

def PersistBeforePublishStrict {E ι : Type} (published : List E → Nat → ι → Prop)
    (covered : List E → Nat → Nat → ι → Prop) (tr : List E) : Prop :=
  ∀ k i, k < tr.length → published tr k i → ∃ j, j < k ∧ covered tr j k i

theorem cons_durableack_strict_imp (E ι : Type) (p : List E → Nat → ι → Prop) (c : List E → Nat → Nat → ι → Prop)
    (tr : List E) (h : PersistBeforePublishStrict p c tr) : PersistBeforePublish p c tr :=
  fun k i hk hp => (h k i hk hp).elim fun j hj => ⟨j, Nat.le_of_lt hj.1, hj.2⟩

/-! ## C01 FileWriter -/

def durableackFwrPublished (tr : List FWr.Lbl) (k : Nat) (off : Nat) : Prop := tr[k]? = some (.ret off true)

/-- a completed fsync at `se` that began (`sb`) after the `WriteAt` of `off` completed (`tw`) -/
def durableackFwrCovered (tr : List FWr.Lbl) (se _k : Nat) (off : Nat) : Prop :=
  tr[se]? = some (.syncEnd true) ∧
    ∃ tw sb, tw < sb ∧ sb < se ∧ tr[tw]? = some (.written off true) ∧ tr[sb]? = some .syncBegin

theorem durableack_exec_take (tr : List FWr.Lbl) : ∀ (st st' : FWr.St), FWr.exec st tr = some st' →
    ∀ k, k < tr.length → ∃ s1 s2 l, tr[k]? = some l ∧ FWr.exec st (tr.take k) = some s1 ∧ FWr.step s1 l = some s2 := by
  induction tr with
  | nil => intro st st' _ k hk; cases hk
  | cons x t ih =>
    intro st st' h k hk
    simp only [FWr.exec, Option.bind_eq_some_iff] at h
    obtain ⟨sx, hsx, hrest⟩ := h
    cases k with
    | zero => exact ⟨st, sx, x, rfl, rfl, hsx⟩
    | succ k =>
      obtain ⟨s1, s2, l, hl, he, hs⟩ := ih sx st' hrest k (by simpa using hk)
      refine ⟨s1, s2, l, by simpa using hl, ?_, hs⟩
      simp only [List.take_succ_cons, FWr.exec, hsx, Option.bind_some]
      exact he

/-- **C01 `SV.FWr` is a strict instance**: on every path of the FileWriter transition system a `Write` that returns
success is preceded by the end of a successful fsync that began after its `WriteAt` completed.  (Model-level
restatement of `c01_filewriter_durable` for `ok = true`, from `SV.FWr.exec_inv` / `Core.D`.) -/
theorem cons_durableack_c01_filewriter_returned_covered (start : Nat) (tr : List FWr.Lbl) (st : FWr.St)
    (h : FWr.exec (FWr.init start) tr = some st) :
    PersistBeforePublishStrict durableackFwrPublished durableackFwrCovered tr := by
  intro k off hk hp
  obtain ⟨s1, s2, l, hl, he, hs⟩ := durableack_exec_take tr _ _ h k hk
  unfold durableackFwrPublished at hp
  rw [hl] at hp
  cases hp
  have hinv : FWr.Inv (tr.take k) s1 := by simpa using FWr.exec_inv (tr.take k) [] _ _ (FWr.inv_init start) he
  simp only [FWr.step] at hs
  split at hs
  · rename_i hcan
    simp only [FWr.can, List.any_eq_true, Bool.and_eq_true, decide_eq_true_eq] at hcan
    obtain ⟨w, hw, hoff, hsome⟩ := hcan
    cases hpc : w.pc <;> simp [FWr.fRet, hpc] at hsome
    rename_i ok' sb se
    subst hsome
    obtain ⟨tw, a, b, c, d, e⟩ := hinv.core.D w hw true sb se (.inl hpc)
    have hse : se < k := by have := FWr.lt_of_get e; simp at this; omega
    have up : ∀ (i : Nat) (x : FWr.Lbl), (tr.take k)[i]? = some x → tr[i]? = some x := by
      intro i x hx
      rw [List.getElem?_take] at hx
      split at hx
      · exact hx
      · cases hx
    exact ⟨se, hse, up _ _ e, tw, sb, a, b, by rw [← hoff]; exact up _ _ c, up _ _ d⟩
  · cases hs

/-- non-vacuity: one writer, one fsync -/
example : (FWr.exec (FWr.init 0) [.reserve 0 4, .written 0 true, .enqueue 0 1, .notify 0, .wake, .take 1, .syncBegin,
    .syncEnd true, .ret 0 true]).isSome = true := by decide

/-! ## C08 `syncedBeforeRename` -/

open SV.FileSet SV.SealOps in
/-- the operation modifies the content of file `a` -/
def durableackDirties : Op → Suffix → Bool
  | .create s, a => decide (s = a)
  | .write s, a => decide (s = a)
  | .lose s, a => decide (s = a)
  | .touch s, a => decide (s = a)
  | _, _ => false

open SV.FileSet SV.SealOps in
/-- the operation leaves file `a` durable: its fsync, or a rename of an (already checked) file onto it -/
def durableackCleans : Op → Suffix → Bool
  | .sync s, a => decide (s = a)
  | .rename _ b, a => decide (b = a)
  | _, _ => false

open SV.FileSet SV.SealOps in
def durableackSealPublished (ops : List Op) (k : Nat) (a : Suffix) : Prop := ∃ b, ops[k]? = some (.rename a b)

open SV.FileSet SV.SealOps in
def durableackSealCovered (ops : List Op) (j k : Nat) (a : Suffix) : Prop :=
  (∃ o, ops[j]? = some o ∧ durableackCleans o a = true) ∧
    ∀ m o, j < m → m < k → ops[m]? = some o → durableackDirties o a = false

open SV.FileSet SV.SealOps in
theorem durableack_scan_general (ops : List Op) : ∀ (d : Suffix → Bool), syncedBeforeRename ops d = true →
    ∀ k a b, ops[k]? = some (.rename a b) →
      (d a = false ∧ ∀ m o, m < k → ops[m]? = some o → durableackDirties o a = false) ∨
      (∃ j, j < k ∧ durableackSealCovered ops j k a) := by
  induction ops with
  | nil => intro d _ k a b h; simp at h
  | cons o r ih =>
    intro d hscan k a b hk
    cases k with
    | zero =>
      simp only [List.getElem?_cons_zero, Option.some.injEq] at hk
      subst hk
      simp only [syncedBeforeRename, Bool.and_eq_true, Bool.not_eq_true'] at hscan
      exact Or.inl ⟨hscan.1, fun m o hm => by cases hm⟩
    | succ k =>
      simp only [List.getElem?_cons_succ] at hk
      -- the dirty set after `o`, and the scan of the rest
      have key : ∃ d', syncedBeforeRename r d' = true ∧
          (d' a = false → (durableackCleans o a = true) ∨ (d a = false ∧ durableackDirties o a = false)) := by
        cases o with
        | create s =>
          refine ⟨_, by simpa [syncedBeforeRename] using hscan, fun h => ?_⟩
          by_cases hs : a = s
          · simp [hs] at h
          · simp only [hs] at h
            exact Or.inr ⟨h, by simp [durableackDirties, Ne.symm hs]⟩
        | write s =>
          refine ⟨_, by simpa [syncedBeforeRename] using hscan, fun h => ?_⟩
          by_cases hs : a = s
          · simp [hs] at h
          · simp only [hs] at h
            exact Or.inr ⟨h, by simp [durableackDirties, Ne.symm hs]⟩
        | lose s =>
          refine ⟨_, by simpa [syncedBeforeRename] using hscan, fun h => ?_⟩
          by_cases hs : a = s
          · simp [hs] at h
          · simp only [hs] at h
            exact Or.inr ⟨h, by simp [durableackDirties, Ne.symm hs]⟩
        | touch s =>
          refine ⟨_, by simpa [syncedBeforeRename] using hscan, fun h => ?_⟩
          by_cases hs : a = s
          · simp [hs] at h
          · simp only [hs] at h
            exact Or.inr ⟨h, by simp [durableackDirties, Ne.symm hs]⟩
        | sync s =>
          refine ⟨_, by simpa [syncedBeforeRename] using hscan, fun h => ?_⟩
          by_cases hs : a = s
          · exact Or.inl (by simp [durableackCleans, hs])
          · simp only [hs] at h
            exact Or.inr ⟨h, rfl⟩
        | rename x y =>
          simp only [syncedBeforeRename, Bool.and_eq_true] at hscan
          refine ⟨_, hscan.2, fun h => ?_⟩
          by_cases hs : a = y
          · exact Or.inl (by simp [durableackCleans, hs])
          · simp only [hs, if_false] at h
            exact Or.inr ⟨h, rfl⟩
        | fill => exact ⟨d, by simpa [syncedBeforeRename] using hscan, fun h => Or.inr ⟨h, rfl⟩⟩
        | syncDir => exact ⟨d, by simpa [syncedBeforeRename] using hscan, fun h => Or.inr ⟨h, rfl⟩⟩
        | remove s => exact ⟨d, by simpa [syncedBeforeRename] using hscan, fun h => Or.inr ⟨h, rfl⟩⟩
      obtain ⟨d', hscan', hd'⟩ := key
      rcases ih d' hscan' k a b hk with ⟨hda, hno⟩ | ⟨j, hj, ⟨oc, hoc, hcl⟩, hno⟩
      · rcases hd' hda with hcl | ⟨hd0, hnd⟩
        · refine Or.inr ⟨0, Nat.succ_pos _, ⟨o, rfl, hcl⟩, ?_⟩
          intro m om hm1 hm2 hom
          obtain ⟨m', rfl⟩ : ∃ m', m = m' + 1 := ⟨m - 1, by omega⟩
          simp only [List.getElem?_cons_succ] at hom
          exact hno m' om (by omega) hom
        · refine Or.inl ⟨hd0, ?_⟩
          intro m om hm hom
          cases m with
          | zero => simp only [List.getElem?_cons_zero, Option.some.injEq] at hom; subst hom; exact hnd
          | succ m' =>
            simp only [List.getElem?_cons_succ] at hom
            exact hno m' om (by omega) hom
      · refine Or.inr ⟨j + 1, by omega, ⟨oc, by simpa using hoc, hcl⟩, ?_⟩
        intro m om hm1 hm2 hom
        obtain ⟨m', rfl⟩ : ∃ m', m = m' + 1 := ⟨m - 1, by omega⟩
        simp only [List.getElem?_cons_succ] at hom
        exact hno m' om (by omega) (by omega) hom

open SV.FileSet SV.SealOps in
/-- **C08 `SV.SealOps.syncedBeforeRename` is a strict instance**: if the scan accepts a list from "everything dirty",
every rename is preceded by an fsync of its source (or a rename onto it) with no write to that file in between.
All operation lists (in particular `sealTrace`, by C08's `sealTrace_syncedBeforeRename`). -/
theorem cons_durableack_c08_syncedBeforeRename_instance (ops : List Op)
    (h : syncedBeforeRename ops (fun _ => true) = true) :
    PersistBeforePublishStrict durableackSealPublished durableackSealCovered ops := by
  intro k a _ hp
  obtain ⟨b, hb⟩ := hp
  rcases durableack_scan_general ops _ h k a b hb with ⟨hd, _⟩ | hr
  · cases hd
  · exact hr

example : SealOps.syncedBeforeRename [.create .indexTmp, .write .indexTmp, .sync .indexTmp, .rename .indexTmp .index]
    (fun _ => true) = true := by decide

/-! ## C01 write path (`ActiveWriter.Write` as one event) -/

def durableackWpPublished (h : List WPath.Ev) (k : Nat) (b : WPath.Blk × WPath.Blk) : Prop :=
  h[k]? = some (.bulk b.1 b.2)

/-- the bulk is served from the files after the prefix that ends with its acknowledgement (repaired start-up) -/
def durableackWpCovered (h : List WPath.Ev) (j k : Nat) (b : WPath.Blk × WPath.Blk) : Prop :=
  j = k ∧ WPath.present (WPath.run true WPath.init (h.take (k + 1))) b.1 b.2 = true

theorem durableack_acked_take (h : List WPath.Ev) : ∀ (k : Nat) (d m : WPath.Blk), h[k]? = some (.bulk d m) →
    (d, m) ∈ WPath.ackedOf (h.take (k + 1)) := by
  induction h with
  | nil => intro k d m hk; simp at hk
  | cons e t ih =>
    intro k d m hk
    cases k with
    | zero =>
      simp only [List.getElem?_cons_zero, Option.some.injEq] at hk
      subst hk
      simp [WPath.ackedOf]
    | succ k =>
      simp only [List.getElem?_cons_succ] at hk
      have := ih k d m hk
      simp only [List.take_succ_cons]
      cases e <;> simp [WPath.ackedOf, this]

/-- **C01 `SV.WPath` is a (non-strict) instance**: an acknowledged bulk is served by the store state reached at its
acknowledgement, whatever crashes and restarts preceded it.  Persist and acknowledge are ONE event of this model
(`Ev.bulk` = "a complete, acknowledged `Active.Append`"), so `j = k`.  Domain: well-formed blocks (`Ev.WF`). -/
theorem cons_durableack_c01_writepath_instance (h : List WPath.Ev) (hwf : ∀ e ∈ h, e.WF) :
    PersistBeforePublish durableackWpPublished durableackWpCovered h := by
  intro k b _ hp
  refine ⟨k, Nat.le_refl _, rfl, ?_⟩
  have hwf' : ∀ e ∈ h.take (k + 1), e.WF := fun e he => hwf e (List.mem_of_mem_take he)
  have hinv := WPath.run_fixed (h.take (k + 1)) WPath.init [] WPath.inv_init hwf'
  apply WPath.inv_present _ _ _ _ hinv
  simp only [List.nil_append]
  exact WPath.ackedOf_sub_completeOf _ _ (durableack_acked_take h k b.1 b.2 hp)

/-! ## C19 `StartSearch` -/

/-- the request becomes acknowledged at step `k` -/
def durableackAsyncPublished (ops : List AsyncAck.Op) (k : Nat) (id : String) : Prop :=
  id ∈ (AsyncAck.run (ops.take (k + 1))).acked ∧ id ∉ (AsyncAck.run (ops.take k)).acked

/-- its info file is on disk after step `j` -/
def durableackAsyncCovered (ops : List AsyncAck.Op) (j k : Nat) (id : String) : Prop :=
  j = k ∧ id ∈ (AsyncAck.run (ops.take (j + 1))).disk.map (·.1)

/-- **C19 `SV.AsyncAck` is a (non-strict) instance**, by its own `inv_run`.  `start` writes the info and acknowledges in
one atomic model step, so `j = k`; the order inside `StartSearch` is `SV.Async.startWrites` (info write first,
wave-2 `cons_sealsync_asyncAck_start_eq_async`). -/
theorem cons_durableack_c19_asyncAck_instance (ops : List AsyncAck.Op) :
    PersistBeforePublish durableackAsyncPublished durableackAsyncCovered ops := by
  intro k id _ hp
  exact ⟨k, Nat.le_refl _, rfl, AsyncAck.inv_run _ id hp.1⟩

/-- non-vacuity: the first `start` publishes -/
example : durableackAsyncPublished [.start "a" false] 0 "a" := by
  constructor <;> decide

/-- the strict form FAILS for the two request-level models - not because they acknowledge early but because they have
no separate persist event: the very first event of a history already publishes. -/
theorem cons_durableack_request_models_not_strict_witness :
    ¬ PersistBeforePublishStrict durableackAsyncPublished durableackAsyncCovered [.start "a" false] := by
  intro h
  obtain ⟨j, hj, _⟩ := h 0 "a" (by decide) (by constructor <;> decide)
  cases hj

end SV.Consistency
