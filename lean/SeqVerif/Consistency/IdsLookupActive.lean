import SeqVerif.Consistency.IdsLookup
import SeqVerif.Consistency.DocPos
import SeqVerif.Consistency.DocBytes
import SeqVerif.Model.FetchActive
/-!
# Consistency: fetching ONE document from an active fraction (`activeDataProvider.Fetch` =
`DocsPositions.GetSync` -> `DocPos.Unpack` -> `GetBlocksOffsets(block)` -> `ReadDocBlockPayload` ->
`extractDocsFromBlockFunc`) in the three model families

* C01 `SV.WPath.fetch` (Model/WPIndex.lean): positions unpacked, the docs FILE as bytes, block read by
  `readBlockAt` + the codec's `docsRaw`, bounds-checked `docAt`;
* C03 `SV.C03.fetchAt offsets file (activeDocPos positions id)` (Model/C03Docs.lean): packed positions, the docs file
  as an association list offset -> decompressed payload;
* C04 `SV.Fetch.activeReadDoc` after `mapGet` (Model/FetchDocs.lean, FetchActive.lean): packed positions, the docs
  file as a total function offset -> decompressed payload, provider snapshot of the block table.

The statements are refinements "whenever the more concrete model returns a document, the more abstract one returns
the same document" - the concrete models have failure cases (unreadable block, slice out of range) that the abstract
ones do not distinguish.
-/
namespace SV.Consistency

open SV

/-- packed form of the C01 position map -/
def packPositions (ps : List (WPath.DocID × WPath.Pos)) : List (C03.ID × Nat) :=
  ps.map fun e => (e.1, Fetch.packDocPos 30 e.2.1 e.2.2)

theorem idsLookup_wpLookupPos_mem (ps : List (WPath.DocID × WPath.Pos)) (id : WPath.DocID) (p : WPath.Pos)
    (h : WPath.lookupPos ps id = some p) : ∃ e, e ∈ ps ∧ e.2 = p := by
  unfold WPath.lookupPos at h
  cases hf : ps.find? (fun q => q.1 = id) with
  | none => rw [hf] at h; cases h
  | some e =>
    rw [hf] at h
    exact ⟨e, List.mem_of_find?_eq_some hf, Option.some.inj h⟩

/-- Go `activeDataProvider.Fetch` of one ID: whenever `SV.WPath.fetch` (C01) returns a document, the C03 model
`fetchAt ∘ activeDocPos` returns the same one.
Representation change: positions packed with `PackDocPos` (`packPositions`); the C03 `file` is any association list
that answers, for the block offsets of the index, what `readBlockAt` + `docsRaw` answer on the bytes (`hfile`).
Domain: stored positions are packable (`block < 2^32`, `offset <= maxDocOffset`; the C01 model has unbounded
naturals there, Go panics in `PackDocPos` / truncates to uint32). -/
theorem cons_idsLookup_wpFetch_eq_c03FetchAt (cd : WPath.IdxCodec) (docs : WPath.Bytes) (ix : WPath.Index)
    (file : List (Nat × List Nat)) (id : WPath.DocID)
    (hfile : ∀ bo, bo ∈ ix.blocks → C03.lookupFile file bo = (WPath.readBlockAt docs bo).bind cd.docsRaw)
    (hfit : ∀ e, e ∈ ix.positions → e.2.1 < 4294967296 ∧ e.2.2 ≤ 1073741823)
    (d : WPath.Bytes) (h : WPath.fetch cd docs ix id = some d) :
    C03.fetchAt ix.blocks file (C03.activeDocPos (packPositions ix.positions) id) = some d := by
  unfold WPath.fetch at h
  cases hp : WPath.lookupPos ix.positions id with
  | none => rw [hp] at h; cases h
  | some p =>
    rw [hp] at h
    simp only at h
    obtain ⟨e, he, hep⟩ := idsLookup_wpLookupPos_mem _ _ _ hp
    have hf := hfit e he
    rw [hep] at hf
    have hlook : C03.lookupPos (packPositions ix.positions) id = some (Fetch.packDocPos 30 p.1 p.2) := by
      have := cons_idsLookup_wpLookupPos_eq_c03LookupPos (fun q => Fetch.packDocPos 30 q.1 q.2) ix.positions id
      rw [hp] at this
      exact this.symm
    have hpack := cons_docPos_c03Pack_eq_fetchPack p.1 p.2 hf.2
    have hround := C03.docpos_roundtrip p.1 p.2 hf.1 hf.2
    rw [hpack, Option.map_some] at hround
    have hunp : C03.unpackDocPos (Fetch.packDocPos 30 p.1 p.2) = (p.1, p.2) := Option.some.inj hround
    have hnf : Fetch.packDocPos 30 p.1 p.2 ≠ C03.docPosNotFound := (C03.docpos_found p.1 p.2 _ hf.1 hpack).1
    unfold C03.fetchAt C03.activeDocPos
    rw [hlook, Option.getD_some, if_neg hnf]
    unfold C03.readAt
    rw [hunp]
    simp only
    cases hb : ix.blocks[p.1]? with
    | none => rw [hb] at h; cases h
    | some bo =>
      rw [hb] at h
      simp only at h ⊢
      have hmem : bo ∈ ix.blocks := List.mem_of_getElem? hb
      rw [hfile bo hmem]
      cases hr : WPath.readBlockAt docs bo with
      | none => rw [hr] at h; cases h
      | some blk =>
        rw [hr] at h
        simp only [Option.bind_some] at h ⊢
        cases hraw : cd.docsRaw blk with
        | none => rw [hraw] at h; cases h
        | some raw =>
          rw [hraw] at h
          simp only [Option.map_some] at h ⊢
          rw [(cons_docBytes_wpDocAt_some raw p.2 d h).1]

example : ∀ e, e ∈ [(((1 : Nat), (2 : Nat)), ((0 : Nat), (0 : Nat)))] → e.2.1 < 4294967296 ∧ e.2.2 ≤ 1073741823 := by decide

/-- Go `GetBlocksOffsets` + `ReadDocs` for one found position: whenever the C03 model `readAt` returns a document, the
C04 model `activeReadDoc` (with ANY provider snapshot `take s` of the block table) returns the same one.
Representation change: the C04 docs file is a total function that agrees with the C03 association list where that
one has an entry (`hfile`); positions are unpacked by the respective `Unpack` (equal for `1 <= pos < 2^64`). -/
theorem cons_idsLookup_c03ReadAt_eq_fetchActiveReadDoc (offsets : List Nat) (file : List (Nat × List Nat))
    (st : Fetch.Active) (hblocks : st.docBlocks = offsets)
    (hfile : ∀ bo payload, C03.lookupFile file bo = some payload → st.file bo = payload)
    (pos : Nat) (h1 : 1 ≤ pos) (h2 : pos < 18446744073709551616) (s : Nat) (d : List Nat)
    (h : C03.readAt offsets file pos = some d) :
    Fetch.activeReadDoc (st.docBlocks.take s) st (Fetch.unpackDocPos 30 pos).1 (Fetch.unpackDocPos 30 pos).2 = some d := by
  rw [← cons_docPos_c03Unpack_eq_fetchUnpack pos h1 h2]
  unfold C03.readAt at h
  cases hb : offsets[(C03.unpackDocPos pos).1]? with
  | none => rw [hb] at h; cases h
  | some bo =>
    rw [hb] at h
    simp only at h
    cases hl : C03.lookupFile file bo with
    | none => rw [hl] at h; cases h
    | some payload =>
      rw [hl, Option.map_some] at h
      have hlt : (C03.unpackDocPos pos).1 < st.docBlocks.length := by
        rw [hblocks]; exact (List.getElem?_eq_some_iff.mp hb).1
      unfold Fetch.activeReadDoc
      rw [Fetch.activeBlocksOffset_prefix st.docBlocks s _ hlt, Option.map_some]
      have hbo : st.docBlocks[(C03.unpackDocPos pos).1] = bo := by
        have := (List.getElem?_eq_some_iff.mp hb).2
        simp only [hblocks]; exact this
      rw [hbo, hfile bo payload hl, ← cons_docBytes_c03ExtractDoc_eq_fetchExtractDoc]
      exact h

example : C03.readAt [0] [(0, [1, 0, 0, 0, 7])] 1 = some [7] := by decide

end SV.Consistency
