import SeqVerif.Model.ProxyApiLemmas
import SeqVerif.Model.FetchDocs
import SeqVerif.Model.Repetitions
import SeqVerif.Consistency.IdsLookup
/-!
# Consistency: the public document handlers of the proxy (C16, `SV.ProxyApi`, Model/ProxyApi.lean) vs
Model/ProxyRead.lean / DocsMerge.lean (proxy side) and Model/FetchDocs.lean (C04, what a store does with the IDs it is sent)

Not duplicates (reuse): `SV.ProxyApi.apiFetch` and `apiExport` call `SV.DocsMerge.fetchDocsStream`, `uniq` and use
`SV.DocsMerge.IDS` / `Doc`, `SV.ProxyRead.Full` - the very definitions of the older C16 models.  That `expand` + the
unique-ID iterator return one item per run of equal requested IDs (`collapse`), i.e. the request itself for distinct
IDs, is proved next to the model: `SV.ProxyApi.expand_ids`, `collapse_expand` (Model/ProxyApiLemmas.lean) and
`c16_fetch_api` / `c16_unique` (Props/C16.lean).
What IS written more than once: the `seq.IDSource` record (DocsMerge.IDS, Fetch.IDS, Repetitions.IDSource) and the
error mapping of `doSearch` (once in `ProxyRead.api`, once in `ProxyApi.apiExport`).
-/
namespace SV.Consistency

open SV

/-! ## the `seq.IDSource` record -/

/-- proxy-side `seq.IDSource` (`SV.DocsMerge.IDS`: id pair, source, hint with 0 = empty) -> store-side request entry
(`SV.Fetch.IDS`, Model/FetchDocs.lean: ID structure, optional hint; the source is the addressee and not part of it) -/
def proxyApiToFetchIDS (x : DocsMerge.IDS) : Fetch.IDS := ⟨toF x.id, if x.hint = 0 then none else some x.hint⟩

/-- merge-side `seq.IDSource` (`SV.Repetitions.IDSource` = `(id, source)`) -> `SV.DocsMerge.IDS` without hint -/
def proxyApiOfIDSource (x : Repetitions.IDSource) : DocsMerge.IDS := ⟨x.1, x.2, 0⟩

/-- `StreamingDoc.IDSource()` (`SV.DocsMerge.Doc.key`) is the hint-less record of the document's id and source; the
position map of `lessFuncPosBased` strips the hint the same way (`IDS.strip`).  All inputs. -/
theorem cons_proxyApi_docKey_eq_strip (d : DocsMerge.Doc) (h : Nat) :
    d.key = DocsMerge.IDS.strip ⟨d.id, d.src, h⟩ ∧ d.key = proxyApiOfIDSource (d.id, d.src) := ⟨rfl, rfl⟩

/-- `SV.ProxyRead.toIDS` (search result -> fetch request) keeps the ID and attaches the hint; seen from the store it is
the entry with that ID and hint.  All inputs. -/
theorem cons_proxyApi_toIDS_fetchIDS (cold : Bool) (hint : Nat) (p : ProxySearch.ID × ProxySearch.Src) :
    proxyApiToFetchIDS (ProxyRead.toIDS cold hint p) = ⟨toF p.1, if hint = 0 then none else some hint⟩ := rfl

/-- Go `expandIDsBySources` builds `IDSource{ID, Source}` without hint: every entry `SV.ProxyApi.expand` produces is,
for the store, a hint-less ID. -/
theorem cons_proxyApi_expand_no_hint (orig : List ProxySearch.ID) (srcs : List Nat) :
    ∀ x, x ∈ ProxyApi.expand orig srcs → (proxyApiToFetchIDS x).hint = none := by
  intro x hx
  simp only [ProxyApi.expand, List.mem_flatMap, List.mem_map] at hx
  obtain ⟨id, _, s, _, rfl⟩ := hx
  rfl

/-! ## `expandIDsBySources` then `groupIDsBySource`: what each store is asked -/

theorem proxyApi_filter_singleton (srcs : List Nat) (s : Nat) (hnd : srcs.Nodup) (hs : s ∈ srcs) :
    srcs.filter (fun x => x == s) = [s] := by
  induction srcs with
  | nil => cases hs
  | cons a r ih =>
    have hp := List.nodup_cons.mp hnd
    by_cases ha : a = s
    · subst ha
      have : r.filter (fun x => x == a) = [] := by
        apply List.filter_eq_nil_iff.mpr
        intro x hx hxa
        have : x = a := by simpa using hxa
        subst this
        exact hp.1 hx
      simp [this]
    · have hs' : s ∈ r := by
        rcases List.mem_cons.mp hs with h | h
        · exact absurd h.symm ha
        · exact h
      simp [ha, ih hp.2 hs']

/-- Go `Ingestor.Documents`: `expandIDsBySources` (`SV.ProxyApi.expand`) followed by `groupIDsBySource`
(`SV.DocsMerge.groupBySource`, inside `fetchDocsStream`) sends EVERY store the whole request, in request order, repeated
IDs included.  Domain: the source list has no repetition (it is the key set of a Go map) and `s` is one of them. -/
theorem cons_proxyApi_groupBySource_expand (orig : List ProxySearch.ID) (srcs : List Nat) (s : Nat)
    (hnd : srcs.Nodup) (hs : s ∈ srcs) :
    DocsMerge.groupBySource (ProxyApi.expand orig srcs) s = orig.map fun id => (⟨id, s, 0⟩ : DocsMerge.IDS) := by
  unfold DocsMerge.groupBySource ProxyApi.expand
  induction orig with
  | nil => rfl
  | cons id rest ih =>
    simp only [List.flatMap_cons, List.filter_append, List.map_cons, ih]
    congr 1
    have : (srcs.map fun t => (⟨id, t, 0⟩ : DocsMerge.IDS)).filter (fun x => x.src == s) =
        (srcs.filter (fun x => x == s)).map fun t => (⟨id, t, 0⟩ : DocsMerge.IDS) := by
      rw [List.filter_map]; rfl
    rw [this, proxyApi_filter_singleton srcs s hnd hs]
    rfl

example : ([1, 2] : List Nat).Nodup ∧ 2 ∈ ([1, 2] : List Nat) := by decide

/-- a store that is not a known source is asked nothing -/
theorem cons_proxyApi_groupBySource_expand_other (orig : List ProxySearch.ID) (srcs : List Nat) (s : Nat) (hs : s ∉ srcs) :
    DocsMerge.groupBySource (ProxyApi.expand orig srcs) s = [] := by
  unfold DocsMerge.groupBySource
  apply List.filter_eq_nil_iff.mpr
  intro x hx hxs
  simp only [ProxyApi.expand, List.mem_flatMap, List.mem_map] at hx
  obtain ⟨id, _, t, ht, rfl⟩ := hx
  have : t = s := by simpa using hxs
  subst this
  exact hs ht

/-- Store side of the same request (C04, `SV.Fetch.takeFor` inside `groupIDsByFraction`): for hint-less entries - what
`expand` produces - a fraction takes exactly the IDs whose MID it contains; no entry is dropped for a hint mismatch. -/
theorem cons_proxyApi_store_takeFor_no_hint {D : Type} (f : Fetch.Frac D) (ids : List Fetch.ID) :
    Fetch.takeFor f (ids.map fun i => (⟨i, none⟩ : Fetch.IDS)) = ids.filter fun i => f.contains i.mid := by
  unfold Fetch.takeFor
  induction ids with
  | nil => rfl
  | cons i r ih =>
    simp only [List.map_cons, List.filterMap_cons, List.filter_cons]
    cases hc : f.contains i.mid with
    | true => simp only [if_true]; rw [ih]
    | false => simp only [Bool.false_eq_true, if_false]; rw [ih]

/-! ## the error mapping of `doSearch`, written in `ProxyRead.api` (Search) and in `ProxyApi.apiExport` (Export) -/

/-- outcome class of a handler: 0 = InvalidArgument status, 1 = other status, 2 = too-many-fractions refusal (a
response field in `Search`, a plain error in `Export`), 3 = panic, 4 = data, 5 = data flagged partial -/
def proxyApiClassSearch : ProxyRead.ApiOut → Nat
  | .status true => 0
  | .status false => 1
  | .refused => 2
  | .panic => 3
  | .resp _ _ false _ => 4
  | .resp _ _ true _ => 5

def proxyApiClassExport : ProxyApi.ExportOut → Nat
  | .status true => 0
  | .status false => 1
  | .plainErr => 2
  | .panic => 3
  | .stream _ false => 4
  | .stream _ true => 5

/-- Go `doSearch` + response assembly: `SV.ProxyRead.api` (`Search` / `ComplexSearch`) and `SV.ProxyApi.apiExport` with the
extracted `exportReportsPartial = true` classify EVERY search outcome the same way (same status for the same error,
partial results flagged by both).  All inputs. -/
theorem cons_proxyApi_export_class_eq_search_class (f : ProxyRead.Full) :
    proxyApiClassExport (ProxyApi.apiExport true f) = proxyApiClassSearch (ProxyRead.api f) := by
  cases f with
  | err k => cases k <;> rfl
  | panic => rfl
  | fetchErr => rfl
  | ok ids total nerr p c docs =>
    simp only [ProxyApi.apiExport, ProxyRead.api]
    cases p with
    | true => rfl
    | false =>
      by_cases hn : nerr > 0
      · simp [hn, proxyApiClassExport, proxyApiClassSearch]
      · simp [hn, proxyApiClassExport, proxyApiClassSearch]

/-- with `reportsPartial = false` (the code before the repair recorded in `c16_export_partial_witness`) `Export` ends a
partial result with OK where `Search` flags it: the two copies of the mapping differ exactly there -/
theorem cons_proxyApi_export_class_ne_search_class_witness :
    proxyApiClassExport (ProxyApi.apiExport false (.ok [] 0 0 true false [])) = 4 ∧
    proxyApiClassSearch (ProxyRead.api (.ok [] 0 0 true false [])) = 5 := by decide

/-- the two handlers take the document IDs from different places (`Search`: `qpr.IDs[i]` by position, `Export`: from
the document); they agree when the stream is aligned with the IDs, which `c16_response_aligned` / `c16_export_aligned`
establish.  Stated here for the aligned case: same IDs, same payloads. -/
theorem cons_proxyApi_export_docs_eq_search_docs (ids : List (ProxySearch.ID × ProxySearch.Src)) (docs : List DocsMerge.Doc)
    (hal : docs.map (·.id) = ids.map (·.1)) :
    (docs.map fun d => (d.id, d.data)).map (·.1) = ids.map (·.1) ∧
    (docs.map fun d => (d.id, d.data)).map (·.2) = ProxyRead.protoDocs ids.length docs := by
  refine ⟨by simpa [List.map_map, Function.comp_def] using hal, ?_⟩
  have hlen : docs.length = ids.length := by
    have := congrArg List.length hal
    simpa using this
  rw [← hlen]
  clear hal hlen
  induction docs with
  | nil => rfl
  | cons d r ih => simp only [List.map_cons, List.length_cons, ProxyRead.protoDocs, ih]

end SV.Consistency
