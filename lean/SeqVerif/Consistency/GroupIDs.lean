import SeqVerif.Model.FetchFracs
import SeqVerif.Model.Pruning
/-!
# Consistency: `fetcher.groupIDsByFraction` candidate selection - C04 (`SV.Fetch`) vs C14 (`SV.Pruning.candidates`)

C04 sees a fraction through abstract `contains` / `intersects` functions (`SV.Fetch.Frac`); C14 defines both from the
fraction's `Info` (`SV.Pruning.contains`, `SV.FracInfo.isIntersecting`).  `fetchFracOfPruning` instantiates the C04
record with C14's definitions; under it

* C04's candidate filter (`fracs.filter intersects` in `groupIDsByFraction`) is C14's `filterInRange`,
* for requests without hints (the only case C14 models) the fractions that receive an ID in C04's `groupLoop` are
  exactly C14's `candidates`, in the same order.
-/
namespace SV.Consistency
open SV

/-- what C04 needs of a fraction beyond C14's `Info` -/
structure FetchAux (D : Type) where
  name : Nat
  getDocPos : List Fetch.ID → Option (List Nat)
  readDoc : Nat → Nat → D

/-- C14 fraction -> C04 fraction: `Contains` and `IsIntersecting` are those of the fraction's `Info` -/
def fetchFracOfPruning {D : Type} (aux : Pruning.Frac → FetchAux D) (f : Pruning.Frac) : Fetch.Frac D :=
  ⟨(aux f).name, Pruning.contains f, FracInfo.isIntersecting f.info, (aux f).getDocPos, (aux f).readDoc⟩

/-- C04 `ID` record -> C14 pair -/
def pairOfFetchID (id : Fetch.ID) : Nat × Nat := (id.mid, id.rid)

variable {D : Type}

/-- Go `fracsIn.FilterInRange(minMID, maxMID)` inside `groupIDsByFraction`: the filter written inline in C04's
`SV.Fetch.groupIDsByFraction` vs C14 `SV.Pruning.filterInRange`.  All inputs. -/
theorem cons_groupids_c04_filter_eq_c14_filterInRange (aux : Pruning.Frac → FetchAux D) (fs : List Pruning.Frac)
    (lo hi : Nat) :
    (fs.map (fetchFracOfPruning aux)).filter (fun f => f.intersects lo hi)
      = (Pruning.filterInRange fs lo hi).map (fetchFracOfPruning aux) := by
  unfold Pruning.filterInRange
  rw [List.filter_map]
  rfl

/-- both filters (`FilterInRange` over the request, then `Contains(id.MID)`): C04's two tests vs C14
`SV.Pruning.candidates`.  All inputs. -/
theorem cons_groupids_c04_filters_eq_c14_candidates (aux : Pruning.Frac → FetchAux D) (fs : List Pruning.Frac)
    (lo hi : Nat) (id : Fetch.ID) :
    ((fs.map (fetchFracOfPruning aux)).filter (fun f => f.intersects lo hi)).filter (fun f => f.contains id.mid)
      = (Pruning.candidates fs lo hi (pairOfFetchID id)).map (fetchFracOfPruning aux) := by
  rw [cons_groupids_c04_filter_eq_c14_filterInRange]
  unfold Pruning.candidates
  rw [List.filter_map]
  rfl

/-! ## C04's loop on requests without hints -/

private theorem takeFor_nohint (f : Fetch.Frac D) (ids : List Fetch.IDS) (hh : ∀ s, s ∈ ids → s.hint = none) :
    Fetch.takeFor f ids = (ids.filter fun s => f.contains s.id.mid).map (·.id) := by
  unfold Fetch.takeFor
  induction ids with
  | nil => rfl
  | cons s rest ih =>
    have ih' := ih (fun x hx => hh x (List.mem_cons_of_mem _ hx))
    have hs := hh s List.mem_cons_self
    simp only [List.filterMap_cons, List.filter_cons, hs]
    by_cases hc : f.contains s.id.mid = true
    · simp only [hc, if_true, List.map_cons, ih']
    · have hc' : f.contains s.id.mid = false := by simpa using hc
      simp only [hc', ih']
      rfl

private theorem keepAfter_nohint (f : Fetch.Frac D) (ids : List Fetch.IDS) (hh : ∀ s, s ∈ ids → s.hint = none) :
    Fetch.keepAfter f ids = ids := by
  unfold Fetch.keepAfter
  rw [List.filter_eq_self]
  intro s hs
  rw [hh s hs]

/-- without hints no ID is ever taken out of the request: every candidate fraction sees all of it -/
private theorem groupLoop_nohint (cands : List (Fetch.Frac D)) (ids : List Fetch.IDS) (hh : ∀ s, s ∈ ids → s.hint = none) :
    Fetch.groupLoop cands ids
      = (cands.filter fun f => !(Fetch.takeFor f ids).isEmpty).map fun f => (f, Fetch.takeFor f ids) := by
  induction cands with
  | nil => rfl
  | cons f rest ih =>
    simp only [Fetch.groupLoop, keepAfter_nohint f ids hh, List.filter_cons]
    by_cases he : (Fetch.takeFor f ids).isEmpty = true
    · simp only [he, if_true, ih, Bool.not_true]
      rfl
    · have he' : (Fetch.takeFor f ids).isEmpty = false := by simpa using he
      simp only [he', ih, Bool.not_false, if_true, List.map_cons]
      rfl

/-- the fractions whose group holds the ID of request entry `s` are the candidates that `Contains` its MID -/
private theorem groupLoop_nohint_receivers (cands : List (Fetch.Frac D)) (ids : List Fetch.IDS)
    (hh : ∀ s, s ∈ ids → s.hint = none) (s : Fetch.IDS) (hs : s ∈ ids) :
    ((Fetch.groupLoop cands ids).filter fun g => decide (s.id ∈ g.2)).map (·.1)
      = cands.filter fun f => f.contains s.id.mid := by
  rw [groupLoop_nohint cands ids hh, List.filter_map, List.map_map, List.filter_filter]
  have : ((fun g : Fetch.Frac D × List Fetch.ID => g.1) ∘ fun f => (f, Fetch.takeFor f ids)) = id := rfl
  rw [this, List.map_id]
  apply List.filter_congr
  intro f _
  simp only [Function.comp]
  have hmem : s.id ∈ Fetch.takeFor f ids ↔ f.contains s.id.mid = true := by
    rw [takeFor_nohint f ids hh, List.mem_map]
    constructor
    · rintro ⟨x, hx, hid⟩
      rw [List.mem_filter] at hx
      rw [← hid]; exact hx.2
    · intro hc
      exact ⟨s, List.mem_filter.mpr ⟨hs, hc⟩, rfl⟩
  by_cases hc : f.contains s.id.mid = true
  · have h1 : s.id ∈ Fetch.takeFor f ids := hmem.mpr hc
    have h2 : (Fetch.takeFor f ids).isEmpty = false := by
      cases ht : Fetch.takeFor f ids with
      | nil => rw [ht] at h1; cases h1
      | cons _ _ => rfl
    simp [h1, h2, hc]
  · have h1 : ¬ s.id ∈ Fetch.takeFor f ids := fun h => hc (hmem.mp h)
    have hc' : f.contains s.id.mid = false := by simpa using hc
    simp [h1, hc']

/-- **Go `groupIDsByFraction`, request without hints.**  C04 `SV.Fetch.groupIDsByFraction` over C14's fractions:
with `(sorted, minMID, maxMID)` the result of `sortIDs`, the fractions whose group receives the ID of entry `s` are
C14's `SV.Pruning.candidates fs minMID maxMID id`, in list order.  Representation change: `fetchFracOfPruning`,
`pairOfFetchID`.  Domain: no entry carries a hint (C14 does not model hints), the request is not empty
(`sortIDs = some`; on an empty request the Go code panics and C04 returns `none`). -/
theorem cons_groupids_c04_groupIDsByFraction_eq_c14_candidates (aux : Pruning.Frac → FetchAux D)
    (fs : List Pruning.Frac) (ids : List Fetch.IDS) (hh : ∀ s, s ∈ ids → s.hint = none)
    (sorted : List Fetch.IDS) (lo hi : Nat) (hsort : Fetch.sortIDs ids = some (sorted, lo, hi))
    (hperm : sorted.Perm ids) (s : Fetch.IDS) (hs : s ∈ ids) :
    ∃ gs, Fetch.groupIDsByFraction (fs.map (fetchFracOfPruning aux)) ids = some gs ∧
      (gs.filter fun g => decide (s.id ∈ g.2)).map (·.1)
        = (Pruning.candidates fs lo hi (pairOfFetchID s.id)).map (fetchFracOfPruning aux) := by
  refine ⟨_, by unfold Fetch.groupIDsByFraction; rw [hsort]; rfl, ?_⟩
  have hh' : ∀ x, x ∈ sorted → x.hint = none := fun x hx => hh x (hperm.mem_iff.mp hx)
  simp only
  rw [groupLoop_nohint_receivers _ sorted hh' s (hperm.mem_iff.mpr hs)]
  exact cons_groupids_c04_filters_eq_c14_candidates aux fs lo hi s.id

/-- non-vacuity: a one-entry request satisfies the hypotheses (the permutation comes from `sortIDs_spec`) -/
example : let ids : List Fetch.IDS := [⟨⟨5, 1⟩, none⟩]
    (∀ s, s ∈ ids → s.hint = none) ∧ Fetch.sortIDs ids = some (ids, 5, 5) ∧ ids.Perm ids := by
  refine ⟨?_, by simp [Fetch.sortIDs, Fetch.sortDesc, Fetch.ID.lt], List.Perm.refl _⟩
  intro s hs; rw [List.mem_singleton] at hs; subst hs; rfl

/-- for every non-empty request `sortIDs` yields such a triple (C04's own `sortIDs_spec`), so the theorem above
applies to every non-empty request without hints -/
theorem cons_groupids_sortIDs_exists (ids : List Fetch.IDS) (hne : ids ≠ []) :
    ∃ sorted lo hi, Fetch.sortIDs ids = some (sorted, lo, hi) ∧ sorted.Perm ids := by
  obtain ⟨s, lo, hi, h1, h2, _⟩ := Fetch.sortIDs_spec ids hne
  exact ⟨s, lo, hi, h1, h2⟩

/-! ## C04's well-formedness requirement vs C14's soundness notion -/

/-- C04 asks (`FracWF.contains`, `FracWF.intersects`) that the range filters never hide a held document; C14's
`SV.Pruning.Sound` is the same requirement on `Info.IsIntersecting`.  With `P` = "position found iff the ID is among
the fraction's documents", `Sound` gives both C04 obligations (MIDs are uint64). -/
theorem cons_groupids_c14_sound_imp_c04_wf_filters (aux : Pruning.Frac → FetchAux D) (f : Pruning.Frac)
    (hsound : Pruning.Sound f) (hmid : ∀ p, p ∈ f.docs → p.1 < 18446744073709551616) (id : Fetch.ID)
    (hheld : pairOfFetchID id ∈ f.docs) :
    (fetchFracOfPruning aux f).contains id.mid = true ∧
      ∀ lo hi, lo ≤ id.mid → id.mid ≤ hi → hi < 18446744073709551616 →
        (fetchFracOfPruning aux f).intersects lo hi = true := by
  have hm := hmid _ hheld
  refine ⟨?_, fun lo hi h1 h2 h3 => ?_⟩
  · exact hsound _ hheld id.mid id.mid (Nat.le_refl _) (Nat.le_refl _) hm
  · exact hsound _ hheld lo hi h1 h2 h3

end SV.Consistency
