import SeqVerif.Model.CollectorReuse
import SeqVerif.Consistency.CollectorRun
/-!
# Consistency (wave 2): the REUSED `metaDataCollector` (C17, Model/CollectorReuse.lean) vs the per-bulk models

Go: `appendWorker` (frac/active_indexer.go) creates one `metaDataCollector` and calls `Init(blockIndex)` before every
bulk; `Init` reuses or re-allocates its buffers on the advice of four `ReallocSolver`s; `extractTokens` goes through the
`tokensMap`.

Model/CollectorReuse.lean is in namespace `SV.Collector`, imports Model/CollectorLemmas.lean and *reuses* `Collector`,
`init`, `appendMetaPre`, `filter`, `collect` - those are not duplicates.  What it writes anew are `initM` (vs `init`),
`extractTokenM` / `appendMetaM` (the map-based loop vs `extractToken` / `appendMeta` with `List.idxOf`) and `bulkM`; it
proves its own equalities to the old definitions (`initM_fresh`, `extractTokenM_eq`, `appendMetaM_eq`, `bulkM_fresh`,
`reuseRun_fresh`: per bulk the reused collector holds what `collect` (+ `filter`) gives).  It stops at the collector: it
has no fraction state.  This file adds the missing links:

* the `appended` argument that `appendWorker` passes (`reuseAppOf`) makes `bulkM`'s collector equal to
  `SV.Collector.dedupCollector` (the collector `indexBulk` uses);
* one worker driving a whole history through ONE reused collector (`reuseWorkerRun`, any solver oracle per bulk, any
  collector state to start with) builds exactly `SV.Collector.run`;
* hence the wave-1 results transfer: C01's `buildIndex` (`cons_buildIndex_wpath_eq_collector`) and C07's writer run
  (`cons_appendWorker_activeconc_run_eq_collector_indexBulk`) are related to the reused-collector chain.

Domain remark: the theorems hold for EVERY solver oracle, including the one for which Go's `Init` panics (integer
division by zero: `tokensValues` re-allocated while `TokensValues` is empty, `SV.Collector.initPanics`); the model's
`initM` returns the fresh collector there too, Go would crash the worker - not an observable difference of the two
*models*, both are silent about it (the old model has no `Init` on a used collector at all).
-/
namespace SV.Consistency
open SV.Collector (RCollector InitDec Step)

/-- the `appended` argument of `Filter` exactly as `appendWorker` computes it: `SetMultiple`'s result when it is shorter
than `collector.IDs`, no `Filter` call otherwise -/
def reuseAppOf (a : SV.Collector.Active) (ms : List SV.Collector.Meta) : Option (List SV.Collector.ID) :=
  if (SV.Collector.setMultiple a.dp (SV.Collector.collect a.blocks.length ms).ids
        (SV.Collector.collect a.blocks.length ms).positions).2.length ≠ (SV.Collector.collect a.blocks.length ms).ids.length
  then some (SV.Collector.setMultiple a.dp (SV.Collector.collect a.blocks.length ms).ids
        (SV.Collector.collect a.blocks.length ms).positions).2
  else none

/-- Go `appendWorker` up to `Filter` on the worker's reused collector.  `SV.Collector.bulkM` (new, Model/CollectorReuse.lean:
`Init` with any solver decisions `d` on a collector in any state `s`, map-based `extractTokens`) vs
`SV.Collector.dedupCollector` (Model/DedupIndex.lean: fresh `collect`).  All inputs. -/
theorem cons_collectorReuse_bulkM_eq_dedupCollector (s : RCollector) (d : InitDec) (a : SV.Collector.Active)
    (ms : List SV.Collector.Meta) :
    (SV.Collector.bulkM s d a.blocks.length ms (reuseAppOf a ms)).c = (SV.Collector.dedupCollector a ms).1 := by
  have h := SV.Collector.bulkM_fresh s ⟨d, a.blocks.length, ms, reuseAppOf a ms⟩
  simp only [] at h
  rw [h]
  by_cases hl : (SV.Collector.setMultiple a.dp (SV.Collector.collect a.blocks.length ms).ids
      (SV.Collector.collect a.blocks.length ms).positions).2.length ≠ (SV.Collector.collect a.blocks.length ms).ids.length
  · have hA : reuseAppOf a ms = some (SV.Collector.setMultiple a.dp (SV.Collector.collect a.blocks.length ms).ids
        (SV.Collector.collect a.blocks.length ms).positions).2 := if_pos hl
    rw [hA]
    show SV.Collector.filter _ _ = (if _ then _ else _)
    rw [if_pos hl]
  · have hA : reuseAppOf a ms = none := if_neg hl
    rw [hA]
    show SV.Collector.collect _ _ = (if _ then _ else _)
    rw [if_neg hl]

/-- state of one index worker: its collector and the fraction it indexes into -/
structure ReuseWorker where
  s : RCollector
  a : SV.Collector.Active

/-- one `appendWorker` iteration on the reused collector: `Init` (oracle `x.1`), `AppendMeta`s, `SetMultiple`, `Filter`,
then the publishing half (`SV.Collector.phaseI`: `AppendIDs`, token list, stats) from that collector -/
def reuseWorkerStep (w : ReuseWorker) (x : InitDec × List SV.Collector.Meta) : ReuseWorker :=
  ⟨SV.Collector.bulkM w.s x.1 w.a.blocks.length x.2 (reuseAppOf w.a x.2),
   SV.Collector.phaseI (SV.Collector.phaseS w.a x.2).1
     (SV.Collector.bulkM w.s x.1 w.a.blocks.length x.2 (reuseAppOf w.a x.2)).c⟩

def reuseWorkerRun (w : ReuseWorker) (h : List (InitDec × List SV.Collector.Meta)) : ReuseWorker := h.foldl reuseWorkerStep w

/-- one iteration on the reused collector = `SV.Collector.indexBulk` -/
theorem cons_collectorReuse_step_eq_indexBulk (w : ReuseWorker) (x : InitDec × List SV.Collector.Meta) :
    (reuseWorkerStep w x).a = SV.Collector.indexBulk w.a x.2 := by
  simp only [reuseWorkerStep, cons_collectorReuse_bulkM_eq_dedupCollector]
  rfl

/-- **Go `appendWorker` over a history, with the collector reused**: whatever state the collector starts in and whatever
the `ReallocSolver`s decide before each bulk, the fraction built is `SV.Collector.run` (the model that takes a fresh
collector per bulk).  So every C17 theorem about `run` - and every wave-1 `cons_` theorem about it - speaks about the
code as it is (one collector per worker). -/
theorem cons_collectorReuse_run_eq_collector_run (w : ReuseWorker) (h : List (InitDec × List SV.Collector.Meta)) :
    (reuseWorkerRun w h).a = SV.Collector.run w.a (h.map (·.2)) := by
  unfold reuseWorkerRun SV.Collector.run
  induction h generalizing w with
  | nil => rfl
  | cons x h ih =>
    simp only [List.foldl_cons, List.map_cons]
    rw [ih, cons_collectorReuse_step_eq_indexBulk]

/-- and the collector the worker is left with after each bulk is the one of `reuseRun` / `freshBulk` (the new model's own
chain), instantiated at the `appended` lists `appendWorker` computes along `SV.Collector.run` -/
theorem cons_collectorReuse_collector_after_step (w : ReuseWorker) (x : InitDec × List SV.Collector.Meta) :
    (reuseWorkerStep w x).s.c = SV.Collector.freshBulk ⟨x.1, w.a.blocks.length, x.2, reuseAppOf w.a x.2⟩ :=
  SV.Collector.bulkM_fresh w.s ⟨x.1, w.a.blocks.length, x.2, reuseAppOf w.a x.2⟩

/-- C01 link: `SV.WPath.buildIndex` (C01) describes the same index as the reused-collector worker run over the decoded
blocks (composition of `cons_buildIndex_wpath_eq_collector` with the theorem above).  `orc` = the solvers' decisions per
entry, arbitrary. -/
theorem cons_collectorReuse_buildIndex_wpath (cd : SV.WPath.IdxCodec) (dec : SV.WPath.Bytes → List SV.Collector.Meta)
    (orc : SV.WPath.Entry → InitDec) (s0 : RCollector) (es : List SV.WPath.Entry)
    (hdec : ∀ e ∈ es, cd.metaDocs e.blk = (dec e.blk).map toDocMeta ∧ SV.Collector.FirstReal (dec e.blk)) :
    IndexRel (SV.WPath.buildIndex cd es)
      (reuseWorkerRun ⟨s0, SV.Collector.Active.empty⟩ (es.map fun e => (orc e, dec e.blk))).a := by
  rw [cons_collectorReuse_run_eq_collector_run, List.map_map]
  exact cons_buildIndex_wpath_eq_collector cd dec es hdec

/-- C07 link: the uninterleaved C07 writer run is related (`ShRel`) to one iteration of the reused-collector worker
(composition of `cons_appendWorker_activeconc_run_eq_collector_indexBulk` with `cons_collectorReuse_step_eq_indexBulk`). -/
theorem cons_collectorReuse_activeconc_run (enc : Nat → SV.Collector.MetaToken)
    (henc : ∀ x y, (enc x).bytes = (enc y).bytes → x = y) (hall : ∀ t, (enc t).bytes ≠ SV.Collector.allToken)
    (c : SV.ActiveConc.Cfg) (s : SV.ActiveConc.St) (i : Nat) (ds : List SV.ActiveConc.Doc) (w : ReuseWorker) (d : InitDec)
    (hidle : (s.ws i).pc = .idle) (hlock : s.sh.lock = false) (hrel : ShRel enc s.sh w.a)
    (hnd : ∀ x ∈ ds, x.toks.Nodup) (hmid : ∀ x ∈ ds, x.mid ≤ SV.Collector.maxU64) :
    ∃ s', SV.ActiveConc.run c s (writerRun i ds) = some s' ∧
      ShRel enc s'.sh (reuseWorkerStep w (d, ds.map (toMetaAC enc))).a ∧ s'.sh.lock = false := by
  obtain ⟨s', h1, h2, h3, -⟩ :=
    cons_appendWorker_activeconc_run_eq_collector_indexBulk enc henc hall c s i ds w.a hidle hlock hrel hnd hmid
  exact ⟨s', h1, by rw [cons_collectorReuse_step_eq_indexBulk]; exact h2, h3⟩

/-! ## non-vacuity / concrete behaviour -/

/-- a dirty collector (left by a bulk with two documents and two tokens), a "reuse everything" oracle, then a bulk that
repeats a token the previous bulk already had: the reused chain gives exactly `indexBulk` (evaluated) -/
theorem cons_collectorReuse_example :
    let dirty : RCollector := SV.Collector.bulkM RCollector.new ⟨none, none, none, none⟩ 0
      [⟨(1, 1), 3, [⟨[97], [98]⟩, ⟨[99], []⟩], 0⟩, ⟨(2, 2), 4, [⟨[99], []⟩], 0⟩] none
    let a := SV.Collector.indexBulk SV.Collector.Active.empty [⟨(1, 1), 3, [⟨[97], [98]⟩, ⟨[99], []⟩], 0⟩, ⟨(2, 2), 4, [⟨[99], []⟩], 0⟩]
    dirty.c.tokensValues = [[97, 58, 98], [99, 58]] ∧ dirty.tokensMap = [([99, 58], 1), ([97, 58, 98], 0)] ∧
    (reuseWorkerStep ⟨dirty, a⟩ (⟨none, none, none, none⟩, [⟨(2, 2), 4, [⟨[99], []⟩], 0⟩, ⟨(3, 3), 1, [⟨[99], []⟩], 0⟩])).s.c.tokensValues
      = [[99, 58]] ∧
    (reuseWorkerStep ⟨dirty, a⟩ (⟨none, none, none, none⟩, [⟨(2, 2), 4, [⟨[99], []⟩], 0⟩, ⟨(3, 3), 1, [⟨[99], []⟩], 0⟩])).a.ids
      = [SV.Collector.systemID, (1, 1), (2, 2), (3, 3)] := by
  decide

/-- the panicking oracle of `Init` exists in the new model's own terms (`initPanics`) and is outside the old model -/
theorem cons_collectorReuse_initPanics_witness :
    SV.Collector.initPanics RCollector.new ⟨none, none, none, some 8⟩ = true ∧
    SV.Collector.initM RCollector.new ⟨none, none, none, some 8⟩ 3 = ⟨SV.Collector.init 3, []⟩ := by decide

end SV.Consistency
