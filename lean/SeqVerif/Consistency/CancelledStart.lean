import SeqVerif.Proofs.LifecycleInv
import SeqVerif.Model.WritePathInv
/-!
# Consistency (wave 3): a cancelled / interrupted start-up of an active fraction - C15 (`SV.Lifecycle`) vs C01 (`SV.WPath`)

Go (frac/active.go `Replay`, fracmanager/loader.go): `NewActive` opens (creates if missing) `.docs` and `.meta`;
`Replay` only READS the meta file inside its loop, returns `ctx.Err()` from inside the loop when cancelled, and only
after the loop calls `truncateTail(docsPos, metaPos)` (cut both files back to the last complete bulk, fsync); the
loader then removes the fraction when `DocsTotal == 0`.

* C15 `cancelledStartOps` (active fraction) = `newActiveOps`: file-neutral when both files exist (C15's own
  `cancelledStart_unchanged`); when `.docs` is missing `NewActive` creates it - stated below.
* C01 `SV.WPath.replay` is a pure function of the meta bytes (read-only by construction); `restart` changes the files
  ONLY by `List.take` (= `truncateTail`), and not at all when nothing incomplete follows the complete bulks.
  A cancelled `Replay` never reaches `truncateTail`: on the files it is `restart false` (no cut).
* Both models agree with Go and with each other on the cancelled start: files unchanged.
* DIFFERENCE on the COMPLETE start of a fraction with a torn tail: C15's `startupOps` / `FileSet.startup` contain no
  operation for `truncateTail` (contents `torn` stay `torn`, the fraction stays), C01 cuts the tail (and Go removes the
  fraction when no complete bulk is left).  Go side: C01.  Not reachable inside C15 (`Reach` never makes `.docs/.meta`
  of an active fraction `torn`: an acknowledged bulk is the atomic `Op.fill`, crashes inside a bulk are C01's
  subject), so no C15 theorem is affected; a composition C15 ∘ C01 has to take the files of an active fraction from
  C01.  Witness below.
-/
namespace SV.Consistency
open SV SV.FileSet SV.SealOps SV.Lifecycle

/-! ## C15 -/

/-- C15, active fraction: the cancelled start-up performs exactly `NewActive`'s operations -/
theorem cons_cancelledstart_c15_active_ops (o : Bool) (fs : FileSet) (h : classify fs = .active) :
    cancelledStartOps o fs = newActiveOps := by
  unfold cancelledStartOps; rw [h]

/-- C15: file-neutral when both files of the active fraction exist (re-export of `cancelledStart_unchanged`) -/
theorem cons_cancelledstart_c15_unchanged (o : Bool) (fs : FileSet) (h : classify fs = .active) (hd : fs.docs ≠ .absent) :
    run (cancelledStartOps o fs) fs = fs :=
  cancelledStart_unchanged o fs h hd

example : classify { docs := .full, metaF := .full } = .active ∧ ({ docs := .full, metaF := .full } : FileSet).docs ≠ .absent := by
  decide

/-- C15: the only change a cancelled start-up of an active fraction can make: `.docs` created empty when missing
(`mustOpenFile`, `O_CREATE`).  All file sets classified active. -/
theorem cons_cancelledstart_c15_only_creates_docs (o : Bool) (fs : FileSet) (h : classify fs = .active) :
    run (cancelledStartOps o fs) fs = { fs with docs := if fs.docs = .absent then .empty else fs.docs } := by
  have hm : fs.metaF ≠ .absent := by
    have := classifyInfo_active_meta (makeInfo fs) h
    intro hm
    simp [makeInfo, Content.has, hm] at this
  rw [cons_cancelledstart_c15_active_ops o fs h]
  obtain ⟨d, dd, sd, sdt, sdd, ix, ixt, ixd, m⟩ := fs
  cases m
  · exact absurd rfl hm
  all_goals (cases d <;> rfl)

/-- C15: a COMPLETE start-up of an active fraction that holds documents is file-neutral as well (nothing is removed,
and - see the header - no truncation is modelled) -/
theorem cons_cancelledstart_c15_complete_unchanged (o : Bool) (fs : FileSet) (h : classify fs = .active)
    (hd : fs.docs ≠ .absent) (hm : fs.metaF ≠ .empty) : run (startupOps o fs) fs = fs := by
  have : startupOps o fs = cancelledStartOps o fs := by
    unfold startupOps cancelledStartOps
    rw [h]
    simp [hm]
  rw [this]
  exact cancelledStart_unchanged o fs h hd

/-! ## C01 -/

/-- C01: what a start-up may do to the two files: nothing when the replay panicked, otherwise cut each back to the
position the replay reached (`truncateTail`).  `replay` itself returns no files - it is read-only by construction.
All byte strings, both variants. -/
theorem cons_cancelledstart_c01_restart_only_truncates (fix : Bool) (docs mfile : WPath.Bytes) :
    ((WPath.restart fix docs mfile).docs = docs ∧ (WPath.restart fix docs mfile).mfile = mfile) ∨
      (fix = true ∧ (WPath.replay mfile).panicked = false ∧
        (WPath.restart fix docs mfile).docs = docs.take (WPath.replay mfile).docsPos ∧
        (WPath.restart fix docs mfile).mfile = mfile.take (WPath.replay mfile).metaPos) := by
  unfold WPath.restart
  cases hp : (WPath.replay mfile).panicked
  · cases fix
    · exact Or.inl ⟨by simp [hp], by simp [hp]⟩
    · exact Or.inr ⟨rfl, rfl, by simp [hp], by simp [hp]⟩
  · exact Or.inl ⟨by simp [hp], by simp [hp]⟩

/-- hence the files after a start-up are prefixes of the files before it -/
theorem cons_cancelledstart_c01_restart_prefix (fix : Bool) (docs mfile : WPath.Bytes) :
    (WPath.restart fix docs mfile).docs <+: docs ∧ (WPath.restart fix docs mfile).mfile <+: mfile := by
  rcases cons_cancelledstart_c01_restart_only_truncates fix docs mfile with ⟨h1, h2⟩ | ⟨_, _, h1, h2⟩
  · rw [h1, h2]; exact ⟨List.prefix_refl _, List.prefix_refl _⟩
  · rw [h1, h2]; exact ⟨List.take_prefix _ _, List.take_prefix _ _⟩

/-- C01: a `Replay` that does not reach `truncateTail` - cancelled, or the code before the repair - leaves both files
exactly as they were.  (`restart false` is that start-up: same replay, no cut.)  All byte strings. -/
theorem cons_cancelledstart_c01_cancelled_unchanged (docs mfile : WPath.Bytes) :
    (WPath.restart false docs mfile).docs = docs ∧ (WPath.restart false docs mfile).mfile = mfile := by
  rcases cons_cancelledstart_c01_restart_only_truncates false docs mfile with h | ⟨h, _⟩
  · exact h
  · cases h

/-- C01: on files that hold only complete bulks (every reachable state without a dirty crash: `InvD st bs [] []`) the
complete start-up changes nothing either - it returns the very same store state.  This is the situation C15's `full`
contents describe, and there C15 (`cons_cancelledstart_c15_complete_unchanged`) and C01 agree: unchanged. -/
theorem cons_cancelledstart_c01_clean_restart_id (st : WPath.St) (bs : List (WPath.Blk × WPath.Blk))
    (h : WPath.InvD st bs [] []) : WPath.restart true st.docs st.mfile = st :=
  WPath.InvD_unique _ _ bs
    (WPath.restart_inv bs [] [] st.docs st.mfile h.wf h.torn (by rw [h.docs]) (by rw [h.mfile])).2 h

example : WPath.InvD WPath.init [] [] [] := WPath.inv_init

/-- C01: with a torn tail the complete start-up DOES change the files (it cuts exactly the incomplete part), the
cancelled one does not: for every state `complete bulks ++ junk / torn` -/
theorem cons_cancelledstart_c01_torn_restart_cuts (bs : List (WPath.Blk × WPath.Blk)) (junk torn : WPath.Bytes)
    (hwf : WPath.AllWF bs) (ht : WPath.TornOK torn) :
    (WPath.restart true (WPath.docsOf bs ++ junk) (WPath.metaOf bs 0 ++ torn)).docs = WPath.docsOf bs ∧
      (WPath.restart true (WPath.docsOf bs ++ junk) (WPath.metaOf bs 0 ++ torn)).mfile = WPath.metaOf bs 0 ∧
      (WPath.restart false (WPath.docsOf bs ++ junk) (WPath.metaOf bs 0 ++ torn)).docs = WPath.docsOf bs ++ junk ∧
      (WPath.restart false (WPath.docsOf bs ++ junk) (WPath.metaOf bs 0 ++ torn)).mfile = WPath.metaOf bs 0 ++ torn := by
  obtain ⟨h1, h2⟩ := WPath.restart_inv bs junk torn _ _ hwf ht rfl rfl
  refine ⟨by simpa using h2.docs, by simpa using h2.mfile, h1.docs, h1.mfile⟩

/-! ## the difference -/

/-- **Complete start-up of an active fraction with a torn tail: C15 says "unchanged", C01 truncates.**
C15: `.docs` / `.meta` with content `torn`, classified active, `startupOps` = `NewActive` only - the files stay as
they are and the fraction is kept.  C01: one orphan docs byte and one byte of a meta header - the start-up cuts both
files to length 0 (and Go then removes the fraction, `DocsTotal == 0`).  Go side: C01 (`truncateTail` after the replay
loop, commit db6c277).  Unreachable in C15's `Reach` (see header). -/
theorem cons_cancelledstart_c15_complete_ne_c01_torn_witness :
    (classify { docs := .torn, metaF := .torn } = .active ∧
      run (startupOps false { docs := .torn, metaF := .torn }) { docs := .torn, metaF := .torn }
        = { docs := .torn, metaF := .torn }) ∧
    ((WPath.restart true [9] [1]).docs = [] ∧ (WPath.restart true [9] [1]).mfile = [] ∧
      (WPath.restart false [9] [1]).docs = [9] ∧ (WPath.restart false [9] [1]).mfile = [1]) := by
  decide

end SV.Consistency
