import SeqVerif.Consistency.ActiveLids
import SeqVerif.Consistency.MetaCodec
import SeqVerif.Model.WritePathInv
import SeqVerif.Model.BulkMeta
/-!
# Consistency (wave 3): the interface hypotheses of the system composition (`SV.Sys`, Proofs/System*.lean)

Proofs/SystemCompose.lean imports Props.C16, so none of the three `System*` files may be imported here.  Every predicate
of `SV.Sys` used below is restated word for word under a `sys`-prefixed name with the source line; the integrator closes
the gap with `Iff.rfl` / `rfl`.

Complete list of hypotheses of the `sys_*` theorems and verdict (details at each theorem below):

| hypothesis | where | verdict |
|---|---|---|
| `ExtBlind dec` (SystemReplay:26) | `sys_i1_replayed`, `sys_i1_replayed_active`, `sys_only_ingested`, `sys_ingest_to_read_crash` | DERIVABLE for every decoder that reads only the codec byte and the payload: `cons_sys_extBlind_of_payloadOnly`; instances: C10's record decoder `sysDecC10` (`cons_sys_extBlind_sysDecC10`) and C01's `plainCodec` (`cons_sys_extBlind_plainCodec`, ExtBlind-shaped over `DocMeta`); conversely `ExtBlind`-shape implies C01's `IdxCodec.ExtFree` (`cons_sys_extFree_of_extBlindShape`) |
| `hcd : cd.ExtFree` | `sys_i1_durable` | derivable for `plainCodec` (model's own `plainCodec_extFree`) and from the ExtBlind shape (above) |
| `hsame` (SystemReplay:156,198) | `sys_i1_redelivered`, `sys_ingest_to_read_crash` | DERIVABLE when re-deliveries are retries of the same payload (`cons_sys_hsame_of_samePayload`) and from C10's determinism of `metasFor` plus "RIDs do not collide" (`cons_sys_hsame_of_c10`); the latter premise is a genuine environment assumption (`rand.Uint64()`) |
| `hd : DistinctBulks`, `hs : NonEmptyDocs` | all `sys_i1_*`, `sys_ingest_to_read_*` | FALSE for C10's own output when a document has a `nested` field: `cons_sys_hd_hs_false_for_nested_witness` (reachable: any mapping with a nested type); the chain covers only bulks without nested metas |
| `hg : GoodIDs` | same | derivable from C10 for parent metas except `id ≠ (0,0)` (time rule / random RID: environment) - not done here |
| `Quiescent (readC03 U h)` (SystemSealed:163,228) | `sys_i1_sealed`, `Holds.sealed` (also `c17_sealed_once`) | DERIVABLE in general from C17's `run`: `cons_sys_quiescent_of_c17_run` (in SysHypsB.lean) |
| `Covers names U bytes` (SystemSealed:74) | `sys_sealed_docs`, `sys_i1_sealed`, `Holds.sealed.hcov` | property of the token table `U` the sealer is given - a parameter; satisfiable for any finite token set (`cons_sys_covers_of_tableOf`), so not vacuous; that the *real* table is such a `U` is C03's token-table model, not derivable here |
| `hall : allToken ∈ m.tokens` | `sys_sealed_docs`, `sys_i1_sealed` | derivable from C10 (`SV.BulkIndex.docMetas_shape` + `cons_allToken_bulkindex_eq_collector`): `cons_sys_allToken_of_c10` |
| `hq`-side numeric `hsize hcap hb hz hseal` | `sys_i1_sealed` | `hb` (From/To bound the MIDs), `hz` (no `0:0`): `hz` follows from `GoodIDs` (SysHypsB `cons_sys_hz_of_goodIDs`); others are configuration |
| `J`, `J'` (SystemCompose:369, SystemSealed:271, SystemReplay:195) | `sys_ingest_to_read_*` | (wave 4/5: see Consistency/SysJunction.lean - restated over the full-set shard and discharged from the transport premise in Proofs/SystemJunction.lean) originally junction assumptions: they relate C09's abstract `hotLog` entry (shard, replica) to the store's state (`B ∈ hist s` / `blk ∈ ackedOf (Hst s)`); no model contains the store's `Bulk` gRPC handler (storeapi -> `Active.Append`), so nothing to derive them from |
| `I1`, `serve` | `sys_acked_found_partial`, `sys_served_found` | interface, discharged by the `sys_i1_*` theorems inside SV.Sys |
| `hfirst` | `sys_ingest_to_read_active`, `Holds` | removed by `sys_i1_redelivered` given `hsame` |
| `hh hlim hdesc hok hmax hne hall hans` | `sys_read` | C16/C05 hypotheses (`c16_e2e_spec_complete`) - other workers' topic |
| `hack hS hR` | C09 | premises of the statement (the bulk was acknowledged), not assumptions to discharge |
| `hwf : ∀ e ∈ H, e.WF` | replay | C01's alphabet well-formedness |
| `I2` | `sys_fetch_verbatim_partial` | interface to C04, not composed |
-/
namespace SV.Consistency

/-! ## ExtBlind -/

/-- textual copy of `SV.Sys.ExtBlind`, Proofs/SystemReplay.lean:26 (line numbers as of wave 5), generalised over the result type (`SV.Sys.ExtBlind dec`
is `sysExtBlind dec` at `α = List SV.Collector.Meta`) -/
def sysExtBlind {α : Type} (dec : SV.WPath.Bytes → α) : Prop :=
  ∀ b b', SV.WPath.stampMeta b 0 0 = SV.WPath.stampMeta b' 0 0 → dec b = dec b'

theorem sysHyps_drop_three {α} (X Z Y : List α) (n : Nat) (h : X.length + Z.length ≤ n) :
    (X ++ Z ++ Y).drop n = Y.drop (n - X.length - Z.length) := by
  rw [List.drop_append, List.drop_append, List.drop_eq_nil_of_le (by omega), List.drop_eq_nil_of_le (by omega)]
  simp [List.length_append, Nat.sub_sub]

/-- `SetExt1` / `SetExt2` leave the payload (bytes from 33 on) alone - for blocks of ANY length, also shorter than the
header -/
theorem sysHyps_stamp_drop (b : SV.WPath.Bytes) (x y : Nat) : (SV.WPath.stampMeta b x y).drop 33 = b.drop 33 := by
  have h1 : ∀ (s : SV.WPath.Bytes) (v : Nat), (SV.WPath.setExt2 s v).drop 33 = s.drop 33 := by
    intro s v
    unfold SV.WPath.setExt2 SV.WPath.offExt2
    rw [sysHyps_drop_three _ _ _ _ (by simp [List.length_take]; omega)]
    simp only [List.length_take, SV.WPath.leN_length, List.drop_drop]
    by_cases hs : 25 ≤ s.length
    · have : min 25 s.length = 25 := by omega
      simp [this]
    · rw [List.drop_eq_nil_of_le (by omega), List.drop_eq_nil_of_le (by omega)]
  have h2 : ∀ (s : SV.WPath.Bytes) (v : Nat), (SV.WPath.setExt1 s v).drop 33 = s.drop 33 := by
    intro s v
    unfold SV.WPath.setExt1 SV.WPath.offExt1
    rw [sysHyps_drop_three _ _ _ _ (by simp [List.length_take]; omega)]
    simp only [List.length_take, SV.WPath.leN_length, List.drop_drop]
    by_cases hs : 17 ≤ s.length
    · have : min 17 s.length = 17 := by omega
      simp [this]
    · rw [List.drop_eq_nil_of_le (by omega), List.drop_eq_nil_of_le (by omega)]
  rw [SV.WPath.stampMeta, h1, h2]

/-- ... and the codec byte (byte 0) -/
theorem sysHyps_stamp_codec (b : SV.WPath.Bytes) : SV.WPath.getCodec (SV.WPath.stampMeta b 0 0) = SV.WPath.getCodec b := by
  cases b with
  | nil => decide
  | cons c rest =>
    simp [SV.WPath.stampMeta, SV.WPath.setExt2, SV.WPath.setExt1, SV.WPath.offExt1, SV.WPath.offExt2, SV.WPath.getCodec]

/-- **`ExtBlind` is derivable** for every decoder that looks only at the codec byte and the payload (`blk[33:]`), which is
what `DocBlock.DecompressTo` + the record loop do (disk/doc_block.go: `Payload() = b[DocBlockHeaderLen:]`, `Codec() = b[0]`).
No assumption on the length or shape of the blocks. -/
theorem cons_sys_extBlind_of_payloadOnly {α : Type} (g : Nat → SV.WPath.Bytes → α) :
    sysExtBlind (fun b => g (SV.WPath.getCodec b) (b.drop 33)) := by
  intro b b' h
  have hc : SV.WPath.getCodec b = SV.WPath.getCodec b' := by
    rw [← sysHyps_stamp_codec b, ← sysHyps_stamp_codec b', h]
  have hp : b.drop 33 = b'.drop 33 := by
    rw [← sysHyps_stamp_drop b 0 0, ← sysHyps_stamp_drop b' 0 0, h]
  simp only [hc, hp]

/-- a C10 wire record as the C17 meta (the inverse direction of `SV.Bulk.toCollector` / `Meta.toRec`) -/
def sysMetaOfRec (r : SV.Bulk.MetaRec) : SV.Collector.Meta :=
  { id := (r.mid, r.rid), size := r.size, tokens := r.tokens.map fun t => ⟨t.key, t.val⟩ }

/-- the concrete decoder the replay composition can be instantiated with: codec 0 (`disk.CodecNo`), payload split into
records by C10's `decodeDocs`, every record unmarshalled by C10's `decMeta` (= `MetaData.UnmarshalBinary`), read as C17 metas;
anything malformed decodes to the empty bulk -/
def sysDecC10 (b : SV.WPath.Bytes) : List SV.Collector.Meta :=
  if SV.WPath.getCodec b = 0 then
    (((SV.Bulk.decodeDocs (b.drop 33).length (b.drop 33)).bind fun rs => rs.mapM SV.Bulk.decMeta).getD []).map sysMetaOfRec
  else []

/-- `SV.Sys.ExtBlind sysDecC10` - the hypothesis `hdec` of `sys_i1_replayed`, `sys_only_ingested`, `sys_ingest_to_read_crash`
holds for the C10-based decoder -/
theorem cons_sys_extBlind_sysDecC10 : sysExtBlind sysDecC10 :=
  cons_sys_extBlind_of_payloadOnly fun c p =>
    if c = 0 then (((SV.Bulk.decodeDocs p.length p).bind fun rs => rs.mapM SV.Bulk.decMeta).getD []).map sysMetaOfRec else []

/-- the decoder is the right one: a meta block written by the ingestor (`PackDocBlock` with codec 0 around C10's
`encodeMetas`) decodes to the metas that were marshalled (C10's round trip `decode_encodeMetas`) -/
theorem cons_sys_sysDecC10_roundtrip (ms : List SV.Bulk.MetaRec) (h : ∀ m, m ∈ ms → m.Ok)
    (hl : ∀ m, m ∈ ms → (SV.Bulk.encMeta m).length < 4294967296) (rawLen e1 e2 : Nat) :
    sysDecC10 (SV.WPath.enc ⟨0, rawLen, e1, e2, SV.Bulk.encodeMetas ms⟩) = ms.map sysMetaOfRec := by
  unfold sysDecC10
  have hp : (SV.WPath.enc ⟨0, rawLen, e1, e2, SV.Bulk.encodeMetas ms⟩).drop 33 = SV.Bulk.encodeMetas ms :=
    SV.WPath.enc_drop_header _
  rw [SV.WPath.getCodec_enc, hp, SV.Bulk.decode_encodeMetas ms h hl]
  simp

/-- C01's own decoder parameter `plainCodec.metaDocs` has the `ExtBlind` shape (over C01's `DocMeta`): it uses the block
length only as fuel, and two blocks with equal cleared stamps but different lengths both have an empty payload -/
theorem cons_sys_extBlind_plainCodec : sysExtBlind SV.WPath.plainCodec.metaDocs := by
  have hfuel : ∀ b : SV.WPath.Bytes, SV.WPath.plainCodec.metaDocs b =
      if SV.WPath.getCodec b = 0 then SV.WPath.parseMetas (33 + (b.drop 33).length) (b.drop 33) else [] := by
    intro b
    simp only [SV.WPath.plainCodec, SV.WPath.headerLen]
    split
    · by_cases hl : 33 ≤ b.length
      · have : 33 + (b.drop 33).length = b.length := by rw [List.length_drop]; omega
        rw [this]
      · rw [List.drop_eq_nil_of_le (by omega)]
        cases b.length <;> simp [SV.WPath.parseMetas]
    · rfl
  intro b b' h
  rw [hfuel b, hfuel b']
  have hc : SV.WPath.getCodec b = SV.WPath.getCodec b' := by
    rw [← sysHyps_stamp_codec b, ← sysHyps_stamp_codec b', h]
  have hp : b.drop 33 = b'.drop 33 := by
    rw [← sysHyps_stamp_drop b 0 0, ← sysHyps_stamp_drop b' 0 0, h]
  rw [hc, hp]

/-- the ExtBlind shape implies C01's `IdxCodec.ExtFree` (the hypothesis `hcd` of `sys_i1_durable`): the two interface
hypotheses about "the decoder ignores ext1/ext2" are one -/
theorem cons_sys_extFree_of_extBlindShape (cd : SV.WPath.IdxCodec) (h : sysExtBlind cd.metaDocs) : cd.ExtFree := by
  intro b e1 e2
  apply h
  simp only [SV.WPath.stampMeta_enc]

/-! ## hsame -/

/-- textual copy of the hypothesis `hsame` of `SV.Sys.sys_i1_redelivered`, Proofs/SystemReplay.lean:156 -/
def sysHsame (h : List (List SV.Collector.Meta)) (m : SV.Collector.Meta) : Prop :=
  ∀ b ∈ h, ∀ m' ∈ b, m'.id = m.id → m'.tokens = m.tokens

/-- **`hsame` is derivable for retries**: when every bulk of the history that delivers `m`'s ID is the same payload `B`
(C09: the replica client re-sends the *same* bytes on every attempt and to every replica; C10's `metasFor` ran once) and the
ids inside `B` are distinct (`hd`), every delivery of the ID carries `m`'s tokens. -/
theorem cons_sys_hsame_of_samePayload (h : List (List SV.Collector.Meta)) (B : List SV.Collector.Meta)
    (m : SV.Collector.Meta) (hm : m ∈ B) (hnd : (B.map (·.id)).Nodup)
    (hretry : ∀ b ∈ h, (∃ m' ∈ b, m'.id = m.id) → b = B) : sysHsame h m := by
  intro b hb m' hm' hid
  have hbB := hretry b hb ⟨m', hm', hid⟩
  subst hbB
  have : m' = m := by
    clear hretry hb
    induction b with
    | nil => cases hm
    | cons x xs ih =>
      simp only [List.map_cons, List.nodup_cons, List.mem_map] at hnd
      rcases List.mem_cons.mp hm with rfl | hm1
      · rcases List.mem_cons.mp hm' with rfl | hm2
        · rfl
        · exact absurd ⟨m', hm2, hid⟩ hnd.1
      · rcases List.mem_cons.mp hm' with rfl | hm2
        · exact absurd ⟨m, hm1, hid.symm⟩ hnd.1
        · exact ih hm2 hm1 hnd.2
  rw [this]

/-- **`hsame` from C10's determinism.**  All bulks of the history are C10 outputs `(S.flatMap (metasFor T I)).map toCollector`
for the same index configuration `I` (tokenizers, mapping, decoder, RID source) and arbitrary time configurations (request
time differs per request).  `metasFor` is a function, so equal documents give equal tokens; two deliveries with the same ID
have the same RID, and **if the RID source does not collide on the documents involved** (`hrid`: `rand.Uint64()<<16 +
proxyIndex` - the one genuine environment assumption) they are the same document.  Nested metas are excluded as everywhere
in the chain (`hs`): here `hone` - `indexDoc` yields one token list. -/
theorem cons_sys_hsame_of_c10 (I : SV.Bulk.IndexCfg) (reqs : List (SV.Bulk.TimeCfg × List SV.Bulk.Bytes))
    (hone : ∀ r ∈ reqs, ∀ d ∈ r.2, (SV.BulkIndex.indexDoc I.c I.mp (I.tree d)).length = 1)
    (hrid : ∀ r ∈ reqs, ∀ r' ∈ reqs, ∀ d ∈ r.2, ∀ d' ∈ r'.2, I.ridOf d = I.ridOf d' → d = d')
    (m : SV.Collector.Meta) (hm : ∃ r ∈ reqs, m ∈ (r.2.flatMap (SV.Bulk.metasFor r.1 I)).map SV.Bulk.toCollector) :
    sysHsame (reqs.map fun r => (r.2.flatMap (SV.Bulk.metasFor r.1 I)).map SV.Bulk.toCollector) m := by
  have key : ∀ r ∈ reqs, ∀ x ∈ (r.2.flatMap (SV.Bulk.metasFor r.1 I)).map SV.Bulk.toCollector,
      ∃ d ∈ r.2, x.id.2 = I.ridOf d ∧
        ∃ p, SV.BulkIndex.indexDoc I.c I.mp (I.tree d) = [p] ∧ x.tokens = p.map fun t => ⟨t.1, t.2⟩ := by
    intro r hr x hx
    obtain ⟨y, hy, rfl⟩ := List.mem_map.mp hx
    obtain ⟨d, hd, hyd⟩ := List.mem_flatMap.mp hy
    have h1 := hone r hr d hd
    refine ⟨d, hd, ?_⟩
    unfold SV.Bulk.metasFor at hyd
    match hi : SV.BulkIndex.indexDoc I.c I.mp (I.tree d), h1 with
    | [p], _ =>
      rw [hi] at hyd
      simp only [SV.BulkIndex.docMetas, List.map_nil, List.mem_singleton] at hyd
      subst hyd
      exact ⟨rfl, p, rfl, rfl⟩
  obtain ⟨r0, hr0, hm0⟩ := hm
  obtain ⟨d0, hd0, hrid0, p0, hp0, htok0⟩ := key r0 hr0 m hm0
  intro b hb m' hm' hid
  obtain ⟨r, hr, rfl⟩ := List.mem_map.mp hb
  obtain ⟨d, hd, hrid1, p, hp, htok⟩ := key r hr m' hm'
  have hdd : d = d0 := hrid r hr r0 hr0 d hd d0 hd0 (by rw [← hrid1, ← hrid0, hid])
  subst hdd
  rw [hp0] at hp
  cases hp
  rw [htok, htok0]

/-! ## `hd`, `hs` are false for documents with a `nested` field -/

/-- **`DistinctBulks` and `NonEmptyDocs` fail on C10's own output** as soon as one document has one element in a field of
mapping type `nested`: `indexDoc` yields a second token list, `docMetas` a second meta with the *same* ID and `Size = 0`
(proxy/bulk/indexer.go `appendNestedMeta`).  So `hd`/`hs` of `sys_i1_active`, `sys_i1_sealed`, `sys_i1_replayed_active`,
`sys_only_ingested`, `sys_i1_redelivered`, `sys_ingest_to_read_{active,sealed,crash}` cannot be derived from C10; they restrict
the composed guarantee to bulks without nested metas (C17 itself handles them: `GoodBulks` / `indexBulk_specN`). -/
theorem cons_sys_hd_hs_false_for_nested_witness :
    let mp : SV.Bulk.Bytes → SV.BulkIndex.MTypes := fun _ => ⟨.nested, []⟩
    let root : SV.BulkIndex.JV := .mk [] [] .obj [([110], .mk [] [] .arr [] [.mk [] [] .obj [] []])] []
    ∀ c : SV.Tok.TokCfg,
      SV.BulkIndex.indexDoc c mp root = [[SV.BulkIndex.allTok], [SV.BulkIndex.allTok]] ∧
      (SV.BulkIndex.docMetas 7 9 (SV.BulkIndex.indexDoc c mp root) [123, 125]).map SV.Bulk.toCollector =
        [⟨(7, 9), 2, [⟨[95, 97, 108, 108, 95], []⟩], 0⟩, ⟨(7, 9), 0, [⟨[95, 97, 108, 108, 95], []⟩], 0⟩] ∧
      ¬ SV.Collector.DistinctBulks [(SV.BulkIndex.docMetas 7 9 (SV.BulkIndex.indexDoc c mp root) [123, 125]).map SV.Bulk.toCollector] ∧
      ¬ SV.Collector.NonEmptyDocs [(SV.BulkIndex.docMetas 7 9 (SV.BulkIndex.indexDoc c mp root) [123, 125]).map SV.Bulk.toCollector] := by
  intro mp root c
  have h1 : SV.BulkIndex.indexDoc c mp root = [[SV.BulkIndex.allTok], [SV.BulkIndex.allTok]] := by
    simp [SV.BulkIndex.indexDoc, SV.BulkIndex.decodeFields, SV.BulkIndex.decodeNested, SV.BulkIndex.JV.fields, root, mp,
      SV.BulkIndex.joinName]
  have h2 : (SV.BulkIndex.docMetas 7 9 (SV.BulkIndex.indexDoc c mp root) [123, 125]).map SV.Bulk.toCollector =
      [⟨(7, 9), 2, [⟨[95, 97, 108, 108, 95], []⟩], 0⟩, ⟨(7, 9), 0, [⟨[95, 97, 108, 108, 95], []⟩], 0⟩] := by
    rw [h1]; decide
  refine ⟨h1, h2, ?_, ?_⟩
  · rw [h2]
    intro h
    have := h _ (List.mem_singleton.mpr rfl)
    revert this
    decide
  · rw [h2]
    intro h
    have := h _ (List.mem_singleton.mpr rfl) ⟨(7, 9), 0, [⟨[95, 97, 108, 108, 95], []⟩], 0⟩ (by simp)
    exact this rfl

/-! ## `_all_` in every meta -/

/-- the hypothesis `hall` of `sys_sealed_docs` / `sys_i1_sealed` / `Holds.sealed.hcov` (`allToken ∈ m.tokens.map bytes`) holds
for every meta C10 emits: `docMetas_shape` (every meta's tokens start with `allTok`) read through `toCollector` -/
theorem cons_sys_allToken_of_c10 (mid rid : Nat) (c : SV.Tok.TokCfg) (mp : SV.Bulk.Bytes → SV.BulkIndex.MTypes)
    (root : SV.BulkIndex.JV) (d : SV.Bulk.Bytes) (m : SV.Collector.Meta)
    (hm : m ∈ (SV.BulkIndex.docMetas mid rid (SV.BulkIndex.indexDoc c mp root) d).map SV.Bulk.toCollector) :
    SV.Collector.allToken ∈ m.tokens.map SV.Collector.MetaToken.bytes := by
  obtain ⟨p, ns, hshape, -, hns⟩ := SV.BulkIndex.docMetas_shape mid rid c mp root d
  rw [hshape] at hm
  obtain ⟨x, hx, rfl⟩ := List.mem_map.mp hm
  have hx' : ∃ q, x.tokens = SV.BulkIndex.allTok :: q := by
    rcases List.mem_cons.mp hx with rfl | hx
    · exact ⟨p, rfl⟩
    · exact (hns x hx).2.2.2
  obtain ⟨q, hq⟩ := hx'
  simp only [SV.Bulk.toCollector, hq, List.map_cons, List.mem_cons]
  left
  exact cons_allToken_bulkindex_eq_collector.symm

/-! ## Covers -/

/-- textual copy of `SV.Sys.Covers`, Proofs/SystemSealed.lean:74 -/
def sysCovers (names : List SV.Collector.Bytes) (U : List (List (SV.Collector.Bytes × SV.C03.Tok))) (bytes : SV.Collector.Bytes) : Prop :=
  ∃ j fl tv, U[j]? = some fl ∧ tv ∈ fl ∧ tv.1 = bytes ∧ (names.drop j).headD [] = (SV.ActiveReach.splitTok bytes).1 ∧
    tv.2 = (SV.ActiveReach.splitTok bytes).2

/-- a token table for a finite list of token bytes: one field per token, named by the token's key -/
def sysNamesOf (bs : List SV.Collector.Bytes) : List SV.Collector.Bytes := bs.map fun b => (SV.ActiveReach.splitTok b).1
def sysTableOf (bs : List SV.Collector.Bytes) : List (List (SV.Collector.Bytes × SV.C03.Tok)) :=
  bs.map fun b => [(b, (SV.ActiveReach.splitTok b).2)]

/-- `Covers` is a property of the token table `U` handed to the sealer (a parameter of `readC03`), not of the C17 state; it is
satisfiable for every finite set of tokens - e.g. all keys of `a.tokens` - so the `hcov` hypotheses are not vacuous.  (That the
table `Seal` really reads lists every token of the token list under its field is C03's token-table model.) -/
theorem cons_sys_covers_of_tableOf (bs : List SV.Collector.Bytes) (b : SV.Collector.Bytes) (hb : b ∈ bs) :
    sysCovers (sysNamesOf bs) (sysTableOf bs) b := by
  obtain ⟨j, hj, rfl⟩ := List.getElem_of_mem hb
  refine ⟨j, [(bs[j], (SV.ActiveReach.splitTok bs[j]).2)], (bs[j], (SV.ActiveReach.splitTok bs[j]).2), ?_, by simp, rfl, ?_, rfl⟩
  · simp [sysTableOf, List.getElem?_eq_getElem hj]
  · simp only [sysNamesOf]
    rw [← List.map_drop, List.drop_eq_getElem_cons hj]
    rfl

end SV.Consistency
