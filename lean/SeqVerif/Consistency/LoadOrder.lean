import SeqVerif.Proofs.LifecycleInv
/-!
# Consistency (final wave): the order of `fm.fracs` after `FracManager.Load` - C15 `SV.Lifecycle.loadOrder`

Go (`/repo/fracmanager/loader.go: load`): `sort.Strings(fracIDs)`; ONE loop over the fractions in id order appends every
sealed fraction to `fracs` and collects the unsealed ones in `actives`; a second loop replays `actives` in that order and
appends them BEHIND all sealed ones.  `SV.Lifecycle.loadOrder` is exactly that (sealed in id order, then unsealed in id
order) - the model matches Go; what Go does is the subject of the open finding `restart-order-unsealed-after-sealed`
(known_findings.json): retention (`shrinkSizes` = `SV.Lifecycle.shrink`, oldest-first by LIST position,
`c15_oldest_first` = `shrink_spec`) then deletes by the loader's order, not by age.

Other models of "fraction order at start-up": none.  C01 `SV.WPath.restart` and C17 `SV.C17Compose.restart_same_store`
replay ONE active fraction and have no notion of an order among fractions; C07 `SV.ProxyFrac` is one fraction.  So there
is no second definition to equate - the content here is the precise characterisation of when the loader's order is the
age order (the hypothesis of `c15_load_order_is_age_order`, Props/C15.lean, shown to be NECESSARY as well) and the
finding as a concrete witness with its consequence for retention.
-/
namespace SV.Consistency
open SV SV.Lifecycle

/-- every unsealed fraction is newer (larger id) than every sealed one -/
def loadorderUnsealedNewest (fr : List (Nat × Bool)) : Prop :=
  ∀ x ∈ fr, ∀ y ∈ fr, x.2 = false → y.2 = true → x.1 < y.1

theorem loadorder_mem_sealed (fr : List (Nat × Bool)) (x : Nat × Bool) (hx : x ∈ fr) (h : x.2 = false) :
    x.1 ∈ (fr.filter (fun x => !x.2)).map (·.1) :=
  List.mem_map.mpr ⟨x, List.mem_filter.mpr ⟨hx, by simp [h]⟩, rfl⟩

theorem loadorder_mem_unsealed (fr : List (Nat × Bool)) (y : Nat × Bool) (hy : y ∈ fr) (h : y.2 = true) :
    y.1 ∈ (fr.filter (fun x => x.2)).map (·.1) :=
  List.mem_map.mpr ⟨y, List.mem_filter.mpr ⟨hy, h⟩, rfl⟩

/-- **`FracManager.Load` yields the creation (id) order IFF every unsealed fraction is newer than every sealed one.**
`fr` = the fractions of the data directory in id order (ids strictly increasing: ULIDs, `sort.Strings`), with the flag
"unsealed".  "Is in creation order" is stated both ways: the list is strictly increasing, and it is the id-sorted list
itself.  (`←` is C15's `loadOrder_age`; `→` is new: the hypothesis of `c15_load_order_is_age_order` cannot be weakened.) -/
theorem cons_loadorder_age_order_iff (fr : List (Nat × Bool)) (hs : (fr.map (·.1)).Pairwise (· < ·)) :
    ((loadOrder fr).Pairwise (· < ·) ↔ loadorderUnsealedNewest fr) ∧
      (loadOrder fr = fr.map (·.1) ↔ loadorderUnsealedNewest fr) := by
  have hback : loadorderUnsealedNewest fr → loadOrder fr = fr.map (·.1) := fun h => loadOrder_age fr hs h
  have hfwd : (loadOrder fr).Pairwise (· < ·) → loadorderUnsealedNewest fr := by
    intro hp x hx y hy h1 h2
    unfold loadOrder at hp
    rw [List.pairwise_append] at hp
    exact hp.2.2 x.1 (loadorder_mem_sealed fr x hx h1) y.1 (loadorder_mem_unsealed fr y hy h2)
  refine ⟨⟨hfwd, fun h => by rw [hback h]; exact hs⟩, ⟨fun h => hfwd (by rw [h]; exact hs), hback⟩⟩

example : (([(1, false), (2, false), (3, true)] : List (Nat × Bool)).map (·.1)).Pairwise (· < ·) ∧
    loadorderUnsealedNewest [(1, false), (2, false), (3, true)] := by
  refine ⟨by decide, ?_⟩
  intro x hx y hy h1 h2
  simp only [List.mem_cons, List.mem_nil_iff, or_false] at hx hy
  rcases hx with rfl | rfl | rfl <;> rcases hy with rfl | rfl | rfl <;> simp_all

/-- whatever the flags, `Load` loses and invents no fraction: the result is a permutation of the ids -/
theorem cons_loadorder_perm (fr : List (Nat × Bool)) : (loadOrder fr).Perm (fr.map (·.1)) := by
  unfold loadOrder
  induction fr with
  | nil => exact List.Perm.refl _
  | cons x r ih =>
    cases hx : x.2
    · simp only [List.filter_cons, hx, Bool.not_false, if_true, Bool.false_eq_true, if_false, List.map_cons, List.cons_append]
      exact List.Perm.cons _ ih
    · simp only [List.filter_cons, hx, Bool.not_true, Bool.false_eq_true, if_false, if_true, List.map_cons]
      exact (List.perm_middle).trans (List.Perm.cons _ ih)

/-- and retention (`shrinkSizes`, oldest-first BY POSITION, `c15_oldest_first`) removes a prefix of the loader's order: in
the age-ordered case a prefix of the age order, otherwise not -/
theorem cons_loadorder_retention_prefix (fr : List (Nat × Bool)) (limit : Nat) (size : Nat → Nat) :
    (shrink limit ((loadOrder fr).map size)).1 <+: (loadOrder fr).map size :=
  ⟨_, (shrink_spec limit _).1⟩

/-- **The open finding `restart-order-unsealed-after-sealed` as a witness.**  Fractions 1 (sealed), 2 (older, still
unsealed: its background seal had not published when the process died), 3 (newer, already sealed).  `Load` gives
`[1, 3, 2]` - the older fraction 2 behind the newer 3 (and 2 becomes the write target).  With sizes 5, 6, 7 and a limit
of 7 retention then deletes fractions 1 and 3 and keeps 2: the NEWER data (3) is deleted before the OLDER (2); by age it
would delete 1 and 2 and keep 3.  Which side is Go: the model IS Go (loader.go appends `actives` after the loop over all
fractions) - this is a defect of the code recorded as open, not a model disagreement. -/
theorem cons_loadorder_finding_witness :
    let fr : List (Nat × Bool) := [(1, false), (2, true), (3, false)]
    let size : Nat → Nat := fun i => i + 4
    loadOrder fr = [1, 3, 2] ∧ ¬ (loadOrder fr).Pairwise (· < ·) ∧
      shrink 7 ((loadOrder fr).map size) = ([size 1, size 3], [size 2]) ∧
      shrink 7 ((fr.map (·.1)).map size) = ([size 1, size 2], [size 3]) := by
  decide

/-- from the second start on the situation is gone: the first start seals the recovered fraction (all sealed), and
then the loader's order is the age order for every set of fractions -/
theorem cons_loadorder_all_sealed (fr : List (Nat × Bool)) (hs : (fr.map (·.1)).Pairwise (· < ·))
    (h : ∀ x ∈ fr, x.2 = false) : loadOrder fr = fr.map (·.1) :=
  ((cons_loadorder_age_order_iff fr hs).2).mpr (fun x _ y hy _ h2 => by rw [h y hy] at h2; cases h2)

end SV.Consistency
