import SeqVerif.Proofs.C03GroupProofs
import SeqVerif.Model.FetchIndex
import SeqVerif.Model.Collector
/-!
# Consistency: document positions (`seq.PackDocPos`, `DocPos.Unpack`, `seq.DocPosNotFound`, `seq.GroupDocsOffsets`,
`processor.IndexFetch`) - C03 sealed-format model vs C04 fetch model vs C17 collector model

* C03 (`SV.C03`, Model/C03Codec.lean, Model/C03Docs.lean): `docOffsetBits` fixed to 30, the `PackDocPos` panic is `none`,
  `Unpack` uses truncated subtraction for `pos--`;
* C04 (`SV.Fetch`, Model/FetchIndex.lean): `bits` is a parameter, `PackDocPos` is total (panic outside the model),
  `Unpack` wraps in uint64;
* C17 (`SV.Collector`, Model/Collector.lean): `packDocPos` on an unpacked pair, `docOffsetBits = 30`;
* C01 (`SV.WPath`, Model/WPIndex.lean) deliberately keeps positions unpacked as `(block, offset)` - no packing to compare;
* the mechanically translated Go functions `T.PackDocPos` / `T.DocPos_Unpack` (Extracted/C03T.lean, Extracted/C04T.lean)
  are tied to the C03 / C04 definitions by `c03_t_PackDocPos`, `c03_t_DocPos_Unpack` (Props/C03T.lean, `pos >= 1`) and
  `c04_t_PackDocPos`, `c04_t_DocPos_Unpack` (Props/C04T.lean, every `pos`): the same domains as below.
-/
namespace SV.Consistency

open SV

/-! ## constants -/

/-- Go `seq.DocPosNotFound = math.MaxUint64`: `SV.C03.docPosNotFound` = `SV.Fetch.notFound` = `SV.Collector.maxU64`. -/
theorem cons_docPos_notFound_eq : C03.docPosNotFound = Fetch.notFound ∧ Fetch.notFound = Collector.maxU64 := ⟨rfl, rfl⟩

/-- Go `docOffsetBits = 30`: `SV.C03.docOffsetBits` = `SV.Collector.docOffsetBits` (the Fetch model takes it as the
parameter `bits`, instantiated with the extracted constant in Props/C04.lean). -/
theorem cons_docPos_docOffsetBits_eq : C03.docOffsetBits = Collector.docOffsetBits := rfl

/-! ## `seq.PackDocPos` -/

/-- Go `seq.PackDocPos(block, off)`: `SV.C03.packDocPos` (Option, `none` = `logger.Panic`) = `some` of
`SV.Fetch.packDocPos 30`.  Domain: `off <= maxDocOffset = 2^30-1`, exactly where the Go function does not panic
(the Fetch definition is only meant there, see its doc comment). -/
theorem cons_docPos_c03Pack_eq_fetchPack (b off : Nat) (ho : off ≤ 1073741823) :
    C03.packDocPos b off = some (Fetch.packDocPos 30 b off) := by
  unfold C03.packDocPos Fetch.packDocPos
  rw [if_neg (by omega)]

example : (5 : Nat) ≤ 1073741823 := by decide

/-- outside that domain the C03 model reports the panic, the (total) Fetch definition returns a number: the domain
restriction of the previous theorem is necessary. -/
theorem cons_docPos_c03Pack_panic (b off : Nat) (ho : off > 1073741823) : C03.packDocPos b off = none := by
  unfold C03.packDocPos; rw [if_pos ho]

/-- Go `seq.PackDocPos`: `SV.Collector.packDocPos` (pair argument) = `SV.Fetch.packDocPos 30`.  All inputs (both are
the non-panicking arithmetic). -/
theorem cons_docPos_collectorPack_eq_fetchPack (p : Collector.DocPos) :
    Collector.packDocPos p = Fetch.packDocPos 30 p.1 p.2 := rfl

/-- Go `seq.PackDocPos`: `SV.C03.packDocPos` = `some (SV.Collector.packDocPos ..)` on the non-panicking domain. -/
theorem cons_docPos_c03Pack_eq_collectorPack (b off : Nat) (ho : off ≤ 1073741823) :
    C03.packDocPos b off = some (Collector.packDocPos (b, off)) := by
  rw [cons_docPos_c03Pack_eq_fetchPack b off ho]; rfl

/-! ## `DocPos.Unpack` -/

/-- Go `DocPos.Unpack`: `SV.C03.unpackDocPos` (Model/C03Codec.lean) = `SV.Fetch.unpackDocPos 30` (Model/FetchIndex.lean).
Domain: `1 <= pos < 2^64` (every uint64 except 0).  At `pos = 0` the two models DIFFER, see the witness below. -/
theorem cons_docPos_c03Unpack_eq_fetchUnpack (pos : Nat) (h1 : 1 ≤ pos) (h2 : pos < 18446744073709551616) :
    C03.unpackDocPos pos = Fetch.unpackDocPos 30 pos := by
  unfold C03.unpackDocPos Fetch.unpackDocPos
  have : (pos + 18446744073709551615) % 18446744073709551616 = pos - 1 := by omega
  simp only [this]

example : (1 : Nat) ≤ 7 ∧ (7 : Nat) < 18446744073709551616 := by decide

/-- FINDING (model discrepancy, unreachable by values `PackDocPos` produces): for the position 0 Go's `pos--` wraps to
`MaxUint64`, so `Unpack` yields block `0xFFFFFFFF`, offset `0x3FFFFFFF` - that is what the Fetch model (and the
translated `T.DocPos_Unpack`, `c04_t_DocPos_Unpack`) computes; the C03 model's truncated subtraction yields `(0, 0)`.
`PackDocPos` never returns 0 (`C03.docpos_found`), and `c03_t_DocPos_Unpack` is stated for `pos >= 1` only. -/
theorem cons_docPos_c03Unpack_ne_fetchUnpack_witness :
    C03.unpackDocPos 0 = (0, 0) ∧ Fetch.unpackDocPos 30 0 = (4294967295, 1073741823) ∧
    C03.unpackDocPos 0 ≠ Fetch.unpackDocPos 30 0 := by decide

/-- every position in a list is a non-zero uint64: the domain on which the two `Unpack` models agree -/
def DocPosOK (ps : List Nat) : Prop := ∀ p, p ∈ ps → 1 ≤ p ∧ p < 18446744073709551616

/-! ## `seq.GroupDocsOffsets` -/

/-- C03 group `(block, [(index, offset)])` -> Fetch group `{block, offsets, index}` -/
def toFetchGroup (g : Nat × List (Nat × Nat)) : Fetch.Group := ⟨g.1, g.2.map (·.2), g.2.map (·.1)⟩

theorem docPos_addPos_eq_addTo (g : C03.Groups) (b o i : Nat) :
    Fetch.addPos (g.map toFetchGroup) b o i = (C03.addTo g b (i, o)).map toFetchGroup := by
  induction g with
  | nil => rfl
  | cons p rest ih =>
    obtain ⟨b', xs⟩ := p
    simp only [List.map_cons, Fetch.addPos, C03.addTo]
    by_cases hb : b' = b
    · have : (toFetchGroup (b', xs)).block = b := hb
      rw [if_pos this, if_pos hb]
      simp [toFetchGroup]
    · have : ¬ (toFetchGroup (b', xs)).block = b := hb
      rw [if_neg this, if_neg hb, List.map_cons, ih]

theorem docPos_groupGo_eq (ps : List Nat) (hp : DocPosOK ps) (i : Nat) (g : C03.Groups) :
    Fetch.groupGo 30 (g.map toFetchGroup) i ps = (C03.groupGo ps i g).map toFetchGroup := by
  induction ps generalizing i g with
  | nil => rfl
  | cons p rest ih =>
    have hrest : DocPosOK rest := fun x hx => hp x (List.mem_cons_of_mem _ hx)
    have hp0 := hp p (by simp)
    simp only [Fetch.groupGo, C03.groupGo]
    by_cases hnf : p = Fetch.notFound
    · have hnf' : p = C03.docPosNotFound := hnf
      rw [if_pos hnf, if_pos hnf']
      exact ih hrest _ _
    · have hnf' : ¬ p = C03.docPosNotFound := hnf
      rw [if_neg hnf, if_neg hnf', ← cons_docPos_c03Unpack_eq_fetchUnpack p hp0.1 hp0.2, docPos_addPos_eq_addTo]
      exact ih hrest _ _

/-- Go `seq.GroupDocsOffsets(docsPos)`: `SV.Fetch.groupDocsOffsets 30` (Model/FetchIndex.lean, `Group` records with
parallel `offsets` / `index` slices) = `SV.C03.groupDocsOffsets` (Model/C03Docs.lean, `(block, [(index, offset)])`)
through `toFetchGroup`: same groups in the same (first appearance) order, same members in the same order.
Domain: every position is a non-zero uint64 (`DocPosOK`; `DocPosNotFound` is allowed and skipped by both). -/
theorem cons_docPos_fetchGroupDocsOffsets_eq_c03GroupDocsOffsets (ps : List Nat) (hp : DocPosOK ps) :
    Fetch.groupDocsOffsets 30 ps = (C03.groupDocsOffsets ps).map toFetchGroup :=
  docPos_groupGo_eq ps hp 0 []

example : DocPosOK [1, 18446744073709551615, 1073741825] := by
  intro p hp; simp at hp; rcases hp with rfl | rfl | rfl <;> decide

/-! ## `processor.IndexFetch` -/

/-- the Fetch model's total `readDoc block off` built from the C03 model's files: the document at `off` of the payload
of block `block` (an unreadable block reads as the empty document; irrelevant under `hread` below) -/
def readDocOf (offsets : List Nat) (file : List (Nat × List Nat)) (block off : Nat) : C03.DocB :=
  match offsets[block]? with
  | none => []
  | some bo => match C03.lookupFile file bo with
    | none => []
    | some payload => C03.extractDoc payload off

/-- Go `processor.IndexFetch` on the positions `GetDocPos` returned: `SV.C03.indexFetch` (Model/C03Docs.lean; reads
blocks from `offsets` / `file`, outer `none` = read error) = `some` of `SV.Fetch.indexFetch 30` (Model/FetchIndex.lean;
`readDoc` a total parameter, read errors outside the model) with `readDoc := readDocOf offsets file`.
Composition of `C03.indexFetch_eq_map` and `Fetch.indexFetch_spec`.
Domain: every found position is readable (`hread`, the hypothesis of the C03 theorem - the Fetch model has no read
errors) and is a non-zero uint64 (`DocPosOK`). -/
theorem cons_docPos_c03IndexFetch_eq_fetchIndexFetch (offsets : List Nat) (file : List (Nat × List Nat)) (ps : List Nat)
    (hp : DocPosOK ps)
    (hread : ∀ p, p ∈ ps → p ≠ C03.docPosNotFound →
      ∃ bo payload, offsets[(C03.unpackDocPos p).1]? = some bo ∧ C03.lookupFile file bo = some payload) :
    C03.indexFetch offsets file ps = some (Fetch.indexFetch 30 (readDocOf offsets file) ps) := by
  rw [C03.indexFetch_eq_map offsets file ps hread, Fetch.indexFetch_spec]
  congr 1
  apply List.map_congr_left
  intro p hpm
  unfold Fetch.posDoc
  by_cases hnf : p = C03.docPosNotFound
  · have hnf' : p = Fetch.notFound := hnf
    rw [if_pos hnf, if_pos hnf']
  · have hnf' : ¬ p = Fetch.notFound := hnf
    rw [if_neg hnf, if_neg hnf']
    obtain ⟨bo, payload, h1, h2⟩ := hread p hpm hnf
    have hp0 := hp p hpm
    rw [← cons_docPos_c03Unpack_eq_fetchUnpack p hp0.1 hp0.2]
    simp [C03.readAt, readDocOf, h1, h2]

example : ∀ p, p ∈ [(1 : Nat)] → p ≠ C03.docPosNotFound →
    ∃ bo payload, [(0 : Nat)][(C03.unpackDocPos p).1]? = some bo ∧ C03.lookupFile [(0, [1, 0, 0, 0, 7])] bo = some payload := by
  intro p hp _
  simp at hp; subst hp
  exact ⟨0, [1, 0, 0, 0, 7], by decide, by decide⟩

/-- Go `IndexFetch` for one position (`nil` for `DocPosNotFound`): `SV.C03.fetchAt` = `SV.Fetch.posDoc 30` with the
same `readDocOf`, as an Option: the C03 `none` covers both "not found" and "unreadable", so the statement is for
readable positions. -/
theorem cons_docPos_c03FetchAt_eq_fetchPosDoc (offsets : List Nat) (file : List (Nat × List Nat)) (p : Nat)
    (h1 : 1 ≤ p) (h2 : p < 18446744073709551616)
    (hread : p ≠ C03.docPosNotFound →
      ∃ bo payload, offsets[(C03.unpackDocPos p).1]? = some bo ∧ C03.lookupFile file bo = some payload) :
    C03.fetchAt offsets file p = Fetch.posDoc 30 (readDocOf offsets file) p := by
  unfold C03.fetchAt Fetch.posDoc
  by_cases hnf : p = C03.docPosNotFound
  · have hnf' : p = Fetch.notFound := hnf
    rw [if_pos hnf, if_pos hnf']
  · have hnf' : ¬ p = Fetch.notFound := hnf
    rw [if_neg hnf, if_neg hnf']
    obtain ⟨bo, payload, h3, h4⟩ := hread hnf
    rw [← cons_docPos_c03Unpack_eq_fetchUnpack p h1 h2]
    simp [C03.readAt, readDocOf, h3, h4]

end SV.Consistency
