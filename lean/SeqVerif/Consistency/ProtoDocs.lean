import SeqVerif.Model.ProxyRead
import SeqVerif.Model.ProxyAsync
import SeqVerif.Model.SearchDocsLemmas
/-!
# Consistency: `proxyapi.makeProtoDocs` and the paging of the async result handler

* C16 `SV.ProxyRead.protoDocs n docs` (Model/ProxyRead.lean): the `Data` column of `makeProtoDocs(qpr, docs)` for a NON-nil
  iterator - `n = len(qpr.IDs)` entries, the i-th from the i-th `docs.Next()`, the zero document once the stream ended.
  The empty list is Go's `EmptyDocsStream{}` (what `Search` passes when nothing is fetched), NOT the nil interface.
  (Props/C16.lean `c16_protodocs_length`, `c16_response_aligned` are about this definition.)
* C19 `SV.ProxyAsync.protoDocsNil nilSafe ids` (Model/ProxyAsync.lean): the `Id` column of `makeProtoDocs(&resp.QPR, nil)` -
  the NIL iterator of `FetchAsyncSearchResult`; `nilSafe = false` is the code before /repo fix 97fb774 (`docs.Next()` on a nil
  interface panics), `nilSafe = true` the code at HEAD (`if docs != nil { ... }`).  `handlerFetch`, `proxyFetchP paginates`:
  `paginates = true` is HEAD (fix 70c2ffc: `MergeQPRs(.., r.Offset+r.Size, ..)` then `paginateIDs`).
Both models follow /repo HEAD (proxyapi/grpc_v1.go:96-110, proxy/search/async.go:156-157) at `nilSafe = paginates = true`.
-/
namespace SV.Consistency

open SV

/-! ## `makeProtoDocs` -/

theorem protoDocs_empty_stream (n : Nat) : ProxyRead.protoDocs n [] = List.replicate n 0 := by
  induction n with
  | zero => rfl
  | succ n ih => simp only [ProxyRead.protoDocs, ih, List.replicate_succ]

theorem protoDocs_length_any (n : Nat) (docs : List DocsMerge.Doc) : (ProxyRead.protoDocs n docs).length = n := by
  induction n generalizing docs with
  | zero => rfl
  | succ n ih => cases docs <;> simp [ProxyRead.protoDocs, ih]

/-- the response entries `(Id, Data)` of `makeProtoDocs`: `ids` zipped with the data column of the C16 model -/
def protoDocsEntries {ι : Type} (ids : List ι) (docs : List DocsMerge.Doc) : List (ι × Nat) :=
  ids.zip (ProxyRead.protoDocs ids.length docs)

/-- Go `makeProtoDocs`: one `Document` per ID in both models, whatever the stream delivers.
`SV.ProxyAsync.protoDocsNil true` (HEAD) lists exactly the IDs; `SV.ProxyRead.protoDocs` has exactly `len(ids)` entries. -/
theorem cons_protoDocs_one_entry_per_id (ids : List Nat) (docs : List DocsMerge.Doc) :
    ProxyAsync.protoDocsNil true ids = some ((protoDocsEntries ids docs).map (·.1)) ∧
    (protoDocsEntries ids docs).length = ids.length := by
  have hl := protoDocs_length_any ids.length docs
  constructor
  · unfold ProxyAsync.protoDocsNil protoDocsEntries
    rw [if_pos rfl, List.map_fst_zip (by omega)]
  · simp [protoDocsEntries, hl]

/-- Go `makeProtoDocs(qpr, nil)` at HEAD = `makeProtoDocs(qpr, EmptyDocsStream{})`: the async handler's response
(C19 model, nil iterator, repaired) is the sync response of a search that fetched nothing (C16 model, empty stream) -
same IDs in the same order, every `Data` empty.  Conventions: nil stream <-> `protoDocsNil`, ended/empty stream <-> `[]`. -/
theorem cons_protoDocs_nil_eq_empty_stream (ids : List Nat) :
    ProxyAsync.protoDocsNil true ids = some ((protoDocsEntries ids []).map (·.1)) ∧
    (protoDocsEntries ids []).map (·.2) = List.replicate ids.length 0 := by
  refine ⟨(cons_protoDocs_one_entry_per_id ids []).1, ?_⟩
  unfold protoDocsEntries
  rw [protoDocs_empty_stream, List.map_snd_zip (by simp)]

/-- the code BEFORE fix 97fb774 (`nilSafe = false`): with at least one ID the async handler panics (nil-interface method
call), while the same IDs with an empty NON-nil stream are served.  /repo HEAD is `nilSafe = true`; the C16 model never
described the nil case. -/
theorem cons_protoDocs_nil_panic_witness :
    ProxyAsync.protoDocsNil false [7] = none ∧ ProxyAsync.protoDocsNil true [7] = some [7] ∧
    ProxyRead.protoDocs 1 [] = [0] := by decide

/-- the handler at HEAD: documents listed = the IDs of the (paged) merged result, one entry each - restated from
`SV.ProxyAsync.handlerFetch_docs` in the entry form shared with the C16 model -/
theorem cons_protoDocs_handlerFetch_entries (paginates desc : Bool) (offset size hi : Nat)
    (shards : List (List ProxyAsync.ROut)) (d : Bool) (docs : List Nat) (q : Merge.QPR)
    (h : ProxyAsync.handlerFetch true paginates desc offset size hi shards = .ok d docs q) :
    docs = (protoDocsEntries q.ids []).map (·.1) := by
  have h1 := (ProxyAsync.handlerFetch_docs paginates desc offset size hi shards d docs q h).1
  have h2 := (cons_protoDocs_nil_eq_empty_stream q.ids).1
  unfold ProxyAsync.protoDocsNil at h2
  rw [if_pos rfl] at h2
  rw [h1]; exact Option.some.inj h2

/-! ## offset paging of the async result (fix 70c2ffc) vs `paginateIDs` of the sync search -/

/-- Go `paginateIDs(qpr.IDs, r.Offset, r.Size)` in `FetchAsyncSearchResult`: the C19 model writes `(ids.drop offset).take
size` inline; that is C05's `SV.Merge.paginate` (Model/SearchDocs.lean, the Go branches) and C16's `SV.ProxySearch.paginate`
(see also `cons_paginate_merge_eq_proxy`, Consistency/Paginate.lean).  All inputs. -/
theorem cons_protoDocs_asyncPage_eq_paginate (ids : List Nat) (offset size : Nat) :
    (ids.drop offset).take size = (Merge.paginate ids offset size).1 := (Merge.paginate_eq ids offset size).1.symm

/-- Go `FetchAsyncSearchResult` at HEAD, IDs: when the shards `rs` answered, `SV.ProxyAsync.proxyFetchP true` returns the
page `SV.Merge.proxyMerge` (the sync `Ingestor.Search` merge of C05, also the body of `SV.Api.proxySearch`) computes from
the same per-shard results: merge at `offset+size`, then `paginateIDs`.  The destinations differ (`&seq.QPR{}` with a nil
histogram here, `emptyQPR` there) but not in their IDs.  All inputs with at least one answering shard. -/
theorem cons_protoDocs_asyncFetch_ids_eq_proxyMerge (desc : Bool) (offset size hi : Nat)
    (shards : List (List ProxyAsync.ROut)) (r : Bool × Merge.QPR) (rs : List (Bool × Merge.QPR))
    (hg : ProxyAsync.gather shards = .answers (r :: rs)) :
    ∃ q, ProxyAsync.proxyFetchP true desc offset size hi shards = .ok ((r :: rs).all (·.1)) q ∧
      q.ids = (Merge.proxyMerge desc ((r :: rs).map (·.2)) offset size hi).ids := by
  refine ⟨{ Merge.mergeQPRs desc ⟨[], 0, none⟩ ((r :: rs).map (·.2)) (offset + size) hi with
      ids := ((Merge.mergeQPRs desc ⟨[], 0, none⟩ ((r :: rs).map (·.2)) (offset + size) hi).ids.drop offset).take size }, ?_, ?_⟩
  · simp only [ProxyAsync.proxyFetchP, if_true, ProxyAsync.proxyFetch, hg]
  · simp only [Merge.proxyMerge, (Merge.paginate_eq _ offset size).1, Merge.mergeQPRs_ids, Merge.allIds, Merge.emptyQPR]

/-- the code BEFORE fix 70c2ffc (`paginates = false`) ignored the offset: asked for the second ID it returned the first.
/repo HEAD is `paginates = true`, which agrees with the sync page (previous theorem). -/
theorem cons_protoDocs_asyncPage_old_witness :
    ProxyAsync.proxyFetchP false true 1 1 0 [[.ok true ⟨[9, 5], 2, none⟩]] = .ok true ⟨[9], 2, none⟩ ∧
    ProxyAsync.proxyFetchP true true 1 1 0 [[.ok true ⟨[9, 5], 2, none⟩]] = .ok true ⟨[5], 2, none⟩ ∧
    (Merge.proxyMerge true [⟨[9, 5], 2, none⟩] 1 1 0).ids = [5] := by
  decide

end SV.Consistency
