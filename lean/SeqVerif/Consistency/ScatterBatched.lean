import SeqVerif.Consistency.FetchArrangeCons
/-!
# Consistency: reading a docs block in batches (`SV.Fetch.scatterGroupBatched`, Model/FetchIndex.lean) vs the single read
(`scatterGroup` / `indexFetch`, same file) vs the arrange loop (C07 `SV.FetchArrange.arrange`, C04 `SV.Fetch.arrange`)

Go at HEAD (frac/processor/fetch.go `IndexFetch`, disk/docs_reader.go `ReadDocs`): ONE `ReadDocs` per block with all its
offsets, then `res[dst] = docs[src]` - there is no batch size.  `scatterGroupBatched n` is the model of a stepwise
implementation (the mutation the C04 harness is written against); its own theorem `Fetch.scatterGroupBatched_eq` says
every step size `n >= 1` gives the single read.  Cited and lifted here to the whole `IndexFetch`, to the per-position
meaning (`indexFetch_spec`) and to the placement in `Fetcher.FetchDocs` (Consistency/FetchArrangeCons.lean).
-/
namespace SV.Consistency

open SV

/-- `processor.IndexFetch` with every block read in steps of `n` -/
def scatterBatchedIndexFetch {D : Type} (n bits : Nat) (readDoc : Nat → Nat → D) (ps : List Nat) : List (Option D) :=
  (Fetch.groupDocsOffsets bits ps).foldl (Fetch.scatterGroupBatched readDoc n) (List.replicate ps.length none)

/-- cited: `SV.Fetch.scatterGroupBatched_eq` (Model/FetchIndex.lean), one block -/
theorem cons_scatterBatched_group_eq {D : Type} (readDoc : Nat → Nat → D) (n : Nat) (hn : 1 ≤ n) (res : List (Option D))
    (g : Fetch.Group) : Fetch.scatterGroupBatched readDoc n res g = Fetch.scatterGroup readDoc res g :=
  Fetch.scatterGroupBatched_eq readDoc n hn res g

/-- the whole `IndexFetch`: any batch size `n >= 1` gives `SV.Fetch.indexFetch`, hence (by `Fetch.indexFetch_spec`) position
by position the document at the looked-up position or nil.  All inputs. -/
theorem cons_scatterBatched_indexFetch_eq {D : Type} (n : Nat) (hn : 1 ≤ n) (bits : Nat) (readDoc : Nat → Nat → D)
    (ps : List Nat) :
    scatterBatchedIndexFetch n bits readDoc ps = Fetch.indexFetch bits readDoc ps ∧
    scatterBatchedIndexFetch n bits readDoc ps = ps.map (Fetch.posDoc bits readDoc) := by
  have h : scatterBatchedIndexFetch n bits readDoc ps = Fetch.indexFetch bits readDoc ps := by
    unfold scatterBatchedIndexFetch Fetch.indexFetch
    congr 1
    funext res g
    exact Fetch.scatterGroupBatched_eq readDoc n hn res g
  exact ⟨h, by rw [h, Fetch.indexFetch_spec]⟩

/-- `cons_fetchArrange_slot_eq_arrange` for fractions that read their blocks in batches: with per fraction the
requested ids, its `readDoc` and the positions `GetDocPos` returned, the slot of `id` in `Fetcher.FetchDocs`' result
(C04 `SV.Fetch.arrange` over the BATCHED fetches) is the C07 `SV.FetchArrange.arrange` of the answers of the UNBATCHED
fetches - any batch size `n >= 1` gives the same placement.  Domain as in `cons_fetchArrange_slot_eq_arrange`. -/
theorem cons_scatterBatched_slot_eq_arrange {D : Type} (n : Nat) (hn : 1 ≤ n) (bits N : Nat) (rp : Fetch.ID → Nat)
    (fr : List (List Fetch.ID × (Nat → Nat → D) × List Nat)) (id : Fetch.ID) (hk : rp id < N)
    (hinj : ∀ f, f ∈ fr → ∀ x, x ∈ f.1 → rp x = rp id → x = id) :
    (Fetch.arrange N rp (fr.map fun f => (f.1, scatterBatchedIndexFetch n bits f.2.1 f.2.2))).getD (rp id) none =
      FetchArrange.arrange (fetchArrangeAnswersFor id (fr.map fun f => (f.1, Fetch.indexFetch bits f.2.1 f.2.2))) := by
  have hmap : (fr.map fun f => (f.1, scatterBatchedIndexFetch n bits f.2.1 f.2.2)) =
      (fr.map fun f => (f.1, Fetch.indexFetch bits f.2.1 f.2.2)) := by
    apply List.map_congr_left
    intro f _
    rw [(cons_scatterBatched_indexFetch_eq n hn bits f.2.1 f.2.2).1]
  rw [hmap]
  apply cons_fetchArrange_slot_eq_arrange N rp _ id hk
  intro g hg x hx hrx
  obtain ⟨f, hf, rfl⟩ := List.mem_map.mp hg
  exact hinj f hf x hx hrx

example : (1 : Nat) ≤ 3 := by decide

/-! ## batch size 0 -/

theorem scatterBatched_pieces_zero {α : Type} (fuel : Nat) (l : List α) : (Fetch.piecesOf 0 fuel l).flatten = [] := by
  induction fuel generalizing l with
  | zero => rfl
  | succ fuel ih =>
    cases l with
    | nil => rfl
    | cons x xs =>
      unfold Fetch.piecesOf
      rw [List.flatten_cons, List.take_zero, List.drop_zero, ih]
      rfl

/-- the model ALLOWS step size 0 (outside `scatterGroupBatched_eq`'s hypothesis): every step is empty, the fuel runs out
and nothing is written - the block's documents are all missing.  Go has no step size at all (one `ReadDocs` per block,
frac/processor/fetch.go), so `n = 0` is unreachable; the value 0 is only meaningful as the degenerate mutation. -/
theorem cons_scatterBatched_zero_writes_nothing {D : Type} (readDoc : Nat → Nat → D) (res : List (Option D))
    (g : Fetch.Group) : Fetch.scatterGroupBatched readDoc 0 res g = res := by
  unfold Fetch.scatterGroupBatched
  rw [Fetch.foldl_pieces, scatterBatched_pieces_zero]
  rfl

/-- concrete disagreement at `n = 0`: the single read stores the document, the 0-step read does not -/
theorem cons_scatterBatched_zero_witness :
    Fetch.scatterGroupBatched (fun _ o => o) 0 [none] ⟨0, [7], [0]⟩ = [none] ∧
    Fetch.scatterGroup (fun _ o => o) [none] ⟨0, [7], [0]⟩ = [some 7] ∧
    Fetch.scatterGroupBatched (fun _ o => o) 1 [none] ⟨0, [7], [0]⟩ = [some 7] := by decide

end SV.Consistency
