import SeqVerif.Model.DedupLemmas
import SeqVerif.Model.WPIndexLemmas
import SeqVerif.Model.FetchActive
import SeqVerif.Model.ActiveConc
/-!
# Consistency of the four models of `frac.DocsPositions` / `DocBlocks` (C17, C01, C04, C07)

Go: `frac/active_docs_positions.go` (`SetMultiple`, `Get`, `GetSync`), `DocBlocks.Append`,
`activeFetchIndex.GetBlocksOffsets`, and the position part of `metaDataCollector.AppendMeta`.

| model | map representation | position | accepted ids |
|---|---|---|---|
| `SV.Collector.setMultiple` (C17) | association list, newest first, `List.lookup` | `(block, offset)` | `List ID` |
| `SV.WPath.setMultiple` (C01) | association list, oldest first, `lookupPos` = `find?` | `(block, offset)` | `List Bool` flags (`appendedIDs`) |
| `SV.Fetch.setMultiple` (C04) | association list, oldest first, `find?`, `mapGet` with sentinel | packed `Nat` | not returned |
| `SV.ActiveConc.setMultiple` (C07) | association list, newest first, `List.lookup` | `(block, index in bulk)` | `List Doc` |

All statements compare the maps *as functions id -> Option position* (`∀ id, lookup ... = lookup ...`): the
representation change is the read function of each model.
-/
namespace SV.Consistency

open SV.Collector (DocsPositions DocPos)

/-! ## representation changes -/

/-- C17's `DocsPositions` read as a function (`DocsPositions.Get` with `Option` for `DocPosNotFound`) -/
def mapOfCollector (dp : DocsPositions) : SV.Collector.ID → Option DocPos := fun id => dp.lookup id

/-- C01's position list read as a function -/
def mapOfWPath (ps : List (SV.WPath.DocID × SV.WPath.Pos)) : SV.WPath.DocID → Option SV.WPath.Pos :=
  fun id => SV.WPath.lookupPos ps id

/-- C17 / C01 / C07 id pair as the C04 record -/
def toFetchID (p : Nat × Nat) : SV.Fetch.ID := ⟨p.1, p.2⟩

/-- C04's position list read as a function (`find?`, no sentinel) -/
def mapOfFetch (m : List (SV.Fetch.ID × Nat)) : Nat × Nat → Option Nat :=
  fun id => (m.find? fun x => x.1 = toFetchID id).map (·.2)

theorem toFetchID_inj (a b : Nat × Nat) : toFetchID a = toFetchID b ↔ a = b := by
  cases a; cases b; simp [toFetchID]

/-! ## small facts on the two read functions -/

theorem lookup_cons_ite (dp : DocsPositions) (k id : SV.Collector.ID) (p : DocPos) :
    List.lookup id ((k, p) :: dp) = if id = k then some p else dp.lookup id := by
  by_cases h : id = k
  · subst h; simp [List.lookup]
  · rw [if_neg h]; exact SV.Collector.lookup_cons_ne dp k id p h

theorem lookupPos_append_one (ps : List (SV.WPath.DocID × SV.WPath.Pos)) (k id : SV.WPath.DocID) (p : SV.WPath.Pos) :
    SV.WPath.lookupPos (ps ++ [(k, p)]) id =
      (SV.WPath.lookupPos ps id).or (if id = k then some p else none) := by
  unfold SV.WPath.lookupPos
  rw [List.find?_append]
  cases h : ps.find? (fun q => decide (q.1 = id)) with
  | some x => simp
  | none =>
    by_cases hk : k = id
    · subst hk; simp [List.find?]
    · have : ¬ id = k := fun e => hk e.symm
      simp [List.find?, hk, this]

/-! ## `SetMultiple`: C17 vs C01 -/

/-- Go `DocsPositions.SetMultiple`.  `SV.Collector.setMultiple dp ids pos` (C17, Model/Collector.lean) vs
`SV.WPath.setMultiple ps (ids.zip pos)` (C01, Model/WPIndex.lean).  Representation change: both maps are read as
functions (`mapOfCollector`, `mapOfWPath`); C17 takes two parallel slices, C01 the zipped list; C01 reports the
accepted ids as flags that `SV.WPath.appendedIDs` turns into the id list.  No domain restriction: for *any* two
association lists that denote the same map the results denote the same map and the accepted-id lists are equal
(including the case `len(pos) < len(ids)`, where Go would panic and both models stop). -/
theorem cons_setMultiple_collector_eq_wpath (dp : DocsPositions) (ps : List (SV.WPath.DocID × SV.WPath.Pos))
    (ids : List SV.Collector.ID) (pos : List DocPos) (h : mapOfCollector dp = mapOfWPath ps) :
    mapOfCollector (SV.Collector.setMultiple dp ids pos).1 = mapOfWPath (SV.WPath.setMultiple ps (ids.zip pos)).1 ∧
    (SV.Collector.setMultiple dp ids pos).2 =
      SV.WPath.appendedIDs (ids.zip pos) (SV.WPath.setMultiple ps (ids.zip pos)).2 := by
  induction ids generalizing dp ps pos with
  | nil => simp [SV.Collector.setMultiple, SV.WPath.setMultiple, SV.WPath.appendedIDs, h]
  | cons i ids ih =>
    cases pos with
    | nil => simp [SV.Collector.setMultiple, SV.WPath.setMultiple, SV.WPath.appendedIDs, h]
    | cons p pos =>
      have hi : dp.lookup i = SV.WPath.lookupPos ps i := congrFun h i
      simp only [List.zip_cons_cons, SV.Collector.setMultiple, SV.WPath.setMultiple]
      cases hl : SV.WPath.lookupPos ps i with
      | none =>
        rw [hl] at hi
        simp only [hi]
        have h' : mapOfCollector ((i, p) :: dp) = mapOfWPath (ps ++ [(i, p)]) := by
          funext id
          simp only [mapOfCollector, mapOfWPath, lookup_cons_ite, lookupPos_append_one]
          have := congrFun h id
          simp only [mapOfCollector, mapOfWPath] at this
          by_cases hid : id = i
          · subst hid; simp [hl]
          · simp [hid, this]
        obtain ⟨a, b⟩ := ih ((i, p) :: dp) (ps ++ [(i, p)]) pos h'
        exact ⟨a, by simp [SV.WPath.appendedIDs, b]⟩
      | some q =>
        rw [hl] at hi
        simp only [hi]
        obtain ⟨a, b⟩ := ih dp ps pos h
        by_cases hq : q = p
        · simp only [hq, if_true]
          exact ⟨a, by simp [SV.WPath.appendedIDs, b]⟩
        · simp only [hq, if_false]
          exact ⟨a, by simp [SV.WPath.appendedIDs, b]⟩

/-- the empty maps of `NewSyncDocsPositions` agree (non-vacuity of the hypothesis above) -/
example : mapOfCollector [] = mapOfWPath [] := by funext id; rfl

/-! ## `SetMultiple`: C17 vs C04 -/

theorem find_append_one (m : List (SV.Fetch.ID × Nat)) (e : SV.Fetch.ID × Nat) (k : SV.Fetch.ID) :
    ((m ++ [e]).find? fun x => x.1 = k) = (m.find? fun x => x.1 = k).or (if e.1 = k then some e else none) := by
  rw [List.find?_append]
  cases m.find? (fun x => decide (x.1 = k)) with
  | some x => simp
  | none => by_cases h : e.1 = k <;> simp [List.find?, h]

/-- Go `DocsPositions.SetMultiple`, the map only.  `SV.Collector.setMultiple` (C17) vs `SV.Fetch.setMultiple` (C04,
Model/FetchActive.lean; it stores packed positions and does not return the accepted ids).  Representation change:
ids through `toFetchID`, every position through an arbitrary packing function `f` (instantiated with
`seq.PackDocPos` below); maps compared as functions.  Domain: `pos.length = ids.length` is *not* needed (both stop at
the shorter slice through `zip`). -/
theorem cons_setMultiple_collector_eq_fetch (f : DocPos → Nat) (dp : DocsPositions) (m : List (SV.Fetch.ID × Nat))
    (ids : List SV.Collector.ID) (pos : List DocPos)
    (h : ∀ id, (mapOfCollector dp id).map f = mapOfFetch m id) :
    ∀ id, (mapOfCollector (SV.Collector.setMultiple dp ids pos).1 id).map f =
      mapOfFetch (SV.Fetch.setMultiple m ((ids.zip pos).map fun e => (toFetchID e.1, f e.2))) id := by
  induction ids generalizing dp m pos with
  | nil => simpa [SV.Collector.setMultiple, SV.Fetch.setMultiple] using h
  | cons i ids ih =>
    cases pos with
    | nil => simpa [SV.Collector.setMultiple, SV.Fetch.setMultiple] using h
    | cons p pos =>
      have hi := h i
      simp only [mapOfCollector, mapOfFetch] at hi
      simp only [List.zip_cons_cons, List.map_cons, SV.Collector.setMultiple, SV.Fetch.setMultiple]
      cases hl : dp.lookup i with
      | none =>
        rw [hl] at hi
        have hnone : (m.find? fun x => x.1 = toFetchID i) = none := by
          cases hf : m.find? (fun x => decide (x.1 = toFetchID i)) with
          | none => rfl
          | some x => rw [hf] at hi; simp at hi
        simp only [hnone, Option.isSome_none, Bool.false_eq_true, if_false]
        apply ih
        intro id
        have := h id
        simp only [mapOfCollector, mapOfFetch] at this ⊢
        rw [lookup_cons_ite, find_append_one]
        by_cases hid : id = i
        · subst hid; simp [hnone]
        · have hne : ¬ toFetchID i = toFetchID id := fun e => hid ((toFetchID_inj _ _).mp e).symm
          simp [hid, hne, this]
      | some q =>
        rw [hl] at hi
        have hsome : ((m.find? fun x => x.1 = toFetchID i)).isSome = true := by
          cases hf : m.find? (fun x => decide (x.1 = toFetchID i)) with
          | none => rw [hf] at hi; simp at hi
          | some x => rfl
        simp only [hsome, if_true]
        by_cases hq : q = p
        · simp only [hq, if_true]; exact ih dp m pos h
        · simp only [hq, if_false]; exact ih dp m pos h

/-- `DocsPositions.Get`: `SV.Fetch.mapGet` (C04, `DocPosNotFound` sentinel) vs the `Option` reads of C17 / C01:
Option <-> sentinel is `getD notFound`. -/
theorem cons_get_fetch_eq_option (m : List (SV.Fetch.ID × Nat)) (id : Nat × Nat) :
    SV.Fetch.mapGet m (toFetchID id) = (mapOfFetch m id).getD SV.Fetch.notFound := by
  unfold SV.Fetch.mapGet mapOfFetch
  cases m.find? (fun e => decide (e.1 = toFetchID id)) <;> rfl

/-- `seq.PackDocPos`: `SV.Collector.packDocPos` (C17) is `SV.Fetch.packDocPos` (C04) at `docOffsetBits = 30`. -/
theorem cons_packDocPos_collector_eq_fetch (p : DocPos) :
    SV.Collector.packDocPos p = SV.Fetch.packDocPos SV.Collector.docOffsetBits p.1 p.2 := rfl

/-- `DocsPositions.Get` after `SetMultiple`, end to end C17 -> C04: what `mapGet` answers on the C04 map is the
packed C17 position, `DocPosNotFound` for an absent id. -/
theorem cons_get_after_setMultiple_collector_eq_fetch (dp : DocsPositions) (m : List (SV.Fetch.ID × Nat))
    (ids : List SV.Collector.ID) (pos : List DocPos)
    (h : ∀ id, (mapOfCollector dp id).map SV.Collector.packDocPos = mapOfFetch m id) (id : Nat × Nat) :
    SV.Fetch.mapGet (SV.Fetch.setMultiple m
        ((ids.zip pos).map fun e => (toFetchID e.1, SV.Fetch.packDocPos 30 e.2.1 e.2.2))) (toFetchID id) =
      (((SV.Collector.setMultiple dp ids pos).1.lookup id).map SV.Collector.packDocPos).getD SV.Fetch.notFound := by
  rw [cons_get_fetch_eq_option]
  have := cons_setMultiple_collector_eq_fetch SV.Collector.packDocPos dp m ids pos h id
  simp only [mapOfCollector] at this
  rw [this]
  rfl

example : ∀ id, (mapOfCollector [] id).map SV.Collector.packDocPos = mapOfFetch [] id := by intro id; rfl

/-! ## `SetMultiple`: C07 vs C17 -/

/-- Go `DocsPositions.SetMultiple`.  `SV.ActiveConc.setMultiple blk ds k pos` (C07, Model/ActiveConc.lean) vs
`SV.Collector.setMultiple` (C17).  Representation change: C07 abstracts the position of the `j`-th document of a
bulk to `(blk, k + j)` (index in the bulk instead of byte offset) and carries whole documents instead of ids, so it is
C17's function on `ids = ds.map Doc.id`, `pos = [(blk, k), (blk, k+1), ...]`.  The maps are then *equal as lists* and
the accepted documents map to the accepted ids.  No domain restriction. -/
theorem cons_setMultiple_activeconc_eq_collector (blk : Nat) (ds : List SV.ActiveConc.Doc) (k : Nat)
    (pos : List (SV.ActiveConc.ID × (Nat × Nat))) :
    (SV.ActiveConc.setMultiple blk ds k pos).1 =
      (SV.Collector.setMultiple pos (ds.map SV.ActiveConc.Doc.id) ((List.range' k ds.length).map fun j => (blk, j))).1 ∧
    (SV.ActiveConc.setMultiple blk ds k pos).2.map SV.ActiveConc.Doc.id =
      (SV.Collector.setMultiple pos (ds.map SV.ActiveConc.Doc.id) ((List.range' k ds.length).map fun j => (blk, j))).2 := by
  induction ds generalizing k pos with
  | nil => simp [SV.ActiveConc.setMultiple, SV.Collector.setMultiple]
  | cons d ds ih =>
    simp only [SV.ActiveConc.setMultiple, List.map_cons, List.length_cons, List.range'_succ, SV.Collector.setMultiple]
    cases hl : List.lookup d.id pos with
    | none =>
      simp only []
      obtain ⟨a, b⟩ := ih (k + 1) ((d.id, (blk, k)) :: pos)
      exact ⟨a, by simp [b]⟩
    | some q =>
      simp only []
      obtain ⟨a, b⟩ := ih (k + 1) pos
      by_cases hq : q = (blk, k)
      · simp only [hq, if_true]; exact ⟨a, by simp [b]⟩
      · simp only [hq, if_false]; exact ⟨a, b⟩

/-- `SetMultiple` commutes with an injective renaming of positions: C07's `(block, index in bulk)` and C17's
`(block, byte offset)` are two such namings of the same documents (offsets of non-nested documents of one block are
strictly increasing).  Injectivity is needed for the `savedPos == pos[i]` test only. -/
theorem cons_setMultiple_collector_rename (f : DocPos → DocPos) (hf : ∀ a b, f a = f b → a = b)
    (dp : DocsPositions) (ids : List SV.Collector.ID) (pos : List DocPos) :
    (SV.Collector.setMultiple (dp.map fun e => (e.1, f e.2)) ids (pos.map f)).1 =
      (SV.Collector.setMultiple dp ids pos).1.map (fun e => (e.1, f e.2)) ∧
    (SV.Collector.setMultiple (dp.map fun e => (e.1, f e.2)) ids (pos.map f)).2 = (SV.Collector.setMultiple dp ids pos).2 := by
  have hlk : ∀ (dp : DocsPositions) id, List.lookup id (dp.map fun e => (e.1, f e.2)) = (dp.lookup id).map f := by
    intro dp id
    induction dp with
    | nil => rfl
    | cons e dp ih =>
      obtain ⟨k, p⟩ := e
      simp only [List.map_cons, lookup_cons_ite, ih]
      split <;> rfl
  induction ids generalizing dp pos with
  | nil => simp [SV.Collector.setMultiple]
  | cons i ids ih =>
    cases pos with
    | nil => simp [SV.Collector.setMultiple]
    | cons p pos =>
      simp only [List.map_cons, SV.Collector.setMultiple, hlk]
      cases hl : dp.lookup i with
      | none =>
        simp only [Option.map_none]
        obtain ⟨a, b⟩ := ih ((i, p) :: dp) pos
        simp only [List.map_cons] at a b
        exact ⟨a, by rw [b]⟩
      | some q =>
        simp only [Option.map_some]
        obtain ⟨a, b⟩ := ih dp pos
        by_cases hq : q = p
        · subst hq; simp only [if_true]; exact ⟨a, by rw [b]⟩
        · have : ¬ f q = f p := fun e => hq (hf _ _ e)
          simp only [hq, this, if_false]; exact ⟨a, b⟩

example : ∀ a b : DocPos, (fun p : DocPos => (p.1, p.2 * 7 + 4)) a = (fun p : DocPos => (p.1, p.2 * 7 + 4)) b → a = b := by
  intro a b h
  obtain ⟨a1, a2⟩ := a
  obtain ⟨b1, b2⟩ := b
  simp only [Prod.mk.injEq] at h ⊢
  omega

/-! ## `AppendMeta`: the positions of the metas of one bulk (C01 vs C17) -/

/-- a C17 meta as the decoded record C01 works on: a token is its `key:value` bytes -/
def toDocMeta (m : SV.Collector.Meta) : SV.WPath.DocMeta := ⟨m.id, m.size, m.tokens.map SV.Collector.MetaToken.bytes⟩

theorem docPositions_some_eq_docsFrom (bi : Nat) (ms : List SV.Collector.Meta) (off : Nat) (last : DocPos) :
    SV.WPath.docPositions bi off (some last) (ms.map toDocMeta) =
      (SV.Collector.docsFrom bi ms off last).map fun d => (d.1, d.2.1) := by
  induction ms generalizing off last with
  | nil => rfl
  | cons m ms ih =>
    by_cases hm : m.size = 0
    · have := ih off last
      simp [SV.WPath.docPositions, SV.Collector.docsFrom, toDocMeta, hm, this, -List.map_map]
    · have := ih (off + m.size + 4) (bi, off)
      simp [SV.WPath.docPositions, SV.Collector.docsFrom, toDocMeta, hm, this, -List.map_map]

/-- Go `metaDataCollector.AppendMeta` (positions: `nextDocOffset += Size + 4`, a `Size == 0` meta re-uses
`Positions[len-1]`).  `SV.WPath.docPositions bi 0 none` (C01, Model/WPIndex.lean) vs the specification view
`SV.Collector.docsFrom` (C17).  Representation change: `toDocMeta`, projection of `(id, pos, tokens)` to `(id, pos)`.
Unconditional form: C01 starts "no previous position" as `(bi, 0)`. -/
theorem cons_appendMeta_wpath_eq_collector_docsFrom (bi : Nat) (ms : List SV.Collector.Meta) (off : Nat) :
    SV.WPath.docPositions bi off none (ms.map toDocMeta) =
      (SV.Collector.docsFrom bi ms off (bi, 0)).map fun d => (d.1, d.2.1) := by
  cases ms with
  | nil => rfl
  | cons m ms =>
    by_cases hm : m.size = 0
    · have := docPositions_some_eq_docsFrom bi ms off (bi, 0)
      simp [SV.WPath.docPositions, SV.Collector.docsFrom, toDocMeta, hm, this, -List.map_map]
    · have := docPositions_some_eq_docsFrom bi ms (off + m.size + 4) (bi, off)
      simp [SV.WPath.docPositions, SV.Collector.docsFrom, toDocMeta, hm, this, -List.map_map]

theorem docsFrom_last_irrelevant (b : Nat) (ms : List SV.Collector.Meta) (off : Nat) (l l' : DocPos)
    (h : SV.Collector.FirstReal ms) : SV.Collector.docsFrom b ms off l = SV.Collector.docsFrom b ms off l' := by
  cases ms with
  | nil => rfl
  | cons m ms =>
    have hm : m.size ≠ 0 := h
    simp [SV.Collector.docsFrom, hm]

/-- Go `metaDataCollector.AppendMeta` over a bulk: `SV.WPath.docPositions` (C01) vs the slices `IDs` / `Positions` of
`SV.Collector.collect` (C17, the statement-level model).  Domain: the first meta of the bulk is not nested
(`FirstReal`; otherwise Go panics on `Positions[-1]` and the two models chose different dummy values, see the
witness below). -/
theorem cons_appendMeta_wpath_eq_collector (bi : Nat) (ms : List SV.Collector.Meta) (h : SV.Collector.FirstReal ms) :
    SV.WPath.docPositions bi 0 none (ms.map toDocMeta) =
      (SV.Collector.collect bi ms).ids.zip (SV.Collector.collect bi ms).positions := by
  obtain ⟨hinv, hview, -, -, -⟩ := SV.Collector.collect_spec bi ms
  rw [cons_appendMeta_wpath_eq_collector_docsFrom, docsFrom_last_irrelevant bi ms 0 (bi, 0) (0, 0) h]
  rw [← SV.Collector.rview_ids _ hinv.1, ← SV.Collector.rview_positions _ hinv.1, hview]
  show _ = List.zip ((SV.Collector.docsFrom bi ms 0 (0, 0)).map _) ((SV.Collector.docsFrom bi ms 0 (0, 0)).map _)
  rw [List.zip_map']

example : SV.Collector.FirstReal [⟨(1, 1), 3, [], 0⟩, ⟨(1, 1), 0, [], 0⟩] := by simp [SV.Collector.FirstReal]

/-- outside that domain the two models differ (Go: index-out-of-range panic in `AppendMeta`, so neither value is
observable): a bulk for block 1 that starts with a nested meta gets `(1,0)` in C01 and `(0,0)` in C17. -/
theorem cons_appendMeta_wpath_ne_collector_nestedFirst_witness :
    SV.WPath.docPositions 1 0 none ([⟨(5, 5), 0, [], 0⟩].map toDocMeta) = [((5, 5), (1, 0))] ∧
    (SV.Collector.collect 1 [⟨(5, 5), 0, [], 0⟩]).positions = [(0, 0)] ∧
    SV.Collector.bulkPanics [⟨(5, 5), 0, [], 0⟩] = true := by decide

/-! ## `Filter(appended)` : which ids survive (C17 vs C07 vs C01) -/

/-- Go `metaDataCollector.Filter` (`getIndexesOfIntercept`): `SV.Collector.filter` keeps exactly the ids that occur in
`appended`, in order - the rule C07 (`wPos`: `w.docs.filter fun d => (r.2.map Doc.id).contains d.id`) and C01
(`entryPostings`: `if m.id ∈ app`) apply directly.  Domain: aligned slices (`WF`, holds for every `collect`). -/
theorem cons_filter_collector_ids (c : SV.Collector.Collector) (app : List SV.Collector.ID) (h : SV.Collector.WF c) :
    (SV.Collector.filter c app).ids = c.ids.filter fun i => decide (i ∈ app) := by
  obtain ⟨hv, hwf, -⟩ := SV.Collector.filter_view c app h
  rw [← SV.Collector.view_ids _ hwf, hv, ← SV.Collector.view_ids c h, List.filter_map]
  rfl

example : SV.Collector.WF (SV.Collector.collect 0 [⟨(1, 1), 3, [], 0⟩]) := (SV.Collector.collect_spec _ _).1.1

/-- the same rule in C07's `wPos` step, on ids -/
theorem cons_filter_activeconc_eq_collector (docs : List SV.ActiveConc.Doc) (acc : List SV.ActiveConc.Doc) :
    (docs.filter fun d => (acc.map SV.ActiveConc.Doc.id).contains d.id).map SV.ActiveConc.Doc.id =
      (docs.map SV.ActiveConc.Doc.id).filter fun i => decide (i ∈ acc.map SV.ActiveConc.Doc.id) := by
  rw [List.filter_map]
  congr 1
  apply List.filter_congr
  intro d _
  simp

theorem setMultiple_sublist (dp : DocsPositions) (ids : List SV.Collector.ID) (ps : List DocPos) :
    (SV.Collector.setMultiple dp ids ps).2.Sublist ids := by
  induction ids generalizing dp ps with
  | nil => simp [SV.Collector.setMultiple]
  | cons i ids ih =>
    cases ps with
    | nil => simp [SV.Collector.setMultiple]
    | cons p ps =>
      simp only [SV.Collector.setMultiple]
      split
      · exact (ih _ _).cons_cons _
      · split
        · exact (ih _ _).cons_cons _
        · exact (ih _ _).cons _

/-- Go `appendWorker`: `if len(appendedIDs) != len(collector.IDs) { collector.Filter(appendedIDs) }`.  C17's
`dedupCollector` keeps the `if`; C07 (`wPos`) and C01 (`indexEntry`) filter unconditionally.  They agree: when nothing
was rejected the filter is the identity on the ids. -/
theorem cons_dedupCollector_ids_unconditional (a : SV.Collector.Active) (ms : List SV.Collector.Meta) :
    (SV.Collector.dedupCollector a ms).1.ids =
      (SV.Collector.collect a.blocks.length ms).ids.filter fun i => decide (i ∈
        (SV.Collector.setMultiple a.dp (SV.Collector.collect a.blocks.length ms).ids
          (SV.Collector.collect a.blocks.length ms).positions).2) := by
  have hwf := (SV.Collector.collect_spec a.blocks.length ms).1.1
  simp only [SV.Collector.dedupCollector]
  split
  · exact cons_filter_collector_ids _ _ hwf
  · rename_i hlen
    have hlen' := Decidable.not_not.mp hlen
    have := (setMultiple_sublist a.dp (SV.Collector.collect a.blocks.length ms).ids
      (SV.Collector.collect a.blocks.length ms).positions).eq_of_length hlen'
    rw [this]
    exact (List.filter_eq_self.mpr (fun x hx => by simpa using hx)).symm

/-! ## `DocBlocks.Append`: block numbering -/

/-- Go `blockIndex := active.DocBlocks.Append(pos)` = the number of blocks appended before, in all four models:
C17 (`indexBulk`: `collect a.blocks.length`), C01 (`indexEntry`: `docPositions ix.blocks.length`), C04
(`Active.append`: `packDocPos bits st.docBlocks.length`), C07 (`wBlock`: `blk := s.sh.blocks`); each appends one
entry.  Stated as: one step keeps the four block counters equal. -/
theorem cons_blocksAppend_numbering (a : SV.Collector.Active) (ms : List SV.Collector.Meta)
    (cd : SV.WPath.IdxCodec) (ix : SV.WPath.Index) (e : SV.WPath.Entry)
    (st : SV.Fetch.Active) (bits off : Nat) (payload : List Nat) (entries : List (SV.Fetch.ID × Nat))
    (c : SV.ActiveConc.Cfg) (s s' : SV.ActiveConc.St) (i : Nat) (hs : SV.ActiveConc.step c s (.wBlock i) = some s')
    (h1 : ix.blocks.length = a.blocks.length) (h2 : st.docBlocks.length = a.blocks.length)
    (h3 : s.sh.blocks = a.blocks.length) :
    (SV.WPath.indexEntry cd ix e).blocks.length = (SV.Collector.indexBulk a ms).blocks.length ∧
    (st.append bits off payload entries).docBlocks.length = (SV.Collector.indexBulk a ms).blocks.length ∧
    s'.sh.blocks = (SV.Collector.indexBulk a ms).blocks.length ∧ (s'.ws i).blk = a.blocks.length := by
  simp only [SV.ActiveConc.step] at hs
  split at hs
  · cases hs
    simp [SV.WPath.indexEntry, SV.Collector.indexBulk, SV.Fetch.Active.append, SV.ActiveConc.setW, h1, h2, h3]
  · cases hs

/-! ## `activeFetchIndex.GetBlocksOffsets` (C04 vs C07 vs C01) -/

theorem activeBlocksOffset_isSome (live : List Nat) (s num : Nat) :
    (SV.Fetch.activeBlocksOffset (live.take s) live num).isSome = decide (num < live.length) := by
  unfold SV.Fetch.activeBlocksOffset
  by_cases hs : num ≥ (live.take s).length
  · rw [if_pos hs]
    by_cases h : num < live.length <;> simp [h]
  · rw [if_neg hs]
    have hlt : num < (live.take s).length := Nat.lt_of_not_le hs
    have : num < live.length := by
      rw [List.length_take] at hlt
      omega
    rw [List.length_take] at hlt
    simp [hlt, this]

/-- Go `activeFetchIndex.GetBlocksOffsets` after the repair (re-read `DocBlocks` when the number is past the
provider's copy).  `SV.Fetch.activeBlocksOffset` (C04; `none` = index-out-of-range panic) vs `SV.ActiveConc.fetchOne
true` (C07; `.panic`).  Representation change: C07 keeps only the *lengths* of the live table and of the copy; the copy
is any prefix `live.take s`. -/
theorem cons_getBlocksOffsets_activeconc_eq_fetch (sh : SV.ActiveConc.Sh) (live : List Nat) (s : Nat) (id : SV.ActiveConc.ID)
    (hlive : sh.blocks = live.length) :
    SV.ActiveConc.fetchOne true sh (live.take s).length id =
      match sh.pos.lookup id with
      | none => .notFound
      | some (b, off) => if (SV.Fetch.activeBlocksOffset (live.take s) live b).isSome then .found b off else .panic := by
  unfold SV.ActiveConc.fetchOne
  cases sh.pos.lookup id with
  | none => rfl
  | some p =>
    obtain ⟨b, off⟩ := p
    simp only [activeBlocksOffset_isSome, hlive, Bool.true_and]
    by_cases h : b < live.length
    · simp [h]
    · simp [h]
      omega

example : (⟨3, [], [], [], fun _ => [], [], [], false, none, 0, []⟩ : SV.ActiveConc.Sh).blocks = [10, 20, 30].length := rfl

/-- the code before the repair (`fetchOne false`): only the provider's copy is consulted - C04 states this form as
`(live.take s)[num]?` in `activeBlocksOffset_old_witness`. -/
theorem cons_getBlocksOffsets_old_activeconc_eq_fetch (sh : SV.ActiveConc.Sh) (snap : List Nat) (id : SV.ActiveConc.ID) :
    SV.ActiveConc.fetchOne false sh snap.length id =
      match sh.pos.lookup id with
      | none => .notFound
      | some (b, off) => if (snap[b]?).isSome then .found b off else .panic := by
  unfold SV.ActiveConc.fetchOne
  cases sh.pos.lookup id with
  | none => rfl
  | some p =>
    obtain ⟨b, off⟩ := p
    by_cases h : b < snap.length <;> simp [h]

/-- C01's `fetch` reads `ix.blocks[p.1]?` on the live table: C04's `GetBlocksOffsets` with the copy = the live table -/
theorem cons_getBlocksOffsets_wpath_eq_fetch (live : List Nat) (num : Nat) :
    SV.Fetch.activeBlocksOffset live live num = live[num]? := by
  unfold SV.Fetch.activeBlocksOffset
  split <;> rfl

end SV.Consistency
