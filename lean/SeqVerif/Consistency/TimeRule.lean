import SeqVerif.Base.GoInt
import SeqVerif.Model.BulkTime
import SeqVerif.Model.FracInfo
import SeqVerif.Model.Async
import SeqVerif.Model.ProxyRead
import SeqVerif.Model.C03Codec
/-!
# Model consistency, topic (d) part 1: the document time rule, `time.Time.Sub`, int64/uint64 re-interpretation,
`seq.TimeToMID` / `MID.Time()`

Separately written Lean definitions of the same Go function, proved equal (or shown to differ on a witness).

Shared, NOT duplicates (the later module imports the earlier one and reuses the definition):
* `SV.BulkTime` (Model/BulkTime.lean) opens `SV.TimeRule` (Model/TimeRule.lean) and reuses `subSat`, `negWrap`,
  `documentDelayed`, `documentDelayedFixed`, `minI`, `maxI`; it does not re-define `documentDelayed`.
* `SV.Bulk.metasFor` (Model/BulkMeta.lean) calls `SV.BulkTime.docMID`; Model/BulkProc.lean, Model/Bulk.lean and
  Model/BulkCompose.lean carry the MID as an opaque `Nat` (`Meta.mid`) and have no time rule of their own.
* `SV.FracInfo` (Model/FracInfo.lean) opens `SV.Dist` and reuses `midTime`, `tsub`, `midToIndex`, `isIntersecting`.

Separately written (this file):
| Go                                   | Lean definitions                                                              |
|--------------------------------------|-------------------------------------------------------------------------------|
| `time.Time.Sub` (saturating)         | `TimeRule.subSat`, `Dist.tsub`, `Go.timeSub`                                  |
| `math.MinInt64/MaxInt64` of Duration | `TimeRule.minI/maxI`, `Dist.minDur/maxDur`                                    |
| `int64(x)` of a uint64               | `Dist.toInt64`, `ProxyRead.toInt64`, `Async.toI64`, `C03.delta64`, `Go.wrapI64` |
| `uint64(x)` of an int64              | `Dist.toUint64`, `Async.toU64`, `Go.wrapU64`                                  |
| `Time.UnixNano` (int64 wrap)         | `BulkTime.wrap64`, `Go.wrapI64` / `Go.timeUnixNano`, `Dist.toInt64 ∘ toUint64` |
| `seq.TimeToMID`                      | `BulkTime.timeToMID`, the GoInt reading `wrapU64 (tdiv (timeUnixNano t) 10^6)` |
| `MID.Time()`                         | `Dist.midTime`, `Go.timeUnixMilli (wrapI64 m)`                                |
| `documentDelayed` (proxy/bulk)       | `TimeRule.documentDelayed` (before 5825a86), `BulkTime.documentDelayedRepaired` (HEAD), `TimeRule.documentDelayedFixed` (spec) |
-/
namespace SV.Consistency
open SV

/-! ## `time.Time.Sub` -/

/-- Go `time.Time.Sub` (saturating at the int64 range of `Duration`).  `SV.TimeRule.subSat` (Model/TimeRule.lean,
C10) tests the lower bound first, `SV.Dist.tsub` (Model/Dist.lean, C14) the upper bound first.  Same
representation (`Int` ns), equal on all inputs. -/
theorem cons_time_subSat_eq_tsub (t u : Int) : TimeRule.subSat t u = Dist.tsub t u := by
  unfold TimeRule.subSat Dist.tsub TimeRule.minI TimeRule.maxI
  split <;> split <;> (try split) <;> omega

/-- Go `time.Time.Sub`: `SV.TimeRule.subSat` (C10) vs the translator prelude `SV.Go.timeSub` (Base/GoInt.lean).
Equal on all inputs. -/
theorem cons_time_subSat_eq_goTimeSub (t u : Int) : TimeRule.subSat t u = Go.timeSub t u := by
  unfold TimeRule.subSat Go.timeSub TimeRule.minI TimeRule.maxI
  split <;> split <;> (try split) <;> omega

/-- Go `time.Time.Sub`: `SV.Dist.tsub` (C14) vs `SV.Go.timeSub` - literally the same term. -/
theorem cons_time_tsub_eq_goTimeSub (t u : Int) : Dist.tsub t u = Go.timeSub t u := rfl

/-- the `Duration` range constants: `TimeRule.minI/maxI` (C10) vs `Dist.minDur/maxDur` (C14) -/
theorem cons_time_minI_eq_minDur : TimeRule.minI = Dist.minDur ∧ TimeRule.maxI = Dist.maxDur := ⟨rfl, rfl⟩

/-! ## `int64(uint64)` / `uint64(int64)` -/

/-- Go conversion `int64(x)` of a `uint64`: `SV.Dist.toInt64` (Model/Dist.lean, used by `MID.Time()`) vs
`SV.ProxyRead.toInt64` (Model/ProxyRead.lean, `int64(qpr.Total)`).  Both reduce the argument mod 2^64 first; equal
on every `Nat`. -/
theorem cons_time_dist_toInt64_eq_proxyRead_toInt64 (m : Nat) : Dist.toInt64 m = ProxyRead.toInt64 m := by
  unfold Dist.toInt64 ProxyRead.toInt64
  split <;> split <;> omega

/-- Go `int64(mid)` (C14, `MID.Time()`) vs `int(tb.MID)` on a 64-bit platform (`SV.Async.toI64`, Model/Async.lean,
`AggBin.toKey`).  `Async.toI64` does not reduce mod 2^64, so the common domain is the uint64 range. -/
theorem cons_time_dist_toInt64_eq_async_toI64 (m : Nat) (h : m < 18446744073709551616) :
    Dist.toInt64 m = Async.toI64 m := by
  unfold Dist.toInt64 Async.toI64
  split <;> split <;> omega

example : (1758800000000 : Nat) < 18446744073709551616 := by decide

/-- outside the uint64 range (not a MID) the two readings differ: the bound above is needed -/
theorem cons_time_dist_toInt64_ne_async_toI64_witness :
    Dist.toInt64 (18446744073709551616 + 9223372036854775808) ≠ Async.toI64 (18446744073709551616 + 9223372036854775808) := by
  decide

/-- Go `uint64(x)` of an int64: `SV.Dist.toUint64` vs `SV.Async.toU64` (`MID(mid)` in `AggBin.fromKey`) - the same term -/
theorem cons_time_dist_toUint64_eq_async_toU64 (x : Int) : Dist.toUint64 x = Async.toU64 x := rfl

/-- `uint64(x)`: `SV.Dist.toUint64` vs the translator's `SV.Go.wrapU64` (the latter stays in `Int`) -/
theorem cons_time_dist_toUint64_eq_goWrapU64 (x : Int) : (Dist.toUint64 x : Int) = Go.wrapU64 x := by
  unfold Dist.toUint64 Go.wrapU64
  omega

/-- `int64(x)` of a uint64: `SV.Dist.toInt64` vs the translator's `SV.Go.wrapI64` on the cast (both reduce mod 2^64:
equal on every `Nat`) -/
theorem cons_time_dist_toInt64_eq_goWrapI64 (m : Nat) : Dist.toInt64 m = Go.wrapI64 (m : Int) := by
  unfold Dist.toInt64 Go.wrapI64
  split <;> omega

/-- the int64 wrap of an arbitrary integer (`Time.UnixNano`): `SV.BulkTime.wrap64` (Model/BulkTime.lean) vs
`SV.Go.wrapI64` / `SV.Go.timeUnixNano` (Base/GoInt.lean) - the same term -/
theorem cons_time_wrap64_eq_goWrapI64 (x : Int) : BulkTime.wrap64 x = Go.wrapI64 x ∧ BulkTime.wrap64 x = Go.timeUnixNano x :=
  ⟨rfl, rfl⟩

/-- the int64 wrap: `SV.BulkTime.wrap64` (C10) vs the composition `toInt64 ∘ toUint64` that Model/Dist.lean documents
as "the int64 wrap of any integer" (C14).  Equal on all inputs. -/
theorem cons_time_wrap64_eq_dist_roundtrip (x : Int) : BulkTime.wrap64 x = Dist.toInt64 (Dist.toUint64 x) := by
  unfold BulkTime.wrap64 Dist.toInt64 Dist.toUint64
  split <;> omega

/-- Go `int64(v - prev)` for uint64 operands (`packMIDs`, the MID delta varints of a sealed fraction):
`SV.C03.delta64` (Model/C03Codec.lean) is `SV.Dist.toInt64` of the uint64 difference.  `prev ≤ v + 2^64` holds for
all uint64 operands. -/
theorem cons_time_c03_delta64_eq_dist_toInt64 (v prev : Nat) :
    C03.delta64 v prev = Dist.toInt64 (v + 18446744073709551616 - prev) := by
  unfold C03.delta64 Dist.toInt64 C03.W64
  simp only []

/-! ## `seq.TimeToMID` and `MID.Time()` -/

/-- Go `seq.TimeToMID(t) = MID(t.UnixNano() / int64(time.Millisecond))`: `SV.BulkTime.timeToMID` (C10) written with
the C14 conversion `SV.Dist.toUint64` - definitional. -/
theorem cons_time_timeToMID_eq_dist_toUint64 (t : Int) :
    BulkTime.timeToMID t = Dist.toUint64 ((BulkTime.wrap64 t).tdiv 1000000) := rfl

/-- `seq.TimeToMID`: `SV.BulkTime.timeToMID` vs its reading in the translator prelude (Base/GoInt.lean), for every
instant.  (Props/C10T.lean proves the same against the generated translation.) -/
theorem cons_time_timeToMID_eq_go (t : Int) :
    (BulkTime.timeToMID t : Int) = Go.wrapU64 (Int.tdiv (Go.timeUnixNano t) 1000000) := by
  unfold BulkTime.timeToMID Go.wrapU64 Go.timeUnixNano
  rw [← (cons_time_wrap64_eq_goWrapI64 t).1]
  omega

/-- Go `MID.Time() = time.UnixMilli(int64(m))`: `SV.Dist.midTime` (C14) vs the translator prelude
`SV.Go.timeUnixMilli (SV.Go.wrapI64 m)`; equal on every `Nat`. -/
theorem cons_time_midTime_eq_go (m : Nat) : Dist.midTime m = Go.timeUnixMilli (Go.wrapI64 (m : Int)) := by
  unfold Dist.midTime Go.timeUnixMilli
  rw [cons_time_dist_toInt64_eq_goWrapI64 m]

/-- **C10 `TimeToMID` against C14 `MID.Time()`, all instants**: reading back the MID the ingestor computed gives
the wrapped `UnixNano` truncated (towards zero) to whole milliseconds.  Units: C10 instants and C14 times are both
`Int` ns since the epoch; the MID is `Nat` ms. -/
theorem cons_time_midTime_timeToMID (t : Int) :
    Dist.midTime (BulkTime.timeToMID t) = (BulkTime.wrap64 t).tdiv 1000000 * 1000000 := by
  unfold Dist.midTime
  rw [cons_time_timeToMID_eq_dist_toUint64, ← cons_time_wrap64_eq_dist_roundtrip]
  have hw : -9223372036854775808 ≤ BulkTime.wrap64 t ∧ BulkTime.wrap64 t < 9223372036854775808 := by
    unfold BulkTime.wrap64; omega
  generalize BulkTime.wrap64 t = w at hw
  have hq : BulkTime.wrap64 (w.tdiv 1000000) = w.tdiv 1000000 := by
    have h1 : -9223372036854775808 ≤ w.tdiv 1000000 ∧ w.tdiv 1000000 < 9223372036854775808 := by
      rcases Int.le_total 0 w with h0 | h0
      · rw [Int.tdiv_eq_ediv_of_nonneg h0]; omega
      · have e : w.tdiv 1000000 = -((-w).tdiv 1000000) := by rw [Int.neg_tdiv]; omega
        rw [e, Int.tdiv_eq_ediv_of_nonneg (by omega)]; omega
    unfold BulkTime.wrap64; omega
  rw [hq]

/-- **the two models agree on what a MID means** on the instants the time rule can produce (after the epoch, inside
the int64 ns range): `MID.Time()` of `TimeToMID t` is `t` rounded down to the millisecond, so it lies in
`(t - 1ms, t]`.  Domain: `0 ≤ t ≤ maxI`; a wrapped instant (the pre-5825a86 defect `c10_time_rule_counterexample`)
is outside. -/
theorem cons_time_midTime_timeToMID_inrange (t : Int) (h0 : 0 ≤ t) (h1 : t ≤ TimeRule.maxI) :
    Dist.midTime (BulkTime.timeToMID t) = t - t % 1000000 := by
  rw [cons_time_midTime_timeToMID]
  unfold TimeRule.maxI at h1
  have hw : BulkTime.wrap64 t = t := by unfold BulkTime.wrap64; omega
  rw [hw, Int.tdiv_eq_ediv_of_nonneg h0]; omega

example : (0 : Int) ≤ 1790000000000000000 ∧ (1790000000000000000 : Int) ≤ TimeRule.maxI := by decide

/-- and conversely: every MID below 2^63 (a time after the epoch whose ns value is an int64: `m < 2^63 / 10^6`) is
the `TimeToMID` of its own `MID.Time()` - the two conversions are inverse on whole milliseconds. -/
theorem cons_time_timeToMID_midTime (m : Nat) (h : m ≤ 9223372036854) :
    BulkTime.timeToMID (Dist.midTime m) = m := by
  have e : Dist.midTime m = (m : Int) * 1000000 := by
    unfold Dist.midTime Dist.toInt64; split <;> omega
  have h0 : (0 : Int) ≤ (m : Int) * 1000000 := by omega
  have h1 : (m : Int) * 1000000 ≤ TimeRule.maxI := by unfold TimeRule.maxI; omega
  have := BulkTime.timeToMID_exact _ h0 h1
  rw [e]
  omega

example : (1790000000000 : Nat) ≤ 9223372036854 := by decide

/-- `TimeToMID` is monotone on in-range instants, in the int64 reading that `MID.Time()` / `midToIndex` use: a later
document time never gets an earlier distribution bucket (`Dist.midToIndex_mono` needs exactly this hypothesis). -/
theorem cons_time_timeToMID_mono (s t : Int) (h0 : 0 ≤ s) (hst : s ≤ t) (h1 : t ≤ TimeRule.maxI) :
    Dist.toInt64 (BulkTime.timeToMID s) ≤ Dist.toInt64 (BulkTime.timeToMID t) := by
  have es := BulkTime.timeToMID_exact s h0 (by omega)
  have et := BulkTime.timeToMID_exact t (by omega) h1
  unfold TimeRule.maxI at h1
  have hs : BulkTime.timeToMID s < 9223372036854775808 := by omega
  have ht : BulkTime.timeToMID t < 9223372036854775808 := by omega
  unfold Dist.toInt64
  have : s / 1000000 ≤ t / 1000000 := Int.ediv_le_ediv (by decide) hst
  split <;> split <;> omega

/-! ## `proxy/bulk.documentDelayed` -/

/-- Go `documentDelayed` at HEAD (`docDelay > drift || docDelay < -futureDrift`, int64 unary minus):
`SV.BulkTime.documentDelayedRepaired` (Model/BulkTime.lean) vs the specification-level comparison
`SV.TimeRule.documentDelayedFixed` (Model/TimeRule.lean, unbounded `-`).  Equal whenever `futureDrift ≠ MinInt64`
(BulkTime proves it for `0 ≤ futureDrift`; this is the exact domain). -/
theorem cons_time_repaired_eq_fixed (d p f : Int) (hf : f ≠ TimeRule.minI) :
    BulkTime.documentDelayedRepaired d p f = TimeRule.documentDelayedFixed d p f := by
  simp [BulkTime.documentDelayedRepaired, TimeRule.documentDelayedFixed, TimeRule.negWrap, hf]

example : (86400000000000 : Int) ≠ TimeRule.minI := by decide

/-- at `futureDrift = MinInt64` (a negative duration: not a configurable drift) they differ; the `Repaired` one is
what Go evaluates (`-MinInt64 = MinInt64`) -/
theorem cons_time_repaired_ne_fixed_witness :
    BulkTime.documentDelayedRepaired 0 0 TimeRule.minI = false ∧ TimeRule.documentDelayedFixed 0 0 TimeRule.minI = true := by
  decide

/-- `SV.TimeRule.documentDelayed` (the seed, Model/TimeRule.lean: the comparison `docDelay < 0 && -docDelay >
futureDrift` as the code was before commit 5825a86) vs `SV.BulkTime.documentDelayedRepaired` (the code at HEAD).
They agree for every `docDelay` except the saturated `MinInt64` (given a non-negative future drift). -/
theorem cons_time_written_eq_repaired (d p f : Int) (hd : d ≠ TimeRule.minI) (hf : 0 ≤ f) :
    TimeRule.documentDelayed d p f = BulkTime.documentDelayedRepaired d p f := by
  have hf' : f ≠ TimeRule.minI := by unfold TimeRule.minI; omega
  simp only [TimeRule.documentDelayed, BulkTime.documentDelayedRepaired, TimeRule.negWrap, hd, hf', if_false]
  by_cases h1 : d > p <;> by_cases h2 : d < 0 <;> by_cases h3 : -d > f <;> by_cases h4 : d < -f <;>
    simp [h1, h2, h3, h4] <;> omega

example : (3600000000000 : Int) ≠ TimeRule.minI ∧ (0 : Int) ≤ 86400000000000 := by decide

/-- ... and they DISAGREE at the saturated delay `MinInt64` (a document 2^63 ns or more ahead of the request time):
`TimeRule.documentDelayed` says "not delayed", `documentDelayedRepaired` says "delayed".  Go at HEAD
(proxy/bulk/processor.go: `if docDelay < -futureDrift`) is the `Repaired` side; `TimeRule.documentDelayed` is the
historical code, kept in the seed for `delayed_counterexample` (its doc comment "as written" is stale). -/
theorem cons_time_written_ne_repaired_witness :
    TimeRule.documentDelayed (TimeRule.subSat 0 9223372036854775808) 86400000000000 86400000000000 = false ∧
    BulkTime.documentDelayedRepaired (TimeRule.subSat 0 9223372036854775808) 86400000000000 86400000000000 = true := by
  decide

/-- consequence for the ID time: with the same saturating `Sub` (shared `TimeRule.subSat`), the instant chosen by
`processor.Process` under the historical and the HEAD comparison is the same whenever the true distance fits the
`Duration` range strictly. -/
theorem cons_time_idTime_written_eq_repaired (doc : Option Int) (req drift fut : Int) (hf : 0 ≤ fut)
    (hfit : ∀ t, doc = some t → TimeRule.minI < req - t) :
    BulkTime.idTime TimeRule.documentDelayed doc req drift fut =
      BulkTime.idTime BulkTime.documentDelayedRepaired doc req drift fut := by
  cases doc with
  | none => rfl
  | some t =>
    have h := hfit t rfl
    have hd : TimeRule.subSat req t ≠ TimeRule.minI := by
      unfold TimeRule.subSat TimeRule.minI TimeRule.maxI at *
      split <;> (try split) <;> omega
    simp only [BulkTime.idTime, cons_time_written_eq_repaired _ _ _ hd hf]

example : ∀ t, (some (1789996400000000000 : Int)) = some t → TimeRule.minI < 1790000000000000000 - t := by
  intro t h; cases h; decide

end SV.Consistency
