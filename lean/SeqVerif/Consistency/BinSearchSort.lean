import SeqVerif.Spec.Store
import SeqVerif.Model.MergeQPR
import SeqVerif.Model.SearchDocs
import SeqVerif.Model.ProxySearch
import SeqVerif.Model.C17Compose
/-!
# Consistency: `sort.Sort` / `sort.Slice` modelled as an insertion sort - five times

Go's sorts are modelled by a structural insertion sort wherever a model needs one:

* `SV.Spec.insertBy` / `SV.Spec.sortBy le`                (Spec/Store.lean; generic, `le x y` = "x may stand before y")
* `SV.Merge.insertId` / `SV.Merge.sortIds desc`           (Model/MergeQPR.lean, C05: `sort.Sort(dst.IDs)` in `MergeQPRs`)
* `SV.Merge.insertFrac` / `SV.Merge.sortFracs desc`       (Model/SearchDocs.lean, C05: `fracmanager.List.Sort`)
* `SV.ProxySearch.insertS` / `SV.ProxySearch.sortS rev`   (Model/ProxySearch.lean, C16: the same `sort.Sort` of `MergeQPRs`)
* `SV.C17Compose.insertBy` (+ `foldr`)                    (Model/C17Compose.lean, C17: `sort` in `TokenLIDs.GetLIDs`)

All five are the SAME algorithm (`insertBy le x`: insert `x` before the first `y` with `le x y`): each equals
`SV.Spec.sortBy` with its comparison `le` spelled out; all inputs.  The comparisons differ on ties: C05's `le` is
non-strict (a new key goes BEFORE equal keys), C16's `before rev` is strict (a new entry goes BEHIND equal IDs, so with
`foldr` equal IDs end up in reverse input order - see the note at `SV.ProxySearch.insertS`); key sequences agree
(`SV.ProxyCompose.merged_keys`), which entry of a run of equal IDs survives `dedup` is model-specific.  (The two models of `MergeQPRs` themselves are bridged
in Model/ProxyCompose.lean: `merged_keys`, `merge_ids_agree`, `merge_total_agree`, `page_agree`.)
-/
namespace SV.Consistency
open SV

/-- C17's `insertBy` is the Spec's `insertBy` (same text, two files) -/
theorem cons_sort_c17_insertBy_eq_spec (before : Nat → Nat → Bool) (x : Nat) (ys : List Nat) :
    SV.C17Compose.insertBy before x ys = SV.Spec.insertBy before x ys := by
  induction ys with
  | nil => rfl
  | cons y ys ih => simp only [SV.C17Compose.insertBy, SV.Spec.insertBy, ih]

/-- hence the sort inside `SV.C17Compose.getLIDs` is `SV.Spec.sortBy` -/
theorem cons_sort_c17_foldr_eq_spec_sortBy (before : Nat → Nat → Bool) (l : List Nat) :
    l.foldr (SV.C17Compose.insertBy before) [] = SV.Spec.sortBy before l := by
  induction l with
  | nil => rfl
  | cons x xs ih => simp only [List.foldr_cons, SV.Spec.sortBy, ih, cons_sort_c17_insertBy_eq_spec]

/-- C05's key sort: `SV.Merge.sortIds desc` = `SV.Spec.sortBy` with `le a b := !lessFn desc b a` (= `LeBy desc a b`) -/
theorem cons_sort_merge_sortIds_eq_spec_sortBy (desc : Bool) (l : List Nat) :
    SV.Merge.sortIds desc l = SV.Spec.sortBy (fun a b => !SV.lessFn desc b a) l := by
  have ins : ∀ (a : Nat) (bs : List Nat),
      SV.Merge.insertId desc a bs = SV.Spec.insertBy (fun a b => !SV.lessFn desc b a) a bs := by
    intro a bs
    induction bs with
    | nil => rfl
    | cons b bs ih =>
      simp only [SV.Merge.insertId, SV.Spec.insertBy, ih]
      by_cases h : SV.lessFn desc b a = true <;> simp [h]
  induction l with
  | nil => rfl
  | cons x xs ih => simp only [SV.Merge.sortIds, SV.Spec.sortBy, ih, ins]

/-- C05's fraction sort: `SV.Merge.sortFracs desc` = `SV.Spec.sortBy` with `le a b := !fracBefore desc b a` -/
theorem cons_sort_merge_sortFracs_eq_spec_sortBy (desc : Bool) (l : List SV.Merge.Frac) :
    SV.Merge.sortFracs desc l = SV.Spec.sortBy (fun a b => !SV.Merge.fracBefore desc b a) l := by
  have ins : ∀ (a : SV.Merge.Frac) (bs : List SV.Merge.Frac),
      SV.Merge.insertFrac desc a bs = SV.Spec.insertBy (fun a b => !SV.Merge.fracBefore desc b a) a bs := by
    intro a bs
    induction bs with
    | nil => rfl
    | cons b bs ih =>
      simp only [SV.Merge.insertFrac, SV.Spec.insertBy, ih]
      by_cases h : SV.Merge.fracBefore desc b a = true <;> simp [h]
  induction l with
  | nil => rfl
  | cons x xs ih => simp only [SV.Merge.sortFracs, SV.Spec.sortBy, ih, ins]

/-- C16's tagged-ID sort: `SV.ProxySearch.sortS rev` = `SV.Spec.sortBy` with `le x y := before rev x.1 y.1` -/
theorem cons_sort_proxy_sortS_eq_spec_sortBy (rev : Bool) (l : List (SV.ProxySearch.ID × SV.ProxySearch.Src)) :
    SV.ProxySearch.sortS rev l = SV.Spec.sortBy (fun x y => SV.ProxySearch.before rev x.1 y.1) l := by
  have ins : ∀ (a : SV.ProxySearch.ID × SV.ProxySearch.Src) (bs : List (SV.ProxySearch.ID × SV.ProxySearch.Src)),
      SV.ProxySearch.insertS rev a bs = SV.Spec.insertBy (fun x y => SV.ProxySearch.before rev x.1 y.1) a bs := by
    intro a bs
    induction bs with
    | nil => rfl
    | cons b bs ih => simp only [SV.ProxySearch.insertS, SV.Spec.insertBy, ih]
  unfold SV.ProxySearch.sortS
  induction l with
  | nil => rfl
  | cons x xs ih => simp only [List.foldr_cons, SV.Spec.sortBy, ih, ins]

/-- the comparison in `cons_sort_merge_sortIds_eq_spec_sortBy` is C05's own `LeBy desc`; that C05's and C16's
comparisons agree on keys (flag flipped, `desc = !rev`) is `SV.ProxyCompose.before_iff_lessFn`, and that the two
sorted key sequences agree is `SV.ProxyCompose.merged_keys` -/
theorem cons_sort_merge_sortIds_le_is_LeBy (desc : Bool) (a b : Nat) :
    ((fun a b => !SV.lessFn desc b a) a b = true) ↔ SV.Merge.LeBy desc a b := by
  simp [SV.Merge.LeBy]

end SV.Consistency
