import SeqVerif.Model.InverserArray
import SeqVerif.Consistency.ActiveLids
/-!
# Consistency (wave 2): the pooled `inversion` table of `frac/inverser.go` (C02, Model/InverserArray.lean) vs the older
models of the same Go code

Go: `newInverser(values, size)`: `buf, inversion := getSlice(size)` (pool buffer, `clear(s)`), then
`for i, v := range values { inversion[v] = i + 1 }`; `Inverse(k)`: `k >= len -> (0,false)`, else `v := inversion[k]; v, v > 0`;
`inverseLIDs` (frac/active_index.go).

| model | file | table |
|---|---|---|
| `SV.ActiveIndex.fill / newInversion / inverseArr` (new) | Model/InverserArray.lean (C02) | `List Nat`, arbitrary pool content, `cleared` flag |
| `SV.C03.buildGo / buildIndex`, `SV.C03.inverseLIDs`     | Model/C03Frac.lean (C03)       | `List Nat`, always starts from `replicate size 0` |
| `SV.ActiveIndex.inverse / inverseOne / inverseLIDs`     | Model/ActiveIndex.lean (C02)   | none: `idxOf + 1` on the mapping |
| C07 reader `rLeaf`                                      | Model/ActiveConc.lean (C07)    | none: filter `l < nmids && mapping.contains l` (+ extracted fact `c07_x_inverser_zeroed`, no Lean model of the pool) |

Result: the new table model and C03's array loop are the *same function* on all inputs (same loop, arguments in a
different order); both keep the LAST write for a repeated value, as Go does.  The list-level `ActiveIndex.inverse`
agrees with them exactly on duplicate-free mappings (here proved *without* the bound `v < size` that
`inverseArr_cleared` assumes) and differs on a repeated value (`cons_inverserPool_dup_witness`): same story as the
wave-1 witness `cons_inverse_c03_ne_activeindex_dup_witness`; the table side is the one that matches /repo/frac/inverser.go,
the input is unreachable (the mapping is a `GetLIDs` result, strictly sorted).
-/
namespace SV.Consistency

/-- Go `for i, v := range values { inversion[v] = i + 1 }`.  `SV.ActiveIndex.fill buf vs start` (new, C02) =
`SV.C03.buildGo vs start buf` (C03).  Representation change: argument order only.  All inputs (any buffer content, any
values - out-of-range values are dropped by `List.set` in both; Go would panic there). -/
theorem cons_inverserPool_fill_eq_c03_buildGo (buf vs : List Nat) (start : Nat) :
    SV.ActiveIndex.fill buf vs start = SV.C03.buildGo vs start buf := by
  induction vs generalizing buf start with
  | nil => rfl
  | cons v vs ih => simp only [SV.ActiveIndex.fill, SV.C03.buildGo, ih]

/-- Go `newInverser(values, size)` with the `clear` of `getSlice`.  `SV.ActiveIndex.newInversion pool true values size`
(new: pool buffer with arbitrary previous content) = `SV.C03.buildIndex size values` (C03: fresh zeroed array), for
EVERY mapping (duplicates included: both keep the last write) and every pool content. -/
theorem cons_inverserPool_newInversion_eq_c03_buildIndex (pool values : List Nat) (size : Nat) :
    SV.ActiveIndex.newInversion pool true values size = SV.C03.buildIndex size values := by
  simp only [SV.ActiveIndex.newInversion, SV.C03.buildIndex, if_true, cons_inverserPool_fill_eq_c03_buildGo]

/-- the same without the `clear` (the mutant / the state C07's extracted fact `c07_x_inverser_zeroed` excludes): C03's
loop started on the dirty prefix of the pool buffer -/
theorem cons_inverserPool_newInversion_dirty_eq_c03_buildGo (pool values : List Nat) (size : Nat) :
    SV.ActiveIndex.newInversion pool false values size = SV.C03.buildGo values 0 (pool.take size) := by
  simp only [SV.ActiveIndex.newInversion, Bool.false_eq_true, if_false, cons_inverserPool_fill_eq_c03_buildGo]

/-- Go `inverseLIDs(unmapped, inv, minLID, maxLID)` over a table.  `SV.C03.inverseLIDs inv` (C03: the test
`v < len ∧ inv[v] > 0 ∧ borders` inline) = the loop written with the new `SV.ActiveIndex.inverseArr inv` (`Inverse`) and
the border test of `SV.ActiveIndex.inverseOne`.  All tables, all inputs. -/
theorem cons_inverserPool_inverseLIDs_c03_eq_inverseArr (inv un : List Nat) (lo hi : Nat) :
    SV.C03.inverseLIDs inv un lo hi =
      un.filterMap fun v =>
        match SV.ActiveIndex.inverseArr inv v with
        | some val => if lo ≤ val ∧ val ≤ hi then some val else none
        | none => none := by
  unfold SV.C03.inverseLIDs
  congr 1
  funext v
  unfold SV.ActiveIndex.inverseArr
  by_cases h1 : v < inv.length
  · have h1' : ¬ v ≥ inv.length := by omega
    by_cases h2 : inv.getD v 0 > 0
    · simp only [h1, h2, true_and, h1', if_false, if_true]
    · simp only [h1, h2, false_and, and_false, h1', if_false]
  · have h1' : v ≥ inv.length := by omega
    simp only [h1, false_and, h1', if_true, if_false]

/-- Go `Inverse(k)` on the cleared pooled table vs the list-level `SV.ActiveIndex.inverse` (`idxOf + 1`).  Strengthens the
model's own `inverseArr_cleared`: only `Nodup` is needed, not `∀ v ∈ m, v < size` (a value `≥ size` is dropped by both -
in Go it is an index-out-of-range panic).  Proof: table = C03's array (above), C03's array = `inverse` (wave 1). -/
theorem cons_inverserPool_inverseArr_eq_activeindex (pool m : List Nat) (hn : m.Nodup) (size k : Nat) :
    SV.ActiveIndex.inverseArr (SV.ActiveIndex.newInversion pool true m size) k = SV.ActiveIndex.inverse m size k := by
  rw [cons_inverserPool_newInversion_eq_c03_buildIndex, ← cons_inverse_c03_eq_activeindex m hn size k]
  unfold SV.ActiveIndex.inverseArr
  by_cases h1 : k < (SV.C03.buildIndex size m).length
  · have h1' : ¬ k ≥ (SV.C03.buildIndex size m).length := by omega
    by_cases h2 : (SV.C03.buildIndex size m).getD k 0 > 0 <;> simp only [h1, h2, h1', true_and, and_false, if_true, if_false]
  · have h1' : k ≥ (SV.C03.buildIndex size m).length := by omega
    simp only [h1, h1', false_and, if_true, if_false]

example : ([2, 1] : List Nat).Nodup := by decide

/-- Go `inverseLIDs` through the cleared pooled table = `SV.ActiveIndex.inverseLIDs` (the function the C02 theorems are
about), for every pool content.  Domain: mapping duplicate free. -/
theorem cons_inverserPool_inverseLIDs_eq_activeindex (pool m : List Nat) (hn : m.Nodup) (size lo hi : Nat) (un : List Nat) :
    SV.C03.inverseLIDs (SV.ActiveIndex.newInversion pool true m size) un lo hi =
      SV.ActiveIndex.inverseLIDs m size lo hi un := by
  rw [cons_inverserPool_newInversion_eq_c03_buildIndex]
  exact cons_inverseLIDs_c03_eq_activeindex m hn size lo hi un

/-- ... and = C07's reader rule (`rLeaf`: keep the arrival LIDs with `l < nmids && mapping.contains l`), translated by
`idxOf + 1`, with the full borders.  (C07 has no model of the pool; its `c07_x_inverser_zeroed` is the extracted fact that
the clear is there, which is the `cleared = true` used here.) -/
theorem cons_inverserPool_inverseLIDs_eq_activeconc (pool m : List Nat) (hn : m.Nodup) (size : Nat) (un : List Nat) :
    SV.C03.inverseLIDs (SV.ActiveIndex.newInversion pool true m size) un 0 m.length =
      (un.filter fun l => decide (l < size) && m.contains l).map fun l => m.idxOf l + 1 := by
  rw [cons_inverserPool_inverseLIDs_eq_activeindex pool m hn]
  exact cons_inverseLIDs_activeconc_eq_activeindex m size un

/-- a repeated value in the mapping: the new table model and C03 keep the LAST index (Go: `inversion[v] = i + 1`
overwrites), the list-level `inverse` the first.  Consistent with wave 1's `cons_inverse_c03_ne_activeindex_dup_witness`;
the table side matches /repo/frac/inverser.go; unreachable (the mapping comes from `GetLIDs`). -/
theorem cons_inverserPool_dup_witness :
    SV.ActiveIndex.inverseArr (SV.ActiveIndex.newInversion [7, 7] true [1, 1] 2) 1 = some 2 ∧
    SV.C03.inverseLIDs (SV.C03.buildIndex 2 [1, 1]) [1] 0 9 = [2] ∧
    SV.ActiveIndex.inverse [1, 1] 2 1 = some 1 := by decide

/-- a mapping value `≥ size` (Go: index-out-of-range panic in `newInverser`): all three models silently drop it - the
reason `cons_inverserPool_inverseArr_eq_activeindex` needs no bound. -/
theorem cons_inverserPool_outOfRange_witness :
    SV.ActiveIndex.inverseArr (SV.ActiveIndex.newInversion [] true [5, 0] 2) 5 = none ∧
    SV.ActiveIndex.inverse [5, 0] 2 5 = none ∧
    SV.ActiveIndex.inverseArr (SV.ActiveIndex.newInversion [] true [5, 0] 2) 0 = some 2 ∧
    SV.ActiveIndex.inverse [5, 0] 2 0 = some 2 := by decide

/-- the dirty pool: without the clear the table answers for a LID the mapping does not contain - in the new model
(`inverseArr_dirty_witness`) and, through the equality above, in C03's loop started on the dirty buffer; C07's filter
(`mapping.contains l`) and `ActiveIndex.inverse` say "absent". -/
theorem cons_inverserPool_dirty_witness :
    SV.C03.inverseLIDs (SV.C03.buildGo [2, 1] 0 ([9, 9, 9, 9].take 4)) [3] 0 9 = [9] ∧
    SV.ActiveIndex.inverseLIDs [2, 1] 4 0 9 [3] = [] ∧
    ([3].filter fun l => decide (l < 4) && [2, 1].contains l) = [] := by decide

end SV.Consistency
