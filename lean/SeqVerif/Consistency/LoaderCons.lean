import SeqVerif.Proofs.C03LoaderProofs
import SeqVerif.Model.C03Frac
import SeqVerif.Model.SealOps
/-!
# Consistency: the index loader (`frac.Loader.Load`, C03 Model/C03Loader.lean) vs the seal writer's tables
(C03 Model/C03Frac.lean `sealFrac`, C03Ids.lean `writeIDs` / `idsTableOf`, C03Lids.lean `tableOf`) vs the section order of
C08 (Model/SealOps.lean `writeIndex`)

Go (frac/active_sealer.go:153-206, frac/disk_blocks_writer.go, disk/blocks_writer.go): `writeInfoBlock`, `writeTokensBlocks`
(+`WriteEmptyBlock`), `writeTokenTableBlocks` (+empty), `writePositionsBlock`, `writeIDsBlocks` (+empty), `writeLIDsBlocks`
(+empty), `WriteRegistryBlock`.  `WriteBlock` = `Seek` + `Write` (2 calls on the output) and one registry header;
`WriteEmptyBlock` = a zero header in the registry and NO call.  The loader probes each section up to the zero header.

* the abstract round trip "loaded = written" for arbitrary sections is `SV.C03.loadTables_spec`
  (Proofs/C03LoaderProofs.lean) - cited, not repeated; here it is instantiated with the blocks the C03 WRITER models
  produce, so that the loader's tables are the tables `sealFrac` keeps in memory;
* the token / token-table sections are opaque to this loader walk (`skipSection`); their entry layout (C03TokenTable vs C13
  PatternTable / PatternProvider) is Consistency/TokenTable.lean (`cons_toktable_*`) - not a duplicate of anything here;
* C08's `SealOps.writeIndex` lists the sections by their `Seek`/`Write` calls: tied to the registry indices the loader
  computes (`idsStart`, `lidsStart`) below - same order, separators cost no call.
-/
namespace SV.Consistency

open SV

/-! ## the writer's ID blocks are never empty (so the loader's zero-length test cannot stop early) -/

theorem loader_chopGo_ne {α : Type} (size : Nat) (hs : 1 ≤ size) (fuel : Nat) (l : List α) :
    ∀ c, c ∈ C03.chopGo size fuel l → c ≠ [] := by
  induction fuel generalizing l with
  | zero => intro c hc; simp [C03.chopGo] at hc
  | succ fuel ih =>
    intro c hc
    unfold C03.chopGo at hc
    by_cases hl : l = []
    · simp [hl] at hc
    · rw [if_neg hl] at hc
      rcases List.mem_cons.mp hc with rfl | hc
      · intro h0
        have hlen := congrArg List.length h0
        have hp : 0 < l.length := List.length_pos_iff.mpr hl
        simp only [List.length_take, List.length_nil] at hlen
        omega
      · exact ih _ c hc

theorem loader_deltas64_length (vs : List Nat) (p : Nat) : (C03.deltas64 vs p).length = vs.length := by
  induction vs generalizing p with
  | nil => rfl
  | cons v r ih => simp [C03.deltas64, ih]

theorem loader_packDeltas_ne (vs : List Nat) (h : vs ≠ []) : C03.packDeltas vs ≠ [] := by
  intro h0
  have h1 := C03.length_le_encodeAll (C03.deltas64 vs 0)
  rw [loader_deltas64_length] at h1
  have hp : 0 < vs.length := List.length_pos_iff.mpr h
  have h2 : (C03.encodeAll (C03.deltas64 vs 0)).length = 0 := by
    have := congrArg List.length h0
    simpa [C03.packDeltas] using this
  omega

/-- every MIDs block `SV.C03.writeIDs` produces has a non-empty payload (`size >= 1`) -/
theorem cons_loader_writeIDs_mids_ne (size : Nat) (hs : 1 ≤ size) (ids : List C03.ID) (posOf : C03.ID → Nat) :
    ∀ b, b ∈ C03.writeIDs size ids posOf → b.mids ≠ [] := by
  intro b hb
  simp only [C03.writeIDs, C03.chop, List.mem_map] at hb
  obtain ⟨c, hc, rfl⟩ := hb
  have hne := loader_chopGo_ne size hs _ _ c hc
  exact loader_packDeltas_ne _ (by intro h0; exact hne (List.map_eq_nil_iff.mp h0))

/-! ## loader (writer output) = the writer's in-memory tables -/

/-- the index-file registry for given sections: the layout `loadTables_spec` is stated for, with the ID section built from
the disk blocks of `writeIDs` (header length = `clen payload`, the stored - possibly compressed - size; MIDs header extents =
the block's `ext`) and the LID section from the generator's blocks -/
def loaderRegistry (info pos : C03.Hdr) (toks tab : List C03.Hdr) (clen : List Nat → Nat) (llen : C03.Block → Nat)
    (idBlocks : List C03.IDBlockDisk) (lidBlocks : List C03.Block) : List C03.Hdr :=
  [info] ++ toks ++ C03.sepHdr :: (tab ++ C03.sepHdr :: (pos ::
    (C03.idsSection (idBlocks.map fun b => (b.ext, clen b.mids, clen b.rids, clen b.pos)) ++
     C03.lidsSection (lidBlocks.map fun b => (b, llen b)))))

/-- Go `Loader.Load` on the file `writeSealedFraction` wrote: `SV.C03.loadTables` (Model/C03Loader.lean) applied to the
registry of the WRITER models' blocks recovers exactly `SV.C03.idsTableOf` (the `MinBlockIDs` the writer collected,
Model/C03Ids.lean) and `SV.C03.tableOf` (the LIDs table `writeLIDsBlocks` built, Model/C03Lids.lean), and finds the ID / LID
sections at the positions the layout gives.
Domain: ID block size `>= 1`; a stored block is never 0 bytes long when its payload is not (`hclen`, `hllen` - the length
oracle of compression); TIDs are uint32 (`htid`); token and token-table sections arbitrary non-empty blocks. -/
theorem cons_loader_load_eq_written_tables (info pos : C03.Hdr) (toks tab : List C03.Hdr) (clen : List Nat → Nat)
    (llen : C03.Block → Nat) (size : Nat) (hs : 1 ≤ size) (ids : List C03.ID) (posOf : C03.ID → Nat) (total : Nat)
    (lidBlocks : List C03.Block)
    (htoks : ∀ h, h ∈ toks → h.len ≠ 0) (htab : ∀ h, h ∈ tab → h.len ≠ 0)
    (hclen : ∀ d : List Nat, d ≠ [] → clen d ≠ 0) (hllen : ∀ b, b ∈ lidBlocks → llen b ≠ 0)
    (htid : ∀ b, b ∈ lidBlocks → b.minTID < 4294967296 ∧ b.maxTID < 4294967296) :
    ∃ lt, C03.loadTables (loaderRegistry info pos toks tab clen llen (C03.writeIDs size ids posOf) lidBlocks) = some lt ∧
      lt.minBlockIDs = (C03.idsTableOf (C03.writeIDs size ids posOf) total).minBlockIDs ∧
      lt.lids.map (·.1) = (C03.tableOf lidBlocks).minTIDs ∧
      lt.lids.map (·.2.1) = (C03.tableOf lidBlocks).maxTIDs ∧
      lt.lids.map (·.2.2) = (C03.tableOf lidBlocks).isContinued ∧
      lt.idsStart = toks.length + tab.length + 4 ∧
      lt.lidsStart = toks.length + tab.length + 4 + 3 * (C03.writeIDs size ids posOf).length + 1 := by
  have hspec := C03.loadTables_spec info pos toks tab
    ((C03.writeIDs size ids posOf).map fun b => (b.ext, clen b.mids, clen b.rids, clen b.pos))
    (lidBlocks.map fun b => (b, llen b)) htoks htab
    (by
      intro b hb
      obtain ⟨d, hd, rfl⟩ := List.mem_map.mp hb
      exact hclen _ (cons_loader_writeIDs_mids_ne size hs ids posOf d hd))
    (by
      intro b hb
      obtain ⟨d, hd, rfl⟩ := List.mem_map.mp hb
      exact hllen d hd)
    (by
      intro b hb
      obtain ⟨d, hd, rfl⟩ := List.mem_map.mp hb
      exact htid d hd)
  refine ⟨_, hspec, ?_, ?_, ?_, ?_, rfl, ?_⟩
  · simp [C03.idsTableOf, List.map_map, Function.comp_def]
  · simp [C03.tableOf, List.map_map, Function.comp_def]
  · simp [C03.tableOf, List.map_map, Function.comp_def]
  · simp [C03.tableOf, List.map_map, Function.comp_def]
  · simp

example : ∀ b, b ∈ C03.writeIDs 2 [(9, 9), (5, 1), (3, 0)] (fun _ => 1) → b.mids ≠ [] :=
  cons_loader_writeIDs_mids_ne 2 (by decide) _ _

/-- the same for the result of `SV.C03.sealFrac` (Model/C03Frac.lean): re-opening a sealed fraction loads the very tables the
sealing kept (`s.idsTable.minBlockIDs`, `s.lidsTable`) - the hypothesis "table kept from sealing = table re-loaded" that
`idsTableOf`'s doc comment states is derivable. -/
theorem cons_loader_sealFrac_roundtrip (info pos : C03.Hdr) (toks tab : List C03.Hdr) (clen : List Nat → Nat)
    (llen : C03.Block → Nat) (idsBlockSize per cap rbs tokBase : Nat) (hs : 1 ≤ idsBlockSize) (posOf : C03.ID → Nat)
    (a : C03.Active) (s : C03.Sealed) (hseal : C03.sealFrac idsBlockSize per cap rbs tokBase posOf a = .ok s)
    (htoks : ∀ h, h ∈ toks → h.len ≠ 0) (htab : ∀ h, h ∈ tab → h.len ≠ 0)
    (hclen : ∀ d : List Nat, d ≠ [] → clen d ≠ 0) (hllen : ∀ b, b ∈ s.lidBlocks → llen b ≠ 0)
    (htid : ∀ b, b ∈ s.lidBlocks → b.minTID < 4294967296 ∧ b.maxTID < 4294967296) :
    ∃ lt, C03.loadTables (loaderRegistry info pos toks tab clen llen s.idBlocks s.lidBlocks) = some lt ∧
      lt.minBlockIDs = s.idsTable.minBlockIDs ∧
      (⟨lt.lids.map (·.1), lt.lids.map (·.2.1), lt.lids.map (·.2.2)⟩ : C03.Table) = s.lidsTable := by
  unfold C03.sealFrac at hseal
  cases hg : C03.genTokenBlocks C03.bsNew rbs (a.fields.map (·.map (·.val))) with
  | error e => rw [hg] at hseal; cases hseal
  | ok tblocks =>
    rw [hg] at hseal
    simp only [Except.ok.injEq] at hseal
    subst hseal
    simp only at hllen htid ⊢
    obtain ⟨lt, h1, h2, h3, h4, h5, _, _⟩ := cons_loader_load_eq_written_tables info pos toks tab clen llen idsBlockSize hs
      (C03.sealedIDs a) posOf (C03.sealedIDs a).length _ htoks htab hclen hllen htid
    exact ⟨lt, h1, h2, by rw [h3, h4, h5]⟩

/-! ## section order: C08's `writeIndex` vs the registry the loader walks -/

/-- the C08 plan (numbers of `Seek`/`Write` calls per section) of an index file with the given sections: two calls per
block, none for a separator; the generator/tail split of the token sections is internal to C08 -/
def loaderPlanOf (sdocs : Nat) (toks tab : List C03.Hdr) (nIdBlocks nLidBlocks : Nat) : SealOps.Plan :=
  ⟨sdocs, 2 * toks.length, 0, 2 * tab.length, 0, 6 * nIdBlocks, 2 * nLidBlocks⟩

/-- calls `SV.SealOps.writeIndex` issues before `writeIDsBlocks` / before `writeLIDsBlocks` (source order of its `andThen` chain) -/
def loaderCallsBeforeIDs (p : SealOps.Plan) : Nat := 2 + p.tokens + p.tokensTail + p.tokenTable + p.tokenTableTail + 2
def loaderCallsBeforeLIDs (p : SealOps.Plan) : Nat := loaderCallsBeforeIDs p + p.ids

/-- Go section order: the registry index at which the loader finds the ID section / the LID section
(`loadTables_spec`: after info, token blocks, separator, table blocks, separator, positions / plus three headers per ID
block and a separator) corresponds to the number of calls C08's `writeIndex` has issued when it reaches `writeIDsBlocks` /
`writeLIDsBlocks`: two calls per non-separator header before it.  Hence the two models list the sections in the same
order - info, tokens, token table, positions, IDs, LIDs - and the total is `Plan.indexCalls` = 2 per block + 4 for the
registry.  (The observation points `verifhook.Point("seal.sec", k)` in frac/disk_blocks_writer.go number the nine steps of
`writeIndex`'s `andThen` chain in this very order: 1 info, 2/3 tokens + tail, 4/5 token table + tail, 6 positions, 7 IDs,
8 LIDs, 9 registry.) -/
theorem cons_loader_section_order_eq_sealops (sdocs : Nat) (toks tab : List C03.Hdr) (nIds nLids : Nat) :
    loaderCallsBeforeIDs (loaderPlanOf sdocs toks tab nIds nLids) = 2 * ((toks.length + tab.length + 4) - 2) ∧
    loaderCallsBeforeLIDs (loaderPlanOf sdocs toks tab nIds nLids) =
      2 * ((toks.length + tab.length + 4 + 3 * nIds + 1) - 3) ∧
    (loaderPlanOf sdocs toks tab nIds nLids).indexCalls =
      2 * (1 + toks.length + tab.length + 1 + 3 * nIds + nLids) + 4 := by
  simp only [loaderCallsBeforeIDs, loaderCallsBeforeLIDs, loaderPlanOf, SealOps.Plan.indexCalls]
  omega

/-- and C08's `writeIndex` really issues that many calls when it reports success without a dropped error
(`SV.SealOps.step_writeIndex`, cited) -/
theorem cons_loader_writeIndex_calls (f : SealOps.Facts) (sdocs : Nat) (toks tab : List C03.Hdr) (nIds nLids : Nat)
    (w : SealOps.W) (hok : (SealOps.writeIndex f (loaderPlanOf sdocs toks tab nIds nLids) w).1 = true)
    (hl : (SealOps.writeIndex f (loaderPlanOf sdocs toks tab nIds nLids) w).2.lost = false) :
    (SealOps.writeIndex f (loaderPlanOf sdocs toks tab nIds nLids) w).2.calls =
      w.calls + (2 * (1 + toks.length + tab.length + 1 + 3 * nIds + nLids) + 4) := by
  have h := (SealOps.step_writeIndex f (loaderPlanOf sdocs toks tab nIds nLids)).exact w hok hl
  rw [h.1, (cons_loader_section_order_eq_sealops sdocs toks tab nIds nLids).2.2]

end SV.Consistency
