import SeqVerif.Consistency.FracRange
import SeqVerif.Consistency.GroupIDs
import SeqVerif.Model.FetchActive
import SeqVerif.Model.SearchDocsLemmas
/-!
# Consistency (wave 2): what C14's `Info` establishes vs what C04 / C05 / C07 ASSUME of a fraction's `From/To`, `Contains`

* C14 (`SV.FracInfo`): an active fraction's info is `bulks.foldl appendBulk (newInfo ct)`, a sealed one is
  `FracInfo.sealed c ct bulks` (= the former + `buildDistribution`); `Covers` and `isIntersecting_build` /
  `isIntersecting_nodist` are what the model proves of them.
* C04 (`SV.Fetch.FracWF`): hypothesis `contains` / `intersects` "never hide a held document", for ALL naturals `lo hi`.
* C05 (`SV.Merge.FracInv`): hypothesis `From ≤ MID ≤ To` for the fraction's documents.
* C07 (`SV.ActiveConc.inR`): the published range holds every finished document.

Results: C05's and C07's hypotheses are implied by C14's `Covers` unconditionally.  C04's `FracWF.intersects` is implied
only on the uint64 domain: it quantifies over every natural `hi`, and C14's `Info.IsIntersecting` (which reads MIDs
through `int64(...)`) rejects a covering range whose upper end is `≥ 2^64` (`..._unbounded_witness`).  No Go value is
outside uint64, so this is a difference of generality of the C04 hypothesis, not of behaviour; `fetchFracOfPruningU64`
(equal to wave 1's `fetchFracOfPruning` on uint64 arguments) satisfies `FracWF` in full.
-/
namespace SV.Consistency
open SV SV.Dist SV.FracInfo

variable {D : Type}

/-! ## C14's two producers are `Pruning.Sound` (model-level restatement of `c14_fracOK_sound`, any good constants) -/

/-- info of an active fraction that indexed `bulks` (pairs `(MID, RID)`) -/
def activeInfoOf (ct : Nat) (bulks : List (List (Nat × Nat))) : Info :=
  (bulks.map (·.map Prod.fst)).foldl appendBulk (newInfo ct)

theorem fracinfofetch_covers_active (ct : Nat) (bulks : List (List (Nat × Nat))) :
    Covers (activeInfoOf ct bulks) (bulks.map (·.map Prod.fst)).flatten := by
  have := covers_foldl (covers_new ct) (bulks.map (·.map Prod.fst))
  simpa [activeInfoOf] using this

theorem fracinfofetch_covers_sealed (c : Consts) (ct : Nat) (bulks : List (List (Nat × Nat))) :
    Covers (FracInfo.sealed c ct (bulks.map (·.map Prod.fst))) (bulks.map (·.map Prod.fst)).flatten := by
  have hc := fracinfofetch_covers_active ct bulks
  have hf := buildDistribution_fields c (activeInfoOf ct bulks) (systemMID :: (bulks.map (·.map Prod.fst)).flatten)
  unfold FracInfo.sealed
  exact ⟨fun m hm => Nat.le_trans (Nat.le_of_eq hf.1) (hc.lo m hm),
    fun m hm => Nat.le_trans (hc.hi m hm) (Nat.le_of_eq hf.2.1.symm),
    hf.2.2.1.trans hc.cnt⟩

/-- C14 active fraction: sound (no bound on the query end needed - there is no distribution) -/
theorem cons_fracinfofetch_active_sound (ct : Nat) (bulks : List (List (Nat × Nat))) :
    Pruning.Sound ⟨activeInfoOf ct bulks, bulks.flatten⟩ := by
  intro id hid qf qt h1 h2 _
  exact isIntersecting_nodist (fracinfofetch_covers_active ct bulks)
    (by unfold activeInfoOf; rw [foldl_appendBulk_dist]; rfl) (Pruning.mem_flatten_map_fst hid) h1 h2

/-- C14 sealed fraction (`BuildDistribution` over all its IDs): sound for uint64 query ends -/
theorem cons_fracinfofetch_sealed_sound (c : Consts) (hc : GoodConsts c) (ct : Nat) (bulks : List (List (Nat × Nat))) :
    Pruning.Sound ⟨FracInfo.sealed c ct (bulks.map (·.map Prod.fst)), bulks.flatten⟩ := by
  intro id hid qf qt h1 h2 hqt
  unfold FracInfo.sealed
  exact isIntersecting_build hc (fracinfofetch_covers_active ct bulks)
    (by unfold activeInfoOf; rw [foldl_appendBulk_dist]; rfl) (fun x hx => List.mem_cons_of_mem _ hx)
    (Pruning.mem_flatten_map_fst hid) h1 h2 hqt

example : GoodConsts ⟨86400000000000, 60000000000, 600000000000⟩ := by
  constructor <;> decide

/-! ## C04 `FracWF` -/

/-- C14 fraction -> C04 fraction, range filters clamped to the uint64 domain (outside it: keep).  On uint64 arguments it
is wave 1's `fetchFracOfPruning`. -/
def fetchFracOfPruningU64 (aux : Pruning.Frac → FetchAux D) (f : Pruning.Frac) : Fetch.Frac D :=
  ⟨(aux f).name,
   fun m => if m < 18446744073709551616 then Pruning.contains f m else true,
   fun lo hi => if hi < 18446744073709551616 then FracInfo.isIntersecting f.info lo hi else true,
   (aux f).getDocPos, (aux f).readDoc⟩

theorem cons_fracinfofetch_u64_eq_plain (aux : Pruning.Frac → FetchAux D) (f : Pruning.Frac) (lo hi m : Nat)
    (hhi : hi < 18446744073709551616) (hm : m < 18446744073709551616) :
    (fetchFracOfPruningU64 aux f).intersects lo hi = (fetchFracOfPruning aux f).intersects lo hi ∧
      (fetchFracOfPruningU64 aux f).contains m = (fetchFracOfPruning aux f).contains m ∧
      (fetchFracOfPruningU64 aux f).name = (fetchFracOfPruning aux f).name ∧
      (fetchFracOfPruningU64 aux f).getDocPos = (fetchFracOfPruning aux f).getDocPos := by
  simp [fetchFracOfPruningU64, fetchFracOfPruning, hhi, hm]

/-- **C04's hypothesis `SV.Fetch.FracWF` follows from C14's `Pruning.Sound`** for the C04 fraction built from a C14
fraction, provided its position function `P` (i) is what `getDocPos` computes and (ii) finds only IDs that are among
the C14 fraction's documents.  With `cons_fracinfofetch_active_sound` / `_sealed_sound` this discharges the range part
of `FracWF` for every fraction the C14 life cycle produces. -/
theorem cons_fracinfofetch_c14_sound_imp_c04_fracWF (bits : Nat) (P : Fetch.Frac D → Fetch.ID → Nat)
    (aux : Pruning.Frac → FetchAux D) (f : Pruning.Frac) (hsound : Pruning.Sound f)
    (hpos : ∀ ids, (aux f).getDocPos ids = some (ids.map (P (fetchFracOfPruningU64 aux f))))
    (hheld : ∀ id, P (fetchFracOfPruningU64 aux f) id ≠ Fetch.notFound → pairOfFetchID id ∈ f.docs) :
    Fetch.FracWF bits P (fetchFracOfPruningU64 aux f) := by
  refine ⟨hpos, fun id hp => ?_, fun id lo hi hp h1 h2 => ?_⟩
  · show (if id.mid < 18446744073709551616 then Pruning.contains f id.mid else true) = true
    split
    · rename_i hm
      exact hsound _ (hheld id hp) id.mid id.mid (Nat.le_refl _) (Nat.le_refl _) hm
    · rfl
  · show (if hi < 18446744073709551616 then FracInfo.isIntersecting f.info lo hi else true) = true
    split
    · rename_i hhi
      exact hsound _ (hheld id hp) lo hi h1 h2 hhi
    · rfl

/-- non-vacuity: an active C14 fraction with one document, seen through a C04 position map -/
example : let f : Pruning.Frac := ⟨activeInfoOf 7 [[(5, 1)]], [(5, 1)]⟩
    Pruning.Sound f := cons_fracinfofetch_active_sound 7 [[(5, 1)]]

/-- **The unclamped instance does NOT satisfy `FracWF.intersects` as C04 states it (all naturals).**  Sealed fraction
created at 10^12 ms with documents 20 min and 1 ms before creation: the range `[first + 2 min, 2^64 + first + 3 min]`
covers the second document, yet `Info.IsIntersecting` reads the upper end through `int64(uint64)` as `first + 3 min`
and finds no bit in buckets 3..4.
Which side is Go: `seq.MID` is `uint64`, a range end `≥ 2^64` does not exist; C14's model is exact on uint64, C04's
hypothesis is simply stated over a larger domain than any caller uses (`groupIDsByFraction` passes the max MID of the
request).  Composition C04 ∘ C14 therefore goes through `fetchFracOfPruningU64`. -/
theorem cons_fracinfofetch_fracWF_intersects_unbounded_witness :
    let info := FracInfo.sealed ⟨86400000000000, 60000000000, 600000000000⟩ 1000000000000 [[999998800000], [999999999999]]
    (999998920000 ≤ 999999999999 ∧ 999999999999 ≤ 18446744073709551616 + 999998980000) ∧
      FracInfo.isIntersecting info 999998920000 (18446744073709551616 + 999998980000) = false ∧
      FracInfo.isIntersecting info 999998920000 999999999999 = true := by
  decide

/-! ## C05 `FracInv` -/

theorem fracinfofetch_midOf_key (mid rid : Nat) (hr : rid < 18446744073709551616) : Merge.midOf (Merge.key mid rid) = mid := by
  unfold Merge.midOf Merge.key Merge.R
  omega

/-- **C05's hypothesis `SV.Merge.FracInv` (`From ≤ MID ≤ To` for the fraction's documents) follows from C14's `Covers`**
under wave 1's record conversion `mergeFracOfPruning` (keys `mid * 2^64 + rid`).  Domain: RIDs are uint64. -/
theorem cons_fracinfofetch_covers_imp_c05_fracInv (f : Pruning.Frac) (hcov : Covers f.info (f.docs.map Prod.fst))
    (hrid : ∀ p, p ∈ f.docs → p.2 < 18446744073709551616) : Merge.FracInv (mergeFracOfPruning f) := by
  intro d hd
  simp only [mergeFracOfPruning, mergeFracOfInfo, List.mem_map] at hd
  obtain ⟨p, hp, rfl⟩ := hd
  rw [fracinfofetch_midOf_key p.1 p.2 (hrid p hp)]
  have hm : p.1 ∈ f.docs.map Prod.fst := List.mem_map_of_mem hp
  exact ⟨hcov.lo _ hm, hcov.hi _ hm⟩

theorem fracinfofetch_flatten_map_fst (bulks : List (List (Nat × Nat))) :
    bulks.flatten.map Prod.fst = (bulks.map (·.map Prod.fst)).flatten := by
  induction bulks with
  | nil => rfl
  | cons b bs ih => simp [ih]

/-- instantiated at C14's two producers: every active / sealed fraction of the C14 life cycle satisfies C05's invariant -/
theorem cons_fracinfofetch_c14_active_c05_fracInv (ct : Nat) (bulks : List (List (Nat × Nat)))
    (hrid : ∀ p, p ∈ bulks.flatten → p.2 < 18446744073709551616) :
    Merge.FracInv (mergeFracOfPruning ⟨activeInfoOf ct bulks, bulks.flatten⟩) :=
  cons_fracinfofetch_covers_imp_c05_fracInv _
    (by rw [fracinfofetch_flatten_map_fst]; exact fracinfofetch_covers_active ct bulks) hrid

theorem cons_fracinfofetch_c14_sealed_c05_fracInv (c : Consts) (ct : Nat) (bulks : List (List (Nat × Nat)))
    (hrid : ∀ p, p ∈ bulks.flatten → p.2 < 18446744073709551616) :
    Merge.FracInv (mergeFracOfPruning ⟨FracInfo.sealed c ct (bulks.map (·.map Prod.fst)), bulks.flatten⟩) :=
  cons_fracinfofetch_covers_imp_c05_fracInv _
    (by rw [fracinfofetch_flatten_map_fst]; exact fracinfofetch_covers_sealed c ct bulks) hrid

example : ∀ p, p ∈ ([[(5, 1)], [(9, 2)]] : List (List (Nat × Nat))).flatten → p.2 < 18446744073709551616 := by decide

/-! ## C07 `ActiveConc.inR` -/

/-- **C07's range invariant (`inR range d.mid` for every finished document) is C14's `Covers`** read through wave 1's
`bordersOfRange`: when the C07 range and the C14 info carry the same borders, every covered MID is `inR`. -/
theorem cons_fracinfofetch_covers_imp_c07_inR (s : Info) (r : ActiveConc.Range) (mids : List Nat)
    (hcov : Covers s mids) (hs : (s.ifrom, s.ito) = bordersOfRange r) (m : Nat) (hm : m ∈ mids) :
    ActiveConc.inR r m = true := by
  rw [cons_fracrange_inR_eq_border, ← hs]
  have h1 := hcov.lo m hm
  have h2 := hcov.hi m hm
  have h1' : ¬ m < s.ifrom := by omega
  have h2' : ¬ s.ito < m := by omega
  simp [h1', h2']

/-- and conversely C07's two range facts give C14's border part of `Covers` -/
theorem cons_fracinfofetch_c07_inR_imp_borders (s : Info) (r : ActiveConc.Range)
    (hs : (s.ifrom, s.ito) = bordersOfRange r) (m : Nat) (h : ActiveConc.inR r m = true) : s.ifrom ≤ m ∧ m ≤ s.ito := by
  rw [cons_fracrange_inR_eq_border, ← hs] at h
  simp only [Bool.not_eq_true', Bool.or_eq_false_iff, decide_eq_false_iff_not] at h
  omega

example : Covers (activeInfoOf 7 [[(5, 1)]]) [5] ∧
    ((activeInfoOf 7 [[(5, 1)]]).ifrom, (activeInfoOf 7 [[(5, 1)]]).ito) = bordersOfRange (some (5, 5)) := by
  refine ⟨fracinfofetch_covers_active 7 [[(5, 1)]], by decide⟩

end SV.Consistency
