import SeqVerif.Model.ProxySearch
import SeqVerif.Model.Repetitions
/-!
# Model consistency, topic (e4) continued: `seq.MergeQPRs` of Repetitions.lean (C17) vs ProxySearch.lean (C16)

The ID lists agree on all inputs; the surviving SOURCE of a repeated ID does not (finding at the end).
-/
namespace SV.Consistency
open SV

/-- key-level insertion / sort / dedup: what both models do once the source tags are forgotten -/
def seedsInsK (asc : Bool) (a : Nat × Nat) : List (Nat × Nat) → List (Nat × Nat)
  | [] => [a]
  | y :: ys => if ProxySearch.before asc a y then a :: y :: ys else y :: seedsInsK asc a ys

def seedsSortK (asc : Bool) (ks : List (Nat × Nat)) : List (Nat × Nat) := ks.foldr (seedsInsK asc) []

def seedsDedupKGo (last : Nat × Nat) : List (Nat × Nat) → List (Nat × Nat)
  | [] => []
  | y :: ys => if y = last then seedsDedupKGo last ys else y :: seedsDedupKGo y ys

def seedsDedupK : List (Nat × Nat) → List (Nat × Nat)
  | [] => []
  | x :: xs => x :: seedsDedupKGo x xs

theorem seeds_insertS_keys (asc : Bool) (x : ProxySearch.ID × ProxySearch.Src) (s : List (ProxySearch.ID × ProxySearch.Src)) :
    (ProxySearch.insertS asc x s).map (·.1) = seedsInsK asc x.1 (s.map (·.1)) := by
  induction s with
  | nil => rfl
  | cons y ys ih =>
    simp only [ProxySearch.insertS, List.map_cons, seedsInsK]
    split <;> simp [ih]

theorem seeds_sortS_keys (asc : Bool) (l : List (ProxySearch.ID × ProxySearch.Src)) :
    (ProxySearch.sortS asc l).map (·.1) = seedsSortK asc (l.map (·.1)) := by
  induction l with
  | nil => rfl
  | cons x xs ih =>
    simp only [ProxySearch.sortS, List.foldr_cons, List.map_cons, seedsSortK] at ih ⊢
    rw [seeds_insertS_keys, ih]

theorem seeds_proxy_dedupGo_keys (last : ProxySearch.ID) (l : List (ProxySearch.ID × ProxySearch.Src)) :
    (ProxySearch.dedupGo last l).map (·.1) = seedsDedupKGo last (l.map (·.1)) := by
  induction l generalizing last with
  | nil => rfl
  | cons y ys ih =>
    simp only [ProxySearch.dedupGo, List.map_cons, seedsDedupKGo]
    split <;> simp [ih]

theorem seeds_proxy_dedup_keys (l : List (ProxySearch.ID × ProxySearch.Src)) :
    (ProxySearch.dedup l).map (·.1) = seedsDedupK (l.map (·.1)) := by
  cases l with
  | nil => rfl
  | cons x xs => simp [ProxySearch.dedup, seedsDedupK, seeds_proxy_dedupGo_keys]

theorem seeds_rep_removeLoop_keys (interval : Nat) (last : Repetitions.IDSource) (l : List Repetitions.IDSource)
    (h : Repetitions.Hist) :
    (Repetitions.removeLoop interval last l h).1.map (·.1) = seedsDedupKGo last.1 (l.map (·.1)) := by
  induction l generalizing last h with
  | nil => rfl
  | cons x xs ih =>
    simp only [Repetitions.removeLoop, List.map_cons, seedsDedupKGo]
    by_cases e : x.1 = last.1
    · rw [if_neg (by simp [e]), if_pos e]
      exact ih ..
    · rw [if_pos (fun c => e c.symm), if_neg e]
      simp [ih]

theorem seeds_rep_removeRepetitions_keys (interval : Nat) (l : List Repetitions.IDSource) (h : Repetitions.Hist) :
    (Repetitions.removeRepetitions l h interval).1.map (·.1) = seedsDedupK (l.map (·.1)) := by
  cases l with
  | nil => rfl
  | cons x xs => simp [Repetitions.removeRepetitions, seedsDedupK, seeds_rep_removeLoop_keys]

/-! ### the two sorts give the same ID list -/

theorem seeds_idLe_trans (asc : Bool) (a b c : Repetitions.IDSource) :
    Repetitions.idLe asc a b = true → Repetitions.idLe asc b c = true → Repetitions.idLe asc a c = true := by
  cases asc <;> simp [Repetitions.idLe] <;> omega

theorem seeds_idLe_total (asc : Bool) (a b : Repetitions.IDSource) :
    (Repetitions.idLe asc a b || Repetitions.idLe asc b a) = true := by
  cases asc <;> simp [Repetitions.idLe] <;> omega

theorem seeds_not_idLe_before (asc : Bool) (a b : Repetitions.IDSource) (h : (!Repetitions.idLe asc a b) = true) :
    ProxySearch.before asc a.1 b.1 = false := by
  cases asc <;> simp [Repetitions.idLe, ProxySearch.before, ProxySearch.idLt] at h ⊢ <;> omega

theorem seeds_idLe_not_before_eq (asc : Bool) (a c : Repetitions.IDSource) (h : Repetitions.idLe asc a c = true)
    (hb : ProxySearch.before asc a.1 c.1 = false) : c.1 = a.1 := by
  apply Prod.ext
  all_goals (cases asc <;> simp [Repetitions.idLe, ProxySearch.before, ProxySearch.idLt] at h hb ⊢ <;> omega)

theorem seeds_insK_append (asc : Bool) (a : Nat × Nat) (k₁ k₂ : List (Nat × Nat))
    (h : ∀ b, b ∈ k₁ → ProxySearch.before asc a b = false) : seedsInsK asc a (k₁ ++ k₂) = k₁ ++ seedsInsK asc a k₂ := by
  induction k₁ with
  | nil => rfl
  | cons y ys ih =>
    simp only [List.cons_append, seedsInsK, h y (by simp)]
    simp [ih (fun b hb => h b (by simp [hb]))]

theorem seeds_insK_ge (asc : Bool) (a : Nat × Nat) (k : List (Nat × Nat))
    (h : ∀ c, c ∈ k → ProxySearch.before asc a c = true ∨ c = a) : seedsInsK asc a k = a :: k := by
  induction k with
  | nil => rfl
  | cons y ys ih =>
    simp only [seedsInsK]
    by_cases hb : ProxySearch.before asc a y = true
    · simp [hb]
    · rcases h y (by simp) with h1 | h1
      · exact absurd h1 hb
      · subst h1
        simp [hb, ih (fun c hc => h c (by simp [hc]))]

/-- `sort.Sort(dst.IDs)` on the ID level: `List.mergeSort` with the non-strict `SV.Repetitions.idLe` and the insertion
sort `SV.ProxySearch.sortS` with the strict `before` produce the same list of IDs. -/
theorem seeds_mergeSort_keys (asc : Bool) (zs : List Repetitions.IDSource) :
    (zs.mergeSort (Repetitions.idLe asc)).map (·.1) = seedsSortK asc (zs.map (·.1)) := by
  induction zs with
  | nil => simp [seedsSortK]
  | cons a l ih =>
    obtain ⟨l₁, l₂, h1, h2, h3⟩ := List.mergeSort_cons (seeds_idLe_trans asc) (seeds_idLe_total asc) a l
    have hp := List.pairwise_mergeSort (seeds_idLe_trans asc) (seeds_idLe_total asc) (a :: l)
    rw [h1] at hp
    have hge : ∀ c, c ∈ l₂ → Repetitions.idLe asc a c = true := by
      have := (List.pairwise_append.mp hp).2.1
      exact (List.pairwise_cons.mp this).1
    rw [h1]
    simp only [List.map_cons, seedsSortK, List.foldr_cons]
    have ih' : List.foldr (seedsInsK asc) [] (l.map (·.1)) = l₁.map (·.1) ++ l₂.map (·.1) := by
      have := ih; rw [h2] at this; simp only [seedsSortK, List.map_append] at this; exact this.symm
    rw [ih', seeds_insK_append, seeds_insK_ge]
    · simp
    · intro c hc
      obtain ⟨c', hc', rfl⟩ := List.mem_map.mp hc
      by_cases hb : ProxySearch.before asc a.1 c'.1 = true
      · exact Or.inl hb
      · exact Or.inr (seeds_idLe_not_before_eq asc a c' (hge c' hc') (by simpa using hb))
    · intro b hb
      obtain ⟨b', hb', rfl⟩ := List.mem_map.mp hb
      exact seeds_not_idLe_before asc a b' (h3 b' hb')

/-- `(shard, replica)` source of ProxySearch.lean -> `Nat` source of Repetitions.lean through any `g` -/
def seedsConvSrcD (g : Nat × Nat → Nat) (x : ProxySearch.ID × ProxySearch.Src) : Repetitions.IDSource := (x.1, g x.2)

/-- a shard answer of ProxySearch.lean as a `QPR` of Repetitions.lean (no histogram in the C16 model) -/
def seedsConvQ (g : Nat × Nat → Nat) (q : ProxySearch.QPR) : Repetitions.QPR :=
  ⟨(ProxySearch.tagged q).map (seedsConvSrcD g), q.total, []⟩

/-- **`seq.MergeQPRs`, ID list**: `SV.Repetitions.mergeQPRs` (Repetitions.lean, C17) and `SV.ProxySearch.mergeQPRs`
(ProxySearch.lean, C16) return the same IDs, for every input, limit, histogram interval and order.
Representation: `seedsConvQ g` for any source renaming `g`; sources are projected away (see the finding below). -/
theorem cons_seeds_repetitions_mergeQPRs_ids_eq_proxy_mergeQPRs (g : Nat × Nat → Nat) (qs : List ProxySearch.QPR)
    (limit interval : Nat) (asc : Bool) :
    (Repetitions.mergeQPRs (qs.map (seedsConvQ g)) limit interval asc).1.map (·.1) =
      (ProxySearch.mergeQPRs asc limit qs).ids.map (·.1) := by
  have hflat : (qs.map (seedsConvQ g)).flatMap (·.ids) = (ProxySearch.allTagged qs).map (seedsConvSrcD g) := by
    simp only [ProxySearch.allTagged, List.flatMap_map, List.map_flatMap, seedsConvQ]
  simp only [Repetitions.mergeQPRs, ProxySearch.mergeQPRs, List.map_take, hflat]
  rw [seeds_rep_removeRepetitions_keys, seeds_proxy_dedup_keys, seeds_mergeSort_keys, seeds_sortS_keys]
  simp [seedsConvSrcD, Function.comp_def]

theorem seeds_rep_removeLoop_count (interval : Nat) (last : Repetitions.IDSource) (l : List Repetitions.IDSource)
    (h : Repetitions.Hist) :
    (Repetitions.removeLoop interval last l h).2.1 + (seedsDedupKGo last.1 (l.map (·.1))).length = l.length := by
  induction l generalizing last h with
  | nil => rfl
  | cons x xs ih =>
    simp only [Repetitions.removeLoop, List.map_cons, seedsDedupKGo, List.length_cons]
    by_cases e : x.1 = last.1
    · rw [if_neg (by simp [e]), if_pos e]
      have := ih last (if interval > 0 then Repetitions.histDec h (Repetitions.bucketOf last.1 interval) else h)
      simp only; omega
    · rw [if_pos (fun c => e c.symm), if_neg e]
      have := ih x h
      simp only [List.length_cons]; omega

theorem seeds_rep_removeRepetitions_count (interval : Nat) (l : List Repetitions.IDSource) (h : Repetitions.Hist) :
    (Repetitions.removeRepetitions l h interval).2.1 = l.length - (seedsDedupK (l.map (·.1))).length := by
  cases l with
  | nil => rfl
  | cons x xs =>
    have := seeds_rep_removeLoop_count interval x xs h
    simp only [Repetitions.removeRepetitions, List.map_cons, seedsDedupK, List.length_cons]
    omega

/-- **`seq.MergeQPRs`, total**: the two models agree when the sum of the partial totals and the number of merged IDs
fit `uint64` (Repetitions.lean reduces mod 2^64, ProxySearch.lean keeps the sum unbounded). -/
theorem cons_seeds_repetitions_mergeQPRs_total_eq_proxy_mergeQPRs (g : Nat × Nat → Nat) (qs : List ProxySearch.QPR)
    (limit interval : Nat) (asc : Bool) (ht : (qs.map (·.total)).sum < 18446744073709551616)
    (hn : (ProxySearch.allTagged qs).length < 18446744073709551616) :
    (Repetitions.mergeQPRs (qs.map (seedsConvQ g)) limit interval asc).2.1 = (ProxySearch.mergeQPRs asc limit qs).total := by
  have hflat : (qs.map (seedsConvQ g)).flatMap (·.ids) = (ProxySearch.allTagged qs).map (seedsConvSrcD g) := by
    simp only [ProxySearch.allTagged, List.flatMap_map, List.map_flatMap, seedsConvQ]
  have htot : (qs.map (seedsConvQ g)).map (·.total) = qs.map (·.total) := by
    simp [seedsConvQ, Function.comp_def]
  have hk : (((ProxySearch.allTagged qs).map (seedsConvSrcD g)).mergeSort (Repetitions.idLe asc)).map (·.1) =
      (ProxySearch.sortS asc (ProxySearch.allTagged qs)).map (·.1) := by
    rw [seeds_mergeSort_keys, seeds_sortS_keys]; simp [seedsConvSrcD, Function.comp_def]
  have hlen : (((ProxySearch.allTagged qs).map (seedsConvSrcD g)).mergeSort (Repetitions.idLe asc)).length =
      (ProxySearch.sortS asc (ProxySearch.allTagged qs)).length := by
    have := congrArg List.length hk; simpa using this
  have hdd : (seedsDedupK ((((ProxySearch.allTagged qs).map (seedsConvSrcD g)).mergeSort (Repetitions.idLe asc)).map (·.1))).length =
      (ProxySearch.dedup (ProxySearch.sortS asc (ProxySearch.allTagged qs))).length := by
    rw [hk, ← seeds_proxy_dedup_keys, List.length_map]
  have hsl : (ProxySearch.sortS asc (ProxySearch.allTagged qs)).length = (ProxySearch.allTagged qs).length := by
    have := congrArg List.length (seeds_sortS_keys asc (ProxySearch.allTagged qs))
    have h2 : ∀ ks : List (Nat × Nat), (seedsSortK asc ks).length = ks.length := by
      intro ks
      induction ks with
      | nil => rfl
      | cons k ks ih =>
        have hi : ∀ (a : Nat × Nat) (l : List (Nat × Nat)), (seedsInsK asc a l).length = l.length + 1 := by
          intro a l
          induction l with
          | nil => rfl
          | cons y ys ihy => simp only [seedsInsK]; split <;> simp [ihy]
        simp only [seedsSortK, List.foldr_cons, hi, List.length_cons] at ih ⊢
        rw [ih]
    simpa [h2] using this
  simp only [Repetitions.mergeQPRs, ProxySearch.mergeQPRs, hflat, htot, seeds_rep_removeRepetitions_count, hdd, hlen,
    ProxySearch.subTotal, Repetitions.two64]
  have h3 : ∀ (ks : List (Nat × Nat)), (seedsDedupK ks).length ≤ ks.length := by
    intro ks
    cases ks with
    | nil => simp [seedsDedupK]
    | cons k ks =>
      have hgo : ∀ (last : Nat × Nat) (l : List (Nat × Nat)), (seedsDedupKGo last l).length ≤ l.length := by
        intro last l
        induction l generalizing last with
        | nil => simp [seedsDedupKGo]
        | cons y ys ihy =>
          simp only [seedsDedupKGo]
          split
          · have := ihy last; simp only [List.length_cons]; omega
          · have := ihy y; simp only [List.length_cons]; omega
      have := hgo k ks
      simp only [seedsDedupK, List.length_cons]; omega
  have hdl : (ProxySearch.dedup (ProxySearch.sortS asc (ProxySearch.allTagged qs))).length ≤
      (ProxySearch.sortS asc (ProxySearch.allTagged qs)).length := by
    have := h3 ((ProxySearch.sortS asc (ProxySearch.allTagged qs)).map (·.1))
    rw [← seeds_proxy_dedup_keys] at this
    simpa using this
  rw [hsl] at hdl ⊢
  rw [Nat.mod_eq_of_lt ht]
  generalize (ProxySearch.dedup (ProxySearch.sortS asc (ProxySearch.allTagged qs))).length = D at hdl ⊢
  generalize (ProxySearch.allTagged qs).length = N at hn hdl ⊢
  generalize (qs.map (·.total)).sum = T at ht ⊢
  repeat' split
  all_goals omega

example : (([⟨(0, 0), [(5, 7)], 1, 0⟩] : List ProxySearch.QPR).map (·.total)).sum < 18446744073709551616 ∧
    (ProxySearch.allTagged [⟨(0, 0), [(5, 7)], 1, 0⟩]).length < 18446744073709551616 := by decide

/-- FINDING (low severity, both models document that only IDs are meaningful): the surviving *source* of an ID that
two stores returned differs.  `SV.Repetitions.mergeQPRs` sorts stably (`List.mergeSort`) and keeps the FIRST store's
entry; `SV.ProxySearch.sortS` (called "stable" in its doc comment) inserts an element AFTER its equals, so the LAST
store's entry survives.  Go: `sort.Sort` is pdqsort, which for fewer than 12 elements is a plain insertion sort
moving an element left only while strictly less - stable - so on this input Go keeps the first store, as
Repetitions.lean does. -/
theorem cons_seeds_repetitions_mergeQPRs_ne_proxy_mergeQPRs_source_witness :
    (Repetitions.mergeQPRs [⟨[((5, 7), 0)], 1, []⟩, ⟨[((5, 7), 1)], 1, []⟩] 10 0 false).1 = [((5, 7), 0)] ∧
    (ProxySearch.mergeQPRs false 10 [⟨(0, 0), [(5, 7)], 1, 0⟩, ⟨(1, 0), [(5, 7)], 1, 0⟩]).ids = [((5, 7), (1, 0))] := by
  refine ⟨?_, by decide⟩
  have hs : ([((5, 7), 0), ((5, 7), 1)] : List Repetitions.IDSource).mergeSort (Repetitions.idLe false) =
      [((5, 7), 0), ((5, 7), 1)] := List.mergeSort_of_pairwise (by decide)
  simp only [Repetitions.mergeQPRs, List.flatMap_cons, List.flatMap_nil, List.append_nil, List.cons_append,
    List.nil_append, hs]
  decide

end SV.Consistency
