import SeqVerif.Model.LidQueue
import SeqVerif.Consistency.Handover
/-!
# Consistency (final wave): "a retained buffer is not overwritten while the receiver still holds it"

One abstract rule, `HandoverqRule`, over any transition system: along every continuation, as long as the receiver
still `holds` the buffer, its `view` of it is the value `v` it was handed.  Instances:

* C01 `SV.LidQ` (Model/LidQueue.lean, `getQueuedLIDs` / `PutLIDsInQueue`): the by-value hand-over `tl.queue = nil`
  (what /repo does, frac/active_lids.go:162-163) satisfies it; the aliasing variant `tl.queue = tl.queue[:0]` does not;
* C10 `SV.Handover` (Model/BulkHandover.lean): `stepClone` (storeapi/client.go `slices.Clone`) and `stepHeld` (the
  ingestor's pooled compressor, released by the consumer) satisfy it for every retained task; `stepPooled` (released on
  return) does not;
* the by-value machine `handoverValStep` of Consistency/Handover.lean satisfies it, and both safe C10 disciplines
  refine that machine (`cons_handover_clone_refines_value` there, `cons_handoverq_held_refines_value` here).
-/
namespace SV.Consistency
open SV

/-- the rule: from `s`, after ANY further events, a receiver that still holds the buffer sees `v` -/
def HandoverqRule {σ ε β : Type} (step : σ → ε → σ) (holds : σ → Prop) (view : σ → β) (s : σ) (v : β) : Prop :=
  ∀ evs : List ε, holds (evs.foldl step s) → view (evs.foldl step s) = v

/-! ## the abstract by-value machine is an instance -/

theorem handoverq_val_front (evs : List SV.Handover.Ev) (s : HandoverVal) (p : Nat) (rest : List Nat)
    (h : s.queue = p :: rest) :
    (evs.foldl handoverValStep s).out.length = s.out.length →
    ∃ rest', (evs.foldl handoverValStep s).queue = p :: rest' := by
  induction evs generalizing s rest with
  | nil => intro _; exact ⟨rest, h⟩
  | cons e evs ih =>
    intro hl
    have hmono : ∀ (l : List SV.Handover.Ev) (t : HandoverVal), t.out.length ≤ (l.foldl handoverValStep t).out.length := by
      intro l
      induction l with
      | nil => intro t; exact Nat.le_refl _
      | cons x xs ihx =>
        intro t
        refine Nat.le_trans ?_ (ihx _)
        cases x with
        | accept q => exact Nat.le_refl _
        | work =>
          simp only [handoverValStep]
          cases t.queue <;> simp
    cases e with
    | accept q =>
      exact ih (handoverValStep s (.accept q)) (rest ++ [q]) (by simp [handoverValStep, h]) hl
    | work =>
      exfalso
      have := hmono evs (handoverValStep s .work)
      simp only [List.foldl_cons] at hl
      rw [hl] at this
      simp [handoverValStep, h] at this
      omega

/-- in the by-value machine the task at the head of the queue keeps its payload until a worker takes it (no read
happened since) -/
theorem cons_handoverq_value_machine_rule (s : HandoverVal) (p : Nat) (rest : List Nat) (h : s.queue = p :: rest) :
    HandoverqRule handoverValStep (fun s' => s'.out.length = s.out.length) (fun s' => s'.queue.head?) s (some p) := by
  intro evs hh
  obtain ⟨rest', hq⟩ := handoverq_val_front evs s p rest h hh
  simp [hq]

/-! ## C10: clone and held -/

theorem handoverq_clone_inv (evs : List SV.Handover.Ev) (s : SV.Handover.St) (h : SV.Handover.Inv s) :
    SV.Handover.Inv (evs.foldl SV.Handover.stepClone s) := by
  induction evs generalizing s with
  | nil => exact h
  | cons e evs ih => exact ih _ (SV.Handover.inv_stepClone s e h)

theorem handoverq_held_inv (evs : List SV.Handover.Ev) (s : SV.Handover.St) (h : SV.Handover.InvHeld s) :
    SV.Handover.InvHeld (evs.foldl SV.Handover.stepHeld s) := by
  induction evs generalizing s with
  | nil => exact h
  | cons e evs ih => exact ih _ (SV.Handover.invHeld_step s e h)

theorem handoverq_held_inv_init : SV.Handover.InvHeld SV.Handover.St.init :=
  ⟨by simp [SV.Handover.St.init], fun b hb => by simp [SV.Handover.St.init] at hb, fun t ht => (by cases ht),
    fun o ho => (by cases ho)⟩

/-- **C10 clone is an instance**: from any reachable state, a task `(buffer, payload)` that is still queued reads its
own payload, whatever bulks and workers ran in between -/
theorem cons_handoverq_clone_rule (pre : List SV.Handover.Ev) (t : Nat × Nat) :
    HandoverqRule SV.Handover.stepClone (fun s' => t ∈ s'.queue) (fun s' => SV.Handover.readBuf s'.mem t.1)
      (SV.Handover.run SV.Handover.stepClone pre) (some t.2) := by
  intro evs hh
  have hi := handoverq_clone_inv evs _ (handoverq_clone_inv pre _ SV.Handover.inv_init)
  exact (hi.1 t hh).2

/-- **C10 held is an instance** (pooled buffer released by the consumer) -/
theorem cons_handoverq_held_rule (pre : List SV.Handover.Ev) (t : Nat × Nat) :
    HandoverqRule SV.Handover.stepHeld (fun s' => t ∈ s'.queue) (fun s' => SV.Handover.readBuf s'.mem t.1)
      (SV.Handover.run SV.Handover.stepHeld pre) (some t.2) := by
  intro evs hh
  have hi := handoverq_held_inv evs _ (handoverq_held_inv pre _ handoverq_held_inv_init)
  exact hi.2.2.1 t hh

/-- **pooled-released-on-return is NOT an instance**: after one accepted bulk its task `(0, 1)` is still queued when a
second bulk overwrites buffer 0 (C10 `pooled_counterexample`; /repo does not do this) -/
theorem cons_handoverq_pooled_rule_fails_witness :
    ¬ HandoverqRule SV.Handover.stepPooled (fun s' => (0, 1) ∈ s'.queue) (fun s' => SV.Handover.readBuf s'.mem 0)
      (SV.Handover.run SV.Handover.stepPooled [.accept 1]) (some 1) := by
  intro h
  have := h [.accept 2] (by decide)
  revert this
  decide

theorem handoverq_held_step (s : SV.Handover.St) (e : SV.Handover.Ev) (h : SV.Handover.InvHeld s) :
    handoverAbs (SV.Handover.stepHeld s e) = handoverValStep (handoverAbs s) e := by
  cases e with
  | accept p =>
    simp only [SV.Handover.stepHeld]
    cases s.free <;> simp [handoverAbs, handoverValStep]
  | work =>
    simp only [SV.Handover.stepHeld, SV.Handover.workHeld, handoverAbs, handoverValStep]
    cases hq : s.queue with
    | nil => simp [hq]
    | cons t q =>
      obtain ⟨b, p⟩ := t
      have hb := h.2.2.1 (b, p) (by rw [hq]; simp)
      simp only at hb
      simp [hb]

/-- **held refines the by-value machine** for every interleaving (the twin of `cons_handover_clone_refines_value`) -/
theorem cons_handoverq_held_refines_value (evs : List SV.Handover.Ev) :
    handoverAbs (SV.Handover.run SV.Handover.stepHeld evs) = handoverValRun evs := by
  have : ∀ (evs : List SV.Handover.Ev) (s : SV.Handover.St), SV.Handover.InvHeld s →
      handoverAbs (evs.foldl SV.Handover.stepHeld s) = evs.foldl handoverValStep (handoverAbs s) := by
    intro evs
    induction evs with
    | nil => intro s _; rfl
    | cons e evs ih =>
      intro s h
      simp only [List.foldl_cons]
      rw [ih _ (SV.Handover.invHeld_step s e h), handoverq_held_step s e h]
  exact this evs SV.Handover.St.init handoverq_held_inv_init

/-! ## C01: the token's queue of LIDs -/

theorem handoverq_lidq_view_take (q : List Nat) (cap : Nat) (byValue : Bool) : SV.LidQ.view (SV.LidQ.take q cap byValue) = q := by
  simp [SV.LidQ.view, SV.LidQ.take]

/-- **C01 `getQueuedLIDs` by value is an instance**: the merge holds the slice for good (`holds = True`); whatever is
put into the token's queue afterwards, it reads the LIDs it was given -/
theorem cons_handoverq_lidq_by_value_rule (q : List Nat) (cap : Nat) :
    HandoverqRule SV.LidQ.put (fun _ => True) SV.LidQ.view (SV.LidQ.take q cap true) q := by
  intro evs _
  have := SV.LidQ.puts_own evs (SV.LidQ.take q cap true) [] rfl
  simp only [SV.LidQ.puts] at this
  rw [this, handoverq_lidq_view_take]

/-- **`tl.queue = tl.queue[:0]` is NOT**: the next `PutLIDsInQueue` writes into the array the merge is reading.
/repo HEAD sets `tl.queue = nil` (frac/active_lids.go:163), i.e. the by-value side. -/
theorem cons_handoverq_lidq_alias_rule_fails_witness :
    ¬ HandoverqRule SV.LidQ.put (fun _ => True) SV.LidQ.view (SV.LidQ.take [1, 2] 4 false) [1, 2] := by
  intro h
  have := h [[9]] trivial
  revert this
  decide

end SV.Consistency
