import SeqVerif.Proofs.C03FetchProofs
import SeqVerif.Model.FetchFracs
import SeqVerif.Consistency.IdOrder
import SeqVerif.Model.WPIndex
import SeqVerif.Model.Collector
/-!
# Consistency: the ID order and the sealed ID look-up (`seq.Less`, `seq.LessOrEqual`,
`sealedIDsIndex.LessOrEqual`, `sealedFetchIndex.findLIDs`) - C03 sealed-format model vs C04 fetch model

Representation change: a C03 ID is a pair `(mid, rid)`, a Fetch ID the structure `{mid, rid}` (`toF` / `ofF`);
the C03 model works on the disk blocks `writeIDs per t posOf` + the table `idsTableOf .. t.length`, the Fetch model
on the flat table `t` itself.
-/
namespace SV.Consistency

open SV

/-- C03 ID pair -> Fetch ID structure -/
def toF (a : C03.ID) : Fetch.ID := ⟨a.1, a.2⟩
/-- Fetch ID structure -> C03 ID pair -/
def ofF (a : Fetch.ID) : C03.ID := (a.mid, a.rid)

@[simp] theorem toF_ofF (a : Fetch.ID) : toF (ofF a) = a := rfl
@[simp] theorem ofF_toF (a : C03.ID) : ofF (toF a) = a := rfl

theorem toF_inj {a b : C03.ID} (h : toF a = toF b) : a = b := by
  have := congrArg ofF h; simpa using this

theorem toF_eq_iff (a b : C03.ID) : toF a = toF b ↔ a = b := ⟨toF_inj, fun h => by rw [h]⟩

/-- `toF` is the composition of the coordinator's conversions (Consistency/IdOrder.lean) -/
theorem toF_eq_idorder (a : C03.ID) : toF a = fetchOfSpec (specOfPair a) := rfl

/-! ## `seq.LessOrEqual` / `seq.Less`

The pointwise equalities of the ID order across all models (`SV.C03.idLE`, `SV.Fetch.ID.le/lt`, `SV.Spec.ID.le/lt`,
`SV.Merge.key`, ...) are in Consistency/IdOrder.lean (`cons_idorder_c03_idLE_eq_fetch_le` etc.) and the search-path
interface `SV.Borders.lessOrEqual` vs `SV.Fetch.lessOrEqual` in Consistency/Borders.lean
(`cons_borders_lessOrEqual_fetch_eq_c02`); they are not repeated here.  `idLE_toF` is the first of them in the
`toF` notation used below. -/

theorem idLE_toF (a b : C03.ID) : C03.idLE a b = (toF a).le (toF b) := cons_idorder_c03_idLE_eq_fetch_le a b

/-- Go `seq.Less` vs `seq.LessOrEqual` across the two models: the C03 model has no separate `seq.Less`; the Fetch
model's `ID.lt` is the negation of the C03 model's `idLE` with swapped arguments.  All inputs. -/
theorem cons_idsLookup_fetchLt_eq_not_idLE (a b : C03.ID) : (toF a).lt (toF b) = !C03.idLE b a := by
  cases h : C03.idLE b a with
  | true =>
    rw [idLE_toF] at h
    cases h2 : (toF a).lt (toF b) with
    | false => rfl
    | true =>
      have := Fetch.ID.lt_le_trans h2 h
      rw [Fetch.ID.lt_irrefl] at this; cases this
  | false =>
    rw [idLE_toF, Fetch.ID.not_le_iff_lt] at h
    simpa using h

/-! ## the table invariants of both models -/

/-- the strict descending order of the Fetch model implies the (non-strict) one of the C03 model -/
theorem descIDs_of_desc (t : List C03.ID) (h : Fetch.Desc (t.map toF)) : C03.DescIDs t := by
  unfold Fetch.Desc at h
  rw [List.pairwise_map] at h
  refine List.Pairwise.imp ?_ h
  intro a b hab
  rw [idLE_toF]
  exact Fetch.ID.le_of_lt hab

/-! ## `sealedIDsIndex.LessOrEqual` -/

/-- Go `sealedIDsIndex.LessOrEqual(lid, id)`: `SV.C03.lessOrEqual` (Model/C03Ids.lean, on the disk blocks written by
`writeIDs` from the flat table `t` and the block-min table `idsTableOf`) = `some (SV.Fetch.lessOrEqual ..)`
(Model/FetchIDs.lean, on the flat table), IDs through `toF`.
Domain: `per >= 1` and all components `< 2^64` (`IDsInput`), `t` descending (`DescIDs`, implied by the Fetch model's
strict `Desc`, see `descIDs_of_desc`).  On this domain the C03 model never panics (`some`). -/
theorem cons_idsLookup_c03LessOrEqual_eq_fetchLessOrEqual (per : Nat) (t : List C03.ID) (posOf : C03.ID → Nat)
    (h : C03.IDsInput per t) (hd : C03.DescIDs t) (lid : Nat) (id : C03.ID) :
    C03.lessOrEqual per (C03.idsTableOf (C03.writeIDs per t posOf) t.length) (C03.writeIDs per t posOf) lid id =
      some (Fetch.lessOrEqual (t.map toF) lid (toF id)) := by
  rw [C03.lessOrEqual_spec per t posOf h hd lid id]
  unfold Fetch.lessOrEqual
  by_cases hl : lid < t.length
  · have hl' : lid < (t.map toF).length := by simpa using hl
    rw [dif_pos hl, dif_pos hl']
    simp only [List.getElem_map]
    rfl
  · have hl' : ¬ lid < (t.map toF).length := by simpa using hl
    rw [dif_neg hl, dif_neg hl']

example : C03.IDsInput 2 [(9, 9), (5, 1), (3, 0)] ∧ C03.DescIDs [(9, 9), (5, 1), (3, 0)] :=
  ⟨⟨by decide, by decide⟩, by decide⟩

/-- the block minima of the C03 writer, as the Fetch model's `minBlock` argument -/
def minBlocksOf (blocks : List C03.IDBlockDisk) : List Fetch.ID := blocks.map fun b => toF b.ext

/-- Go `sealedIDsIndex.LessOrEqual(lid, id)` with its two block short cuts, statement level:
`SV.C03.lessOrEqual` (Model/C03Ids.lean) = `some (SV.Fetch.lessOrEqualBlk ..)` (Model/FetchFracs.lean) where the
Fetch model gets `cap := per`, `minBlock := ` the registry extents of the written blocks and the flat table.
Domain: `IDsInput` only (no order needed: both follow the same statements; the bounds make the block decoders of
the C03 model succeed). -/
theorem cons_idsLookup_c03LessOrEqual_eq_fetchLessOrEqualBlk (per : Nat) (t : List C03.ID) (posOf : C03.ID → Nat)
    (h : C03.IDsInput per t) (lid : Nat) (id : C03.ID) :
    C03.lessOrEqual per (C03.idsTableOf (C03.writeIDs per t posOf) t.length) (C03.writeIDs per t posOf) lid id =
      some (Fetch.lessOrEqualBlk per (minBlocksOf (C03.writeIDs per t posOf)) (t.map toF) lid (toF id)) := by
  unfold C03.lessOrEqual Fetch.lessOrEqualBlk
  by_cases hl : lid < t.length
  · have hge : ¬ (lid ≥ (C03.idsTableOf (C03.writeIDs per t posOf) t.length).idsTotal) := by
      simp [C03.idsTableOf]; omega
    have hge' : ¬ (lid ≥ (t.map toF).length) := by simp; omega
    rw [if_neg hge, if_neg hge']
    obtain ⟨c, hb, _, _⟩ := C03.writeIDs_block per t posOf lid h.size_pos hl
    have hmin : (C03.idsTableOf (C03.writeIDs per t posOf) t.length).minBlockIDs[lid / per]? =
        some (c.getLastD (0, 0)) := by
      simp [C03.idsTableOf, hb]
    have hminF : (minBlocksOf (C03.writeIDs per t posOf)).getD (lid / per) default = toF (c.getLastD (0, 0)) := by
      simp [minBlocksOf, List.getD_eq_getElem?_getD, hb]
    simp only [hmin, hminF]
    rw [← idLE_toF]
    by_cases h1 : C03.idLE (c.getLastD (0, 0)) id = true
    · simp only [h1, Bool.not_true, Bool.false_eq_true, Bool.true_eq_false, if_false]
      -- the second short cut
      have hprev : (decide (lid / per > 0) && C03.prevLE (C03.idsTableOf (C03.writeIDs per t posOf) t.length) (lid / per) id) = true ↔
          (lid / per > 0 ∧ ((minBlocksOf (C03.writeIDs per t posOf)).getD (lid / per - 1) default).le (toF id) = true) := by
        rw [Bool.and_eq_true, decide_eq_true_iff]
        constructor
        · rintro ⟨hp, hq⟩
          refine ⟨hp, ?_⟩
          unfold C03.prevLE at hq
          cases hx : (C03.idsTableOf (C03.writeIDs per t posOf) t.length).minBlockIDs[lid / per - 1]? with
          | none => rw [hx] at hq; cases hq
          | some p =>
            rw [hx] at hq
            have : (minBlocksOf (C03.writeIDs per t posOf)).getD (lid / per - 1) default = toF p := by
              simp only [C03.idsTableOf, List.getElem?_map] at hx
              simp only [minBlocksOf, List.getD_eq_getElem?_getD, List.getElem?_map]
              cases hy : (C03.writeIDs per t posOf)[lid / per - 1]? with
              | none => rw [hy] at hx; cases hx
              | some b => rw [hy] at hx; simp at hx; simp [hx]
            rw [this, ← idLE_toF]; exact hq
        · rintro ⟨hp, hq⟩
          refine ⟨hp, ?_⟩
          unfold C03.prevLE
          have hlt : lid / per - 1 < (C03.writeIDs per t posOf).length := by
            have : (C03.writeIDs per t posOf)[lid / per]? ≠ none := by rw [hb]; simp
            have := (List.getElem?_eq_some_iff.mp (Option.ne_none_iff_exists'.mp this).choose_spec).1
            omega
          have hx : (C03.idsTableOf (C03.writeIDs per t posOf) t.length).minBlockIDs[lid / per - 1]? =
              some ((C03.writeIDs per t posOf)[lid / per - 1]).ext := by
            simp [C03.idsTableOf, hlt]
          rw [hx]
          have : (minBlocksOf (C03.writeIDs per t posOf)).getD (lid / per - 1) default =
              toF ((C03.writeIDs per t posOf)[lid / per - 1]).ext := by
            simp [minBlocksOf, List.getD_eq_getElem?_getD, hlt]
          rw [this, ← idLE_toF] at hq
          exact hq
      by_cases h2 : (decide (lid / per > 0) && C03.prevLE (C03.idsTableOf (C03.writeIDs per t posOf) t.length) (lid / per) id) = true
      · rw [if_pos h2, if_pos (hprev.mp h2)]
      · rw [if_neg h2, if_neg (fun hc => h2 (hprev.mpr hc))]
        rw [C03.getMID_spec per t posOf h lid hl, C03.getRID_spec per t posOf h lid hl]
        have hget : (t.map toF).getD lid default = toF t[lid] := by
          simp [List.getD_eq_getElem?_getD, hl]
        simp only [hget]
        show (if t[lid].1 = id.1 then _ else _) = some (if t[lid].1 = id.1 then _ else _)
        by_cases hm : t[lid].1 = id.1
        · rw [if_pos hm, if_pos hm]
          by_cases hr : id.2 = 18446744073709551615
          · rw [if_pos hr]
            have : (toF id).rid = 18446744073709551615 := hr
            rw [if_pos this]
          · rw [if_neg hr]
            have : ¬ (toF id).rid = 18446744073709551615 := hr
            rw [if_neg this]
            rfl
        · rw [if_neg hm, if_neg hm]
          rfl
    · have h1' : C03.idLE (c.getLastD (0, 0)) id = false := by simpa using h1
      rw [h1']; simp
  · have hge : lid ≥ (C03.idsTableOf (C03.writeIDs per t posOf) t.length).idsTotal := by
      simp [C03.idsTableOf]; omega
    have hge' : lid ≥ (t.map toF).length := by simp; omega
    rw [if_pos hge, if_pos hge']

example : C03.IDsInput 1 [(9, 9), (5, 1), (7, 0)] := ⟨by decide, by decide⟩

/-! ## the block-min table the Fetch model assumes is the one the C03 writer produces -/

theorem idsLookup_getLastD_eq_getElem {α} (l : List α) (d : α) (h : l ≠ []) :
    l.getLastD d = l[l.length - 1]'(by have := List.length_pos_iff.mpr h; omega) := by
  have hp := List.length_pos_iff.mpr h
  rw [List.getLastD_eq_getLast?, List.getLast?_eq_getElem?, List.getElem?_eq_getElem (by omega)]
  rfl

/-- Go `IDsTable.MinBlockIDs` (collected by `writeIDsBlocks`, reloaded from the registry): the hypothesis
`SV.Fetch.MinBlocksOK` (Model/FetchFracs.lean) under which the Fetch model proves `lessOrEqualBlk = lessOrEqual`
holds for the extents `SV.C03.writeIDs` (Model/C03Ids.lean) writes.  Domain: `per >= 1`. -/
theorem cons_idsLookup_writeIDs_minBlocksOK (per : Nat) (hper : 1 ≤ per) (t : List C03.ID) (posOf : C03.ID → Nat) :
    Fetch.MinBlocksOK per (minBlocksOf (C03.writeIDs per t posOf)) (t.map toF) := by
  intro b hb
  have hb' : b * per < t.length := by simpa using hb
  have hblk := C03.chop_block per hper t b hb'
  have hne : (t.drop (b * per)).take per ≠ [] := by
    intro h0
    have := congrArg List.length h0
    simp [List.length_take, List.length_drop] at this
    omega
  have hlen : ((t.drop (b * per)).take per).length = min per (t.length - b * per) := by
    simp [List.length_take, List.length_drop]
  have hidx : min ((b + 1) * per - 1) ((t.map toF).length - 1) < t.length := by
    simp only [List.length_map]; omega
  have hL : (minBlocksOf (C03.writeIDs per t posOf)).getD b default =
      toF (((t.drop (b * per)).take per).getLastD (0, 0)) := by
    simp [minBlocksOf, C03.writeIDs, List.getD_eq_getElem?_getD, hblk]
  have hR : (t.map toF).getD (min ((b + 1) * per - 1) ((t.map toF).length - 1)) default =
      toF (t[min ((b + 1) * per - 1) ((t.map toF).length - 1)]'hidx) := by
    have hidx' : min ((b + 1) * per - 1) (t.length - 1) < t.length := by omega
    simp [List.getD_eq_getElem?_getD, hidx']
  rw [hL, hR, idsLookup_getLastD_eq_getElem _ _ hne]
  congr 1
  rw [List.getElem_take, List.getElem_drop]
  congr 1
  rw [hlen, Nat.add_mul]
  simp only [List.length_map]
  omega

example : Fetch.MinBlocksOK 2 (minBlocksOf (C03.writeIDs 2 [(9, 9), (5, 1), (3, 0)] (fun _ => 0)))
    ([(9, 9), (5, 1), (3, 0)].map toF) := cons_idsLookup_writeIDs_minBlocksOK 2 (by decide) _ _

/-! ## `sealedFetchIndex.findLIDs` -/

/-- the binary-search probe of both models is the same number -/
theorem idsLookup_probe_eq (per : Nat) (t : List C03.ID) (posOf : C03.ID → Nat) (h : C03.IDsInput per t) (hd : C03.DescIDs t)
    (id : C03.ID) :
    binSearchInRange 1 ((C03.idsTableOf (C03.writeIDs per t posOf) t.length).idsTotal - 1)
        (fun l => (C03.lessOrEqual per (C03.idsTableOf (C03.writeIDs per t posOf) t.length)
          (C03.writeIDs per t posOf) l id).getD false) =
      Fetch.probe (t.map toF) 1 (toF id) := by
  unfold Fetch.probe
  have hf : (fun l => (C03.lessOrEqual per (C03.idsTableOf (C03.writeIDs per t posOf) t.length)
      (C03.writeIDs per t posOf) l id).getD false) = (fun l => Fetch.lessOrEqual (t.map toF) l (toF id)) := by
    funext l
    rw [cons_idsLookup_c03LessOrEqual_eq_fetchLessOrEqual per t posOf h hd l id]; rfl
  rw [hf]
  simp [C03.idsTableOf]

/-- Go `sealedFetchIndex.findLIDs` (current code, with the `int(lid) <= right` guard) for ONE requested ID:
`SV.C03.findOne` (Model/C03Docs.lean: one round with `left = 1`, on the written blocks) =
`SV.Fetch.findLIDsFixed` (Model/FetchIDs.lean: the whole loop, on the flat table) applied to the one-element list.
IDs through `toF`; the C03 result `lid` (0 = not found) is the single entry of the Fetch result.
Domain: `IDsInput` (per >= 1, components < 2^64), `DescIDs` (non-strict suffices here), non-empty table
(the system ID is always there). -/
theorem cons_idsLookup_findOne_eq_findLIDsFixed_single (per : Nat) (t : List C03.ID) (posOf : C03.ID → Nat)
    (h : C03.IDsInput per t) (hd : C03.DescIDs t) (hne : 1 ≤ t.length) (id : C03.ID) :
    Fetch.findLIDsFixed (t.map toF) [toF id] =
      some [C03.findOne per (C03.idsTableOf (C03.writeIDs per t posOf) t.length) (C03.writeIDs per t posOf) id] := by
  unfold C03.findOne
  simp only []
  rw [idsLookup_probe_eq per t posOf h hd id]
  unfold Fetch.findLIDsFixed Fetch.findLIDsFixedGo
  simp only [Fetch.nextLeft]
  have key : ∀ L : Nat,
      (if L ≤ (t.map toF).length - 1 then
        if h : L < (t.map toF).length then
          Option.map (fun x => (if (t.map toF)[L] = toF id then L else 0) :: x)
            (Fetch.findLIDsFixedGo (t.map toF) (some (toF id)) L [])
        else none
      else Option.map (fun x => 0 :: x) (Fetch.findLIDsFixedGo (t.map toF) (some (toF id)) L [])) =
      some [if L ≤ (C03.idsTableOf (C03.writeIDs per t posOf) t.length).idsTotal - 1 ∧
                C03.getMID per (C03.writeIDs per t posOf) L = some id.fst ∧
                  C03.getRID per (C03.writeIDs per t posOf) L = some id.snd then L else 0] := by
    intro L
    have hlen : (t.map toF).length = t.length := by simp
    have htot : (C03.idsTableOf (C03.writeIDs per t posOf) t.length).idsTotal = t.length := rfl
    rw [htot]
    by_cases hL : L ≤ t.length - 1
    · have hlt : L < t.length := by omega
      have hlt' : L < (t.map toF).length := by omega
      rw [if_pos (by omega), dif_pos hlt']
      rw [C03.getMID_spec per t posOf h L hlt, C03.getRID_spec per t posOf h L hlt]
      simp only [Fetch.findLIDsFixedGo, Option.map_some, List.getElem_map, toF_eq_iff]
      by_cases he : t[L] = id
      · rw [if_pos he, if_pos ⟨hL, by rw [he], by rw [he]⟩]
      · rw [if_neg he, if_neg]
        rintro ⟨_, h1, h2⟩
        exact he (Prod.ext (Option.some.inj h1) (Option.some.inj h2))
    · rw [if_neg (by omega), if_neg (fun hc => hL hc.1)]
      simp [Fetch.findLIDsFixedGo]
  exact key _

/-- Go `sealedFetchIndex.findLIDs` for a whole request (any order, repeated IDs allowed): the Fetch model's loop with
the carried search border returns, ID by ID, what the C03 model's single round returns.
Domain: as above plus the Fetch model's own invariants: strictly descending table with at least one real ID. -/
theorem cons_idsLookup_findLIDsFixed_eq_map_findOne (per : Nat) (t : List C03.ID) (posOf : C03.ID → Nat)
    (h : C03.IDsInput per t) (hd : Fetch.Desc (t.map toF)) (hne : 2 ≤ t.length) (ids : List C03.ID) :
    Fetch.findLIDsFixed (t.map toF) (ids.map toF) =
      some (ids.map (C03.findOne per (C03.idsTableOf (C03.writeIDs per t posOf) t.length) (C03.writeIDs per t posOf))) := by
  have hne' : 2 ≤ (t.map toF).length := by simpa using hne
  rw [Fetch.findLIDsFixed_spec _ hd hne', List.map_map]
  congr 1
  apply List.map_congr_left
  intro id _
  have h1 := cons_idsLookup_findOne_eq_findLIDsFixed_single per t posOf h (descIDs_of_desc t hd) (by omega) id
  rw [Fetch.findLIDsFixed_spec _ hd hne'] at h1
  simpa using h1

example : C03.IDsInput 2 [(9, 9), (5, 1), (3, 0)] ∧ Fetch.Desc ([(9, 9), (5, 1), (3, 0)].map toF) :=
  ⟨⟨by decide, by decide⟩, by decide⟩

/-- the hypotheses hold for a real table: Go's system ID `(MaxUint64, MaxUint64)` (frac/active.go `systemSeqID`) in
front is the greatest ID, so the WHOLE flat table is strictly descending -/
example : C03.IDsInput 2 [(18446744073709551615, 18446744073709551615), (5, 1), (3, 0)] ∧
    Fetch.Desc ([(18446744073709551615, 18446744073709551615), (5, 1), (3, 0)].map toF) ∧
    2 ≤ [((18446744073709551615 : Nat), (18446744073709551615 : Nat)), (5, 1), (3, 0)].length :=
  ⟨⟨by decide, by decide⟩, by decide, by decide⟩

/-! ## `getDocPosByLIDs` / `GetDocPos` of a sealed fraction -/

/-- Go `getIDsBlocksGenerator` slicing: `SV.Fetch.chunkN` (Model/FetchFracs.lean, cutting the flat position table) =
`SV.C03.chopGo` (Model/C03Ids.lean, cutting the ID list) - same fuel, all inputs (also `cap = 0`). -/
theorem cons_idsLookup_chunkN_eq_chopGo (cap fuel : Nat) (l : List Nat) :
    Fetch.chunkN cap fuel l = C03.chopGo cap fuel l := by
  induction fuel generalizing l with
  | zero => cases l <;> rfl
  | succ fuel ih =>
    cases l with
    | nil => simp [Fetch.chunkN, C03.chopGo]
    | cons x xs =>
      have hne : (x :: xs) ≠ [] := by simp
      simp only [Fetch.chunkN, C03.chopGo, hne, if_false]
      rw [ih]
      by_cases h : cap ≤ (x :: xs).length
      · rw [Nat.min_eq_left h]
      · have h' : (x :: xs).length ≤ cap := by omega
        rw [Nat.min_eq_right h', List.take_of_length_le h', List.take_of_length_le (Nat.le_refl _),
          List.drop_of_length_le h', List.drop_of_length_le (Nat.le_refl _)]

/-- decoded position block of a written ID block (an undecodable block reads as empty) -/
def posBlocksOf (blocks : List C03.IDBlockDisk) : List (List Nat) :=
  blocks.map fun b => (C03.unpackDeltas b.pos).getD []

/-- Go `getDocPosByLIDs` for one non-zero LID (`GetParamsBlock(lid / cap)[lid - lid/cap*cap]`):
`SV.C03.getPos` (Model/C03Ids.lean, on disk blocks, `none` = panic) vs `SV.Fetch.posByBlocks` (Model/FetchFracs.lean, on
decoded blocks, out-of-range = `DocPosNotFound`).  Representation change: the Fetch model's blocks are the decoded
position blocks; the C03 panic value is read as `DocPosNotFound`.  All inputs. -/
theorem cons_idsLookup_getPos_eq_posByBlocks (per : Nat) (blocks : List C03.IDBlockDisk) (lid : Nat) :
    (C03.getPos per blocks lid).getD Fetch.notFound = Fetch.posByBlocks per (posBlocksOf blocks) lid := by
  unfold C03.getPos Fetch.posByBlocks posBlocksOf
  simp only [List.getD_eq_getElem?_getD, List.getElem?_map]
  cases hb : blocks[lid / per]? with
  | none => simp
  | some b =>
    simp only [Option.map_some, Option.getD_some]
    cases hu : C03.unpackDeltas b.pos with
    | none => simp
    | some vals => simp

/-- `DocPosNotFound`: the constant of both models -/
theorem cons_idsLookup_docPosNotFound_eq : C03.docPosNotFound = Fetch.notFound := rfl

theorem idsLookup_findOne_lt (per : Nat) (T : C03.IDsTable) (B : List C03.IDBlockDisk) (id : C03.ID) (h : 1 ≤ T.idsTotal) :
    C03.findOne per T B id < T.idsTotal := by
  unfold C03.findOne
  simp only []
  split
  · rename_i hc; omega
  · omega

/-- Go `sealedFetchIndex.GetDocPos(ids)` = `getDocPosByLIDs(findLIDs(ids))`:
`SV.Fetch.sealedGetDocPos` (Model/FetchDocs.lean: flat ID table + flat position table `pos[lid]`) =
ID by ID `SV.C03.sealedDocPos` (Model/C03Docs.lean: written ID/position blocks).  The flat position table of the Fetch
model is `t.map posOf`, IDs through `toF`.
Domain: `IDsInput`, positions `< 2^64`, and the Fetch model's table invariants (strict `Desc`, >= 1 real ID). -/
theorem cons_idsLookup_sealedGetDocPos_eq_map_sealedDocPos (per : Nat) (t : List C03.ID) (posOf : C03.ID → Nat)
    (h : C03.IDsInput per t) (hpos : ∀ x, x ∈ t → posOf x < C03.W64) (hd : Fetch.Desc (t.map toF))
    (hne : 2 ≤ t.length) (ids : List C03.ID) :
    Fetch.sealedGetDocPos (t.map toF) (t.map posOf) (ids.map toF) =
      some (ids.map (C03.sealedDocPos per (C03.idsTableOf (C03.writeIDs per t posOf) t.length)
        (C03.writeIDs per t posOf))) := by
  unfold Fetch.sealedGetDocPos
  rw [cons_idsLookup_findLIDsFixed_eq_map_findOne per t posOf h hd hne ids]
  simp only [Option.map_some, Fetch.getDocPosByLIDs, List.map_map]
  congr 1
  apply List.map_congr_left
  intro id _
  simp only [Function.comp, C03.sealedDocPos]
  have hlt := idsLookup_findOne_lt per (C03.idsTableOf (C03.writeIDs per t posOf) t.length) (C03.writeIDs per t posOf) id
    (by show 1 ≤ t.length; omega)
  have hlt' : C03.findOne per (C03.idsTableOf (C03.writeIDs per t posOf) t.length) (C03.writeIDs per t posOf) id
      < t.length := hlt
  generalize C03.findOne per (C03.idsTableOf (C03.writeIDs per t posOf) t.length) (C03.writeIDs per t posOf) id = L at *
  by_cases h0 : L = 0
  · rw [if_pos h0, if_pos h0]; rfl
  · rw [if_neg h0, if_neg h0, C03.getPos_spec per t posOf h hpos L hlt']
    simp [List.getD_eq_getElem?_getD, hlt']

example : (∀ x, x ∈ [((9 : Nat), (9 : Nat)), (5, 1), (3, 0)] → (fun (y : C03.ID) => y.1 + 1) x < C03.W64) := by decide

/-- the specification function of the Fetch model, `SV.Fetch.sealedPosOf` (Model/FetchFracs.lean: "the entry of the
ID's LID, `DocPosNotFound` when the table lacks the ID", used as `P` in `FracWF` / `c04_fetch_eq_spec`), is the C03
model's executable `sealedDocPos`.  Same domain as above. -/
theorem cons_idsLookup_sealedPosOf_eq_sealedDocPos (per : Nat) (t : List C03.ID) (posOf : C03.ID → Nat)
    (h : C03.IDsInput per t) (hpos : ∀ x, x ∈ t → posOf x < C03.W64) (hd : Fetch.Desc (t.map toF))
    (hne : 2 ≤ t.length) (id : C03.ID) :
    Fetch.sealedPosOf (t.map toF) (t.map posOf) (toF id) =
      C03.sealedDocPos per (C03.idsTableOf (C03.writeIDs per t posOf) t.length) (C03.writeIDs per t posOf) id := by
  have h1 := cons_idsLookup_sealedGetDocPos_eq_map_sealedDocPos per t posOf h hpos hd hne [id]
  have h2 := Fetch.sealedGetDocPos_spec (t.map toF) (t.map posOf) hd (by simpa using hne) [toF id]
  simp only [List.map_cons, List.map_nil] at h1 h2
  rw [h2] at h1
  simpa using h1

/-! ## `DocsPositions.Get` / `GetSync` and `activeFetchIndex.GetDocPos` -/

/-- Go `DocsPositions.GetSync(id)` (absent -> `DocPosNotFound`): `SV.C03.activeDocPos` (Model/C03Docs.lean, on
`lookupPos`) = `SV.Fetch.mapGet` (Model/FetchDocs.lean); keys through `toF`.  All inputs (first match wins in both). -/
theorem cons_idsLookup_activeDocPos_eq_mapGet (m : List (C03.ID × Nat)) (id : C03.ID) :
    C03.activeDocPos m id = Fetch.mapGet (m.map fun e => (toF e.1, e.2)) (toF id) := by
  unfold C03.activeDocPos C03.lookupPos Fetch.mapGet
  induction m with
  | nil => rfl
  | cons e rest ih =>
    simp only [List.map_cons, List.find?_cons]
    by_cases he : e.1 = id
    · simp [he]
    · have h1 : (e.1 == id) = false := by simpa using he
      have h2 : decide (toF e.1 = toF id) = false := by simpa [toF_eq_iff] using he
      rw [h1, h2]; exact ih

/-- Go `activeFetchIndex.GetDocPos(ids)`: `SV.Fetch.activeGetDocPos` = ID by ID `SV.C03.activeDocPos`. All inputs. -/
theorem cons_idsLookup_activeGetDocPos_eq_map_activeDocPos (m : List (C03.ID × Nat)) (ids : List C03.ID) :
    Fetch.activeGetDocPos (m.map fun e => (toF e.1, e.2)) (ids.map toF) = some (ids.map (C03.activeDocPos m)) := by
  unfold Fetch.activeGetDocPos
  rw [List.map_map]
  congr 1
  apply List.map_congr_left
  intro id _
  exact (cons_idsLookup_activeDocPos_eq_mapGet m id).symm

/-- Go `DocsPositions.Get` as an optional: `SV.WPath.lookupPos` (Model/WPIndex.lean, positions kept unpacked as
`(block, offset)`) vs `SV.C03.lookupPos` (Model/C03Docs.lean, packed numbers): equal through ANY packing `f` of the
stored value.  All inputs. -/
theorem cons_idsLookup_wpLookupPos_eq_c03LookupPos (f : WPath.Pos → Nat) (ps : List (WPath.DocID × WPath.Pos))
    (id : WPath.DocID) :
    (WPath.lookupPos ps id).map f = C03.lookupPos (ps.map fun e => (e.1, f e.2)) id := by
  unfold WPath.lookupPos C03.lookupPos
  induction ps with
  | nil => rfl
  | cons e rest ih =>
    simp only [List.map_cons, List.find?_cons]
    by_cases he : e.1 = id
    · simp [he]
    · have h1 : (e.1 == id) = false := by simpa using he
      have h2 : decide (e.1 = id) = false := by simpa using he
      rw [h1, h2]; exact ih

/-- Go `dp.positions[id]`: the collector model (Model/Collector.lean, also used by Model/DedupIndex.lean `fetch` and -
with the same core function - Model/ActiveConc.lean `fetchOne`) reads the map with core `List.lookup`;
`SV.WPath.lookupPos` is `find?`-based.  Same result on all inputs. -/
theorem cons_idsLookup_collectorLookup_eq_wpLookupPos (dp : Collector.DocsPositions) (id : Collector.ID) :
    dp.lookup id = WPath.lookupPos dp id := by
  unfold WPath.lookupPos
  induction dp with
  | nil => rfl
  | cons e rest ih =>
    obtain ⟨k, v⟩ := e
    simp only [List.lookup_cons, List.find?_cons]
    by_cases he : k = id
    · subst he; simp
    · have h1 : (id == k) = false := by simpa using fun hh : id = k => he hh.symm
      have h2 : decide (k = id) = false := by simpa using he
      rw [h1, h2]; exact ih

end SV.Consistency
