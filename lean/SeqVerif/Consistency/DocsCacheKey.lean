import SeqVerif.Model.C03DocsCache
import SeqVerif.Model.FetchActive
/-!
# Consistency: the docs-block cache of `disk.DocsReader.ReadDocsFunc` (`r.cache.GetWithError(uint32(blockOffset), load)`)

* C03 `SV.C03.docsCacheKey`, `readThrough`, `readSeq`, `CacheOK`, `readThrough_spec`, `readSeq_spec`
  (Model/C03DocsCache.lean): the cache is an association list, filled by the reads, key a parameter;
* C04 `SV.Fetch.cachedRead`, `CacheFilledFrom`, `cachedRead_sound`, `offsets_below_4GiB_injective`
  (Model/FetchActive.lean): the cache is a function `key -> Option block`, the key `off % 2^32` written inline.
  (Props/C04.lean `c04_cache_key_sound` instantiates the C04 side; the block/offset side of a document position is in
  Consistency/DocPos.lean and Consistency/IdsLookupActive.lean.)

Representation: `docsCacheFn` turns the C03 association list into the C04 look-up function (first entry per key wins, as
`List.find?` does in `readThrough`).
-/
namespace SV.Consistency

open SV

/-- C03 cache (association list, newest first) -> C04 cache (look-up function) -/
def docsCacheFn {α : Type} (c : List (Nat × α)) : Nat → Option α := fun k => (c.find? fun p => p.1 == k).map (·.2)

/-- Go `uint32(blockOffset)`: the key of the C04 model (inline `off % 4294967296`) is `SV.C03.docsCacheKey`.  All inputs. -/
theorem cons_docsCacheKey_cachedRead_key (cache : Nat → Option (List Nat)) (file : Nat → List Nat) (off : Nat) :
    Fetch.cachedRead cache file off = (match cache (C03.docsCacheKey off) with | some p => p | none => file off) := rfl

/-- Go `ReadDocsFunc` block look-up, the VALUE returned: `SV.C03.readThrough` with the uint32 key =
`SV.Fetch.cachedRead` on the converted cache.  All inputs (no soundness condition needed: same look-up). -/
theorem cons_docsCacheKey_readThrough_eq_cachedRead (load : Nat → List Nat) (c : List (Nat × List Nat)) (off : Nat) :
    (C03.readThrough C03.docsCacheKey load c off).1 = Fetch.cachedRead (docsCacheFn c) load off := by
  unfold C03.readThrough Fetch.cachedRead docsCacheFn
  change _ = (match (c.find? fun p => p.1 == C03.docsCacheKey off).map (·.2) with | some p => p | none => load off)
  cases c.find? (fun p => p.1 == C03.docsCacheKey off) <;> rfl

/-- the soundness condition "no two block offsets that occur share a key" is THE SAME predicate in both models:
C03's `hinj` (hypothesis of `readThrough_spec` / `readSeq_spec`) at `key := docsCacheKey`, `dom := (· ∈ offsets)` is C04's
`hinj` (hypothesis of `cachedRead_sound`). -/
theorem cons_docsCacheKey_injectivity_same (offsets : List Nat) :
    (∀ a b, a ∈ offsets → b ∈ offsets → C03.docsCacheKey a = C03.docsCacheKey b → a = b) ↔
    (∀ a b, a ∈ offsets → b ∈ offsets → a % 4294967296 = b % 4294967296 → a = b) := Iff.rfl

/-- the cache invariants: C03's `CacheOK` (every entry is the block of an offset of the domain with that key) implies
C04's `CacheFilledFrom` for the converted cache.  (The converse does not hold for shadowed entries of the list, which no
look-up returns.) -/
theorem cons_docsCacheKey_cacheOK_imp_filledFrom (load : Nat → List Nat) (offsets : List Nat) (c : List (Nat × List Nat))
    (h : C03.CacheOK C03.docsCacheKey load (· ∈ offsets) c) : Fetch.CacheFilledFrom (docsCacheFn c) load offsets := by
  intro k p hkp
  unfold docsCacheFn at hkp
  cases hf : c.find? (fun q => q.1 == k) with
  | none => rw [hf] at hkp; cases hkp
  | some q =>
    rw [hf] at hkp
    have hq : q.2 = p := Option.some.inj hkp
    have hm := List.mem_of_find?_eq_some hf
    have hk : q.1 = k := by simpa using List.find?_some hf
    obtain ⟨o, ho, hko, hv⟩ := h q hm
    exact ⟨o, ho, by rw [← hk, ← hko]; rfl, by rw [← hq, hv]⟩

/-- the two transparency theorems say the same: under the C03 hypotheses (`CacheOK`, injective key on the offsets that
occur) the C04 theorem `Fetch.cachedRead_sound` applies to the converted cache and yields the C03 conclusion
(`readThrough_spec`, first component).  So the hypotheses of `cachedRead_sound` are derivable from those of
`readThrough_spec`. -/
theorem cons_docsCacheKey_sound_c03_imp_c04 (load : Nat → List Nat) (offsets : List Nat) (c : List (Nat × List Nat))
    (hc : C03.CacheOK C03.docsCacheKey load (· ∈ offsets) c)
    (hinj : ∀ a b, a ∈ offsets → b ∈ offsets → C03.docsCacheKey a = C03.docsCacheKey b → a = b)
    (off : Nat) (ho : off ∈ offsets) :
    Fetch.cachedRead (docsCacheFn c) load off = load off ∧
    (C03.readThrough C03.docsCacheKey load c off).1 = load off := by
  have h1 := Fetch.cachedRead_sound (docsCacheFn c) load offsets
    (cons_docsCacheKey_cacheOK_imp_filledFrom load offsets c hc) ((cons_docsCacheKey_injectivity_same offsets).mp hinj) off ho
  exact ⟨h1, by rw [cons_docsCacheKey_readThrough_eq_cachedRead]; exact h1⟩

example : C03.CacheOK C03.docsCacheKey (fun o => [o]) (· ∈ [0, 64]) [(64, [64])] := by
  intro p hp
  simp at hp; subst hp
  exact ⟨64, by simp, by decide, rfl⟩

/-- the sufficient condition "docs file below 4 GiB": C03's `docsCacheKey_injective` and C04's
`offsets_below_4GiB_injective` state the same fact; either gives the shared injectivity predicate. -/
theorem cons_docsCacheKey_below_4GiB (offsets : List Nat) (h : ∀ o, o ∈ offsets → o < 4294967296) :
    ∀ a b, a ∈ offsets → b ∈ offsets → C03.docsCacheKey a = C03.docsCacheKey b → a = b :=
  fun a b ha hb hab => C03.docsCacheKey_injective a b (h a ha) (h b hb) hab

/-- beyond 4 GiB both models exhibit the collision (C03 `docsCacheKey_collides`, C04 `cachedRead_collision_witness`): with
blocks at offsets 64 and 2^32+64, after the first was read the second read returns the first block - in both models.
This follows the Go code (`uint32(blockOffset)` in disk/docs_reader.go); reachable only with a docs file >= 4 GiB. -/
theorem cons_docsCacheKey_collision_witness :
    (C03.readSeq C03.docsCacheKey (fun o => [o]) [] [64, 4294967296 + 64]) = [[64], [64]] ∧
    Fetch.cachedRead (docsCacheFn [(64, [64])]) (fun o => [o]) (4294967296 + 64) = [64] := by
  decide

end SV.Consistency
