import SeqVerif.Model.Agg
import SeqVerif.Model.SearchDocs
import SeqVerif.Model.Repetitions
/-!
# Consistency: the histogram of a search (`iterateEvalTree`'s `histogram[bucket]++`, the `dst.Histogram[time] += count`
loop of `seq.MergeQPRs`, `removeHistogramRepetition`'s bucket) - three models

| Go | C06 (Model/Agg.lean, `SV.Agg`) | C05/C19 (Model/MergeQPR.lean, SearchDocs.lean, `SV.Merge`) | C17 (Model/Repetitions.lean) |
|---|---|---|---|
| `bucket := mid - mid % interval` | `histBucket`, `extractBin` (aggregation time bins) | `bucket hi key` | `bucketOf id interval` |
| `map[MID]uint64` read            | `histGet` (`List.lookup`) | `Hist.get` | a function |
| `histogram[bucket]++`            | `incr`, `histRun` | `Hist.upd _ _ (· + 1)`, `histOf` | - |
| `dst[time] += count`             | `histAdd`, `histMerge` | `Hist.upd _ _ (· + n)`, `addHist` | `histSum` (see Consistency/MergeQPR.lean) |
| `histogram[bucket]--` (uint64)   | - | `decU64` | `dec64` |

C06 and C05 use the same representation (association list, first entry of a key counts), so those equalities are
unconditional.  C05 addresses a document by the number `mid * 2^64 + rid`; its bucket equals the others' for `rid < 2^64`.
-/
namespace SV.Consistency

/-! ## the bucket rule -/

/-- C05's bucket of a key = C06's bucket of the MID -/
theorem cons_hist_merge_bucket_eq_agg_histBucket (hi k : Nat) :
    Merge.bucket hi k = Agg.histBucket hi (Merge.midOf k) := rfl

/-- ... in terms of `(mid, rid)`, for RIDs that fit `uint64` -/
theorem cons_hist_merge_bucket_key_eq_agg_histBucket (hi mid rid : Nat) (h : rid < Merge.R) :
    Merge.bucket hi (Merge.key mid rid) = Agg.histBucket hi mid := by
  rw [cons_hist_merge_bucket_eq_agg_histBucket, Merge.midOf_key mid rid h]

/-- C17's bucket = C06's bucket -/
theorem cons_hist_rep_bucketOf_eq_agg_histBucket (id : Nat × Nat) (interval : Nat) :
    Repetitions.bucketOf id interval = Agg.histBucket interval id.1 := rfl

/-- C17's bucket = C05's bucket of the key -/
theorem cons_hist_rep_bucketOf_eq_merge_bucket (id : Nat × Nat) (interval : Nat) (h : id.2 < Merge.R) :
    Repetitions.bucketOf id interval = Merge.bucket interval (Merge.key id.1 id.2) := by
  rw [cons_hist_merge_bucket_key_eq_agg_histBucket _ _ _ h]; rfl

/-- the time bin of an aggregation (`provideExtractTimeFunc`, interval an `int64`) is the histogram bucket rule for
a positive interval; for `interval <= 0` aggregations use bin 0 while a histogram does not exist at all -/
theorem cons_hist_agg_extractBin_eq_histBucket (interval : Int) (mid : Nat) (h : 0 < interval) :
    Agg.extractBin interval mid = Agg.histBucket interval.toNat mid := by
  unfold Agg.extractBin Agg.histBucket
  rw [if_neg (by omega)]

/-! ## reading and updating the map -/

/-- C06's `histGet` = C05's `Hist.get` -/
theorem cons_hist_agg_histGet_eq_merge_get (h : List (Nat × Nat)) (k : Nat) : Agg.histGet h k = Merge.Hist.get h k := by
  unfold Agg.histGet
  induction h with
  | nil => rfl
  | cons p t ih =>
    obtain ⟨k', v⟩ := p
    simp only [List.lookup, Merge.Hist.get]
    by_cases e : k' = k
    · subst e; simp
    · have : (k == k') = false := by simp; exact fun h => e h.symm
      rw [this, if_neg e]; exact ih

/-- C06's `histogram[k]++` = C05's -/
theorem cons_hist_agg_incr_eq_merge_upd (k : Nat) (h : List (Nat × Nat)) :
    Agg.incr k h = Merge.Hist.upd h k (· + 1) := by
  induction h with
  | nil => rfl
  | cons p t ih =>
    obtain ⟨k', v⟩ := p
    simp only [Agg.incr, Merge.Hist.upd]
    split
    · rfl
    · rw [ih]

/-- C06's `dst[k] += n` = C05's -/
theorem cons_hist_agg_histAdd_eq_merge_upd (k n : Nat) (h : List (Nat × Nat)) :
    Agg.histAdd k n h = Merge.Hist.upd h k (· + n) := by
  induction h with
  | nil => simp [Agg.histAdd, Merge.Hist.upd]
  | cons p t ih =>
    obtain ⟨k', v⟩ := p
    simp only [Agg.histAdd, Merge.Hist.upd]
    split
    · rfl
    · rw [ih]

/-! ## the histogram of one fraction and the merge -/

/-- `histogram[bucket]++` over the matching documents: C06's `histRun` (on MIDs) = C05's `histOf` (on keys) -/
theorem cons_hist_agg_histRun_eq_merge_histOf (hi : Nat) (docs : List Nat) :
    Agg.histRun hi (docs.map Merge.midOf) = Merge.histOf hi docs := by
  unfold Agg.histRun Merge.histOf
  generalize ([] : List (Nat × Nat)) = acc
  induction docs generalizing acc with
  | nil => rfl
  | cons d ds ih =>
    simp only [List.map_cons, List.foldl_cons]
    rw [cons_hist_agg_incr_eq_merge_upd, ← cons_hist_merge_bucket_eq_agg_histBucket]
    exact ih _

/-- the histogram loop of `MergeQPRs`: C06's `histMerge` = C05's `addHist` -/
theorem cons_hist_agg_histMerge_eq_merge_addHist (dst src : List (Nat × Nat)) :
    Agg.histMerge dst src = Merge.addHist dst src := by
  unfold Agg.histMerge Merge.addHist
  induction src generalizing dst with
  | nil => rfl
  | cons p t ih =>
    simp only [List.foldl_cons]
    rw [cons_hist_agg_histAdd_eq_merge_upd]
    exact ih _

/-! ## the uint64 decrement -/

/-- `histogram[bucket]--`: C17's `dec64` = C05's `decU64` on `uint64` values (the C05 model keeps sums unbounded, so
above 2^64 the two differ - not reachable from `uint64` counts) -/
theorem cons_hist_rep_dec64_eq_merge_decU64 (v : Nat) (h : v < Merge.R) : Repetitions.dec64 v = Merge.decU64 v := by
  unfold Repetitions.dec64 Repetitions.two64 Merge.decU64
  unfold Merge.R at *
  split <;> omega

example : (5 : Nat) < Merge.R := by unfold Merge.R; omega

end SV.Consistency
