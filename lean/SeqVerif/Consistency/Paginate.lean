import SeqVerif.Model.SearchDocsLemmas
import SeqVerif.Model.ProxySearch
/-!
# Consistency: `Ingestor.paginateIDs` (proxy/search/ingestor.go)

* `SV.Merge.paginate` (Model/SearchDocs.lean, C05): the Go statements (`if len(ids) > offset { ids = ids[offset:] } else
  { ids = nil }`, `if len(ids) > size { ids = ids[:size] }`), on keys, returns the page and its length;
* `SV.ProxySearch.paginate` (Model/ProxySearch.lean, C16; reused unchanged by Model/ProxyRead.lean and
  ProxyCompose.lean): `(ids.drop offset).take size` on tagged pairs.
`Props/C16.lean c16_merge_models_agree` (third conjunct) relates the two *after* `MergeQPRs`; the theorem here is about
`paginateIDs` alone, for every list and every element representation `f`.  (The mechanical translation of the Go
function is tied to C05's model by `Props/C05T.lean`.)
-/
namespace SV.Consistency

/-- C05's `paginate` = C16's `paginate`, on all inputs, through any change of element representation -/
theorem cons_paginate_merge_eq_proxy (f : ProxySearch.ID × ProxySearch.Src → Nat)
    (ids : List (ProxySearch.ID × ProxySearch.Src)) (offset size : Nat) :
    (Merge.paginate (ids.map f) offset size).1 = (ProxySearch.paginate ids offset size).map f ∧
    (Merge.paginate (ids.map f) offset size).2 = (ProxySearch.paginate ids offset size).length := by
  obtain ⟨h1, h2⟩ := Merge.paginate_eq (ids.map f) offset size
  rw [h1, h2]
  simp [ProxySearch.paginate, List.map_take, List.map_drop]

end SV.Consistency
