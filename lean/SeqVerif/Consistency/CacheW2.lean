import SeqVerif.Consistency.FileSetRetention
import SeqVerif.Model.CacheOld
/-!
# Consistency (wave 2): `cache.Cleaner` - pieces added to `SV.Cache` since wave 1

* `SV.Cache.releaseBucketsOld` (+ `toDelete`, `swapLoop`; Model/Cache.lean, commit 95ee7d4) is a SECOND model of the
  pre-repair swap-with-last loop of `Cleaner.ReleaseBuckets`; the first is the seed `SV.Buckets.releaseBuckets`
  (Model/Buckets.lean).  They are equal after wave 1's change of representation (`bucketIdsOf` / `bucketRelOf`).
* `SV.Cache.addBucketAppend` / `addBucketSetGen` (Model/CacheOld.lean, uncommitted "what-if": `AddBucket` split in two
  critical sections) vs `SV.Cache.newCache` (the atomic `AddBucket` of /repo): run back to back the two halves ARE
  `newCache`; they differ only when something is scheduled in between (C18's `c18_addbucket_must_be_atomic`).

`Consistency/FileSetRetention.lean` (wave 1) was re-checked against the changed `Model/Cache*.lean`: it compiles unchanged
and `SV.Cache.releaseBuckets` is still the stable filter it is compared with.  The cleaner's size accounting
(`getSize`, `gsize`) has no counterpart in `SV.Buckets` (the seed has no sizes): nothing to compare.
-/
namespace SV.Consistency
open SV

theorem cachew2_relOf_mem (bs : List Buckets.B) (hnd : (bucketIdsOf bs).Nodup) (b : Buckets.B) (hb : b ∈ bs) :
    bucketRelOf bs b.id = b.released := by
  unfold bucketRelOf
  induction bs with
  | nil => cases hb
  | cons x xs ih =>
    simp only [bucketIdsOf, List.map_cons, List.nodup_cons] at hnd
    simp only [List.find?_cons]
    rcases List.mem_cons.mp hb with rfl | hm
    · simp
    · have hne : x.id ≠ b.id := by
        intro h; apply hnd.1; rw [h]; exact List.mem_map_of_mem (f := (·.id)) hm
      simp only [hne, decide_false]
      exact ih hnd.2 hm

theorem cachew2_getD_id (bs : List Buckets.B) (k : Nat) :
    (bs.getD k ⟨0, false⟩).id = (bucketIdsOf bs).getD k 0 := by
  unfold bucketIdsOf
  simp only [List.getD_eq_getElem?_getD, List.getElem?_map]
  cases bs[k]? <;> rfl

/-- the `toDelete` slice: seed `SV.Buckets.toDelete` = C18 `SV.Cache.toDelete`.  Domain: distinct bucket ids. -/
theorem cons_cachew2_toDelete_seed_eq_c18 (bs : List Buckets.B) (hnd : (bucketIdsOf bs).Nodup) :
    Buckets.toDelete bs = Cache.toDelete (bucketRelOf bs) (bucketIdsOf bs) := by
  unfold Buckets.toDelete Cache.toDelete
  have hlen : (bucketIdsOf bs).length = bs.length := by simp [bucketIdsOf]
  rw [hlen]
  apply List.filter_congr
  intro i hi
  rw [List.mem_range] at hi
  rw [← cachew2_getD_id]
  have hmem : bs.getD i ⟨0, false⟩ ∈ bs := by
    rw [List.getD_eq_getElem?_getD, List.getElem?_eq_getElem hi]
    exact List.getElem_mem hi
  rw [cachew2_relOf_mem bs hnd _ hmem]

/-- the swap-with-last loop commutes with the projection to ids: seed `SV.Buckets.swapLoop` vs C18 `SV.Cache.swapLoop`.
All inputs (the out-of-range defaults `⟨0, false⟩` / `0` correspond). -/
theorem cons_cachew2_swapLoop_seed_eq_c18 (del : List Nat) : ∀ (bs : List Buckets.B) (last : Nat),
    (bucketIdsOf (Buckets.swapLoop bs del last).1, (Buckets.swapLoop bs del last).2)
      = Cache.swapLoop (bucketIdsOf bs) del last := by
  induction del with
  | nil => intro bs last; rfl
  | cons i rest ih =>
    intro bs last
    simp only [Buckets.swapLoop, Cache.swapLoop]
    by_cases h : i ≥ last - 1
    · simp only [h, if_true]
    · simp only [h, if_false]
      rw [ih]
      congr 1
      unfold bucketIdsOf
      rw [List.map_set]
      congr 1
      exact cachew2_getD_id bs (last - 1)

/-- **Go `Cleaner.ReleaseBuckets` as it was before the repair**: seed `SV.Buckets.releaseBuckets` = C18
`SV.Cache.releaseBucketsOld` after `bucketIdsOf` / `bucketRelOf`.  Domain: distinct bucket ids. -/
theorem cons_cachew2_releaseBuckets_seedOld_eq_c18_old (bs : List Buckets.B) (hnd : (bucketIdsOf bs).Nodup) :
    bucketIdsOf (Buckets.releaseBuckets bs) = Cache.releaseBucketsOld (bucketRelOf bs) (bucketIdsOf bs) := by
  unfold Buckets.releaseBuckets Cache.releaseBucketsOld
  rw [← cons_cachew2_toDelete_seed_eq_c18 bs hnd]
  have hlen : (bucketIdsOf bs).length = bs.length := by simp [bucketIdsOf]
  rw [hlen]
  have hsw := cons_cachew2_swapLoop_seed_eq_c18 (Buckets.toDelete bs) bs bs.length
  by_cases he : (Buckets.toDelete bs).isEmpty = true
  · simp only [he, if_true]
  · simp only [he, if_false, Bool.false_eq_true]
    rw [← hsw]
    simp only [bucketIdsOf, List.map_take]

example : (bucketIdsOf [⟨1, true⟩, ⟨2, false⟩, ⟨3, true⟩]).Nodup := by decide

/-- both old models give the same historical counterexample (cross-check of the two witnesses
`SV.Buckets.releaseBuckets_counterexample` and `c18_release_buckets_old_counterexample`) -/
theorem cons_cachew2_old_counterexamples_agree :
    bucketIdsOf (Buckets.releaseBuckets [⟨0, true⟩, ⟨1, false⟩, ⟨2, true⟩]) = [2] ∧
      Cache.releaseBucketsOld (fun b => b = 0 ∨ b = 2) [0, 1, 2] = [2] := by decide

/-- **Go `Cleaner.AddBucket`**: the split what-if model of CacheOld.lean, its halves run back to back with the bucket
index and generation the first half returned, IS the atomic `SV.Cache.newCache`.  All states. -/
theorem cons_cachew2_addBucket_split_eq_newCache (s : Cache.St) :
    Cache.addBucketSetGen (Cache.addBucketAppend s).1 s.ncaches (Cache.addBucketAppend s).2 = Cache.newCache s := rfl

end SV.Consistency
