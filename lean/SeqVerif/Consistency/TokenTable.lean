import SeqVerif.Spec.Store
import SeqVerif.Model.C03Tokens
import SeqVerif.Model.C03TokenTable
import SeqVerif.Proofs.C03Select
import SeqVerif.Proofs.C03TokensProofs
import SeqVerif.Proofs.C03TokenTableProofs
import SeqVerif.Model.PatternTable
import SeqVerif.Model.PatternProvider
import SeqVerif.Model.PatternSpec
/-!
# Consistency: the token table (`frac/token/table.go`, `provider.go`, `table_entry.go`) - C03 family vs C13 family

Two separately written models of the sealed fraction's token table and of the byte-string order:

| Go | C03 (`SV.C03`, Model/C03Tokens.lean ...) | C13 (`SV.Pattern`, Model/Pattern.lean ...) |
|---|---|---|
| string `<` / `bytes.Compare`     | `lexLT`, `lexLE`                         | `bcmp`, `bLt`, `bLe` (and `SV.Spec.bytesLt/bytesLe`, Spec/Store.lean) |
| `cut`                            | `cut`                                    | `cut` |
| `Table.SelectEntries`            | `selectEntries`                          | `selectEntries` |
| `TableEntry`                     | `TEntry` (writer), `LEntry` (loaded)     | `Entry` (`StartTID`, `ValCount` only) |
| `tid >= StartTID && tid < StartTID+ValCount` / `checkTIDInBlock` | `covers`, the predicate of `entryByTID` | `Entry.checkTIDInBlock`, `Entry.lastTID` |
| `Table.GetEntryByTID` / `Provider.findBlock` | `entryByTID` (linear scan)   | `findBlock` (cached block, else `sort.Search`) |
| entries written by `writeTokensBlocks` | `writeTokens ... |>.entries`       | `mkEntries`, `minValOf`, `maxValsOf` |
| `sealedTokenIndex.GetValByTID` / `Provider.GetToken` | `getValByTID`        | `providerGetToken`, `Provider.getToken` |
| `util.BinSearchInRange`          | (shared `SV.binSearchInRange`, Base/Search.lean) | `binSearch` (exclusive end) |

Shared, hence not duplicates: `SV.searchGo`, `SV.Mono`, `SV.searchGo_spec` (Base/Search.lean) are used by both families;
`Tok`, `Bytes` and `Spec.Bytes` are all `abbrev`s of `List Nat`, so no conversion of tokens is needed.

Change of representation of the entry records: `entryOfT`, `entryOfL` below (drop `StartIndex`, `BlockIndex`, the
values - `SV.Pattern.Entry` abstracts the position of a run inside a physical block to `blocks[i]`); a list of C03 token
blocks `List TBlock` becomes the list of runs `runsOf blocks = blocks.map (·.tokens)`.
-/
namespace SV.Consistency
open SV

/-! ## 1. the order of byte strings -/

/-- Go's `<` on strings: `SV.C03.lexLT` (Model/C03Tokens.lean) = `SV.Pattern.bcmp .. == .lt` (Model/Pattern.lean). -/
theorem cons_toktable_lexLT_eq_bcmp (a b : List Nat) : C03.lexLT a b = (Pattern.bcmp a b == .lt) := by
  induction a generalizing b with
  | nil => cases b <;> simp [C03.lexLT, Pattern.bcmp]
  | cons x xs ih =>
    cases b with
    | nil => simp [C03.lexLT, Pattern.bcmp]
    | cons y ys =>
      simp only [C03.lexLT, Pattern.bcmp]
      by_cases h1 : x < y
      · simp [h1]
      · by_cases h2 : y < x
        · simp [h1, h2]
        · simp [h1, h2, ih]

/-- Go's `<=` on strings: `SV.C03.lexLE` = `SV.Pattern.bcmp .. != .gt`. -/
theorem cons_toktable_lexLE_eq_bcmp (a b : List Nat) : C03.lexLE a b = (Pattern.bcmp a b != .gt) := by
  unfold C03.lexLE
  rw [cons_toktable_lexLT_eq_bcmp, Bool.eq_iff_iff]
  simp only [Bool.not_eq_true', beq_eq_false_iff_ne, ne_eq, bne_iff_ne]
  rw [Pattern.bcmp_gt_iff]

/-- `SV.C03.lexLT` = the shared Spec's `SV.Spec.bytesLt` (Spec/Store.lean): the two definitions are the same text. -/
theorem cons_toktable_lexLT_eq_spec_bytesLt (a b : List Nat) : C03.lexLT a b = Spec.bytesLt a b := by
  rw [cons_toktable_lexLT_eq_bcmp, Pattern.spec_bytesLt_eq]

/-- `SV.C03.lexLE` = `SV.Spec.bytesLe`. -/
theorem cons_toktable_lexLE_eq_spec_bytesLe (a b : List Nat) : C03.lexLE a b = Spec.bytesLe a b := by
  rw [cons_toktable_lexLE_eq_bcmp, Pattern.spec_bytesLe_eq]

/-- `SV.Spec.bytesLt / bytesLe` = `bcmp`: already proved as `SV.Pattern.spec_bytesLt_eq / spec_bytesLe_eq`
(Model/PatternSpec.lean); restated here so that the three byte orders appear in one place. -/
theorem cons_toktable_spec_bytesLt_eq_bcmp (a b : List Nat) :
    Spec.bytesLt a b = (Pattern.bcmp a b == .lt) ∧ Spec.bytesLe a b = (Pattern.bcmp a b != .gt) :=
  ⟨Pattern.spec_bytesLt_eq a b, Pattern.spec_bytesLe_eq a b⟩

/-- the `Prop` forms used by the C13 proofs: `lexLT a b = true ↔ bLt a b` -/
theorem cons_toktable_lexLT_iff_bLt (a b : List Nat) : C03.lexLT a b = true ↔ Pattern.bLt a b := by
  rw [cons_toktable_lexLT_eq_bcmp]; simp [Pattern.bLt]

/-- `a ≤ b` is written `lexLT b a = false` throughout the C03 proofs (`SelectInput`), `bLe a b` in C13's -/
theorem cons_toktable_lexLT_false_iff_bLe (a b : List Nat) : C03.lexLT b a = false ↔ Pattern.bLe a b := by
  have h1 := cons_toktable_lexLT_iff_bLt b a
  have h2 := Pattern.not_bLe_iff a b
  constructor
  · intro h
    apply Classical.byContradiction
    intro hn
    rw [h2.mp hn |> h1.mpr] at h
    exact Bool.noConfusion h
  · intro h
    cases hc : C03.lexLT b a with
    | false => rfl
    | true => exact absurd h (h2.mpr (h1.mp hc))

theorem cons_toktable_lexLE_iff_bLe (a b : List Nat) : C03.lexLE a b = true ↔ Pattern.bLe a b := by
  rw [cons_toktable_lexLE_eq_bcmp]; simp [Pattern.bLe]

/-- the whole `Ordering` is determined by the C03 order: `bcmp` expressed through `lexLT` -/
theorem cons_toktable_bcmp_eq_lexLT (a b : List Nat) :
    Pattern.bcmp a b = if C03.lexLT a b then .lt else if C03.lexLT b a then .gt else .eq := by
  rw [cons_toktable_lexLT_eq_bcmp, cons_toktable_lexLT_eq_bcmp, Pattern.bcmp_swap a b]
  cases Pattern.bcmp a b <;> simp [Ordering.swap]

/-! ## 2. `cut` and `Table.SelectEntries` -/

/-- `cut(s, l)` (frac/token/table.go) / `cut(b, l)` (pattern/pattern.go): `SV.C03.cut` = `SV.Pattern.cut`. -/
theorem cons_toktable_cut_eq_cut (s : List Nat) (l : Nat) : C03.cut s l = Pattern.cut s l := rfl

/-- `token.Table.SelectEntries` on one field: `SV.C03.selectEntries` (Model/C03Tokens.lean) = `SV.Pattern.selectEntries`
(Model/Pattern.lean) on ALL inputs; tokens are `List Nat` on both sides, the result is the pair `(l, r)` of
`data.Entries[l:r]` on both sides - no conversion. -/
theorem cons_toktable_selectEntries_eq_selectEntries (hint minVal : List Nat) (maxVals : List (List Nat)) :
    C03.selectEntries hint minVal maxVals = Pattern.selectEntries hint minVal maxVals := by
  simp only [C03.selectEntries, Pattern.selectEntries, cons_toktable_lexLT_eq_bcmp, cons_toktable_lexLE_eq_bcmp,
    C03.cut, Pattern.cut]
  by_cases h0 : hint = []
  · simp only [h0, if_true]
  · simp only [h0, if_false]
    by_cases h1 : (Pattern.bcmp hint (List.take hint.length minVal) == Ordering.lt) = true
    · simp only [h1, if_true]
    · simp only [h1]

/-! ## 3. `util.BinSearchInRange` -/

/-- `util.BinSearchInRange(from, to, fn)`: the shared `SV.binSearchInRange lo hi` (Base/Search.lean, inclusive `hi`
as in Go) = `SV.Pattern.binSearch first lastP1` (Model/Pattern.lean, EXCLUSIVE end) under `lastP1 = hi + 1`. -/
theorem cons_toktable_binSearch_eq_binSearchInRange (lo hi : Nat) (f : Nat → Bool) :
    Pattern.binSearch lo (hi + 1) f = binSearchInRange lo hi f := rfl

/-- the other direction `hi = lastP1 - 1` needs `1 ≤ lastP1`: Go's `to = first - 1 = -1` (empty provider range with
`first = 0`) has no `Nat` image; `Pattern` keeps the exclusive end for exactly that reason. -/
theorem cons_toktable_binSearchInRange_eq_binSearch (first lastP1 : Nat) (f : Nat → Bool) (h : 1 ≤ lastP1) :
    binSearchInRange first (lastP1 - 1) f = Pattern.binSearch first lastP1 f := by
  obtain ⟨n, rfl⟩ : ∃ n, lastP1 = n + 1 := ⟨lastP1 - 1, by omega⟩
  rfl

example : (1 : Nat) ≤ 5 := by decide

/-- off that domain the truncated `lastP1 - 1` is a different (non-empty) Go range -/
theorem cons_toktable_binSearchInRange_ne_binSearch_offdomain_witness :
    binSearchInRange 0 (0 - 1) (fun _ => false) = 1 ∧ Pattern.binSearch 0 0 (fun _ => false) = 0 := by
  simp [binSearchInRange, Pattern.binSearch, searchGo]

/-! ## 4. the entry record and the "tid lies in this entry" test -/

/-- `token.TableEntry` as the sealing code builds it (`SV.C03.TEntry`) -> as `token.Provider` reads it (`SV.Pattern.Entry`) -/
def entryOfT (e : C03.TEntry) : Pattern.Entry := ⟨e.startTID, e.valCount⟩
/-- `token.TableEntry` as `TableLoader.load` rebuilds it (`SV.C03.LEntry`) -> `SV.Pattern.Entry` -/
def entryOfL (e : C03.LEntry) : Pattern.Entry := ⟨e.startTID, e.valCount⟩
/-- the runs of tokens of a list of token blocks (`SV.Pattern`'s `blocks`) -/
def runsOf (blocks : List C03.TBlock) : List (List (List Nat)) := blocks.map (·.tokens)

/-- the two C03 entry records convert to the same `Pattern.Entry` (`keptEntry`, Proofs/C03TokenTableProofs.lean) -/
theorem cons_toktable_entryOfL_keptEntry (e : C03.TEntry) : entryOfL (C03.keptEntry e) = entryOfT e := rfl

/-- ... and so do the entries `keptField` keeps in memory (Model/C03TokenTable.lean) -/
theorem cons_toktable_keptField_entries (f : C03.FieldEntries) :
    (C03.keptField f).entries.map entryOfL = f.entries.map entryOfT := by
  simp [C03.keptField, entryOfL, entryOfT, Function.comp_def]

/-- `allTokens` (Proofs/C03TokensProofs.lean) is the concatenated dictionary `blocks.flatten` of the C13 family -/
theorem cons_toktable_allTokens_eq_flatten (blocks : List C03.TBlock) : C03.allTokens blocks = (runsOf blocks).flatten := by
  simp [C03.allTokens, runsOf, List.flatMap_def]

/-- `getLastTID`: `SV.Pattern.Entry.lastTID` is the last TID that `SV.C03.covers` accepts.  Domain: `ValCount ≥ 1`
(every written entry holds at least one token); for `ValCount = 0` Go's `uint32` wraps and `Nat` truncates. -/
theorem cons_toktable_lastTID (e : C03.TEntry) (h : 1 ≤ e.valCount) :
    (entryOfT e).lastTID + 1 = e.startTID + e.valCount := by
  simp only [entryOfT, Pattern.Entry.lastTID]; omega

/-- the membership test of `Table.GetEntryByTID` (`tid >= StartTID && tid < StartTID+ValCount`, the predicate inside
`SV.C03.entryByTID`) = `TableEntry.checkTIDInBlock` (`SV.Pattern.Entry.checkTIDInBlock`).  Domain: `ValCount ≥ 1`. -/
theorem cons_toktable_covers_eq_checkTIDInBlock (e : C03.TEntry) (tid : Nat) (h : 1 ≤ e.valCount) :
    (decide (e.startTID ≤ tid) && decide (tid < e.startTID + e.valCount)) = (entryOfT e).checkTIDInBlock tid := by
  simp only [entryOfT, Pattern.Entry.checkTIDInBlock, Pattern.Entry.lastTID]
  by_cases h1 : tid < e.startTID
  · have : ¬ e.startTID ≤ tid := by omega
    simp [h1, this]
  · by_cases h2 : tid > e.startTID + e.valCount - 1
    · have : ¬ tid < e.startTID + e.valCount := by omega
      simp [h1, h2, this]
    · have h3 : e.startTID ≤ tid := by omega
      have h4 : tid < e.startTID + e.valCount := by omega
      simp [h1, h2, h3, h4]

/-- the `Prop` form `SV.C03.covers` (Proofs/C03TokensProofs.lean) -/
theorem cons_toktable_covers_iff_checkTIDInBlock (e : C03.TEntry) (tid : Nat) (h : 1 ≤ e.valCount) :
    C03.covers e tid ↔ (entryOfT e).checkTIDInBlock tid = true := by
  rw [← cons_toktable_covers_eq_checkTIDInBlock e tid h]; simp [C03.covers]

example : (1 : Nat) ≤ (⟨0, 0, 1, 0, 2, none, [98]⟩ : C03.TEntry).valCount := by decide

/-- off the domain (an entry without tokens starting at TID 0 - never written) the two tests differ, as the two Go
functions do (`getLastTID` wraps to `MaxUint32`, so `checkTIDInBlock(0)` is true; `0 < 0+0` is false) -/
theorem cons_toktable_covers_ne_checkTIDInBlock_offdomain_witness :
    let e : C03.TEntry := ⟨0, 0, 0, 0, 0, none, []⟩
    (decide (e.startTID ≤ 0) && decide (0 < e.startTID + e.valCount)) = false ∧ (entryOfT e).checkTIDInBlock 0 = true := by
  decide

/-! ## 5. the entries `writeTokensBlocks` writes = `mkEntries`, `maxValsOf`, `minValOf` -/

theorem toktable_flush_entries (w : C03.TW) : w.flush.entries = w.entries := by
  unfold C03.TW.flush; split <;> rfl

/-- one `push`: exactly one entry is appended; its `StartTID`, `ValCount`, `MaxVal`, `MinVal` -/
theorem toktable_pushBlock_entries (rbs : Nat) (w : C03.TW) (b : C03.TBlock) :
    ∃ e : C03.TEntry, (C03.pushBlock rbs w b).entries = w.entries ++ [e] ∧ e.startTID = b.startTID ∧
      e.valCount = b.tokens.length ∧ e.maxVal = b.tokens.getLast?.getD [] ∧ e.field = b.field ∧
      e.minVal = if w.entries.any (fun e => e.field == b.field) then none else some (b.tokens.headD []) := by
  have hw1 : ∃ w1 : C03.TW, (if b.isStart && decide (b.totalSize > rbs) then { w.flush with startIndex := 0 } else w) = w1 ∧
      w1.entries = w.entries := by
    by_cases hc : (b.isStart && decide (b.totalSize > rbs)) = true
    · exact ⟨{ w.flush with startIndex := 0 }, by rw [if_pos hc], toktable_flush_entries w⟩
    · exact ⟨w, by rw [if_neg hc], rfl⟩
  obtain ⟨w1, hw1eq, h1⟩ := hw1
  refine ⟨{ field := b.field, startIndex := w1.startIndex, startTID := b.startTID, blockIndex := w1.blockIndex,
            valCount := b.tokens.length,
            minVal := if !(w1.entries.any (fun e => e.field == b.field)) then some (b.tokens.headD []) else none,
            maxVal := b.tokens.getLastD [] }, ?_, rfl, rfl, ?_, rfl, ?_⟩
  · unfold C03.pushBlock
    simp only [hw1eq]
    split
    · simp only [toktable_flush_entries, h1]
    · simp only [h1]
  · simp [List.getLastD_eq_getLast?]
  · rw [h1]; cases (w.entries.any fun e => e.field == b.field) <;> rfl

theorem toktable_foldl_pushBlock_entries (rbs : Nat) (blocks : List C03.TBlock) (w : C03.TW) :
    ∃ es : List C03.TEntry, (blocks.foldl (C03.pushBlock rbs) w).entries = w.entries ++ es ∧
      es.map entryOfT = blocks.map (fun b => (⟨b.startTID, b.tokens.length⟩ : Pattern.Entry)) ∧
      es.map (·.maxVal) = Pattern.maxValsOf (runsOf blocks) := by
  induction blocks generalizing w with
  | nil => exact ⟨[], by simp, rfl, rfl⟩
  | cons b rest ih =>
    obtain ⟨e, he, h1, h2, h3, -, -⟩ := toktable_pushBlock_entries rbs w b
    obtain ⟨es, hes, h4, h5⟩ := ih (C03.pushBlock rbs w b)
    refine ⟨e :: es, ?_, ?_, ?_⟩
    · rw [List.foldl_cons, hes, he]; simp
    · simp only [List.map_cons, h4]; simp [entryOfT, h1, h2]
    · simp only [List.map_cons, h5, runsOf, Pattern.maxValsOf]; simp [h3]

/-- consecutive numbering (`TChain`, Proofs/C03TokensProofs.lean) is `mkEntries`' numbering (Model/Pattern.lean) -/
theorem toktable_chain_mkEntries (blocks : List C03.TBlock) (cur : Nat) (hc : C03.TChain cur blocks) :
    blocks.map (fun b => (⟨b.startTID, b.tokens.length⟩ : Pattern.Entry)) = Pattern.mkEntries cur (runsOf blocks) := by
  induction blocks generalizing cur with
  | nil => rfl
  | cons b rest ih =>
    obtain ⟨h1, -, h3⟩ := hc
    simp only [List.map_cons, runsOf, Pattern.mkEntries, h1]
    congr 1
    exact ih _ h3

theorem toktable_chain_runs_ne (blocks : List C03.TBlock) (cur : Nat) (hc : C03.TChain cur blocks) : ∀ b ∈ runsOf blocks, b ≠ [] := by
  induction blocks generalizing cur with
  | nil => intro b hb; simp [runsOf] at hb
  | cons x rest ih =>
    obtain ⟨-, h2, h3⟩ := hc
    intro b hb
    simp only [runsOf, List.map_cons, List.mem_cons] at hb
    rcases hb with rfl | hb
    · exact h2
    · exact ih _ h3 b hb

/-- **entry layout**: the table entries `DiskBlocksWriter.writeTokensBlocks` produces (`SV.C03.writeTokens`,
Model/C03Tokens.lean), converted by `entryOfT`, are exactly the entries the C13 family assumes for its provider
(`SV.Pattern.mkEntries`, Model/Pattern.lean) over the runs `runsOf blocks`.  Hypothesis: the token blocks are numbered
consecutively from `cur` (`TChain`; what `genTokenBlocks` produces with `cur = 1`, `genTokenBlocks_spec`). -/
theorem cons_toktable_writeTokens_entries_eq_mkEntries (rbs fbi cur : Nat) (blocks : List C03.TBlock)
    (hc : C03.TChain cur blocks) :
    (C03.writeTokens rbs fbi blocks).entries.map entryOfT = Pattern.mkEntries cur (runsOf blocks) := by
  obtain ⟨es, hes, h1, -⟩ := toktable_foldl_pushBlock_entries rbs blocks (C03.TW.init fbi)
  rw [C03.writeTokens, toktable_flush_entries, hes, ← toktable_chain_mkEntries blocks cur hc, ← h1]
  simp [C03.TW.init]

/-- `TableEntry.MaxVal` of the written entries (`getLastD []` in `pushBlock`) = `SV.Pattern.maxValsOf` (all inputs) -/
theorem cons_toktable_writeTokens_maxVals_eq_maxValsOf (rbs fbi : Nat) (blocks : List C03.TBlock) :
    (C03.writeTokens rbs fbi blocks).entries.map (·.maxVal) = Pattern.maxValsOf (runsOf blocks) := by
  obtain ⟨es, hes, -, h2⟩ := toktable_foldl_pushBlock_entries rbs blocks (C03.TW.init fbi)
  rw [C03.writeTokens, toktable_flush_entries, hes, ← h2]
  simp [C03.TW.init]

/-- `FieldData.MinVal` = the `MinVal` of the first written entry = `SV.Pattern.minValOf` (first token of the first run) -/
theorem cons_toktable_writeTokens_minVal_eq_minValOf (rbs fbi : Nat) (b : C03.TBlock) (rest : List C03.TBlock) :
    (C03.writeTokens rbs fbi (b :: rest)).entries.head?.bind (·.minVal) = some (Pattern.minValOf (runsOf (b :: rest))) := by
  obtain ⟨e, he, -, -, -, -, h5⟩ := toktable_pushBlock_entries rbs (C03.TW.init fbi) b
  obtain ⟨es, hes, -, -⟩ := toktable_foldl_pushBlock_entries rbs rest (C03.pushBlock rbs (C03.TW.init fbi) b)
  rw [C03.writeTokens, toktable_flush_entries, List.foldl_cons, hes, he]
  simp only [C03.TW.init, List.nil_append, List.any_nil] at h5 ⊢
  simp [h5, Pattern.minValOf, runsOf]

/-- ... and through `keptField` (what `NewSealedPreloaded` keeps / `TableLoader.load` re-reads, `tokenTable_loaded_eq_preloaded`) -/
theorem cons_toktable_keptField_minVal (name : List Nat) (e : C03.TEntry) (es : List C03.TEntry) (v : List Nat)
    (h : e.minVal = some v) : (C03.keptField ⟨name, e :: es⟩).minVal = v := by
  simp [C03.keptField, h]

/-- `Provider.FirstTID()` = `entries[0].StartTID`: the abstract `SV.Pattern.Provider.firstTID` vs the entry layout -/
theorem cons_toktable_firstTID (base : Nat) (b : List (List Nat)) (bs : List (List (List Nat))) (o : Bool) :
    ((Pattern.mkEntries base (b :: bs)).getD 0 ⟨0, 0⟩).startTID = (⟨base, (b :: bs).flatten, o⟩ : Pattern.Provider).firstTID := rfl

/-- `Provider.LastTID()` = `entries[len-1].getLastTID()`: `+1` of it is the abstract provider's `lastP1`.
Domain: at least one entry, no empty run. -/
theorem cons_toktable_lastTID_eq_lastP1 (base : Nat) (blocks : List (List (List Nat))) (o : Bool) (hn : blocks ≠ [])
    (hne : ∀ b ∈ blocks, b ≠ []) :
    ((Pattern.mkEntries base blocks).getD (blocks.length - 1) ⟨0, 0⟩).lastTID + 1 =
      (⟨base, blocks.flatten, o⟩ : Pattern.Provider).lastP1 := by
  have hl : 0 < blocks.length := List.length_pos_iff.mpr hn
  have hi : blocks.length - 1 < blocks.length := by omega
  rw [Pattern.mkEntries_getD base blocks _ hi]
  have hmem : blocks.getD (blocks.length - 1) [] ∈ blocks := by
    rw [List.getD_eq_getElem?_getD, List.getElem?_eq_getElem hi]; exact List.getElem_mem hi
  have hpos : 1 ≤ (blocks.getD (blocks.length - 1) []).length := List.length_pos_iff.mpr (hne _ hmem)
  have hs := Pattern.pre_succ blocks (blocks.length - 1) hi
  have hpl := Pattern.pre_length blocks
  rw [show blocks.length - 1 + 1 = blocks.length by omega] at hs
  simp only [Pattern.Entry.lastTID, Pattern.Provider.lastP1]
  omega

example : ([[[1]], [[2], [3]]] : List (List (List Nat))) ≠ [] ∧ ∀ b ∈ ([[[1]], [[2], [3]]] : List (List (List Nat))), b ≠ [] := by decide

/-! ## 6. `Table.GetEntryByTID` (linear scan) vs `Provider.findBlock` (cached block / `sort.Search`) -/

/-- `findBlock` on `mkEntries`: the index of THE run that holds position `k` (re-derivation of the fact proved inside
`SV.Pattern.providerGetToken_eq`, which only exports the token) -/
theorem toktable_findBlock_mkEntries (base : Nat) (blocks : List (List (List Nat))) (hne : ∀ b ∈ blocks, b ≠ [])
    (cur : Option Nat) (hcur : ∀ c, cur = some c → c < blocks.length) (k : Nat) (hk : k < blocks.flatten.length) :
    Pattern.findBlock (Pattern.mkEntries base blocks) cur (base + k) < blocks.length ∧
    Pattern.pre blocks (Pattern.findBlock (Pattern.mkEntries base blocks) cur (base + k)) ≤ k ∧
    k < Pattern.pre blocks (Pattern.findBlock (Pattern.mkEntries base blocks) cur (base + k) + 1) := by
  obtain ⟨j, hj, hj1, hj2⟩ := Pattern.locate blocks k hk
  have hlen : ∀ i, i < blocks.length → 1 ≤ (blocks.getD i []).length := by
    intro i hi
    have hmem : blocks.getD i [] ∈ blocks := by
      rw [List.getD_eq_getElem?_getD, List.getElem?_eq_getElem hi]; exact List.getElem_mem hi
    exact List.length_pos_iff.mpr (hne _ hmem)
  have hin : ∀ i, i < blocks.length →
      (((Pattern.mkEntries base blocks).getD i ⟨0, 0⟩).checkTIDInBlock (base + k) = true ↔
        Pattern.pre blocks i ≤ k ∧ k < Pattern.pre blocks (i + 1)) := by
    intro i hi
    rw [Pattern.mkEntries_getD base blocks i hi]
    have hl := hlen i hi
    have hs := Pattern.pre_succ blocks i hi
    generalize (blocks.getD i []).length = L at *
    simp only [Pattern.Entry.checkTIDInBlock, Pattern.Entry.lastTID]
    by_cases ha : base + k < base + Pattern.pre blocks i
    · simp [ha]; omega
    · by_cases hb : base + k > base + Pattern.pre blocks i + L - 1
      · simp [ha, hb]; omega
      · simp [ha, hb]; omega
  let f : Nat → Bool := fun i => decide (base + k ≤ ((Pattern.mkEntries base blocks).getD i ⟨0, 0⟩).lastTID)
  have hf : ∀ i, i < blocks.length → (f i = true ↔ k < Pattern.pre blocks (i + 1)) := by
    intro i hi
    simp only [f, decide_eq_true_eq, Pattern.mkEntries_getD base blocks i hi, Pattern.Entry.lastTID]
    have := hlen i hi
    have hs := Pattern.pre_succ blocks i hi
    omega
  have hmono : Mono f 0 blocks.length := by
    intro a b _ hab hb hfa
    rw [hf a (by omega)] at hfa
    rw [hf b hb]
    have := Pattern.pre_mono blocks (show a + 1 ≤ b + 1 by omega) (by omega)
    omega
  obtain ⟨hr, hbelow, habove⟩ := Pattern.searchGo_least f blocks.length hmono
  have hslow : searchGo f 0 blocks.length = j := by
    generalize searchGo f 0 blocks.length = r at *
    have hfj : f j = true := (hf j hj).mpr hj2
    have hrj : r ≤ j := by
      by_cases h : r ≤ j
      · exact h
      · have := hbelow j (by omega); rw [hfj] at this; simp at this
    by_cases h : r = j
    · exact h
    · have h3 := habove r (Nat.le_refl _) (by omega)
      rw [hf r (by omega)] at h3
      have := Pattern.pre_mono blocks (show r + 1 ≤ j by omega) (by omega)
      omega
  have hfind : Pattern.findBlock (Pattern.mkEntries base blocks) cur (base + k) = j ∨
      ∃ c, c < blocks.length ∧ Pattern.findBlock (Pattern.mkEntries base blocks) cur (base + k) = c ∧
        Pattern.pre blocks c ≤ k ∧ k < Pattern.pre blocks (c + 1) := by
    simp only [Pattern.findBlock, Pattern.mkEntries_length]
    cases cur with
    | none => exact Or.inl hslow
    | some c =>
      have hc := hcur c rfl
      simp only
      split
      · rename_i hchk
        have := (hin c hc).mp hchk
        exact Or.inr ⟨c, hc, rfl, this.1, this.2⟩
      · exact Or.inl hslow
  rcases hfind with h | ⟨c, hc, h, h1, h2⟩
  · rw [h]; exact ⟨hj, hj1, hj2⟩
  · rw [h]; exact ⟨hc, h1, h2⟩

/-- **`Table.GetEntryByTID` = `entries[Provider.findBlock(tid)]`.**  `SV.C03.entryByTID` (Model/C03Tokens.lean: the
first entry, in table order, whose `[StartTID, StartTID+ValCount)` holds `tid`) returns the entry at the index
`SV.Pattern.findBlock` computes (Model/Pattern.lean: the cached block if it holds `tid`, else binary search on
`getLastTID`), whatever valid block is cached.  Representation: `entryOfT`.  Common domain: the entries are laid out
consecutively from `base ≥ 1` over non-empty runs (`es.map entryOfT = mkEntries base blocks` - what `writeTokens` produces,
`cons_toktable_writeTokens_entries_eq_mkEntries`) and `tid` lies in `[base, base + #tokens)`; outside, Go's
`GetEntryByTID` panics / `findBlock` returns `len(entries)`. -/
theorem cons_toktable_entryByTID_eq_findBlock (es : List C03.TEntry) (base : Nat) (blocks : List (List (List Nat)))
    (hlay : es.map entryOfT = Pattern.mkEntries base blocks) (hne : ∀ b ∈ blocks, b ≠ [])
    (cur : Option Nat) (hcur : ∀ c, cur = some c → c < blocks.length)
    (tid : Nat) (hb : 1 ≤ base) (h1 : base ≤ tid) (h2 : tid < base + blocks.flatten.length) :
    C03.entryByTID es tid = es[Pattern.findBlock (es.map entryOfT) cur tid]? := by
  obtain ⟨k, rfl⟩ : ∃ k, tid = base + k := ⟨tid - base, by omega⟩
  have hk : k < blocks.flatten.length := by omega
  rw [hlay]
  obtain ⟨hj, hj1, hj2⟩ := toktable_findBlock_mkEntries base blocks hne cur hcur k hk
  generalize Pattern.findBlock (Pattern.mkEntries base blocks) cur (base + k) = j at *
  have hlen : es.length = blocks.length := by
    have := congrArg List.length hlay
    simpa [Pattern.mkEntries_length] using this
  have hent : ∀ i (hi : i < es.length), es[i].startTID = base + Pattern.pre blocks i ∧
      es[i].startTID + es[i].valCount = base + Pattern.pre blocks (i + 1) := by
    intro i hi
    have h := Pattern.mkEntries_getD base blocks i (by omega)
    rw [← hlay] at h
    simp only [List.getD_eq_getElem?_getD, List.getElem?_map, List.getElem?_eq_getElem hi, Option.map_some,
      Option.getD_some, entryOfT, Pattern.Entry.mk.injEq] at h
    rw [Pattern.pre_succ blocks i (by omega), List.getD_eq_getElem?_getD, ← h.2, h.1]
    exact ⟨rfl, by omega⟩
  have hjl : j < es.length := by omega
  unfold C03.entryByTID
  have htid : ¬ (base + k = 0) := by omega
  simp only [htid, if_false]
  rw [List.getElem?_eq_getElem hjl, List.find?_eq_some_iff_getElem]
  refine ⟨?_, j, hjl, rfl, ?_⟩
  · have := hent j hjl
    simp only [Bool.and_eq_true, decide_eq_true_eq]; omega
  · intro i hi
    have h := hent i (by omega)
    have hm := Pattern.pre_mono blocks (show i + 1 ≤ j by omega) (by omega)
    have : ¬ (base + k < es[i].startTID + es[i].valCount) := by omega
    simp [this]

/-- non-vacuity: two written entries over the runs `[[a],[b,c]]`, base 1 -/
example : ([⟨0, 0, 1, 0, 1, none, [1]⟩, ⟨0, 1, 2, 0, 2, none, [3]⟩] : List C03.TEntry).map entryOfT =
    Pattern.mkEntries 1 [[[1]], [[2], [3]]] := by decide

/-! ## 7. `sealedTokenIndex.GetValByTID` vs `token.Provider.GetToken` -/

/-- **`GetValByTID` = `Provider.GetToken`.**  C03's path (`SV.C03.getValByTID`: `Table.GetEntryByTID`, the physical block
`entry.BlockIndex`, value `StartIndex + tid - StartTID`, over everything `writeTokens` wrote) and C13's path
(`SV.Pattern.providerGetToken`: `findBlock` with any valid cached block, run `blocks[bi]`, value `tid - StartTID`) over
the SAME written entries (`entryOfT`) and the runs `runsOf blocks` return the same token.  Proof: both are
characterised as "the `tid-1`-th token of the dictionary" (`getValByTID_spec`, `providerGetToken_eq`).
Domain: token blocks numbered consecutively from 1 (`TChain 1`), `1 ≤ tid ≤ #tokens`. -/
theorem cons_toktable_getValByTID_eq_providerGetToken (rbs fbi : Nat) (blocks : List C03.TBlock)
    (hc : C03.TChain 1 blocks) (cur : Option Nat) (hcur : ∀ c, cur = some c → c < blocks.length)
    (tid : Nat) (h1 : 1 ≤ tid) (h2 : tid ≤ (C03.allTokens blocks).length) :
    C03.getValByTID fbi (C03.writeTokens rbs fbi blocks) tid =
      some (Pattern.providerGetToken ((C03.writeTokens rbs fbi blocks).entries.map entryOfT) (runsOf blocks) cur tid).1 := by
  rw [C03.getValByTID_spec rbs fbi blocks hc tid h1 h2, cons_toktable_writeTokens_entries_eq_mkEntries rbs fbi 1 blocks hc]
  have hfl := cons_toktable_allTokens_eq_flatten blocks
  have hrl : (runsOf blocks).length = blocks.length := by simp [runsOf]
  obtain ⟨ht, -⟩ := Pattern.providerGetToken_eq 1 (runsOf blocks) (toktable_chain_runs_ne blocks 1 hc) cur
    (by rw [hrl]; exact hcur) tid h1 (by rw [← hfl]; omega)
  rw [ht, hfl, List.getD_eq_getElem?_getD, List.getElem?_eq_getElem (by rw [← hfl]; omega)]
  rfl

/-- ... and = the abstract ordered provider `⟨1, dictionary, true⟩` the C13 search theorems are stated over -/
theorem cons_toktable_getValByTID_eq_provider_getToken (rbs fbi : Nat) (blocks : List C03.TBlock)
    (hc : C03.TChain 1 blocks) (o : Bool) (tid : Nat) (h1 : 1 ≤ tid) (h2 : tid ≤ (C03.allTokens blocks).length) :
    C03.getValByTID fbi (C03.writeTokens rbs fbi blocks) tid =
      some ((⟨1, (runsOf blocks).flatten, o⟩ : Pattern.Provider).getToken tid) := by
  rw [C03.getValByTID_spec rbs fbi blocks hc tid h1 h2, cons_toktable_allTokens_eq_flatten]
  simp only [Pattern.Provider.getToken]
  rw [List.getD_eq_getElem?_getD, List.getElem?_eq_getElem (by rw [← cons_toktable_allTokens_eq_flatten]; omega)]
  rfl

/-- non-vacuity of `TChain 1`: two blocks of one field -/
example : C03.TChain 1 [⟨0, true, 3, 1, [[1]]⟩, ⟨0, false, 3, 2, [[2], [3]]⟩] := by
  simp [C03.TChain]

/-! ## 8. the hypotheses of the two `*_selectEntries_sound` theorems -/

/-- C13 states soundness of `SelectEntries` over a block layout (`BlocksOK`, Model/PatternTable.lean), C03 over the
abstract table facts `SelectInput` (Proofs/C03Select.lean).  Every C13 instance is a C03 instance: for a token `t` of run
`i` that starts with a non-empty hint, `SelectInput hint MinVal MaxVals t i` holds. -/
theorem cons_toktable_blocksOK_selectInput {blocks : List (List (List Nat))} (ok : Pattern.BlocksOK blocks)
    (hint : List Nat) (hh : hint ≠ []) (i : Nat) (hi : i < blocks.length) (t : List Nat) (ht : t ∈ blocks[i])
    (hp : Pattern.cut t hint.length = hint) :
    C03.SelectInput hint (Pattern.minValOf blocks) (Pattern.maxValsOf blocks) t i := by
  have hlen : (Pattern.maxValsOf blocks).length = blocks.length := by simp [Pattern.maxValsOf]
  refine ⟨hh, ?_, ?_, by omega, ?_, ?_, hp⟩
  · intro a b hab hb
    rw [cons_toktable_lexLT_false_iff_bLe]
    exact Pattern.maxVals_mono ok hab (by omega)
  · rw [cons_toktable_lexLT_false_iff_bLe]
    exact Pattern.minVal_le ok hi ht
  · rw [cons_toktable_lexLT_false_iff_bLe, Pattern.maxVals_getD blocks i hi]
    exact Pattern.le_last (Pattern.within_block ok.sorted hi) ht
  · intro j hj
    rw [cons_toktable_lexLT_iff_bLt, Pattern.maxVals_getD blocks j (by omega)]
    exact Pattern.cross_block ok.sorted hj hi (Pattern.last_mem (ok.runs _ (List.getElem_mem _))) ht

/-- hence C13's `selectEntries_sound` (for a non-empty hint) is a consequence of C03's `select_sound` and the equality
of the two `selectEntries` - the two soundness theorems are about one function and say the same -/
theorem cons_toktable_selectEntries_sound_of_c03 {blocks : List (List (List Nat))} (ok : Pattern.BlocksOK blocks)
    (hint : List Nat) (hh : hint ≠ []) (i : Nat) (hi : i < blocks.length) (t : List Nat) (ht : t ∈ blocks[i])
    (hp : Pattern.cut t hint.length = hint) :
    (Pattern.selectEntries hint (Pattern.minValOf blocks) (Pattern.maxValsOf blocks)).1 ≤ i ∧
      i < (Pattern.selectEntries hint (Pattern.minValOf blocks) (Pattern.maxValsOf blocks)).2 := by
  rw [← cons_toktable_selectEntries_eq_selectEntries]
  exact C03.select_sound _ _ _ _ _ (cons_toktable_blocksOK_selectInput ok hint hh i hi t ht hp)

/-- non-vacuity (the instance of Props/C13.lean): token `[98,97]` of run 1, hint `[98]` -/
example : Pattern.BlocksOK [[[97], [97, 98]], [[98], [98, 97]]] ∧ ([98] : List Nat) ≠ [] ∧
    ([98, 97] : List Nat) ∈ ([[[97], [97, 98]], [[98], [98, 97]]] : List (List (List Nat)))[1] ∧
    Pattern.cut [98, 97] ([98] : List Nat).length = [98] :=
  ⟨⟨by simp, by simp, by decide⟩, by decide, by decide, by decide⟩

/-! ## 9. the selected slice `Entries[l:r]` is again a consecutive layout -/

theorem toktable_mkEntries_drop (base : Nat) (blocks : List (List (List Nat))) (l : Nat) :
    (Pattern.mkEntries base blocks).drop l = Pattern.mkEntries (base + Pattern.pre blocks l) (blocks.drop l) := by
  induction blocks generalizing base l with
  | nil => simp [Pattern.mkEntries]
  | cons b bs ih =>
    cases l with
    | zero => simp [Pattern.pre]
    | succ l =>
      simp only [Pattern.mkEntries, List.drop_succ_cons, Pattern.pre_cons_succ]
      rw [ih, Nat.add_assoc]

theorem toktable_mkEntries_take (base : Nat) (blocks : List (List (List Nat))) (r : Nat) :
    (Pattern.mkEntries base blocks).take r = Pattern.mkEntries base (blocks.take r) := by
  induction blocks generalizing base r with
  | nil => simp [Pattern.mkEntries]
  | cons b bs ih =>
    cases r with
    | zero => simp [Pattern.mkEntries]
    | succ r => simp only [Pattern.mkEntries, List.take_succ_cons, ih]

/-- `sealedTokenIndex.GetTIDsByTokenExpr` hands `SelectEntries`' slice `Entries[l:r]` to `token.NewProvider`; C13's
`sealedSearch` (Model/Pattern.lean) instead builds an abstract provider with first TID `base + Σ_{i<l} len(run i)` over the
runs `blocks[l:r]`.  For the entries C03's `writeTokens` writes that is the same layout: the slice of the written
entries is `mkEntries` at that first TID over those runs (so `providerGetToken_eq` / section 7 apply to the slice). -/
theorem cons_toktable_selected_entries_eq_mkEntries (rbs fbi cur : Nat) (blocks : List C03.TBlock)
    (hc : C03.TChain cur blocks) (l r : Nat) :
    (((C03.writeTokens rbs fbi blocks).entries.map entryOfT).take r).drop l =
      Pattern.mkEntries (cur + ((((runsOf blocks).take l).map List.length).sum)) (((runsOf blocks).take r).drop l) := by
  rw [cons_toktable_writeTokens_entries_eq_mkEntries rbs fbi cur blocks hc, toktable_mkEntries_take, toktable_mkEntries_drop]
  by_cases h : l ≤ r
  · simp [Pattern.pre, List.take_take, Nat.min_eq_left h]
  · have h1 : ((runsOf blocks).take r).drop l = [] := by
      apply List.drop_eq_nil_of_le; simp; omega
    simp [h1, Pattern.mkEntries]

end SV.Consistency
