import SeqVerif.Model.RepetitionsLemmas
import SeqVerif.Model.SearchDocsTotals
import SeqVerif.Consistency.Hist
import SeqVerif.Consistency.IdOrder
/-!
# Consistency: `seq.MergeQPRs` / `removeRepetitionsAdvanced` (seq/qpr.go) - C17's model against C05's

Four places model this function:
* `SV.Merge.mergeQPRs` (Model/MergeQPR.lean, C05) - keys `mid * 2^64 + rid`, no sources, `desc`, `Option` histogram
  as association list, additions unbounded, subtractions with `uint64` wrap, nil-map panic as `mergePanics`;
* `SV.ProxySearch.mergeQPRs` (Model/ProxySearch.lean, C16) - proved equal to C05's in `Props/C16.lean`
  (`c16_merge_models_agree`: ids, total, page);
* `SV.Async.fetchStepWith` (Model/Async.lean, C19) - *is* `SV.Merge.mergeQPRs` (shared definition, nothing to prove);
* `SV.Repetitions.mergeQPRs` (Model/Repetitions.lean, C17) - pairs `(mid, rid)` tagged with a source, `asc`,
  `List.mergeSort`, histogram as a function, every addition `% 2^64`, merge into an empty `dst` whose map exists.

This file proves C17's equal to C05's: loop by loop (`removeLoop` = `dedupGo` / `repsGo` / `decHist`), then the whole
function.  Change of representation: `keyOfIS` (drop the source, encode the ID), `convRep` (a C17 partial result as a
C05 one), the C05 histogram read through `Hist.get`, `desc = !asc`.  Common domain (stated as hypotheses):
RIDs `< 2^64` (they are `uint64`; needed for the key encoding), and no `uint64` overflow in the *additions* of totals
and histogram counts (C05 models additions on `Nat` - its documented assumption -, C17 reduces mod 2^64).
Sources are compared nowhere: `sort.Sort` is unstable, so which tagged entry of equal IDs survives is not
specified by the code; both models say so.
-/
namespace SV.Consistency
open SV SV.Merge

/-- drop the source, encode the ID as C05's number -/
def keyOfIS (x : Repetitions.IDSource) : Nat := Merge.key x.1.1 x.1.2

/-- a C17 partial result seen as a C05 one (`Histogram` of a partial result is a non-nil map) -/
def convRep (q : Repetitions.QPR) : Merge.QPR := ⟨q.ids.map keyOfIS, q.total, some q.hist⟩

theorem key_inj (m1 r1 m2 r2 : Nat) (h1 : r1 < R) (h2 : r2 < R) : key m1 r1 = key m2 r2 ↔ (m1 = m2 ∧ r1 = r2) := by
  unfold key R at *; omega

theorem keyOfIS_eq_iff (x y : Repetitions.IDSource) (hx : x.1.2 < R) (hy : y.1.2 < R) :
    keyOfIS x = keyOfIS y ↔ x.1 = y.1 := by
  unfold keyOfIS
  rw [key_inj _ _ _ _ hx hy, Prod.ext_iff]

/-! ## the loop of `removeRepetitionsAdvanced` -/

/-- kept entries and repetition count: C17's `removeLoop` = C05's `dedupGo` / `repsGo` -/
theorem cons_merge_removeLoop_eq_dedupGo (iv : Nat) (last : Repetitions.IDSource) (xs : List Repetitions.IDSource)
    (h : Repetitions.Hist) (hl : last.1.2 < R) (hx : ∀ x ∈ xs, x.1.2 < R) :
    (Repetitions.removeLoop iv last xs h).1.map keyOfIS = dedupGo (keyOfIS last) (xs.map keyOfIS) ∧
    (Repetitions.removeLoop iv last xs h).2.1 = (repsGo (keyOfIS last) (xs.map keyOfIS)).length := by
  induction xs generalizing last h with
  | nil => simp [Repetitions.removeLoop, dedupGo, repsGo]
  | cons x xs ih =>
    have hxb : x.1.2 < R := hx x (by simp)
    have hxs : ∀ y ∈ xs, y.1.2 < R := fun y hy => hx y (by simp [hy])
    by_cases hne : last.1 ≠ x.1
    · have hk : keyOfIS last ≠ keyOfIS x := fun e => hne ((keyOfIS_eq_iff last x hl hxb).mp e)
      rw [Repetitions.removeLoop_keep iv last x xs h hne]
      simp only [List.map_cons, dedupGo, repsGo, if_pos hk]
      obtain ⟨i1, i2⟩ := ih x h hxb hxs
      exact ⟨by rw [i1], i2⟩
    · have heq : last.1 = x.1 := Classical.not_not.mp hne
      have hk : ¬ keyOfIS last ≠ keyOfIS x := fun e => e ((keyOfIS_eq_iff last x hl hxb).mpr heq)
      rw [Repetitions.removeLoop_drop iv last x xs h heq]
      simp only [List.map_cons, dedupGo, repsGo, if_neg hk, List.length_cons]
      obtain ⟨i1, i2⟩ := ih last (if iv > 0 then Repetitions.histDec h (Repetitions.bucketOf last.1 iv) else h) hl hxs
      exact ⟨i1, by rw [i2]⟩

/-- one `removeHistogramRepetition`: C17's `histDec` on the function = C05's `Hist.upd .. decU64` on the map -/
theorem cons_merge_histDec_eq_upd_decU64 (H : Merge.Hist) (last : Repetitions.IDSource) (iv : Nat) (hl : last.1.2 < R)
    (hH : ∀ k, Hist.get H k < R) :
    Repetitions.histDec (Hist.get H) (Repetitions.bucketOf last.1 iv)
      = Hist.get (Hist.upd H (bucket iv (keyOfIS last)) decU64) := by
  funext k
  rw [Hist.get_upd, cons_hist_rep_bucketOf_eq_merge_bucket _ _ hl]
  unfold Repetitions.histDec keyOfIS
  split
  · rename_i hk
    rw [cons_hist_rep_dec64_eq_merge_decU64 _ (hH _), ← hk]
  · rfl

theorem decU64_lt (v : Nat) (h : v < R) : decU64 v < R := by
  unfold decU64 R at *; split <;> omega

theorem upd_decU64_lt (H : Merge.Hist) (b : Nat) (hH : ∀ k, Hist.get H k < R) : ∀ k, Hist.get (Hist.upd H b decU64) k < R := by
  intro k
  rw [Hist.get_upd]
  split
  · exact decU64_lt _ (hH _)
  · exact hH _

/-- the histogram after the loop: C17's third component = C05's `decHist` over the repetitions, in loop order,
`uint64` wrap included (no covering hypothesis) -/
theorem cons_merge_removeLoop_hist_eq_decHist (iv : Nat) (hiv : 0 < iv) (last : Repetitions.IDSource)
    (xs : List Repetitions.IDSource) (H : Merge.Hist) (hl : last.1.2 < R) (hx : ∀ x ∈ xs, x.1.2 < R)
    (hH : ∀ k, Hist.get H k < R) :
    (Repetitions.removeLoop iv last xs (Hist.get H)).2.2
      = Hist.get (decHist iv H (repsGo (keyOfIS last) (xs.map keyOfIS))) := by
  induction xs generalizing last H with
  | nil => simp [Repetitions.removeLoop, repsGo, decHist]
  | cons x xs ih =>
    have hxb : x.1.2 < R := hx x (by simp)
    have hxs : ∀ y ∈ xs, y.1.2 < R := fun y hy => hx y (by simp [hy])
    by_cases hne : last.1 ≠ x.1
    · have hk : keyOfIS last ≠ keyOfIS x := fun e => hne ((keyOfIS_eq_iff last x hl hxb).mp e)
      rw [Repetitions.removeLoop_keep iv last x xs _ hne]
      simp only [List.map_cons, repsGo, if_pos hk]
      exact ih x H hxb hxs hH
    · have heq : last.1 = x.1 := Classical.not_not.mp hne
      have hk : ¬ keyOfIS last ≠ keyOfIS x := fun e => e ((keyOfIS_eq_iff last x hl hxb).mpr heq)
      rw [Repetitions.removeLoop_drop iv last x xs _ heq]
      simp only [List.map_cons, repsGo, if_neg hk, hiv, if_true]
      rw [cons_merge_histDec_eq_upd_decU64 H last iv hl hH]
      have := ih last (Hist.upd H (bucket iv (keyOfIS last)) decU64) hl hxs (upd_decU64_lt H _ hH)
      rw [this]
      rfl

/-- **`removeRepetitionsAdvanced`**: C17's triple (kept entries, count, corrected histogram) = C05's
`removeRepetitions`, `repetitions`, `decHist`.  Domain: RIDs and histogram counts are `uint64`. -/
theorem cons_merge_rep_removeRepetitions_eq_merge (ids : List Repetitions.IDSource) (H : Merge.Hist) (iv : Nat)
    (hx : ∀ x ∈ ids, x.1.2 < R) (hH : ∀ k, Hist.get H k < R) :
    (Repetitions.removeRepetitions ids (Hist.get H) iv).1.map keyOfIS = removeRepetitions (ids.map keyOfIS) ∧
    (Repetitions.removeRepetitions ids (Hist.get H) iv).2.1 = (repetitions (ids.map keyOfIS)).length ∧
    (Repetitions.removeRepetitions ids (Hist.get H) iv).2.2
      = Hist.get (if iv > 0 then decHist iv H (repetitions (ids.map keyOfIS)) else H) := by
  cases ids with
  | nil => simp [Repetitions.removeRepetitions, removeRepetitions, repetitions, decHist]
  | cons x xs =>
    have hxb : x.1.2 < R := hx x (by simp)
    have hxs : ∀ y ∈ xs, y.1.2 < R := fun y hy => hx y (by simp [hy])
    obtain ⟨i1, i2⟩ := cons_merge_removeLoop_eq_dedupGo iv x xs (Hist.get H) hxb hxs
    simp only [Repetitions.removeRepetitions, List.map_cons, removeRepetitions, repetitions]
    refine ⟨by rw [i1], i2, ?_⟩
    by_cases hiv : iv > 0
    · rw [if_pos hiv]; exact cons_merge_removeLoop_hist_eq_decHist iv hiv x xs H hxb hxs hH
    · have : iv = 0 := by omega
      subst this
      rw [if_neg hiv]; exact Repetitions.removeLoop_hist0 x xs _

/-! ## the sort -/

theorem insertId_perm (desc : Bool) (a : Nat) (l : List Nat) : (insertId desc a l).Perm (a :: l) := by
  induction l with
  | nil => simp [insertId]
  | cons b bs ih =>
    unfold insertId
    split
    · exact (List.Perm.cons b ih).trans (List.Perm.swap a b bs)
    · exact List.Perm.refl _

theorem sortIds_perm (desc : Bool) (l : List Nat) : (sortIds desc l).Perm l := by
  induction l with
  | nil => simp [sortIds]
  | cons a as ih => exact (insertId_perm desc a _).trans (List.Perm.cons a ih)

theorem leBy_antisymm (desc : Bool) (a b : Nat) (h1 : LeBy desc a b) (h2 : LeBy desc b a) : a = b := by
  unfold LeBy lessFn at *
  cases desc <;> simp at h1 h2 <;> omega

/-- C17's sort comparator on tagged pairs, read on keys, is C05's non-strict order with `desc = !asc` -/
theorem idLe_leBy (asc : Bool) (a b : Repetitions.IDSource) (ha : a.1.2 < R) (hb : b.1.2 < R)
    (h : Repetitions.idLe asc a b = true) : LeBy (!asc) (keyOfIS a) (keyOfIS b) := by
  rw [rep_idLe_iff] at h
  unfold LeBy lessFn keyOfIS key R at *
  cases asc <;> simp at h ⊢ <;> omega

/-- `sort.Sort(dst.IDs)`: C17 sorts the tagged pairs with `List.mergeSort`, C05 the keys by insertion; the key
sequences are equal (any two correct sorts agree on keys) -/
theorem cons_merge_rep_sort_eq_merge_sortIds (asc : Bool) (all : List Repetitions.IDSource) (hx : ∀ x ∈ all, x.1.2 < R) :
    (all.mergeSort (fun a b => Repetitions.idLe asc a b)).map keyOfIS = sortIds (!asc) (all.map keyOfIS) := by
  have htrans : ∀ a b c : Repetitions.IDSource, Repetitions.idLe asc a b = true → Repetitions.idLe asc b c = true →
      Repetitions.idLe asc a c = true := by
    intro a b c h1 h2
    rw [rep_idLe_iff] at *
    cases asc <;> simp at h1 h2 ⊢ <;> omega
  have htotal : ∀ a b : Repetitions.IDSource, (Repetitions.idLe asc a b || Repetitions.idLe asc b a) = true := by
    intro a b
    rw [Bool.or_eq_true, rep_idLe_iff, rep_idLe_iff]
    cases asc <;> simp <;> omega
  have hsorted := List.pairwise_mergeSort htrans htotal all
  have hperm := List.mergeSort_perm all (fun a b => Repetitions.idLe asc a b)
  apply List.Perm.eq_of_pairwise (le := LeBy (!asc))
  · intro a b _ _ h1 h2; exact leBy_antisymm _ a b h1 h2
  · rw [List.pairwise_map]
    apply List.Pairwise.imp_of_mem _ hsorted
    intro a b ha hb hab
    exact idLe_leBy asc a b (hx a (hperm.mem_iff.mp ha)) (hx b (hperm.mem_iff.mp hb)) hab
  · exact sortIds_sorted _ _
  · exact (hperm.map keyOfIS).trans (sortIds_perm _ _).symm

/-! ## totals and the summed histogram -/

theorem foldl_add_snd (l : List (Nat × Nat)) (a : Nat) : l.foldl (fun s p => s + p.2) a = a + (l.map (·.2)).sum := by
  induction l generalizing a with
  | nil => simp
  | cons p t ih => simp only [List.foldl_cons, List.map_cons, List.sum_cons]; rw [ih]; omega

/-- the count one partial histogram adds to bucket `k`: C17's fold = C05's `Hist.sumAt` -/
theorem cons_merge_rep_histPart_eq_sumAt (h : List (Nat × Nat)) (k : Nat) :
    (h.filter (·.1 = k)).foldl (· + ·.2) 0 = Hist.sumAt h k := by
  unfold Hist.sumAt
  rw [foldl_add_snd]; simp

/-- C17's `subTotal` formula = C05's `subTotal`, for `uint64` totals and fewer than 2^64 repetitions -/
theorem cons_merge_rep_subTotal_eq_merge_subTotal (t reps : Nat) (ht : t < R) (hr : reps < R) :
    (if t > 0 then (t + Repetitions.two64 - reps % Repetitions.two64) % Repetitions.two64 else t) = subTotal t reps := by
  unfold subTotal Repetitions.two64 R at *
  split
  · split <;> omega
  · rfl

/-- C16's copy of `subTotal` is literally C05's -/
theorem cons_merge_proxy_subTotal_eq_merge_subTotal (t reps : Nat) : ProxySearch.subTotal t reps = subTotal t reps := rfl

/-! ## `MergeQPRs` -/

theorem allIds_convRep (qs : List Repetitions.QPR) :
    allIds emptyQPR (qs.map convRep) = (qs.flatMap (·.ids)).map keyOfIS := by
  simp [allIds, emptyQPR, List.flatMap_map, convRep, List.map_flatMap]

theorem mergedHist_convRep_some (qs : List Repetitions.QPR) :
    ∃ H, mergedHist emptyQPR (qs.map convRep) = some H := by
  have := mergedHist_isSome emptyQPR (qs.map convRep) rfl
  cases h : mergedHist emptyQPR (qs.map convRep) with
  | none => rw [h] at this; cases this
  | some H => exact ⟨H, rfl⟩

/-- **The C17 and C05 models of `seq.MergeQPRs` agree** on IDs (sources dropped), total and histogram.
`desc = !asc`; merge into the empty destination with an allocated histogram map (`Merge.emptyQPR`, as `SearchDocs`
and the proxy do - C17's model has no nil-map case, C05's `mergePanics` covers it).  Domain: RIDs fit `uint64`; the
sums of the totals and of the counts per bucket, and the number of IDs, stay below 2^64 (C05 does not model overflow
of these additions; C17 reduces them mod 2^64). -/
theorem cons_merge_rep_mergeQPRs_eq_merge_mergeQPRs (qs : List Repetitions.QPR) (limit iv : Nat) (asc : Bool)
    (hb : ∀ q ∈ qs, ∀ x ∈ q.ids, x.1.2 < R)
    (hT : (qs.map (·.total)).sum < R)
    (hH : ∀ k, (qs.map fun q => Hist.sumAt q.hist k).sum < R)
    (hL : (qs.flatMap (·.ids)).length < R) :
    (Repetitions.mergeQPRs qs limit iv asc).1.map keyOfIS = (mergeQPRs (!asc) emptyQPR (qs.map convRep) limit iv).ids ∧
    (Repetitions.mergeQPRs qs limit iv asc).2.1 = (mergeQPRs (!asc) emptyQPR (qs.map convRep) limit iv).total ∧
    (Repetitions.mergeQPRs qs limit iv asc).2.2 = histGet (mergeQPRs (!asc) emptyQPR (qs.map convRep) limit iv).hist := by
  have hall : ∀ x ∈ qs.flatMap (·.ids), x.1.2 < R := by
    intro x hx
    obtain ⟨q, hq, hxq⟩ := List.mem_flatMap.mp hx
    exact hb q hq x hxq
  have hperm := List.mergeSort_perm (qs.flatMap (·.ids)) (fun a b => Repetitions.idLe asc a b)
  have hsorted_b : ∀ x ∈ (qs.flatMap (·.ids)).mergeSort (fun a b => Repetitions.idLe asc a b), x.1.2 < R :=
    fun x hx => hall x (hperm.mem_iff.mp hx)
  have hsort := cons_merge_rep_sort_eq_merge_sortIds asc (qs.flatMap (·.ids)) hall
  obtain ⟨H, hHm⟩ := mergedHist_convRep_some qs
  -- the summed histogram
  have hget : ∀ k, Hist.get H k = (qs.map fun q => Hist.sumAt q.hist k).sum := by
    intro k
    have := mergedHist_get emptyQPR (qs.map convRep) k
    rw [hHm] at this
    simp only [histGet, emptyQPR, Option.getD_some, Hist.get, Nat.zero_add, List.map_map] at this
    rw [this]
    congr 1
  have hsum : Repetitions.histSum qs = Hist.get H := by
    funext k
    unfold Repetitions.histSum
    rw [hget k]
    have : (qs.map fun q => (q.hist.filter (·.1 = k)).foldl (· + ·.2) 0) = (qs.map fun q => Hist.sumAt q.hist k) := by
      apply List.map_congr_left; intro q _; exact cons_merge_rep_histPart_eq_sumAt q.hist k
    rw [this]
    exact Nat.mod_eq_of_lt (by simpa [Repetitions.two64, R] using hH k)
  have hHlt : ∀ k, Hist.get H k < R := fun k => by rw [hget]; exact hH k
  obtain ⟨r1, r2, r3⟩ := cons_merge_rep_removeRepetitions_eq_merge
    ((qs.flatMap (·.ids)).mergeSort (fun a b => Repetitions.idLe asc a b)) H iv hsorted_b hHlt
  rw [hsort] at r1 r2 r3
  have hma : mergedAll (!asc) emptyQPR (qs.map convRep) = sortIds (!asc) ((qs.flatMap (·.ids)).map keyOfIS) := by
    rw [mergedAll_eq, allIds_convRep]
  refine ⟨?_, ?_, ?_⟩
  · show ((Repetitions.removeRepetitions _ (Repetitions.histSum qs) iv).1.take limit).map keyOfIS = _
    rw [hsum, List.map_take, r1]
    simp only [mergeQPRs, hma]
  · show (if (qs.map (·.total)).sum % Repetitions.two64 > 0 then
        ((qs.map (·.total)).sum % Repetitions.two64 + Repetitions.two64
          - (Repetitions.removeRepetitions _ (Repetitions.histSum qs) iv).2.1 % Repetitions.two64) % Repetitions.two64
      else (qs.map (·.total)).sum % Repetitions.two64) = _
    rw [hsum, r2]
    have hmod : (qs.map (·.total)).sum % Repetitions.two64 = (qs.map (·.total)).sum :=
      Nat.mod_eq_of_lt (by simpa [Repetitions.two64, R] using hT)
    have hreps : (repetitions (sortIds (!asc) ((qs.flatMap (·.ids)).map keyOfIS))).length < R := by
      have := length_removeRepetitions (sortIds (!asc) ((qs.flatMap (·.ids)).map keyOfIS))
      rw [length_sortIds, List.length_map] at this
      omega
    rw [hmod, cons_merge_rep_subTotal_eq_merge_subTotal _ _ hT hreps]
    simp only [mergeQPRs, hma]
    simp only [mergedTotal_eq, emptyQPR, Nat.zero_add, List.map_map]
    congr 2
  · show (Repetitions.removeRepetitions _ (Repetitions.histSum qs) iv).2.2 = _
    rw [hsum, r3]
    simp only [mergeQPRs, hma, hHm]
    by_cases hiv : iv > 0
    · simp only [hiv, if_true, Option.map_some]; funext k; rfl
    · simp only [hiv, if_false]; funext k; rfl

/-- the hypotheses are met by two fractions that both hold document (12,1) (the C17 example) -/
example : let qs : List Repetitions.QPR :=
      [⟨[((12, 1), 0), ((25, 1), 0)], 2, [(10, 1), (20, 1)]⟩, ⟨[((12, 1), 1)], 1, [(10, 1)]⟩]
    (∀ q ∈ qs, ∀ x ∈ q.ids, x.1.2 < R) ∧ (qs.map (·.total)).sum < R ∧ (qs.flatMap (·.ids)).length < R := by
  decide

/-- ... and the no-overflow hypothesis on the bucket sums by the same two partial results -/
example (k : Nat) : let qs : List Repetitions.QPR :=
      [⟨[((12, 1), 0), ((25, 1), 0)], 2, [(10, 1), (20, 1)]⟩, ⟨[((12, 1), 1)], 1, [(10, 1)]⟩]
    (qs.map fun q => Hist.sumAt q.hist k).sum < R := by
  simp only [Hist.sumAt, List.map_cons, List.map_nil, List.sum_cons, List.sum_nil, List.filter, R]
  by_cases h10 : 10 = k <;> by_cases h20 : 20 = k <;> simp [h10, h20]

end SV.Consistency
