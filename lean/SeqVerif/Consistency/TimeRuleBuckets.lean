import SeqVerif.Model.AggLemmas
import SeqVerif.Model.MergeTotals
import SeqVerif.Model.C03Search
import SeqVerif.Model.Collector
import SeqVerif.Model.FracInfo
import SeqVerif.Model.ActiveIndex
import SeqVerif.Model.PruningBorders
/-!
# Model consistency, topic (d) part 2: time bins / histogram buckets of a MID, the histogram map, the MID window of a
request, min / max MID of a bulk

| Go                                                        | Lean definitions                                                         |
|-----------------------------------------------------------|--------------------------------------------------------------------------|
| `bucket := mid; bucket -= bucket % interval` (frac/processor/search.go, seq/qpr.go `removeHistogramRepetition`, aggregator.go `provideExtractTimeFunc`) | `Agg.histBucket` (Model/Agg.lean, C06), `Agg.extractBin` (C06), `Merge.bucket` (Model/MergeQPR.lean, C05/C19), the inline lambda of `C03.search` (Model/C03Search.lean) |
| `histogram[bucket]++` (`map[MID]uint64`)                  | `Agg.incr` / `Agg.histRun` (C06), `Merge.Hist.upd (·+1)` / `Merge.histOf` (Model/SearchDocs.lean, C05) |
| `dst.Histogram[time] += count`                            | `Agg.histAdd` / `Agg.histMerge` (C06), `Merge.Hist.upd (·+n)` / `Merge.addHist` (C05) |
| map read `histogram[k]`                                   | `Agg.histGet` (C06), `Merge.Hist.get` (C05)                              |
| `from ≤ id.MID ≤ to` (the reference a search is compared with) | `Spec.inWindow` (Spec/Store.lean, C02), `Pruning.inRange` (Model/Pruning.lean, C14), `Pruning.idInRange` (Model/PruningBorders.lean) |
| `metaDataCollector.MinMID/MaxMID`                         | `Collector.appendMetaPre` fields (Model/Collector.lean, C17), `FracInfo.batchMin/batchMax` (Model/FracInfo.lean, C14), `ActiveIndex.minMid/maxMid` (Model/ActiveIndex.lean, C02 active) |

Shared, NOT duplicates: `Merge.cntBucket` (Model/MergeTotals.lean), Model/HistAssoc.lean, Model/Async.lean,
Model/SearchDocs*.lean, Model/StoreSearch.lean and Model/ProxyE2E.lean all import Model/MergeQPR.lean and use its
`bucket` / `Hist`; Model/AggRun*.lean, Model/AggE2E.lean use `Agg.extractBin` through `Agg.events`.
The fraction/request overlap test (`Info.IsIntersecting`: `Merge.isIntersecting`, `FracInfo.isIntersecting`,
`Dist.isIntersecting`) is covered by Consistency/FracRange.lean, `getLIDsBorders` by Consistency/Borders.lean and
`seq.Less` by Consistency/IdOrder.lean (other workers) and is not repeated here.
-/
namespace SV.Consistency
open SV

/-! ## the bucket of a MID -/

/-- Go `bucket -= bucket % histInterval` on the MID of an ID.  `SV.Merge.bucket` (Model/MergeQPR.lean; an ID is the key
`mid * 2^64 + rid`) is `SV.Agg.histBucket` (Model/Agg.lean; argument = the MID) after `Merge.midOf` - definitional. -/
theorem cons_time_mergeBucket_eq_histBucket (hi k : Nat) : Merge.bucket hi k = Agg.histBucket hi (Merge.midOf k) := rfl

/-- the same seen from the MID side: representation change `(mid, rid) ↦ Merge.key mid rid`, domain `rid < 2^64` -/
theorem cons_time_histBucket_eq_mergeBucket_key (hi mid rid : Nat) (h : rid < Merge.R) :
    Agg.histBucket hi mid = Merge.bucket hi (Merge.key mid rid) := by
  rw [cons_time_mergeBucket_eq_histBucket, Merge.midOf_key mid rid h]

example : (7 : Nat) < Merge.R := by decide

/-- Go `provideExtractTimeFunc` (`mid - mid % MID(interval)`, `interval` an int64) vs the histogram bucket of
`IndexSearch`: `SV.Agg.extractBin` at a natural interval is `SV.Agg.histBucket`.  Also at `0`: `extractBin` answers
`DummyMID = 0` and `histBucket 0 m = m - m % 0 = 0` (Go would divide by zero there; `HasHist` guards it). -/
theorem cons_time_extractBin_eq_histBucket (hi mid : Nat) : Agg.extractBin (hi : Int) mid = Agg.histBucket hi mid := by
  unfold Agg.extractBin Agg.histBucket
  by_cases h : hi = 0
  · subst h; simp
  · have : ¬ ((hi : Int) ≤ 0) := by omega
    rw [if_neg this]; simp

/-- int64 intervals: positive ones are the natural case above, the others give `DummyMID` -/
theorem cons_time_extractBin_int (i : Int) (mid : Nat) :
    Agg.extractBin i mid = if 0 < i then Agg.histBucket i.toNat mid else 0 := by
  unfold Agg.extractBin Agg.histBucket
  by_cases h : i ≤ 0
  · have : ¬ (0 < i) := by omega
    simp [h, this]
  · have : 0 < i := by omega
    simp [h, this]

/-- `SV.C03.search` (Model/C03Search.lean) writes the bucket inline (`id.1 - id.1 % histInterval`); its histogram
column is the `Agg.histBucket` of the MIDs of the hits, in iteration order (IDs are pairs `(mid, rid)`). -/
theorem cons_time_c03_hist_eq_histBucket (ix : C03.Index) (q : C03.Q) (f t : Nat) (rev : Bool) (limit hi : Nat)
    (a : C03.Answer) (h : C03.search ix q f t rev limit hi = .ok a) (hhi : hi ≠ 0) :
    ∃ ids : List C03.ID, a.hist = ids.map (fun id => Agg.histBucket hi id.1) ∧
      a.ids = (C03.dedupConsecutive ids).take limit := by
  unfold C03.search at h
  simp only [] at h
  split at h
  · cases h
  · rename_i lids _
    split at h
    · cases h
    · rename_i ids hids
      injection h with h
      subst h
      exact ⟨ids, by simp [hhi, Agg.histBucket], rfl⟩

/-! ## the histogram map -/

/-- Go `histogram[bucket]++`: `SV.Agg.incr` (C06) and `SV.Merge.Hist.upd · k (· + 1)` (C05) build the same association
list (same type `List (Nat × Nat)`, identity representation). -/
theorem cons_time_incr_eq_upd (k : Nat) (h : List (Nat × Nat)) : Agg.incr k h = Merge.Hist.upd h k (· + 1) := by
  induction h with
  | nil => simp [Agg.incr, Merge.Hist.upd]
  | cons p r ih =>
    obtain ⟨k', n⟩ := p
    simp only [Agg.incr, Merge.Hist.upd, ih]

/-- Go `dst.Histogram[time] += count`: `SV.Agg.histAdd` (C06) vs `SV.Merge.Hist.upd · k (· + n)` (C05) -/
theorem cons_time_histAdd_eq_upd (k n : Nat) (h : List (Nat × Nat)) : Agg.histAdd k n h = Merge.Hist.upd h k (· + n) := by
  induction h with
  | nil => simp [Agg.histAdd, Merge.Hist.upd]
  | cons p r ih =>
    obtain ⟨k', n'⟩ := p
    simp only [Agg.histAdd, Merge.Hist.upd, ih]

/-- the map read: `SV.Agg.histGet` (`List.lookup`, default 0) vs `SV.Merge.Hist.get` (first entry of the key) -/
theorem cons_time_histGet_eq_get (h : List (Nat × Nat)) (k : Nat) : Agg.histGet h k = Merge.Hist.get h k := by
  unfold Agg.histGet
  induction h with
  | nil => rfl
  | cons p r ih =>
    obtain ⟨k', v⟩ := p
    by_cases e : k' = k
    · subst e; simp [List.lookup, Merge.Hist.get]
    · have hb : (k == k') = false := by simp [Ne.symm e]
      simp only [List.lookup, hb, Merge.Hist.get, e, if_false]
      exact ih

/-- **the per-fraction histogram**: C06's `SV.Agg.histRun` over the MIDs of the matching documents is literally C05's
`SV.Merge.histOf` over their keys (representation change: `docs.map Merge.midOf`), for every interval. -/
theorem cons_time_histRun_eq_histOf (hi : Nat) (docs : List Nat) :
    Agg.histRun hi (docs.map Merge.midOf) = Merge.histOf hi docs := by
  unfold Agg.histRun Merge.histOf
  generalize ([] : List (Nat × Nat)) = h0
  induction docs generalizing h0 with
  | nil => rfl
  | cons d ds ih =>
    simp only [List.map_cons, List.foldl_cons]
    rw [ih, cons_time_incr_eq_upd, cons_time_mergeBucket_eq_histBucket]

/-- **the histogram merge** of `seq.MergeQPRs`: C06's `SV.Agg.histMerge` is C05's `SV.Merge.addHist`, as lists -/
theorem cons_time_histMerge_eq_addHist (dst src : List (Nat × Nat)) : Agg.histMerge dst src = Merge.addHist dst src := by
  unfold Agg.histMerge Merge.addHist
  induction src generalizing dst with
  | nil => rfl
  | cons p src ih => simp only [List.foldl_cons, cons_time_histAdd_eq_upd]

/-- both characterisations of a bucket's count coincide: C06 `histRun_get` (filter on `histBucket`) and C05
`get_histOf` (`cntBucket`) -/
theorem cons_time_histRun_get_eq_cntBucket (hi : Nat) (docs : List Nat) (b : Nat) :
    Agg.histGet (Agg.histRun hi (docs.map Merge.midOf)) b = Merge.cntBucket hi b docs := by
  rw [cons_time_histRun_eq_histOf, cons_time_histGet_eq_get, Merge.get_histOf]

/-! ## the MID window of a request -/

/-- the reference predicate "the document's MID lies in `[from, to]`": `SV.Spec.inWindow` (Spec/Store.lean, C02) vs
`SV.Pruning.idInRange` (Model/PruningBorders.lean, C14) on the document's ID, and vs `SV.Pruning.inRange`
(Model/Pruning.lean) on the pair `(mid, rid)`.  All unsigned comparisons on `Nat`. -/
theorem cons_time_inWindow_eq_idInRange (qf qt : Nat) (d : Spec.Doc) :
    Spec.inWindow qf qt d = Pruning.idInRange qf qt d.id ∧
    Spec.inWindow qf qt d = Pruning.inRange qf qt (d.id.mid, d.id.rid) := ⟨rfl, rfl⟩

/-! ## min / max MID of a bulk (`metaDataCollector`, `Active.UpdateStats` arguments) -/

private theorem collector_extractTokens_mids (c : Collector.Collector) (ts : List Collector.MetaToken) :
    (Collector.extractTokens c ts).minMID = c.minMID ∧ (Collector.extractTokens c ts).maxMID = c.maxMID := by
  unfold Collector.extractTokens
  induction ts generalizing c with
  | nil => exact ⟨rfl, rfl⟩
  | cons t ts ih =>
    simp only [List.foldl_cons]
    have h : (Collector.extractToken c t).minMID = c.minMID ∧ (Collector.extractToken c t).maxMID = c.maxMID := by
      unfold Collector.extractToken; simp only []; split <;> exact ⟨rfl, rfl⟩
    rw [(ih _).1, (ih _).2, h.1, h.2]; exact ⟨rfl, rfl⟩

private theorem collector_fold_mids (ms : List Collector.Meta) (c : Collector.Collector) :
    (ms.foldl Collector.appendMeta c).minMID = (ms.map (·.id.1)).foldl (fun a m => if m < a then m else a) c.minMID ∧
    (ms.foldl Collector.appendMeta c).maxMID = (ms.map (·.id.1)).foldl (fun a m => if m > a then m else a) c.maxMID := by
  induction ms generalizing c with
  | nil => exact ⟨rfl, rfl⟩
  | cons m ms ih =>
    simp only [List.foldl_cons, List.map_cons]
    have h := collector_extractTokens_mids (Collector.appendMetaPre c m) m.tokens
    have e1 : (Collector.appendMeta c m).minMID = if m.id.1 < c.minMID then m.id.1 else c.minMID := by
      unfold Collector.appendMeta; rw [h.1]; rfl
    have e2 : (Collector.appendMeta c m).maxMID = if m.id.1 > c.maxMID then m.id.1 else c.maxMID := by
      unfold Collector.appendMeta; rw [h.2]; rfl
    rw [(ih _).1, (ih _).2, e1, e2]; exact ⟨rfl, rfl⟩

/-- Go `metaDataCollector.AppendMeta` (`if id.MID < c.MinMID { c.MinMID = id.MID }`, same for max; `Init` sets
`MaxUint64` / `0`): the `MinMID/MaxMID` fields after C17's `SV.Collector.collect` (Model/Collector.lean) are C14's
`SV.FracInfo.batchMin/batchMax` (Model/FracInfo.lean) of the MIDs of the metas.  Representation change:
`ms.map (·.id.1)`. -/
theorem cons_time_collector_minmax_eq_batchMinMax (blockIndex : Nat) (ms : List Collector.Meta) :
    (Collector.collect blockIndex ms).minMID = FracInfo.batchMin (ms.map (·.id.1)) ∧
    (Collector.collect blockIndex ms).maxMID = FracInfo.batchMax (ms.map (·.id.1)) :=
  collector_fold_mids ms (Collector.init blockIndex)

private theorem foldl_min_eq (l : List Spec.ID) (a : Nat) :
    l.foldl (fun acc i => min acc i.mid) a = (l.map (·.mid)).foldl (fun a m => if m < a then m else a) a := by
  induction l generalizing a with
  | nil => rfl
  | cons x xs ih =>
    simp only [List.foldl_cons, List.map_cons]
    have : min a x.mid = if x.mid < a then x.mid else a := by split <;> omega
    rw [ih, this]

private theorem foldl_max_eq (l : List Spec.ID) (a : Nat) :
    l.foldl (fun acc i => max acc i.mid) a = (l.map (·.mid)).foldl (fun a m => if m > a then m else a) a := by
  induction l generalizing a with
  | nil => rfl
  | cons x xs ih =>
    simp only [List.foldl_cons, List.map_cons]
    have : max a x.mid = if x.mid > a then x.mid else a := by split <;> omega
    rw [ih, this]

/-- `info.From / info.To` of an active fraction as C02's active model computes them (`SV.ActiveIndex.minMid/maxMid`,
Model/ActiveIndex.lean: `min`/`max` folds over the stored IDs, system entry dropped) vs C14's
`SV.FracInfo.batchMin/batchMax` of the same MIDs taken as one bulk. -/
theorem cons_time_activeIndex_minmax_eq_batchMinMax (a : ActiveIndex.Active) :
    ActiveIndex.minMid a = FracInfo.batchMin ((a.ids.drop 1).map (·.mid)) ∧
    ActiveIndex.maxMid a = FracInfo.batchMax ((a.ids.drop 1).map (·.mid)) :=
  ⟨foldl_min_eq _ _, foldl_max_eq _ _⟩

end SV.Consistency
