import SeqVerif.Consistency.ApiSearchCons
import SeqVerif.Model.ApiAsync
import SeqVerif.Model.ProxyAsync
import SeqVerif.Model.AsyncAck
import SeqVerif.Model.Async
/-!
# Consistency: the asynchronous-search models of C19 - Model/ApiAsync.lean (`SV.Async.asyncParams`),
Model/ProxyAsync.lean (`SV.ProxyAsync`: `startShard`, `proxyStart`, `fetchShard`, `proxyFetch`), Model/AsyncAck.lean
(`SV.AsyncAck`: durable-before-ack life cycle) vs Model/Async.lean (`SV.Async`: `St`, `startWrites`, `resumeWrites`) and
vs the other replica loops (`SV.Api.pickReplica` / `visited`, `SV.ProxySearch.searchShard`)

Not duplicates (reuse): `asyncParams` produces the `SV.Api.Params` of ApiSearch.lean and carries its own equality
`SV.Async.asyncParams_eq_sync` to `Api.storeParams`; `proxyFetch` calls `SV.Merge.mergeQPRs`.
-/
namespace SV.Consistency

open SV

/-! ## the replica loops, a third and fourth time -/

theorem apiAsync_startShard_snd (acc : List Bool) : (ProxyAsync.startShard acc).2 = (apiFirstUp acc).isSome := by
  induction acc with
  | nil => rfl
  | cons b r ih => cases b <;> simp [ProxyAsync.startShard, apiFirstUp, ih]

/-- Go `Ingestor.StartAsyncSearch`, one shard (`for replica { err = Start; if err != nil {continue}; break }`):
`SV.ProxyAsync.startShard` succeeds exactly when `SV.Api.pickReplica` (C05 API model of `searchShard`, index order) finds
a replica; `accept` = "the replica is up".  All inputs - but see the empty-shard witness below. -/
theorem cons_apiAsync_startShard_ok_eq_pickReplica (acc : List Bool) :
    (ProxyAsync.startShard acc).2 = (Api.pickReplica (List.range acc.length) acc).isSome := by
  rw [cons_apiSearch_pickReplica_idxFill, apiAsync_startShard_snd]

theorem apiAsync_startShard_fst (acc : List Bool) :
    (ProxyAsync.startShard acc).1 =
      match apiFirstUp acc with
      | some i => List.replicate (i + 1) true ++ List.replicate (acc.length - (i + 1)) false
      | none => List.replicate acc.length true := by
  induction acc with
  | nil => rfl
  | cons b r ih =>
    cases b with
    | true =>
      simp only [ProxyAsync.startShard, apiFirstUp, List.length_cons, Nat.zero_add, Nat.add_sub_cancel]
      rw [List.map_const']
      rfl
    | false =>
      simp only [ProxyAsync.startShard, apiFirstUp, ih]
      cases apiFirstUp r with
      | none => simp [List.replicate_succ]
      | some i =>
        simp only [Option.map_some, List.length_cons]
        rw [show r.length + 1 - (i + 1 + 1) = r.length - (i + 1) by omega]
        rfl

theorem apiAsync_visited_range (up pre : List Bool) :
    Api.visited (List.range' pre.length up.length) (pre ++ up) =
      match apiFirstUp up with
      | some i => List.range' pre.length (i + 1)
      | none => List.range' pre.length up.length := by
  induction up generalizing pre with
  | nil => simp [Api.visited, apiFirstUp]
  | cons b r ih =>
    have hget : (pre ++ b :: r).getD pre.length false = b := by
      simp [List.getD_eq_getElem?_getD]
    simp only [List.length_cons, List.range'_succ, Api.visited, hget]
    cases b with
    | true => simp [apiFirstUp]
    | false =>
      have := ih (pre ++ [false])
      simp only [List.length_append, List.length_cons, List.length_nil, Nat.zero_add, List.append_assoc,
        List.cons_append, List.nil_append] at this
      simp only [Bool.false_eq_true, if_false, apiFirstUp, this]
      cases apiFirstUp r with
      | none => simp
      | some i => simp [List.range'_succ]

theorem apiAsync_firstUp_lt (acc : List Bool) : ∀ i, apiFirstUp acc = some i → i < acc.length := by
  induction acc with
  | nil => intro i h; cases h
  | cons b r ih =>
    intro i h
    cases b with
    | true => simp [apiFirstUp] at h; subst h; simp
    | false =>
      simp only [apiFirstUp] at h
      cases hr : apiFirstUp r with
      | none => rw [hr] at h; cases h
      | some k =>
        rw [hr] at h
        simp at h
        subst h
        have := ih k hr
        simp only [List.length_cons]; omega

/-- Go replica loop, WHICH replicas receive the request: `SV.ProxyAsync.startShard` flags exactly the replicas
`SV.Api.visited` lists for the index order - everything up to and including the first one that is up.  All inputs. -/
theorem cons_apiAsync_startShard_called_eq_visited (acc : List Bool) :
    (ProxyAsync.startShard acc).1 =
      (List.range acc.length).map fun j => decide (j ∈ Api.visited (List.range acc.length) acc) := by
  have hv := apiAsync_visited_range acc []
  simp only [List.length_nil, List.nil_append, ← List.range_eq_range'] at hv
  rw [hv, apiAsync_startShard_fst]
  cases hf : apiFirstUp acc with
  | none =>
    simp only
    apply List.ext_getElem (by simp)
    intro k h1 h2
    have hk : k < acc.length := by simpa using h2
    simp [hk]
  | some i =>
    simp only
    have hi := apiAsync_firstUp_lt acc i hf
    apply List.ext_getElem (by simp; omega)
    intro k h1 h2
    have hk : k < acc.length := by simpa using h2
    by_cases hki : k < i + 1
    · simp [hki]
    · simp [List.getElem_append, hki]

/-- what a replica answers to a fetch, seen as up/down: "up" = it has the search -/
def apiAsyncOutUp : ProxyAsync.ROut → Bool
  | .ok _ _ => true
  | _ => false

/-- the common alphabet of the fetch loop and the search loop: "does not have it" (`NotFound`, passed over like a
transport error in `searchShard`) or an answer; `Unavailable` / other errors END `FetchAsyncSearchResult`, while
`searchShard` passes over every error - they are outside the common alphabet -/
def ApiAsyncCommonOuts (outs : List ProxyAsync.ROut) : Prop :=
  ∀ o, o ∈ outs → o = .notFound ∨ ∃ d q, o = .ok d q

theorem apiAsync_fetchShard_firstUp (outs : List ProxyAsync.ROut) (hc : ApiAsyncCommonOuts outs) :
    ProxyAsync.fetchShard outs =
      match apiFirstUp (outs.map apiAsyncOutUp) with
      | some i => (match outs[i]? with
                   | some (.ok d q) => .resp d q
                   | _ => .fail)
      | none => .skipped := by
  induction outs with
  | nil => rfl
  | cons o rest ih =>
    have hrest : ApiAsyncCommonOuts rest := fun x hx => hc x (List.mem_cons_of_mem _ hx)
    rcases hc o (by simp) with rfl | ⟨d, q, rfl⟩
    · simp only [ProxyAsync.fetchShard, List.map_cons, apiAsyncOutUp, apiFirstUp]
      rw [ih hrest]
      cases apiFirstUp (rest.map apiAsyncOutUp) with
      | none => rfl
      | some i => simp
    · simp [ProxyAsync.fetchShard, apiAsyncOutUp, apiFirstUp]

/-- Go inner loop of `FetchAsyncSearchResult`: `SV.ProxyAsync.fetchShard` returns the answer of exactly the replica
`SV.Api.pickReplica` selects (index order, up = has the search), and skips the shard when there is none.
Domain: the common alphabet. -/
theorem cons_apiAsync_fetchShard_eq_pickReplica (outs : List ProxyAsync.ROut) (hc : ApiAsyncCommonOuts outs) :
    ProxyAsync.fetchShard outs =
      match Api.pickReplica (List.range outs.length) (outs.map apiAsyncOutUp) with
      | some i => (match outs[i]? with
                   | some (.ok d q) => .resp d q
                   | _ => .fail)
      | none => .skipped := by
  have h1 := cons_apiSearch_pickReplica_idxFill (outs.map apiAsyncOutUp)
  rw [List.length_map] at h1
  rw [h1]
  exact apiAsync_fetchShard_firstUp outs hc

example : ApiAsyncCommonOuts [.notFound, .ok true ⟨[], 0, none⟩] := by
  intro o ho
  simp at ho
  rcases ho with rfl | rfl
  · exact Or.inl rfl
  · exact Or.inr ⟨_, _, rfl⟩

/-- the search loop and the fetch loop treat an ordinary error differently (by design, both follow the Go code):
`searchShard` goes on to the next replica, `FetchAsyncSearchResult` returns the error -/
theorem cons_apiAsync_fetchShard_ne_searchShard_witness :
    ProxyAsync.fetchShard [.unavailable, .ok true ⟨[], 0, none⟩] = .fail ∧
    ProxySearch.searchShard [.fail, .resp .none [] 0 0] = .ok 1 [] 0 0 := by decide

/-- FINDING (model vs Go, degenerate configuration): a shard WITHOUT replicas.  In Go `err` stays nil when the replica
loop does not run, so `StartAsyncSearch` treats the shard as started (proxy/search/async.go: `if err != nil` is false)
and `FetchAsyncSearchResult` goes on to `storeResp.HistogramInterval` with `storeResp == nil` (nil dereference).
`SV.ProxyAsync.startShard []` reports a failed start and `fetchShard []` a skipped shard.  The C16 model of the same loop
shape, `SV.ProxySearch.searchShard []`, does follow Go (`(nil, 0, nil)` = `.nilResp`, which panics downstream). -/
theorem cons_apiAsync_emptyShard_witness :
    (ProxyAsync.startShard []).2 = false ∧ ProxyAsync.fetchShard [] = .skipped ∧
    ProxySearch.searchShard [] = .nilResp := by decide

/-- follow-up: Model/ProxyAsync.lean now wraps both loops (`startShardTop`, `fetchShardTop`) so that a shard without
replicas behaves as in Go (start succeeds with nobody asked; fetch yields the nil response that is dereferenced); the
witness above remains true of the inner loops `startShard` / `fetchShard`, which are only reached with a replica. -/
theorem cons_apiAsync_emptyShard_top_follows_go :
    (ProxyAsync.startShardTop []).2 = true ∧ ProxyAsync.fetchShardTop [] = .nilResp ∧
    ∀ s : List Bool, s ≠ [] → ProxyAsync.startShardTop s = ProxyAsync.startShard s := by
  refine ⟨by decide, by decide, ?_⟩
  intro s hs
  cases s with
  | nil => exact absurd rfl hs
  | cons a r => rfl

/-! ## request parameters -/

/-- cited: the async request's parameters are the synchronous ones (`SV.Async.asyncParams_eq_sync`, Model/ApiAsync.lean) -/
theorem cons_apiAsync_asyncParams_eq_storeParams (r : Async.AsyncReq) :
    Async.asyncParams r = Api.storeParams (Async.syncRequest r) := Async.asyncParams_eq_sync r

/-- Go `&seq.QPR{Aggs: ..}` (nil histogram map), the destination of the proxy's `MergeQPRs`: the literal in
`SV.ProxyAsync.proxyFetch` is `SV.Async.zeroQPR` (the store-side `FetchSearchResult` start value) -/
theorem cons_apiAsync_proxyFetch_dst_eq_zeroQPR : (⟨[], 0, none⟩ : Merge.QPR) = Async.zeroQPR := rfl

/-! ## persisted state: `SV.AsyncAck.Sys.disk` vs `SV.Async.St` -/

/-- what AsyncAck.lean keeps of one request's persisted state: whether `<id>.info` exists, and its `Done` flag -/
def apiAsyncDiskOf (id : String) (st : Async.St) : List (String × Bool) :=
  match st.info with
  | none => []
  | some i => [(id, i.done)]

/-- the AsyncAck.lean operations that correspond to the first `k` atomic writes of `StartSearch` + `doSearch`:
nothing written = the torn start; the info written = the acknowledged start (`Done` = no fractions in range);
everything written = the worker finished -/
def apiAsyncOps (id : String) (nfracs k : Nat) : List AsyncAck.Op :=
  if k = 0 then [.startTorn id]
  else if nfracs = 0 then [.start id true]
  else if k < nfracs + 2 then [.start id false]
  else [.start id false, .finish id]

theorem apiAsync_run_qprs_info (st : Async.St) (search : String → Merge.QPR) (names : List String) :
    (Async.run st (names.map fun n => Async.Write.qpr n (search n))).info = st.info := by
  induction names generalizing st with
  | nil => rfl
  | cons n r ih =>
    simp only [Async.run, List.map_cons, List.foldl_cons] at ih ⊢
    rw [ih]; rfl

/-- Go `StartSearch` / `doSearch` write order (info first, then one result file per fraction, then the info with
`Done = true`): after ANY number `k` of completed atomic writes the persisted state of `SV.Async` (`run emptySt (take k
startWrites)`) projects to the disk of `SV.AsyncAck` after the corresponding operations.  In particular the info file is
there before any result (`k >= 1`), which is what AsyncAck.lean's acknowledgement relies on, and `Done` is set last.
All inputs. -/
theorem cons_apiAsync_persisted_eq_asyncAck_disk (id : String) (search : String → Merge.QPR) (fracs : List String) (k : Nat) :
    apiAsyncDiskOf id (Async.run Async.emptySt ((Async.startWrites search fracs).take k)) =
      (AsyncAck.run (apiAsyncOps id fracs.length k)).disk := by
  unfold apiAsyncOps
  by_cases hk : k = 0
  · subst hk
    simp [Async.run, Async.emptySt, apiAsyncDiskOf, AsyncAck.run, AsyncAck.step]
  · obtain ⟨m, rfl⟩ : ∃ m, k = m + 1 := ⟨k - 1, by omega⟩
    rw [if_neg hk]
    unfold Async.startWrites
    simp only [List.take_succ_cons, Async.run, List.foldl_cons, Async.apply, Async.emptySt]
    by_cases he : fracs = []
    · subst he
      simp [apiAsyncDiskOf, AsyncAck.run, AsyncAck.step]
    · have hlen : fracs.length ≠ 0 := by
        intro h; exact he (List.eq_nil_of_length_eq_zero h)
      have hemp : fracs.isEmpty = false := by
        cases fracs with
        | nil => exact absurd rfl he
        | cons _ _ => rfl
      rw [if_neg hlen]
      simp only [hemp, Bool.false_eq_true, if_false]
      by_cases hm : m + 1 < fracs.length + 2
      · rw [if_pos hm]
        have htake : (fracs.map (fun n => Async.Write.qpr n (search n)) ++ [Async.Write.info ⟨fracs, true⟩]).take m =
            (fracs.take m).map (fun n => Async.Write.qpr n (search n)) := by
          rw [List.take_append_of_le_length (by simp; omega), List.map_take]
        rw [htake]
        have := apiAsync_run_qprs_info ⟨some ⟨fracs, false⟩, []⟩ search (fracs.take m)
        simp only [Async.run] at this
        simp only [apiAsyncDiskOf, this]
        simp [AsyncAck.run, AsyncAck.step]
      · rw [if_neg hm]
        have htake : (fracs.map (fun n => Async.Write.qpr n (search n)) ++ [Async.Write.info ⟨fracs, true⟩]).take m =
            fracs.map (fun n => Async.Write.qpr n (search n)) ++ [Async.Write.info ⟨fracs, true⟩] := by
          apply List.take_of_length_le; simp; omega
        rw [htake, List.foldl_append]
        simp [apiAsyncDiskOf, Async.apply, AsyncAck.run, AsyncAck.step, AsyncAck.setDone]

/-- Go `MustStartAsync` after a restart: `SV.Async.resumeWrites` does nothing for a request whose persisted info says
`Done` - the same flag `SV.AsyncAck` keeps on its disk and never resets (`crash` leaves `disk` unchanged). -/
theorem cons_apiAsync_resume_done_noop (search : String → Merge.QPR) (st : Async.St) (i : Async.Info)
    (h : st.info = some i) (hd : i.done = true) (s : AsyncAck.Sys) :
    Async.resumeWrites search st = [] ∧ (AsyncAck.step s .crash).disk = s.disk := by
  refine ⟨?_, rfl⟩
  unfold Async.resumeWrites
  rw [h]
  simp [hd]

end SV.Consistency
