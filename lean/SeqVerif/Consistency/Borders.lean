import SeqVerif.Model.Borders
import SeqVerif.Model.PruningBorders
import SeqVerif.Model.RangeGo
import SeqVerif.Model.FetchIDs
import SeqVerif.Proofs.C03SearchProofs
import SeqVerif.Proofs.C03C02
/-!
# Consistency: `getLIDsBorders` (frac/processor/search.go) and `idsIndex.LessOrEqual`

Models of `getLIDsBorders`:

* `SV.Borders.getLIDsBorders minMID maxMID tbl`   (Model/Borders.lean, C02): the ids table is a `List SV.Spec.ID`
  (records) WITHOUT the system entry of LID 0, `Len() = tbl.length + 1`;
* `SV.C03.borders ix fromMID toMID`                (Model/C03Search.lean, C03): an abstract `SV.C03.Index` whose
  `lessOrEqual : Nat → Nat × Nat → Option Bool` may panic (`none`), `Len() = ix.len`, and a `Len() == 0` branch.

Not duplicates (they import Model/Borders.lean and call `SV.Borders.getLIDsBorders` itself): Model/PruningBorders.lean
(C14, `narrowed`), Model/RangeGo.lean (C02, `borders_range_terminates`), Model/EvalTree.lean, Model/ActiveIndex.lean.

Models of `LessOrEqual(lid, id)` over a table: `SV.Borders.lessOrEqual` (table without LID 0, `SV.Spec.ID`),
`SV.Fetch.lessOrEqual` (Model/FetchIDs.lean, C04: flat table WITH the system entry at index 0, `SV.Fetch.ID`),
`SV.C03.activeLessOrEqual` (Model/C03Frac.lean: through `GetMID/GetRID`, pairs).
-/
namespace SV.Consistency
open SV

/-! ## representation changes -/

/-- C03's `ID = Nat × Nat` -> the Spec's record -/
def specIdOfPair (p : SV.C03.ID) : SV.Spec.ID := ⟨p.1, p.2⟩
/-- C04's `SV.Fetch.ID` record -> the Spec's record (same fields) -/
def specIdOfFetch (i : SV.Fetch.ID) : SV.Spec.ID := ⟨i.mid, i.rid⟩

/-- the C03 index interface over a C02 ids table (only the id side; no tokens): `Len() = tbl.length + 1` -/
def ixOfTbl (tbl : List SV.Spec.ID) : SV.C03.Index :=
  { len := tbl.length + 1,
    getMID := fun lid => if 1 ≤ lid ∧ lid ≤ tbl.length then some (SV.Borders.idAt tbl lid).mid else none,
    getRID := fun lid => if 1 ≤ lid ∧ lid ≤ tbl.length then some (SV.Borders.idAt tbl lid).rid else none,
    lessOrEqual := fun lid id => some (SV.Borders.lessOrEqual tbl lid (specIdOfPair id)),
    node := fun _ _ _ _ => .ok [] }

/-! ## constants and `seq.LessOrEqual` -/

/-- `math.MaxUint64` in the RID slot of the border IDs: same constant in C02, C03 -/
theorem cons_borders_maxU64_c02_eq_c03 : SV.Borders.maxU64 = SV.C03.maxU64 := rfl

/-- `seq.LessOrEqual`: `SV.C03.idLE` (pairs) = `SV.Spec.ID.le` (records) under `specIdOfPair`
(= `SV.C03.idLE_eq` of Proofs/C03C02.lean, restated with the named conversion); all inputs -/
theorem cons_borders_idLE_c03_eq_spec (x y : SV.C03.ID) : SV.C03.idLE x y = SV.Spec.ID.le (specIdOfPair x) (specIdOfPair y) := rfl

/-- `seq.LessOrEqual` / `seq.Less`: `SV.Fetch.ID.le/lt` (C04) = `SV.Spec.ID.le/lt` under `specIdOfFetch`; all inputs -/
theorem cons_borders_idLe_fetch_eq_spec (x y : SV.Fetch.ID) : x.le y = SV.Spec.ID.le (specIdOfFetch x) (specIdOfFetch y) := rfl
theorem cons_borders_idLt_fetch_eq_spec (x y : SV.Fetch.ID) : x.lt y = SV.Spec.ID.lt (specIdOfFetch x) (specIdOfFetch y) := rfl

/-! ## LessOrEqual over a table -/

/-- `sealedIDsIndex.LessOrEqual(lid, id)`: `SV.Fetch.lessOrEqual` on the flat table `sys :: tbl` (C04, LID 0 = system
entry) = `SV.Borders.lessOrEqual` on `tbl` (C02, LID 0 left out), IDs converted with `specIdOfFetch`.
Domain: `1 ≤ lid` (LID 0 is never probed: every binary search starts at 1); beyond the table both answer `true`. -/
theorem cons_borders_lessOrEqual_fetch_eq_c02 (sys : SV.Fetch.ID) (tbl : List SV.Fetch.ID) (lid : Nat) (h1 : 1 ≤ lid)
    (id : SV.Fetch.ID) :
    SV.Fetch.lessOrEqual (sys :: tbl) lid id = SV.Borders.lessOrEqual (tbl.map specIdOfFetch) lid (specIdOfFetch id) := by
  obtain ⟨k, rfl⟩ : ∃ k, lid = k + 1 := ⟨lid - 1, by omega⟩
  unfold SV.Fetch.lessOrEqual SV.Borders.lessOrEqual SV.Borders.idAt
  by_cases hk : k < tbl.length
  · have h' : k + 1 < (sys :: tbl).length := by simpa using hk
    rw [dif_pos h']
    simp [List.getD, List.getElem?_eq_getElem hk, cons_borders_idLe_fetch_eq_spec, specIdOfFetch]
  · have h' : ¬ (k + 1 < (sys :: tbl).length) := by simpa using hk
    rw [dif_neg h']
    have : (tbl.map specIdOfFetch)[k]? = none := by simp; omega
    simp [List.getD, this, SV.Spec.ID.le]
    omega

example : (1 : Nat) ≤ 1 := by decide

/-! ## getLIDsBorders: C03 (abstract index) = C02 (table) -/

/-- **`getLIDsBorders`**: `SV.C03.borders ix` (Model/C03Search.lean) = `SV.Borders.getLIDsBorders .. tbl`
(Model/Borders.lean) whenever the C03 index presents the C02 table: `Len() = tbl.length + 1` and, on the LIDs the
binary searches probe (`1 ..= Len()-1`), `ix.lessOrEqual` does not panic and equals the table's `LessOrEqual`
(IDs converted with `specIdOfPair`).  All windows `fromMID, toMID`. -/
theorem cons_borders_c03_eq_c02 (ix : SV.C03.Index) (tbl : List SV.Spec.ID) (hlen : ix.len = tbl.length + 1)
    (hle : ∀ lid id, 1 ≤ lid → lid ≤ tbl.length →
      ix.lessOrEqual lid id = some (SV.Borders.lessOrEqual tbl lid (specIdOfPair id)))
    (fromMID toMID : Nat) :
    SV.C03.borders ix fromMID toMID = SV.Borders.getLIDsBorders fromMID toMID tbl := by
  rw [SV.C03.borders_eq ix (by omega)]
  simp only [SV.Borders.getLIDsBorders]
  have hl : ix.len - 1 = tbl.length := by omega
  rw [hl]
  have e1 := SV.C03.binSearch_congr 1 tbl.length
    (fun lid => (ix.lessOrEqual lid (toMID, SV.C03.maxU64)).getD false)
    (fun lid => SV.Borders.lessOrEqual tbl lid ⟨toMID, SV.Borders.maxU64⟩)
    (fun k h1 h2 => by simp only [hle k _ h1 h2]; rfl)
  rw [e1]
  have b1 := SV.C03.binSearch_bounds 1 tbl.length (fun lid => SV.Borders.lessOrEqual tbl lid ⟨toMID, SV.Borders.maxU64⟩)
  generalize binSearchInRange 1 tbl.length (fun lid => SV.Borders.lessOrEqual tbl lid ⟨toMID, SV.Borders.maxU64⟩) = minLID at *
  have e2 := SV.C03.binSearch_congr minLID tbl.length
    (fun lid => (ix.lessOrEqual lid (if fromMID > 0 then (fromMID - 1, SV.C03.maxU64) else (fromMID, 0))).getD false)
    (fun lid => SV.Borders.lessOrEqual tbl lid (if fromMID > 0 then ⟨fromMID - 1, SV.Borders.maxU64⟩ else ⟨fromMID, 0⟩))
    (fun k h1 h2 => by
      simp only [hle k _ (by omega) h2]
      split <;> rfl)
  rw [e2]

/-- non-vacuity + the explicit conversion: the C03 interface built over any C02 table satisfies the hypotheses, so
`SV.C03.borders (ixOfTbl tbl) = SV.Borders.getLIDsBorders .. tbl` for EVERY table and window -/
theorem cons_borders_c03_ixOfTbl_eq_c02 (tbl : List SV.Spec.ID) (fromMID toMID : Nat) :
    SV.C03.borders (ixOfTbl tbl) fromMID toMID = SV.Borders.getLIDsBorders fromMID toMID tbl :=
  cons_borders_c03_eq_c02 (ixOfTbl tbl) tbl rfl (fun _ _ _ _ => rfl) fromMID toMID

example : SV.C03.borders (ixOfTbl [⟨7, 1⟩, ⟨5, 2⟩, ⟨3, 0⟩]) 4 6 = SV.Borders.getLIDsBorders 4 6 [⟨7, 1⟩, ⟨5, 2⟩, ⟨3, 0⟩] :=
  cons_borders_c03_ixOfTbl_eq_c02 _ 4 6

/-- the `Len() == 0` branch exists only in the C03 model (`(0, 0)`, as in Go); C02's table always contains the
system entry (`Len() = tbl.length + 1 ≥ 1`), so the branch is outside the common domain -/
theorem cons_borders_c03_len_zero (ix : SV.C03.Index) (h : ix.len = 0) (f t : Nat) : SV.C03.borders ix f t = (0, 0) := by
  simp [SV.C03.borders, h]

/-- `activeIDsIndex.LessOrEqual` (through `GetMID/GetRID`, C03) = the C02 table's `LessOrEqual` on the ids that
Proofs/C03C02.lean reads from the active fraction (`activeView`), for every LID of a stored document -/
theorem cons_borders_activeLessOrEqual_eq_c02 (names : List SV.Spec.Bytes) (a : SV.C03.Active) (h : SV.C03.Quiescent a)
    (lid : Nat) (id : SV.C03.ID) (h1 : 1 ≤ lid) (h2 : lid ≤ a.allDocs.length) :
    SV.C03.activeLessOrEqual a lid id =
      some (SV.Borders.lessOrEqual (SV.C03.activeView names a).ids lid (specIdOfPair id)) := by
  obtain ⟨hl, m, r, hget, hm, hr⟩ := SV.C03.sealedIDs_get a h lid h1 h2
  have hk : lid - 1 < a.allDocs.length := by omega
  have hmr : (m, r) = (a.mids.getD a.allDocs[lid - 1] 0, a.rids.getD a.allDocs[lid - 1] 0) := by
    rw [← hget]
    obtain ⟨k, rfl⟩ : ∃ k, lid = k + 1 := ⟨lid - 1, by omega⟩
    simp [SV.C03.sealedIDs_eq a h]
  have hid : SV.Borders.idAt (SV.C03.activeView names a).ids lid = ⟨m, r⟩ := by
    rw [SV.Borders.idAt_eq _ _ h1 (by simp [SV.C03.activeView]; exact h2)]
    simp only [SV.C03.activeView, List.getElem_map]
    simp only [Prod.mk.injEq] at hmr
    rw [hmr.1, hmr.2]
  unfold SV.C03.activeLessOrEqual SV.Borders.lessOrEqual
  rw [hm, hr, hid]
  simp only [Option.map_some, specIdOfPair, SV.Spec.ID.le]
  split <;> simp_all

/-- **`getLIDsBorders` on the active fraction**: C03's borders over the interface of the active fraction = C02's
borders over the ids table read from it (`activeView`, Proofs/C03C02.lean); every window.  Domain: a quiescent
active fraction (`SV.C03.Quiescent`, the standing hypothesis of all C03 theorems; witness `SV.Props.C03`'s examples). -/
theorem cons_borders_c03_activeIndex_eq_c02 (names : List SV.Spec.Bytes) (a : SV.C03.Active) (h : SV.C03.Quiescent a)
    (fromMID toMID : Nat) :
    SV.C03.borders (SV.C03.activeIndex a) fromMID toMID =
      SV.Borders.getLIDsBorders fromMID toMID (SV.C03.activeView names a).ids := by
  apply cons_borders_c03_eq_c02
  · simp [SV.C03.activeIndex, SV.C03.activeLen, SV.C03.activeView]
  · intro lid id h1 h2
    have h2' : lid ≤ a.allDocs.length := by simpa [SV.C03.activeView] using h2
    exact cons_borders_activeLessOrEqual_eq_c02 names a h lid id h1 h2'

/-- the same for the sealed form (`SV.C03.borders_agree` composed with the equality above) -/
theorem cons_borders_c03_sealedIndex_eq_c02 (names : List SV.Spec.Bytes) (a : SV.C03.Active) (s : SV.C03.Sealed)
    (h : SV.C03.Quiescent a) (hag : SV.C03.IndexAgree a s) (fromMID toMID : Nat) :
    SV.C03.borders (SV.C03.sealedIndex s) fromMID toMID =
      SV.Borders.getLIDsBorders fromMID toMID (SV.C03.sealedView names a s).ids := by
  rw [(SV.C03.borders_agree a s hag fromMID toMID).1, SV.C03.sealedView_eq names a s h hag]
  exact cons_borders_c03_activeIndex_eq_c02 names a h fromMID toMID

/-! ## the window predicate -/

/-- "mid inside `[from, to]`": `SV.Pruning.idInRange` (Model/PruningBorders.lean, C14, on an ID) =
`SV.Spec.inWindow` (Spec/Store.lean, on a document); all inputs -/
theorem cons_borders_idInRange_eq_inWindow (qf qt : Nat) (d : SV.Spec.Doc) :
    SV.Pruning.idInRange qf qt d.id = SV.Spec.inWindow qf qt d := rfl

/-- `minLID ≤ lid ≤ maxLID`: `SV.C03.inWin` (Model/C03Lids.lean, `narrowLIDsRange`) is the filter predicate of
`SV.EvalTree.narrow` (Model/EvalTree.lean, `GetLIDsFromTIDs`): the ascending `narrow` is `filter (inWin ..)` -/
theorem cons_borders_narrow_eq_filter_inWin (lo hi : Nat) (lids : List Nat) :
    SV.EvalTree.narrow false lo hi lids = lids.filter (SV.C03.inWin lo hi) := rfl

theorem cons_borders_narrow_rev_eq_filter_inWin (lo hi : Nat) (lids : List Nat) :
    SV.EvalTree.narrow true lo hi lids = (lids.filter (SV.C03.inWin lo hi)).reverse := rfl

end SV.Consistency
