import SeqVerif.Model.BulkMetaCodec
import SeqVerif.Model.BulkCompose
import SeqVerif.Model.WPPlain
import SeqVerif.Model.WPIndexLemmas
import SeqVerif.Model.FetchBytes
/-!
# Consistency of the models of the `frac.MetaData` binary codec and of the docs-block framing

Go: `frac/meta_data_collector.go` (`MetaData.MarshalBinaryTo`, `UnmarshalBinary`, `MetaToken.MarshalBinaryTo`,
`MetaToken.UnmarshalBinary`), `marshalAppendMeta` / `DocProvider.appendMeta` (4-byte record length),
`DocProvider.appendDoc` and `disk/docs_reader.go: extractDocsFromBlockFunc` (4-byte document length).

| Go | C10 (`SV.Bulk`, Model/Bulk.lean, BulkProc.lean, BulkMetaCodec.lean) | C01 (`SV.WPath`, Model/WPBytes.lean, WPIndex.lean, WPPlain.lean) | C04 (`SV.Fetch`, Model/FetchBytes.lean) | C17 (`SV.Collector`) |
|---|---|---|---|---|
| `AppendUint32/64`        | `le32`, `le64` (explicit byte lists) | `leN k` (recursive)        | inside `encDoc` | - |
| `Uint32/64`              | `rd32`, `rd64` (`Option`, checks length) | `rdLE k` (missing bytes = 0) | `le32 block off` | - |
| `MetaToken.Marshal`      | `encTok`                       | `encToken`                        | - | - |
| `MetaData.MarshalBinaryTo` + length | `encMeta`, `appendMeta` | `encMeta` (with the length prefix) | - | - |
| `MetaToken.Unmarshal` xN | `decToks` (`Option`)           | `parseTokens` (total, yields `key:value`) | - | `MetaToken.bytes` |
| `MetaData.UnmarshalBinary` | `decMeta` (`Option`)         | `parseMeta` (total, no magic check) | - | - |
| record loop              | `decodeDocs` + `mapM decMeta`  | `parseMetas`                      | - | - |
| docs payload             | `encodeDocs`, `enc1`, `decodeDocs` | `rawDocs`, `docAt`            | `encDoc`, `extractDoc` | `docBlock` (offsets only) |

C10's decoders are partial (`Option`: Go returns an error / the harness never feeds such input), C01's are total
(garbage in, garbage out); the theorems say: wherever the C10 decoder succeeds, the C01 decoder returns the same
record.
-/
namespace SV.Consistency

/-! ## representation changes -/

/-- a C10 record as the decoded record C01 indexes: id pair, size, tokens as `key:value` bytes -/
def docMetaOfRec (m : SV.Bulk.MetaRec) : SV.WPath.DocMeta :=
  ⟨(m.mid, m.rid), m.size, m.tokens.map fun t => t.key ++ [58] ++ t.val⟩

/-- C10 token record <-> the (key, value) pair C01's encoder takes -/
def pairOfToken (t : SV.Bulk.Token) : SV.WPath.Bytes × SV.WPath.Bytes := (t.key, t.val)

/-! ## little-endian integers -/

/-- Go `binary.LittleEndian.AppendUint32`: `SV.Bulk.le32` (C10) = `SV.WPath.leN 4` (C01); all `n` (both truncate). -/
theorem cons_le32_bulk_eq_wpath (n : Nat) : SV.Bulk.le32 n = SV.WPath.leN 4 n := by
  simp only [SV.Bulk.le32, SV.WPath.leN, Nat.div_div_eq_div_mul]

/-- Go `binary.LittleEndian.AppendUint64`: `SV.Bulk.le64` (C10) = `SV.WPath.leN 8` (C01). -/
theorem cons_le64_bulk_eq_wpath (n : Nat) : SV.Bulk.le64 n = SV.WPath.leN 8 n := by
  simp only [SV.Bulk.le64, SV.WPath.leN, Nat.div_div_eq_div_mul]

/-- Go `binary.LittleEndian.Uint32(b); b = b[4:]`: `SV.Bulk.rd32` (C10, `none` when fewer than 4 bytes are left) vs
`SV.WPath.rdLE 4` (C01, reads missing bytes as 0).  Common domain: at least 4 bytes. -/
theorem cons_rd32_bulk_eq_wpath (b : List Nat) :
    SV.Bulk.rd32 b = if b.length < 4 then none else some (SV.WPath.rdLE 4 b, b.drop 4) := by
  match b with
  | [] | [_] | [_, _] | [_, _, _] => simp [SV.Bulk.rd32]
  | b0 :: b1 :: b2 :: b3 :: r =>
    simp only [SV.Bulk.rd32, SV.WPath.rdLE, List.length_cons, List.drop_succ_cons, List.drop_zero]
    rw [if_neg (by omega)]
    congr 2
    omega

/-- Go `binary.LittleEndian.Uint64(b); b = b[8:]`: `SV.Bulk.rd64` vs `SV.WPath.rdLE 8`; at least 8 bytes. -/
theorem cons_rd64_bulk_eq_wpath (b : List Nat) :
    SV.Bulk.rd64 b = if b.length < 8 then none else some (SV.WPath.rdLE 8 b, b.drop 8) := by
  match b with
  | [] | [_] | [_, _] | [_, _, _] | [_, _, _, _] | [_, _, _, _, _] | [_, _, _, _, _, _] | [_, _, _, _, _, _, _] =>
    simp [SV.Bulk.rd64]
  | b0 :: b1 :: b2 :: b3 :: b4 :: b5 :: b6 :: b7 :: r =>
    simp only [SV.Bulk.rd64, SV.WPath.rdLE, List.length_cons, List.drop_succ_cons, List.drop_zero]
    rw [if_neg (by omega)]
    congr 2
    omega

/-- `binary.LittleEndian.Uint32(block[off:])`: `SV.Fetch.le32 block off` (C04) vs `SV.WPath.rdLE 4 (block.drop off)`
(C01).  Common domain: 4 bytes available at `off` (C04 answers 0 otherwise, C01 reads what is there). -/
theorem cons_le32read_fetch_eq_wpath (block : List Nat) (off : Nat) (h : off + 4 ≤ block.length) :
    SV.Fetch.le32 block off = SV.WPath.rdLE 4 (block.drop off) := by
  have hl : (block.drop off).length ≥ 4 := by rw [List.length_drop]; omega
  unfold SV.Fetch.le32
  match hb : block.drop off, hl with
  | b0 :: b1 :: b2 :: b3 :: r, _ =>
    simp only [SV.WPath.rdLE]
    omega

example : (0 : Nat) + 4 ≤ [1, 0, 0, 0, 9].length := by decide

/-! ## encoders -/

/-- Go `MetaToken.MarshalBinaryTo`: `SV.Bulk.encTok` (C10) = `SV.WPath.encToken` (C01) on the (key, value) pair. -/
theorem cons_encToken_bulk_eq_wpath (t : SV.Bulk.Token) : SV.Bulk.encTok t = SV.WPath.encToken (pairOfToken t) := by
  simp [SV.Bulk.encTok, SV.WPath.encToken, pairOfToken, cons_le32_bulk_eq_wpath]

/-- Go `MetaData.MarshalBinaryTo` without the record length: the body C01's `encMeta` prefixes with its length -/
theorem encMeta_body (m : SV.Bulk.MetaRec) :
    SV.WPath.leN 2 0x3F7C ++ SV.WPath.leN 2 1 ++ SV.WPath.leN 8 m.mid ++ SV.WPath.leN 8 m.rid ++ SV.WPath.leN 4 m.size ++
      SV.WPath.leN 4 (m.tokens.map pairOfToken).length ++ ((m.tokens.map pairOfToken).map SV.WPath.encToken).flatten =
    SV.Bulk.encMeta m := by
  have h1 : SV.WPath.leN 2 0x3F7C ++ SV.WPath.leN 2 1 = [124, 63, 1, 0] := by decide
  have h2 : ((m.tokens.map pairOfToken).map SV.WPath.encToken).flatten = m.tokens.flatMap SV.Bulk.encTok := by
    rw [List.flatMap_def, List.map_map]
    congr 1
    apply List.map_congr_left
    intro t _
    exact (cons_encToken_bulk_eq_wpath t).symm
  rw [h1, h2]
  simp only [SV.Bulk.encMeta, cons_le32_bulk_eq_wpath, cons_le64_bulk_eq_wpath, List.length_map, List.append_assoc]

/-- Go `marshalAppendMeta` / `DocProvider.appendMeta` (`u32 len` + `MetaData.MarshalBinaryTo`): `SV.WPath.encMeta`
(C01, includes the length prefix) = `SV.Bulk.appendMeta []` (C10: `le32 (encMeta m).length ++ encMeta m`).
Representation change: record `MetaRec` <-> (id pair, size, list of (key, value)).  All inputs (both encoders
truncate over-long fields the same way). -/
theorem cons_encMeta_bulk_eq_wpath (m : SV.Bulk.MetaRec) :
    SV.WPath.encMeta (m.mid, m.rid) m.size (m.tokens.map pairOfToken) = SV.Bulk.appendMeta [] m := by
  simp only [SV.WPath.encMeta, SV.Bulk.appendMeta, List.nil_append]
  rw [encMeta_body m, cons_le32_bulk_eq_wpath]

/-- the whole metas payload: C10's `encodeMetas` is the concatenation of C01's `encMeta` records -/
theorem cons_encodeMetas_bulk_eq_wpath (ms : List SV.Bulk.MetaRec) :
    SV.Bulk.encodeMetas ms =
      (ms.map fun m => SV.WPath.encMeta (m.mid, m.rid) m.size (m.tokens.map pairOfToken)).flatten := by
  have : ∀ acc, ms.foldl SV.Bulk.appendMeta acc =
      acc ++ (ms.map fun m => SV.WPath.encMeta (m.mid, m.rid) m.size (m.tokens.map pairOfToken)).flatten := by
    induction ms with
    | nil => intro acc; simp
    | cons m ms ih =>
      intro acc
      simp only [List.foldl_cons, List.map_cons, List.flatten_cons, ih, cons_encMeta_bulk_eq_wpath]
      simp [SV.Bulk.appendMeta]
  simpa [SV.Bulk.encodeMetas] using this []

/-! ## decoders -/

theorem rdBytes_some (b k r : List Nat) (h : SV.Bulk.rdBytes b = some (k, r)) :
    k = (b.drop 4).take (SV.WPath.rdLE 4 b) ∧ r = b.drop (4 + SV.WPath.rdLE 4 b) := by
  unfold SV.Bulk.rdBytes at h
  rw [cons_rd32_bulk_eq_wpath] at h
  by_cases hb : b.length < 4
  · simp [hb] at h
  · simp only [hb, if_false] at h
    by_cases hr : (b.drop 4).length < SV.WPath.rdLE 4 b
    · simp at h
      exact ⟨h.2.1.symm, h.2.2.symm⟩
    · simp only [hr, if_false, Option.some.injEq, Prod.mk.injEq] at h
      obtain ⟨rfl, rfl⟩ := h
      exact ⟨rfl, by rw [List.drop_drop]⟩

/-- Go `MetaToken.UnmarshalBinary` in the token loop of `unmarshalVersion1`, followed by `extractTokens`' `key:value`.
`SV.Bulk.decToks` (C10, `none` = "malformed key/value") vs `SV.WPath.parseTokens` (C01, total).  Domain: the C10
decoder succeeds. -/
theorem cons_decToks_bulk_eq_wpath (n : Nat) (b : List Nat) (ts : List SV.Bulk.Token) (r : List Nat)
    (h : SV.Bulk.decToks n b = some (ts, r)) :
    SV.WPath.parseTokens n b = ts.map fun t => t.key ++ [58] ++ t.val := by
  induction n generalizing b ts r with
  | zero => simp only [SV.Bulk.decToks] at h; cases h; rfl
  | succ n ih =>
    simp only [SV.Bulk.decToks] at h
    cases h1 : SV.Bulk.rdBytes b with
    | none => rw [h1] at h; cases h
    | some kr =>
      obtain ⟨k, r1⟩ := kr
      rw [h1] at h
      simp only [] at h
      cases h2 : SV.Bulk.rdBytes r1 with
      | none => rw [h2] at h; cases h
      | some vr =>
        obtain ⟨v, r2⟩ := vr
        rw [h2] at h
        simp only [] at h
        cases h3 : SV.Bulk.decToks n r2 with
        | none => rw [h3] at h; cases h
        | some p =>
          rw [h3] at h
          simp only [Option.map_some, Option.some.injEq, Prod.mk.injEq] at h
          obtain ⟨hk, hr1⟩ := rdBytes_some b k r1 h1
          obtain ⟨hv, hr2⟩ := rdBytes_some r1 v r2 h2
          obtain ⟨rfl, rfl⟩ := h
          have := ih r2 p.1 p.2 h3
          simp only [SV.WPath.parseTokens, List.map_cons]
          rw [← hr1, ← hr2, this, ← hk, ← hv]

/-- Go `MetaData.UnmarshalBinary` (version 1).  `SV.Bulk.decMeta` (C10; `none` for a wrong magic / version / short
input) vs `SV.WPath.parseMeta` (C01; reads the fields at fixed offsets 4, 12, 20, 24, 28 without checking the magic).
Representation change `docMetaOfRec`.  Domain: the C10 decoder succeeds (then the magic is right and all fixed-size
fields are present, so the fixed offsets of C01 read the same bytes). -/
theorem cons_decMeta_bulk_eq_wpath (r : List Nat) (m : SV.Bulk.MetaRec) (h : SV.Bulk.decMeta r = some m) :
    SV.WPath.parseMeta r = docMetaOfRec m := by
  unfold SV.Bulk.decMeta at h
  split at h
  next b =>
    simp only [cons_rd64_bulk_eq_wpath, cons_rd32_bulk_eq_wpath] at h
    split at h
    · cases h
    next mid b1 h1 =>
      split at h1
      · cases h1
      · simp only [Option.some.injEq, Prod.mk.injEq] at h1
        obtain ⟨rfl, rfl⟩ := h1
        split at h
        · cases h
        next rid b2 h2 =>
          split at h2
          · cases h2
          · simp only [Option.some.injEq, Prod.mk.injEq] at h2
            obtain ⟨rfl, rfl⟩ := h2
            split at h
            · cases h
            next size b3 h3 =>
              split at h3
              · cases h3
              · simp only [Option.some.injEq, Prod.mk.injEq] at h3
                obtain ⟨rfl, rfl⟩ := h3
                split at h
                · cases h
                next n b4 h4 =>
                  split at h4
                  · cases h4
                  · simp only [Option.some.injEq, Prod.mk.injEq] at h4
                    obtain ⟨rfl, rfl⟩ := h4
                    cases hd : SV.Bulk.decToks (SV.WPath.rdLE 4 (List.drop 4 (List.drop 8 (List.drop 8 b))))
                        (List.drop 4 (List.drop 4 (List.drop 8 (List.drop 8 b)))) with
                    | none => rw [hd] at h; cases h
                    | some p =>
                      rw [hd] at h
                      simp only [Option.map_some, Option.some.injEq] at h
                      subst h
                      have ht := cons_decToks_bulk_eq_wpath _ _ p.1 p.2 hd
                      simp only [SV.WPath.parseMeta, docMetaOfRec, List.drop_succ_cons, List.drop_zero,
                        List.drop_drop] at ht ⊢
                      rw [ht]
  · cases h

/-- the record loop of `appendWorker` (`for len(metas) > 0 { size := Uint32; ... UnmarshalBinary(metas[4:4+size]) }`).
`SV.Bulk.decodeDocs` (C10: the generic length-prefixed splitter, `Option`) vs `SV.WPath.parseMetas` (C01).  Domain:
the C10 splitter succeeds with the same fuel. -/
theorem cons_recordLoop_bulk_eq_wpath (f : Nat) (b : List Nat) (rs : List (List Nat))
    (h : SV.Bulk.decodeDocs f b = some rs) : SV.WPath.parseMetas f b = rs.map SV.WPath.parseMeta := by
  induction f generalizing b rs with
  | zero =>
    cases b with
    | nil => simp only [SV.Bulk.decodeDocs] at h; cases h; rfl
    | cons x b => simp [SV.Bulk.decodeDocs] at h
  | succ f ih =>
    match b, h with
    | [], h => simp only [SV.Bulk.decodeDocs] at h; cases h; simp [SV.WPath.parseMetas]
    | [_], h | [_, _], h | [_, _, _], h => simp [SV.Bulk.decodeDocs] at h
    | b0 :: b1 :: b2 :: b3 :: rest, h =>
      simp only [SV.Bulk.decodeDocs] at h
      split at h
      · cases h
      · cases hd : SV.Bulk.decodeDocs f (List.drop (b0 + 256 * b1 + 65536 * b2 + 16777216 * b3) rest) with
        | none => rw [hd] at h; cases h
        | some ds =>
          rw [hd] at h
          simp only [Option.map_some, Option.some.injEq] at h
          subst h
          have hn : SV.WPath.rdLE 4 (b0 :: b1 :: b2 :: b3 :: rest) = b0 + 256 * b1 + 65536 * b2 + 16777216 * b3 := by
            simp only [SV.WPath.rdLE]; omega
          have := ih _ ds hd
          simp only [SV.WPath.parseMetas, List.length_cons, hn, List.map_cons]
          rw [if_neg (by omega)]
          simp only [List.drop_succ_cons, List.drop_zero]
          rw [← this]
          congr 2
          rw [Nat.add_comm 4]
          rfl

/-- **metas payload, end to end C10 -> C01**: what the ingestor marshals (`encodeMetas`, C10) is parsed by C01's
record loop + `parseMeta` into exactly those records.  Domain: fields fit their wire width (`MetaRec.Ok`, record
shorter than 4 GiB) - the hypotheses of C10's own round-trip theorem `decode_encodeMetas`. -/
theorem cons_metasPayload_bulk_to_wpath (ms : List SV.Bulk.MetaRec) (h : ∀ m, m ∈ ms → m.Ok)
    (hl : ∀ m, m ∈ ms → (SV.Bulk.encMeta m).length < 4294967296) :
    SV.WPath.parseMetas (SV.Bulk.encodeMetas ms).length (SV.Bulk.encodeMetas ms) = ms.map docMetaOfRec := by
  have hrt := SV.Bulk.decode_encodeMetas ms h hl
  cases hd : SV.Bulk.decodeDocs (SV.Bulk.encodeMetas ms).length (SV.Bulk.encodeMetas ms) with
  | none => rw [hd] at hrt; cases hrt
  | some rs =>
    rw [hd] at hrt
    simp only [Option.bind_some] at hrt
    rw [cons_recordLoop_bulk_eq_wpath _ _ rs hd]
    clear hd h hl
    induction rs generalizing ms with
    | nil => simp only [List.mapM_nil] at hrt; cases hrt; rfl
    | cons r rs ih =>
      simp only [List.mapM_cons, Option.bind_eq_bind] at hrt
      cases h1 : SV.Bulk.decMeta r with
      | none => rw [h1] at hrt; cases hrt
      | some m =>
        rw [h1] at hrt
        simp only [Option.bind_some] at hrt
        cases h2 : List.mapM SV.Bulk.decMeta rs with
        | none => rw [h2] at hrt; cases hrt
        | some ms' =>
          rw [h2] at hrt
          simp only [Option.bind_some] at hrt
          cases hrt
          simp only [List.map_cons, cons_decMeta_bulk_eq_wpath r m h1, ih ms' h2]

example : (⟨1, 2, 3, [⟨[97], [98]⟩]⟩ : SV.Bulk.MetaRec).Ok := by
  refine ⟨by decide, by decide, by decide, by decide, ?_⟩
  intro t ht
  simp only [List.mem_singleton] at ht
  subst ht
  exact ⟨by decide, by decide⟩

/-! ## token bytes `key:value` (`extractTokens`) -/

/-- Go `extractTokens`: `append(append(key, ':'), value...)`.  `SV.Collector.MetaToken.bytes` (C17) = the bytes
C01's `parseTokens` builds = the bytes C10's `layout` / `toks_bytes` uses. -/
theorem cons_tokenBytes_collector_eq_wpath (t : SV.Bulk.Token) :
    SV.Collector.MetaToken.bytes ⟨t.key, t.val⟩ = t.key ++ [58] ++ t.val := by
  simp [SV.Collector.MetaToken.bytes]

/-- record conversions commute: C10 meta -> C17 meta (`SV.Bulk.toCollector`) -> tokens as bytes, equals C10 meta ->
wire record (`Meta.toRec`) -> C01 decoded record (`docMetaOfRec`). -/
theorem cons_metaRecords_commute (m : SV.Bulk.Meta) :
    (⟨(SV.Bulk.toCollector m).id, (SV.Bulk.toCollector m).size,
      (SV.Bulk.toCollector m).tokens.map SV.Collector.MetaToken.bytes⟩ : SV.WPath.DocMeta) = docMetaOfRec m.toRec := by
  simp [SV.Bulk.toCollector, SV.Bulk.Meta.toRec, docMetaOfRec, SV.Collector.MetaToken.bytes]

/-! ## docs block framing -/

/-- Go `DocProvider.appendDoc` / `binaryDocs` of the bulk path: `u32 len` + document.  `SV.Bulk.enc1` (C10) =
`SV.Fetch.encDoc` (C04) = the summand of `SV.WPath.rawDocs` (C01). -/
theorem cons_encDoc_bulk_eq_fetch (d : List Nat) : SV.Bulk.enc1 d = SV.Fetch.encDoc d := rfl

theorem cons_encDoc_bulk_eq_wpath (d : List Nat) : SV.Bulk.enc1 d = SV.WPath.leN 4 d.length ++ d := by
  rw [SV.Bulk.enc1, cons_le32_bulk_eq_wpath]

/-- the docs payload of a bulk: `SV.WPath.rawDocs` (C01) = `SV.Bulk.encodeDocs` (C10) of the bodies. -/
theorem cons_rawDocs_wpath_eq_bulk (ds : List SV.WPath.LDoc) :
    SV.WPath.rawDocs ds = SV.Bulk.encodeDocs (ds.map (·.body)) := by
  rw [SV.Bulk.encodeDocs_eq, SV.WPath.rawDocs, List.flatMap_def, List.map_map]
  congr 1
  apply List.map_congr_left
  intro d _
  exact (cons_encDoc_bulk_eq_wpath d.body).symm

/-- Go `extractDocsFromBlockFunc` for one offset.  `SV.WPath.docAt` (C01, `none` when the block is too short - Go
would panic on the slice) vs `SV.Fetch.extractDoc` (C04, total: truncates).  They agree whenever C01 answers. -/
theorem cons_extractDoc_wpath_eq_fetch (raw : List Nat) (off : Nat) :
    SV.WPath.docAt raw off =
      if raw.length < off + 4 then none
      else if raw.length < off + 4 + SV.Fetch.le32 raw off then none
      else some (SV.Fetch.extractDoc raw off) := by
  unfold SV.WPath.docAt
  by_cases h : raw.length < off + 4
  · simp [h]
  · rw [if_neg h, if_neg h]
    simp only [SV.Fetch.extractDoc, cons_le32read_fetch_eq_wpath raw off (by omega)]

end SV.Consistency
