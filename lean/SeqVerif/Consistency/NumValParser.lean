import SeqVerif.Model.LegacyParser
import SeqVerif.Model.PatternSpecWith
/-!
# Model consistency, topic (c), part 2: the parser's leaves (`SV.Parser.Leaf`, Model/SeqQLFilter.lean) vs the searchers' tokens
(`SV.Pattern.Token`, Model/Pattern.lean) vs the Spec's leaves (`SV.Spec.Leaf`, Spec/Store.lean)

`SV.Parser.Leaf` is pure syntax (C10/C11/C12 compare ASTs); no match function is defined on it, so there is no second
semantics to compare - what must agree is the CONVERSION into the two types that do carry semantics, and the side condition
`Pattern.WF` under which C13 proves `wildcardSearch.check` = glob.  Term data of the parser model are code points; the searchers
work on bytes: `enc` (UTF-8 encoding, `string(runes)`) is a parameter.

* `patTokenOfParser` / `specLeafOfParser`, commuting with `Pattern.specLeaf`;
* `Term.sym` (Go `TermSymbol`, only `*`) as a range end = `none` = unbounded on both sides;
* the term lists built by `parseSeqQLKeyword` / `parseSeqQLText` (`Parser.seqqlKeyword` / `Parser.seqqlText`) and by the legacy
  parser's `termBuilder`s (`Parser.TB`, `parseTerms` / `parseQuotedTerms`, Model/LegacyParser.lean) satisfy `Pattern.WF` - the
  hypothesis of `cons_glob_pattern_checkTerms_eq_spec_globMatch` (NumVal.lean) is discharged for both parsers.
-/
namespace SV.Consistency
open SV

/-! ## conversions -/

/-- `parser.Term` ↦ the searchers' term: `TermSymbol` is `*`, `TermText` carries its data as bytes -/
def patTermOfParser (enc : List Nat → Pattern.Bytes) (t : Parser.Term) : Pattern.Term :=
  if t.sym then .star else .text (enc t.data)

/-- a range end: `TermSymbol` (`*`) = no bound -/
def boundOfParser (enc : List Nat → Pattern.Bytes) (t : Parser.Term) : Option Pattern.Bytes :=
  if t.sym then none else some (enc t.data)

/-- `parser.Literal` / `parser.Range` as the `parser.Token` handed to `pattern.Search` (the field selects the dictionary) -/
def patTokenOfParser (enc : List Nat → Pattern.Bytes) : Parser.Leaf → Pattern.Token
  | .lit _ ts => .literal (ts.map (patTermOfParser enc))
  | .range _ f t i j => .range ⟨boundOfParser enc f, boundOfParser enc t, i, j⟩

def Parser.Leaf.fieldName : Parser.Leaf → List Nat
  | .lit f _ => f
  | .range f _ _ _ _ => f

/-- the Spec leaf of a parser leaf, written directly -/
def specLeafOfParser (enc : List Nat → Pattern.Bytes) : Parser.Leaf → Spec.Leaf
  | .lit f ts => .lit f (ts.map fun t => if t.sym then Spec.Term.star else Spec.Term.text (enc t.data))
  | .range f lo hi i j =>
    .range f (if lo.sym then none else some (enc lo.data)) i (if hi.sym then none else some (enc hi.data)) j

/-- the two routes parser leaf → Spec leaf (directly / through the pattern-package token) coincide -/
theorem cons_numval_parser_specLeaf_patToken_eq_specLeafOfParser (enc : List Nat → Pattern.Bytes) (l : Parser.Leaf) :
    Pattern.specLeaf (Parser.Leaf.fieldName l) (patTokenOfParser enc l) = specLeafOfParser enc l := by
  cases l with
  | lit f ts =>
    simp only [patTokenOfParser, Pattern.specLeaf, specLeafOfParser, Parser.Leaf.fieldName, Pattern.specTerms, List.map_map]
    congr 1
    apply List.map_congr_left
    intro t _
    simp only [Function.comp, patTermOfParser]
    split <;> rfl
  | range f lo hi i j => rfl

theorem cons_numval_parser_specLeaf_field (enc : List Nat → Pattern.Bytes) (l : Parser.Leaf) :
    (specLeafOfParser enc l).field = Parser.Leaf.fieldName l := by
  cases l <;> rfl

/-- **one semantics for the three leaf types**: the searcher `newSearcher` builds for a parser leaf checks exactly the Spec leaf of
that parser leaf, same oracle `pf` on both sides.  Hypotheses: `Pattern.SpecOKWith` (literal: `WF` - proved below for the SeqQL term
builders; range: key bound). -/
theorem cons_numval_parser_leaf_pattern_check_eq_spec_valMatchWith (enc : List Nat → Pattern.Bytes)
    (pf : Pattern.Bytes → Option Int) (maxKey : Int) (l : Parser.Leaf)
    (hok : Pattern.SpecOKWith pf maxKey (patTokenOfParser enc l)) :
    ∃ k, Pattern.kindOf pf maxKey (patTokenOfParser enc l) = some k ∧
      ∀ v, k.check pf v = (specLeafOfParser enc l).valMatchWith pf v := by
  rw [← cons_numval_parser_specLeaf_patToken_eq_specLeafOfParser]
  exact Pattern.kind_eq_specWith pf maxKey _ _ hok

/-- `*` as a range end (`Term.sym`, what `parseRangeTerm` returns for a lone wildcard) is "unbounded" in all three
representations: `none` in `Pattern.Range` and in `Spec.Leaf.range` -/
theorem cons_numval_parser_range_star_is_unbounded (enc : List Nat → Pattern.Bytes) (f d1 d2 : List Nat) (i j : Bool) :
    patTokenOfParser enc (.range f ⟨true, d1⟩ ⟨true, d2⟩ i j) = .range ⟨none, none, i, j⟩ ∧
    specLeafOfParser enc (.range f ⟨true, d1⟩ ⟨true, d2⟩ i j) = .range f none i none j := ⟨rfl, rfl⟩

/-- a text range end is a bound in all three, with the inclusive flags carried over unchanged -/
theorem cons_numval_parser_range_text_is_bound (enc : List Nat → Pattern.Bytes) (f d1 d2 : List Nat) (i j : Bool) :
    patTokenOfParser enc (.range f ⟨false, d1⟩ ⟨false, d2⟩ i j) = .range ⟨some (enc d1), some (enc d2), i, j⟩ ∧
    specLeafOfParser enc (.range f ⟨false, d1⟩ ⟨false, d2⟩ i j) = .range f (some (enc d1)) i (some (enc d2)) j := ⟨rfl, rfl⟩

/-! ## the SeqQL term builders produce `Pattern.WF` term lists -/

/-- no two adjacent text terms, no empty text term -/
def Good (l : List Pattern.Term) : Prop := Pattern.noAdj l = true ∧ ∀ d, Pattern.Term.text d ∈ l → d ≠ []

/-- the list is empty or ends with `*` -/
def EndsStar (l : List Pattern.Term) : Prop := ∀ t, l.getLast? = some t → t = .star

theorem noAdj_star_cons (l : List Pattern.Term) : Pattern.noAdj (.star :: l) = Pattern.noAdj l := by
  cases l with
  | nil => rfl
  | cons b ts => simp [Pattern.noAdj, Pattern.Term.isText]

theorem noAdj_text_star_cons (d : Pattern.Bytes) (l : List Pattern.Term) :
    Pattern.noAdj (.text d :: .star :: l) = Pattern.noAdj l := by
  rw [Pattern.noAdj, noAdj_star_cons]; simp [Pattern.Term.isText]

theorem noAdj_append_star (l : List Pattern.Term) (h : Pattern.noAdj l = true) : Pattern.noAdj (l ++ [.star]) = true := by
  induction l with
  | nil => rfl
  | cons a l ih =>
    cases l with
    | nil => simp [Pattern.noAdj, Pattern.Term.isText]
    | cons b ts =>
      simp only [Pattern.noAdj, Bool.and_eq_true] at h
      simp only [List.cons_append, Pattern.noAdj, Bool.and_eq_true]
      exact ⟨h.1, ih h.2⟩

theorem noAdj_append_text (l : List Pattern.Term) (d : Pattern.Bytes) (h : Pattern.noAdj l = true) (he : EndsStar l) :
    Pattern.noAdj (l ++ [.text d]) = true := by
  induction l with
  | nil => rfl
  | cons a l ih =>
    cases l with
    | nil =>
      have : a = .star := he a rfl
      subst this
      simp [Pattern.noAdj, Pattern.Term.isText]
    | cons b ts =>
      simp only [Pattern.noAdj, Bool.and_eq_true] at h
      simp only [List.cons_append, Pattern.noAdj, Bool.and_eq_true]
      refine ⟨h.1, ih h.2 ?_⟩
      intro t ht
      exact he t (by simpa [List.getLast?_cons_cons] using ht)

theorem good_append_star (l : List Pattern.Term) (h : Good l) : Good (l ++ [.star]) :=
  ⟨noAdj_append_star l h.1, fun d hd => by
    simp only [List.mem_append, List.mem_singleton] at hd
    rcases hd with hd | hd
    · exact h.2 d hd
    · cases hd⟩

theorem good_append_text (l : List Pattern.Term) (d : Pattern.Bytes) (hd : d ≠ []) (h : Good l) (he : EndsStar l) :
    Good (l ++ [.text d]) :=
  ⟨noAdj_append_text l d h.1 he, fun d' hd' => by
    simp only [List.mem_append, List.mem_singleton] at hd'
    rcases hd' with hd' | hd'
    · exact h.2 d' hd'
    · cases hd'; exact hd⟩

theorem endsStar_append_star (l : List Pattern.Term) : EndsStar (l ++ [.star]) := by
  intro t ht; simpa using ht.symm

/-- a non-empty good list is well-formed in the sense of C13 -/
theorem wf_of_good (l : List Pattern.Term) (hne : l ≠ []) (h : Good l) : Pattern.WF l := by
  unfold Pattern.WF Pattern.wfB
  simp only [Bool.and_eq_true, Bool.not_eq_true', List.all_eq_true, List.isEmpty_eq_false_iff]
  refine ⟨⟨hne, h.1⟩, ?_⟩
  intro d hd
  simp only [Pattern.middleTerms, List.mem_map, List.mem_filter] at hd
  obtain ⟨t, ⟨ht, hti⟩, rfl⟩ := hd
  have hmem : t ∈ l := by
    rw [List.dropLast_eq_take] at ht
    exact List.mem_of_mem_tail (List.mem_of_mem_take ht)
  cases t with
  | star => simp [Pattern.Term.isText] at hti
  | text d =>
    have := h.2 d hmem
    simpa [Pattern.Term.data] using this

/-- `[text ""]`, the answer of both builders for an empty value, is well-formed (a single term has no "inside") -/
theorem wf_single_empty_text (b : Pattern.Bytes) : Pattern.WF [.text b] := by
  unfold Pattern.WF Pattern.wfB; simp [Pattern.noAdj, Pattern.middleTerms]

section
variable (enc : List Nat → Pattern.Bytes) (henc : ∀ d, d ≠ [] → enc d ≠ [])
include henc

omit henc in
theorem lowerIf_ne_nil (cs : Bool) (buf : List Parser.Rn) (h : buf ≠ []) : Parser.lowerIf cs buf ≠ [] := by
  unfold Parser.lowerIf
  cases buf with
  | nil => exact absurd rfl h
  | cons a l => simp

omit henc in
theorem patTerm_star (d : List Nat) : patTermOfParser enc ⟨true, d⟩ = .star := rfl
omit henc in
theorem patTerm_text (d : List Nat) : patTermOfParser enc ⟨false, d⟩ = .text (enc d) := rfl

/-- the loop of `parseSeqQLKeyword` yields a good list; it is non-empty unless buffer and input are both empty -/
theorem keywordLoop_good (cs : Bool) (rest buf : List Parser.Rn) :
    Good ((Parser.keywordLoop cs buf rest).map (patTermOfParser enc)) ∧
      ((buf ≠ [] ∨ rest ≠ []) → Parser.keywordLoop cs buf rest ≠ []) := by
  induction rest generalizing buf with
  | nil =>
    unfold Parser.keywordLoop
    by_cases hb : buf = []
    · subst hb; simp [Good, Pattern.noAdj]
    · have hbe : buf.isEmpty = false := by simpa using hb
      simp only [hbe, Bool.false_eq_true, if_false, List.map_cons, List.map_nil, patTerm_text]
      refine ⟨⟨rfl, ?_⟩, fun _ => by simp⟩
      intro d hd
      simp only [List.mem_singleton, Pattern.Term.text.injEq] at hd
      subst hd
      exact henc _ (lowerIf_ne_nil cs buf hb)
  | cons r rest ih =>
    unfold Parser.keywordLoop
    by_cases hw : r.cp = Parser.wildcardCp
    · simp only [hw, if_true]
      obtain ⟨⟨ha, hn⟩, _⟩ := ih []
      by_cases hb : buf = []
      · subst hb
        simp only [List.isEmpty_nil, if_true, List.nil_append, List.map_cons, patTerm_star]
        refine ⟨⟨by rw [noAdj_star_cons]; exact ha, ?_⟩, fun _ => by simp⟩
        intro d hd
        simp only [List.mem_cons] at hd
        rcases hd with hd | hd
        · cases hd
        · exact hn d hd
      · have hbe : buf.isEmpty = false := by simpa using hb
        simp only [hbe, Bool.false_eq_true, if_false, List.cons_append, List.nil_append, List.map_cons, patTerm_star,
          patTerm_text]
        refine ⟨⟨by rw [noAdj_text_star_cons]; exact ha, ?_⟩, fun _ => by simp⟩
        intro d hd
        simp only [List.mem_cons] at hd
        rcases hd with hd | hd | hd
        · cases hd; exact henc _ (lowerIf_ne_nil cs buf hb)
        · cases hd
        · exact hn d hd
    · simp only [hw, if_false]
      obtain ⟨hg, hne⟩ := ih (buf ++ [r])
      exact ⟨hg, fun _ => hne (Or.inl (by simp))⟩

/-- **`parseSeqQLKeyword` (parser/seqql_filter.go; Lean `Parser.seqqlKeyword`) always yields a `Pattern.WF` term list**, for every
input and case flag, given only that the byte encoding of a non-empty rune string is non-empty.  Hence
`cons_glob_pattern_checkTerms_eq_spec_globMatch` applies to every keyword literal the SeqQL parser can produce. -/
theorem cons_glob_parser_seqqlKeyword_wf (cs : Bool) (value : List Parser.Rn) :
    Pattern.WF ((Parser.seqqlKeyword cs value).map (patTermOfParser enc)) := by
  unfold Parser.seqqlKeyword
  by_cases hv : value = []
  · subst hv
    simp only [List.isEmpty_nil, if_true, List.map_cons, List.map_nil, patTerm_text]
    exact wf_single_empty_text _
  · have hve : value.isEmpty = false := by simpa using hv
    simp only [hve, Bool.false_eq_true, if_false]
    obtain ⟨hg, hne⟩ := keywordLoop_good enc henc cs value []
    exact wf_of_good _ (by simpa using hne (Or.inr hv)) hg

/-! ### `parseSeqQLText` -/

/-- finished literals are non-empty and good, the current literal is good -/
def TextInvF (enc : List Nat → Pattern.Bytes) (s : Parser.TextSt) : Prop :=
  (∀ lit, lit ∈ s.done → lit ≠ [] ∧ Good (lit.map (patTermOfParser enc))) ∧ Good (s.cur.map (patTermOfParser enc))

/-- ... and between two runes the current literal is empty or ends with `*` (a text term is only appended by `flushTerm`, which is
always followed by a `*` or by closing the literal) -/
def TextInv (enc : List Nat → Pattern.Bytes) (s : Parser.TextSt) : Prop :=
  TextInvF enc s ∧ EndsStar (s.cur.map (patTermOfParser enc))

theorem flushTerm_inv (cs : Bool) (s : Parser.TextSt) (h : TextInv enc s) : TextInvF enc (s.flushTerm cs) := by
  unfold Parser.TextSt.flushTerm
  by_cases ht : s.term = []
  · simp only [ht, List.isEmpty_nil, if_true]; exact h.1
  · have hte : s.term.isEmpty = false := by simpa using ht
    simp only [hte, Bool.false_eq_true, if_false]
    refine ⟨h.1.1, ?_⟩
    simp only [List.map_append, List.map_cons, List.map_nil, patTerm_text]
    exact good_append_text _ _ (henc _ (lowerIf_ne_nil cs s.term ht)) h.1.2 h.2

theorem textStep_inv (cs : Bool) (s : Parser.TextSt) (r : Parser.Rn) (h : TextInv enc s) :
    TextInv enc (Parser.textStep cs s r) := by
  unfold Parser.textStep
  by_cases hw : Parser.isWordRune r = true
  · simp only [hw, if_true]; exact h
  · simp only [hw, Bool.false_eq_true, if_false]
    have hf := flushTerm_inv enc henc cs s h
    by_cases hc : r.cp = Parser.wildcardCp
    · simp only [hc, if_true]
      refine ⟨⟨hf.1, ?_⟩, ?_⟩
      · simp only [List.map_append, List.map_cons, List.map_nil, patTerm_star]
        exact good_append_star _ hf.2
      · simp only [List.map_append, List.map_cons, List.map_nil, patTerm_star]
        exact endsStar_append_star _
    · simp only [hc, if_false]
      by_cases he : (s.flushTerm cs).cur = []
      · simp only [he, List.isEmpty_nil, if_true]
        refine ⟨hf, ?_⟩
        rw [he]; intro t ht; simp at ht
      · have hee : (s.flushTerm cs).cur.isEmpty = false := by simpa using he
        simp only [hee, Bool.false_eq_true, if_false]
        refine ⟨⟨?_, ?_⟩, ?_⟩
        · intro lit hl
          simp only [List.mem_append, List.mem_singleton] at hl
          rcases hl with hl | hl
          · exact hf.1 lit hl
          · subst hl; exact ⟨he, hf.2⟩
        · exact ⟨rfl, fun d hd => by simp at hd⟩
        · intro t ht; simp at ht

theorem foldl_textStep_inv (cs : Bool) (value : List Parser.Rn) (s : Parser.TextSt) (h : TextInv enc s) :
    TextInv enc (value.foldl (Parser.textStep cs) s) := by
  induction value generalizing s with
  | nil => exact h
  | cons r rest ih => exact ih _ (textStep_inv enc henc cs s r h)

/-- **`parseSeqQLText` (parser/seqql_filter.go; Lean `Parser.seqqlText`): every literal it yields is a `Pattern.WF` term list** -/
theorem cons_glob_parser_seqqlText_wf (cs : Bool) (value : List Parser.Rn) (lit : List Parser.Term)
    (hl : lit ∈ Parser.seqqlText cs value) : Pattern.WF (lit.map (patTermOfParser enc)) := by
  unfold Parser.seqqlText at hl
  by_cases hv : value = []
  · subst hv
    simp only [List.isEmpty_nil, if_true, List.mem_singleton] at hl
    subst hl
    exact wf_single_empty_text _
  · have hve : value.isEmpty = false := by simpa using hv
    simp only [hve, Bool.false_eq_true, if_false] at hl
    have h0 : TextInv enc ⟨[], [], []⟩ :=
      ⟨⟨fun _ h => by simp at h, rfl, fun d hd => by simp at hd⟩, fun t ht => by simp at ht⟩
    have hf := flushTerm_inv enc henc cs _ (foldl_textStep_inv enc henc cs value _ h0)
    generalize (value.foldl (Parser.textStep cs) ⟨[], [], []⟩).flushTerm cs = s at hl hf
    have hall : ∀ l, l ∈ (if s.cur.isEmpty then s.done else s.done ++ [s.cur]) →
        l ≠ [] ∧ Good (l.map (patTermOfParser enc)) := by
      intro l hl'
      by_cases hc : s.cur = []
      · simp only [hc, List.isEmpty_nil, if_true] at hl'; exact hf.1 l hl'
      · have hce : s.cur.isEmpty = false := by simpa using hc
        simp only [hce, Bool.false_eq_true, if_false, List.mem_append, List.mem_singleton] at hl'
        rcases hl' with hl' | hl'
        · exact hf.1 l hl'
        · subst hl'; exact ⟨hc, hf.2⟩
    generalize (if s.cur.isEmpty then s.done else s.done ++ [s.cur]) = toks at hl hall
    by_cases ht : toks.isEmpty = true
    · simp only [ht, if_true, List.mem_singleton] at hl
      subst hl
      exact wf_single_empty_text _
    · simp only [ht, Bool.false_eq_true, if_false] at hl
      obtain ⟨hne, hg⟩ := hall lit hl
      exact wf_of_good _ (by simpa using hne) hg

/-! ### the legacy parser's term builders (parser/term_builder.go; Lean `Parser.TB`, Model/LegacyParser.lean) -/

/-- invariant of `baseTokenBuilder` between two calls: finished literals non-empty and good, current literal good and empty or
ending with `*` -/
def TBInv (enc : List Nat → Pattern.Bytes) (b : Parser.TB) : Prop :=
  (∀ lit, lit ∈ b.tokens → lit ≠ [] ∧ Good (lit.map (patTermOfParser enc))) ∧
  Good (b.terms.map (patTermOfParser enc)) ∧ EndsStar (b.terms.map (patTermOfParser enc))

omit henc in
theorem tb_appendRune_inv (b : Parser.TB) (r : Parser.Rn) (h : TBInv enc b) : TBInv enc (b.appendRuneInternal r) := h

theorem tb_finishTextTerm_inv (b : Parser.TB) (h : TBInv enc b) :
    (∀ lit, lit ∈ (b.finishTextTerm).tokens → lit ≠ [] ∧ Good (lit.map (patTermOfParser enc))) ∧
    Good ((b.finishTextTerm).terms.map (patTermOfParser enc)) := by
  unfold Parser.TB.finishTextTerm
  by_cases ht : b.term = []
  · simp only [ht, List.isEmpty_nil, if_true]; exact ⟨h.1, h.2.1⟩
  · have hte : b.term.isEmpty = false := by simpa using ht
    simp only [hte, Bool.false_eq_true, if_false]
    refine ⟨h.1, ?_⟩
    simp only [List.map_append, List.map_cons, List.map_nil, patTerm_text]
    exact good_append_text _ _ (henc _ ht) h.2.1 h.2.2

theorem tb_appendSymbol_inv (b : Parser.TB) (h : TBInv enc b) : TBInv enc b.appendSymbolTerm := by
  have hf := tb_finishTextTerm_inv enc henc b h
  unfold Parser.TB.appendSymbolTerm
  refine ⟨hf.1, ?_, ?_⟩
  · simp only [List.map_append, List.map_cons, List.map_nil, patTerm_star]
    exact good_append_star _ hf.2
  · simp only [List.map_append, List.map_cons, List.map_nil, patTerm_star]
    exact endsStar_append_star _

theorem tb_finishToken_inv (b : Parser.TB) (h : TBInv enc b) : TBInv enc b.finishToken := by
  have hf := tb_finishTextTerm_inv enc henc b h
  unfold Parser.TB.finishToken
  by_cases he : (b.finishTextTerm).terms = []
  · simp only [he, List.isEmpty_nil, if_true]
    refine ⟨hf.1, hf.2, ?_⟩
    rw [he]; intro t ht; simp at ht
  · have hee : (b.finishTextTerm).terms.isEmpty = false := by simpa using he
    simp only [hee, Bool.false_eq_true, if_false]
    refine ⟨?_, ⟨rfl, fun d hd => by simp at hd⟩, fun t ht => by simp at ht⟩
    intro lit hl
    simp only [List.mem_append, List.mem_singleton] at hl
    rcases hl with hl | hl
    · exact hf.1 lit hl
    · subst hl; exact ⟨he, hf.2⟩

/-- **`baseTokenBuilder.getTokens`: every finished literal is a `Pattern.WF` term list**, whenever the builder was driven only
through its methods (`TBInv` holds initially and is preserved by `appendRuneInternal`, `appendSymbolTerm`, `finishToken`) -/
theorem tb_getTokens_wf (b : Parser.TB) (h : TBInv enc b) (lit : List Parser.Term) (hl : lit ∈ b.getTokens) :
    Pattern.WF (lit.map (patTermOfParser enc)) := by
  obtain ⟨hne, hg⟩ := (tb_finishToken_inv enc henc b h).1 lit hl
  exact wf_of_good _ (by simpa using hne) hg

theorem bst_appendRune_inv (s s' : Parser.BSt) (r : Parser.Rn) (h : TBInv enc s.tb) (hs : s.appendRune r = some s') :
    TBInv enc s'.tb := by
  unfold Parser.BSt.appendRune at hs
  split at hs
  · cases hs; exact h
  · split at hs
    · cases hs; exact h
    · cases hs; exact tb_finishToken_inv enc henc _ h
  · split at hs
    · cases hs
    · cases hs; exact h

theorem bst_appendWildcard_inv (s s' : Parser.BSt) (h : TBInv enc s.tb) (hs : s.appendWildcard = some s') :
    TBInv enc s'.tb := by
  unfold Parser.BSt.appendWildcard at hs
  split at hs
  · split at hs
    · cases hs
    · cases hs; exact tb_appendSymbol_inv enc henc _ h
  · cases hs
    split
    · exact tb_appendSymbol_inv enc henc _ (tb_finishToken_inv enc henc _ h)
    · exact tb_appendSymbol_inv enc henc _ h
  · split at hs
    · cases hs
    · cases hs; exact h

theorem parseTerms_inv (s : Parser.BSt) (rs : List Parser.Rn) (h : TBInv enc s.tb) :
    ∀ s' rest, Parser.parseTerms s rs = .ok (s', rest) → TBInv enc s'.tb := by
  match rs with
  | [] => intro s' rest hp; simp only [Parser.parseTerms, Parser.PRes.ok.injEq, Prod.mk.injEq] at hp; rw [← hp.1]; exact h
  | r :: rest =>
    rw [Parser.parseTerms.eq_def]
    try simp only
    split
    · cases hw : s.appendWildcard with
      | none => simp
      | some s1 =>
        try simp only
        exact parseTerms_inv s1 rest (bst_appendWildcard_inv enc henc s s1 h hw)
    · split
      · cases rest with
        | nil => simp
        | cons e rest' =>
          try simp only
          split
          · intro s' r' hp
            unfold Parser.errUnexpected at hp
            split at hp <;> cases hp
          · cases ha : s.appendRune e with
            | none => simp
            | some s1 =>
              try simp only
              exact parseTerms_inv s1 rest' (bst_appendRune_inv enc henc s s1 e h ha)
      · split
        · intro s' r' hp
          simp only [Parser.PRes.ok.injEq, Prod.mk.injEq] at hp
          rw [← hp.1]; exact h
        · cases ha : s.appendRune r with
          | none => simp
          | some s1 =>
            try simp only
            exact parseTerms_inv s1 rest (bst_appendRune_inv enc henc s s1 r h ha)
termination_by rs.length

theorem quotedLoop_inv (s : Parser.BSt) (rs : List Parser.Rn) (h : TBInv enc s.tb) :
    ∀ s' rest, Parser.quotedLoop s rs = .ok (s', rest) → TBInv enc s'.tb := by
  match rs with
  | [] => simp [Parser.quotedLoop]
  | r :: rest =>
    rw [Parser.quotedLoop.eq_def]
    try simp only
    split
    · cases rest with
      | nil => simp
      | cons e rest' =>
        try simp only
        split
        · simp
        · rename_i s1 hs1
          have h1 : TBInv enc s1.tb := by
            split at hs1
            · cases hs1; exact h
            · exact bst_appendRune_inv enc henc s s1 _ h hs1
          cases ha : s1.appendRune e with
          | none => simp
          | some s2 =>
            try simp only
            exact quotedLoop_inv s2 rest' (bst_appendRune_inv enc henc s1 s2 e h1 ha)
    · split
      · cases hw : s.appendWildcard with
        | none => simp
        | some s1 =>
          try simp only
          exact quotedLoop_inv s1 rest (bst_appendWildcard_inv enc henc s s1 h hw)
      · split
        · intro s' r' hp
          simp only [Parser.PRes.ok.injEq, Prod.mk.injEq] at hp
          rw [← hp.1]; exact h
        · cases ha : s.appendRune r with
          | none => simp
          | some s1 =>
            try simp only
            exact quotedLoop_inv s1 rest (bst_appendRune_inv enc henc s s1 r h ha)
termination_by rs.length

omit henc in
theorem newBuilder_inv (k : Parser.BKind) (cs : Bool) : TBInv enc (Parser.newBuilder k cs).tb :=
  ⟨fun _ h => by simp [Parser.newBuilder] at h, ⟨rfl, fun d hd => by simp [Parser.newBuilder] at hd⟩,
    fun t ht => by simp [Parser.newBuilder] at ht⟩

/-- **legacy parser (`parseTerms` / `parseQuotedTerms` with a keyword or text `termBuilder`, parser/term_builder.go,
parser/query_parser.go): every literal of `getTokens()` is a `Pattern.WF` term list** -/
theorem cons_glob_parser_legacy_parseTerms_wf (k : Parser.BKind) (cs : Bool) (rs : List Parser.Rn) (s' : Parser.BSt)
    (rest : List Parser.Rn) (hp : Parser.parseTerms (Parser.newBuilder k cs) rs = .ok (s', rest))
    (lit : List Parser.Term) (hl : lit ∈ s'.tb.getTokens) : Pattern.WF (lit.map (patTermOfParser enc)) :=
  tb_getTokens_wf enc henc _ (parseTerms_inv enc henc _ rs (newBuilder_inv enc k cs) s' rest hp) lit hl

theorem cons_glob_parser_legacy_parseQuotedTerms_wf (k : Parser.BKind) (cs : Bool) (rs : List Parser.Rn) (s' : Parser.BSt)
    (rest : List Parser.Rn) (hp : Parser.parseQuotedTerms (Parser.newBuilder k cs) rs = .ok (s', rest))
    (lit : List Parser.Term) (hl : lit ∈ s'.tb.getTokens) : Pattern.WF (lit.map (patTermOfParser enc)) := by
  cases rs with
  | nil => simp [Parser.parseQuotedTerms] at hp
  | cons r rs =>
    simp only [Parser.parseQuotedTerms] at hp
    split at hp
    · exact tb_getTokens_wf enc henc _ (quotedLoop_inv enc henc _ rs (newBuilder_inv enc k cs) s' rest hp) lit hl
    · cases hp

end

/-- non-vacuity of `henc`: the identity encoding (ASCII) -/
example : ∀ d : List Nat, d ≠ [] → (id : List Nat → Pattern.Bytes) d ≠ [] := fun _ h => h

/-! non-vacuity of the membership / success hypotheses: `a*` through `parseSeqQLText`, `a*a` through `parseSeqQLKeyword` and through
the legacy keyword builder (runes `a`, the lexer's wildcard rune U+E000, and `*`) -/
example : [(⟨false, [97]⟩ : Parser.Term), ⟨true, [42]⟩] ∈
    Parser.seqqlText false [⟨[97], 97, true, false, false, 97, false⟩, ⟨[0xEE, 0x80, 0x80], 0xE000, false, false, false, 0xE000, false⟩] := by
  decide
example : Parser.seqqlKeyword false [⟨[97], 97, true, false, false, 97, false⟩,
    ⟨[0xEE, 0x80, 0x80], 0xE000, false, false, false, 0xE000, false⟩, ⟨[97], 97, true, false, false, 97, false⟩] =
    [⟨false, [97]⟩, ⟨true, [42]⟩, ⟨false, [97]⟩] := by decide
example : ∃ s' rest, Parser.parseTerms (Parser.newBuilder .keyword false)
      [⟨[97], 97, true, false, false, 97, false⟩, ⟨[42], 42, false, false, false, 42, false⟩, ⟨[97], 97, true, false, false, 97, false⟩] =
        .ok (s', rest) ∧
    [(⟨false, [97]⟩ : Parser.Term), ⟨true, [42]⟩, ⟨false, [97]⟩] ∈ s'.tb.getTokens := by
  refine ⟨_, _, rfl, ?_⟩
  decide

end SV.Consistency
