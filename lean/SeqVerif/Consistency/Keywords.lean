import SeqVerif.Model.Fields
import SeqVerif.Model.SeqQLFilterLemmas
/-!
# Consistency wave 3 (topic 4): keyword recognition and the `fields` pipe header - C20 `SV.Fields` vs C12 `SV.Parser`

Go: `lexer.IsKeyword` (parser/seqql.go:96-101: `!TokenQuoted && strings.EqualFold(lex.Token, token)`), `parsePipeFields` /
`parseFieldList` (parser/seqql_pipes.go:65-111), `parseCompositeToken` / `isCompositeToken` (parser/seqql_filter.go:151-199).
* C12 (Model/SeqQLFilter.lean): a token `LTok` carries `kw : KW`, the answer of `EqualFold` for the keywords the parser asks
  about - an ORACLE (the harness supplies Go's own answer) - `kwIn`, `skipExcept`, `fieldList`, `pipeFields`.
  (The translated `c12_t_IsKeyword_quoted` in Props/C12T states the quoted-token rule for the translated code: cited only.)
* C20 (Model/Fields.lean, REPAIRED after wave 3): `Tok` = text + quoted + space, `isKeyword` = not quoted and
  `foldText text == kw` (`strings.EqualFold` restricted to what can meet an ASCII keyword: A-Z, U+017F, U+212A), `isComposite`,
  `joinComposite`, `compositeToken`, `fieldListGo`, `parsePipeFields` - now the same loop structure as C12's.

HISTORY: wave 3 found three reachable disagreements of C20's first header parser with C12 and Go (`| fields a-b` joined into one
name by Go/C12 but three names in C20; `| fields $` rejected by Go/C12 but accepted by C20; `| fieldſ a` a keyword for Go's
`EqualFold` but not for C20's ASCII folding).  The model was repaired; the three `*_witness` theorems below now state AGREEMENT of
both models on those very inputs (both sides computed by `decide`; names kept for the audit trail), and wave 4 adds the general
equality `cons_kw_pipeFields_eq_parsePipeFields` on an explicit domain.
FORMER RESIDUAL DISAGREEMENT, repaired as well: a single non-ASCII NON-letter rune such as `€` - Go / C12 (`isTokenRune` false)
reject `| fields €` ("unexpected symbol"); C20 used to take every non-ASCII character as a letter.  `SV.Fields.Tok` now carries
the unicode oracle bit `letter` for its first rune and `cons_kw_nonascii_symbol_witness` states agreement (both reject).
-/
namespace SV.Consistency
open SV.Parser

/-- a rune as a character; the lexer's wildcard rune U+E000 is the `*` the user typed (Go replaces it back in field names:
`parseCompositeTokenReplaceWildcards`, C12 `nameBytes`) -/
def kwConvChar (r : Rn) : Char := if r.cp = wildcardCp then '*' else Char.ofNat r.cp

/-- a C12 lexer token read as a C20 token: the text as characters (one per rune), the quoting and space flags -/
def kwTokOfLTok (t : LTok) : SV.Fields.Tok :=
  ⟨t.rs.map kwConvChar, t.quoted, t.space, match t.rs with | r :: _ => r.letter || r.digit | [] => false⟩

/-- what it means for C12's `EqualFold` oracle to be C20's written-out folding (`foldText`: ASCII upper case, U+017F, U+212A)
on a token, for the four keywords of the pipe header -/
structure KwAsciiOK (t : LTok) : Prop where
  fields : (t.kw = .fields) ↔ SV.Fields.foldText (kwTokOfLTok t).text = "fields".toList
  except : (t.kw = .except) ↔ SV.Fields.foldText (kwTokOfLTok t).text = "except".toList
  pipe : (t.kw = .pipe) ↔ SV.Fields.foldText (kwTokOfLTok t).text = ['|']
  comma : (t.kw = .comma) ↔ SV.Fields.foldText (kwTokOfLTok t).text = [',']

/-- **`IsKeyword`: same strings, same case rule, same quoting rule** - C12 `kwIn t [k]` = C20 `isKeyword (conv t) k` for
`fields`, `except`, `|`, `,`, on every token where the `EqualFold` oracle is C20's `foldText` (`KwAsciiOK`; since the repair
this includes U+017F / U+212A).  A quoted token is never a keyword on either side. -/
theorem cons_kw_kwIn_eq_isKeyword (t : LTok) (h : KwAsciiOK t) :
    kwIn t [.fields] = SV.Fields.isKeyword (kwTokOfLTok t) "fields".toList ∧
    kwIn t [.except] = SV.Fields.isKeyword (kwTokOfLTok t) "except".toList ∧
    kwIn t [.pipe] = SV.Fields.isKeyword (kwTokOfLTok t) ['|'] ∧
    kwIn t [.comma] = SV.Fields.isKeyword (kwTokOfLTok t) [','] := by
  have key : ∀ (k : KW) (s : List Char), ((t.kw = k) ↔ SV.Fields.foldText (kwTokOfLTok t).text = s) →
      kwIn t [k] = SV.Fields.isKeyword (kwTokOfLTok t) s := by
    intro k s hk
    unfold kwIn SV.Fields.isKeyword
    have hq : (kwTokOfLTok t).quoted = t.quoted := rfl
    rw [hq]
    cases t.quoted
    · by_cases hkw : t.kw = k
      · simp [hkw, hk.mp hkw]
      · have hns : ¬ SV.Fields.foldText (kwTokOfLTok t).text = s := fun e => hkw (hk.mpr e)
        have h1 : (SV.Fields.foldText (kwTokOfLTok t).text == s) = false := by simpa using hns
        simp [h1]
        exact hkw
    · simp
  exact ⟨key _ _ h.fields, key _ _ h.except, key _ _ h.pipe, key _ _ h.comma⟩

/-- the quoting rule alone (no hypothesis): a quoted token is no keyword in either model -/
theorem cons_kw_quoted_never_keyword (t : LTok) (hq : t.quoted = true) (ks : List KW) (s : List Char) :
    kwIn t ks = false ∧ SV.Fields.isKeyword (kwTokOfLTok t) s = false := by
  simp [kwIn, SV.Fields.isKeyword, kwTokOfLTok, hq]

/-- the `fields [except]` prefix: C12 `pipeFields` (its `kwIn .. [.fields]` test and `skipExcept`) and C20
`parsePipeFields` take the same decisions - reject when the first token is not `fields`; strip `except` iff present -/
theorem cons_kw_header_prefix (f e : LTok) (rest : List LTok) (hf : KwAsciiOK f) (he : KwAsciiOK e) :
    (kwIn f [.fields] = false → pipeFields (f :: e :: rest) = .err ∧
        SV.Fields.parsePipeFields ((f :: e :: rest).map kwTokOfLTok) = none) ∧
    (skipExcept (e :: rest)).1 = SV.Fields.isKeyword (kwTokOfLTok e) "except".toList := by
  have h1 := (cons_kw_kwIn_eq_isKeyword f hf).1
  have h2 := (cons_kw_kwIn_eq_isKeyword e he).2.1
  constructor
  · intro hn
    constructor
    · simp [pipeFields, hn]
    · rw [h1] at hn
      have hn' : SV.Fields.isKeyword (kwTokOfLTok f) ['f', 'i', 'e', 'l', 'd', 's'] = false := hn
      simp [SV.Fields.parsePipeFields, hn']
  · rw [← h2]
    unfold skipExcept
    cases hk : kwIn e [.except] <;> simp [hk]

/-! ## FINDINGS (repaired): the two models of `parseFieldList` used to disagree on three reachable query texts (C12 = Go).
C20's Model/Fields.lean was repaired after this layer found them (tokens now carry `space`, names are composite tokens,
keywords fold like `strings.EqualFold` incl. U+017F / U+212A); the three statements below now state AGREEMENT on the
very inputs that were the witnesses, and C20's `fields.parse` channel generates these shapes. -/

/-- 1. `fields a-b` (three adjacent tokens `a`, `-`, `b`, no space): C12 (= Go `parseCompositeToken`) -> one field `a-b`;
C20 (first version) -> three names, now one field as well.  Go: `* | fields a-b` gives `Fields = ["a-b"]`. -/
theorem cons_kw_fieldList_composite_name_witness :
    let a : Rn := ⟨[97], 97, true, false, false, 97, false⟩
    let m : Rn := ⟨[45], 45, false, false, false, 45, false⟩
    let b : Rn := ⟨[98], 98, true, false, false, 98, false⟩
    let fl : LTok := ⟨[⟨[102], 102, true, false, false, 102, false⟩], false, true, .fields⟩
    let toks : List LTok := [fl, ⟨[a], false, true, .none⟩, ⟨[m], false, false, .none⟩, ⟨[b], false, false, .none⟩]
    pipeFields toks = .ok (⟨false, [[97, 45, 98]]⟩, []) ∧
    SV.Fields.parsePipeFields [⟨"fields".toList, false, true, true⟩, ⟨['a'], false, true, true⟩, ⟨['-'], false, false, true⟩, ⟨['b'], false, false, true⟩]
      = some (false, [['a', '-', 'b']], []) := by decide

/-- 2. `fields $`: C12 (= Go, "unexpected symbol") rejects; C20's first version accepted the name `$`, now rejects too -/
theorem cons_kw_fieldList_symbol_name_witness :
    let d : Rn := ⟨[36], 36, false, false, false, 36, false⟩
    let fl : LTok := ⟨[⟨[102], 102, true, false, false, 102, false⟩], false, true, .fields⟩
    pipeFields [fl, ⟨[d], false, true, .none⟩] = .err ∧
    SV.Fields.parsePipeFields [⟨"fields".toList, false, true, true⟩, ⟨['$'], false, true, true⟩] = none := by decide

/-- 3. `fieldſ a` (long s, U+017F): Go's `EqualFold` says keyword `fields` (C12: oracle answer `.fields` -> a pipe);
C20's first version (ASCII folding) said no keyword -> parse error; now `foldChar` maps U+017F to `s` (and `KwAsciiOK` holds for this token). -/
theorem cons_kw_isKeyword_unicode_fold_witness :
    let a : Rn := ⟨[97], 97, true, false, false, 97, false⟩
    let t : LTok := ⟨[⟨[0xC5, 0xBF], 0x17F, true, false, false, 0x17F, false⟩], false, true, .fields⟩
    pipeFields [t, ⟨[a], false, true, .none⟩] = .ok (⟨false, [[97]]⟩, []) ∧
    SV.Fields.isKeyword ⟨['f', 'i', 'e', 'l', 'd', Char.ofNat 0x17F], false, true, true⟩ "fields".toList = true ∧
    SV.Fields.parsePipeFields [⟨['f', 'i', 'e', 'l', 'd', Char.ofNat 0x17F], false, true, true⟩, ⟨['a'], false, true, true⟩] =
      some (false, [['a']], []) := by decide

/-- where they agree - the shape C20's harness generates: space-separated single composite tokens, optional commas -/
theorem cons_kw_fieldList_simple_agree_example :
    let a : Rn := ⟨[97], 97, true, false, false, 97, false⟩
    let b : Rn := ⟨[98], 98, true, false, false, 98, false⟩
    let fl : LTok := ⟨[⟨[102], 102, true, false, false, 102, false⟩], false, true, .fields⟩
    let ex : LTok := ⟨[⟨[101], 101, true, false, false, 101, false⟩], false, true, .except⟩
    let cm : LTok := ⟨[⟨[44], 44, false, false, false, 44, false⟩], false, false, .comma⟩
    pipeFields [fl, ex, ⟨[a], false, true, .none⟩, cm, ⟨[b], true, true, .none⟩] = .ok (⟨true, [[97], [98]]⟩, []) ∧
    SV.Fields.parsePipeFields [⟨"fields".toList, false, true, true⟩, ⟨"except".toList, false, true, true⟩, ⟨['a'], false, true, true⟩, ⟨[','], false, false, true⟩, ⟨['b'], true, true, true⟩]
      = some (true, [['a'], ['b']], []) := by decide

/-! ## the general equality (wave 4): `Parser.pipeFields` = `Fields.parsePipeFields` -/

/-- the domain: what the lexer guarantees about a token of the stream (`noEmpty`, `emptyQuoted`: the end token is not in
the list, an empty token is a quoted one), and that C12's rune oracles say what C20's `Char` predicates say
(`keys`: `EqualFold`; `cls`: `isTokenRune` on the first rune, code point = character; `len`: UTF-8 byte length of the rest) -/
structure KwTokOK (t : LTok) : Prop where
  noEmpty : t.kw ≠ .empty
  emptyQuoted : t.rs = [] → t.quoted = true
  keys : KwAsciiOK t
  cls : ∀ r rest, t.rs = r :: rest → r.cp ≠ wildcardCp →
    isTokenRune r = SV.Fields.firstTokenRune (kwTokOfLTok t) (Char.ofNat r.cp) ∧ (Char.ofNat r.cp).toNat = r.cp
  len : ∀ r rest, t.rs = r :: rest → decide (byteLen rest > 1) = decide (SV.Fields.utf8Len (rest.map kwConvChar) > 1)

theorem kw_isComposite (t : LTok) (h : KwTokOK t) : isComposite t = SV.Fields.isComposite (kwTokOfLTok t) := by
  unfold isComposite SV.Fields.isComposite kwTokOfLTok
  simp only [h.noEmpty, if_false]
  cases hrs : t.rs with
  | nil => simp [h.emptyQuoted hrs]
  | cons r rest =>
    simp only [List.map_cons]
    have hl := h.len r rest hrs
    cases hq : t.quoted
    · by_cases hw : r.cp = wildcardCp
      · have : kwConvChar r = '*' := by simp [kwConvChar, hw]
        simp [this, hw]
      · obtain ⟨h1, h2⟩ := h.cls r rest hrs hw
        have hc : kwConvChar r = Char.ofNat r.cp := by simp [kwConvChar, hw]
        have e1 : (Char.ofNat r.cp == '-') = decide (r.cp = 45) := by
          by_cases h45 : r.cp = 45
          · simp [h45]
          · have : Char.ofNat r.cp ≠ '-' := fun e => h45 (by rw [← h2, e]; rfl)
            simp [h45, this]
        have e2 : (Char.ofNat r.cp == '*') = decide (r.cp = 42) := by
          by_cases h42 : r.cp = 42
          · simp [h42]
          · have : Char.ofNat r.cp ≠ '*' := fun e => h42 (by rw [← h2, e]; rfl)
            simp [h42, this]
        have h1' : isTokenRune r = (if (Char.ofNat r.cp).toNat < 128 then SV.Fields.isTokenChar (Char.ofNat r.cp)
            else (r.letter || r.digit)) := by
          simpa [SV.Fields.firstTokenRune, kwTokOfLTok, hrs] using h1
        simp only [SV.Fields.firstTokenRune]
        rw [hc, e1, e2, ← h1', ← hl]
        by_cases hb : byteLen rest > 1
        · simp [hb]
        · simp [hb, hw]
    · simp

theorem kw_joinComposite_mem (acc : List Rn) (ts : List LTok) : ∀ t, t ∈ (joinComposite acc ts).2 → t ∈ ts := by
  induction ts generalizing acc with
  | nil => intro t ht; simp [joinComposite] at ht
  | cons x xs ih =>
    intro t ht
    unfold joinComposite at ht
    split at ht
    · exact List.mem_cons_of_mem _ (ih _ t ht)
    · exact ht

theorem kw_joinComposite (acc : List Rn) (ts : List LTok) (h : ∀ t, t ∈ ts → KwTokOK t) :
    SV.Fields.joinComposite (acc.map kwConvChar) (ts.map kwTokOfLTok) =
      ((joinComposite acc ts).1.map kwConvChar, (joinComposite acc ts).2.map kwTokOfLTok) := by
  induction ts generalizing acc with
  | nil => rfl
  | cons x xs ih =>
    have hx := kw_isComposite x (h x (by simp))
    have ih' := fun a => ih a (fun t ht => h t (by simp [ht]))
    rw [List.map_cons, SV.Fields.joinComposite, joinComposite, ← hx]
    have hs : (kwTokOfLTok x).space = x.space := rfl
    rw [hs]
    by_cases hc : (!x.space && isComposite x) = true
    · rw [if_pos hc, if_pos hc]
      have : acc.map kwConvChar ++ (kwTokOfLTok x).text = (acc ++ x.rs).map kwConvChar := by simp [kwTokOfLTok]
      rw [this, ih']
    · rw [if_neg hc, if_neg hc]; rfl

theorem kw_compositeToken (ts : List LTok) (h : ∀ t, t ∈ ts → KwTokOK t) :
    (compositeToken ts = .err ∧ SV.Fields.compositeToken (ts.map kwTokOfLTok) = none) ∨
    (∃ p, compositeToken ts = .ok p ∧ (∀ t, t ∈ p.2 → t ∈ ts) ∧
      SV.Fields.compositeToken (ts.map kwTokOfLTok) = some (p.1.map kwConvChar, p.2.map kwTokOfLTok)) := by
  cases ts with
  | nil => left; exact ⟨rfl, rfl⟩
  | cons t r =>
    have ht := h t (by simp)
    have hc := kw_isComposite t ht
    rw [List.map_cons]
    unfold compositeToken SV.Fields.compositeToken
    simp only [ht.noEmpty, if_false, ← hc]
    by_cases hi : isComposite t = true
    · right
      refine ⟨joinComposite t.rs r, by simp [hi], fun x hx => List.mem_cons_of_mem _ (kw_joinComposite_mem _ _ x hx), ?_⟩
      simp only [hi, if_true]
      have := kw_joinComposite t.rs r (fun x hx => h x (by simp [hx]))
      simpa [kwTokOfLTok] using congrArg some this
    · left
      simp [hi]

/-- results of the two list parsers correspond: same names (as runes: bytes through `nameBytes` on the C12 side, characters
through `kwConvChar` on the C20 side), same remaining tokens; or both fail -/
def KwRel (res : PRes (List (List Nat) × List LTok)) (opt : Option (List (List Char) × List SV.Fields.Tok)) : Prop :=
  (∃ (names : List (List Rn)) (rest : List LTok), res = .ok (names.map nameBytes, rest) ∧
      opt = some (names.map (fun n => n.map kwConvChar), rest.map kwTokOfLTok)) ∨
  ((res = .err ∨ res = .oof) ∧ opt = none)

theorem kw_fieldList_sim : ∀ (f : Nat) (names : List (List Rn)) (tr : Bool) (toks : List LTok),
    (∀ t, t ∈ toks → KwTokOK t) →
    KwRel (fieldList f (names.map nameBytes) tr toks)
      (SV.Fields.fieldListGo f (toks.map kwTokOfLTok) tr ((names.map fun n => n.map kwConvChar).reverse)) := by
  intro f
  induction f with
  | zero => intro names tr toks _; right; exact ⟨Or.inr rfl, rfl⟩
  | succ f ih =>
    intro names tr toks hok
    have hemp : (names.map nameBytes).isEmpty = ((names.map fun n => n.map kwConvChar).reverse).isEmpty := by
      cases names <;> simp
    rw [fieldList, SV.Fields.fieldListGo.eq_def]
    simp only []
    cases toks with
    | nil =>
      simp only [atStop, if_true, List.map_nil]
      by_cases htr : tr = true
      · right; simp [htr]
      · by_cases he : (names.map nameBytes).isEmpty = true
        · right; rw [← hemp]; simp [htr, he]
        · left
          refine ⟨names, [], ?_, ?_⟩
          · simp [htr, he]
          · rw [← hemp]; simp [htr, he]
    | cons t rest =>
      have ht := hok t (by simp)
      have hp : atStop (t :: rest) [.pipe, .empty] = kwIn t [.pipe] := by
        simp only [atStop, kwIn]
        cases t.quoted
        · simp [ht.noEmpty]
        · simp
      have hp2 := (cons_kw_kwIn_eq_isKeyword t ht.keys).2.2.1
      rw [hp, List.map_cons]
      simp only []
      rw [← hp2]
      by_cases hpipe : kwIn t [.pipe] = true
      · simp only [hpipe, if_true]
        by_cases htr : tr = true
        · right; simp [htr]
        · by_cases he : (names.map nameBytes).isEmpty = true
          · right; rw [← hemp]; simp [htr, he]
          · left
            refine ⟨names, t :: rest, ?_, ?_⟩
            · simp [htr, he]
            · rw [← hemp]; simp [htr, he]
      · simp only [hpipe, Bool.false_eq_true, if_false]
        rcases kw_compositeToken (t :: rest) hok with ⟨h1, h2⟩ | ⟨p, h1, hmem, h2⟩
        · right
          rw [h1]
          rw [List.map_cons] at h2
          rw [h2]
          exact ⟨Or.inl rfl, rfl⟩
        · rw [h1]
          rw [List.map_cons] at h2
          rw [h2]
          simp only [PRes.bind_ok]
          have hacc : names.map nameBytes ++ [nameBytes p.1] = (names ++ [p.1]).map nameBytes := by simp
          have hacc2 : p.1.map kwConvChar :: (names.map fun n => n.map kwConvChar).reverse
              = ((names ++ [p.1]).map fun n => n.map kwConvChar).reverse := by simp
          rw [hacc, hacc2]
          cases hp2' : p.2 with
          | nil =>
            simp only [List.map_nil]
            exact ih (names ++ [p.1]) false [] (fun _ hx => by cases hx)
          | cons c r' =>
            have hcok : KwTokOK c := hok c (hmem c (by rw [hp2']; simp))
            have hcm := (cons_kw_kwIn_eq_isKeyword c hcok.keys).2.2.2
            simp only [List.map_cons, ← hcm]
            have hrok : ∀ x, x ∈ c :: r' → KwTokOK x := fun x hx => hok x (hmem x (by rw [hp2']; exact hx))
            by_cases hcomma : kwIn c [.comma] = true
            · simp only [hcomma, if_true]
              exact ih (names ++ [p.1]) true r' (fun x hx => hrok x (by simp [hx]))
            · simp only [hcomma, Bool.false_eq_true, if_false]
              have := ih (names ++ [p.1]) false (c :: r') hrok
              rw [List.map_cons] at this
              exact this

/-- **C12 `Parser.pipeFields` = C20 `Fields.parsePipeFields`** (Go: `parsePipeFields` + `parseFieldList` +
`parseCompositeTokenReplaceWildcards`) on every token list of the domain `KwTokOK` (lexer guarantees + agreement of C12's
rune oracles with C20's character predicates), at least two tokens long (`fields` and something).  Token conversion
`kwTokOfLTok`; names correspond rune for rune (C12 bytes `nameBytes n`, C20 characters `n.map kwConvChar`).
Either both reject, or both return the same `except` flag, the same names in order and the same remaining tokens. -/
theorem cons_kw_pipeFields_eq_parsePipeFields (f e : LTok) (rest : List LTok)
    (hok : ∀ t, t ∈ f :: e :: rest → KwTokOK t) :
    (pipeFields (f :: e :: rest) = .err ∧ SV.Fields.parsePipeFields ((f :: e :: rest).map kwTokOfLTok) = none) ∨
    (∃ (ex : Bool) (names : List (List Rn)) (rem : List LTok),
      pipeFields (f :: e :: rest) = .ok (⟨ex, names.map nameBytes⟩, rem) ∧
      SV.Fields.parsePipeFields ((f :: e :: rest).map kwTokOfLTok) =
        some (ex, names.map (fun n => n.map kwConvChar), rem.map kwTokOfLTok)) := by
  have hf := hok f (by simp)
  have he := hok e (by simp)
  have hkf := (cons_kw_kwIn_eq_isKeyword f hf.keys).1
  have hke := (cons_kw_kwIn_eq_isKeyword e he.keys).2.1
  have hnoof := (pipeFields_spec (f :: e :: rest)).1
  by_cases hfields : kwIn f [.fields] = true
  · have hfields' : SV.Fields.isKeyword (kwTokOfLTok f) "fields".toList = true := by rw [← hkf]; exact hfields
    by_cases hex : kwIn e [.except] = true
    · have hex' : SV.Fields.isKeyword (kwTokOfLTok e) "except".toList = true := by rw [← hke]; exact hex
      have hsk : skipExcept (e :: rest) = (true, rest) := by simp [skipExcept, hex]
      have sim := kw_fieldList_sim (rest.length + 1) [] false rest (fun t ht => hok t (by simp [ht]))
      have hP : pipeFields (f :: e :: rest) = (fieldList (rest.length + 1) [] false rest).bind fun p => .ok (⟨true, p.1⟩, p.2) := by
        simp [pipeFields, hfields, hsk]
      have hF : SV.Fields.parsePipeFields ((f :: e :: rest).map kwTokOfLTok) =
          (SV.Fields.fieldListGo (rest.length + 1) (rest.map kwTokOfLTok) false []).map fun r => (true, r.1, r.2) := by
        simp only [List.map_cons, SV.Fields.parsePipeFields, hfields', hex', if_true, List.length_map]
      simp only [List.map_nil, List.reverse_nil] at sim
      rcases sim with ⟨names, rem, h1, h2⟩ | ⟨h1, h2⟩
      · right; exact ⟨true, names, rem, by rw [hP, h1]; rfl, by rw [hF, h2]; rfl⟩
      · left
        refine ⟨?_, by rw [hF, h2]; rfl⟩
        rcases h1 with h1 | h1
        · rw [hP, h1]; rfl
        · exact absurd (by rw [hP, h1]; rfl) hnoof
    · have hex' : SV.Fields.isKeyword (kwTokOfLTok e) "except".toList = false := by
        rw [← hke]; simpa using hex
      have hsk : skipExcept (e :: rest) = (false, e :: rest) := by simp [skipExcept, hex]
      have sim := kw_fieldList_sim ((e :: rest).length + 1) [] false (e :: rest) (fun t ht => hok t (by simp [ht]))
      have hP : pipeFields (f :: e :: rest) = (fieldList ((e :: rest).length + 1) [] false (e :: rest)).bind fun p => .ok (⟨false, p.1⟩, p.2) := by
        simp [pipeFields, hfields, hsk]
      have hF : SV.Fields.parsePipeFields ((f :: e :: rest).map kwTokOfLTok) =
          (SV.Fields.fieldListGo ((e :: rest).length + 1) ((e :: rest).map kwTokOfLTok) false []).map fun r => (false, r.1, r.2) := by
        simp only [List.map_cons, SV.Fields.parsePipeFields, hfields', hex', if_true, List.length_cons, List.length_map]
        simp
      simp only [List.map_nil, List.reverse_nil] at sim
      rcases sim with ⟨names, rem, h1, h2⟩ | ⟨h1, h2⟩
      · right; exact ⟨false, names, rem, by rw [hP, h1]; rfl, by rw [hF, h2]; rfl⟩
      · left
        refine ⟨?_, by rw [hF, h2]; rfl⟩
        rcases h1 with h1 | h1
        · rw [hP, h1]; rfl
        · exact absurd (by rw [hP, h1]; rfl) hnoof
  · left
    have hfields' : SV.Fields.isKeyword (kwTokOfLTok f) "fields".toList = false := by rw [← hkf]; simpa using hfields
    have hn' : SV.Fields.isKeyword (kwTokOfLTok f) ['f', 'i', 'e', 'l', 'd', 's'] = false := hfields'
    exact ⟨by simp [pipeFields, hfields], by simp [SV.Fields.parsePipeFields, hn']⟩

/-- non-vacuity of `KwTokOK`: the ASCII letter token `a` (letter flag set, one byte) -/
example : KwTokOK ⟨[⟨[97], 97, true, false, false, 97, false⟩], false, true, .none⟩ := by
  refine ⟨by decide, by decide, ⟨by decide, by decide, by decide, by decide⟩, ?_, ?_⟩
  · intro r rest h _
    simp only [List.cons.injEq] at h
    obtain ⟨rfl, rfl⟩ := h
    decide
  · intro r rest h
    simp only [List.cons.injEq] at h
    obtain ⟨rfl, rfl⟩ := h
    decide

/-- **former residual disagreement, repaired** (reachable text `| fields €`): a single non-ASCII rune that is no
letter/digit is not a composite token for Go / C12 (`isTokenRune` false -> "unexpected symbol").  C20's second
version took every non-ASCII character as a letter and accepted the name; `SV.Fields.Tok` now carries the unicode
oracle bit `letter` (Go's `IsLetter || IsDigit` for the first rune, `kwTokOfLTok` fills it from the rune record),
`firstTokenRune` consults it for non-ASCII runes, and both sides reject.  `KwTokOK.cls` is then automatic for non-ASCII
first runes. -/
theorem cons_kw_nonascii_symbol_witness :
    let eur : Rn := ⟨[0xE2, 0x82, 0xAC], 0x20AC, false, false, false, 0x20AC, false⟩
    let fl : LTok := ⟨[⟨[102], 102, true, false, false, 102, false⟩], false, true, .fields⟩
    pipeFields [fl, ⟨[eur], false, true, .none⟩] = .err ∧
    SV.Fields.parsePipeFields [⟨"fields".toList, false, true, true⟩, ⟨[Char.ofNat 0x20AC], false, true, false⟩]
      = none := by decide

/-- the oracle bit matters: fed a WRONG answer for `€` (`letter := true`, i.e. not Go's `unicode.IsLetter || IsDigit`, and not
what `kwTokOfLTok` derives from C12's rune record) C20 accepts the name while C12 / Go reject - agreement of the two models is
agreement of their unicode oracles, which the harnesses both take from Go -/
theorem cons_kw_nonascii_wrong_oracle_witness :
    let eur : Rn := ⟨[0xE2, 0x82, 0xAC], 0x20AC, false, false, false, 0x20AC, false⟩
    let fl : LTok := ⟨[⟨[102], 102, true, false, false, 102, false⟩], false, true, .fields⟩
    pipeFields [fl, ⟨[eur], false, true, .none⟩] = .err ∧
    (kwTokOfLTok ⟨[eur], false, true, .none⟩).letter = false ∧
    SV.Fields.parsePipeFields [⟨"fields".toList, false, true, true⟩, ⟨[Char.ofNat 0x20AC], false, true, true⟩]
      = some (false, [[Char.ofNat 0x20AC]], []) := by decide

end SV.Consistency
