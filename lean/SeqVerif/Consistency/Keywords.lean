import SeqVerif.Model.Fields
import SeqVerif.Model.SeqQLFilterLemmas
/-!
# Consistency wave 3 (topic 4): keyword recognition and the `fields` pipe header - C20 `SV.Fields` vs C12 `SV.Parser`

Go: `lexer.IsKeyword` (parser/seqql.go:96-101: `!TokenQuoted && strings.EqualFold(lex.Token, token)`), `parsePipeFields` /
`parseFieldList` (parser/seqql_pipes.go:65-111), `parseCompositeToken` / `isCompositeToken` (parser/seqql_filter.go:151-199).
* C12 (Model/SeqQLFilter.lean): a token `LTok` carries `kw : KW`, the answer of `EqualFold` for the keywords the parser asks
  about - an ORACLE (the harness supplies Go's own answer) - `kwIn`, `skipExcept`, `fieldList`, `pipeFields`.
  (The translated `c12_t_IsKeyword_quoted` in Props/C12T states the quoted-token rule for the translated code: cited only.)
* C20 (Model/Fields.lean): `Tok` = text + quoted, `isKeyword` = not quoted and `asciiLower text == kw` (ASCII folding
  written out), `fieldListGo`, `parsePipeFields`.
Both now model `parsePipeFields`/`parseFieldList` (wave 1 saw only `firstFieldsPipe`; Fields.lean gained the header parser since).

FINDINGS (C20's second model disagrees with C12's and with Go; Go answers observed with the real parser in a scratch copy):
1. `| fields a-b`: Go and C12 join adjacent composite tokens: one field `a-b`; C20 `parsePipeFields` yields three names.
2. `| fields $`: Go and C12 reject a non-composite symbol ("unexpected symbol"); C20 accepts the name `$`.
3. `| fieldſ a` (U+017F): `strings.EqualFold("fieldſ", "fields") = true`, Go parses a fields pipe (so does C12, whose oracle is
   Go's answer); C20's ASCII folding rejects the keyword.  Only `s`/`k` have non-ASCII fold partners (ſ, K), so this
   concerns `fields` only (not `except`, `|`, `,`).
All three are reachable query texts; what C20 proves about `parsePipeFields` (`parsePipeFields_case`: the parse depends on
the keyword tokens only through quoting and ASCII-lowered text) is unaffected, but the function is not `parsePipeFields`
of Go outside "every name is one space-separated composite token, ASCII keywords".
-/
namespace SV.Consistency
open SV.Parser

/-- a C12 lexer token read as a C20 token: the text as characters (one per code point), the quoting flag -/
def kwTokOfLTok (t : LTok) : SV.Fields.Tok := ⟨t.rs.map fun r => Char.ofNat r.cp, t.quoted, t.space⟩

/-- what it means for C12's `EqualFold` oracle to be ASCII folding on a token, for the four keywords of the pipe header -/
structure KwAsciiOK (t : LTok) : Prop where
  fields : (t.kw = .fields) ↔ SV.Fields.foldText (kwTokOfLTok t).text = "fields".toList
  except : (t.kw = .except) ↔ SV.Fields.foldText (kwTokOfLTok t).text = "except".toList
  pipe : (t.kw = .pipe) ↔ SV.Fields.foldText (kwTokOfLTok t).text = ['|']
  comma : (t.kw = .comma) ↔ SV.Fields.foldText (kwTokOfLTok t).text = [',']

/-- **`IsKeyword`: same strings, same case rule, same quoting rule** - C12 `kwIn t [k]` = C20 `isKeyword (conv t) k` for
`fields`, `except`, `|`, `,`, on every token where the `EqualFold` oracle is ASCII folding (`KwAsciiOK`; true for every
token without U+017F / U+212A).  A quoted token is never a keyword on either side. -/
theorem cons_kw_kwIn_eq_isKeyword (t : LTok) (h : KwAsciiOK t) :
    kwIn t [.fields] = SV.Fields.isKeyword (kwTokOfLTok t) "fields".toList ∧
    kwIn t [.except] = SV.Fields.isKeyword (kwTokOfLTok t) "except".toList ∧
    kwIn t [.pipe] = SV.Fields.isKeyword (kwTokOfLTok t) ['|'] ∧
    kwIn t [.comma] = SV.Fields.isKeyword (kwTokOfLTok t) [','] := by
  have key : ∀ (k : KW) (s : List Char), ((t.kw = k) ↔ SV.Fields.foldText (kwTokOfLTok t).text = s) →
      kwIn t [k] = SV.Fields.isKeyword (kwTokOfLTok t) s := by
    intro k s hk
    unfold kwIn SV.Fields.isKeyword
    have hq : (kwTokOfLTok t).quoted = t.quoted := rfl
    rw [hq]
    cases t.quoted
    · by_cases hkw : t.kw = k
      · simp [hkw, hk.mp hkw]
      · have hns : ¬ SV.Fields.foldText (kwTokOfLTok t).text = s := fun e => hkw (hk.mpr e)
        have h1 : (SV.Fields.foldText (kwTokOfLTok t).text == s) = false := by simpa using hns
        simp [h1]
        exact hkw
    · simp
  exact ⟨key _ _ h.fields, key _ _ h.except, key _ _ h.pipe, key _ _ h.comma⟩

/-- the quoting rule alone (no hypothesis): a quoted token is no keyword in either model -/
theorem cons_kw_quoted_never_keyword (t : LTok) (hq : t.quoted = true) (ks : List KW) (s : List Char) :
    kwIn t ks = false ∧ SV.Fields.isKeyword (kwTokOfLTok t) s = false := by
  simp [kwIn, SV.Fields.isKeyword, kwTokOfLTok, hq]

/-- the `fields [except]` prefix: C12 `pipeFields` (its `kwIn .. [.fields]` test and `skipExcept`) and C20
`parsePipeFields` take the same decisions - reject when the first token is not `fields`; strip `except` iff present -/
theorem cons_kw_header_prefix (f e : LTok) (rest : List LTok) (hf : KwAsciiOK f) (he : KwAsciiOK e) :
    (kwIn f [.fields] = false → pipeFields (f :: e :: rest) = .err ∧
        SV.Fields.parsePipeFields ((f :: e :: rest).map kwTokOfLTok) = none) ∧
    (skipExcept (e :: rest)).1 = SV.Fields.isKeyword (kwTokOfLTok e) "except".toList := by
  have h1 := (cons_kw_kwIn_eq_isKeyword f hf).1
  have h2 := (cons_kw_kwIn_eq_isKeyword e he).2.1
  constructor
  · intro hn
    constructor
    · simp [pipeFields, hn]
    · rw [h1] at hn
      have hn' : SV.Fields.isKeyword (kwTokOfLTok f) ['f', 'i', 'e', 'l', 'd', 's'] = false := hn
      simp [SV.Fields.parsePipeFields, hn']
  · rw [← h2]
    unfold skipExcept
    cases hk : kwIn e [.except] <;> simp [hk]

/-! ## FINDINGS (repaired): the two models of `parseFieldList` used to disagree on three reachable query texts (C12 = Go).
C20's Model/Fields.lean was repaired after this layer found them (tokens now carry `space`, names are composite tokens,
keywords fold like `strings.EqualFold` incl. U+017F / U+212A); the three statements below now state AGREEMENT on the
very inputs that were the witnesses, and C20's `fields.parse` channel generates these shapes. -/

/-- 1. `fields a-b` (three adjacent tokens `a`, `-`, `b`, no space): C12 (= Go `parseCompositeToken`) -> one field `a-b`;
C20 (first version) -> three names, now one field as well.  Go: `* | fields a-b` gives `Fields = ["a-b"]`. -/
theorem cons_kw_fieldList_composite_name_witness :
    let a : Rn := ⟨[97], 97, true, false, false, 97, false⟩
    let m : Rn := ⟨[45], 45, false, false, false, 45, false⟩
    let b : Rn := ⟨[98], 98, true, false, false, 98, false⟩
    let fl : LTok := ⟨[⟨[102], 102, true, false, false, 102, false⟩], false, true, .fields⟩
    let toks : List LTok := [fl, ⟨[a], false, true, .none⟩, ⟨[m], false, false, .none⟩, ⟨[b], false, false, .none⟩]
    pipeFields toks = .ok (⟨false, [[97, 45, 98]]⟩, []) ∧
    SV.Fields.parsePipeFields [⟨"fields".toList, false, true⟩, ⟨['a'], false, true⟩, ⟨['-'], false, false⟩, ⟨['b'], false, false⟩]
      = some (false, [['a', '-', 'b']], []) := by decide

/-- 2. `fields $`: C12 (= Go, "unexpected symbol") rejects; C20's first version accepted the name `$`, now rejects too -/
theorem cons_kw_fieldList_symbol_name_witness :
    let d : Rn := ⟨[36], 36, false, false, false, 36, false⟩
    let fl : LTok := ⟨[⟨[102], 102, true, false, false, 102, false⟩], false, true, .fields⟩
    pipeFields [fl, ⟨[d], false, true, .none⟩] = .err ∧
    SV.Fields.parsePipeFields [⟨"fields".toList, false, true⟩, ⟨['$'], false, true⟩] = none := by decide

/-- 3. `fieldſ a` (long s, U+017F): Go's `EqualFold` says keyword `fields` (C12: oracle answer `.fields` -> a pipe);
C20's first version (ASCII folding) said no keyword -> parse error; now `foldChar` maps U+017F to `s`.  (`KwAsciiOK` fails for this token: it is exactly the excluded case.) -/
theorem cons_kw_isKeyword_unicode_fold_witness :
    let a : Rn := ⟨[97], 97, true, false, false, 97, false⟩
    let t : LTok := ⟨[⟨[0xC5, 0xBF], 0x17F, true, false, false, 0x17F, false⟩], false, true, .fields⟩
    pipeFields [t, ⟨[a], false, true, .none⟩] = .ok (⟨false, [[97]]⟩, []) ∧
    SV.Fields.isKeyword ⟨['f', 'i', 'e', 'l', 'd', Char.ofNat 0x17F], false, true⟩ "fields".toList = true ∧
    SV.Fields.parsePipeFields [⟨['f', 'i', 'e', 'l', 'd', Char.ofNat 0x17F], false, true⟩, ⟨['a'], false, true⟩] =
      some (false, [['a']], []) := by decide

/-- where they agree - the shape C20's harness generates: space-separated single composite tokens, optional commas -/
theorem cons_kw_fieldList_simple_agree_example :
    let a : Rn := ⟨[97], 97, true, false, false, 97, false⟩
    let b : Rn := ⟨[98], 98, true, false, false, 98, false⟩
    let fl : LTok := ⟨[⟨[102], 102, true, false, false, 102, false⟩], false, true, .fields⟩
    let ex : LTok := ⟨[⟨[101], 101, true, false, false, 101, false⟩], false, true, .except⟩
    let cm : LTok := ⟨[⟨[44], 44, false, false, false, 44, false⟩], false, false, .comma⟩
    pipeFields [fl, ex, ⟨[a], false, true, .none⟩, cm, ⟨[b], true, true, .none⟩] = .ok (⟨true, [[97], [98]]⟩, []) ∧
    SV.Fields.parsePipeFields [⟨"fields".toList, false, true⟩, ⟨"except".toList, false, true⟩, ⟨['a'], false, true⟩, ⟨[','], false, false⟩, ⟨['b'], true, true⟩]
      = some (true, [['a'], ['b']], []) := by decide

/-! OPEN (time box): the general agreement on the simple domain.  Intended statement:
`∀ toks, (∀ t ∈ toks, KwAsciiOK t ∧ t.kw ≠ .empty) → (every token that is neither `|` nor `,` satisfies isComposite) →
 (every name token is followed by a token with `space = true` or a non-composite one) →
 (pipeFields toks).toOption.map (fun (p, r) => (p.except, p.fields.map (·.map Char.ofNat), r.map kwTokOfLTok))
   = SV.Fields.parsePipeFields (toks.map kwTokOfLTok)`  (names ASCII, so `nameBytes` = code points).
Needs a two-point simulation (loop head / after a name) between `fieldList` (fuel, acc, trailing) and `fieldListGo`
(afterName, tr, reversed acc). -/

end SV.Consistency
