import SeqVerif.Model.AggShard
import SeqVerif.Model.ProxySearchLemmas
import SeqVerif.Consistency.ApiAsyncCons
/-!
# Consistency (wave 3): `Ingestor.searchShard`'s `switch resp.Code` and what `Ingestor.search` makes of the shards

Models of the same Go code (proxy/search/ingestor.go:542 `searchShard`, :581 the switch, `searchStores`):

* C06 `SV.Agg.Code`, `shardOutcome arms`, `searchOutcome`            (Model/AggShard.lean; the arm list is a parameter,
                                                                      re-extracted per run - `c06_x_shard_codes`, Props/C06)
* C16 `SV.ProxySearch.Code`, `Call`, `ShardRes`, `searchShardGo`, `searchShardP`, `storesLoop`/`searchStores`
                                                                     (Model/ProxySearch.lean)
* C05 `SV.Api.pickReplica` (which replica answers; up/down only)     (Model/ApiSearch.lean)
* C19 `SV.ProxyAsync.startShard` / `fetchShard` (no `SearchErrorCode` at all: other RPCs) (Model/ProxyAsync.lean)

Already related (cons-a, cited and used): `cons_apiSearch_searchShard_eq_pickReplica`, `cons_apiSearch_pickReplica_idxFill`,
`cons_apiAsync_startShard_ok_eq_pickReplica`, `cons_apiAsync_fetchShard_eq_pickReplica` - on the alphabet
"transport error | plain answer".  New here: the CODE alphabet (C06 <-> C16), the per-code outcome class, the
shard-level fold (`searchOutcome` <-> `searchStores`), the permuted loop, and the link C06 code -> C05 `up`.
Alphabets a model lacks: C06 has no transport errors and no replicas (one answered call per shard); C05 has no codes;
C19 has neither codes nor the search RPC.  `shardKind` does not exist in the tree (grep) - nothing to compare.
-/
namespace SV.Consistency
open SV

/-! ## the code alphabet -/

/-- `storeapi.SearchErrorCode`: C06 name -> C16 name -/
def shardcodeOfAgg : SV.Agg.Code → SV.ProxySearch.Code
  | .noError => .none
  | .wantsOldData => .wod
  | .tooManyUniq => .tmu
  | .tooManyFractions => .tmf

def shardcodeToAgg : SV.ProxySearch.Code → SV.Agg.Code
  | .none => .noError
  | .wod => .wantsOldData
  | .tmu => .tooManyUniq
  | .tmf => .tooManyFractions

/-- the two enumerations of `SearchErrorCode` are in bijection -/
theorem cons_shardcode_toAgg_ofAgg (c : SV.Agg.Code) : shardcodeToAgg (shardcodeOfAgg c) = c := by cases c <;> rfl
theorem cons_shardcode_ofAgg_toAgg (c : SV.ProxySearch.Code) : shardcodeOfAgg (shardcodeToAgg c) = c := by cases c <;> rfl

/-- the case labels of `switch resp.Code` in /repo (ingestor.go:582-586), as C06's extractor renders them -/
def shardcodeGoArms : List String :=
  ["storeapi.SearchErrorCode_INGESTOR_QUERY_WANTS_OLD_DATA", "storeapi.SearchErrorCode_TOO_MANY_UNIQ_VALUES",
   "storeapi.SearchErrorCode_TOO_MANY_FRACTIONS_HIT"]

/-- the arm list of the source satisfies the hypothesis of C06's `shardOutcome_total` / `searchOutcome_ok`
(derivable, not an assumption) and has no arm for `NO_ERROR` -/
theorem cons_shardcode_goArms_total :
    (∀ c, c ∈ SV.Agg.Code.all → c ≠ .noError → ("storeapi." ++ c.name) ∈ shardcodeGoArms) ∧
    ("storeapi." ++ SV.Agg.Code.noError.name) ∉ shardcodeGoArms := by
  constructor
  · intro c _ hc
    cases c <;> first | exact absurd rfl hc | decide
  · decide

theorem shardcode_outcome_goArms (c : SV.Agg.Code) :
    SV.Agg.shardOutcome shardcodeGoArms c = if c = .noError then .data else .refused c := by
  cases c <;> decide

/-- C06's outcome of one answered call as C16's `searchShard` result (payload of the answer: `rep ids t n`) -/
def shardcodeResOfOutcome (rep : Nat) (ids : List SV.ProxySearch.ID) (t n : Nat) : SV.Agg.ShardOutcome → SV.ProxySearch.ShardRes
  | .data => .ok rep ids t n
  | .refused .wantsOldData => .wod
  | .refused .tooManyUniq => .tmu
  | .refused .tooManyFractions => .tmf
  | .refused .noError => .ok rep ids t n      -- not produced by `shardOutcome` for an arm list without a NO_ERROR arm

/-- **same code -> same outcome class, C06 = C16** (the switch itself): for an arm list that covers every code but
`NO_ERROR` and has no `NO_ERROR` arm, C16's replica loop on an answered call with code `c` returns what C06's
`shardOutcome arms c` says; whatever the loop state and the later replicas.  All codes. -/
theorem cons_shardcode_searchShardGo_eq_shardOutcome (arms : List String)
    (h : ∀ c, c ∈ SV.Agg.Code.all → c ≠ .noError → ("storeapi." ++ c.name) ∈ arms)
    (h0 : ("storeapi." ++ SV.Agg.Code.noError.name) ∉ arms)
    (c : SV.Agg.Code) (i : Nat) (anyErr : Bool) (ids : List SV.ProxySearch.ID) (t n : Nat) (rest : List SV.ProxySearch.Call) :
    SV.ProxySearch.searchShardGo i anyErr (.resp (shardcodeOfAgg c) ids t n :: rest) =
      shardcodeResOfOutcome i ids t n (SV.Agg.shardOutcome arms c) := by
  cases c with
  | noError =>
    have : SV.Agg.shardOutcome arms .noError = .data := by simp [SV.Agg.shardOutcome, h0]
    rw [this]; rfl
  | wantsOldData => rw [SV.Agg.shardOutcome_total arms h _ (by decide)]; rfl
  | tooManyUniq => rw [SV.Agg.shardOutcome_total arms h _ (by decide)]; rfl
  | tooManyFractions => rw [SV.Agg.shardOutcome_total arms h _ (by decide)]; rfl

/-- instance at the arms of the source -/
theorem cons_shardcode_searchShard_eq_shardOutcome_goArms (c : SV.Agg.Code) (ids : List SV.ProxySearch.ID) (t n : Nat)
    (rest : List SV.ProxySearch.Call) :
    SV.ProxySearch.searchShard (.resp (shardcodeOfAgg c) ids t n :: rest) =
      shardcodeResOfOutcome 0 ids t n (SV.Agg.shardOutcome shardcodeGoArms c) :=
  cons_shardcode_searchShardGo_eq_shardOutcome shardcodeGoArms cons_shardcode_goArms_total.1 cons_shardcode_goArms_total.2
    c 0 false ids t n rest

/-- an arm list that LACKS an arm makes C06 call the refusal data while C16 (which hard-codes the three arms of the
source) still refuses: the parameter is exactly the extracted fact `c06_x_shard_codes` pins.  With the arms of /repo
both agree (theorem above); this is the mutation C06's extractor exists to catch. -/
theorem cons_shardcode_missing_arm_witness :
    SV.Agg.shardOutcome ["storeapi.SearchErrorCode_INGESTOR_QUERY_WANTS_OLD_DATA"] .tooManyFractions = .data ∧
    SV.ProxySearch.searchShard [.resp (shardcodeOfAgg .tooManyFractions) [] 0 0] = .tmf := by
  constructor <;> decide

/-- the transport-level twins of two codes (`status.Convert(err).Message()` equal to the sentinel text, "TODO: remove
in future versions") exist only in C16; they land in the same class as the code -/
theorem cons_shardcode_error_text_twins (i : Nat) (e : Bool) (ids : List SV.ProxySearch.ID) (t n : Nat)
    (rest : List SV.ProxySearch.Call) :
    SV.ProxySearch.searchShardGo i e (.failWod :: rest) = SV.ProxySearch.searchShardGo i e (.resp .wod ids t n :: rest) ∧
    SV.ProxySearch.searchShardGo i e (.failTmu :: rest) = SV.ProxySearch.searchShardGo i e (.resp .tmu ids t n :: rest) :=
  ⟨rfl, rfl⟩

/-! ## C06 code -> C05 `up` -/

/-- C05's `pickReplica` sees a replica as "up" exactly when C06 classifies its answer as data (cons-a's `apiCallUp`
on an answered call) -/
theorem cons_shardcode_apiCallUp_eq_data (c : SV.Agg.Code) (ids : List SV.ProxySearch.ID) (t n : Nat) :
    apiCallUp (.resp (shardcodeOfAgg c) ids t n) = decide (SV.Agg.shardOutcome shardcodeGoArms c = .data) := by
  cases c <;> simp [apiCallUp, shardcodeOfAgg, shardcode_outcome_goArms]

/-! ## the permuted loop -/

theorem shardcode_permuted_range (pre calls : List SV.ProxySearch.Call) :
    (List.range' pre.length calls.length).filterMap (fun r => ((pre ++ calls)[r]?).map fun c => (r, c)) =
      SV.ProxySearch.indexed pre.length calls := by
  induction calls generalizing pre with
  | nil => rfl
  | cons c rest ih =>
    have := ih (pre ++ [c])
    simp only [List.length_append, List.length_cons, List.length_nil, Nat.zero_add, List.append_assoc,
      List.cons_append, List.nil_append] at this
    simp only [List.length_cons, List.range'_succ, List.filterMap_cons, SV.ProxySearch.indexed]
    have hget : (pre ++ c :: rest)[pre.length]? = some c := by simp
    rw [hget]
    simp only [Option.map_some]
    rw [this]

/-- **`ShuffleReplicas = false`**: `searchShardP` with the identity permutation (`util.IdxFill(len(hosts))`) is
`searchShard`; all inputs -/
theorem cons_shardcode_searchShardP_identity (calls : List SV.ProxySearch.Call) :
    SV.ProxySearch.searchShardP (List.range calls.length) calls = SV.ProxySearch.searchShard calls := by
  unfold SV.ProxySearch.searchShardP SV.ProxySearch.searchShard SV.ProxySearch.permuted
  have := shardcode_permuted_range [] calls
  simp only [List.length_nil, List.nil_append] at this
  rw [List.range_eq_range', this]
  exact SV.ProxySearch.searchShardPGo_range 0 false calls

/-- entries of `idx` beyond the host list are skipped by the model (Go would panic; `IdxShuffle` never yields one) -/
theorem cons_shardcode_searchShardP_skips_out_of_range (calls : List SV.ProxySearch.Call) (k : Nat) :
    SV.ProxySearch.searchShardP (List.range calls.length ++ [calls.length + k]) calls = SV.ProxySearch.searchShard calls := by
  rw [← cons_shardcode_searchShardP_identity]
  unfold SV.ProxySearch.searchShardP SV.ProxySearch.permuted
  simp [List.filterMap_append]

/-! ## the shards' outcomes: `searchOutcome` (C06) = the class of `searchStores` (C16) -/

/-- C16's result of `searchStores` in C06's three classes (`panic` = the nil response of a shard without replicas:
outside the C06 alphabet, mapped to `error`) -/
def shardcodeClass : SV.ProxySearch.StoresRes → SV.Agg.Outcome
  | .err _ => .error
  | .data qprs true => .partialResponse qprs.length
  | .data qprs false => .ok qprs.length
  | .panic => .error

/-- the arrival list C16 sees when every shard's first replica answers with the given code -/
def shardcodeArrival (k : Nat) (codes : List SV.Agg.Code) : List (Nat × SV.ProxySearch.ShardRes) :=
  SV.ProxySearch.indexed k (codes.map fun c => SV.ProxySearch.searchShard [.resp (shardcodeOfAgg c) [] 0 0])

theorem shardcode_storesLoop (codes : List SV.Agg.Code) (k : Nat) (qprs : List SV.ProxySearch.QPR) (nerrs : Nat) (anyTmu : Bool) :
    shardcodeClass (SV.ProxySearch.storesLoop (shardcodeArrival k codes) qprs nerrs anyTmu) =
      if codes.any (fun c => c = .wantsOldData ∨ c = .tooManyFractions) then .error
      else
        let nData := qprs.length + (codes.filter (· = .noError)).length
        if nerrs > 0 ∨ codes.any (· ≠ .noError) then (if nData ≠ 0 then .partialResponse nData else .error)
        else .ok nData := by
  induction codes generalizing k qprs nerrs anyTmu with
  | nil =>
    simp only [shardcodeArrival, List.map_nil, SV.ProxySearch.indexed, SV.ProxySearch.storesLoop, List.any_nil,
      Bool.false_eq_true, if_false, List.filter_nil, List.length_nil, Nat.add_zero, or_false]
    by_cases hn : nerrs > 0
    · cases qprs with
      | nil => simp [hn, shardcodeClass]
      | cons q qs => simp [hn, shardcodeClass]
    · simp [hn, shardcodeClass]
  | cons c rest ih =>
    cases c with
    | noError =>
      have e : shardcodeArrival k (SV.Agg.Code.noError :: rest) =
          (k, SV.ProxySearch.ShardRes.ok 0 [] 0 0) :: shardcodeArrival (k + 1) rest := rfl
      rw [e]
      simp only [SV.ProxySearch.storesLoop]
      rw [ih (k + 1) _ nerrs anyTmu]
      simp only [List.any_cons, List.filter_cons, List.length_append, List.length_cons, List.length_nil]
      simp
      split
      · rfl
      · have : qprs.length + 0 + 1 + (rest.filter (· = SV.Agg.Code.noError)).length =
            qprs.length + ((rest.filter (· = SV.Agg.Code.noError)).length + 1) := by omega
        simp only [Nat.add_zero] at this ⊢
        rw [this]
    | wantsOldData =>
      have e : shardcodeArrival k (SV.Agg.Code.wantsOldData :: rest) =
          (k, SV.ProxySearch.ShardRes.wod) :: shardcodeArrival (k + 1) rest := rfl
      rw [e]
      simp [SV.ProxySearch.storesLoop, shardcodeClass]
    | tooManyFractions =>
      have e : shardcodeArrival k (SV.Agg.Code.tooManyFractions :: rest) =
          (k, SV.ProxySearch.ShardRes.tmf) :: shardcodeArrival (k + 1) rest := rfl
      rw [e]
      simp [SV.ProxySearch.storesLoop, shardcodeClass]
    | tooManyUniq =>
      have e : shardcodeArrival k (SV.Agg.Code.tooManyUniq :: rest) =
          (k, SV.ProxySearch.ShardRes.tmu) :: shardcodeArrival (k + 1) rest := rfl
      rw [e]
      simp only [SV.ProxySearch.storesLoop]
      rw [ih (k + 1) qprs (nerrs + 1) true]
      simp

/-- **`Ingestor.search` over the shards, C06 = C16**: for every list of shard codes (one answered call per shard, the
arms of the source), the class of C16's `searchStores` - error / partial with `n` merged results / success with `n` -
is C06's `searchOutcome` of the per-shard `shardOutcome`s.  All code lists; arrival in shard order (the C16 class does
not depend on the arrival order: `SV.ProxySearch` proves that in ProxySearchLemmas, `c16_*`). -/
theorem cons_shardcode_searchStores_eq_searchOutcome (codes : List SV.Agg.Code) :
    shardcodeClass (SV.ProxySearch.searchStores (shardcodeArrival 0 codes)) =
      SV.Agg.searchOutcome (codes.map (SV.Agg.shardOutcome shardcodeGoArms)) := by
  unfold SV.ProxySearch.searchStores
  rw [shardcode_storesLoop codes 0 [] 0 false]
  unfold SV.Agg.searchOutcome
  have hmap : codes.map (SV.Agg.shardOutcome shardcodeGoArms) =
      codes.map (fun c => if c = .noError then SV.Agg.ShardOutcome.data else .refused c) := by
    apply List.map_congr_left; intro c _; exact shardcode_outcome_goArms c
  rw [hmap]
  have h1 : (codes.map (fun c => if c = .noError then SV.Agg.ShardOutcome.data else .refused c)).any
      (fun o => o = .refused .wantsOldData ∨ o = .refused .tooManyFractions) =
      codes.any (fun c => c = .wantsOldData ∨ c = .tooManyFractions) := by
    rw [List.any_map]
    congr 1; funext c; cases c <;> simp
  have h2 : ((codes.map (fun c => if c = .noError then SV.Agg.ShardOutcome.data else .refused c)).filter (· = .data)).length =
      (codes.filter (· = .noError)).length := by
    rw [List.filter_map, List.length_map]
    congr 2; funext c; cases c <;> simp
  have h3 : (codes.map (fun c => if c = .noError then SV.Agg.ShardOutcome.data else .refused c)).any (· ≠ .data) =
      codes.any (· ≠ .noError) := by
    rw [List.any_map]
    congr 1; funext c; cases c <;> simp
  simp only [h1, h2, h3, List.length_nil, Nat.zero_add, Nat.lt_irrefl, gt_iff_lt, false_or]

end SV.Consistency
