import SeqVerif.Consistency.Positions
import SeqVerif.Model.C17Compose
/-!
# Consistency of the two models of `appendWorker` (frac/active_indexer.go): C01's index vs C17's index

* C01 (`SV.WPath`, Model/WPIndex.lean): `indexEntry` / `buildIndex` - state `Index` = block offsets, positions
  (association list), postings as one flat list of `(token bytes, document id)`.
* C17 (`SV.Collector`, Model/Collector.lean + DedupIndex.lean): `indexBulk` / `run` - the statement-level
  `metaDataCollector` (`AppendMeta`, `extractTokens`, `SetMultiple`, `Filter`, `GroupLIDsByToken`), then `AppendIDs`,
  `TokenList.Append`, `PutLIDsInQueue`; state `Active` = id table by LID, positions, blocks, token -> queued LIDs.

Representation change (`IndexRel`): same number of blocks; the two position maps are the same function; for every
token the documents C01's `search` returns are the ids at the LIDs of C17's queue, in the same order and with the same
multiplicity: `search ix t = (queue a t).map (a.ids[·])`.
Common domain: no bulk starts with a nested meta (`FirstReal`; Go panics there and the models use different dummies,
see `cons_appendMeta_wpath_ne_collector_nestedFirst_witness`).  No other restriction: re-delivered ids, ids repeated
inside a bulk and nested metas are all covered.
-/
namespace SV.Consistency

open SV.Collector (DocsPositions DocPos)

/-- `ids[l]` (MIDs/RIDs at a LID) -/
def idAtLID (ids : List SV.Collector.ID) (l : Nat) : SV.Collector.ID := ids.getD l (0, 0)

/-- C01's index and C17's active fraction describe the same index -/
structure IndexRel (ix : SV.WPath.Index) (a : SV.Collector.Active) : Prop where
  blocks : ix.blocks.length = a.blocks.length
  pos : mapOfCollector a.dp = mapOfWPath ix.positions
  post : ∀ t, SV.WPath.search ix t = (SV.Collector.queue a t).map (idAtLID a.ids)
  inRange : ∀ t, ∀ l ∈ SV.Collector.queue a t, l < a.ids.length

/-- `NewActive` -/
theorem indexRel_empty : IndexRel SV.WPath.Index.empty SV.Collector.Active.empty := by
  refine ⟨rfl, by funext id; rfl, ?_, ?_⟩
  · intro t
    have : SV.Collector.queue SV.Collector.Active.empty t = [] := by
      unfold SV.Collector.queue SV.Collector.Active.empty
      simp only [List.lookup]
      split <;> rfl
    rw [this]; rfl
  · intro t l hl
    have : SV.Collector.queue SV.Collector.Active.empty t = [] := by
      unfold SV.Collector.queue SV.Collector.Active.empty
      simp only [List.lookup]
      split <;> rfl
    rw [this] at hl; cases hl

/-! ## the collector after `SetMultiple` / `Filter`, without assumptions on the fraction -/

/-- Go `appendWorker` up to `Filter`: the collector C17 ends up with holds exactly the metas of the bulk whose id
`SetMultiple` accepted (C01's rule `m.id ∈ appended`), whatever the state of the fraction. -/
theorem dedupCollector_rview (a : SV.Collector.Active) (ms : List SV.Collector.Meta) :
    SV.Collector.CInv (SV.Collector.dedupCollector a ms).1 ∧
    SV.Collector.rview (SV.Collector.dedupCollector a ms).1 =
      (SV.Collector.docsOf a.blocks.length ms).filter fun d => decide (d.1 ∈
        (SV.Collector.setMultiple a.dp (SV.Collector.collect a.blocks.length ms).ids
          (SV.Collector.collect a.blocks.length ms).positions).2) := by
  obtain ⟨hcinv, hrv, hids, -, -⟩ := SV.Collector.collect_spec a.blocks.length ms
  simp only [SV.Collector.dedupCollector]
  split
  · have hf := SV.Collector.filter_view (SV.Collector.collect a.blocks.length ms)
      (SV.Collector.setMultiple a.dp (SV.Collector.collect a.blocks.length ms).ids
        (SV.Collector.collect a.blocks.length ms).positions).2 hcinv.1
    refine ⟨⟨hf.2.1, ?_, ?_⟩, ?_⟩
    · rw [hf.2.2]; exact hcinv.2.1
    · intro k hk
      rw [hf.2.2]
      have : k ∈ (SV.Collector.collect a.blocks.length ms).tokensIndex := by
        simp only [SV.Collector.filter, List.mem_flatMap] at hk
        obtain ⟨i, -, hk⟩ := hk
        exact List.mem_of_mem_drop (List.mem_of_mem_take hk)
      exact hcinv.2.2 k this
    · rw [SV.Collector.rview_eq, hf.1, hf.2.2, ← hrv, SV.Collector.rview_eq, List.filter_map]
      rfl
  · rename_i hlen
    have hlen' := Decidable.not_not.mp hlen
    have heq := (setMultiple_sublist a.dp (SV.Collector.collect a.blocks.length ms).ids
      (SV.Collector.collect a.blocks.length ms).positions).eq_of_length hlen'
    refine ⟨hcinv, ?_⟩
    rw [heq, ← hrv]
    symm
    apply List.filter_eq_self.mpr
    intro d hd
    have : d.1 ∈ (SV.Collector.rview (SV.Collector.collect a.blocks.length ms)).map (·.1) := List.mem_map_of_mem hd
    rw [SV.Collector.rview_ids _ hcinv.1] at this
    simpa using this

/-! ## postings -/

theorem filter_map_pair_count (ts : List SV.WPath.Bytes) (i : SV.WPath.DocID) (t : SV.WPath.Bytes) :
    (((ts.map fun x => (x, i)).filter fun p => decide (p.1 = t)).map (·.2)) = List.replicate (ts.count t) i := by
  induction ts with
  | nil => rfl
  | cons x ts ih =>
    by_cases h : x = t
    · subst h; simp [ih, List.replicate_succ]
    · simp [h, ih]

/-- C01's `entryPostings`, read per token: every accepted meta contributes its id once per occurrence of the token -/
theorem search_entryPostings (ms : List SV.Collector.Meta) (app : List SV.WPath.DocID) (t : SV.WPath.Bytes) :
    ((SV.WPath.entryPostings (ms.map toDocMeta) app).filter fun p => decide (p.1 = t)).map (·.2) =
      ms.flatMap fun m => if m.id ∈ app then
        List.replicate ((m.tokens.map SV.Collector.MetaToken.bytes).count t) m.id else [] := by
  induction ms with
  | nil => rfl
  | cons m ms ih =>
    simp only [SV.WPath.entryPostings, List.map_cons, List.flatMap_cons, List.filter_append, List.map_append] at ih ⊢
    rw [ih]
    congr 1
    by_cases h : m.id ∈ app
    · simp only [toDocMeta, h, if_true]
      exact filter_map_pair_count _ _ _
    · simp [toDocMeta, h]

/-- C17's `postings` of the filtered view, with every LID replaced by the id `AppendIDs` stored there -/
theorem postings_ids (docs : List (SV.Collector.ID × DocPos × List SV.Collector.Bytes)) (pre : List SV.Collector.ID)
    (t : SV.Collector.Bytes) :
    (SV.Collector.postings docs (List.range' pre.length docs.length) t).map (idAtLID (pre ++ docs.map (·.1))) =
      docs.flatMap fun d => List.replicate (d.2.2.count t) d.1 := by
  induction docs generalizing pre with
  | nil => rfl
  | cons d docs ih =>
    simp only [SV.Collector.postings, List.length_cons, List.range'_succ, List.zip_cons_cons, List.flatMap_cons,
      List.map_append, List.map_cons] at ih ⊢
    congr 1
    · simp [idAtLID, List.getD]
    · have := ih (pre ++ [d.1])
      simp only [List.length_append, List.length_cons, List.length_nil, List.append_assoc, List.cons_append,
        List.nil_append] at this
      exact this

theorem docsOf_filter_flatMap (b : Nat) (ms : List SV.Collector.Meta) (off : Nat) (last : DocPos)
    (app : List SV.Collector.ID) (t : SV.Collector.Bytes) :
    ((SV.Collector.docsFrom b ms off last).filter fun d => decide (d.1 ∈ app)).flatMap
        (fun d => List.replicate (d.2.2.count t) d.1) =
      ms.flatMap fun m => if m.id ∈ app then
        List.replicate ((m.tokens.map SV.Collector.MetaToken.bytes).count t) m.id else [] := by
  induction ms generalizing off last with
  | nil => rfl
  | cons m ms ih =>
    simp only [SV.Collector.docsFrom, List.filter_cons, List.flatMap_cons]
    by_cases h : m.id ∈ app
    · simp only [h, decide_true, if_true, List.flatMap_cons, ih]
    · simp only [h, decide_false, Bool.false_eq_true, if_false, List.nil_append, ih]

/-! ## one `appendWorker` iteration -/

/-- Go `appendWorker`, one task.  `SV.WPath.indexEntry` (C01) vs `SV.Collector.indexBulk` (C17) keep `IndexRel`.
Representation change: the decoded records of the block are the C17 metas through `toDocMeta` (hypothesis `hdec` on
C01's codec parameter).  Domain: `FirstReal ms`. -/
theorem cons_appendWorker_wpath_eq_collector (cd : SV.WPath.IdxCodec) (ix : SV.WPath.Index) (e : SV.WPath.Entry)
    (a : SV.Collector.Active) (ms : List SV.Collector.Meta) (hrel : IndexRel ix a)
    (hdec : cd.metaDocs e.blk = ms.map toDocMeta) (hfirst : SV.Collector.FirstReal ms) :
    IndexRel (SV.WPath.indexEntry cd ix e) (SV.Collector.indexBulk a ms) := by
  obtain ⟨hcinv, hrv⟩ := dedupCollector_rview a ms
  obtain ⟨hc0inv, -, hc0ids, -, -⟩ := SV.Collector.collect_spec a.blocks.length ms
  have hnew : SV.WPath.docPositions ix.blocks.length 0 none (cd.metaDocs e.blk) =
      (SV.Collector.collect a.blocks.length ms).ids.zip (SV.Collector.collect a.blocks.length ms).positions := by
    rw [hdec, hrel.blocks]; exact cons_appendMeta_wpath_eq_collector _ ms hfirst
  have hnew' := hnew
  rw [hdec] at hnew'
  obtain ⟨hmap, happ⟩ := cons_setMultiple_collector_eq_wpath a.dp ix.positions
    (SV.Collector.collect a.blocks.length ms).ids (SV.Collector.collect a.blocks.length ms).positions hrel.pos
  generalize hAcc : (SV.Collector.setMultiple a.dp (SV.Collector.collect a.blocks.length ms).ids
    (SV.Collector.collect a.blocks.length ms).positions).2 = acc at hrv happ
  have hcids : (SV.Collector.dedupCollector a ms).1.ids =
      (SV.Collector.rview (SV.Collector.dedupCollector a ms).1).map (·.1) :=
    (SV.Collector.rview_ids _ hcinv.1).symm
  have hlen : (SV.Collector.rview (SV.Collector.dedupCollector a ms).1).length =
      (SV.Collector.dedupCollector a ms).1.ids.length := by rw [hcids, List.length_map]
  have hq : ∀ t, SV.Collector.queue (SV.Collector.indexBulk a ms) t = SV.Collector.queue a t ++
      SV.Collector.postings (SV.Collector.rview (SV.Collector.dedupCollector a ms).1)
        (List.range' a.ids.length (SV.Collector.dedupCollector a ms).1.ids.length) t := by
    intro t
    exact SV.Collector.queue_step (SV.Collector.dedupCollector a ms).1 _ hcinv (by simp) a.tokens t
  have hids : (SV.Collector.indexBulk a ms).ids = a.ids ++ (SV.Collector.dedupCollector a ms).1.ids := rfl
  refine ⟨?_, ?_, ?_, ?_⟩
  · simp [SV.WPath.indexEntry, SV.Collector.indexBulk, hrel.blocks]
  · show mapOfCollector (SV.Collector.dedupCollector a ms).2 = mapOfWPath (SV.WPath.indexEntry cd ix e).positions
    simp only [SV.WPath.indexEntry, hnew]
    exact hmap
  · intro t
    rw [hq t, hids, List.map_append]
    have h1 : (SV.Collector.queue a t).map (idAtLID (a.ids ++ (SV.Collector.dedupCollector a ms).1.ids)) =
        (SV.Collector.queue a t).map (idAtLID a.ids) := by
      apply List.map_congr_left
      intro l hl
      exact SV.Collector.getD_append_left _ _ _ _ (hrel.inRange t l hl)
    rw [h1, ← hrel.post t]
    have h2 := postings_ids (SV.Collector.rview (SV.Collector.dedupCollector a ms).1) a.ids t
    rw [hlen, ← hcids] at h2
    rw [h2, hrv, SV.Collector.docsOf, docsOf_filter_flatMap, ← search_entryPostings]
    simp only [SV.WPath.search, SV.WPath.indexEntry, List.filter_append, List.map_append, hdec, hnew', ← happ]
  · intro t l hl
    rw [hq t] at hl
    rw [hids, List.length_append]
    rcases List.mem_append.mp hl with hl | hl
    · have := hrel.inRange t l hl; omega
    · unfold SV.Collector.postings at hl
      obtain ⟨x, hx, hl⟩ := List.mem_flatMap.mp hl
      have := (List.mem_replicate.mp hl).2
      subst this
      have := List.mem_range'_1.mp (List.of_mem_zip hx).2
      omega

/-! ## a whole history -/

/-- **Go `appendWorker` over any sequence of tasks.**  `SV.WPath.buildIndex cd es` (C01) and
`SV.C17Compose.fracOfEntries dec es = SV.Collector.run Active.empty (es.map dec)` (C17, the glue definition the C17 x C01
composition uses) describe the same index: same block count, same position map, and for every token the same
documents in the same order.  `dec` is C17's reading of C01's codec parameter; domain: no decoded bulk starts with a
nested meta. -/
theorem cons_buildIndex_wpath_eq_collector (cd : SV.WPath.IdxCodec) (dec : SV.WPath.Bytes → List SV.Collector.Meta)
    (es : List SV.WPath.Entry)
    (hdec : ∀ e ∈ es, cd.metaDocs e.blk = (dec e.blk).map toDocMeta ∧ SV.Collector.FirstReal (dec e.blk)) :
    IndexRel (SV.WPath.buildIndex cd es) (SV.C17Compose.fracOfEntries dec es) := by
  unfold SV.WPath.buildIndex SV.C17Compose.fracOfEntries SV.Collector.run
  have : ∀ (ix : SV.WPath.Index) (a : SV.Collector.Active), IndexRel ix a →
      (∀ e ∈ es, cd.metaDocs e.blk = (dec e.blk).map toDocMeta ∧ SV.Collector.FirstReal (dec e.blk)) →
      IndexRel (es.foldl (SV.WPath.indexEntry cd) ix)
        ((es.map fun e => dec e.blk).foldl SV.Collector.indexBulk a) := by
    induction es with
    | nil => intro ix a h _; exact h
    | cons e es ih =>
      intro ix a h hd
      simp only [List.foldl_cons, List.map_cons]
      apply ih
      · intro e' he'; exact hdec e' (List.mem_cons_of_mem _ he')
      · exact cons_appendWorker_wpath_eq_collector cd ix e a (dec e.blk) h (hd e (by simp)).1 (hd e (by simp)).2
      · intro e' he'; exact hd e' (List.mem_cons_of_mem _ he')
  exact this _ _ indexRel_empty hdec

/-- non-vacuity: a codec / decoder pair satisfying the hypothesis on a one-entry history -/
example : ∀ e ∈ [(⟨[7], 0⟩ : SV.WPath.Entry)],
    (⟨fun _ => [⟨(1, 1), 3, [[97, 58, 98]]⟩], fun _ => none⟩ : SV.WPath.IdxCodec).metaDocs e.blk =
      ((fun _ => [⟨(1, 1), 3, [⟨[97], [98]⟩], 0⟩] : SV.WPath.Bytes → List SV.Collector.Meta) e.blk).map toDocMeta ∧
    SV.Collector.FirstReal ((fun _ => [⟨(1, 1), 3, [⟨[97], [98]⟩], 0⟩] : SV.WPath.Bytes → List SV.Collector.Meta) e.blk) := by
  intro e _
  exact ⟨rfl, by simp [SV.Collector.FirstReal]⟩

/-- `activeDataProvider.Fetch`, the position lookup part: C01's `lookupPos` on the built index = C17's
`DocsPositions` lookup on the fraction (consequence of the above). -/
theorem cons_getDocPos_wpath_eq_collector (cd : SV.WPath.IdxCodec) (dec : SV.WPath.Bytes → List SV.Collector.Meta)
    (es : List SV.WPath.Entry)
    (hdec : ∀ e ∈ es, cd.metaDocs e.blk = (dec e.blk).map toDocMeta ∧ SV.Collector.FirstReal (dec e.blk))
    (id : SV.WPath.DocID) :
    SV.WPath.lookupPos (SV.WPath.buildIndex cd es).positions id = (SV.C17Compose.fracOfEntries dec es).dp.lookup id :=
  (congrFun (cons_buildIndex_wpath_eq_collector cd dec es hdec).pos id).symm

/-! ## C04's `Active.append` vs C17's `indexBulk` -/

theorem collect_zip_eq_docsOf (b : Nat) (ms : List SV.Collector.Meta) :
    (SV.Collector.collect b ms).ids.zip (SV.Collector.collect b ms).positions =
      (SV.Collector.docsOf b ms).map fun d => (d.1, d.2.1) := by
  obtain ⟨hinv, hview, -, -, -⟩ := SV.Collector.collect_spec b ms
  rw [← SV.Collector.rview_ids _ hinv.1, ← SV.Collector.rview_positions _ hinv.1, hview, List.zip_map']

/-- Go `appendWorker`, the fetch-relevant part (`DocBlocks.Append` then `SetMultiple` with `PackDocPos(blockIndex,
offset)`).  `SV.Fetch.Active.append` (C04, Model/FetchActive.lean; it is *given* the `(id, offset)` entries of the bulk)
vs `SV.Collector.indexBulk` (C17, which computes them).  Representation change: the entries are C17's specification
view `docsOf` of the bulk projected to `(id, offset in block)`; ids through `toFetchID`; positions through
`seq.PackDocPos` at 30 bits; maps as functions.  Domain: `FirstReal ms` (then every position of the bulk lies in the new
block). -/
theorem cons_append_fetch_eq_collector (st : SV.Fetch.Active) (a : SV.Collector.Active) (ms : List SV.Collector.Meta)
    (off : Nat) (payload : List Nat) (hb : st.docBlocks.length = a.blocks.length)
    (hmap : ∀ id, (mapOfCollector a.dp id).map SV.Collector.packDocPos = mapOfFetch st.positions id)
    (hfirst : SV.Collector.FirstReal ms) :
    let st' := st.append 30 off payload ((SV.Collector.docsOf a.blocks.length ms).map fun d => (toFetchID d.1, d.2.1.2))
    st'.docBlocks.length = (SV.Collector.indexBulk a ms).blocks.length ∧
    ∀ id, (mapOfCollector (SV.Collector.indexBulk a ms).dp id).map SV.Collector.packDocPos = mapOfFetch st'.positions id := by
  intro st'
  refine ⟨by simp [st', SV.Fetch.Active.append, SV.Collector.indexBulk, hb], ?_⟩
  have h := cons_setMultiple_collector_eq_fetch SV.Collector.packDocPos a.dp st.positions
    (SV.Collector.collect a.blocks.length ms).ids (SV.Collector.collect a.blocks.length ms).positions hmap
  have hblk := SV.Collector.docsFrom_block' a.blocks.length ms 0 (0, 0) (Or.inr hfirst)
  have hent : ((SV.Collector.collect a.blocks.length ms).ids.zip (SV.Collector.collect a.blocks.length ms).positions).map
      (fun e => (toFetchID e.1, SV.Collector.packDocPos e.2)) =
      ((SV.Collector.docsOf a.blocks.length ms).map fun d => (toFetchID d.1, d.2.1.2)).map
        (fun e => (e.1, SV.Fetch.packDocPos 30 st.docBlocks.length e.2)) := by
    rw [collect_zip_eq_docsOf, List.map_map, List.map_map]
    apply List.map_congr_left
    intro d hd
    have := hblk d hd
    simp only [Function.comp, cons_packDocPos_collector_eq_fetch, SV.Collector.docOffsetBits, this, hb]
  rw [hent] at h
  exact h

example : (([] : List Nat).length = ([] : List (List (Nat × Nat))).length) ∧
    (∀ id, (mapOfCollector [] id).map SV.Collector.packDocPos = mapOfFetch [] id) := ⟨rfl, fun _ => rfl⟩

/-! ## C07's writer vs C17: the payload of the `PutLIDsInQueue` calls and `UpdateStats` -/

theorem count_map_inj (enc : Nat → SV.Collector.Bytes) (henc : ∀ x y, enc x = enc y → x = y) (t : Nat) (l : List Nat) :
    (l.map enc).count (enc t) = l.count t := by
  induction l with
  | nil => rfl
  | cons x l ih =>
    simp only [List.map_cons, List.count_cons, ih]
    by_cases h : x = t
    · subst h; simp
    · have : ¬ enc x = enc t := fun e => h (henc _ _ e)
      simp [h, this]

theorem count_of_nodup (l : List Nat) (hn : l.Nodup) (t : Nat) : l.count t = if t ∈ l then 1 else 0 := by
  induction l with
  | nil => rfl
  | cons x l ih =>
    have hn' := List.nodup_cons.mp hn
    simp only [List.count_cons, ih hn'.2, List.mem_cons]
    by_cases h : x = t
    · subst h; simp [hn'.1]
    · have : ¬ t = x := fun e => h e.symm
      simp [h, this]

/-- Go `GroupLIDsByToken` + `addLIDsToTokens`: the LIDs queued for token `t` by one bulk.  `SV.ActiveConc.lidsWith t docs
base` (C07: the LIDs of the kept documents that carry `t`) vs `SV.Collector.postingsT` (C17: the characterisation of
`groupLIDsByToken` proved in `indexBulk_specN`).  Representation change: C07's abstract token numbers through any
injective encoding `enc` into token bytes.  Domain: no document repeats a token (C17, like Go, queues the LID once per
occurrence and leaves the cleaning to `mergeSorted`; C07 abstracts sorted + queue into one duplicate-free list - see the
witness below). -/
theorem cons_queuedLIDs_activeconc_eq_collector (enc : Nat → SV.Collector.Bytes) (henc : ∀ x y, enc x = enc y → x = y)
    (t : Nat) (docs : List SV.ActiveConc.Doc) (base : Nat) (hnd : ∀ d ∈ docs, d.toks.Nodup) :
    SV.ActiveConc.lidsWith t docs base =
      SV.Collector.postingsT (docs.map fun d => d.toks.map enc) (List.range' base docs.length) (enc t) := by
  induction docs generalizing base with
  | nil => rfl
  | cons d docs ih =>
    have hcount : (d.toks.map enc).count (enc t) = d.toks.count t := count_map_inj enc henc t d.toks
    have hd := hnd d (by simp)
    simp only [SV.ActiveConc.lidsWith, SV.Collector.postingsT, List.map_cons, List.length_cons, List.range'_succ,
      List.zip_cons_cons, List.flatMap_cons, hcount]
    have ih' := ih (base + 1) (fun d' hd' => hnd d' (List.mem_cons_of_mem _ hd'))
    simp only [SV.Collector.postingsT] at ih'
    by_cases ht : t ∈ d.toks
    · have : d.toks.count t = 1 := by rw [count_of_nodup _ hd]; simp [ht]
      simp [ht, this, ih']
    · have : d.toks.count t = 0 := by rw [count_of_nodup _ hd]; simp [ht]
      simp [ht, this, ih']

example : ∀ d ∈ [(⟨1, 1, [5, 6]⟩ : SV.ActiveConc.Doc)], d.toks.Nodup := by
  intro d hd; simp only [List.mem_singleton] at hd; subst hd; decide

/-- a document that repeats a token: C17 (as Go's `GroupLIDsByToken`) queues its LID twice, C07 once.  Harmless -
`mergeSorted` drops equal LIDs and C07 models the merged list - but it is a difference of the two models' queues. -/
theorem cons_queuedLIDs_activeconc_ne_collector_repeatedToken_witness :
    SV.ActiveConc.lidsWith 5 [⟨1, 1, [5, 5]⟩] 0 = [0] ∧
    SV.Collector.postingsT ([⟨1, 1, [5, 5]⟩].map fun (d : SV.ActiveConc.Doc) => d.toks.map fun x => [x])
      (List.range' 0 1) [5] = [0, 0] := by decide

/-- the `_all_` call of `queueCalls`: all LIDs of the bulk = C17's postings of a token every document carries once -/
theorem cons_queuedAll_activeconc_eq_collector (tokss : List (List SV.Collector.Bytes)) (base : Nat)
    (h : ∀ ts ∈ tokss, ts.count SV.Collector.allToken = 1) :
    List.range' base tokss.length = SV.Collector.postingsT tokss (List.range' base tokss.length) SV.Collector.allToken := by
  induction tokss generalizing base with
  | nil => rfl
  | cons ts tokss ih =>
    have h1 := h ts (by simp)
    have ih' := ih (base + 1) (fun x hx => h x (List.mem_cons_of_mem _ hx))
    simp only [SV.Collector.postingsT] at ih' ⊢
    simp only [List.length_cons, List.range'_succ, List.zip_cons_cons, List.flatMap_cons, h1]
    rw [← ih']
    rfl

/-- C07's `Range` (`Option`) as C17's `(from_, to)` with the sentinels of `NewActive` (`From = MaxUint64, To = 0`) -/
def rangeToSentinel (r : SV.ActiveConc.Range) : Nat × Nat :=
  match r with
  | none => (SV.Collector.maxU64, 0)
  | some (lo, hi) => (lo, hi)

theorem widen_sentinel (r : SV.ActiveConc.Range) (m : Nat) (hm : m ≤ SV.Collector.maxU64) :
    rangeToSentinel (SV.ActiveConc.widen r m m) =
      ((if m < (rangeToSentinel r).1 then m else (rangeToSentinel r).1),
       (if m > (rangeToSentinel r).2 then m else (rangeToSentinel r).2)) := by
  cases r with
  | none =>
    simp only [SV.ActiveConc.widen, rangeToSentinel]
    unfold SV.Collector.maxU64 at *
    by_cases h1 : m < 18446744073709551615 <;> by_cases h2 : m > 0 <;> simp [h1, h2] <;> omega
  | some p =>
    obtain ⟨lo, hi⟩ := p
    simp only [SV.ActiveConc.widen, rangeToSentinel, Prod.mk.injEq]
    constructor
    · by_cases h : m < lo <;> simp [h] <;> omega
    · by_cases h : m > hi <;> simp [h] <;> omega

/-- Go `collector.MinMID / MaxMID`: `SV.ActiveConc.statsOf` (C07, `Option` range) vs `SV.Collector.minOf / maxOf`
(C17, sentinels `MaxUint64` / `0`, the folds of `AppendMeta` / `Filter`).  Domain: MIDs are `uint64`. -/
theorem cons_statsOf_activeconc_eq_collector (docs : List SV.ActiveConc.Doc) (hm : ∀ d ∈ docs, d.mid ≤ SV.Collector.maxU64) :
    rangeToSentinel (SV.ActiveConc.statsOf docs) =
      (SV.Collector.minOf (docs.map SV.ActiveConc.Doc.id), SV.Collector.maxOf (docs.map SV.ActiveConc.Doc.id)) := by
  unfold SV.ActiveConc.statsOf SV.Collector.minOf SV.Collector.maxOf
  have : ∀ (r : SV.ActiveConc.Range), rangeToSentinel (docs.foldl (fun r d => SV.ActiveConc.widen r d.mid d.mid) r) =
      ((docs.map SV.ActiveConc.Doc.id).foldl (fun m id => if id.1 < m then id.1 else m) (rangeToSentinel r).1,
       (docs.map SV.ActiveConc.Doc.id).foldl (fun m id => if id.1 > m then id.1 else m) (rangeToSentinel r).2) := by
    induction docs with
    | nil => intro r; rfl
    | cons d docs ih =>
      intro r
      simp only [List.foldl_cons, List.map_cons]
      rw [ih (fun d' hd' => hm d' (List.mem_cons_of_mem _ hd')), widen_sentinel r d.mid (hm d (by simp))]
      rfl
  exact this none

/-- Go `UpdateStats` (`From = min(From, minMID)`, `To = max(To, maxMID)`).  `SV.ActiveConc.merge` (C07) vs the
`from_` / `to` fields of `SV.Collector.indexBulk` (C17: `if a.from_ > c.minMID then c.minMID else a.from_`).  Domain:
values are `uint64` (an empty kept list gives C17's sentinels, which must not win). -/
theorem cons_updateStats_activeconc_eq_collector (r s : SV.ActiveConc.Range)
    (hr : (rangeToSentinel r).1 ≤ SV.Collector.maxU64) (hs : (rangeToSentinel s).1 ≤ SV.Collector.maxU64) :
    rangeToSentinel (SV.ActiveConc.merge r s) =
      ((if (rangeToSentinel r).1 > (rangeToSentinel s).1 then (rangeToSentinel s).1 else (rangeToSentinel r).1),
       (if (rangeToSentinel r).2 < (rangeToSentinel s).2 then (rangeToSentinel s).2 else (rangeToSentinel r).2)) := by
  cases s with
  | none =>
    cases r with
    | none => simp [SV.ActiveConc.merge, rangeToSentinel]
    | some q =>
      obtain ⟨a, b⟩ := q
      simp only [rangeToSentinel] at hr
      have : ¬ SV.Collector.maxU64 < a := by omega
      simp [SV.ActiveConc.merge, rangeToSentinel, this]
  | some p =>
    obtain ⟨lo, hi⟩ := p
    cases r with
    | none =>
      simp only [rangeToSentinel] at hs
      simp only [SV.ActiveConc.merge, SV.ActiveConc.widen, rangeToSentinel, Prod.mk.injEq]
      refine ⟨?_, ?_⟩
      · by_cases h : SV.Collector.maxU64 > lo
        · simp [h]
        · simp only [h, if_false]; omega
      · by_cases h : 0 < hi <;> simp [h] <;> omega
    | some q =>
      obtain ⟨a, b⟩ := q
      simp only [SV.ActiveConc.merge, SV.ActiveConc.widen, rangeToSentinel, Prod.mk.injEq]
      constructor
      · by_cases h : a > lo <;> simp [h] <;> omega
      · by_cases h : b < hi <;> simp [h] <;> omega

/-! ## `extractTokens`: the order of `TokensValues` (C17) vs `bulkToks` (C07) -/

/-- first-occurrence dedup (the shape of `SV.ActiveConc.dedup`, for any type) -/
def dedupF {α} [DecidableEq α] : List α → List α
  | [] => []
  | x :: xs => x :: (dedupF xs).filter (· != x)

/-- `tokensMap` lookup + append of one `extractTokens` iteration, on `TokensValues` alone -/
def tvStep (tv : List SV.Collector.Bytes) (b : SV.Collector.Bytes) : List SV.Collector.Bytes :=
  if b ∈ tv then tv else tv ++ [b]

theorem foldl_tvStep (L tv : List SV.Collector.Bytes) :
    L.foldl tvStep tv = tv ++ (dedupF L).filter (fun b => decide (b ∉ tv)) := by
  induction L generalizing tv with
  | nil => simp [dedupF]
  | cons x xs ih =>
    simp only [List.foldl_cons, dedupF, List.filter_cons]
    by_cases hx : x ∈ tv
    · simp only [tvStep, hx, if_true, ih, decide_not, decide_true, Bool.not_true, Bool.false_eq_true, if_false,
        List.filter_filter]
      congr 1
      apply List.filter_congr
      intro b _
      by_cases hb : b ∈ tv
      · simp [hb]
      · have : b ≠ x := fun e => hb (e ▸ hx)
        simp [hb, this]
    · simp only [tvStep, hx, if_false, ih, decide_not, decide_false, Bool.not_false, if_true, List.filter_filter,
        List.append_assoc, List.singleton_append]
      congr 2
      apply List.filter_congr
      intro b _
      by_cases hb : b ∈ tv <;> by_cases hbx : b = x <;> simp [hb, hbx]

theorem extractTokens_tv (c : SV.Collector.Collector) (ts : List SV.Collector.MetaToken) :
    (SV.Collector.extractTokens c ts).tokensValues = (ts.map SV.Collector.MetaToken.bytes).foldl tvStep c.tokensValues := by
  induction ts generalizing c with
  | nil => rfl
  | cons t ts ih =>
    simp only [SV.Collector.extractTokens, List.foldl_cons, List.map_cons] at ih ⊢
    rw [ih]
    congr 1
    unfold SV.Collector.extractToken tvStep
    by_cases h : t.bytes ∈ c.tokensValues
    · have := List.idxOf_lt_length_iff.mpr h
      simp [h, this]
    · have : ¬ c.tokensValues.idxOf t.bytes < c.tokensValues.length := fun hh => h (List.idxOf_lt_length_iff.mp hh)
      simp [h, this]

theorem foldl_appendMeta_tv (ms : List SV.Collector.Meta) (c : SV.Collector.Collector) :
    (ms.foldl SV.Collector.appendMeta c).tokensValues =
      (ms.flatMap fun m => m.tokens.map SV.Collector.MetaToken.bytes).foldl tvStep c.tokensValues := by
  induction ms generalizing c with
  | nil => rfl
  | cons m ms ih =>
    simp only [List.foldl_cons, List.flatMap_cons, List.foldl_append]
    rw [ih]
    congr 1
    unfold SV.Collector.appendMeta
    rw [extractTokens_tv]
    rfl

/-- Go `extractTokens` over a bulk: `collector.TokensValues` lists every distinct token of the bulk in order of first
appearance.  (All inputs.) -/
theorem collect_tokensValues (b : Nat) (ms : List SV.Collector.Meta) :
    (SV.Collector.collect b ms).tokensValues = dedupF (ms.flatMap fun m => m.tokens.map SV.Collector.MetaToken.bytes) := by
  unfold SV.Collector.collect
  rw [foldl_appendMeta_tv, foldl_tvStep]
  simp [SV.Collector.init]

theorem activeconc_dedup_eq (l : List Nat) : SV.ActiveConc.dedup l = dedupF l := by
  induction l with
  | nil => rfl
  | cons x xs ih => simp [SV.ActiveConc.dedup, dedupF, ih]

theorem dedupF_map {α β} [DecidableEq α] [DecidableEq β] (f : α → β) (hf : ∀ x y, f x = f y → x = y) (l : List α) :
    (dedupF l).map f = dedupF (l.map f) := by
  induction l with
  | nil => rfl
  | cons x xs ih =>
    simp only [dedupF, List.map_cons, ← ih, List.filter_map]
    congr 2
    apply List.filter_congr
    intro y _
    by_cases h : y = x
    · subst h; simp
    · have : ¬ f y = f x := fun e => h (hf _ _ e)
      have h1 : (y != x) = true := by simpa using h
      have h2 : (f y != f x) = true := by simpa using this
      simp only [Function.comp, h1, h2]

/-- Go `collector.TokensValues` of one bulk.  `SV.ActiveConc.bulkToks` (C07: "every distinct token in order of first
appearance", tokens are numbers, `_all_` kept apart) vs the `tokensValues` the statement-level `SV.Collector.collect`
(C17) builds.  Representation change: a C07 document as a C17 meta whose tokens are the encodings of its token numbers
(`enc` injective on bytes; `_all_` left out on both sides - C07 handles it as the separate `none` token).  All inputs. -/
theorem cons_tokensValues_activeconc_eq_collector (enc : Nat → SV.Collector.MetaToken)
    (henc : ∀ x y, (enc x).bytes = (enc y).bytes → x = y) (b : Nat) (ds : List SV.ActiveConc.Doc) :
    (SV.Collector.collect b (ds.map fun d => ⟨d.id, 1, d.toks.map enc, 0⟩)).tokensValues =
      (SV.ActiveConc.bulkToks ds).map fun t => (enc t).bytes := by
  rw [collect_tokensValues, SV.ActiveConc.bulkToks, activeconc_dedup_eq,
    dedupF_map (fun t => (enc t).bytes) henc]
  congr 1
  induction ds with
  | nil => rfl
  | cons d ds ih => simp only [List.map_cons, List.flatMap_cons, List.map_append, ih, List.map_map]; rfl

example : ∀ x y : Nat, ((fun n => (⟨[n], []⟩ : SV.Collector.MetaToken)) x).bytes =
    ((fun n => (⟨[n], []⟩ : SV.Collector.MetaToken)) y).bytes → x = y := by
  intro x y h
  simpa [SV.Collector.MetaToken.bytes] using h

/-! ## layout of the documents inside a docs block (C17 `docBlock` vs C01 `docOffsets`) -/

/-- Go `DocProvider.appendDoc` as the store sees it: document `i` of a bulk starts at `Σ_{j<i} (len d_j + 4)`.
`SV.Collector.docBlock` (C17, Model/DedupIndex.lean: `(offset, payload id)` per non-nested meta) vs
`SV.WPath.docOffsets` (C01, Model/WPIndexLemmas.lean: `(document, offset)`).  Representation change: an ingested
document `d` as the meta `⟨d.id, len(d.body), tk d, pid d⟩` for arbitrary token / payload-identity functions.
Domain: no empty document (a `Size = 0` meta is a nested meta in C17 and carries no document). -/
theorem cons_docBlock_collector_eq_wpath (tk : SV.WPath.LDoc → List SV.Collector.MetaToken) (pid : SV.WPath.LDoc → Nat)
    (ds : List SV.WPath.LDoc) (hpos : ∀ d ∈ ds, 0 < d.body.length) (off : Nat) :
    SV.Collector.docBlock (ds.map fun d => ⟨d.id, d.body.length, tk d, pid d⟩) off =
      (SV.WPath.docOffsets off ds).map fun p => (p.2, pid p.1) := by
  induction ds generalizing off with
  | nil => rfl
  | cons d ds ih =>
    have h0 : d.body.length ≠ 0 := by have := hpos d (by simp); omega
    simp only [List.map_cons, SV.Collector.docBlock, h0, if_false, SV.WPath.docOffsets]
    rw [ih (fun x hx => hpos x (List.mem_cons_of_mem _ hx))]

example : ∀ d ∈ [(⟨(1, 1), [7], []⟩ : SV.WPath.LDoc)], 0 < d.body.length := by
  intro d hd; simp only [List.mem_singleton] at hd; subst hd; decide

/-! ## C07's `wPos` step = C17's `SetMultiple` + `Filter` -/

/-- Go `appendWorker`: `appendedIDs := SetMultiple(...)`; `Filter(appendedIDs)`.  One `wPos` step of `SV.ActiveConc.step`
(C07) computes, on ids, exactly what C17's `SV.Collector.setMultiple` + `filter` compute (`dedupCollector`, see
`cons_dedupCollector_ids_unconditional`): the new position map, the kept ids (`collector.IDs`) and `len(appendedIDs)`.
Representation change as in `cons_setMultiple_activeconc_eq_collector` (position = `(block, index in bulk)`). -/
theorem cons_wPos_activeconc_eq_collector (c : SV.ActiveConc.Cfg) (s s' : SV.ActiveConc.St) (i : Nat)
    (h : SV.ActiveConc.step c s (.wPos i) = some s') :
    let ids := (s.ws i).docs.map SV.ActiveConc.Doc.id
    let r := SV.Collector.setMultiple s.sh.pos ids ((List.range' 0 (s.ws i).docs.length).map fun j => ((s.ws i).blk, j))
    s'.sh.pos = r.1 ∧
    (s'.ws i).docs.map SV.ActiveConc.Doc.id = ids.filter (fun x => decide (x ∈ r.2)) ∧
    (s'.ws i).napp = r.2.length := by
  intro ids r
  simp only [SV.ActiveConc.step] at h
  split at h
  · cases h
    obtain ⟨h1, h2⟩ := cons_setMultiple_activeconc_eq_collector (s.ws i).blk (s.ws i).docs 0 s.sh.pos
    refine ⟨h1, ?_, ?_⟩
    · simp only [SV.ActiveConc.setW, if_true]
      rw [cons_filter_activeconc_eq_collector, h2]
    · simp only [SV.ActiveConc.setW, if_true]
      rw [← h2, List.length_map]
  · cases h

/-! ## `TokenList.Append` and `PutLIDsInQueue` (C17 vs C07) -/

theorem dedupF_mem {α} [DecidableEq α] (l : List α) (x : α) : x ∈ dedupF l ↔ x ∈ l := by
  induction l with
  | nil => simp [dedupF]
  | cons y ys ih =>
    simp only [dedupF, List.mem_cons, List.mem_filter, ih]
    by_cases h : x = y <;> simp [h]

theorem dedupF_of_nodup {α} [DecidableEq α] (l : List α) (h : l.Nodup) : dedupF l = l := by
  induction l with
  | nil => rfl
  | cons y ys ih =>
    have h' := List.nodup_cons.mp h
    simp only [dedupF, ih h'.2]
    congr 1
    apply List.filter_eq_self.mpr
    intro a ha
    have : a ≠ y := fun e => h'.1 (e ▸ ha)
    simpa using this

theorem lookup_isSome_iff_mem_keys (T : List (SV.Collector.Bytes × List Nat)) (t : SV.Collector.Bytes) :
    (T.lookup t).isSome = decide (t ∈ T.map (·.1)) := by
  induction T with
  | nil => rfl
  | cons e T ih =>
    obtain ⟨k, q⟩ := e
    by_cases h : t = k
    · subst h; simp [List.lookup]
    · have hb : (t == k) = false := by simpa using h
      simp [List.lookup, hb, ih, h]

theorem tokenListAppend_keys (T : List (SV.Collector.Bytes × List Nat)) (tvs : List SV.Collector.Bytes) :
    (SV.Collector.tokenListAppend T tvs).map (·.1) = tvs.foldl tvStep (T.map (·.1)) := by
  unfold SV.Collector.tokenListAppend
  induction tvs generalizing T with
  | nil => rfl
  | cons t tvs ih =>
    simp only [List.foldl_cons]
    rw [ih]
    congr 1
    unfold tvStep
    rw [lookup_isSome_iff_mem_keys]
    by_cases h : t ∈ T.map (·.1) <;> simp [h]

/-- Go `TokenList.Append` (`getTokenLIDs`: a fresh `TokenLIDs` for every token not known yet).  `SV.Collector.tokenListAppend`
(C17: token list = association list bytes -> queue) vs C07's `wTokGet` (`created := created ++ toks.filter (!created.contains
·)`).  Representation change: C07's token numbers through an injective encoding, C17's token list read through its keys.
Domain: `toks` duplicate free - it is `bulkToks`, a `dedup` result (`dedupF_of_nodup`). -/
theorem cons_tokenListAppend_activeconc_eq_collector (encB : Nat → SV.Collector.Bytes) (henc : ∀ x y, encB x = encB y → x = y)
    (T : List (SV.Collector.Bytes × List Nat)) (created toks : List Nat) (hT : T.map (·.1) = created.map encB)
    (hnd : toks.Nodup) :
    (SV.Collector.tokenListAppend T (toks.map encB)).map (·.1) =
      (created ++ toks.filter fun t => !created.contains t).map encB := by
  rw [tokenListAppend_keys, foldl_tvStep, hT, List.map_append]
  congr 1
  have hnd' : (toks.map encB).Nodup := by
    clear hT
    induction toks with
    | nil => simp
    | cons x xs ih =>
      have hx := List.nodup_cons.mp hnd
      simp only [List.map_cons, List.nodup_cons, List.mem_map]
      refine ⟨?_, ih hx.2⟩
      rintro ⟨y, hy, e⟩
      exact hx.1 (henc _ _ e ▸ hy)
  rw [dedupF_of_nodup _ hnd', List.filter_map]
  congr 1
  apply List.filter_congr
  intro t _
  simp only [Function.comp, List.mem_map, decide_not]
  congr 1
  rw [Bool.eq_iff_iff]
  simp only [decide_eq_true_eq, List.contains_iff_mem]
  constructor
  · rintro ⟨y, hy, e⟩; exact henc _ _ e ▸ hy
  · intro h; exact ⟨t, h, rfl⟩

example : ([5, 6] : List Nat).Nodup := by decide

/-- Go `TokenLIDs.PutLIDsInQueue` (one call).  `SV.Collector.put1` (C17; `putLIDs` is the fold of it) vs
`SV.ActiveConc.putQueue sh (some t)` (C07).  Representation change: token numbers through an injective encoding; C17's
token list read through `qOf`.  Domain: the token has its `TokenLIDs` entry (`TokenList.Append` ran before - in C17 a
missing entry silently drops the LIDs, in C07 `tok` is a total function). -/
theorem cons_putLIDsInQueue_activeconc_eq_collector (encB : Nat → SV.Collector.Bytes) (henc : ∀ x y, encB x = encB y → x = y)
    (T : List (SV.Collector.Bytes × List Nat)) (sh : SV.ActiveConc.Sh) (t : Nat) (ls : List Nat)
    (hrel : ∀ u, SV.Collector.qOf T (encB u) = sh.tok u) (hkey : (T.lookup (encB t)).isSome) :
    ∀ u, SV.Collector.qOf (SV.Collector.put1 T (encB t, ls)) (encB u) = (SV.ActiveConc.putQueue sh (some t) ls).tok u := by
  intro u
  unfold SV.Collector.qOf
  rw [SV.Collector.lookup_put1]
  simp only [SV.ActiveConc.putQueue]
  have hu := hrel u
  unfold SV.Collector.qOf at hu
  by_cases h : u = t
  · subst h
    cases hl : T.lookup (encB u) with
    | none => rw [hl] at hkey; cases hkey
    | some q => rw [hl] at hu; simp at hu; simp [hu]
  · have hne : ¬ encB u = encB t := fun e => h (henc _ _ e)
    cases hl : T.lookup (encB u) with
    | none => rw [hl] at hu; simp at hu; simp [h, hu]
    | some q => rw [hl] at hu; simp at hu; simp [h, hne, hu]

example : (([([5], [1])] : List (SV.Collector.Bytes × List Nat)).lookup ((fun n => [n]) 5)).isSome := by decide

/- (formerly OPEN) the whole uninterleaved C07 writer run (`wNew .. wStats`) against C17's `indexBulk` is now PROVED in
   Consistency/CollectorRun.lean: `cons_appendWorker_activeconc_run_eq_collector_indexBulk` (state relation `ShRel`: block
   count, positions renamed `(b, k) -> (b, 5 k)`, `a.ids = systemID :: sh.ids.map id` (LID shift by one), `_all_` and token
   queues shifted by one, sentinel range, docsTotal), for every configuration `c`, using the per-step lemmas of this file
   and of Positions.lean. -/

end SV.Consistency
