import SeqVerif.Consistency.Borders
import SeqVerif.Consistency.Nodes
/-!
# Consistency: `IndexSearch` of C03 (index interface of the active / sealed fraction) = `IndexSearch` of C02

Composition of Consistency/Borders.lean (`getLIDsBorders`), Consistency/Nodes.lean (`evalQ` = `evalTree`,
`iterateEvalTree`) with the bridge of Proofs/C03C02.lean (`activeView` / `sealedView`: the C02 index read from the
C03 fraction): on a quiescent active fraction and on the fraction sealed from it, `SV.C03.search` through the index
interface returns exactly what `SV.EvalTree.search` (the definition all C02 theorems are about) returns on the view.
-/
namespace SV.Consistency
open SV

theorem activeView_toks_length (names : List SV.Spec.Bytes) (a : SV.C03.Active) :
    (SV.C03.activeView names a).toks.length = a.fields.flatten.length := by
  have := congrArg List.length (SV.C03.tagFields_snd names a.fields)
  simpa [SV.C03.activeView] using this

/-- `activeTokenIndex.GetLIDsFromTIDs` for one tid = the C02 `narrow` of the view's posting list
(the active twin of `SV.C03.sealedNode_eq_narrow`) -/
theorem activeIndex_node_eq_narrow (names : List SV.Spec.Bytes) (a : SV.C03.Active) (h : SV.C03.Quiescent a)
    (tid : Nat) (h1 : 1 ≤ tid) (h2 : tid ≤ a.fields.flatten.length) (lo hi : Nat) (rev : Bool) :
    (SV.C03.activeIndex a).node tid lo hi rev =
      .ok (SV.EvalTree.narrow rev lo hi (lidsOfTid (SV.C03.activeView names a) tid)) := by
  have hlt : tid - 1 < a.fields.flatten.length := by omega
  have hsnd := SV.C03.tagFields_snd names a.fields
  have hlenT : (SV.C03.tagFields names a.fields).length = a.fields.flatten.length := by rw [← hsnd]; simp
  have hget : (SV.C03.tagFields names a.fields)[tid - 1].2 = a.fields.flatten[tid - 1] := by
    have := congrArg (fun l => l[tid - 1]?) hsnd
    simp only [List.getElem?_map, List.getElem?_eq_getElem (show tid - 1 < (SV.C03.tagFields names a.fields).length by omega),
      List.getElem?_eq_getElem hlt, Option.map_some, Option.some.injEq] at this
    exact this
  have h0 : ¬ tid = 0 := by omega
  simp only [SV.C03.activeIndex, h0, if_false, List.getElem?_eq_getElem hlt]
  have hmem : a.fields.flatten[tid - 1] ∈ a.fields.flatten := List.getElem_mem _
  obtain ⟨fl, hfl, htf⟩ := List.mem_flatten.mp hmem
  rw [SV.C03.activeNode_eq a h _ (h.posts fl hfl _ htf).2]
  simp only [lidsOfTid, SV.C03.activeView, List.getElem?_map,
    List.getElem?_eq_getElem (show tid - 1 < (SV.C03.tagFields names a.fields).length by omega),
    Option.map_some, Option.getD_some, hget, SV.EvalTree.narrow]
  cases rev <;> rfl

/-- **`IndexSearch` on the active fraction: C03 = C02.**  `SV.C03.search (activeIndex a)` (Model/C03Search.lean) on the
converted tree `Q` = `SV.EvalTree.search (activeView names a)` (Model/EvalTree.lean) on the query `q`, with
`withTotal = true`, no histogram, IDs converted with `pairOfSpecId`; every window, order and limit.
Domain: quiescent fraction; `qOfQuery .. q = some Q` (no `.not`, every leaf selects a token - `SV.C03.Q` cannot
express the other trees). -/
theorem cons_nodes_search_c03_active_eq_c02 (names : List SV.Spec.Bytes) (a : SV.C03.Active) (h : SV.C03.Quiescent a)
    (q : SV.Spec.Query) (Q : SV.C03.Q) (hq : qOfQuery (SV.C03.activeView names a) q = some Q)
    (from_ to : Nat) (rev : Bool) (limit : Nat) :
    SV.C03.search (SV.C03.activeIndex a) Q from_ to rev limit 0 =
      .ok { total := (SV.EvalTree.search (SV.C03.activeView names a) q from_ to rev limit true).total,
            ids := (SV.EvalTree.search (SV.C03.activeView names a) q from_ to rev limit true).ids.map pairOfSpecId,
            hist := [] } := by
  have hwf := SV.C03.activeView_wf names a h
  have hb := cons_borders_c03_activeIndex_eq_c02 names a h from_ to
  have hr := SV.Borders.getLIDsBorders_range from_ to (SV.C03.activeView names a).ids
  apply cons_nodes_search_c03_eq_c02 _ _ _ _ _ _ _ _ hb
  · apply cons_nodes_evalQ_eq_evalTree _ _ _ _ _ _ q Q hq
    intro tid h1 h2
    rw [activeView_toks_length] at h2
    exact activeIndex_node_eq_narrow names a h tid h1 h2 _ _ rev
  · intro lid hlid
    have hm := ((SV.EvalTree.evalTree_denotes _ hwf.1 rev _ _ q).2 lid).1 hlid
    have hlen : (SV.C03.activeView names a).ids.length = a.allDocs.length := by simp [SV.C03.activeView]
    have h1 : 1 ≤ lid := by omega
    have h2 : lid ≤ a.allDocs.length := by omega
    obtain ⟨hl, m, r, hget, hmm, hrr⟩ := SV.C03.sealedIDs_get a h lid h1 h2
    have hmr : (m, r) = (a.mids.getD a.allDocs[lid - 1] 0, a.rids.getD a.allDocs[lid - 1] 0) := by
      rw [← hget]
      obtain ⟨k, rfl⟩ : ∃ k, lid = k + 1 := ⟨lid - 1, by omega⟩
      simp [SV.C03.sealedIDs_eq a h]
    have hid : SV.Borders.idAt (SV.C03.activeView names a).ids lid = ⟨m, r⟩ := by
      rw [SV.Borders.idAt_eq _ _ h1 (by omega)]
      simp only [SV.C03.activeView, List.getElem_map]
      simp only [Prod.mk.injEq] at hmr
      rw [hmr.1, hmr.2]
    simp only [SV.C03.idOf, SV.C03.activeIndex, hmm, hrr, hid, pairOfSpecId]

/-- leaves of a converted tree name dictionary tokens (`SV.C03.Q.wf`, the hypothesis of `SV.C03.search_agree`) -/
theorem orTree_wf (n : Nat) (tids : List Nat) (hne : tids ≠ []) (hv : ∀ t, t ∈ tids → 1 ≤ t ∧ t ≤ n) :
    (SV.Agg.treeFold SV.C03.Q.or (SV.C03.Q.leaf 0) (tids.map SV.C03.Q.leaf)).wf n := by
  induction hn : tids.length using Nat.strongRecOn generalizing tids with
  | _ k ih =>
    match tids, hn, hne with
    | [t], _, _ =>
      simp only [List.map_cons, List.map_nil, SV.Agg.treeFold_single, SV.C03.Q.wf]
      exact hv t (by simp)
    | a :: b :: rest, hn, _ =>
      have e1 := SV.Agg.treeFold_split SV.C03.Q.or (SV.C03.Q.leaf 0) ((a :: b :: rest).map SV.C03.Q.leaf) (by simp)
      rw [e1]
      simp only [List.length_map, ← List.map_take, ← List.map_drop, SV.C03.Q.wf]
      have ht : ((a :: b :: rest).take ((a :: b :: rest).length / 2)) ≠ [] := by
        intro e
        have := congrArg List.length e
        simp [List.length_take] at this
        omega
      have hd : ((a :: b :: rest).drop ((a :: b :: rest).length / 2)) ≠ [] := by
        intro e
        have := congrArg List.length e
        simp [List.length_drop] at this
        omega
      exact ⟨ih _ (by simp [List.length_take] at *; omega) _ ht (fun t h => hv t (List.mem_of_mem_take h)) rfl,
        ih _ (by simp [List.length_drop] at *; omega) _ hd (fun t h => hv t (List.mem_of_mem_drop h)) rfl⟩

theorem qOfQuery_wf (idx : SV.EvalTree.Index) (q : SV.Spec.Query) (Q : SV.C03.Q) (hq : qOfQuery idx q = some Q) :
    Q.wf idx.toks.length := by
  induction q generalizing Q with
  | leaf l =>
    simp only [qOfQuery, orTreeQ] at hq
    split at hq
    · exact absurd hq (by simp)
    · rename_i hne
      simp only [Option.some.injEq] at hq
      subst hq
      exact orTree_wf _ _ hne (fun t ht => mem_leafTids idx l t ht)
  | and a b iha ihb =>
    simp only [qOfQuery] at hq
    cases ha : qOfQuery idx a with
    | none => simp [ha] at hq
    | some x =>
      cases hb : qOfQuery idx b with
      | none => simp [ha, hb] at hq
      | some y =>
        simp only [ha, hb, Option.some.injEq] at hq
        subst hq
        exact ⟨iha x ha, ihb y hb⟩
  | or a b iha ihb =>
    simp only [qOfQuery] at hq
    cases ha : qOfQuery idx a with
    | none => simp [ha] at hq
    | some x =>
      cases hb : qOfQuery idx b with
      | none => simp [ha, hb] at hq
      | some y =>
        simp only [ha, hb, Option.some.injEq] at hq
        subst hq
        exact ⟨iha x ha, ihb y hb⟩
  | nand a b iha ihb =>
    simp only [qOfQuery] at hq
    cases ha : qOfQuery idx a with
    | none => simp [ha] at hq
    | some x =>
      cases hb : qOfQuery idx b with
      | none => simp [ha, hb] at hq
      | some y =>
        simp only [ha, hb, Option.some.injEq] at hq
        subst hq
        exact ⟨iha x ha, ihb y hb⟩
  | not a _ => simp [qOfQuery] at hq

/-- **`IndexSearch` on the sealed fraction: C03 = C02** (`SV.C03.search_agree` + `SV.C03.sealedView_eq` + the
active case): the answer computed through the sealed index interface is `SV.EvalTree.search` on the C02 index read
back from the sealed structures. -/
theorem cons_nodes_search_c03_sealed_eq_c02 (names : List SV.Spec.Bytes) (a : SV.C03.Active) (s : SV.C03.Sealed)
    (h : SV.C03.Quiescent a) (hag : SV.C03.IndexAgree a s)
    (q : SV.Spec.Query) (Q : SV.C03.Q) (hq : qOfQuery (SV.C03.sealedView names a s) q = some Q)
    (from_ to : Nat) (rev : Bool) (limit : Nat) :
    SV.C03.search (SV.C03.sealedIndex s) Q from_ to rev limit 0 =
      .ok { total := (SV.EvalTree.search (SV.C03.sealedView names a s) q from_ to rev limit true).total,
            ids := (SV.EvalTree.search (SV.C03.sealedView names a s) q from_ to rev limit true).ids.map pairOfSpecId,
            hist := [] } := by
  rw [SV.C03.sealedView_eq names a s h hag] at hq ⊢
  have hwf := qOfQuery_wf _ q Q hq
  rw [activeView_toks_length] at hwf
  rw [SV.C03.search_agree a s hag Q hwf]
  exact cons_nodes_search_c03_active_eq_c02 names a h q Q hq from_ to rev limit

/-- **C03's `IndexSearch` against the Spec** (C02's `search_eq_spec` composed with the equalities above): what the
index interface of the active fraction answers is `SV.Spec.search` over the documents of the fraction
(`SV.C03.activeDocs`), with C03's `rev` in the Spec's `asc` slot.  Extra side condition inherited from
`getLIDsBorders_exact`: for `from = 0` no stored ID is `{0,0}`. -/
theorem cons_nodes_search_c03_active_eq_spec (names : List SV.Spec.Bytes) (a : SV.C03.Active) (h : SV.C03.Quiescent a)
    (q : SV.Spec.Query) (Q : SV.C03.Q) (hq : qOfQuery (SV.C03.activeView names a) q = some Q)
    (from_ to : Nat) (h0 : 0 < from_ ∨ ∀ id ∈ (SV.C03.activeView names a).ids, id ≠ ⟨0, 0⟩) (rev : Bool) (limit : Nat) :
    SV.C03.search (SV.C03.activeIndex a) Q from_ to rev limit 0 =
      .ok { total := (SV.Spec.search (SV.C03.activeDocs names a) q from_ to rev limit true).total,
            ids := (SV.Spec.search (SV.C03.activeDocs names a) q from_ to rev limit true).ids.map pairOfSpecId,
            hist := [] } := by
  obtain ⟨hwf, hs, hr⟩ := SV.C03.activeView_wf names a h
  rw [cons_nodes_search_c03_active_eq_c02 names a h q Q hq,
    SV.EvalTree.search_eq_spec _ hwf hs hr q from_ to h0 rev limit true, SV.C03.docsOf_activeView names a h]

/-! ## non-vacuity of the hypotheses (`Quiescent`, `qOfQuery .. = some ..`) -/

/-- the example fraction of Props/C03.lean (copied, to keep this module independent of Props/Extracted):
4 documents (LID 0 = system ID), inserted out of ID order, 2 fields -/
def nodesExActive : SV.C03.Active :=
  { mids := [18446744073709551615, 5, 9, 7, 9], rids := [18446744073709551615, 1, 4, 7, 5],
    allDocs := [4, 2, 3, 1],
    fields := [[⟨[97], [4, 2, 3, 1]⟩], [⟨[120], [4, 3]⟩, ⟨[121], [2, 3, 1]⟩]] }

example : SV.C03.Quiescent nodesExActive :=
  ⟨by decide, by decide, by decide, by decide, by decide, by decide, by
    intro fl hfl t ht
    simp only [nodesExActive, List.mem_cons, List.not_mem_nil, or_false] at hfl
    rcases hfl with rfl | rfl
    · simp only [List.mem_cons, List.not_mem_nil, or_false] at ht; subst ht; exact ⟨by decide, by decide⟩
    · simp only [List.mem_cons, List.not_mem_nil, or_false] at ht
      rcases ht with rfl | rfl <;> exact ⟨by decide, by decide⟩⟩

/-- `g:x AND NOT g:y` after `propagateNot` (= NAND(g:y, g:x)) converts to the token-id tree NAND(3, 2) -/
example : qOfQuery (SV.C03.activeView [[102], [103]] nodesExActive)
    (.nand (.leaf (.lit [103] [.text [121]])) (.leaf (.lit [103] [.text [120]]))) = some (.nand (.leaf 3) (.leaf 2)) := by
  simp [qOfQuery, orTreeQ, leafTids, SV.C03.activeView, SV.C03.tagFields, nodesExActive, List.zipIdx,
    SV.Spec.Leaf.field, SV.Spec.Leaf.valMatch, SV.Spec.globMatch, SV.Agg.treeFold_single]

end SV.Consistency
