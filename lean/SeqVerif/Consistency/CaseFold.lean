import SeqVerif.Consistency.Tokenizer
/-!
# Consistency wave 3 (topic 5): case folding - C12 term case rule vs C11 tokenizer lowering

Nothing new in the Lean models since wave 1: commit 34a116a ("C12 case rules") changed only the C12 harness/evidence;
`SV.Parser.lowerIf`, `TB.appendRuneInternal`, `SV.Tok.lowerTok` / `lowerIfCI` are unchanged, and wave 1 already has
`cons_tok_lowerIfCI_eq_lowerIf` (= C11's `token_eq_term`; `c11_lower_inplace_eq_map` is `SV.Tok.lowerTok_eq`),
`cons_tok_appendRuneInternal_eq_lowerIf`, `cons_tok_seqqlText_eq_legacyText`.  Both sides are one function of the
harness-supplied `unicode.ToLower` oracle: the query side reads `Rn.lower` (a code point), the index side
`TRn.lowerBytes` / `lower2Bytes`, tied by `SV.Tok.WF` (`lowerBytes = enc r.lower`).  Added here: the remaining builder pair
(keyword), the `_exists_` rule (case-sensitive whatever the configuration, both parsers, matching the unlowered index
token), and the one place where the two parsers'
case rules DIFFERED (range bounds; legacy side parametrised by `rangeLower`: `false` = the code before fix e282333,
`true` = /repo HEAD, where legacy = SeqQL: `cons_casefold_range_bound_legacy_eq_seqql`).
-/
namespace SV.Consistency
open SV.Parser SV.Tok

/-- the two readings of the case flag: code points unchanged / `unicode.ToLower` per rune -/
theorem cons_casefold_lowerIf_flag (rs : List Rn) :
    lowerIf true rs = rs.map (·.cp) ∧ lowerIf false rs = rs.map (·.lower) := by
  simp [lowerIf]

/-- **keyword terms: SeqQL builder = legacy builder** (Go: `parseSeqQLKeyword(token, caseSensitive)` vs
`keywordTokenBuilder` / `baseTokenBuilder.appendRuneInternal`): same single term, same case rule, for every non-empty
value without wildcard rune.  (Text terms: `cons_tok_seqqlText_eq_legacyText`, wave 1.) -/
theorem cons_casefold_seqqlKeyword_eq_legacyKeyword (cs : Bool) (ws : List Rn) (hne : ws ≠ [])
    (hnw : ∀ r, r ∈ ws → r.cp ≠ wildcardCp) :
    [seqqlKeyword cs ws] = (ws.foldl TB.appendRuneInternal ⟨cs, [], [], []⟩).getTokens := by
  rw [seqqlKeyword_plain cs ws hne hnw, legacy_builder_word cs ws hne]

example : ([⟨[65], 65, true, false, false, 97, false⟩] : List Rn) ≠ [] ∧
    ∀ r, r ∈ ([⟨[65], 65, true, false, false, 97, false⟩] : List Rn) → r.cp ≠ wildcardCp := by decide

/-- **index token = query term, all three tokenizers' lowering vs all query builders' lowering** in one statement: the
bytes `toLowerIfCaseInsensitive` produces for a run of runes are the UTF-8 of the term data both keyword builders and
both text builders produce from the same runes (`lowerIf cs`).  Code as it is (`norm = true`: the case-sensitive branch
normalises invalid UTF-8), so no validity hypothesis. -/
theorem cons_casefold_index_eq_query_all_builders (enc : Nat → List Nat) (cs : Bool) (w : List TRn) (hne : w ≠ [])
    (hwf : ∀ r, r ∈ w → WF enc r) (hnw : ∀ r, r ∈ w → r.r.cp ≠ wildcardCp) :
    seqqlKeyword cs (w.map (·.r)) = [⟨false, lowerIf cs (w.map (·.r))⟩] ∧
    ((w.map (·.r)).foldl TB.appendRuneInternal ⟨cs, [], [], []⟩).getTokens = [[⟨false, lowerIf cs (w.map (·.r))⟩]] ∧
    lowerIfCI cs true w = termBytes enc (lowerIf cs (w.map (·.r))) := by
  refine ⟨seqqlKeyword_plain cs _ (by simpa using hne) ?_, legacy_builder_word cs _ (by simpa using hne),
    token_eq_term enc cs true w hwf (fun _ h => by cases h)⟩
  intro r hr
  obtain ⟨x, hx, rfl⟩ := List.mem_map.mp hr
  exact hnw x hx

/-- **`_exists_` is case sensitive in SeqQL whatever `conf.CaseSensitive` says** (Go: `parseSeqQLFieldFilter`:
`caseSensitive := fieldName == seq.TokenExists || conf.CaseSensitive`... as modelled by `fieldFilter`) -/
theorem cons_casefold_exists_forces_cs_seqql (c : Cfg) (toks : List LTok) (p : List Rn × List LTok)
    (hp : compositeToken toks = .ok p) (hn : nameBytes p.1 = tokenExists) :
    fieldFilter c toks = fieldFilter { c with cs := true } toks := by
  simp [fieldFilter, hp, PRes.bind, hn]

/-- the same rule in the legacy parser (`parseLiteral`) -/
theorem cons_casefold_exists_forces_cs_legacy (dp rl cs : Bool) (t : FT) (rs : List Rn) :
    legacyLiteral dp rl cs tokenExists t rs = legacyLiteral dp rl true tokenExists t rs := by
  cases rs with
  | nil => rfl
  | cons r rest => simp [legacyLiteral]

/-- ... and the index side writes the `_exists_` token value (the field title) without lowering, in every configuration:
the last token `index` emits for a type with a tokenizer is `(_exists_, title)` whatever `TokCfg` (`cs`, limits) is -/
theorem cons_casefold_exists_token_unlowered (c : TokCfg) (t : MType) (key : List Nat) (v : Option (List TRn))
    (ho : t.tt ≠ .other) :
    (indexField c [t] key v).getLast? = some (tokenExists, if t.title.isEmpty then key else t.title) := by
  simp [indexField, ho]

/-- hence an `_exists_` filter parses to the same tree under every `conf.CaseSensitive` (and every `rangeLower`) -/
theorem cons_casefold_exists_independent_of_cfg (dp cs rl : Bool) (m : Option (List (List Nat × FT))) (toks : List LTok)
    (p : List Rn × List LTok) (hp : compositeToken toks = .ok p) (hn : nameBytes p.1 = tokenExists) (cs' : Bool) :
    fieldFilter ⟨dp, cs, m, rl⟩ toks = fieldFilter ⟨dp, cs', m, rl⟩ toks := by
  rw [cons_casefold_exists_forces_cs_seqql ⟨dp, cs, m, rl⟩ toks p hp hn, cons_casefold_exists_forces_cs_seqql ⟨dp, cs', m, rl⟩ toks p hp hn]

/-- **range bounds: legacy vs SeqQL.**  A range bound `A` under case-insensitive configuration is lowered by SeqQL
(`parseRangeTerm` -> `parseSeqQLKeyword(value, sensitive)`, parser/token_range.go:90).  The legacy parser's
`singleTermBuilder` is modelled with the flag `Cfg.rangeLower` / `rl` (Model/LegacyParser.lean: `legacyLiteral` hands
`legacyRange` the flag `if rl then cs else true`):
* `rl = true` = /repo HEAD since fix e282333: `singleTermBuilder{caseSensitive: caseSensitive}` (parser/token_parser.go:149)
  and `appendRune` applies `unicode.ToLower` unless `caseSensitive` (parser/term_builder.go:136-152) - the bound is lowered
  like a literal and the legacy parser agrees with SeqQL (third part; general statement:
  `cons_casefold_range_bound_legacy_eq_seqql`);
* `rl = false` = HISTORICAL, the code before e282333 (`singleTermBuilder{}` never lowered): the bound stayed `A` although
  index tokens are lowered (second part) - the difference this layer reported in wave 3.
Both parsers are different Go functions; this was never a model-vs-model disagreement. -/
theorem cons_casefold_range_bound_seqql_ne_legacy_witness :
    let A : Rn := ⟨[65], 65, true, false, false, 97, false⟩
    let sp : Rn := ⟨[32], 32, false, false, false, 32, true⟩
    rangeTerm false [⟨[A], false, false, .none⟩] = .ok (⟨false, [97]⟩, []) ∧
    legacyRangeTerm (if false then false else true) [A, sp] = .ok (⟨false, [65]⟩, []) ∧
    legacyRangeTerm (if true then false else true) [A, sp] = .ok (⟨false, [97]⟩, []) := by decide

/-- the flag handed to the legacy range parser: with `rl = true` (HEAD, fix e282333) it is the literal's own case flag
(`conf.CaseSensitive`, forced `true` for `_exists_`); with `rl = false` (before the fix) it was `true` whatever the
configuration - read off `legacyLiteral` on a range literal -/
theorem cons_casefold_legacy_range_flag (dp rl cs : Bool) (field : List Nat) (t : FT) (r : Rn) (rest : List Rn)
    (hr : r.cp = 91 ∨ r.cp = 123) :
    legacyLiteral dp rl cs field t (r :: rest) =
      (legacyRange field (if rl then (if field = tokenExists then true else cs) else true) (r :: rest)).bind
        fun p => .ok ([p.1], p.2) := by
  simp [legacyLiteral, hr]

/-- a plain bound rune: what neither parser treats specially -/
abbrev casefoldPlain (r : Rn) : Prop := r.cp ≠ 42 ∧ r.cp ≠ 92 ∧ r.space = false ∧ isSpecial r = false ∧ r.cp ≠ wildcardCp

theorem casefold_parseTerms_single (cs : Bool) (ws : List Rn) (hw : ∀ r, r ∈ ws → casefoldPlain r) (d : List Nat)
    (tb : TB) (htb : tb.cs = cs) (rest : List Rn)
    (hrest : rest = [] ∨ ∃ r0 rs, rest = r0 :: rs ∧ r0.cp ≠ 42 ∧ r0.cp ≠ 92 ∧ (r0.space || isSpecial r0) = true) :
    parseTerms ⟨.single, tb, false, d⟩ (ws ++ rest) = .ok (⟨.single, tb, false, d ++ lowerIf cs ws⟩, skipSpaces rest) := by
  induction ws generalizing d with
  | nil =>
    rcases hrest with rfl | ⟨r0, rs, rfl, h1, h2, h3⟩
    · simp [parseTerms, lowerIf]
    · rw [List.nil_append, parseTerms.eq_def]
      simp [h1, h2, h3, lowerIf]
  | cons r ws ih =>
    obtain ⟨h1, h2, h3, h4, _⟩ := hw r (by simp)
    rw [List.cons_append, parseTerms.eq_def]
    simp only [h1, h2, h3, h4, if_false, Bool.or_self, Bool.false_eq_true]
    simp only [BSt.appendRune, Bool.false_eq_true, if_false, htb]
    rw [ih (fun x hx => hw x (by simp [hx]))]
    simp [lowerIf, List.append_assoc]

/-- **at HEAD the legacy range bound = the SeqQL range bound, for every configuration** (`cs` = the case flag both
parsers hand to their range-term reader; at HEAD `rl = true`, so both get `conf.CaseSensitive`, or `true` for
`_exists_`).  For a bound written as a non-empty run `ws` of plain runes (no `*`, `\`, space, special symbol, wildcard),
ended by the end of input or by a space / special symbol on the legacy side and delivered as one unquoted composite token
on the SeqQL side: both readers return the text term `lowerIf cs ws`.
Go: `tokenParser.parseRangeTerm` (+ `singleTermBuilder`) vs `parseRangeTerm` of parser/token_range.go. -/
theorem cons_casefold_range_bound_legacy_eq_seqql (cs : Bool) (ws : List Rn) (hne : ws ≠ [])
    (hw : ∀ r, r ∈ ws → casefoldPlain r) (rest : List Rn)
    (hrest : rest = [] ∨ ∃ r0 rs, rest = r0 :: rs ∧ r0.cp ≠ 42 ∧ r0.cp ≠ 92 ∧ (r0.space || isSpecial r0) = true)
    (t : LTok) (ht : t.rs = ws) (hk : t.kw ≠ .empty) (hc : isComposite t = true) :
    legacyRangeTerm cs (ws ++ rest) = .ok (⟨false, lowerIf cs ws⟩, skipSpaces rest) ∧
    rangeTerm cs [t] = .ok (⟨false, lowerIf cs ws⟩, []) := by
  constructor
  · obtain ⟨r, ws', rfl⟩ := List.exists_cons_of_ne_nil hne
    have hr := hw r (by simp)
    have hq : startsWithQuote (r :: ws' ++ rest) = false := by
      have : r.cp ≠ 34 := by
        intro h34
        have := hr.2.2.2.1
        simp [isSpecial, h34] at this
      simp [startsWithQuote, this]
    unfold legacyRangeTerm
    simp only [hq, Bool.false_eq_true, if_false]
    have := casefold_parseTerms_single cs (r :: ws') hw [] ⟨cs, [], [], []⟩ rfl rest hrest
    rw [show newBuilder .single cs = ⟨.single, ⟨cs, [], [], []⟩, false, []⟩ from rfl, this]
    simp [PRes.bind, BSt.getTerm, lowerIf]
  · have hcomp : compositeToken [t] = .ok (ws, []) := by
      simp [compositeToken, hk, hc, joinComposite, ht]
    have hkw := seqqlKeyword_plain cs ws hne (fun r hr => (hw r hr).2.2.2.2)
    simp [rangeTerm, hcomp, PRes.bind, hkw]

/-- non-vacuity: the bound `Ab` followed by a space / as the token `Ab` -/
example : let A : Rn := ⟨[65], 65, true, false, false, 97, false⟩
    let b : Rn := ⟨[98], 98, true, false, false, 98, false⟩
    (∀ r, r ∈ [A, b] → casefoldPlain r) ∧ isComposite ⟨[A, b], false, false, .none⟩ = true := by
  refine ⟨?_, by decide⟩
  intro r hr
  simp only [List.mem_cons, List.not_mem_nil, or_false] at hr
  rcases hr with rfl | rfl <;> decide

end SV.Consistency
