import SeqVerif.Consistency.Tokenizer
/-!
# Consistency wave 3 (topic 5): case folding - C12 term case rule vs C11 tokenizer lowering

Nothing new in the Lean models since wave 1: commit 34a116a ("C12 case rules") changed only the C12 harness/evidence;
`SV.Parser.lowerIf`, `TB.appendRuneInternal`, `SV.Tok.lowerTok` / `lowerIfCI` are unchanged, and wave 1 already has
`cons_tok_lowerIfCI_eq_lowerIf` (= C11's `token_eq_term`; `c11_lower_inplace_eq_map` is `SV.Tok.lowerTok_eq`),
`cons_tok_appendRuneInternal_eq_lowerIf`, `cons_tok_seqqlText_eq_legacyText`.  Both sides are one function of the
harness-supplied `unicode.ToLower` oracle: the query side reads `Rn.lower` (a code point), the index side
`TRn.lowerBytes` / `lower2Bytes`, tied by `SV.Tok.WF` (`lowerBytes = enc r.lower`).  Added here: the remaining builder pair
(keyword), the `_exists_` rule (case-sensitive whatever the configuration, both parsers, matching the unlowered index
token), and the one place where the two parsers'
case rules differ (range bounds; legacy side now parametrised by `rangeLower`: HEAD = false, proposed repair = true).
-/
namespace SV.Consistency
open SV.Parser SV.Tok

/-- the two readings of the case flag: code points unchanged / `unicode.ToLower` per rune -/
theorem cons_casefold_lowerIf_flag (rs : List Rn) :
    lowerIf true rs = rs.map (·.cp) ∧ lowerIf false rs = rs.map (·.lower) := by
  simp [lowerIf]

/-- **keyword terms: SeqQL builder = legacy builder** (Go: `parseSeqQLKeyword(token, caseSensitive)` vs
`keywordTokenBuilder` / `baseTokenBuilder.appendRuneInternal`): same single term, same case rule, for every non-empty
value without wildcard rune.  (Text terms: `cons_tok_seqqlText_eq_legacyText`, wave 1.) -/
theorem cons_casefold_seqqlKeyword_eq_legacyKeyword (cs : Bool) (ws : List Rn) (hne : ws ≠ [])
    (hnw : ∀ r, r ∈ ws → r.cp ≠ wildcardCp) :
    [seqqlKeyword cs ws] = (ws.foldl TB.appendRuneInternal ⟨cs, [], [], []⟩).getTokens := by
  rw [seqqlKeyword_plain cs ws hne hnw, legacy_builder_word cs ws hne]

example : ([⟨[65], 65, true, false, false, 97, false⟩] : List Rn) ≠ [] ∧
    ∀ r, r ∈ ([⟨[65], 65, true, false, false, 97, false⟩] : List Rn) → r.cp ≠ wildcardCp := by decide

/-- **index token = query term, all three tokenizers' lowering vs all query builders' lowering** in one statement: the
bytes `toLowerIfCaseInsensitive` produces for a run of runes are the UTF-8 of the term data both keyword builders and
both text builders produce from the same runes (`lowerIf cs`).  Code as it is (`norm = true`: the case-sensitive branch
normalises invalid UTF-8), so no validity hypothesis. -/
theorem cons_casefold_index_eq_query_all_builders (enc : Nat → List Nat) (cs : Bool) (w : List TRn) (hne : w ≠ [])
    (hwf : ∀ r, r ∈ w → WF enc r) (hnw : ∀ r, r ∈ w → r.r.cp ≠ wildcardCp) :
    seqqlKeyword cs (w.map (·.r)) = [⟨false, lowerIf cs (w.map (·.r))⟩] ∧
    ((w.map (·.r)).foldl TB.appendRuneInternal ⟨cs, [], [], []⟩).getTokens = [[⟨false, lowerIf cs (w.map (·.r))⟩]] ∧
    lowerIfCI cs true w = termBytes enc (lowerIf cs (w.map (·.r))) := by
  refine ⟨seqqlKeyword_plain cs _ (by simpa using hne) ?_, legacy_builder_word cs _ (by simpa using hne),
    token_eq_term enc cs true w hwf (fun _ h => by cases h)⟩
  intro r hr
  obtain ⟨x, hx, rfl⟩ := List.mem_map.mp hr
  exact hnw x hx

/-- **`_exists_` is case sensitive in SeqQL whatever `conf.CaseSensitive` says** (Go: `parseSeqQLFieldFilter`:
`caseSensitive := fieldName == seq.TokenExists || conf.CaseSensitive`... as modelled by `fieldFilter`) -/
theorem cons_casefold_exists_forces_cs_seqql (c : Cfg) (toks : List LTok) (p : List Rn × List LTok)
    (hp : compositeToken toks = .ok p) (hn : nameBytes p.1 = tokenExists) :
    fieldFilter c toks = fieldFilter { c with cs := true } toks := by
  simp [fieldFilter, hp, PRes.bind, hn]

/-- the same rule in the legacy parser (`parseLiteral`) -/
theorem cons_casefold_exists_forces_cs_legacy (dp rl cs : Bool) (t : FT) (rs : List Rn) :
    legacyLiteral dp rl cs tokenExists t rs = legacyLiteral dp rl true tokenExists t rs := by
  cases rs with
  | nil => rfl
  | cons r rest => simp [legacyLiteral]

/-- ... and the index side writes the `_exists_` token value (the field title) without lowering, in every configuration:
the last token `index` emits for a type with a tokenizer is `(_exists_, title)` whatever `TokCfg` (`cs`, limits) is -/
theorem cons_casefold_exists_token_unlowered (c : TokCfg) (t : MType) (key : List Nat) (v : Option (List TRn))
    (ho : t.tt ≠ .other) :
    (indexField c [t] key v).getLast? = some (tokenExists, if t.title.isEmpty then key else t.title) := by
  simp [indexField, ho]

/-- hence an `_exists_` filter parses to the same tree under every `conf.CaseSensitive` (and every `rangeLower`) -/
theorem cons_casefold_exists_independent_of_cfg (dp cs rl : Bool) (m : Option (List (List Nat × FT))) (toks : List LTok)
    (p : List Rn × List LTok) (hp : compositeToken toks = .ok p) (hn : nameBytes p.1 = tokenExists) (cs' : Bool) :
    fieldFilter ⟨dp, cs, m, rl⟩ toks = fieldFilter ⟨dp, cs', m, rl⟩ toks := by
  rw [cons_casefold_exists_forces_cs_seqql ⟨dp, cs, m, rl⟩ toks p hp hn, cons_casefold_exists_forces_cs_seqql ⟨dp, cs', m, rl⟩ toks p hp hn]

/-- **where the two parsers' case rules differ**: a range bound `A` under case-insensitive configuration is lowered by
SeqQL (`parseRangeTerm` -> `parseSeqQLKeyword(value, sensitive)`, parser/token_range.go:90).  The legacy parser's
`singleTermBuilder` is modelled with the flag `Cfg.rangeLower` / `rl` (Model/LegacyParser.lean: `legacyLiteral` hands
`legacyRange` the flag `if rl then cs else true`):
* `rl = false` = /repo HEAD (731ccad): `singleTermBuilder{}` has no case flag and `appendRune` never lowers
  (parser/term_builder.go:136-147, parser/token_parser.go:149) - the bound stays `A`, although index tokens are lowered;
* `rl = true` = the proposed repair (/verif/fixes/C12-legacy-range-bounds-case.patch, not applied to /repo): the bound is
  lowered like a literal, and the legacy parser then agrees with SeqQL.
Both parsers are different Go functions; this was never a model-vs-model disagreement. -/
theorem cons_casefold_range_bound_seqql_ne_legacy_witness :
    let A : Rn := ⟨[65], 65, true, false, false, 97, false⟩
    let sp : Rn := ⟨[32], 32, false, false, false, 32, true⟩
    rangeTerm false [⟨[A], false, false, .none⟩] = .ok (⟨false, [97]⟩, []) ∧
    legacyRangeTerm (if false then false else true) [A, sp] = .ok (⟨false, [65]⟩, []) ∧
    legacyRangeTerm (if true then false else true) [A, sp] = .ok (⟨false, [97]⟩, []) := by decide

/-- the flag handed to the legacy range parser: with `rl = false` (HEAD) it is `true` whatever the configuration, with
`rl = true` it is the literal's own case flag (`conf.CaseSensitive`, forced `true` for `_exists_`) - read off
`legacyLiteral` on a range literal -/
theorem cons_casefold_legacy_range_flag (dp rl cs : Bool) (field : List Nat) (t : FT) (r : Rn) (rest : List Rn)
    (hr : r.cp = 91 ∨ r.cp = 123) :
    legacyLiteral dp rl cs field t (r :: rest) =
      (legacyRange field (if rl then (if field = tokenExists then true else cs) else true) (r :: rest)).bind
        fun p => .ok ([p.1], p.2) := by
  simp [legacyLiteral, hr]

end SV.Consistency
