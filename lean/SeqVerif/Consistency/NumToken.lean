import SeqVerif.Model.AggNum
import SeqVerif.Model.Async
import SeqVerif.Consistency.DigitsVal
import Std.Data.String.ToInt
/-!
# Consistency wave 3 (topic 6): the numeric value of a token - FOUR readers

* C06 `SV.Agg.parseNumSpec` / `tokenInt` (Model/AggNum.lean): the grammar of `strconv.ParseFloat` with exact rational value;
* C13 `SV.Pattern.digitsNat` (Model/PatternDigits.lean): unsigned all-digit strings;
* Spec `SV.Spec.digitsVal` / `numVal` (Spec/Store.lean): `-?[0-9]+`;
* C19 `SV.Async.parseInt` (Model/Async.lean) = `String.toInt?`, stand-in for `strconv.Atoi` on keys rendered by `renderInt`.
Representation: bytes `List Nat` (C13, Spec, C19) are read as characters by `Char.ofNat` (C06 works on `List Char` / `String`).
`digitsNat = digitsVal` and `numVal` vs `digitsNat` are in DigitsVal.lean (wave 2).  This file closes the wave-1/2 OPEN item
`Async.parseInt` vs `digitsNat` (Std's `String.toNat?` / `toInt?` lemmas) and adds C06.

Result: on `[0-9]+` all four agree (C06 needs the value below the float64 overflow bound: a 400-digit token is not a number for
`ParseFloat`); on `-[0-9]+` C06, Spec and C19 agree (`digitsNat` is unsigned by design).  They differ, by class:
| class       | C06 parseNumSpec | Spec numVal | C19 parseInt | Go ParseFloat | Go Atoi | reachable |
| `+5`        | 5                | none        | none         | 5             | 5       | C06/C13: yes (tokens are user data); C19: no (Itoa never writes `+`) |
| `1_0`       | 10               | none        | 10           | 10            | error   | C06/C13: yes; C19: no |
| `1e3`,`0x1p4`, `1.5` | value   | none        | none         | value         | error   | C06/C13: yes; C19: no |
| `007`       | 7                | 7           | 7            | 7             | 7       | all |
| empty       | none             | none        | none         | error         | error   | all |
(Go columns: observed with go1.24 `strconv` in a scratch copy.)  So: C06 = ParseFloat on every class (by construction);
`numVal` is the deliberately smaller fragment (C02/C13 state their theorems for the oracle-parametric `valMatchWith`);
`parseInt` differs from `Atoi` on `+5` and `1_0`, both unreachable for C19 because it only parses what `renderInt` wrote
(`cons_numtok_parseInt_renderInt`).
-/
namespace SV.Consistency
open SV

/-! ## characters of digit bytes -/

theorem numtok_char_toNat (d : Nat) (h : 48 ≤ d ∧ d ≤ 57) : (Char.ofNat d).toNat = d := by
  have : d.isValidChar := by left; omega
  simp [Char.ofNat, this, Char.ofNatAux, Char.toNat]

theorem numtok_isDigit (d : Nat) (h : 48 ≤ d ∧ d ≤ 57) : (Char.ofNat d).isDigit = true := by
  have ht := numtok_char_toNat d h
  unfold Char.toNat at ht
  simp only [Char.isDigit, Bool.and_eq_true, decide_eq_true_eq, UInt32.le_iff_toNat_le, ht]
  exact ⟨h.1, h.2⟩

abbrev numtokIsDig (c : Char) : Prop := '0' ≤ c ∧ c ≤ '9'

theorem numtok_isDig_ofNat (d : Nat) (h : 48 ≤ d ∧ d ≤ 57) : numtokIsDig (Char.ofNat d) := by
  have ht := numtok_char_toNat d h
  unfold Char.toNat at ht
  simp only [numtokIsDig, Char.le_def, UInt32.le_iff_toNat_le, ht]
  exact ⟨h.1, h.2⟩

/-- the common value: the fold all readers compute, over characters -/
def numtokFold (cs : List Char) (init : Nat) : Nat := cs.foldl (fun a c => a * 10 + (c.toNat - 48)) init

theorem numtok_fold_eq_digitsStep (ds : List Nat) (h : ∀ d, d ∈ ds → 48 ≤ d ∧ d ≤ 57) (init : Nat) :
    numtokFold (ds.map Char.ofNat) init = (ds.foldl digitsStep (some init)).getD 0 := by
  induction ds generalizing init with
  | nil => simp [numtokFold]
  | cons d ds ih =>
    have hd := h d (by simp)
    have ih' := ih (fun x hx => h x (by simp [hx]))
    unfold numtokFold at ih' ⊢
    rw [List.map_cons, List.foldl_cons, ih', List.foldl_cons]
    simp [digitsStep, hd, numtok_char_toNat d hd]

theorem numtok_fold_of_digitsNat (ds : List Nat) (a : Nat) (h : Pattern.digitsNat ds = some a) :
    numtokFold (ds.map Char.ofNat) 0 = a := by
  obtain ⟨hne, hall⟩ := digits_digitsNat_some ds a h
  rw [numtok_fold_eq_digitsStep ds hall 0]
  cases ds with
  | nil => exact absurd rfl hne
  | cons x xs =>
    have : (x :: xs).foldl digitsStep (some 0) = some a := h
    rw [this]; rfl

/-! ## C19 `parseInt` (= `String.toInt?`) -/

theorem numtok_ofDigitChars (cs : List Char) (init : Nat) : Nat.ofDigitChars 10 cs init = numtokFold cs init := by
  induction cs generalizing init with
  | nil => simp [Nat.ofDigitChars, numtokFold]
  | cons c cs ih =>
    rw [Nat.ofDigitChars_cons, ih]
    simp [numtokFold, Nat.mul_comm]

theorem numtok_toNat_digits (ds : List Nat) (a : Nat) (h : Pattern.digitsNat ds = some a) :
    (String.ofList (ds.map Char.ofNat)).toNat? = some a := by
  obtain ⟨hne, hall⟩ := digits_digitsNat_some ds a h
  have hnat : (String.ofList (ds.map Char.ofNat)).isNat = true := by
    apply String.isNat_of_isDigit
    · intro he
      have := congrArg String.toList he
      simp at this
      exact hne this
    · intro c hc
      rw [String.toList_ofList] at hc
      obtain ⟨d, hd, rfl⟩ := List.mem_map.mp hc
      exact numtok_isDigit d (hall d hd)
  rw [String.toNat?_eq_some_ofDigitChars hnat, String.toList_ofList, List.filter_eq_self.mpr]
  · rw [numtok_ofDigitChars, numtok_fold_of_digitsNat ds a h]
  · intro c hc
    obtain ⟨d, hd, rfl⟩ := List.mem_map.mp hc
    have := numtok_char_toNat d (hall d hd)
    have h2 := hall d hd
    simp only [bne_iff_ne, ne_eq]
    intro he
    rw [he] at this
    simp at this
    omega

/-- **C19 = C13 on digit strings** (closes the OPEN item of NumVal.lean / DigitsVal.lean).  Go: `strconv.Atoi` on `[0-9]+`.
Lean: `SV.Async.parseInt` (`String.toInt?`) vs `SV.Pattern.digitsNat`; any length, leading zeros allowed. -/
theorem cons_numtok_parseInt_eq_digitsNat (ds : List Nat) (a : Nat) (h : Pattern.digitsNat ds = some a) :
    Async.parseInt ds = some (a : Int) :=
  String.toInt?_eq_some_of_toNat?_eq_some (numtok_toNat_digits ds a h)

theorem numtok_ofList_minus (cs : List Char) : String.ofList ('-' :: cs) = "-" ++ String.ofList cs := by
  apply String.toList_injective
  simp

/-- the sign: `parseInt` of `-` followed by a digit string is minus its `digitsNat` -/
theorem cons_numtok_parseInt_neg (ds : List Nat) (a : Nat) (h : Pattern.digitsNat ds = some a) :
    Async.parseInt (45 :: ds) = some (-(a : Int)) := by
  unfold Async.parseInt
  rw [List.map_cons, show Char.ofNat 45 = '-' from rfl, numtok_ofList_minus, String.toInt?_minus_append,
    numtok_toNat_digits ds a h]
  rfl

/-- **C19 extends the Spec reading**: wherever `Spec.numVal` (`-?[0-9]+`) gives a value, `parseInt` gives the same -/
theorem cons_numtok_numVal_imp_parseInt (s : List Nat) (x : Int) (h : Spec.numVal s = some x) : Async.parseInt s = some x := by
  cases s with
  | nil => simp [Spec.numVal, Spec.digitsVal] at h
  | cons c cs =>
    by_cases hc : c = 45
    · subst hc
      rw [(cons_digits_numVal_sign cs).1] at h
      cases hd : Pattern.digitsNat cs with
      | none => rw [hd] at h; simp at h
      | some a =>
        rw [hd] at h
        simp only [Option.map_some, Option.some.injEq] at h
        rw [← h]
        exact cons_numtok_parseInt_neg cs a hd
    · rw [(cons_digits_numVal_sign []).2 (c :: cs) (by simpa using hc)] at h
      cases hd : Pattern.digitsNat (c :: cs) with
      | none => rw [hd] at h; simp at h
      | some a =>
        rw [hd] at h
        simp only [Option.map_some, Option.some.injEq] at h
        rw [← h]
        exact cons_numtok_parseInt_eq_digitsNat (c :: cs) a hd

/-- **reachability for C19**: the parser is only applied to keys the renderer wrote, and on those it is exact.
Go: `strconv.Atoi(strconv.Itoa(i)) = i`.  Lean: `SV.Async.parseInt (SV.Async.renderInt i) = some i` for every `i`. -/
theorem cons_numtok_parseInt_renderInt (i : Int) : Async.parseInt (Async.renderInt i) = some i := by
  unfold Async.parseInt Async.renderInt
  rw [List.map_map]
  have : (Char.ofNat ∘ Char.toNat) = id := by funext c; simp
  rw [this, List.map_id, String.ofList_toList]
  exact Int.toInt?_repr i

/-- class `+5`: a leading plus is no number for `parseInt` (and none for `numVal`); `strconv.Atoi("+5") = 5` in Go.
Unreachable for C19 (`cons_numtok_parseInt_renderInt`). -/
theorem cons_numtok_parseInt_plus_none (cs : List Nat) : Async.parseInt (43 :: cs) = none ∧ Spec.numVal [43, 53] = none := by
  refine ⟨?_, by decide⟩
  unfold Async.parseInt
  rw [List.map_cons, show Char.ofNat 43 = '+' from rfl, String.toInt?_eq_none_iff]
  cases h : (String.ofList ('+' :: cs.map Char.ofNat)).isInt with
  | false => rfl
  | true =>
    rw [String.isInt_iff] at h
    rcases h with h | ⟨t, ht, _⟩
    · rw [String.isNat_iff] at h
      have := h.2.1 '+' (by simp)
      simp [Char.isDigit] at this
    · have := congrArg String.toList ht
      simp at this

theorem numtok_ofList_underscore (a b : List Char) :
    String.ofList (a ++ '_' :: b) = String.ofList a ++ "_" ++ String.ofList b := by
  apply String.toList_injective
  simp

/-- class `1_0` (FINDING about the C19 stand-in, unreachable): `String.toInt?` skips single underscores between digits,
`strconv.Atoi("1_0")` is an error in Go; `numVal` rejects it, C06 (= `ParseFloat`) reads 10. -/
theorem cons_numtok_parseInt_ne_numVal_underscore_witness :
    Async.parseInt [49, 95, 48] = some 10 ∧ Spec.numVal [49, 95, 48] = none ∧
    Agg.parseNumSpec ['1', '_', '0'] = some (10, 1) := by
  refine ⟨?_, by decide, by decide⟩
  unfold Async.parseInt
  have h1 := numtok_toNat_digits [49] 1 (by decide)
  have h0 := numtok_toNat_digits [48] 0 (by decide)
  have := String.toNat?_append_underscore_append_eq_some h1 h0
  rw [show String.ofList ([49, 95, 48].map Char.ofNat)
      = String.ofList ([49].map Char.ofNat) ++ "_" ++ String.ofList ([48].map Char.ofNat) from
    numtok_ofList_underscore [Char.ofNat 49] [Char.ofNat 48]]
  rw [String.toInt?_eq_some_of_toNat?_eq_some this]
  simp

/-! ## C06 `parseNumSpec` / `tokenInt` -/

theorem numtok_digitVal (c : Char) (h : numtokIsDig c) : Agg.digitVal false c = some (c.toNat - 48) := by
  simp [Agg.digitVal, h.1, h.2]

theorem numtok_readDigits (cs : List Char) (h : ∀ c, c ∈ cs → numtokIsDig c) (acc n : Nat) :
    Agg.readDigits false cs acc n = (numtokFold cs acc, n + cs.length, []) := by
  induction cs generalizing acc n with
  | nil => simp [Agg.readDigits, numtokFold]
  | cons c cs ih =>
    have hc := h c (by simp)
    have hne : c ≠ '_' := by
      intro he; rw [he] at hc; exact absurd hc (by decide)
    rw [Agg.readDigits]
    simp only [hne, if_false, numtok_digitVal c hc]
    rw [ih (fun x hx => h x (by simp [hx]))]
    simp [numtokFold, Nat.add_assoc, Nat.add_comm 1]

/-- `parseNumSpec` on an optional sign followed by digits only (value below the float64 overflow bound) -/
theorem numtok_parseNumSpec (s : List Char) (neg : Bool) (c : Char) (cs : List Char)
    (hs : Agg.readSign s = (neg, c :: cs)) (hus : s.contains '_' = false)
    (h : ∀ x, x ∈ c :: cs → numtokIsDig x) (hb : numtokFold (c :: cs) 0 < Agg.overflowBound) :
    Agg.parseNumSpec s = some (if neg then -((numtokFold (c :: cs) 0 : Nat) : Int) else ((numtokFold (c :: cs) 0 : Nat) : Int), 1) := by
  have h2 : Agg.parseNumSpec.match_3 (fun _ => Bool × List Char) (c :: cs) (fun r => (true, r)) (fun r => (true, r))
      (fun r => (false, r)) = (false, c :: cs) := by
    split
    · rename_i r heq
      have := h 'x' (by rw [heq]; simp)
      exact absurd this (by decide)
    · rename_i r heq
      have := h 'X' (by rw [heq]; simp)
      exact absurd this (by decide)
    · rfl
  have h3 := numtok_readDigits (c :: cs) h 0 0
  unfold Agg.parseNumSpec
  simp only [hs, h2, h3]
  generalize numtokFold (c :: cs) 0 = F at hb ⊢
  simp
  refine ⟨fun hm => ?_, hb⟩
  have hc : s.contains '_' = true := by simpa using hm
  rw [hus] at hc
  cases hc

/-- **C06 = C13 on digit strings**.  Go: `parseNum` = `strconv.ParseFloat` on `[0-9]+`.  Lean: `SV.Agg.parseNumSpec`
(exact value `a/1`) vs `SV.Pattern.digitsNat`.  Domain: `a` below `Agg.overflowBound` (≈1.8e308; a longer digit string is
`±Inf`/`ErrRange` for ParseFloat and not a number for `parseNum` - while `digitsNat` / `numVal` / `parseInt` are unbounded). -/
theorem cons_numtok_parseNumSpec_eq_digitsNat (ds : List Nat) (a : Nat) (h : Pattern.digitsNat ds = some a)
    (hb : a < Agg.overflowBound) : Agg.parseNumSpec (ds.map Char.ofNat) = some ((a : Int), 1) := by
  obtain ⟨hne, hall⟩ := digits_digitsNat_some ds a h
  have hf := numtok_fold_of_digitsNat ds a h
  cases ds with
  | nil => exact absurd rfl hne
  | cons d ds =>
    have hdig : ∀ x, x ∈ Char.ofNat d :: ds.map Char.ofNat → numtokIsDig x := by
      intro x hx
      rw [← List.map_cons] at hx
      obtain ⟨y, hy, rfl⟩ := List.mem_map.mp hx
      exact numtok_isDig_ofNat y (hall y hy)
    have hsign : Agg.readSign (Char.ofNat d :: ds.map Char.ofNat) = (false, Char.ofNat d :: ds.map Char.ofNat) := by
      have hc := hdig (Char.ofNat d) (by simp)
      unfold Agg.readSign
      split
      · rename_i heq; rw [(List.cons.inj heq).1] at hc; exact absurd hc (by decide)
      · rename_i heq; rw [(List.cons.inj heq).1] at hc; exact absurd hc (by decide)
      · rfl
    have hus : (Char.ofNat d :: ds.map Char.ofNat).contains '_' = false := by
      cases hcon : (Char.ofNat d :: ds.map Char.ofNat).contains '_' with
      | false => rfl
      | true =>
        have hm : '_' ∈ Char.ofNat d :: ds.map Char.ofNat := by simpa using hcon
        exact absurd (hdig '_' hm) (by decide)
    rw [List.map_cons] at hf ⊢
    have := numtok_parseNumSpec _ false _ _ hsign hus hdig (by rw [hf]; exact hb)
    rw [this, hf]; rfl

/-- the same for the string-level `tokenInt` (the `fval` of the exact-arithmetic aggregators): all four readers give `a` -/
theorem cons_numtok_four_readers_agree (ds : List Nat) (a : Nat) (h : Pattern.digitsNat ds = some a)
    (hb : a < Agg.overflowBound) :
    Agg.tokenInt (String.ofList (ds.map Char.ofNat)) = some (a : Int) ∧ Spec.numVal ds = some (a : Int) ∧
    Async.parseInt ds = some (a : Int) ∧ Spec.digitsVal ds = some a := by
  refine ⟨?_, cons_digits_numVal_of_digitsNat ds a h, cons_numtok_parseInt_eq_digitsNat ds a h,
    by rw [← cons_digits_digitsNat_eq_digitsVal]; exact h⟩
  unfold Agg.tokenInt
  rw [String.toList_ofList, cons_numtok_parseNumSpec_eq_digitsNat ds a h hb]
  simp

/-- non-vacuity: `007` -/
example : Pattern.digitsNat [48, 48, 55] = some 7 ∧ 7 < Agg.overflowBound := by decide

set_option maxRecDepth 100000 in
/-- the bound is needed: a 1 followed by 309 zeros is a `digitsNat` / `numVal` number but not a `parseNum` number
(`ParseFloat` gives `+Inf, ErrRange`; observed in Go for `1e400`) -/
theorem cons_numtok_parseNumSpec_ne_digitsNat_overflow_witness :
    Agg.parseNumSpec ('1' :: List.replicate 309 '0') = none ∧
    (Pattern.digitsNat (49 :: List.replicate 309 48)).isSome = true := by
  constructor <;> decide

/-- classes where C06 (= `ParseFloat`) accepts and the Spec fragment `numVal` does not: sign `+`, underscore, exponent,
hex float, fraction; and the classes both reject: empty, lone sign, `0b1`, `inf`, `1__0` -/
theorem cons_numtok_parseNumSpec_ne_numVal_class_witnesses :
    Agg.parseNumSpec ['+', '5'] = some (5, 1) ∧ Spec.numVal [43, 53] = none ∧
    Agg.parseNumSpec ['1', 'e', '3'] = some (1000, 1) ∧ Spec.numVal [49, 101, 51] = none ∧
    Agg.parseNumSpec ['0', 'x', '1', 'p', '4'] = some (16, 1) ∧ Spec.numVal [48, 120, 49, 112, 52] = none ∧
    Agg.parseNumSpec ['1', '.', '5'] = some (15, 10) ∧ Spec.numVal [49, 46, 53] = none ∧
    Agg.parseNumSpec ['-', '5'] = some (-5, 1) ∧ Spec.numVal [45, 53] = some (-5) ∧
    Agg.parseNumSpec [] = none ∧ Spec.numVal [] = none ∧
    Agg.parseNumSpec ['-'] = none ∧ Spec.numVal [45] = none ∧
    Agg.parseNumSpec ['0', 'b', '1'] = none ∧ Agg.parseNumSpec ['i', 'n', 'f'] = none ∧
    Agg.parseNumSpec ['1', '_', '_', '0'] = none := by
  decide

end SV.Consistency
