import SeqVerif.Model.Lifecycle
/-!
# Consistency: loader / file-set operations - `SV.FileSet` (shared), `SV.SealOps` (C08), `SV.Lifecycle` (C15)

`SV.Lifecycle` imports `SV.SealOps` and REUSES `Op`, `step`, `applyOps`, `sealTrace`, `releaseOps`, `Cfg`, `Facts`, `Plan`;
both reuse `SV.FileSet.classify`, `startup`, `served`.  So the seal trace and `Active.Release` exist once and there is
nothing to prove for them.  The separately written pieces are:

* `loader.removeFractionFiles`: state function `SV.FileSet.removeFractionFiles` vs operation list
  `SV.Lifecycle.removeFractionFilesOps`
* `loader.load` / `FracManager.Load`: `SV.FileSet.loadEffect`, `SV.FileSet.startup` (state functions) vs
  `SV.Lifecycle.startupOps` (operation list), `SV.Lifecycle.startupCached`
* `NewActive`: the `docs := if absent then empty` clause inside `SV.FileSet.startup` vs `SV.Lifecycle.newActiveOps`
* `Active.Suicide` (not released) `SV.Lifecycle.activeSuicideOps` vs `Active.Release` `SV.SealOps.releaseOps`
  (the same two removals in the same order when neither `KeepMetaFile` nor `SkipSortDocs` is set)
-/
namespace SV.Consistency
open SV.FileSet SV.SealOps SV.Lifecycle

/-- Go `removeFractionFiles`: running C15's operation list `SV.Lifecycle.removeFractionFilesOps` from any file set
gives C08/shared `SV.FileSet.removeFractionFiles`.  All inputs. -/
theorem cons_fileset_removeFractionFilesOps_eq_removeFractionFiles (fs : FileSet) :
    run removeFractionFilesOps fs = removeFractionFiles fs := rfl

/-- Go `NewActive` (`mustOpenFile(.docs)`, `mustOpenFile(.meta)`): C15's `SV.Lifecycle.newActiveOps` creates each of the
two files empty iff it is missing - the closed form that `SV.FileSet.startup` writes inline for `.docs`. -/
theorem cons_fileset_newActiveOps_eq (fs : FileSet) :
    run newActiveOps fs =
      { fs with docs := if fs.docs = .absent then .empty else fs.docs,
                metaF := if fs.metaF = .absent then .empty else fs.metaF } := by
  obtain ⟨d, dd, sd, sdt, sdd, ix, ixt, ixd, m⟩ := fs
  cases d <;> cases m <;> rfl

/-- `classify = .active` needs `.meta` -/
private theorem classify_active_meta (fs : FileSet) (h : classify fs = .active) : fs.metaF ≠ .absent := by
  intro hm
  simp only [classify, classifyInfo, makeInfo, hm] at h
  repeat' split at h
  all_goals simp_all [Content.has]

/-- `classify = .sealed .sdocs` (with the loader's removals) -/
private theorem loadEffect_sealed_sdocs (o : Bool) (fs : FileSet) (h : classify fs = .sealed .sdocs) :
    loadEffect o fs = { fs with metaF := .absent, docs := .absent } := by
  unfold loadEffect; rw [h]

private theorem loadEffect_sealed_docs (o : Bool) (fs : FileSet) (h : classify fs = .sealed .docs) :
    loadEffect o fs = fs := by
  unfold loadEffect; rw [h]

/-- **Go `loader.load` / `FracManager.Load` on one fraction.**  Running C15's operation list
`SV.Lifecycle.startupOps` gives exactly the file set that the state function `SV.FileSet.startup` returns.
All file sets, both values of `orphanFatal`. -/
theorem cons_fileset_startupOps_eq_startup (o : Bool) (fs : FileSet) :
    run (startupOps o fs) fs = (FileSet.startup o fs).2 := by
  unfold startupOps FileSet.startup
  cases hc : classify fs with
  | unknown => rfl
  | skipped => rfl
  | cleaned => rfl
  | orphan => cases o <;> rfl
  | active =>
    have hm := classify_active_meta fs hc
    obtain ⟨d, dd, sd, sdt, sdd, ix, ixt, ixd, m⟩ := fs
    cases m
    · exact absurd rfl hm
    all_goals (cases d <;> rfl)
  | sealed src =>
    rcases classify_sealed_src fs src hc with rfl | rfl
    · simp only [loadEffect_sealed_docs o fs hc]; rfl
    · simp only [loadEffect_sealed_sdocs o fs hc]
      obtain ⟨d, dd, sd, sdt, sdd, ix, ixt, ixd, m⟩ := fs
      cases d <;> cases m <;> rfl

/-- the two state-function forms of `load` inside `SV.FileSet`: `startup` leaves the files `loadEffect` leaves,
except for an active fraction, where `NewActive` / the empty-fraction removal act on top. -/
theorem cons_fileset_startup_eq_loadEffect (o : Bool) (fs : FileSet) (h : classify fs ≠ .active) :
    (FileSet.startup o fs).2 = loadEffect o fs := by
  unfold FileSet.startup loadEffect
  cases hc : classify fs with
  | active => exact absurd hc h
  | unknown => rfl
  | skipped => rfl
  | cleaned => rfl
  | orphan => cases o <;> rfl
  | sealed src => rfl

example : classify { index := .full, sdocs := .full } ≠ .active := by decide

/-- `load`'s first component is `classify`, which also drives `startup` (definitional) -/
theorem cons_fileset_load_fst (o : Bool) (fs : FileSet) : (load o fs).1 = classify fs ∧ (load o fs).2 = loadEffect o fs :=
  ⟨rfl, rfl⟩

/-- `SV.Lifecycle.startupCached` (C15's `.frac-cache` variant of `load`) with no cache entry IS `SV.FileSet.startup`,
for every file set (C15's own `startupCached_irrelevant` covers `cached = true` on reachable disks). -/
theorem cons_fileset_startupCached_false_eq_startup (o : Bool) (fs : FileSet) :
    startupCached false o fs = FileSet.startup o fs := by
  unfold startupCached FileSet.startup
  cases hc : classify fs <;> simp

/-- the file sets agree for every `cached` (only the `Loaded` verdict on an empty index differs) -/
theorem cons_fileset_startupCached_files (cached o : Bool) (fs : FileSet) :
    (startupCached cached o fs).2 = (FileSet.startup o fs).2 := by
  unfold startupCached FileSet.startup
  cases hc : classify fs <;> simp

/-- Go `Active.Suicide` on a fraction that was not released (`releaseMem; removeMetaFile; removeDocsFiles`) vs
`Active.Release` with `KeepMetaFile = SkipSortDocs = false`: C15 `SV.Lifecycle.activeSuicideOps` = C08
`SV.SealOps.releaseOps`, same removals, same order. -/
theorem cons_fileset_activeSuicideOps_eq_releaseOps : activeSuicideOps = releaseOps ⟨false, false⟩ := rfl

/-- in general `Release` performs a subsequence of `Suicide`'s removals, in the same order -/
theorem cons_fileset_releaseOps_sublist_activeSuicideOps (c : Cfg) : (releaseOps c).Sublist activeSuicideOps := by
  obtain ⟨s, k⟩ := c
  cases s <;> cases k <;> decide

/-- Go `Active.Suicide` after `Release` (`if KeepMetaFile {removeMetaFile}; if SkipSortDocs {removeDocsFiles}`)
completes what `Release` left: on the files, Release then the released-branch removals = the unreleased Suicide.
(C15 models only the unreleased branch; this shows the other branch adds no new end state.) -/
def releasedSuicideOps (c : Cfg) : List Op :=
  (if c.keepMetaFile then [.remove .metaF] else []) ++ (if c.skipSortDocs then [.remove .docs] else [])

theorem cons_fileset_release_then_suicide_eq_suicide (c : Cfg) (fs : FileSet) :
    run (releaseOps c ++ releasedSuicideOps c) fs = run activeSuicideOps fs := by
  obtain ⟨s, k⟩ := c
  cases s <;> cases k <;> rfl

/-! ## the write-to-temporary / sync / rename pattern (`syncRename`, `mustWriteFileAtomic`) -/

/-- `os.Create(tmp)`, `n` writes, `Sync`, `os.Rename(tmp, final)`, directory sync: the pattern of
`writeSortedDocs` + `syncRename` (C08 `sortedDocsOps`), of the index in `sealTrace`, and of
`mustWriteFileAtomic` (fracmanager/async_searcher.go), which C19 `SV.Async.apply` models as ONE atomic write. -/
def atomicWriteOps (t s : Suffix) (n : Nat) : List Op :=
  .create t :: (List.replicate n (.write t) ++ [.sync t, .rename t s, .syncDir])

/-- what an observer of the final name may see -/
def AtomicView (v : Content) (s : Suffix) (st : St) : Prop := st.fs.get s = v ∨ st.fs.get s = .full

private theorem rename_get (st : St) (t s : Suffix) (hts : s ≠ t) (hne : st.fs.get t ≠ .absent) :
    (step (.rename t s) st).fs.get s = st.fs.get t := by
  simp only [step, hne, if_false]
  rw [get_set_other _ _ _ _ hts, get_set_same]

private theorem sync_get_self (st : St) (t : Suffix) (ht : st.fs.get t = .empty ∨ st.fs.get t = .torn) :
    (step (.sync t) st).fs.get t = .full := by
  simp only [step]; rw [get_set_same]; rcases ht with h | h <;> rw [h]

private theorem sync_get_other (st : St) (t s : Suffix) (hts : s ≠ t) : (step (.sync t) st).fs.get s = st.fs.get s := by
  simp only [step]; rw [get_set_other _ _ _ _ hts]

private theorem write_get_self (st : St) (t : Suffix) (ht : st.fs.get t = .empty ∨ st.fs.get t = .torn) :
    (step (.write t) st).fs.get t = .torn := by
  simp only [step]; rw [get_set_same]; rcases ht with h | h <;> rw [h]

private theorem write_get_other (st : St) (t s : Suffix) (hts : s ≠ t) : (step (.write t) st).fs.get s = st.fs.get s := by
  simp only [step]; rw [get_set_other _ _ _ _ hts]

private theorem syncDir_get (st : St) (s : Suffix) : (step .syncDir st).fs.get s = st.fs.get s := rfl

private theorem create_get_self (st : St) (t : Suffix) : (step (.create t) st).fs.get t = .empty := by
  simp only [step]; rw [get_set_same]

private theorem create_get_other (st : St) (t s : Suffix) (hts : s ≠ t) : (step (.create t) st).fs.get s = st.fs.get s := by
  simp only [step]; rw [get_set_other _ _ _ _ hts]

/-- the tail `Sync; Rename; syncDir` from a state whose temporary file is being written -/
private theorem tail_final (st : St) (t s : Suffix) (hts : s ≠ t) (ht : st.fs.get t = .empty ∨ st.fs.get t = .torn) :
    (step (.rename t s) (step (.sync t) st)).fs.get s = .full := by
  have hfull := sync_get_self st t ht
  rw [rename_get _ t s hts (by rw [hfull]; decide), hfull]

private theorem along_atomic_writes (v : Content) (t s : Suffix) (hts : s ≠ t) (n : Nat) (st : St)
    (ht : st.fs.get t = .empty ∨ st.fs.get t = .torn) (hs : st.fs.get s = v) :
    Along (AtomicView v s) (fun _ _ => True) (List.replicate n (.write t) ++ [.sync t, .rename t s, .syncDir]) st := by
  induction n generalizing st with
  | zero =>
    simp only [List.replicate_zero, List.nil_append, Along, true_and]
    refine ⟨Or.inl hs, Or.inl ?_, Or.inr (tail_final st t s hts ht), Or.inr ?_⟩
    · rw [sync_get_other st t s hts]; exact hs
    · rw [syncDir_get]; exact tail_final st t s hts ht
  | succ n ih =>
    rw [List.replicate_succ, List.cons_append]
    simp only [Along, true_and]
    refine ⟨Or.inl hs, ih _ (Or.inr (write_get_self st t ht)) ?_⟩
    rw [write_get_other st t s hts]; exact hs

/-- **The pattern is atomic for the final name**: after every prefix of the operations (= at every crash point) the
final file is either what it was before or complete, and at the end it is complete.  This is the assumption under
which C19 (`SV.Async.apply`: `Write.info` / `Write.qpr` replace the file in one step) treats `mustWriteFileAtomic`,
derived in C08's operation semantics (`SV.SealOps.step`).  All file sets, any two distinct names, any number of writes. -/
theorem cons_fileset_atomicWriteOps_atomic (t s : Suffix) (hts : s ≠ t) (n : Nat) (fs : FileSet) (u : List Suffix) :
    (∀ pre, pre <+: atomicWriteOps t s n →
        (applyOps pre ⟨fs, u⟩).fs.get s = fs.get s ∨ (applyOps pre ⟨fs, u⟩).fs.get s = .full) ∧
      (applyOps (atomicWriteOps t s n) ⟨fs, u⟩).fs.get s = .full := by
  have hal : Along (AtomicView (fs.get s) s) (fun _ _ => True) (atomicWriteOps t s n) ⟨fs, u⟩ := by
    unfold atomicWriteOps
    simp only [Along, true_and]
    refine ⟨Or.inl rfl, along_atomic_writes _ t s hts n _ (Or.inl (create_get_self _ t)) ?_⟩
    rw [create_get_other _ t s hts]
  have hpre := ((along_iff _ _ _ _).mp hal).1
  refine ⟨fun pre hp => hpre pre hp, ?_⟩
  have hend : ∀ (k : Nat) (st : St), (st.fs.get t = .empty ∨ st.fs.get t = .torn) →
      (applyOps (List.replicate k (.write t) ++ [.sync t, .rename t s, .syncDir]) st).fs.get s = .full := by
    intro k
    induction k with
    | zero =>
      intro st ht
      show (step .syncDir (step (.rename t s) (step (.sync t) st))).fs.get s = .full
      rw [syncDir_get]; exact tail_final st t s hts ht
    | succ k ih =>
      intro st ht
      rw [List.replicate_succ, List.cons_append]
      show (applyOps _ (step (.write t) st)).fs.get s = .full
      exact ih _ (Or.inr (write_get_self st t ht))
  show (applyOps _ (step (.create t) ⟨fs, u⟩)).fs.get s = .full
  exact hend n _ (Or.inl (create_get_self _ t))

/-- C08's `sortedDocsOps` with no write fault IS this pattern (minus the directory sync, done later by `sealTrace`) -/
theorem cons_fileset_sortedDocsOps_eq_atomicWriteOps (n : Nat) :
    (sortedDocsOps n []).2 ++ [.syncDir] = atomicWriteOps .sdocsTmp .sdocs n := by
  unfold sortedDocsOps atomicWriteOps
  cases n with
  | zero => rfl
  | succ k => simp [sdocsWrites]

end SV.Consistency
