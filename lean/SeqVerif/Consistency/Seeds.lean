import SeqVerif.Model.Chunks
import SeqVerif.Model.C03Codec
import SeqVerif.Model.C03Ids
import SeqVerif.Model.C03Docs
import SeqVerif.Model.BulkMetaCodec
import SeqVerif.Model.WPBytes
import SeqVerif.Model.WPPlain
import SeqVerif.Model.FetchBytes
import SeqVerif.Model.FetchIndex
import SeqVerif.Model.Collector
import SeqVerif.Model.BulkCompose
import SeqVerif.Model.C03TokenTable
/-!
# Model consistency, topic (e1) + (e5, codec part): byte-level codecs that are modelled more than once

Shared, NOT duplicates:
* Chunks.lean (`SV.Chunks.pack / unpack / packChunk / addDelta`, the seed of `lids.Chunks.Pack/unpack`) is imported and
  REUSED by C03Codec.lean (`packBytes = encodeAll (pack ..)`, `unpackBytes = (decodeAll ..).map unpack`); C03Codec.lean adds
  the only varint / zigzag codec of the framework (`uvarintEnc`, `uvarintDecGo`, `zig`, `zag`) and the 64-bit delta codec
  (`deltas64`, another Go function: `packRawIDsVarint`); C03Ids.lean reuses `packDeltas / unpackDeltas`; C03Lids.lean has
  no byte codec.  FileWriter.lean and BulkFrame.lean contain no integer codec.
* `SV.Bulk.Meta.toRec` (BulkMetaCodec.lean) and `SV.Bulk.toCollector` (BulkCompose.lean) are shared conversions.
* (e5) `StoreDocuments`: Replica.lean is the only model of the replication / ack loop; Bulk.lean / BulkProc.lean take its
  outcome as the oracle `storeOk : Bool` (no second definition); BulkResponse.lean is the HTTP response body only.
Separately written and compared here: the little-endian integer writers/readers (Bulk.lean, BulkMetaCodec.lean,
C03Ids.lean, C03Docs.lean, WPBytes.lean, FetchBytes.lean), the `[u32 len][bytes]` framing, `MetaData` marshal / unmarshal
(BulkMetaCodec.lean vs WPPlain.lean), `PackDocPos / Unpack` (C03Codec.lean, FetchIndex.lean, Collector.lean), the four
`MetaData` record types, `AppendMeta` positions and `DocsPositions.SetMultiple` (Collector.lean vs WPIndex.lean).
-/
namespace SV.Consistency

/-! ## (e1) little-endian integer encoders -/

theorem cons_seeds_bulk_le32_eq_c03_le32 (n : Nat) : SV.Bulk.le32 n = SV.C03.le32 n := rfl

theorem cons_seeds_bulk_le32_eq_wpath_leN4 (n : Nat) : SV.Bulk.le32 n = SV.WPath.leN 4 n := by
  simp [SV.Bulk.le32, SV.WPath.leN, Nat.div_div_eq_div_mul]

theorem cons_seeds_bulk_le64_eq_c03_le64 (n : Nat) : SV.Bulk.le64 n = SV.C03.le64 n := rfl

theorem cons_seeds_bulk_le64_eq_wpath_leN8 (n : Nat) : SV.Bulk.le64 n = SV.WPath.leN 8 n := by
  simp [SV.Bulk.le64, SV.WPath.leN, Nat.div_div_eq_div_mul]

/-! ## (e1) little-endian integer readers -/

/-- `binary.LittleEndian.Uint32`: `SV.C03.unle32` (C03Docs.lean) and `SV.WPath.rdLE 4` (WPBytes.lean) agree on ALL inputs
(both read missing bytes as 0). -/
theorem cons_seeds_c03_unle32_eq_wpath_rdLE4 (bs : List Nat) : SV.C03.unle32 bs = SV.WPath.rdLE 4 bs := by
  unfold SV.C03.unle32
  match bs with
  | [] => simp [SV.WPath.rdLE]
  | [a] => simp [SV.WPath.rdLE]
  | [a, b] => simp [SV.WPath.rdLE]
  | [a, b, c] => simp [SV.WPath.rdLE]; omega
  | a :: b :: c :: d :: r => simp [SV.WPath.rdLE]; omega

/-- `binary.LittleEndian.Uint32`: `SV.Bulk.rd32` (BulkMetaCodec.lean, `none` = short input) vs `SV.WPath.rdLE 4`.
Representation: `Option (value, rest)` vs value + `drop 4`.  Domain: at least 4 bytes (Go panics otherwise). -/
theorem cons_seeds_bulk_rd32_eq_wpath_rdLE4 (b : List Nat) (h : 4 ≤ b.length) :
    SV.Bulk.rd32 b = some (SV.WPath.rdLE 4 b, b.drop 4) := by
  match b, h with
  | a :: b :: c :: d :: r, _ => simp [SV.Bulk.rd32, SV.WPath.rdLE]; omega

example : 4 ≤ [1, 2, 3, 4, 5].length := by decide

/-- converse direction: whenever `rd32` succeeds it returns what `rdLE 4` reads -/
theorem cons_seeds_bulk_rd32_some (b r : List Nat) (n : Nat) (h : SV.Bulk.rd32 b = some (n, r)) :
    n = SV.WPath.rdLE 4 b ∧ r = b.drop 4 ∧ 4 ≤ b.length := by
  match b with
  | [] | [_] | [_, _] | [_, _, _] => simp [SV.Bulk.rd32] at h
  | a :: b :: c :: d :: r' =>
    simp only [SV.Bulk.rd32, Option.some.injEq, Prod.mk.injEq] at h
    obtain ⟨rfl, rfl⟩ := h
    simp [SV.WPath.rdLE]; omega

theorem cons_seeds_bulk_rd64_eq_wpath_rdLE8 (b : List Nat) (h : 8 ≤ b.length) :
    SV.Bulk.rd64 b = some (SV.WPath.rdLE 8 b, b.drop 8) := by
  match b, h with
  | b0 :: b1 :: b2 :: b3 :: b4 :: b5 :: b6 :: b7 :: r, _ => simp [SV.Bulk.rd64, SV.WPath.rdLE]; omega

example : 8 ≤ [1, 2, 3, 4, 5, 6, 7, 8].length := by decide

theorem cons_seeds_bulk_rd64_some (b r : List Nat) (n : Nat) (h : SV.Bulk.rd64 b = some (n, r)) :
    n = SV.WPath.rdLE 8 b ∧ r = b.drop 8 ∧ 8 ≤ b.length := by
  match b with
  | [] | [_] | [_, _] | [_, _, _] | [_, _, _, _] | [_, _, _, _, _] | [_, _, _, _, _, _] | [_, _, _, _, _, _, _] =>
    simp [SV.Bulk.rd64] at h
  | b0 :: b1 :: b2 :: b3 :: b4 :: b5 :: b6 :: b7 :: r' =>
    simp only [SV.Bulk.rd64, Option.some.injEq, Prod.mk.injEq] at h
    obtain ⟨rfl, rfl⟩ := h
    simp [SV.WPath.rdLE]; omega

/-- `unpackRawIDsNoVarint` (`SV.C03.unle64s`, C03Ids.lean) is `rd64` (BulkMetaCodec.lean) iterated: one step. -/
theorem cons_seeds_c03_unle64s_eq_bulk_rd64_step (b : List Nat) (hne : b ≠ []) :
    SV.C03.unle64s b = (SV.Bulk.rd64 b).bind fun p => (SV.C03.unle64s p.2).map (p.1 :: ·) := by
  match b with
  | [] => exact absurd rfl hne
  | [_] | [_, _] | [_, _, _] | [_, _, _, _] | [_, _, _, _, _] | [_, _, _, _, _, _] | [_, _, _, _, _, _, _] =>
    simp [SV.Bulk.rd64, SV.C03.unle64s]
  | b0 :: b1 :: b2 :: b3 :: b4 :: b5 :: b6 :: b7 :: r' => simp [SV.Bulk.rd64, SV.C03.unle64s]

/-- `binary.LittleEndian.Uint32(block[off:])`: `SV.Fetch.le32` (FetchBytes.lean; short input reads as 0) vs
`SV.WPath.rdLE 4` / `SV.C03.unle32` on the dropped block.  Domain: 4 bytes available (Go panics otherwise). -/
theorem cons_seeds_fetch_le32_eq_wpath_rdLE4 (block : List Nat) (off : Nat) (h : off + 4 ≤ block.length) :
    SV.Fetch.le32 block off = SV.WPath.rdLE 4 (block.drop off) := by
  have hl : 4 ≤ (block.drop off).length := by simp; omega
  unfold SV.Fetch.le32
  match hb : block.drop off, hl with
  | a :: b :: c :: d :: r, _ => simp [SV.WPath.rdLE]; omega

example : 1 + 4 ≤ [9, 1, 2, 3, 4].length := by decide

/-- outside that domain (Go: index-out-of-range panic) the two readers differ; not reachable, recorded for the report -/
theorem cons_seeds_fetch_le32_ne_wpath_rdLE4_short_witness : SV.Fetch.le32 [1] 0 ≠ SV.WPath.rdLE 4 ([1].drop 0) := by decide

/-! ## (e1) the `[u32 length][bytes]` framing of documents / meta records
Go: `DocProvider.appendDoc` / `appendMeta`, `processDocsToCompressor` (`AppendUint32(len(doc)) ++ doc`),
reader `extractDocsFromBlockFunc`, `packer.BytesUnpacker.GetBinary`.  Modelled in Bulk.lean (`appendDoc`, `encodeDocs`,
`decodeDocs`), BulkProc.lean (`enc1`), C03Docs.lean (`encDoc`, `extractDoc`), FetchBytes.lean (`encDoc`, `extractDoc`),
WPIndex.lean (`rawDocs`, `docAt`), WPPlain.lean (`parseMetas`). -/

theorem cons_seeds_c03_encDoc_eq_fetch_encDoc (d : List Nat) : SV.C03.encDoc d = SV.Fetch.encDoc d := rfl

theorem cons_seeds_bulk_enc1_eq_c03_encDoc (d : List Nat) : SV.Bulk.enc1 d = SV.C03.encDoc d := rfl

theorem cons_seeds_bulk_appendDoc_eq_fetch_encDoc (p d : List Nat) : SV.Bulk.appendDoc p d = p ++ SV.Fetch.encDoc d := by
  simp [SV.Bulk.appendDoc, SV.Fetch.encDoc, SV.Bulk.le32]

/-- `LDoc` of WPIndex.lean -> its body; `rawDocs` is `encodeDocs` of the bodies -/
theorem cons_seeds_wpath_rawDocs_eq_bulk_encodeDocs (ds : List SV.WPath.LDoc) :
    SV.WPath.rawDocs ds = SV.Bulk.encodeDocs (ds.map (·.body)) := by
  rw [SV.Bulk.encodeDocs_eq, SV.WPath.rawDocs, List.flatMap_def, List.map_map]
  congr 1
  apply List.map_congr_left
  intro d _
  simp [SV.Bulk.enc1, cons_seeds_bulk_le32_eq_wpath_leN4]

/-- `extractDocsFromBlockFunc` for one offset: `SV.C03.extractDoc` (C03Docs.lean) = `SV.Fetch.extractDoc`
(FetchBytes.lean) on ALL inputs (with fewer than 4 bytes at `off` both yield `[]`; Go panics there). -/
theorem cons_seeds_c03_extractDoc_eq_fetch_extractDoc (block : List Nat) (off : Nat) :
    SV.C03.extractDoc block off = SV.Fetch.extractDoc block off := by
  unfold SV.C03.extractDoc SV.Fetch.extractDoc SV.Fetch.le32
  rw [List.drop_drop]
  have hd : block.drop (off + 4) = (block.drop off).drop 4 := by rw [List.drop_drop]
  match hb : block.drop off with
  | [] => simp [hd, hb]
  | [a] => simp [hd, hb]
  | [a, b] => simp [hd, hb]
  | [a, b, c] => simp [hd, hb]
  | a :: b :: c :: d :: r => simp [SV.C03.unle32]

/-- `SV.WPath.docAt` (WPIndex.lean, `none` = the slice bounds panic) vs `SV.Fetch.extractDoc`: whenever `docAt`
answers, it is `extractDoc`.  Representation: `Option` with `none` for out-of-range. -/
theorem cons_seeds_wpath_docAt_eq_fetch_extractDoc (raw : List Nat) (off : Nat) (d : List Nat)
    (h : SV.WPath.docAt raw off = some d) : SV.Fetch.extractDoc raw off = d := by
  unfold SV.WPath.docAt at h
  split at h
  · cases h
  · split at h
    · cases h
    · rename_i h1 h2
      cases h
      unfold SV.Fetch.extractDoc
      rw [cons_seeds_fetch_le32_eq_wpath_rdLE4 raw off (by omega)]

example : SV.WPath.docAt [1, 0, 0, 0, 7] 0 = some [7] := by decide

/-- the in-range condition of `docAt` is exactly "4 length bytes and the whole document are inside the block" -/
theorem cons_seeds_wpath_docAt_some (raw : List Nat) (off : Nat)
    (h1 : off + 4 ≤ raw.length) (h2 : off + 4 + SV.Fetch.le32 raw off ≤ raw.length) :
    SV.WPath.docAt raw off = some (SV.Fetch.extractDoc raw off) := by
  rw [cons_seeds_fetch_le32_eq_wpath_rdLE4 raw off h1] at h2
  unfold SV.WPath.docAt SV.Fetch.extractDoc
  rw [cons_seeds_fetch_le32_eq_wpath_rdLE4 raw off h1]
  rw [if_neg (by omega), if_neg (by omega)]

example : 0 + 4 ≤ [1, 0, 0, 0, 7].length ∧ 0 + 4 + SV.Fetch.le32 [1, 0, 0, 0, 7] 0 ≤ [1, 0, 0, 0, 7].length := by decide

/-- record loop of `appendWorker` (`SV.WPath.parseMetas`, WPPlain.lean; a truncated tail is silently cut) vs
`SV.Bulk.decodeDocs` (Bulk.lean; a truncated tail is `none`): on every payload `decodeDocs` accepts, with the same
fuel, `parseMetas` is `parseMeta` mapped over the records `decodeDocs` returns. -/
theorem cons_seeds_wpath_parseMetas_eq_bulk_decodeDocs (fuel : Nat) (b : List Nat) (rs : List (List Nat))
    (h : SV.Bulk.decodeDocs fuel b = some rs) : SV.WPath.parseMetas fuel b = rs.map SV.WPath.parseMeta := by
  induction fuel generalizing b rs with
  | zero =>
    match b with
    | [] => simp [SV.Bulk.decodeDocs] at h; subst h; rfl
    | _ :: _ => simp [SV.Bulk.decodeDocs] at h
  | succ f ih =>
    match b with
    | [] => simp [SV.Bulk.decodeDocs] at h; subst h; simp [SV.WPath.parseMetas]
    | [_] | [_, _] | [_, _, _] => simp [SV.Bulk.decodeDocs] at h
    | b0 :: b1 :: b2 :: b3 :: rest =>
      simp only [SV.Bulk.decodeDocs] at h
      split at h
      · cases h
      · cases hr : SV.Bulk.decodeDocs f (List.drop (b0 + 256 * b1 + 65536 * b2 + 16777216 * b3) rest) with
        | none => simp [hr] at h
        | some ds =>
          simp only [hr, Option.map_some, Option.some.injEq] at h
          subst h
          have hn : SV.WPath.rdLE 4 (b0 :: b1 :: b2 :: b3 :: rest) = b0 + 256 * b1 + 65536 * b2 + 16777216 * b3 := by
            simp [SV.WPath.rdLE]; omega
          have := ih _ _ hr
          simp only [SV.WPath.parseMetas, hn, List.length_cons, List.map_cons]
          rw [if_neg (by omega)]
          simp only [List.drop_succ_cons, List.drop_zero]
          rw [show 4 + (b0 + 256 * b1 + 65536 * b2 + 16777216 * b3) = (b0 + 256 * b1 + 65536 * b2 + 16777216 * b3) + 4 by omega]
          simp only [List.drop_succ_cons, this]

example : SV.Bulk.decodeDocs 5 [1, 0, 0, 0, 7] = some [[7]] := by decide

/-! ## (e5, codec) `frac.MetaData.MarshalBinaryTo` / `UnmarshalBinary`: BulkMetaCodec.lean vs WPPlain.lean -/

/-- token of BulkMetaCodec.lean -> (key, value) pair of WPPlain.lean -/
def seedsTokPair (t : SV.Bulk.Token) : List Nat × List Nat := (t.key, t.val)

/-- token -> the `key:value` byte string `SV.WPath.DocMeta` stores (the collector's `extractTokens`) -/
def seedsTokBytes (t : SV.Bulk.Token) : List Nat := t.key ++ [58] ++ t.val

/-- `MetaRec` (BulkMetaCodec.lean) -> `DocMeta` (WPIndex.lean) -/
def seedsRecToDocMeta (m : SV.Bulk.MetaRec) : SV.WPath.DocMeta := ⟨(m.mid, m.rid), m.size, m.tokens.map seedsTokBytes⟩

/-- `MetaToken.MarshalBinaryTo`: `SV.Bulk.encTok` = `SV.WPath.encToken` -/
theorem cons_seeds_bulk_encTok_eq_wpath_encToken (t : SV.Bulk.Token) : SV.Bulk.encTok t = SV.WPath.encToken (seedsTokPair t) := by
  simp [SV.Bulk.encTok, SV.WPath.encToken, seedsTokPair, cons_seeds_bulk_le32_eq_wpath_leN4]

/-- `marshalAppendMeta` / `DocProvider.appendMeta` (length prefix + `MetaData.MarshalBinaryTo`):
`SV.Bulk.appendMeta []` (BulkMetaCodec.lean) = `SV.WPath.encMeta` (WPPlain.lean), on ALL records (both truncate
with `%`).  Representation: record <-> (ID pair, size, (key, value) pairs). -/
theorem cons_seeds_bulk_appendMeta_eq_wpath_encMeta (m : SV.Bulk.MetaRec) :
    SV.Bulk.appendMeta [] m = SV.WPath.encMeta (m.mid, m.rid) m.size (m.tokens.map seedsTokPair) := by
  have hbody : SV.Bulk.encMeta m = SV.WPath.leN 2 0x3F7C ++ SV.WPath.leN 2 1 ++ SV.WPath.leN 8 m.mid ++ SV.WPath.leN 8 m.rid ++
      SV.WPath.leN 4 m.size ++ SV.WPath.leN 4 (m.tokens.map seedsTokPair).length ++ ((m.tokens.map seedsTokPair).map SV.WPath.encToken).flatten := by
    have h1 : SV.WPath.leN 2 0x3F7C = [124, 63] := by decide
    have h2 : SV.WPath.leN 2 1 = [1, 0] := by decide
    have h3 : ((m.tokens.map seedsTokPair).map SV.WPath.encToken).flatten = m.tokens.flatMap SV.Bulk.encTok := by
      rw [List.flatMap_def, List.map_map]
      congr 1
      apply List.map_congr_left
      intro t _
      exact (cons_seeds_bulk_encTok_eq_wpath_encToken t).symm
    rw [h1, h2, h3, SV.Bulk.encMeta, cons_seeds_bulk_le64_eq_wpath_leN8, cons_seeds_bulk_le64_eq_wpath_leN8,
      cons_seeds_bulk_le32_eq_wpath_leN4, cons_seeds_bulk_le32_eq_wpath_leN4, List.length_map]
    simp
  simp only [SV.Bulk.appendMeta, SV.WPath.encMeta, List.nil_append]
  rw [← hbody, cons_seeds_bulk_le32_eq_wpath_leN4]

theorem cons_seeds_bulk_rdBytes_some (b k r : List Nat) (h : SV.Bulk.rdBytes b = some (k, r)) :
    k = (b.drop 4).take (SV.WPath.rdLE 4 b) ∧ r = b.drop (4 + SV.WPath.rdLE 4 b) := by
  unfold SV.Bulk.rdBytes at h
  cases h32 : SV.Bulk.rd32 b with
  | none => simp [h32] at h
  | some p =>
    obtain ⟨n, r'⟩ := p
    obtain ⟨hn, hr, _⟩ := cons_seeds_bulk_rd32_some b r' n h32
    simp only [h32] at h
    split at h
    · cases h
    · simp only [Option.some.injEq, Prod.mk.injEq] at h
      obtain ⟨rfl, rfl⟩ := h
      subst hn hr
      simp [List.drop_drop]

/-- `MetaToken.UnmarshalBinary` x n: `SV.Bulk.decToks` (BulkMetaCodec.lean) vs `SV.WPath.parseTokens` (WPPlain.lean,
no bounds checks, builds `key:value`) wherever the former succeeds. -/
theorem cons_seeds_bulk_decToks_eq_wpath_parseTokens (n : Nat) (b : List Nat) (ts : List SV.Bulk.Token) (r : List Nat)
    (h : SV.Bulk.decToks n b = some (ts, r)) : SV.WPath.parseTokens n b = ts.map seedsTokBytes := by
  induction n generalizing b ts r with
  | zero => simp [SV.Bulk.decToks] at h; simp [h.1, SV.WPath.parseTokens]
  | succ n ih =>
    simp only [SV.Bulk.decToks] at h
    cases hk : SV.Bulk.rdBytes b with
    | none => simp [hk] at h
    | some p =>
      obtain ⟨k, r1⟩ := p
      simp only [hk] at h
      cases hv : SV.Bulk.rdBytes r1 with
      | none => simp [hv] at h
      | some q =>
        obtain ⟨v, r2⟩ := q
        simp only [hv] at h
        cases hrec : SV.Bulk.decToks n r2 with
        | none => simp [hrec] at h
        | some w =>
          obtain ⟨ts', r3⟩ := w
          simp only [hrec, Option.map_some, Option.some.injEq, Prod.mk.injEq] at h
          obtain ⟨rfl, rfl⟩ := h
          obtain ⟨hk1, hk2⟩ := cons_seeds_bulk_rdBytes_some _ _ _ hk
          obtain ⟨hv1, hv2⟩ := cons_seeds_bulk_rdBytes_some _ _ _ hv
          have := ih _ _ _ hrec
          simp only [SV.WPath.parseTokens, List.map_cons, seedsTokBytes]
          subst hk2
          rw [← hk1, ← hv1, ← hv2, this]

/-- `MetaData.UnmarshalBinary`: `SV.Bulk.decMeta` (BulkMetaCodec.lean; checks magic/version and bounds, `Option`) vs
`SV.WPath.parseMeta` (WPPlain.lean; total, no checks): on every record `decMeta` accepts they decode the same meta.
Representation: `seedsRecToDocMeta`. -/
theorem cons_seeds_bulk_decMeta_eq_wpath_parseMeta (rec : List Nat) (m : SV.Bulk.MetaRec)
    (h : SV.Bulk.decMeta rec = some m) : SV.WPath.parseMeta rec = seedsRecToDocMeta m := by
  match rec with
  | 124 :: 63 :: 1 :: 0 :: b =>
    simp only [SV.Bulk.decMeta] at h
    cases h1 : SV.Bulk.rd64 b with
    | none => simp [h1] at h
    | some p1 =>
      obtain ⟨mid, b1⟩ := p1
      simp only [h1] at h
      cases h2 : SV.Bulk.rd64 b1 with
      | none => simp [h2] at h
      | some p2 =>
        obtain ⟨rid, b2⟩ := p2
        simp only [h2] at h
        cases h3 : SV.Bulk.rd32 b2 with
        | none => simp [h3] at h
        | some p3 =>
          obtain ⟨size, b3⟩ := p3
          simp only [h3] at h
          cases h4 : SV.Bulk.rd32 b3 with
          | none => simp [h4] at h
          | some p4 =>
            obtain ⟨n, b4⟩ := p4
            simp only [h4] at h
            cases h5 : SV.Bulk.decToks n b4 with
            | none => simp [h5] at h
            | some p5 =>
              obtain ⟨ts, r⟩ := p5
              simp only [h5, Option.map_some, Option.some.injEq] at h
              subst h
              obtain ⟨e1, d1, _⟩ := cons_seeds_bulk_rd64_some _ _ _ h1
              obtain ⟨e2, d2, _⟩ := cons_seeds_bulk_rd64_some _ _ _ h2
              obtain ⟨e3, d3, _⟩ := cons_seeds_bulk_rd32_some _ _ _ h3
              obtain ⟨e4, d4, _⟩ := cons_seeds_bulk_rd32_some _ _ _ h4
              have e5 := cons_seeds_bulk_decToks_eq_wpath_parseTokens _ _ _ _ h5
              subst d1 d2 d3 d4
              simp only [List.drop_drop] at e2 e3 e4 e5
              simp only [SV.WPath.parseMeta, seedsRecToDocMeta, List.drop_succ_cons, List.drop_zero]
              rw [← e1, ← e2, ← e3, ← e4, e5]
  | [] => simp [SV.Bulk.decMeta] at h

example : SV.Bulk.decMeta (SV.Bulk.encMeta ⟨1, 2, 3, [⟨[97], [98]⟩]⟩) = some ⟨1, 2, 3, [⟨[97], [98]⟩]⟩ := by decide

/-! ## (e1) `packer.BytesUnpacker.GetUint32 / GetBinary`: C03TokenTable.lean (`getU32`, `getBinary`, total) vs
BulkMetaCodec.lean (`rd32`, `rdBytes`, `none` = slice-bounds panic) -/

theorem cons_seeds_c03_getU32_eq_bulk_rd32 (b r : List Nat) (n : Nat) (h : SV.Bulk.rd32 b = some (n, r)) :
    SV.C03.getU32 b = (n, r) := by
  obtain ⟨hn, hr, _⟩ := cons_seeds_bulk_rd32_some b r n h
  simp [SV.C03.getU32, cons_seeds_c03_unle32_eq_wpath_rdLE4, hn, hr]

/-- wherever `rdBytes` answers (length prefix and payload in range), `getBinary` returns the same (payload, rest) -/
theorem cons_seeds_c03_getBinary_eq_bulk_rdBytes (b k r : List Nat) (h : SV.Bulk.rdBytes b = some (k, r)) :
    SV.C03.getBinary b = (k, r) := by
  obtain ⟨hk, hr⟩ := cons_seeds_bulk_rdBytes_some b k r h
  simp [SV.C03.getBinary, cons_seeds_c03_unle32_eq_wpath_rdLE4, hk, hr, List.drop_drop]

example : SV.Bulk.rdBytes [2, 0, 0, 0, 7, 8, 9] = some ([7, 8], [9]) := by decide

/-! ## (e1) `seq.PackDocPos` / `DocPos.Unpack`: C03Codec.lean, FetchIndex.lean, Collector.lean -/

/-- `SV.Collector.packDocPos` (pair argument, no panic) = `SV.Fetch.packDocPos 30` (no panic), all inputs -/
theorem cons_seeds_collector_packDocPos_eq_fetch_packDocPos (p : Nat × Nat) :
    SV.Collector.packDocPos p = SV.Fetch.packDocPos 30 p.1 p.2 := rfl

/-- `SV.C03.packDocPos` (`none` = the `logger.Panic` for `offset > maxDocOffset`) = `some (SV.Fetch.packDocPos 30 ..)`
on the non-panicking domain -/
theorem cons_seeds_c03_packDocPos_eq_fetch_packDocPos (b off : Nat) (h : off ≤ 1073741823) :
    SV.C03.packDocPos b off = some (SV.Fetch.packDocPos 30 b off) := by
  simp [SV.C03.packDocPos, SV.Fetch.packDocPos, show ¬ off > 1073741823 by omega]

example : (5 : Nat) ≤ 1073741823 := by decide

/-- `DocPos.Unpack`: `SV.C03.unpackDocPos` (truncated `pos - 1`) = `SV.Fetch.unpackDocPos 30` (uint64 wrap of `pos--`)
for every `0 < pos < 2^64`. -/
theorem cons_seeds_c03_unpackDocPos_eq_fetch_unpackDocPos (pos : Nat) (h0 : 0 < pos) (h : pos < 18446744073709551616) :
    SV.C03.unpackDocPos pos = SV.Fetch.unpackDocPos 30 pos := by
  have : (pos + 18446744073709551615) % 18446744073709551616 = pos - 1 := by omega
  simp [SV.C03.unpackDocPos, SV.Fetch.unpackDocPos, this]

example : 0 < (7 : Nat) ∧ (7 : Nat) < 18446744073709551616 := by decide

/-- FINDING (low severity): on `pos = 0` the two models of `DocPos.Unpack` differ.  Go (`pos--` on a `uint64`) wraps to
`MaxUint64` and returns block `0xFFFFFFFF`, offset `2^30-1`: `SV.Fetch.unpackDocPos` matches Go, `SV.C03.unpackDocPos`
(C03Codec.lean) returns `(0, 0)`.  `PackDocPos` never returns 0 (`SV.C03.docpos_found`), so 0 only arises from a
zeroed position slot (e.g. the system LID 0). -/
theorem cons_seeds_c03_unpackDocPos_ne_fetch_unpackDocPos_witness :
    SV.C03.unpackDocPos 0 = (0, 0) ∧ SV.Fetch.unpackDocPos 30 0 = (4294967295, 1073741823) := by decide

/-! ## (e5) the meta record `frac.MetaData`: four separately declared structures
* `SV.Bulk.Meta` (Bulk.lean: mid rid size tokens:(key,value))            - ingestor side
* `SV.Bulk.MetaRec` (BulkMetaCodec.lean; `Meta.toRec` is the shared conversion)  - marshalled record
* `SV.Collector.Meta` (Collector.lean: id size tokens:MetaToken doc; `SV.Bulk.toCollector` is the shared conversion)
* `SV.WPath.DocMeta` (WPIndex.lean: id size tokens:`key:value` bytes)
Conversions into the coarsest one (`DocMeta`) commute. -/

/-- `SV.Collector.Meta` -> `SV.WPath.DocMeta` -/
def seedsColToDocMeta (m : SV.Collector.Meta) : SV.WPath.DocMeta := ⟨m.id, m.size, m.tokens.map SV.Collector.MetaToken.bytes⟩

/-- the two conversion paths `Bulk.Meta -> MetaRec -> DocMeta` and `Bulk.Meta -> Collector.Meta -> DocMeta` agree
(in particular `key ++ [58] ++ value` of WPPlain.parseTokens = `key ++ 58 :: value` of `MetaToken.bytes`) -/
theorem cons_seeds_meta_conversions_commute (m : SV.Bulk.Meta) :
    seedsRecToDocMeta m.toRec = seedsColToDocMeta (SV.Bulk.toCollector m) := by
  simp [seedsRecToDocMeta, seedsColToDocMeta, SV.Bulk.Meta.toRec, SV.Bulk.toCollector, seedsTokBytes, SV.Collector.MetaToken.bytes,
    Function.comp_def]

/-! ### `metaDataCollector.AppendMeta` document positions: Collector.lean `docsFrom` vs WPIndex.lean `docPositions` -/

/-- `SV.WPath.docPositions` = the (id, position) projection of `SV.Collector.docsFrom`, once a previous position exists.
Representation: `seedsColToDocMeta`; `prev = some last`. -/
theorem cons_seeds_wpath_docPositions_eq_collector_docsFrom (bi : Nat) (ms : List SV.Collector.Meta) (off : Nat)
    (last : Nat × Nat) :
    SV.WPath.docPositions bi off (some last) (ms.map seedsColToDocMeta) =
      (SV.Collector.docsFrom bi ms off last).map (fun d => (d.1, d.2.1)) := by
  induction ms generalizing off last with
  | nil => rfl
  | cons m ms ih =>
    simp only [List.map_cons, SV.WPath.docPositions, SV.Collector.docsFrom]
    by_cases h : m.size = 0
    · simp [seedsColToDocMeta, h, ih]
    · simp [seedsColToDocMeta, h, ih]

/-- whole bulk (`prev = none` / `last = (0,0)`): equal whenever the first meta is not a nested one
(`SV.Collector.bulkPanics ms = false`; Go panics on `Positions[-1]` otherwise). -/
theorem cons_seeds_wpath_docPositions_eq_collector_docsOf (bi : Nat) (ms : List SV.Collector.Meta)
    (h : SV.Collector.bulkPanics ms = false) :
    SV.WPath.docPositions bi 0 none (ms.map seedsColToDocMeta) = (SV.Collector.docsOf bi ms).map (fun d => (d.1, d.2.1)) := by
  match ms with
  | [] => rfl
  | m :: ms =>
    have hs : m.size ≠ 0 := by simpa [SV.Collector.bulkPanics] using h
    simp only [List.map_cons, SV.WPath.docPositions, SV.Collector.docsOf, SV.Collector.docsFrom]
    simp only [seedsColToDocMeta, hs, if_false]
    rw [← cons_seeds_wpath_docPositions_eq_collector_docsFrom]

example : SV.Collector.bulkPanics [{ id := (1, 1), size := 3, tokens := [] }, { id := (1, 2), size := 0, tokens := [] }] = false := by
  decide

/-- on the panicking input (first meta has `Size == 0`; Go: index out of range `Positions[-1]`) the two total models
choose different dummy positions when `blockIndex ≠ 0`: not reachable, recorded for the report -/
theorem cons_seeds_wpath_docPositions_ne_collector_docsOf_panic_witness :
    SV.WPath.docPositions 1 0 none ([({ id := (1, 1), size := 0, tokens := [] } : SV.Collector.Meta)].map seedsColToDocMeta) = [((1, 1), (1, 0))] ∧
    (SV.Collector.docsOf 1 [{ id := (1, 1), size := 0, tokens := [] }]).map (fun d => (d.1, d.2.1)) = [((1, 1), (0, 0))] := by
  decide

/-! ### `DocsPositions.SetMultiple`: Collector.lean (newest-first association list + `List.lookup`, returns the appended
IDs) vs WPIndex.lean (oldest-first list + `find?`, returns per-ID flags, `appendedIDs` turns them into IDs) -/

/-- the two association lists denote the same Go map -/
def SeedsSameMap (dp : SV.Collector.DocsPositions) (ps : List (SV.WPath.DocID × SV.WPath.Pos)) : Prop :=
  ∀ id, dp.lookup id = SV.WPath.lookupPos ps id

theorem seedsSameMap_insert (dp : SV.Collector.DocsPositions) (ps : List (SV.WPath.DocID × SV.WPath.Pos)) (id : Nat × Nat)
    (p : Nat × Nat) (h : SeedsSameMap dp ps) (hn : SV.WPath.lookupPos ps id = none) :
    SeedsSameMap ((id, p) :: dp) (ps ++ [(id, p)]) := by
  intro j
  have hj := h j
  simp only [SV.WPath.lookupPos, List.find?_append, List.lookup_cons] at *
  by_cases e : j = id
  · subst e
    simp only [Option.map_eq_none_iff] at hn
    simp [hn]
  · have e' : ¬ id = j := fun x => e x.symm
    have e2 : (j == id) = false := by simpa using e
    simp [e2, e', hj]

/-- `SetMultiple`: same resulting map and same `appended` slice.  Representation: `SeedsSameMap` for the map argument /
result, `ids.zip poss` for the argument lists, `appendedIDs` for the flags. -/
theorem cons_seeds_collector_setMultiple_eq_wpath_setMultiple (ids : List (Nat × Nat)) (poss : List (Nat × Nat))
    (dp : SV.Collector.DocsPositions) (ps : List (SV.WPath.DocID × SV.WPath.Pos)) (h : SeedsSameMap dp ps) :
    SeedsSameMap (SV.Collector.setMultiple dp ids poss).1 (SV.WPath.setMultiple ps (ids.zip poss)).1 ∧
    (SV.Collector.setMultiple dp ids poss).2 = SV.WPath.appendedIDs (ids.zip poss) (SV.WPath.setMultiple ps (ids.zip poss)).2 := by
  induction ids generalizing poss dp ps with
  | nil => simp [SV.Collector.setMultiple, SV.WPath.setMultiple, SV.WPath.appendedIDs]; exact h
  | cons id ids ih =>
    match poss with
    | [] => simp [SV.Collector.setMultiple, SV.WPath.setMultiple, SV.WPath.appendedIDs]; exact h
    | p :: poss =>
      have hid := h id
      simp only [List.zip_cons_cons, SV.Collector.setMultiple, SV.WPath.setMultiple]
      cases hl : SV.WPath.lookupPos ps id with
      | none =>
        rw [hl] at hid
        have := ih poss _ _ (seedsSameMap_insert dp ps id p h hl)
        simp only [hid, SV.WPath.appendedIDs, if_true]
        exact ⟨this.1, by rw [this.2]⟩
      | some q =>
        rw [hl] at hid
        have := ih poss _ _ h
        simp only [hid, SV.WPath.appendedIDs]
        by_cases e : q = p
        · simp only [e, if_true, decide_true]
          exact ⟨this.1, by rw [this.2]⟩
        · simp only [e, if_false, decide_false]
          exact ⟨this.1, by simpa using this.2⟩

example : SeedsSameMap [] [] := fun _ => rfl

end SV.Consistency
