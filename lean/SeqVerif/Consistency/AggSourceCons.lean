import SeqVerif.Model.AggSource
import SeqVerif.Model.AggLimits
import SeqVerif.Model.Nodes
/-!
# Consistency (wave 4): `SourcedNodeIterator.ValueBySource` (frac/processor/aggregator.go:405) - C05 vs C06

* C05 `SV.AggSource.valueBySource rk wk tokens tids count cache source` (Model/AggSource.lean): the token text is
  `tokens[tids[source]]`, the cache is read under `rk source` and written under `wk source` (two parameters so that a
  key mix-up can be expressed; the source uses `source` for both: aggregator.go:411 and :416), look-up by `List.find?`;
* C06 `SV.Agg.valueBySource count val cache source` (Model/AggLimits.lean): the token text is an abstract `val source`,
  the cache is read and written under `source`, look-up by `List.lookup`.

YES: AggSource is a second model of the same Go function.  They are EQUAL on all inputs at `rk = wk = id` (what Go
does) with `val s := tokens[tids[s]]`; same threshold `countBySource[source] < 2`; same cache representation (assoc
list, newest first).  No disagreement.  `rk ≠ wk` exists only in C05 (`valueBySource_mismatch_witness` there shows it is
wrong) - outside the common domain and not what /repo does.
NOT duplicated: `ConsumeTokenSource` (`SV.Agg.consume`, `walk`, `events`, Model/Agg.lean, AggWalk.lean, AggLimits.lean
`consumeLim`) is modelled only in C06; C05's AggSource does not touch it.  The aggregators of Model/Agg.lean take the
token text as a function `gval : Nat → String` (source -> text): that function is `val` below.
C06's round-6 "OR duplicate-free" addition (`c06_or_stream_duplicate_free`, Props/C06.lean) re-defines nothing: it is
stated over `SV.orMerge` of Model/Nodes.lean itself and `SV.Agg.LidsSorted` (= `SV.SortedBy`,
`cons_nodes_lidsSorted_agg_eq_sortedBy` in Consistency/Nodes.lean); restated at model level in one line at the end.
The "handler layer" of that round is harness-only (agg.e2e), no Lean definition.
-/
namespace SV.Consistency
open SV

/-- the abstract `val` of C06 for the concrete token table of C05: `string(ti.GetValByTID(tids[source]))` -/
def aggsourceVal (tokens : List String) (tids : List Nat) : Nat → String :=
  fun s => SV.AggSource.tokenOf tokens (tids.getD s 0)

/-- `tokensCache[k]`: C05's `lookup` (by `find?`) = core `List.lookup` used by C06; all inputs -/
theorem cons_aggsource_lookup_eq_list_lookup (cache : List (Nat × String)) (k : Nat) :
    SV.AggSource.lookup cache k = cache.lookup k := by
  induction cache with
  | nil => rfl
  | cons x rest ih =>
    obtain ⟨a, v⟩ := x
    unfold SV.AggSource.lookup at ih ⊢
    by_cases h : a = k
    · subst h; simp [List.lookup]
    · have hb : (k == a) = false := by simp; exact fun e => h e.symm
      simp only [List.find?_cons, h, decide_false, List.lookup, hb]
      exact ih

/-- **`ValueBySource`, C05 = C06**: with the key `source` for the read and the write (as in /repo) and
`val s = tokens[tids[s]]`, the two models return the same text and the same cache; ALL inputs (any cache, coherent or
not, any counts). -/
theorem cons_aggsource_valueBySource_c05_eq_c06 (tokens : List String) (tids : List Nat) (count : Nat → Nat)
    (cache : List (Nat × String)) (source : Nat) :
    SV.AggSource.valueBySource id id tokens tids count cache source =
      SV.Agg.valueBySource count (aggsourceVal tokens tids) cache source := by
  unfold SV.AggSource.valueBySource SV.Agg.valueBySource aggsourceVal
  rw [cons_aggsource_lookup_eq_list_lookup]
  rfl

/-- the coherence invariants are the same predicate -/
theorem cons_aggsource_cacheOK_c05_eq_c06 (tokens : List String) (tids : List Nat) (cache : List (Nat × String)) :
    SV.AggSource.CacheOK tokens tids cache ↔ SV.Agg.CacheOk (aggsourceVal tokens tids) cache := by
  unfold SV.AggSource.CacheOK SV.Agg.CacheOk aggsourceVal
  constructor
  · intro h kv hkv; exact h kv.1 kv.2 hkv
  · intro h k v hkv; exact h (k, v) hkv

/-- hence the two "the cache is an identity / an optimisation" theorems (`SV.AggSource.valueBySource_id`,
`SV.Agg.valueBySource_eq`) are one statement; derived here from the C06 one through the equality -/
theorem cons_aggsource_valueBySource_id_from_c06 (tokens : List String) (tids : List Nat) (count : Nat → Nat)
    (cache : List (Nat × String)) (source : Nat) (h : SV.AggSource.CacheOK tokens tids cache) :
    (SV.AggSource.valueBySource id id tokens tids count cache source).1 = SV.AggSource.tokenOf tokens (tids.getD source 0) ∧
    SV.AggSource.CacheOK tokens tids (SV.AggSource.valueBySource id id tokens tids count cache source).2 := by
  rw [cons_aggsource_valueBySource_c05_eq_c06]
  have := SV.Agg.valueBySource_eq count (aggsourceVal tokens tids) cache source
    ((cons_aggsource_cacheOK_c05_eq_c06 tokens tids cache).mp h)
  exact ⟨this.1, (cons_aggsource_cacheOK_c05_eq_c06 tokens tids _).mpr this.2⟩

example : SV.AggSource.CacheOK ["x", "y"] [1, 0] [(0, "y")] := by
  intro k v h; simp at h; obtain ⟨rfl, rfl⟩ := h; decide

/-- the token text the C06 aggregators receive as `gval source` (Model/Agg.lean `countRun gval`, `twoRun .. gval`) is,
for a coherent cache, what C05's `ValueBySource` returns - whatever was looked up before -/
theorem cons_aggsource_gval_eq_valueBySource (tokens : List String) (tids : List Nat) (count : Nat → Nat)
    (cache : List (Nat × String)) (h : SV.AggSource.CacheOK tokens tids cache) (source : Nat) :
    aggsourceVal tokens tids source = (SV.AggSource.valueBySource id id tokens tids count cache source).1 :=
  (SV.AggSource.valueBySource_id tokens tids count cache source h).1.symm

/-- outside the common domain: a read key different from the write key (C05's parameters only).  C06 cannot express
it; /repo reads and writes under `source`, so `id id` is the Go side.  (C05's own witness, restated against C06.) -/
theorem cons_aggsource_key_mismatch_ne_c06_witness :
    (SV.AggSource.valueBySource (fun s => [1, 0].getD s 0) id ["x", "y"] [1, 0] (fun _ => 2) [(0, "y")] 1).1 = "y" ∧
    (SV.Agg.valueBySource (fun _ => 2) (aggsourceVal ["x", "y"] [1, 0]) [(0, "y")] 1).1 = "x" := by decide

/-- model-level form of `c06_or_stream_duplicate_free` (Props/C06.lean): C06 uses C02's `orMerge` itself -/
theorem cons_aggsource_or_stream_sorted (rev : Bool) (xs ys : List Nat) (hx : SV.SortedBy rev xs) (hy : SV.SortedBy rev ys) :
    SV.Agg.LidsSorted rev (SV.orMerge rev xs ys) := SV.orMerge_sorted rev xs ys hx hy

end SV.Consistency
