import SeqVerif.Model.PatternSpecTree
import SeqVerif.Model.RangeGo
import SeqVerif.Model.AggRun
/-!
# Model consistency, topic (c): numeric reading of a token, range leaves, glob matching

Inventory (who models what) and the equalities between separately written definitions.

## "the number of a token" (`strconv.ParseFloat` + `isNaNOrInf`, pattern/pattern.go, frac/processor/aggregator.go:parseNum)
* `SV.Spec.numVal` (Spec/Store.lean): a FIXED reading, decimal integers `-?[0-9]+`;
* `num : Bytes → Option Int` oracle of `SV.Spec.*With` (Spec/StoreNum.lean) and `SV.EvalTree.*With` (Model/EvalTreeWith.lean):
  the same parameter, Spec side and model side SHARE `Leaf.valMatchWith` (no duplicate);
* `pf : Bytes → Option Int` oracle of `SV.Pattern` (Model/Pattern.lean): an ORDER KEY of the finite float (bounded by `maxKey`);
* `fval : Nat → Option Int` oracle of `SV.Agg` (Model/Agg.lean): `parseNum (ValueBySource src)`, the EXACT VALUE (integer-valued data).
All theorems below that involve two oracle-parametric sides are stated for THE SAME oracle passed to both
(`num := pf`, `fval := pf ∘ val`).  The fixed `numVal` is related to the oracle by `Pattern.NumAgree` (same domain, same order).

## range leaf representations (three types, one semantics)
* `SV.Spec.Leaf.range field lo incLo hi incHi` (`none` = `*`) with `Leaf.valMatch` / `Leaf.valMatchWith` - also the leaf
  type of `SV.EvalTree` (Model/EvalTree.lean imports the Spec type: shared);
* `SV.Pattern.Token.range ⟨from_, to, includeFrom, includeTo⟩` with `rangeCheck` = `newRangeNumberSearch`/`NumRange.check`/`Range.checkText`;
* `SV.Parser.Leaf.range field from to incFrom incTo` with `Term.sym` (Model/SeqQLFilter.lean): syntax only, no match function;
  it lives in `NumValParser.lean` (conversion to the other two + well-formedness of the parser's term lists).

## glob matching
* `SV.Spec.globMatch` (Spec/Store.lean), `SV.Pattern.Glob` / `globB` (Model/PatternGlob.lean), `SV.Pattern.checkTerms`
  (`literalSearch.check` / `wildcardSearch.check`, Model/Pattern.lean), `SV.Greedy.findEnd` / `findSeq` / `Mid` (Model/Greedy.lean),
  `SV.Kmp.findSubstring` / `findSequence` (Model/Kmp.lean, pattern/substring.go).
-/
namespace SV.Consistency
open SV

/-! ## 1. terms: `Spec.Term` vs `Pattern.Term` -/

/-- inverse of `Pattern.specTerm` -/
def patTermOfSpec : Spec.Term → Pattern.Term
  | .text b => .text b
  | .star => .star

theorem cons_glob_specTerm_patTermOfSpec (t : Spec.Term) : Pattern.specTerm (patTermOfSpec t) = t := by
  cases t <;> rfl

theorem cons_glob_patTermOfSpec_specTerm (t : Pattern.Term) : patTermOfSpec (Pattern.specTerm t) = t := by
  cases t <;> rfl

theorem cons_glob_specTerms_patTermOfSpec (ts : List Spec.Term) : Pattern.specTerms (ts.map patTermOfSpec) = ts := by
  simp only [Pattern.specTerms, List.map_map]
  conv => rhs; rw [← List.map_id ts]
  apply List.map_congr_left
  intro t _
  exact cons_glob_specTerm_patTermOfSpec t

/-! ## 2. glob: Spec matcher = C13's declarative `Glob` = C13's executable `globB` = the searchers' `check` -/

/-- `Spec.globMatch` (Spec/Store.lean) = `Pattern.globB` (Model/PatternGlob.lean) under `Pattern.specTerms`
(`text d ↦ text d`, `star ↦ star`); all term lists, all tokens.  Re-export of `Pattern.spec_globMatch_eq`. -/
theorem cons_glob_spec_globMatch_eq_pattern_globB (ts : List Pattern.Term) (v : Pattern.Bytes) :
    Spec.globMatch (Pattern.specTerms ts) v = Pattern.globB ts v := Pattern.spec_globMatch_eq ts v

/-- the same from the Spec side: every Spec term list is the image of a pattern term list (`patTermOfSpec`) -/
theorem cons_glob_spec_globMatch_eq_pattern_globB_specTerms (ts : List Spec.Term) (v : Spec.Bytes) :
    Spec.globMatch ts v = Pattern.globB (ts.map patTermOfSpec) v := by
  rw [← cons_glob_spec_globMatch_eq_pattern_globB, cons_glob_specTerms_patTermOfSpec]

/-- `Spec.globMatch` = the inductive `Pattern.Glob`.  Re-export of `Pattern.spec_globMatch_iff`. -/
theorem cons_glob_spec_globMatch_iff_pattern_Glob (ts : List Pattern.Term) (v : Pattern.Bytes) :
    Spec.globMatch (Pattern.specTerms ts) v = true ↔ Pattern.Glob ts v := Pattern.spec_globMatch_iff ts v

/-- `Pattern.globB` = `Pattern.Glob`.  Re-export of `Pattern.globB_iff`. -/
theorem cons_glob_pattern_globB_iff_Glob (ts : List Pattern.Term) (v : Pattern.Bytes) :
    Pattern.globB ts v = true ↔ Pattern.Glob ts v := Pattern.globB_iff ts v

/-- `newSearcher(...).check` for a literal token (`literalSearch` / `wildcardSearch`, pattern/pattern.go; Lean
`Pattern.checkTerms`, not narrowed) = `Spec.globMatch`, on the term lists the parsers produce (`Pattern.WF`: non-empty, no two
adjacent text terms, no empty text strictly inside - proved for the SeqQL term builders in `NumValParser.lean`).
Composition of `Pattern.checkTerms_iff_glob` and `Pattern.spec_globMatch_iff`.  In particular the Go code does not panic. -/
theorem cons_glob_pattern_checkTerms_eq_spec_globMatch (terms : List Pattern.Term) (hwf : Pattern.WF terms)
    (v : Pattern.Bytes) :
    Pattern.checkTerms terms false v = some (Spec.globMatch (Pattern.specTerms terms) v) := by
  obtain ⟨b, hb, hbg⟩ := Pattern.checkTerms_iff_glob terms hwf v
  rw [hb]
  congr 1
  rw [Bool.eq_iff_iff, hbg, Pattern.spec_globMatch_iff]

example : Pattern.WF [.text [97, 98], .star, .star, .text [99], .star, .text [98, 97]] := by unfold Pattern.WF; decide

/-- the domain restriction `WF` cannot be dropped (1): two adjacent text terms `a` `b` - `wildcardSearch` takes `a` as prefix
and `b` as suffix and accepts `axb`; the Spec glob wants exactly `ab`.  The Go parsers never produce this list. -/
theorem cons_glob_pattern_checkTerms_ne_spec_globMatch_adjacent_text_witness :
    Pattern.checkTerms [.text [97], .text [98]] false [97, 120, 98] = some true ∧
    Spec.globMatch (Pattern.specTerms [.text [97], .text [98]]) [97, 120, 98] = false := by decide

/-- the domain restriction `WF` cannot be dropped (2): an empty text term strictly inside (`*""*`) makes
`newSubstringPattern("")` panic in Go (`none`), the Spec glob is total -/
theorem cons_glob_pattern_checkTerms_ne_spec_globMatch_empty_middle_witness :
    Pattern.checkTerms [.star, .text [], .star] false [97] = none ∧
    Spec.globMatch (Pattern.specTerms [.star, .text [], .star]) [97] = true := by decide

/-! ### fragments: KMP (`pattern/substring.go`) = greedy specification = "occur in order" = Spec glob `*m1*m2*..*` -/

/-- `pattern.findSubstring` (Lean `Kmp.findSubstring`, Model/Kmp.lean) = `Greedy.findEnd` (Model/Greedy.lean): index just after the
leftmost occurrence.  Domain: non-empty fragment (Go panics on an empty one: `newSubstringPattern [] = none`).
Re-export of `Kmp.kmp_first_occurrence`. -/
theorem cons_glob_kmp_findSubstring_eq_greedy_findEnd (p s : List Nat) (hp : p ≠ []) :
    Kmp.findSubstring s ⟨p, Kmp.calcPrefFunc p⟩ = Greedy.findEnd p s := Kmp.kmp_first_occurrence p s hp

example : ([97, 98] : List Nat) ≠ [] := by decide

/-- outside the domain (empty fragment, a Go panic) the two total Lean functions differ: KMP's loop never reports a match of
length 0 before reading a byte, the greedy specification finds the empty fragment at once -/
theorem cons_glob_kmp_findSubstring_ne_greedy_findEnd_empty_witness :
    Kmp.findSubstring [] ⟨[], Kmp.calcPrefFunc []⟩ = none ∧ Greedy.findEnd [] [] = some 0 := by decide

/-- `pattern.findSequence(..) == len(to)` (Lean `Kmp.findSequence`) = `Greedy.findSeq`; `newSubstringPatterns ms = some sps`
says that no fragment is empty (no panic).  Re-export of `Pattern.findSequence_eq_findSeq`. -/
theorem cons_glob_kmp_findSequence_eq_greedy_findSeq (ms : List Pattern.Bytes) (sps : List Kmp.SubPat)
    (h : Kmp.newSubstringPatterns ms = some sps) (s : List Nat) :
    (Kmp.findSequence s sps == sps.length) = Greedy.findSeq ms s := Pattern.findSequence_eq_findSeq ms sps h s

example : ∃ sps, Kmp.newSubstringPatterns [[97], [98, 99]] = some sps :=
  Pattern.newSubstringPatterns_some _ (by decide)

/-- `Greedy.findSeq` = `Greedy.Mid` (the fragments occur in order, non-overlapping).  Re-export of `Greedy.findSeq_iff_mid`. -/
theorem cons_glob_greedy_findSeq_iff_mid (ms : List (List Nat)) (s : List Nat) :
    Greedy.findSeq ms s = true ↔ Greedy.Mid ms s := Greedy.findSeq_iff_mid ms s

/-- the glob `*m1*m2*...*mk*` -/
def starred : List (List Nat) → List Pattern.Term
  | [] => [.star]
  | m :: ms => .star :: .text m :: starred ms

theorem cons_glob_greedy_mid_iff_pattern_Glob (ms : List (List Nat)) (s : List Nat) :
    Greedy.Mid ms s ↔ Pattern.Glob (starred ms) s := by
  induction ms generalizing s with
  | nil =>
    simp only [Greedy.Mid, starred, true_iff]
    rw [Pattern.glob_star_iff]
    exact ⟨s, [], by simp, Pattern.Glob.nil⟩
  | cons m ms ih =>
    simp only [Greedy.Mid, starred]
    rw [Pattern.glob_star_iff]
    constructor
    · rintro ⟨x, rest, hs, hr⟩
      refine ⟨x, m ++ rest, by rw [hs, List.append_assoc], ?_⟩
      rw [Pattern.glob_text_iff]
      exact ⟨rest, rfl, (ih rest).mp hr⟩
    · rintro ⟨x, w, hs, hg⟩
      rw [Pattern.glob_text_iff] at hg
      obtain ⟨rest, hw, hr⟩ := hg
      exact ⟨x, rest, by rw [hs, hw, List.append_assoc], (ih rest).mpr hr⟩

/-- **`Greedy.findSeq` (the specification of pattern.findSequence) = the Spec glob matcher on `*m1*m2*..*mk*`**, all fragment
lists, all strings.  New link (Greedy/Kmp were only tied to the Spec through `wildcardSearch.check`). -/
theorem cons_glob_greedy_findSeq_eq_spec_globMatch (ms : List (List Nat)) (s : List Nat) :
    Greedy.findSeq ms s = Spec.globMatch (Pattern.specTerms (starred ms)) s := by
  rw [Bool.eq_iff_iff, Greedy.findSeq_iff_mid, cons_glob_greedy_mid_iff_pattern_Glob, Pattern.spec_globMatch_iff]

/-- KMP `findSequence` = the Spec glob matcher on `*m1*..*mk*` (non-empty fragments) -/
theorem cons_glob_kmp_findSequence_eq_spec_globMatch (ms : List Pattern.Bytes) (sps : List Kmp.SubPat)
    (h : Kmp.newSubstringPatterns ms = some sps) (s : List Nat) :
    (Kmp.findSequence s sps == sps.length) = Spec.globMatch (Pattern.specTerms (starred ms)) s := by
  rw [Pattern.findSequence_eq_findSeq ms sps h, cons_glob_greedy_findSeq_eq_spec_globMatch]

/-! ## 3. byte order (text ranges): `Spec.bytesLt/bytesLe` vs `Pattern.bcmp` -/

/-- Go's `<` on strings: `Spec.bytesLt` = `Pattern.bcmp .. == .lt` (`bytes.Compare`).  Re-export of `Pattern.spec_bytesLt_eq`
(`Consistency/BinSearch.lean` relates both to `C03.lexLT`). -/
theorem cons_numval_spec_bytesLt_eq_pattern_bcmp (a b : Pattern.Bytes) : Spec.bytesLt a b = (Pattern.bcmp a b == .lt) :=
  Pattern.spec_bytesLt_eq a b

theorem cons_numval_spec_bytesLe_eq_pattern_bcmp (a b : Pattern.Bytes) : Spec.bytesLe a b = (Pattern.bcmp a b != .gt) :=
  Pattern.spec_bytesLe_eq a b

/-! ## 4. range leaves: `Pattern.rangeCheck` vs `Spec.Leaf.valMatchWith` / `valMatch` -/

/-- inverse direction of `Pattern.specLeaf`: a Spec leaf as a pattern-package token -/
def patTokenOfSpec : Spec.Leaf → Pattern.Token
  | .lit _ ts => .literal (ts.map patTermOfSpec)
  | .range _ lo il hi ih => .range ⟨lo, hi, il, ih⟩

/-- `specLeaf` and `patTokenOfSpec` are inverse (the field is carried separately on the pattern side) -/
theorem cons_numval_specLeaf_patTokenOfSpec (l : Spec.Leaf) : Pattern.specLeaf l.field (patTokenOfSpec l) = l := by
  cases l with
  | lit f ts => simp only [patTokenOfSpec, Pattern.specLeaf, Spec.Leaf.field, cons_glob_specTerms_patTermOfSpec]
  | range f lo il hi ih => rfl

theorem cons_numval_patTokenOfSpec_specLeaf (field : Pattern.Bytes) (t : Pattern.Token) :
    patTokenOfSpec (Pattern.specLeaf field t) = t := by
  cases t with
  | literal ts =>
    simp only [patTokenOfSpec, Pattern.specLeaf, Pattern.specTerms, List.map_map]
    congr 1
    conv => rhs; rw [← List.map_id ts]
    apply List.map_congr_left
    intro t _
    exact cons_glob_patTermOfSpec_specTerm t
  | range r => rfl

/-- text branch (`rangeTextSearch.check`): `Pattern.Range.checkText` = the Spec's byte-order comparison; `none` (`*`) = unbounded
on both sides, `include..` = closed end on both sides.  Re-export of `Pattern.checkText_eq_spec`. -/
theorem cons_numval_pattern_checkText_eq_spec (r : Pattern.Range) (v : Pattern.Bytes) :
    r.checkText v =
      ((match r.from_ with | none => true | some l => if r.includeFrom then Spec.bytesLe l v else Spec.bytesLt l v) &&
       (match r.to with | none => true | some h => if r.includeTo then Spec.bytesLe v h else Spec.bytesLt v h)) :=
  Pattern.checkText_eq_spec r v

/-- **range check of the pattern package = the Spec's range leaf, SAME oracle `pf` on both sides**
(`NewRangeNumberSearch` / `rangeNumberSearch.check` / `rangeTextSearch.check` vs `Spec.Leaf.valMatchWith pf`): every range, every
token.  Representation change: `Pattern.specLeaf`.  Domain: the order keys are bounded by `maxKey` = key of `MaxFloat64`
(the code models `*` as `±MaxFloat64` inclusive; the Spec as "no bound").  Re-export of `Pattern.rangeCheck_eq_specWith`. -/
theorem cons_numval_pattern_rangeCheck_eq_spec_valMatchWith (pf : Pattern.Bytes → Option Int) (maxKey : Int)
    (hb : ∀ b x, pf b = some x → -maxKey ≤ x ∧ x ≤ maxKey) (field : Pattern.Bytes) (r : Pattern.Range) (v : Pattern.Bytes) :
    Pattern.rangeCheck pf maxKey r v = (Pattern.specLeaf field (.range r)).valMatchWith pf v :=
  Pattern.rangeCheck_eq_specWith pf maxKey hb field r v

/-- the same read from the Spec side: for every Spec range leaf -/
theorem cons_numval_spec_valMatchWith_eq_pattern_rangeCheck (pf : Spec.Bytes → Option Int) (maxKey : Int)
    (hb : ∀ b x, pf b = some x → -maxKey ≤ x ∧ x ≤ maxKey) (f : Spec.Bytes) (lo hi : Option Spec.Bytes) (il ih : Bool)
    (v : Spec.Bytes) :
    (Spec.Leaf.range f lo il hi ih).valMatchWith pf v = Pattern.rangeCheck pf maxKey ⟨lo, hi, il, ih⟩ v :=
  (Pattern.rangeCheck_eq_specWith pf maxKey hb f ⟨lo, hi, il, ih⟩ v).symm

/-- non-vacuity of `hb`: a table oracle with keys inside `±100` -/
example : ∀ b x, (fun b : List Nat => if b = [49] then some (1 : Int) else if b = [57] then some 9 else none) b = some x →
    -100 ≤ x ∧ x ≤ 100 := by
  intro b x h
  simp only at h
  split at h
  · cases h; omega
  · split at h
    · cases h; omega
    · cases h

/-- the bound `hb` cannot be dropped: with an unbounded reading (here the Spec's own `numVal`) and a finite `maxKey` the code-shaped
model rejects a token beyond `maxKey` in `[* TO *]`, the Spec accepts it.  (Model artefact only: real float keys ARE bounded by the
key of `MaxFloat64`, and `ParseFloat` maps larger decimals to `Inf` = not a number.) -/
theorem cons_numval_pattern_rangeCheck_ne_spec_valMatchWith_unbounded_key_witness :
    Pattern.rangeCheck Spec.numVal 100 ⟨none, none, true, true⟩ [49, 48, 49] = false ∧
    (Pattern.specLeaf [] (.range ⟨none, none, true, true⟩)).valMatchWith Spec.numVal [49, 48, 49] = true := by decide

/-- every searcher kind the pattern package builds (`newSearcher`) checks exactly the Spec leaf under the same oracle: literals /
wildcards on well-formed term lists, ranges under the key bound.  Re-export of `Pattern.kind_eq_specWith`. -/
theorem cons_numval_pattern_kind_check_eq_spec_valMatchWith (pf : Pattern.Bytes → Option Int) (maxKey : Int)
    (field : Pattern.Bytes) (token : Pattern.Token) (hok : Pattern.SpecOKWith pf maxKey token) :
    ∃ k, Pattern.kindOf pf maxKey token = some k ∧ ∀ v, k.check pf v = (Pattern.specLeaf field token).valMatchWith pf v :=
  Pattern.kind_eq_specWith pf maxKey field token hok

/-- C13's declarative range rule (`Pattern.EndsNumeric` / `InNumeric` / `InText`, Model/PatternRange.lean: "numeric iff every given end
is a finite number, else text") = the Spec's range leaf under the same oracle.  Composition of `Pattern.range_iff` and
`Pattern.rangeCheck_eq_specWith`. -/
theorem cons_numval_spec_valMatchWith_iff_pattern_range_rule (pf : Pattern.Bytes → Option Int) (maxKey : Int)
    (hb : ∀ b x, pf b = some x → -maxKey ≤ x ∧ x ≤ maxKey) (field : Pattern.Bytes) (r : Pattern.Range) (v : Pattern.Bytes) :
    (Pattern.specLeaf field (.range r)).valMatchWith pf v = true ↔
      (Pattern.EndsNumeric pf r ∧ Pattern.InNumeric pf r v) ∨ (¬ Pattern.EndsNumeric pf r ∧ Pattern.InText r v) := by
  rw [← Pattern.rangeCheck_eq_specWith pf maxKey hb field r v]
  exact Pattern.range_iff pf maxKey hb r v

/-- the two "reference answers" of C13 for a literal token - `Pattern.globTids` (filter by `globB`, Model/PatternTop.lean) and
`Pattern.specTids` (filter by the Spec leaf, Model/PatternSpec.lean) - are the same list -/
theorem cons_glob_pattern_globTids_eq_specTids (field : Pattern.Bytes) (terms : List Pattern.Term) (base : Nat)
    (dict : List Pattern.Bytes) :
    Pattern.globTids terms base dict = Pattern.specTids (Pattern.specLeaf field (.literal terms)) base dict := by
  simp only [Pattern.globTids, Pattern.specTids, Pattern.specLeaf, Spec.Leaf.valMatch, Pattern.spec_globMatch_eq]

/-- the fixed Spec is the instance `num = numVal` of the parametric one (shared definition, by unfolding).
Re-export of `Spec.valMatchWith_numVal`. -/
theorem cons_numval_spec_valMatchWith_numVal_eq_valMatch (l : Spec.Leaf) (v : Spec.Bytes) :
    l.valMatchWith Spec.numVal v = l.valMatch v := Spec.valMatchWith_numVal l v

/-- **range check under the ParseFloat oracle = the FIXED Spec (`numVal`)**, on a set `S` of strings (the two ends and the token)
where `pf` and `numVal` have the same domain and the same order (`Pattern.NumAgree`).  Re-export of `Pattern.rangeCheck_eq_spec`. -/
theorem cons_numval_pattern_rangeCheck_eq_spec_valMatch (pf : Pattern.Bytes → Option Int) (maxKey : Int)
    (hb : ∀ b x, pf b = some x → -maxKey ≤ x ∧ x ≤ maxKey) (S : Pattern.Bytes → Prop) (hag : Pattern.NumAgree pf S)
    (field : Pattern.Bytes) (r : Pattern.Range) (hf : ∀ f, r.from_ = some f → S f) (ht : ∀ t, r.to = some t → S t)
    (v : Pattern.Bytes) (hv : S v) :
    Pattern.rangeCheck pf maxKey r v = (Pattern.specLeaf field (.range r)).valMatch v :=
  Pattern.rangeCheck_eq_spec pf maxKey hb S hag field r hf ht v hv

/-- non-vacuity of `NumAgree`: any oracle agrees with `numVal` on the empty set of strings; and the table oracle `"1" ↦ 1, "9" ↦ 9`
agrees with it on `{"1", "9"}` -/
example : Pattern.NumAgree (fun b : List Nat => if b = [49] then some (1 : Int) else if b = [57] then some 9 else none)
    (fun s => s = [49] ∨ s = [57]) := by
  constructor
  · rintro s (rfl | rfl) <;> decide
  · rintro s t x y a b (rfl | rfl) (rfl | rfl) h1 h2 h3 h4 <;>
      simp only [Spec.numVal, Spec.digitsVal] at h3 h4 <;> simp at h1 h2 h3 h4 <;> omega

/-! ### FINDING (known, documented in Props/C13.lean as anonymous examples): the fixed reading `Spec.numVal` (decimal integers)
and the code's `strconv.ParseFloat` differ outside `-?[0-9]+` / beyond 2^53.  Go (pattern/pattern.go:233 `ParseFloat`) is what the
`pf`-side models; C02/C03/C13 therefore state their end-to-end theorems for `valMatchWith pf`, and `Spec.search` (= `numVal`) is
exact only for stores whose numeric tokens are plain decimal integers below 2^53.  Each `pf` is a table of what ParseFloat
answers (order keys). -/

/-- W1 `[1 TO 2]`, token `1.5`: Go accepts (numeric compare), the fixed Spec rejects (`1.5` is no `numVal` number) -/
theorem cons_numval_pattern_rangeCheck_ne_spec_valMatch_fraction_witness :
    Pattern.rangeCheck (fun b => if b = [49] then some 10 else if b = [50] then some 20 else if b = [49, 46, 53] then some 15 else none)
      100 ⟨some [49], some [50], true, true⟩ [49, 46, 53] = true ∧
    (Pattern.specLeaf [] (.range ⟨some [49], some [50], true, true⟩)).valMatch [49, 46, 53] = false := by decide

/-- W2 `[1.5 TO 2]`, token `100`: Go is numeric (rejects), the fixed Spec falls back to text comparison (accepts) -/
theorem cons_numval_pattern_rangeCheck_ne_spec_valMatch_text_fallback_witness :
    Pattern.rangeCheck (fun b => if b = [49, 46, 53] then some 15 else if b = [50] then some 20 else if b = [49, 48, 48] then some 1000 else none)
      10000 ⟨some [49, 46, 53], some [50], true, true⟩ [49, 48, 48] = false ∧
    (Pattern.specLeaf [] (.range ⟨some [49, 46, 53], some [50], true, true⟩)).valMatch [49, 48, 48] = true := by decide

/-- W3 `(9007199254740992 TO *]`, token `9007199254740993`: equal as float64 (Go rejects), different as integers (Spec accepts) -/
theorem cons_numval_pattern_rangeCheck_ne_spec_valMatch_precision_witness :
    Pattern.rangeCheck (fun b => if b = [57,48,48,55,49,57,57,50,53,52,55,52,48,57,57,50] ∨ b = [57,48,48,55,49,57,57,50,53,52,55,52,48,57,57,51]
        then some 4845873199050653696 else none)
      Pattern.maxFloatKey ⟨some [57,48,48,55,49,57,57,50,53,52,55,52,48,57,57,50], none, false, true⟩
        [57,48,48,55,49,57,57,50,53,52,55,52,48,57,57,51] = false ∧
    (Pattern.specLeaf [] (.range ⟨some [57,48,48,55,49,57,57,50,53,52,55,52,48,57,57,50], none, false, true⟩)).valMatch
        [57,48,48,55,49,57,57,50,53,52,55,52,48,57,57,51] = true := by decide

/-! ### explicit rules shared by the two sides (consequences of the equalities, stated once for reference) -/

/-- `*` on both ends: the range is NUMERIC on both sides and matches exactly the tokens that parse
(Go: `from = -MaxFloat64`, `to = MaxFloat64`, both inclusive) -/
theorem cons_numval_range_star_star (pf : Pattern.Bytes → Option Int) (maxKey : Int)
    (hb : ∀ b x, pf b = some x → -maxKey ≤ x ∧ x ≤ maxKey) (i j : Bool) (v : Pattern.Bytes) :
    Pattern.rangeCheck pf maxKey ⟨none, none, i, j⟩ v = (pf v).isSome ∧
    (Spec.Leaf.range [] none i none j).valMatchWith pf v = (pf v).isSome := by
  have h2 : (Spec.Leaf.range [] none i none j).valMatchWith pf v = (pf v).isSome := by
    simp only [Spec.Leaf.valMatchWith, Spec.boundIsNumWith, Bool.and_self, if_true, Option.bind]
    cases pf v <;> rfl
  refine ⟨?_, h2⟩
  rw [← h2]
  exact Pattern.rangeCheck_eq_specWith pf maxKey hb [] ⟨none, none, i, j⟩ v

/-- a token that is no number never matches a numeric range (both given ends parse), on both sides -/
theorem cons_numval_range_nonnumeric_token (pf : Pattern.Bytes → Option Int) (maxKey : Int) (r : Pattern.Range)
    (hf : ∀ f, r.from_ = some f → (pf f).isSome = true) (ht : ∀ t, r.to = some t → (pf t).isSome = true)
    (v : Pattern.Bytes) (hv : pf v = none) :
    Pattern.rangeCheck pf maxKey r v = false ∧ (Pattern.specLeaf [] (.range r)).valMatchWith pf v = false := by
  obtain ⟨f, t, fi, ti⟩ := r
  constructor
  · simp only [Pattern.rangeCheck, Pattern.newRangeNumberSearch]
    cases f with
    | none =>
      cases t with
      | none => simp [Pattern.NumRange.check, hv]
      | some t =>
        have := ht t rfl
        cases hpt : pf t with
        | none => rw [hpt] at this; cases this
        | some x => simp [Pattern.NumRange.check, hv, hpt]
    | some f =>
      have h1 := hf f rfl
      cases hpf : pf f with
      | none => rw [hpf] at h1; cases h1
      | some x =>
        cases t with
        | none => simp [Pattern.NumRange.check, hv, hpf]
        | some t =>
          have := ht t rfl
          cases hpt : pf t with
          | none => rw [hpt] at this; cases this
          | some y => simp [Pattern.NumRange.check, hv, hpf, hpt]
  · have h1 : Spec.boundIsNumWith pf f = true := by
      cases f with
      | none => rfl
      | some f => exact hf f rfl
    have h2 : Spec.boundIsNumWith pf t = true := by
      cases t with
      | none => rfl
      | some t => exact ht t rfl
    simp only [Pattern.specLeaf, Spec.Leaf.valMatchWith, h1, h2, Bool.and_self, if_true, hv]

/-! ## 5. the aggregation oracle `fval` (C06) vs the range oracle `pf` (C13): same domain -/

/-- `parseNum` (frac/processor/aggregator.go) and `rangeNumberSearch.check` (pattern/pattern.go) call the same
`strconv.ParseFloat` and reject NaN / Inf alike.  With THE SAME oracle on both sides (`fval := pf ∘ val`, `val` = `ValueBySource`)
the precondition `Agg.ParseOk` of C06's aggregation theorems ("no parse error") says exactly that every field token seen passes
the range filter `field:[* TO *]` of C13.  (`pf` is an order key for C13 and the exact value for C06; on integer-valued data -
the scope of C06's correspondence - the value itself is a valid key with `maxKey := ⌊MaxFloat64⌋`.) -/
theorem cons_numval_agg_ParseOk_iff_pattern_range_unbounded (pf : Pattern.Bytes → Option Int) (maxKey : Int)
    (hb : ∀ b x, pf b = some x → -maxKey ≤ x ∧ x ≤ maxKey) (val : Nat → Pattern.Bytes) (evs : List Agg.Ev) :
    Agg.ParseOk (fun s => pf (val s)) evs ↔
      ∀ ev, ev ∈ evs → ∀ s, ev.f = some s → Pattern.rangeCheck pf maxKey ⟨none, none, true, true⟩ (val s) = true := by
  unfold Agg.ParseOk
  constructor
  · intro h ev hev s hs
    rw [(cons_numval_range_star_star pf maxKey hb true true (val s)).1]
    exact h ev hev s hs
  · intro h ev hev s hs
    rw [← (cons_numval_range_star_star pf maxKey hb true true (val s)).1]
    exact h ev hev s hs

/-- the Spec's fixed reading is one admissible aggregation oracle: `numVal` yields integers, the data class on which C06's
exact-arithmetic model is faithful; a field token outside `-?[0-9]+` is a parse error for it -/
example : Agg.ParseOk (fun s => Spec.numVal ([[49, 50], [45, 55]].getD s [])) [⟨0, none, some 0⟩, ⟨0, none, some 1⟩, ⟨0, some 3, none⟩] := by
  intro ev hev s hs
  simp only [List.mem_cons, List.not_mem_nil, or_false] at hev
  rcases hev with rfl | rfl | rfl <;> simp at hs <;> subst hs <;> decide

/-! ## 6. C13 ∘ C02: the tokens a leaf selects -/

/-- `EvalTree.leafTokens` is the instance `num = numVal` of `leafTokensWith` (shared definition).  Re-export. -/
theorem cons_numval_evalTree_leafTokensWith_numVal_eq_leafTokens (idx : EvalTree.Index) (l : Spec.Leaf) :
    EvalTree.leafTokensWith Spec.numVal idx l = EvalTree.leafTokens idx l := EvalTree.leafTokensWith_numVal idx l

/-- the entries at the TIDs `pattern.Search` returns (any path, `Pattern.*_eq_specWith`) are C02's `leafTokensWith pf`, same oracle.
Re-export of `Pattern.pick_specTidsWith`. -/
theorem cons_numval_pattern_pick_eq_evalTree_leafTokensWith (pf : Pattern.Bytes → Option Int) (idx : EvalTree.Index)
    (field : Pattern.Bytes) (token : Pattern.Token) (base : Nat) :
    Pattern.pick idx field base (Pattern.specTidsWith pf (Pattern.specLeaf field token) base (Pattern.fieldDict idx field)) =
      EvalTree.leafTokensWith pf idx (Pattern.specLeaf field token) := Pattern.pick_specTidsWith pf idx field token base

/-- ... and from `pattern.Search` itself on the unordered provider over the field's dictionary -/
theorem cons_numval_pattern_search_eq_evalTree_leafTokensWith (pf : Pattern.Bytes → Option Int) (maxKey : Int)
    (idx : EvalTree.Index) (field : Pattern.Bytes) (token : Pattern.Token) (base : Nat)
    (hok : Pattern.SpecOKWith pf maxKey token) :
    (Pattern.search pf maxKey token ⟨base, Pattern.fieldDict idx field, false⟩).map (Pattern.pick idx field base) =
      some (EvalTree.leafTokensWith pf idx (Pattern.specLeaf field token)) := by
  rw [Pattern.search_eq_specWith pf maxKey field token base _ hok, Option.map_some, Pattern.pick_specTidsWith]

/-! ## 7. the LID range node (`node.NewRange`, C02/C05 borders) -/

/-- `nodeRange.Next` drained (`RangeGo.drain`, uint32 arithmetic of the Go code) = `SV.rangeNode` (Model/Nodes.lean, the list
`[lo..hi]` in iteration order) inside the uint32 range.  Re-export of `RangeGo.drain_eq_rangeNode`. -/
theorem cons_numval_rangeGo_drain_eq_nodes_rangeNode (rev : Bool) (lo hi : Nat) (h1 : 1 ≤ lo) (h2 : hi < RangeGo.maxU32)
    (h3 : lo ≤ RangeGo.maxU32) :
    RangeGo.drain rev (RangeGo.newRange rev lo hi).1 (hi + 2) (RangeGo.newRange rev lo hi).2 = (rangeNode rev lo hi, true) :=
  RangeGo.drain_eq_rangeNode rev lo hi h1 h2 h3

example : (1 : Nat) ≤ 1 ∧ 5 < RangeGo.maxU32 ∧ 1 ≤ RangeGo.maxU32 := by decide

/-- outside the domain the Go node wraps around (`uint32(cur)`), `rangeNode` does not: the hypotheses are needed; they hold for the
borders `getLIDsBorders` delivers (`RangeGo.borders_range_terminates`) -/
theorem cons_numval_rangeGo_drain_ne_nodes_rangeNode_wrap_witness :
    RangeGo.drain false RangeGo.maxU32 4 (RangeGo.maxU32 : Int) = ([RangeGo.maxU32, 0, 1, 2], false) ∧
    RangeGo.drain true 0 3 (1 : Int) = ([1, 0, RangeGo.maxU32], false) := RangeGo.wrap_witness

/-! ## 8. found on the way: `node.LessFn` / `node.TreeFold` are written twice (Model/Nodes.lean + Model/EvalTree.lean vs Model/Agg.lean) -/

/-- `node.LessFn`: `SV.lessFn` (Model/Nodes.lean) = `SV.Agg.lessFn` (Model/Agg.lean) -/
theorem cons_numval_agg_lessFn_eq_nodes_lessFn (rev : Bool) (a b : Nat) : Agg.lessFn rev a b = lessFn rev a b := rfl

/-- `node.TreeFold(NewOr, emptyNode, nodes)`: the generic `SV.Agg.treeFold` (Model/Agg.lean) instantiated at `orMerge rev` / `[]`
= the specialised `SV.EvalTree.treeFold rev` (Model/EvalTree.lean); same split at `len/2` -/
theorem cons_numval_agg_treeFold_eq_evalTree_treeFold (rev : Bool) (vs : List (List Nat)) :
    Agg.treeFold (orMerge rev) [] vs = EvalTree.treeFold rev vs := by
  induction h : vs.length using Nat.strongRecOn generalizing vs with
  | _ n ih =>
    match vs, h with
    | [], _ => rw [Agg.treeFold, EvalTree.treeFold]; simp
    | [v], _ => rw [Agg.treeFold, EvalTree.treeFold]; simp
    | a :: b :: r, h =>
      rw [Agg.treeFold, EvalTree.treeFold]
      have hl : ¬ (a :: b :: r).length ≤ 1 := by simp
      rw [dif_neg hl]
      subst h
      rw [ih _ (by simp [List.length_take]; omega) _ rfl, ih _ (by simp [List.length_drop]; omega) _ rfl]

/-! ## OPEN (observation, not a theorem): `SV.Async.parseInt` (Model/Async.lean, the driver's stand-in for `strconv.Atoi` in
`AggBin.fromKey`, seq/qpr.go:129) vs `SV.Spec.numVal`

Both read decimal integers.  `Async.parseInt` is `String.toInt?`; by `#eval` it answers `some 10` on `"1_0"` (Lean accepts `_` digit
separators) where `numVal` AND Go's `Atoi` answer none/error, and `none` on `"+5"` where Go's `Atoi` answers 5 (`numVal`: none).
Intended statement:
  `cons_numval_numVal_ne_async_parseInt_witness : Spec.numVal [49,95,48] = none ∧ Async.parseInt [49,95,48] = some 10`
Not provable with `decide`/`rfl` (`String.toInt?` does not reduce in the kernel; `native_decide` is not allowed).  Not reachable
through C19's model: `fromKey` takes the parser as a parameter and only ever reads keys produced by `toKey` (rendered integers),
on which the three parsers agree.  Different Go functions (`Atoi` vs `ParseFloat`), so no equality is owed. -/

end SV.Consistency
