import SeqVerif.Model.BulkHandler
import SeqVerif.Model.Replica
/-!
# Consistency (wave 4): the junction J' of the system composition, from C09's log to C01's handler

`SV.Sys.sys_ingest_to_read_crash` (Proofs/SystemReplay.lean:192) and `SV.Sys.sys_ingest_to_read` (Proofs/SystemClosed.lean:63)
assume
```
J' : ∀ s r, (s, r) ∈ (Replica.storeDocuments coldT hotT oracle Replica.init).2.hotLog →
       s < hot.length ∧ blk ∈ WPath.ackedOf (Hst s)
```
(`System*` import Props.C16, so they are not imported; `sysJprime` below is the textual copy with the three model-level
arguments abstracted.)  C01's handler model (Model/BulkHandler.lean, `SV.BulkH`) with its junction theorem
`c01_bulk_handler_junction` (Props/C01.lean:337; part (i) is re-proved here as `sysJunction_call_acked` because Props cannot
be imported) gives, **per store**: a `.call` item answered OK puts its two blocks into `ackedOf (histOf items)`.

## Findings

1. **The notion of ack fits.**  C09 logs `(s, r)` when `sendBulkToHost` to replica `r` of shard `s` returned success; the
   handler answers OK iff one `Active.Append` try was acknowledged (`c01_bulk_handler_ack`) and then contributes exactly
   `WPath.Ev.bulk d m`.  The per-replica statement is derivable (`cons_sys_junction_perReplica`) from a residual premise that is
   purely about the transport (`SysTransport`).
2. **The indexing does NOT fit: `Hst` is per shard, stores are per (shard, replica).**  J' asks for `blk ∈ ackedOf (Hst s)` for
   EVERY successful `(s, r)`, with one history per shard.  With `R ≥ 2` replicas the history that matters on the read side is
   the one of the replica that answers the search for shard `s` (`hans`); a *partial* success on a shard that was tried before
   the full set was found puts `(s', 0)` into the log while replica `(s', 1)` never saw the payload.  If that replica serves the
   reads of shard `s'`, J' is FALSE in a world where transport and handler are faithful and the bulk is acknowledged:
   `cons_sys_Jprime_false_two_replicas_witness`.  So J' as stated cannot be discharged for `R ≥ 2`.
3. **What the composition really uses is weaker and IS derivable.**  `sys_served_found` applies `serve` only at `(s, 0)` for the
   shard `s` of C09's full replica set (`sys_ack_full_set`).  The form `sysJprimeFull` - "for a shard ALL of whose replicas
   succeeded, the replica that serves its reads acknowledged the blocks" - follows from the transport premise for any choice
   `rho` of the serving replica (`cons_sys_junction_fullSet`), and J' implies it (`cons_sys_JprimeFull_of_Jprime`).
   J' itself follows when every logged shard has its serving replica logged (`cons_sys_Jprime_of_servingLogged`), e.g. `R = 1`.
4. `s < hot.length` (the written shard is one of the shards read) is about configuration: C09's oracle carries arbitrary shard
   numbers.  It is derived from "the client only visits shards `< n`" (`cons_sys_hotLog_shards_visited`), the topology part of
   the residual premise.
5. J (no-crash form, `B ∈ hist s`) follows from J' by `sys_i1_replayed` with `hist s := handed dec (Hst s)`; nothing to add.
-/
namespace SV.Consistency
open SV

/-! ## restated predicates -/

/-- textual copy of the hypothesis `J'` of `SV.Sys.sys_ingest_to_read_crash` AS IT WAS STATED UNTIL WAVE 4 (per logged success;
then Proofs/SystemReplay.lean:192 = SystemClosed.lean:63), with `hotLog := (Replica.storeDocuments coldT hotT oracle
Replica.init).2.hotLog` and `nHot := hot.length`.  Since wave 5 the `sys_*` theorems state `sysJprimeFull` instead; this form
survives as the hypothesis of `SV.Sys.sys_junction_of_per_success` (Proofs/SystemJunction.lean:113). -/
def sysJprime (hotLog : Replica.Log) (nHot : Nat) (Hst : Nat → List WPath.Ev) (blk : WPath.Blk × WPath.Blk) : Prop :=
  ∀ s r, (s, r) ∈ hotLog → s < nHot ∧ blk ∈ WPath.ackedOf (Hst s)

/-- the part of J' that `sys_served_found` uses.  Since wave 5 this IS the hypothesis `J'` of the `sys_*` theorems, word for word:
Proofs/SystemReplay.lean:195 (`sys_ingest_to_read_crash`), Proofs/SystemClosed.lean:64 (`sys_ingest_to_read`), with `R := hotT.R`;
it is the conclusion of `SV.Sys.sys_junction` (Proofs/SystemJunction.lean:39), which is proved by `cons_sys_junction_fullSet`
below (checked against that file: no drift) -/
def sysJprimeFull (R : Nat) (hotLog : Replica.Log) (nHot : Nat) (Hst : Nat → List WPath.Ev) (blk : WPath.Blk × WPath.Blk) : Prop :=
  ∀ s, (∀ r, r < R → (s, r) ∈ hotLog) → s < nHot ∧ blk ∈ WPath.ackedOf (Hst s)

theorem cons_sys_JprimeFull_of_Jprime (R : Nat) (hR : 0 < R) (hotLog : Replica.Log) (nHot : Nat) (Hst : Nat → List WPath.Ev)
    (blk : WPath.Blk × WPath.Blk) (h : sysJprime hotLog nHot Hst blk) : sysJprimeFull R hotLog nHot Hst blk :=
  fun s hs => h s 0 (hs 0 hR)

/-! ## the handler side (C01) -/

/-- part (i) of `c01_bulk_handler_junction` (Props/C01.lean:337), re-proved over the model definitions: a call that was
answered OK contributed an acknowledged bulk of exactly its two blocks -/
theorem sysJunction_call_acked (items : List BulkH.Item) (count : Nat) (d m : WPath.Blk) (e : BulkH.Env) (fuel : Nat)
    (hmem : BulkH.Item.call count d m e fuel ∈ items) (hok : BulkH.answersOK (BulkH.doBulk fuel count e) = true) :
    (d, m) ∈ WPath.ackedOf (BulkH.histOf items) := by
  obtain ⟨pre, post, rfl⟩ := List.append_of_mem hmem
  simp only [BulkH.histOf, List.flatMap_append, List.flatMap_cons, BulkH.effect, hok, if_true, BulkH.ackedOf_append]
  simp [WPath.ackedOf]

/-! ## the residual environment premise -/

/-- **what is really left**: the gRPC transport between the replica client and the stores (`deliver` is, word for word, the
hypothesis `deliver` of `SV.Sys.sys_junction` / `sys_ingest_to_read_transport`, Proofs/SystemJunction.lean:41 and :85; `topology`
is derived there from `hvis` (:44, :88) by `cons_sys_hotLog_shards_visited`).  `items s r` = everything that
happened to the store of replica `r` of shard `s` (handler calls with their environments, crashes, restarts).  For the payload
`blk` and C09's log of successful calls:
* `deliver`: a success logged for `(s, r)` is the OK answer of a `Bulk` handler call on *that* store whose request carried
  exactly the payload's two blocks (`count ≠ 0` is inside `answersOK`) - the transport neither invents successes nor alters or
  misroutes the request;
* `topology`: the client only visits shards that exist on the read side (same `hot` shard list for writes and reads). -/
structure SysTransport (items : Nat → Nat → List BulkH.Item) (hotLog : Replica.Log) (nHot : Nat)
    (blk : WPath.Blk × WPath.Blk) : Prop where
  deliver : ∀ s r, (s, r) ∈ hotLog → ∃ count e fuel, BulkH.Item.call count blk.1 blk.2 e fuel ∈ items s r ∧
    BulkH.answersOK (BulkH.doBulk fuel count e) = true
  topology : ∀ s r, (s, r) ∈ hotLog → s < nHot

/-- **J' per replica - derivable.**  Every success in C09's log is an acknowledged bulk of the payload's blocks in the
write-path history of *that replica's* store (C01: `c01_bulk_handler_junction` (i)), on a shard that is read. -/
theorem cons_sys_junction_perReplica (items : Nat → Nat → List BulkH.Item) (hotLog : Replica.Log) (nHot : Nat)
    (blk : WPath.Blk × WPath.Blk) (T : SysTransport items hotLog nHot blk) :
    ∀ s r, (s, r) ∈ hotLog → s < nHot ∧ blk ∈ WPath.ackedOf (BulkH.histOf (items s r)) := by
  intro s r hsr
  obtain ⟨count, e, fuel, hmem, hok⟩ := T.deliver s r hsr
  exact ⟨T.topology s r hsr, sysJunction_call_acked (items s r) count blk.1 blk.2 e fuel hmem hok⟩

/-- **the form the composition uses - derivable for any serving replica.**  `rho s` = the replica of shard `s` whose store
serves the reads (the one `hans` speaks about), `Hst s` its history.  For the shard whose whole replica set succeeded (C09's
`FullSet`), that store acknowledged the blocks. -/
theorem cons_sys_junction_fullSet (items : Nat → Nat → List BulkH.Item) (R : Nat) (hotLog : Replica.Log) (nHot : Nat)
    (blk : WPath.Blk × WPath.Blk) (T : SysTransport items hotLog nHot blk) (rho : Nat → Nat) (hrho : ∀ s, rho s < R) :
    sysJprimeFull R hotLog nHot (fun s => BulkH.histOf (items s (rho s))) blk := by
  intro s hfull
  exact cons_sys_junction_perReplica items hotLog nHot blk T s (rho s) (hfull (rho s) (hrho s))

/-- **J' as stated - derivable only with an extra condition**: every shard that has *some* success in the log has its
serving replica in the log (true for `R = 1`, or when the serving replica is among those that took the payload). -/
theorem cons_sys_Jprime_of_servingLogged (items : Nat → Nat → List BulkH.Item) (hotLog : Replica.Log) (nHot : Nat)
    (blk : WPath.Blk × WPath.Blk) (T : SysTransport items hotLog nHot blk) (rho : Nat → Nat)
    (hserv : ∀ s r, (s, r) ∈ hotLog → (s, rho s) ∈ hotLog) :
    sysJprime hotLog nHot (fun s => BulkH.histOf (items s (rho s))) blk := by
  intro s r hsr
  exact cons_sys_junction_perReplica items hotLog nHot blk T s (rho s) (hserv s r hsr)

/-! ## J' is false with two replicas per shard -/

/-- an environment in which the first try is acknowledged at once -/
def sysEnvOk : BulkH.Env := ⟨fun _ => false, fun _ => .acked, 1, 8⟩

def sysBlkD : WPath.Blk := ⟨0, 1, 0, 0, [7]⟩
def sysBlkM : WPath.Blk := ⟨0, 1, 0, 0, [9]⟩

/-- the stores of the witness: replicas (0,0), (1,0), (1,1) served one `Bulk` call with the payload, replica (0,1) nothing -/
def sysWorld (s r : Nat) : List BulkH.Item :=
  if (s, r) = (0, 1) then [] else [.call 1 sysBlkD sysBlkM sysEnvOk 4]

/-- C09 run of the witness: two hot shards with two replicas; shard 0 is tried first, its replica 1 fails; shard 1 takes
the payload on both replicas -/
def sysOracle : List (List (Nat × Replica.Call) × List (Nat × Replica.Call)) :=
  [([], [(0, .exec [true, false] false), (1, .exec [true, true] false)])]

/-- **J' fails although everything is faithful.**  The bulk is acknowledged (C09), the log is `[(1,1), (1,0), (0,0)]`, the
transport premise holds for the world above, the composition's real need (`sysJprimeFull`) holds - and `sysJprime` is false
when the reads of shard 0 are served by its replica 1 (`rho 0 = 1`), which never received the payload. -/
theorem cons_sys_Jprime_false_two_replicas_witness :
    (Replica.storeDocuments ⟨0, 0⟩ ⟨2, 2⟩ sysOracle Replica.init).1 = true ∧
    (Replica.storeDocuments ⟨0, 0⟩ ⟨2, 2⟩ sysOracle Replica.init).2.hotLog = [(1, 1), (1, 0), (0, 0)] ∧
    SysTransport sysWorld [(1, 1), (1, 0), (0, 0)] 2 (sysBlkD, sysBlkM) ∧
    sysJprimeFull 2 [(1, 1), (1, 0), (0, 0)] 2 (fun s => BulkH.histOf (sysWorld s 1)) (sysBlkD, sysBlkM) ∧
    ¬ sysJprime [(1, 1), (1, 0), (0, 0)] 2 (fun s => BulkH.histOf (sysWorld s 1)) (sysBlkD, sysBlkM) := by
  have hT : SysTransport sysWorld [(1, 1), (1, 0), (0, 0)] 2 (sysBlkD, sysBlkM) := by
    constructor
    · intro s r h
      simp only [List.mem_cons, Prod.mk.injEq, List.not_mem_nil, or_false] at h
      refine ⟨1, sysEnvOk, 4, ?_, by decide⟩
      rcases h with ⟨rfl, rfl⟩ | ⟨rfl, rfl⟩ | ⟨rfl, rfl⟩ <;> simp [sysWorld]
    · intro s r h
      simp only [List.mem_cons, Prod.mk.injEq, List.not_mem_nil, or_false] at h
      rcases h with ⟨rfl, rfl⟩ | ⟨rfl, rfl⟩ | ⟨rfl, rfl⟩ <;> decide
  refine ⟨by decide, by decide, hT, cons_sys_junction_fullSet sysWorld 2 _ 2 _ hT (fun _ => 1) (fun _ => by decide), ?_⟩
  intro h
  have := (h 0 0 (by simp)).2
  have he : WPath.ackedOf (BulkH.histOf (sysWorld 0 1)) = [] := by decide
  rw [he] at this
  cases this

/-! ## topology: the shards in C09's log are shards the client visited -/

theorem sysJunction_replicaLoop_shard (s : Nat) (outs : List Bool) (r n : Nat) (row : Nat → Bool) (log : Replica.Log) (ok : Bool)
    (P : Nat → Prop) (hs : P s) (hlog : ∀ e ∈ log, P e.1) : ∀ e ∈ (Replica.replicaLoop s outs r n row log ok).2.1, P e.1 := by
  induction n generalizing r row log ok with
  | zero => simpa [Replica.replicaLoop] using hlog
  | succ n ih =>
    simp only [Replica.replicaLoop]
    split
    · exact ih _ _ _ _ hlog
    · split
      · apply ih
        intro e he
        rcases List.mem_cons.mp he with rfl | he
        · exact hs
        · exact hlog e he
      · exact ih _ _ _ _ hlog

theorem sysJunction_sendBulk_shard (R : Nat) (visits : List (Nat × Replica.Call)) (st : Replica.Status) (log : Replica.Log)
    (P : Nat → Prop) (hv : ∀ v ∈ visits, P v.1) (hlog : ∀ e ∈ log, P e.1) :
    ∀ e ∈ (Replica.sendBulk R visits st log).2.2, P e.1 := by
  induction visits generalizing st log with
  | nil => simpa [Replica.sendBulk] using hlog
  | cons v rest ih =>
    obtain ⟨s, c⟩ := v
    have hstep : ∀ e ∈ (Replica.shardBulk R s c st log).2.2, P e.1 := by
      cases c with
      | «open» => simpa [Replica.shardBulk] using hlog
      | exec outs t =>
        simp only [Replica.shardBulk]
        exact sysJunction_replicaLoop_shard s outs 0 R (st s) log true P (hv (s, Replica.Call.exec outs t) (by simp)) hlog
    simp only [Replica.sendBulk]
    split
    · exact hstep
    · exact ih _ _ (fun v hv' => hv v (List.mem_cons_of_mem _ hv')) hstep

/-- **`s < hot.length` from the client's visiting orders**: every shard number in C09's hot log was visited by some attempt, so
when all hot visiting orders of the oracle stay below `n` (the shuffle permutes the configured hot shards, the same list the
search fans out to), every logged shard is `< n`. -/
theorem cons_sys_hotLog_shards_visited (cold hot : Replica.Tier)
    (oracle : List (List (Nat × Replica.Call) × List (Nat × Replica.Call))) (n : Nat)
    (hvis : ∀ a ∈ oracle, ∀ v ∈ a.2, v.1 < n) (x : Replica.St) (hx : ∀ e ∈ x.hotLog, e.1 < n) :
    ∀ e ∈ (Replica.storeDocuments cold hot oracle x).2.hotLog, e.1 < n := by
  induction oracle generalizing x with
  | nil => simpa [Replica.storeDocuments] using hx
  | cons a rest ih =>
    obtain ⟨cv, hv⟩ := a
    have hhv : ∀ v ∈ hv, v.1 < n := hvis (cv, hv) (by simp)
    have htier : ∀ (st : Replica.Status) (log : Replica.Log), (∀ e ∈ log, e.1 < n) →
        ∀ e ∈ (Replica.sendTier hot hv st log).2.2, e.1 < n := by
      intro st log hl
      unfold Replica.sendTier
      split
      · exact hl
      · exact sysJunction_sendBulk_shard hot.R hv st log (· < n) hhv hl
    have hstep : ∀ e ∈ (Replica.storeDocs cold hot cv hv x).2.hotLog, e.1 < n := by
      unfold Replica.storeDocs
      split
      · exact htier _ _ hx
      · simp only []
        split
        · exact htier _ _ hx
        · exact hx
    simp only [Replica.storeDocuments]
    split
    · exact hstep
    · exact ih (fun a ha => hvis a (List.mem_cons_of_mem _ ha)) _ hstep

example : ∀ a ∈ sysOracle, ∀ v ∈ a.2, v.1 < 2 := by decide

/-- the residual premise is satisfiable (the world of the witness) -/
example : SysTransport sysWorld [(1, 1), (1, 0), (0, 0)] 2 (sysBlkD, sysBlkM) :=
  cons_sys_Jprime_false_two_replicas_witness.2.2.1

end SV.Consistency
