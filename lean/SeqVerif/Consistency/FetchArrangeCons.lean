import SeqVerif.Model.FetchArrange
import SeqVerif.Model.FetchDocsSpec
/-!
# Consistency: the "arrange the result in the original order of ids" loop of `fracmanager/fetcher.go: Fetcher.FetchDocs`

* C07 `SV.FetchArrange.arrange` (Model/FetchArrange.lean): the loop for ONE requested id - the answers of the fractions
  that were asked for it, the slot keeps the last non-nil one (`if doc != nil { result[pos] = doc }`);
* C04 `SV.Fetch.arrange` (Model/FetchDocs.lean): the whole loop - all groups `(idsByFrac[i], docsByFracs[i])`, positions
  through `reversPos`, writes by `setAll` (a `foldl` of `List.set`), nil answers filtered out.

Both follow the Go code (guarded write, `reversPos[id] = i` last position wins).  The scatter of `processor.IndexFetch`
(`SV.Fetch.indexFetch`) uses the same `setAll` (`Fetch.scatter_eq_setAll`) - shared definition, not a duplicate; C05's
`paginate` shares nothing with this loop.  Props/C07.lean (`c07_fetch_*`, section FetchArrange) states the C07 side.
-/
namespace SV.Consistency

open SV

/-- the answers the fractions give for `id`, in group order: the argument of the C07 model extracted from the C04 one -/
def fetchArrangeAnswersFor {D : Type} (id : Fetch.ID) (gs : List (List Fetch.ID × List (Option D))) : List (Option D) :=
  (gs.flatMap fun g => g.1.zip g.2).filterMap fun p => if p.1 = id then some p.2 else none

theorem fetchArrange_entries_flat {D : Type} (rp : Fetch.ID → Nat) (gs : List (List Fetch.ID × List (Option D))) :
    (gs.flatMap fun g => (g.1.zip g.2).filterMap fun p => p.2.map fun d => (rp p.1, d)) =
      (gs.flatMap fun g => g.1.zip g.2).filterMap fun p => p.2.map fun d => (rp p.1, d) := by
  induction gs with
  | nil => rfl
  | cons g r ih => simp only [List.flatMap_cons, List.filterMap_append, ih]

theorem fetchArrange_setAll_getD {D : Type} (E : List (Nat × D)) (res : List (Option D)) (k : Nat) (hk : k < res.length) :
    (Fetch.setAll E res).getD k none =
      E.foldl (fun acc e => if e.1 = k then some e.2 else acc) (res.getD k none) := by
  induction E generalizing res with
  | nil => rfl
  | cons e r ih =>
    simp only [Fetch.setAll, List.foldl_cons] at ih ⊢
    rw [ih (res.set e.1 (some e.2)) (by simpa using hk)]
    congr 1
    by_cases he : e.1 = k
    · subst he
      simp [List.getD_eq_getElem?_getD, hk]
    · simp [List.getD_eq_getElem?_getD, List.getElem?_set_ne he, he]

theorem fetchArrange_fold_eq {D : Type} (rp : Fetch.ID → Nat) (id : Fetch.ID) (k : Nat) (hrp : rp id = k)
    (P : List (Fetch.ID × Option D)) (hinj : ∀ p, p ∈ P → rp p.1 = k → p.1 = id) (acc : Option D) :
    (P.filterMap fun p => p.2.map fun d => (rp p.1, d)).foldl (fun acc e => if e.1 = k then some e.2 else acc) acc =
      (P.filterMap fun p => if p.1 = id then some p.2 else none).foldl
        (fun acc a => match a with | some d => some d | none => acc) acc := by
  induction P generalizing acc with
  | nil => rfl
  | cons p r ih =>
    have hr : ∀ q, q ∈ r → rp q.1 = k → q.1 = id := fun q hq => hinj q (List.mem_cons_of_mem _ hq)
    obtain ⟨x, od⟩ := p
    have hx := hinj (x, od) (by simp)
    simp only [List.filterMap_cons]
    cases od with
    | none =>
      by_cases hxi : x = id
      · simp only [Option.map_none, hxi, if_true, List.foldl_cons]
        exact ih hr acc
      · simp only [Option.map_none, hxi, if_false]
        exact ih hr acc
    | some d =>
      by_cases hxi : x = id
      · subst hxi
        simp only [Option.map_some, if_true, List.foldl_cons, hrp]
        exact ih hr (some d)
      · have hne : ¬ rp x = k := fun h => hxi (hx h)
        simp only [Option.map_some, hxi, if_false, List.foldl_cons, hne]
        exact ih hr acc

/-- Go `Fetcher.FetchDocs`, arrange loop: the slot of `id` in the C04 model's result (`SV.Fetch.arrange`) is what the C07
model (`SV.FetchArrange.arrange`) computes from the answers given for `id`.
Domain: `k = rp id` is a slot of the result, and no OTHER id that some fraction was asked for is mapped to that slot
(`hinj`; with Go's `reversPos` that is the case for every id of a request without repeated IDs, see the corollary).
For every `rp`, every grouping, nil answers anywhere. -/
theorem cons_fetchArrange_slot_eq_arrange {D : Type} (n : Nat) (rp : Fetch.ID → Nat)
    (gs : List (List Fetch.ID × List (Option D))) (id : Fetch.ID) (hk : rp id < n)
    (hinj : ∀ g, g ∈ gs → ∀ x, x ∈ g.1 → rp x = rp id → x = id) :
    (Fetch.arrange n rp gs).getD (rp id) none = FetchArrange.arrange (fetchArrangeAnswersFor id gs) := by
  unfold Fetch.arrange FetchArrange.arrange fetchArrangeAnswersFor
  rw [fetchArrange_entries_flat, fetchArrange_setAll_getD _ _ _ (by simpa using hk)]
  have h0 : (List.replicate n (none : Option D)).getD (rp id) none = none := by
    simp [List.getD_eq_getElem?_getD, hk]
  rw [h0]
  apply fetchArrange_fold_eq rp id (rp id) rfl
  intro p hp hrp
  obtain ⟨g, hg, hpg⟩ := List.mem_flatMap.mp hp
  exact hinj g hg p.1 (List.of_mem_zip hpg).1 hrp

/-- the same with Go's map `reversPos[id.ID] = i`: for a request WITHOUT repeated IDs, whose groups only contain
requested IDs, slot `i` of the result is the C07 `arrange` of the answers for `ids[i]`. -/
theorem cons_fetchArrange_reversPos_slot {D : Type} (ids : List Fetch.ID) (hnd : ids.Nodup)
    (gs : List (List Fetch.ID × List (Option D))) (hsub : ∀ g, g ∈ gs → ∀ x, x ∈ g.1 → x ∈ ids)
    (i : Nat) (hi : i < ids.length) :
    (Fetch.arrange ids.length (Fetch.reversPos ids) gs).getD i none =
      FetchArrange.arrange (fetchArrangeAnswersFor ids[i] gs) := by
  have hpos := Fetch.reversPos_getElem ids hnd i hi
  have := cons_fetchArrange_slot_eq_arrange ids.length (Fetch.reversPos ids) gs ids[i] (by rw [hpos]; exact hi)
    (by
      intro g hg x hx hrx
      obtain ⟨j, hj, rfl⟩ := List.getElem_of_mem (hsub g hg x hx)
      rw [Fetch.reversPos_getElem ids hnd j hj, hpos] at hrx
      subst hrx; rfl)
  rw [hpos] at this
  exact this

example : ([⟨5, 1⟩, ⟨4, 1⟩] : List Fetch.ID).Nodup := by decide

/-- a REPEATED id in the request (outside the domain above; the C07 model is about one id and says nothing here): Go's
`reversPos` keeps the last position, so only the last occurrence's slot is filled and the earlier one stays nil - the C04
model does exactly that (fracmanager/fetcher.go: `reversPos[id.ID] = i`, `result[reversPos[..]] = doc`). -/
theorem cons_fetchArrange_repeated_id_witness :
    Fetch.arrange 2 (Fetch.reversPos [⟨5, 1⟩, ⟨5, 1⟩]) [([⟨5, 1⟩, ⟨5, 1⟩], [some 7, some 7])] = [none, some (7 : Nat)] ∧
    FetchArrange.arrange (fetchArrangeAnswersFor (⟨5, 1⟩ : Fetch.ID) [([⟨5, 1⟩, ⟨5, 1⟩], [some (7 : Nat), some 7])]) = some 7 := by
  decide

/-- the unguarded variant of the C07 model (`arrangeUnguarded`, the mutation it is written against) is NOT what the C04
model does: a later fraction answering nil would erase the document -/
theorem cons_fetchArrange_unguarded_ne_witness :
    FetchArrange.arrangeUnguarded [some (7 : Nat), none] = none ∧
    (Fetch.arrange 1 (fun _ => 0) [([(⟨5, 1⟩ : Fetch.ID)], [some (7 : Nat)]), ([⟨5, 1⟩], [none])]).getD 0 none = some 7 := by
  decide

end SV.Consistency
