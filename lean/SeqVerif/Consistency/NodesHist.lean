import SeqVerif.Model.AggLemmas
import SeqVerif.Model.MergeTotals
import SeqVerif.Model.C03Search
/-!
# Consistency: the histogram of `iterateEvalTree` (`histogram[bucket]++` per hit) - three models

* `SV.Agg.histRun interval mids`  (Model/Agg.lean, C06): association list built with `incr`, read with `histGet`;
* `SV.Merge.histOf hi keys`       (Model/SearchDocs.lean, C05): association list built with `Hist.upd`, read with
                                   `Hist.get`, on keys `mid * 2^64 + rid`;
* `SV.C03.search .. histInterval` (Model/C03Search.lean, C03): the list of the buckets of all hits in iteration order.

The maps are association lists in different entry orders, so equality is stated on what a Go map is: the value read
at every key.  (Consistency/Hist.lean, written in parallel, proves the stronger list equality `histRun = histOf` and the
`histMerge`/`addHist` pair; the C03 bucket list is only tied here.)
-/
namespace SV.Consistency
open SV

/-- **per-fraction histogram, C06 = C05**: reading bucket `b` of `SV.Agg.histRun` over the MIDs of the hits =
reading it of `SV.Merge.histOf` over their keys; all inputs (the MID of a key is `key / 2^64`, whatever the RID). -/
theorem cons_nodes_hist_agg_histRun_get_eq_merge_histOf_get (interval : Nat) (keys : List Nat) (b : Nat) :
    SV.Agg.histGet (SV.Agg.histRun interval (keys.map SV.Merge.midOf)) b =
      SV.Merge.Hist.get (SV.Merge.histOf interval keys) b := by
  rw [SV.Agg.histRun_get, SV.Merge.get_histOf]
  simp only [SV.Merge.cntBucket, List.filter_map, List.length_map]
  rfl

/-- **per-fraction histogram, C03 = C06**: the number of occurrences of bucket `b` in the bucket list of
`SV.C03.search` = bucket `b` of `SV.Agg.histRun` over the MIDs of the same hits -/
theorem cons_nodes_hist_c03_list_eq_agg_histRun (interval : Nat) (ids : List SV.C03.ID) (b : Nat) :
    ((ids.map (fun id => id.1 - id.1 % interval)).filter (fun k => k = b)).length =
      SV.Agg.histGet (SV.Agg.histRun interval (ids.map (·.1))) b := by
  rw [SV.Agg.histRun_get]
  simp only [List.filter_map, List.length_map]
  rfl

end SV.Consistency
