import SeqVerif.Model.BulkID
import SeqVerif.Model.BulkMeta
import SeqVerif.Model.BulkCompose
import SeqVerif.Model.ActiveReach
import SeqVerif.Consistency.TimeRule
import SeqVerif.Consistency.IdOrder
/-!
# Consistency wave 4 (c1): the document ID - C10 `SV.BulkTime.newID` / `ridOf` (Model/BulkID.lean) vs its consumers

Go: `id := seq.NewID(docTime, (rand.Uint64()<<16)+p.proxyIndex)` (proxy/bulk/processor.go:81), `NewID(t, r) = ID{TimeToMID(t), RID(r)}`;
`p.proxyIndex` is `rand.Uint64() % consts.IngestorMaxInstances` drawn when a processor is created (proxy/bulk/ingestor.go:317,
`IngestorMaxInstances = 1024`) - NOT a configured identity of the proxy.
* C10 itself: `docMID` (Model/BulkTime.lean) and the abstract `IndexCfg.ridOf` oracle of `metasFor` (Model/BulkMeta.lean);
* C17: IDs are pairs `(mid, rid)` (`SV.Collector.ID`), reached through `SV.Bulk.toCollector`; `GoodIDs` (Model/ActiveReach.lean);
* C05/C16: `Merge.key mid rid = mid * 2^64 + rid` needs `rid < 2^64` (`cons_idorder_specOfKey_keyOfSpec`, IdOrder.lean);
* C14: `MID.Time()` = `Dist.midTime`.
No disagreement found: `newID` is the pair the other models assume.  What the model does and does not give for `hrid`
(premise of `cons_sys_hsame_of_c10`): equal RIDs force equal 48 random bits AND equal index (`rid_injective`), so documents
processed under different indexes never collide - but the index is itself a random draw in 0..1023, so two ingestors (or two
processors of one ingestor) may share it; non-collision stays a probabilistic environment assumption, as SysHyps.lean says.
-/
namespace SV.Consistency
open SV SV.BulkTime

/-- **newID's MID is `docMID`** (C10's own two readings of the MID): for the time chosen by the time rule -/
theorem cons_bulkid_newID_mid_eq_docMID (delayed : Int → Int → Int → Bool) (doc : Option Int) (req drift fut : Int) (rnd : Nat) :
    (newID (idTime delayed doc req drift fut) rnd).1 = docMID delayed doc req drift fut := rfl

/-- the concrete RID for the abstract oracle: a `metasFor` whose `ridOf` oracle is `BulkTime.ridOf` of the document's draw
produces the ID `newID (idTime ..) (processRandomness r idx)`, as a C17 pair -/
theorem cons_bulkid_metasFor_id_eq_newID (T : Bulk.TimeCfg) (I : Bulk.IndexCfg) (d : Bulk.Bytes) (r idx : Nat)
    (hr : I.ridOf d = ridOf (idTime T.delayed (T.timeOf d) T.req T.drift T.fut) r idx)
    (m : Bulk.Meta) (hm : m ∈ Bulk.metasFor T I d) :
    (Bulk.toCollector m).id = newID (idTime T.delayed (T.timeOf d) T.req T.drift T.fut) (processRandomness r idx) := by
  obtain ⟨p, ns, h1, _, h3⟩ := SV.BulkIndex.docMetas_shape
    (docMID T.delayed (T.timeOf d) T.req T.drift T.fut) (I.ridOf d) I.c I.mp (I.tree d) d
  unfold Bulk.metasFor at hm
  rw [h1] at hm
  have hid : m.mid = docMID T.delayed (T.timeOf d) T.req T.drift T.fut ∧ m.rid = I.ridOf d := by
    rcases List.mem_cons.mp hm with h | h
    · subst h; exact ⟨rfl, rfl⟩
    · exact ⟨(h3 m h).1, (h3 m h).2.1⟩
  show (m.mid, m.rid) = _
  rw [hid.1, hid.2, hr]
  rfl

/-- **both components fit uint64** - the domain of `Merge.key` (C05/C16) and the first two clauses of `GoodIDs` (C17) -/
theorem cons_bulkid_newID_lt_two64 (t : Int) (rnd : Nat) :
    (newID t rnd).1 < Merge.R ∧ (newID t rnd).2 < Merge.R ∧
    (newID t rnd).1 ≤ Borders.maxU64 ∧ (newID t rnd).2 ≤ Borders.maxU64 := by
  have h1 : (newID t rnd).1 < 18446744073709551616 := by
    unfold newID timeToMID
    simp only
    omega
  have h2 : (newID t rnd).2 < 18446744073709551616 := by
    unfold newID
    simp only
    omega
  unfold Merge.R Borders.maxU64
  omega

/-- hence the ID survives the round trip through the search key `mid * 2^64 + rid` (IdOrder.lean) -/
theorem cons_bulkid_newID_key_roundtrip (t : Int) (rnd : Nat) :
    pairOfSpec (specOfKey (keyOfPair (newID t rnd))) = newID t rnd := by
  have := cons_idorder_specOfKey_keyOfSpec (specOfPair (newID t rnd)) (cons_bulkid_newID_lt_two64 t rnd).2.1
  show pairOfSpec (specOfKey (keyOfSpec (specOfPair (newID t rnd)))) = _
  rw [this]
  rfl

/-- `ridOf` is below 2^64 and its low 16 bits are the index, the rest the 48 random bits -/
theorem cons_bulkid_ridOf_layout (t : Int) (r idx : Nat) (hi : idx < 65536) :
    ridOf t r idx < Merge.R ∧ ridOf t r idx % 65536 = idx ∧ ridOf t r idx / 65536 = r % 281474976710656 := by
  rw [ridOf_eq t r idx hi]
  unfold Merge.R
  omega

/-- **different processor indexes give different RIDs** (contrapositive of the model's `rid_injective`), whatever the
random draws and times.  The index is `rand.Uint64() % 1024` per processor in Go, so this separates two ingestors only
when their draws differ - see the file header. -/
theorem cons_bulkid_distinct_index_distinct_rid (t1 t2 : Int) (r1 r2 i1 i2 : Nat) (h1 : i1 < 65536) (h2 : i2 < 65536)
    (hne : i1 ≠ i2) : ridOf t1 r1 i1 ≠ ridOf t2 r2 i2 :=
  fun h => hne (rid_injective t1 t2 r1 r2 i1 i2 h1 h2 h).2

/-- ... and the converse limit: the same index and the same low 48 random bits collide, whatever the times and the
upper 16 bits of the draw - `hrid` of `cons_sys_hsame_of_c10` is NOT derivable from the ID layout -/
theorem cons_bulkid_rid_collision_witness :
    ridOf 1790000000000000000 5 7 = ridOf 1790000001000000000 (5 + 281474976710656) 7 := by decide

/-- **C14's `MID.Time()` of a new ID** is the chosen time truncated to the millisecond (in-range times) -/
theorem cons_bulkid_midTime_newID (t : Int) (rnd : Nat) (h0 : 0 ≤ t) (h1 : t ≤ TimeRule.maxI) :
    Dist.midTime (newID t rnd).1 = t - t % 1000000 :=
  cons_time_midTime_timeToMID_inrange t h0 h1

/-- **`GoodIDs`' third clause `id ≠ (0,0)` IS derivable from the time rule**: when the request time is at least one
millisecond plus the allowed drift after the epoch (and `req + fut` is representable), the ID C10 gives a document has
`MID ≥ 1`, hence is not the system ID `0:0`; together with `cons_bulkid_newID_lt_two64` this is `GoodIDs` for that meta. -/
theorem cons_bulkid_goodID_of_time_rule (doc : Option Int) (req drift fut : Int) (rnd : Nat)
    (hd : 0 ≤ drift ∧ drift < TimeRule.maxI) (hf : 0 ≤ fut ∧ fut < TimeRule.maxI)
    (hreq : drift + 1000000 ≤ req) (hup : req + fut ≤ TimeRule.maxI) :
    (newID (idTime documentDelayedRepaired doc req drift fut) rnd).1 ≠ 0 ∧
    newID (idTime documentDelayedRepaired doc req drift fut) rnd ≠ (0, 0) := by
  have hrange : 1000000 ≤ idTime documentDelayedRepaired doc req drift fut ∧
      idTime documentDelayedRepaired doc req drift fut ≤ TimeRule.maxI := by
    rw [idTime_repaired doc req drift fut hd hf]
    unfold ruleTime
    cases doc with
    | none => simp only; unfold TimeRule.maxI at *; omega
    | some t =>
      simp only
      split
      · unfold TimeRule.maxI at *; omega
      · unfold TimeRule.maxI at *; omega
  have hmid : (newID (idTime documentDelayedRepaired doc req drift fut) rnd).1 ≠ 0 := by
    intro h0
    have hex := timeToMID_exact (idTime documentDelayedRepaired doc req drift fut) (by omega) hrange.2
    have : timeToMID (idTime documentDelayedRepaired doc req drift fut) = 0 := h0
    rw [this] at hex
    have := hrange.1
    omega
  refine ⟨hmid, fun h => hmid ?_⟩
  rw [h]

/-- non-vacuity: 2026-09-25 with 24 h / 5 min drifts -/
example : (0 : Int) ≤ 86400000000000 ∧ (86400000000000 : Int) < TimeRule.maxI ∧ (86400000000000 : Int) + 1000000 ≤ 1790000000000000000 ∧
    (1790000000000000000 : Int) + 300000000000 ≤ TimeRule.maxI := by decide

/-- without the lower bound on the request time the clause fails: a request stamped at the epoch with draw 0, index 0 -/
theorem cons_bulkid_goodID_zero_witness :
    newID (idTime documentDelayedRepaired none 0 0 0) (processRandomness 0 0) = (0, 0) := by decide

end SV.Consistency
