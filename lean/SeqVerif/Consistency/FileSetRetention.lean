import SeqVerif.Model.Buckets
import SeqVerif.Model.Cache
/-!
# Consistency: `cache.Cleaner.ReleaseBuckets` - seed model `SV.Buckets` vs C18 `SV.Cache.releaseBuckets`

`SV.Buckets` (seed written before the repair) holds TWO definitions: `releaseBuckets`, the swap-with-last loop of the
code as first read, and `releaseBucketsFixed`, the stable filter.  C18's `SV.Cache.releaseBuckets` models the code as
it is now in /repo (cache/cleaner.go: "remove released buckets in place, keeping the order of the remaining ones").

Representation change: the seed's buckets are records `⟨id, released⟩`; C18's are bucket ids with the released flag
in a separate map `rel : Nat → Bool`.  `bucketIdsOf` / `bucketRelOf` go from the seed's form to C18's.

`FracManager.shrinkSizes` is modelled once (`SV.Lifecycle.shrink`, C15); nothing to compare.
-/
namespace SV.Consistency
open SV

/-- seed bucket list -> C18 bucket id list -/
def bucketIdsOf (bs : List Buckets.B) : List Nat := bs.map (·.id)

/-- seed bucket list -> C18 released map (first bucket with that id decides; ids are distinct in the domain below) -/
def bucketRelOf (bs : List Buckets.B) (i : Nat) : Bool :=
  match bs.find? (fun b => b.id = i) with
  | some b => b.released
  | none => false

private theorem bucketRelOf_mem (bs : List Buckets.B) (hnd : (bucketIdsOf bs).Nodup) (b : Buckets.B) (hb : b ∈ bs) :
    bucketRelOf bs b.id = b.released := by
  unfold bucketRelOf
  induction bs with
  | nil => cases hb
  | cons x xs ih =>
    simp only [bucketIdsOf, List.map_cons, List.nodup_cons] at hnd
    simp only [List.find?_cons]
    rcases List.mem_cons.mp hb with rfl | hm
    · simp
    · have hne : x.id ≠ b.id := by
        intro h; apply hnd.1; rw [h]; exact List.mem_map_of_mem (f := (·.id)) hm
      simp only [hne, decide_false]
      exact ih hnd.2 hm

/-- **Go `Cleaner.ReleaseBuckets` (current code).**  Seed `SV.Buckets.releaseBucketsFixed` = C18
`SV.Cache.releaseBuckets` after `bucketIdsOf` / `bucketRelOf`.  Domain: bucket ids are distinct (they are distinct pointers in
Go; C18 numbers caches `0..ncaches-1`). -/
theorem cons_buckets_seedFixed_eq_c18_releaseBuckets (bs : List Buckets.B) (hnd : (bucketIdsOf bs).Nodup) :
    bucketIdsOf (Buckets.releaseBucketsFixed bs) = Cache.releaseBuckets (bucketRelOf bs) (bucketIdsOf bs) := by
  unfold Buckets.releaseBucketsFixed Cache.releaseBuckets bucketIdsOf
  rw [List.filter_map]
  congr 1
  apply List.filter_congr
  intro b hb
  simp only [Function.comp]
  rw [bucketRelOf_mem bs hnd b hb]

example : (bucketIdsOf [⟨1, true⟩, ⟨2, false⟩, ⟨3, true⟩]).Nodup := by decide

/-- **The seed's first definition `SV.Buckets.releaseBuckets` (swap-with-last loop) disagrees with C18's** on the
seed's own counterexample: it keeps released bucket 3 and drops live bucket 2, C18 keeps exactly bucket 2.
Which side matches Go: C18 - /repo `cache/cleaner.go:ReleaseBuckets` is now the stable in-place filter (repaired
code); the swap loop is the historical form kept in the seed for its counterexample `releaseBuckets_counterexample`.
Not a live disagreement as long as nothing claims `SV.Buckets.releaseBuckets` models current code. -/
theorem cons_buckets_seedOld_ne_c18_releaseBuckets_witness :
    bucketIdsOf (Buckets.releaseBuckets [⟨1, true⟩, ⟨2, false⟩, ⟨3, true⟩]) = [3] ∧
      Cache.releaseBuckets (bucketRelOf [⟨1, true⟩, ⟨2, false⟩, ⟨3, true⟩]) (bucketIdsOf [⟨1, true⟩, ⟨2, false⟩, ⟨3, true⟩]) = [2] := by
  decide

/-- the two agree whenever at most the trailing buckets are released (no swap moves a live bucket):
here the simplest case, nothing released -/
theorem cons_buckets_seedOld_eq_fixed_of_none_released (bs : List Buckets.B) (h : ∀ b, b ∈ bs → b.released = false) :
    Buckets.releaseBuckets bs = Buckets.releaseBucketsFixed bs := by
  have hdel : Buckets.toDelete bs = [] := by
    unfold Buckets.toDelete
    rw [List.filter_eq_nil_iff]
    intro i hi
    rw [List.mem_range] at hi
    have : bs.getD i ⟨0, false⟩ ∈ bs := by
      rw [List.getD_eq_getElem?_getD, List.getElem?_eq_getElem hi]
      exact List.getElem_mem hi
    rw [h _ this]; simp
  unfold Buckets.releaseBuckets Buckets.releaseBucketsFixed
  simp only [hdel, List.isEmpty_nil, if_true]
  symm
  rw [List.filter_eq_self]
  intro b hb
  rw [h b hb]; rfl

end SV.Consistency
