import SeqVerif.Model.PatternDigits
import SeqVerif.Model.PatternSpec
import SeqVerif.Spec.StoreNum
/-!
# Consistency wave 2 (topic b): `Pattern.digitsNat` / `DigitsMono` (Model/PatternDigits.lean, C13, new) vs
`Spec.digitsVal` / `Spec.numVal` (Spec/Store.lean) vs `Pattern.NumAgree` (Model/PatternSpec.lean)

`digitsNat` is a second, textually identical copy of `Spec.digitsVal` (PatternDigits.lean imports only PatternRange, not
the Spec).  Shown here: they are equal on every input; the Spec's reading `numVal` extends it by the sign; `numVal`
satisfies `DigitsMono`; since `digits_range_closed/open` also need a bounded oracle (`hb`) and `numVal` is unbounded,
they are instantiated at `numVal` cut at `maxKey` (what `ParseFloat` + `isNaNOrInf` does to huge strings: not a number);
`NumAgree pf S` implies `DigitsMono` on `S`, not conversely (`DigitsMono` allows rounding to merge neighbours).

OPEN (as in wave 1, NumVal.lean): `SV.Async.parseInt` (= `String.toInt?`, stand-in for `strconv.Atoi`) vs `numVal`:
intended statement `∀ s a, Pattern.digitsNat s = some a → Async.parseInt s = some a`; `String.toInt?` does not unfold
to a fold over bytes in core without UTF-8 lemmas, and it differs from `numVal` outside digit strings (`1_0`, `+5`).
No other decimal-digit parser exists in Model/ or Spec/ (grep `48 ≤`, `- 48`): Tokenizer's `48 ≤ cp ≤ 57` is a class test.
-/
namespace SV.Consistency
open SV

/-- Go: the decimal reading of an all-digit token.  Lean: `SV.Pattern.digitsNat` (Model/PatternDigits.lean) vs
`SV.Spec.digitsVal` (Spec/Store.lean).  No representation change (`Pattern.Bytes = Spec.Bytes = List Nat`); all inputs,
including `[]` (both `none`), leading zeros (both allowed) and non-digits (both `none`). -/
theorem cons_digits_digitsNat_eq_digitsVal (s : List Nat) : Pattern.digitsNat s = Spec.digitsVal s := by
  cases s <;> rfl

/-- the fold step both definitions use -/
def digitsStep (acc : Option Nat) (d : Nat) : Option Nat :=
  acc.bind fun n => if 48 ≤ d ∧ d ≤ 57 then some (n * 10 + (d - 48)) else none

theorem digits_fold_none (ds : List Nat) : ds.foldl digitsStep none = none := by
  induction ds with
  | nil => rfl
  | cons d ds ih => simpa [List.foldl_cons, digitsStep] using ih

theorem digits_fold_some_all (ds : List Nat) (n a : Nat) (h : ds.foldl digitsStep (some n) = some a) :
    ∀ d, d ∈ ds → 48 ≤ d ∧ d ≤ 57 := by
  induction ds generalizing n with
  | nil => intro d hd; simp at hd
  | cons x xs ih =>
    rw [List.foldl_cons] at h
    by_cases hx : 48 ≤ x ∧ x ≤ 57
    · have hs : digitsStep (some n) x = some (n * 10 + (x - 48)) := by simp [digitsStep, hx]
      rw [hs] at h
      intro d hd
      rcases List.mem_cons.mp hd with h1 | h1
      · rw [h1]; exact hx
      · exact ih _ h d h1
    · have hs : digitsStep (some n) x = none := by simp [digitsStep, hx]
      rw [hs, digits_fold_none] at h
      exact absurd h (by simp)

/-- a string with a decimal value is non-empty and all digits -/
theorem digits_digitsNat_some (s : List Nat) (a : Nat) (h : Pattern.digitsNat s = some a) :
    s ≠ [] ∧ ∀ d, d ∈ s → 48 ≤ d ∧ d ≤ 57 := by
  cases s with
  | nil => simp [Pattern.digitsNat] at h
  | cons x xs => exact ⟨by simp, digits_fold_some_all (x :: xs) 0 a h⟩

/-- **the Spec's number reading extends `digitsNat`**: on an all-digit string `numVal` is that value (as `Int`). -/
theorem cons_digits_numVal_of_digitsNat (s : List Nat) (a : Nat) (h : Pattern.digitsNat s = some a) :
    Spec.numVal s = some (Int.ofNat a) := by
  obtain ⟨hne, hall⟩ := digits_digitsNat_some s a h
  rw [cons_digits_digitsNat_eq_digitsVal] at h
  cases s with
  | nil => exact absurd rfl hne
  | cons x xs =>
    have hx : x ≠ 45 := by have := hall x (by simp); omega
    unfold Spec.numVal
    split
    · rename_i ds heq
      exact absurd (List.cons.inj heq).1 hx
    · rw [h]; rfl

/-- the sign: `numVal` of `-` followed by `ds` is minus the `digitsNat` of `ds`; without a leading `-` it is `digitsNat` -/
theorem cons_digits_numVal_sign (ds : List Nat) :
    Spec.numVal (45 :: ds) = (Pattern.digitsNat ds).map (fun n => -(Int.ofNat n)) ∧
    (∀ s : List Nat, s.head? ≠ some 45 → Spec.numVal s = (Pattern.digitsNat s).map Int.ofNat) := by
  refine ⟨by rw [cons_digits_digitsNat_eq_digitsVal]; rfl, ?_⟩
  intro s hs
  rw [cons_digits_digitsNat_eq_digitsVal]
  unfold Spec.numVal
  split
  · simp at hs
  · rfl

/-- **`Spec.numVal` satisfies `Pattern.DigitsMono`** - with equality of order (it never merges two values) -/
theorem cons_digits_numVal_digitsMono : Pattern.DigitsMono Spec.numVal := by
  intro s t a b x y hs ht hx hy hab
  rw [cons_digits_numVal_of_digitsNat s a hs] at hx
  rw [cons_digits_numVal_of_digitsNat t b ht] at hy
  cases hx; cases hy
  exact Int.ofNat_le.mpr hab

/-- `numVal` cut at `maxKey`: a value beyond the key range is "not a number" (Go: `ParseFloat` returns ±Inf with
`ErrRange` for > 308 digits and `isNaNOrInf` rejects it; the bounded order key of the C13 oracle) -/
def digitsvalBounded (maxKey : Int) (s : List Nat) : Option Int :=
  (Spec.numVal s).bind fun x => if -maxKey ≤ x ∧ x ≤ maxKey then some x else none

theorem digitsval_bounded_some (maxKey : Int) (s : List Nat) (x : Int) (h : digitsvalBounded maxKey s = some x) :
    Spec.numVal s = some x ∧ -maxKey ≤ x ∧ x ≤ maxKey := by
  unfold digitsvalBounded at h
  cases hn : Spec.numVal s with
  | none => rw [hn] at h; simp at h
  | some z =>
    rw [hn] at h
    simp only [Option.bind_some] at h
    split at h
    · rename_i hb; cases h; exact ⟨rfl, hb⟩
    · simp at h

/-- the cut reading is a legal C13 oracle: bounded and `DigitsMono` -/
theorem cons_digits_bounded_numVal_oracle (maxKey : Int) :
    (∀ b x, digitsvalBounded maxKey b = some x → -maxKey ≤ x ∧ x ≤ maxKey) ∧ Pattern.DigitsMono (digitsvalBounded maxKey) := by
  refine ⟨fun b x h => (digitsval_bounded_some maxKey b x h).2, ?_⟩
  intro s t a b x y hs ht hx hy hab
  exact cons_digits_numVal_digitsMono s t a b x y hs ht (digitsval_bounded_some _ _ _ hx).1 (digitsval_bounded_some _ _ _ hy).1 hab

/-- **`digits_range_closed` at the Spec's own reading**: with ends and token all-digit strings whose values are inside
the key range, every token with `a ≤ n ≤ b` passes `[lo TO hi]` under the (cut) `numVal` oracle -/
theorem cons_digits_range_closed_numVal (maxKey : Int) (lo hi v : List Nat) (a b n : Nat)
    (hlo : Pattern.digitsNat lo = some a) (hhi : Pattern.digitsNat hi = some b) (hv : Pattern.digitsNat v = some n)
    (hb : Int.ofNat b ≤ maxKey) (h1 : a ≤ n) (h2 : n ≤ b) :
    Pattern.rangeCheck (digitsvalBounded maxKey) maxKey ⟨some lo, some hi, true, true⟩ v = true := by
  have hk : ∀ (s : List Nat) (m : Nat), Pattern.digitsNat s = some m → m ≤ b →
      digitsvalBounded maxKey s = some (Int.ofNat m) := by
    intro s m hs hm
    unfold digitsvalBounded
    rw [cons_digits_numVal_of_digitsNat s m hs]
    have : (Int.ofNat m) ≤ Int.ofNat b := Int.ofNat_le.mpr hm
    have h0 : (0 : Int) ≤ Int.ofNat m := Int.natCast_nonneg m
    simp only [Option.bind_some]
    rw [if_pos ⟨by omega, by omega⟩]
  exact Pattern.digits_range_closed _ maxKey (cons_digits_bounded_numVal_oracle maxKey).1
    (cons_digits_bounded_numVal_oracle maxKey).2 lo hi v a b n _ _ _ hlo hhi hv
    (hk lo a hlo (by omega)) (hk hi b hhi (Nat.le_refl _)) (hk v n hv h2) h1 h2

/-- **`digits_range_open` at the Spec's own reading**: nothing outside `(a, b)` passes `(lo TO hi)` -/
theorem cons_digits_range_open_numVal (maxKey : Int) (lo hi v : List Nat) (a b n : Nat)
    (hlo : Pattern.digitsNat lo = some a) (hhi : Pattern.digitsNat hi = some b) (hv : Pattern.digitsNat v = some n)
    (ha : Int.ofNat a ≤ maxKey) (hb : Int.ofNat b ≤ maxKey)
    (h : Pattern.rangeCheck (digitsvalBounded maxKey) maxKey ⟨some lo, some hi, false, false⟩ v = true) : a < n ∧ n < b := by
  have hk : ∀ (s : List Nat) (m : Nat), Pattern.digitsNat s = some m → Int.ofNat m ≤ maxKey →
      digitsvalBounded maxKey s = some (Int.ofNat m) := by
    intro s m hs hm
    unfold digitsvalBounded
    rw [cons_digits_numVal_of_digitsNat s m hs]
    have h0 : (0 : Int) ≤ Int.ofNat m := Int.natCast_nonneg m
    simp only [Option.bind_some]
    rw [if_pos ⟨by omega, by omega⟩]
  exact Pattern.digits_range_open _ maxKey (cons_digits_bounded_numVal_oracle maxKey).1
    (cons_digits_bounded_numVal_oracle maxKey).2 lo hi v a b n _ _ hlo hhi hv (hk lo a hlo ha) (hk hi b hhi hb) h

/-- non-vacuity: `[5 TO 20]` contains `12`, key range 2^53 -/
example : Pattern.rangeCheck (digitsvalBounded 9007199254740992) 9007199254740992 ⟨some [53], some [50, 48], true, true⟩ [49, 50] = true :=
  cons_digits_range_closed_numVal 9007199254740992 [53] [50, 48] [49, 50] 5 20 12 (by decide) (by decide) (by decide) (by decide) (by decide) (by decide)

/-! ## `NumAgree` (wave 1 / PatternSpec.lean) vs `DigitsMono` -/

/-- `NumAgree pf S` (same domain and same order as `numVal` on the strings of `S`) gives the `DigitsMono` inequality for
all-digit strings of `S` -/
theorem cons_digits_numAgree_imp_digitsMono_on (pf : Pattern.Bytes → Option Int) (S : Pattern.Bytes → Prop)
    (hag : Pattern.NumAgree pf S) (s t : Pattern.Bytes) (a b : Nat) (x y : Int) (hs : S s) (ht : S t)
    (h1 : Pattern.digitsNat s = some a) (h2 : Pattern.digitsNat t = some b) (h3 : pf s = some x) (h4 : pf t = some y)
    (hab : a ≤ b) : x ≤ y :=
  (hag.le s t x y _ _ hs ht h3 h4 (cons_digits_numVal_of_digitsNat s a h1) (cons_digits_numVal_of_digitsNat t b h2)).mpr
    (Int.ofNat_le.mpr hab)

/-- on all strings: `NumAgree pf (fun _ => True)` implies `DigitsMono pf` -/
theorem cons_digits_numAgree_imp_digitsMono (pf : Pattern.Bytes → Option Int) (hag : Pattern.NumAgree pf (fun _ => True)) :
    Pattern.DigitsMono pf :=
  fun s t a b x y h1 h2 h3 h4 hab =>
    cons_digits_numAgree_imp_digitsMono_on pf _ hag s t a b x y trivial trivial h1 h2 h3 h4 hab

/-- the converse fails: `DigitsMono` lets the oracle merge different integers (float64 rounding above 2^53, the wave-1
`precision_witness`), `NumAgree` does not.  Witness: the constant oracle on `S = {"1", "2"}`. -/
theorem cons_digits_digitsMono_not_numAgree_witness :
    Pattern.DigitsMono (fun _ => some 0) ∧ ¬ Pattern.NumAgree (fun _ => some 0) (fun s => s = [49] ∨ s = [50]) := by
  constructor
  · intro s t a b x y _ _ hx hy _
    cases hx; cases hy; exact Int.le_refl _
  · intro h
    have := (h.le [50] [49] 0 0 2 1 (Or.inr rfl) (Or.inl rfl) rfl rfl (by decide) (by decide)).mp (Int.le_refl _)
    omega

end SV.Consistency
