import SeqVerif.Model.ProxyFracInv
import SeqVerif.Model.Lifecycle
import SeqVerif.Proofs.SealCrash
/-!
# Consistency: the step order of `proxyFrac.Seal` / `proxyFrac.Suicide` - C07 (`SV.ProxyFrac`) vs C08/C15 (`SV.SealOps`, `SV.Lifecycle`)

Go `proxyFrac.Seal`:  ... `frac.Seal(active)` ; `NewSealedPreloaded` + publish ; `sealWg.Done()` ; `active.Release()`.

* C07 has one label per critical section: `sealBuilt` / `sealBuildErr` (`frac.Seal` returned / failed),
  `sealPublish`, `sealWgDone`, `sealRelease` (`active.Release`).
* C08 (`sealTrace`, reused by C15) has the file operations: those of `frac.Seal`, then - only on success - those of
  `active.Release` (`releaseOps`, the only `remove`s of the trace).  `NewSealedPreloaded` does no file operation.

Common labels: `SealPhase.build` (a step of `frac.Seal` that touches the fraction's files) and `SealPhase.release`
(a step of `active.Release`).  Both models are projected to them and the projections are shown to agree:
`build` strictly before `release`, `release` only after a successful `frac.Seal`.
-/
namespace SV.Consistency
open SV SV.FileSet SV.SealOps

inductive SealPhase
  | build | release
  deriving DecidableEq, Repr

/-- C07 label -> common label (labels that touch no file of the fraction are dropped) -/
def c07Phase : ProxyFrac.Label → Option SealPhase
  | .sealBuilt => some .build
  | .sealBuildErr => some .build
  | .sealRelease => some .release
  | _ => none

/-- C08 file operation -> common label: inside `sealTrace` the `remove`s are exactly `active.Release`
(`cons_proxyfrac_sealTrace_shape` below) -/
def c08Phase : Op → SealPhase
  | .remove _ => .release
  | _ => .build

/-- drop adjacent repetitions (C08 has many operations per phase, C07 one label) -/
def collapsePhases : List SealPhase → List SealPhase
  | [] => []
  | a :: r => if r.head? = some a then collapsePhases r else a :: collapsePhases r

private theorem collapsePhases_replicate (n : Nat) (a : SealPhase) : collapsePhases (List.replicate (n + 1) a) = [a] := by
  induction n with
  | zero => simp [collapsePhases]
  | succ n ih =>
    rw [List.replicate_succ, collapsePhases]
    simp only [List.replicate_succ, List.head?_cons, if_true]
    simpa [List.replicate_succ] using ih

private theorem collapsePhases_replicate_append (n m : Nat) (a b : SealPhase) (hab : a ≠ b) :
    collapsePhases (List.replicate (n + 1) a ++ List.replicate (m + 1) b) = [a, b] := by
  induction n with
  | zero =>
    have hne : ¬ (some b = some a) := fun h => hab (Option.some.inj h).symm
    have := collapsePhases_replicate m b
    show collapsePhases (a :: (b :: List.replicate m b)) = [a, b]
    rw [collapsePhases]
    simp only [List.head?_cons, hne, if_false]
    rw [List.replicate_succ] at this
    rw [this]
  | succ n ih =>
    rw [List.replicate_succ, List.cons_append, collapsePhases]
    simp only [List.replicate_succ, List.cons_append, List.head?_cons, if_true]
    simpa [List.replicate_succ] using ih

/-! ## C07 side -/

/-- the phases performed so far, read off the `Seal` caller's program counter -/
def c07Hist (s : ProxyFrac.St) : List SealPhase :=
  match s.sealPc with
  | .idle | .waitIdle => []
  | .building => if s.fatal then [.build] else []
  | .built | .published | .releasing => [.build]
  | .finished => [.build, .release]

set_option linter.unusedSimpArgs false in
private theorem c07Hist_step (fx : Bool) (s s' : ProxyFrac.St) (l : ProxyFrac.Label) (hs : ProxyFrac.step fx s l = some s') :
    c07Hist s' = c07Hist s ++ (c07Phase l).toList := by
  obtain ⟨active, sealed, readonly, indexWg, sealWg, aReaders, aReleased, aSuicided, sReaders, sSuicided, sealPc, suPc,
    fatal, begun, pendW, queued, indexed, failedW, sealedDocs, lostWrites, suicidedWrites⟩ := s
  cases l
  case dpAcquire k => cases k <;> (
    simp only [ProxyFrac.step] at hs
    repeat' (split at hs)
    all_goals (cases hs)
    all_goals (cases sealPc <;> simp_all [c07Hist, c07Phase]))
  case dpRelease k => cases k <;> (
    simp only [ProxyFrac.step] at hs
    repeat' (split at hs)
    all_goals (cases hs)
    all_goals (cases sealPc <;> simp_all [c07Hist, c07Phase]))
  case suTry a sl sg => cases active <;> cases sealed <;> cases readonly <;> (
    simp only [ProxyFrac.step] at hs
    repeat' (split at hs)
    all_goals (cases hs)
    all_goals (cases sealPc <;>
      simp_all [c07Hist, c07Phase, ProxyFrac.trySet, ProxyFrac.St.isSealing]))
  case suRetry a sl sg => cases active <;> cases sealed <;> cases readonly <;> (
    simp only [ProxyFrac.step] at hs
    repeat' (split at hs)
    all_goals (cases hs)
    all_goals (cases sealPc <;>
      simp_all [c07Hist, c07Phase, ProxyFrac.trySet, ProxyFrac.St.isSealing]))
  all_goals (
    simp only [ProxyFrac.step] at hs
    repeat' (split at hs)
    all_goals (cases hs)
    all_goals (cases sealPc <;> simp_all [c07Hist, c07Phase]))

private theorem c07Hist_run (fx : Bool) (tr : List ProxyFrac.Label) : ∀ (s s' : ProxyFrac.St),
    ProxyFrac.run fx s tr = some s' → c07Hist s' = c07Hist s ++ tr.filterMap c07Phase := by
  induction tr with
  | nil => intro s s' h; simp only [ProxyFrac.run, Option.some.injEq] at h; subst h; simp
  | cons l ls ih =>
    intro s s' h
    simp only [ProxyFrac.run] at h
    cases hst : ProxyFrac.step fx s l with
    | none => rw [hst] at h; cases h
    | some s1 =>
      rw [hst] at h
      rw [ih s1 s' h, c07Hist_step fx s s1 l hst, List.append_assoc]
      congr 1
      cases hp : c07Phase l <;> simp [hp]

/-- **C07: in every run of the `proxyFrac` transition system the file-touching steps of `Seal` come in the order
`build`, `release`, each at most once** - the projection of the whole trace is determined by the final state. -/
theorem cons_proxyfrac_c07_seal_phases (fx : Bool) (tr : List ProxyFrac.Label) (s : ProxyFrac.St)
    (h : ProxyFrac.run fx ProxyFrac.init tr = some s) : tr.filterMap c07Phase = c07Hist s := by
  have := c07Hist_run fx tr ProxyFrac.init s h
  simpa [c07Hist, ProxyFrac.init] using this.symm

theorem cons_proxyfrac_c07_seal_phases_prefix (fx : Bool) (tr : List ProxyFrac.Label) (s : ProxyFrac.St)
    (h : ProxyFrac.run fx ProxyFrac.init tr = some s) : tr.filterMap c07Phase <+: [.build, .release] := by
  rw [cons_proxyfrac_c07_seal_phases fx tr s h]
  unfold c07Hist
  cases s.sealPc <;> (try cases s.fatal) <;> decide

/-- non-vacuity: the complete `Seal` and the failing `Seal` are runs of C07 -/
example : ∃ s, ProxyFrac.run true ProxyFrac.init
    [.sealBegin, .sealIdle, .sealBuilt, .sealPublish, .sealWgDone, .sealRelease] = some s ∧
    c07Hist s = [.build, .release] := ⟨_, rfl, rfl⟩
example : ∃ s, ProxyFrac.run true ProxyFrac.init [.sealBegin, .sealIdle, .sealBuildErr] = some s ∧
    c07Hist s = [.build] := ⟨_, rfl, rfl⟩

/-! ## C08 / C15 side -/

/-- shape of the shared `sealTrace`: the operations of `frac.Seal` (no `remove` among them, at least
`create ._index`), then - iff it succeeded - `releaseOps` -/
theorem cons_proxyfrac_sealTrace_shape (c : Cfg) (f : Facts) (p : Plan) (oi os : List Bool) :
    ∃ pre, (sealTrace c f p oi os).2 = pre ++ (if (sealTrace c f p oi os).1 then releaseOps c else []) ∧
      pre ≠ [] ∧ ∀ o, o ∈ pre → ∀ s, o ≠ .remove s := by
  let sd : Bool × List Op := if c.skipSortDocs then (true, []) else sortedDocsOps p.sdocs os
  let r := writeIndex f p { oracle := oi }
  refine ⟨.create .indexTmp :: sd.2 ++ (if sd.1 then indexOps r else [])
      ++ (if sd.1 && r.1 then [.sync .indexTmp, .rename .indexTmp .index, .syncDir] else []), ?_, by simp, ?_⟩
  · show (sealTrace c f p oi os).2 = _
    unfold sealTrace
    simp only
    by_cases hok : ((if c.skipSortDocs = true then ((true, []) : Bool × List Op) else sortedDocsOps p.sdocs os).fst &&
        (writeIndex f p { oracle := oi }).fst) = true
    · simp only [sd, r, hok, if_true, List.append_assoc]
    · simp only [sd, r, hok, Bool.false_eq_true, if_false, List.append_nil]
  · intro o ho s hs
    subst hs
    simp only [List.cons_append, List.mem_cons, List.mem_append, reduceCtorEq, false_or] at ho
    rcases ho with (ho | ho) | ho
    · simp only [sd] at ho
      split at ho
      · cases ho
      · exact sortedDocsOps_no_remove _ _ _ ho
    · split at ho
      · exact indexOps_no_remove _ _ ho
      · cases ho
    · split at ho
      · simp at ho
      · cases ho

private theorem map_phase_build (pre : List Op) (h : ∀ o, o ∈ pre → ∀ s, o ≠ .remove s) :
    pre.map c08Phase = List.replicate pre.length .build := by
  induction pre with
  | nil => rfl
  | cons o r ih =>
    have ho := h o List.mem_cons_self
    have : c08Phase o = .build := by
      cases o <;> first | rfl | exact absurd rfl (ho _)
    simp only [List.map_cons, this, List.length_cons, List.replicate_succ,
      ih (fun x hx => h x (List.mem_cons_of_mem _ hx))]

private theorem map_phase_release (c : Cfg) : (releaseOps c).map c08Phase = List.replicate (releaseOps c).length .release := by
  obtain ⟨s, k⟩ := c
  cases s <;> cases k <;> rfl

/-- **C08/C15: projection of `sealTrace` to the common labels.**  `build`, then `release` iff `frac.Seal` succeeded
and `Release` removes at least one file (`KeepMetaFile ∧ SkipSortDocs` makes `Release` a no-op on files). -/
theorem cons_proxyfrac_c08_seal_phases (c : Cfg) (f : Facts) (p : Plan) (oi os : List Bool) :
    collapsePhases ((sealTrace c f p oi os).2.map c08Phase)
      = .build :: (if (sealTrace c f p oi os).1 = true ∧ releaseOps c ≠ [] then [.release] else []) := by
  obtain ⟨pre, hshape, hne, hpre⟩ := cons_proxyfrac_sealTrace_shape c f p oi os
  rw [hshape, List.map_append, map_phase_build pre hpre]
  obtain ⟨n, hn⟩ : ∃ n, pre.length = n + 1 := by
    cases pre with
    | nil => exact absurd rfl hne
    | cons a t => exact ⟨t.length, rfl⟩
  rw [hn]
  by_cases hok : (sealTrace c f p oi os).1 = true
  · simp only [hok, if_true, true_and, map_phase_release]
    cases hl : (releaseOps c).length with
    | zero =>
      have : releaseOps c = [] := List.eq_nil_of_length_eq_zero hl
      simp [this, collapsePhases_replicate]
    | succ m =>
      have : releaseOps c ≠ [] := by intro h; rw [h] at hl; cases hl
      simp only [this, ne_eq, not_false_eq_true, if_true]
      exact collapsePhases_replicate_append n m .build .release (by decide)
  · have hok' : (sealTrace c f p oi os).1 = false := by simpa using hok
    simp [hok', collapsePhases_replicate]

/-! ## agreement -/

/-- **`proxyFrac.Seal`: the two models order the phases alike.**  For every C08/C15 seal trace the collapsed
projection is a non-empty prefix of `[build, release]`, and it is matched by the projection of a C07 run:
the complete seal when `frac.Seal` succeeded, the `sealBuildErr` run when it failed.  (When `Release` removes nothing,
C08's projection lacks `release`: it is the prefix `[build]` of C07's.) -/
theorem cons_proxyfrac_c08_seal_phases_eq_c07 (fx : Bool) (c : Cfg) (f : Facts) (p : Plan) (oi os : List Bool) :
    ∃ tr s, ProxyFrac.run fx ProxyFrac.init tr = some s ∧
      collapsePhases ((sealTrace c f p oi os).2.map c08Phase) <+: tr.filterMap c07Phase ∧
      (releaseOps c ≠ [] → collapsePhases ((sealTrace c f p oi os).2.map c08Phase) = tr.filterMap c07Phase) ∧
      ((sealTrace c f p oi os).1 = true ↔ s.sealed = true) := by
  rw [cons_proxyfrac_c08_seal_phases]
  by_cases hok : (sealTrace c f p oi os).1 = true
  · refine ⟨[.sealBegin, .sealIdle, .sealBuilt, .sealPublish, .sealWgDone, .sealRelease], _, rfl, ?_, ?_, ?_⟩
    · simp only [hok, true_and]
      split
      · exact List.prefix_refl _
      · exact ⟨[.release], rfl⟩
    · intro hne
      simp only [hok, hne, true_and, ne_eq, not_false_eq_true, if_true]
      rfl
    · simp [hok]
  · have hok' : (sealTrace c f p oi os).1 = false := by simpa using hok
    refine ⟨[.sealBegin, .sealIdle, .sealBuildErr], _, rfl, ?_, ?_, ?_⟩
    · simp only [hok', Bool.false_eq_true, false_and, if_false]
      exact List.prefix_refl _
    · intro _
      simp only [hok', Bool.false_eq_true, false_and, if_false]
      rfl
    · simp [hok', ProxyFrac.init]

/-- C15 gives the role `.sealed` exactly when the trace succeeded (`Proc.roleAfter`); C07 sets `sealed` only after
`sealBuilt`: in every reachable C07 state a published sealed fraction implies the `build` phase is done, and the
process is not `fatal`-stopped inside `frac.Seal`. -/
theorem cons_proxyfrac_c07_sealed_after_build (fx : Bool) (s : ProxyFrac.St) (h : ProxyFrac.Reachable fx s)
    (hs : s.sealed = true) : c07Hist s = [.build] ∨ c07Hist s = [.build, .release] := by
  have hinv := (ProxyFrac.inv_reachable fx s h).sealI
  unfold ProxyFrac.SealInv at hinv
  unfold c07Hist
  cases hpc : s.sealPc <;> rw [hpc] at hinv <;> simp_all

/-- C15's `roleAfter` for sealing, restated: `.sealed` iff the trace reports success -/
theorem cons_proxyfrac_c15_role_sealed_iff (c : Cfg) (f : Facts) (o : Bool) (fs : FileSet) (p : Plan) (oi os : List Bool) :
    Lifecycle.Proc.roleAfter c f o fs (.sealing p oi os) = .sealed ↔ (sealTrace c f p oi os).1 = true := by
  simp only [Lifecycle.Proc.roleAfter]
  split <;> simp_all

/-! ## `proxyFrac.Suicide` -/

/-- C15 models `Active.Suicide` only through its not-released branch (`SV.Lifecycle.activeSuicideOps`:
`removeMetaFile`, `removeDocsFiles`).  C07 justifies it: whenever `proxyFrac.Suicide` reaches `active.Suicide()`
(label `suActive`) in a reachable state, the active fraction has not been released. -/
theorem cons_proxyfrac_c07_suActive_unreleased (fx : Bool) (s s' : ProxyFrac.St) (h : ProxyFrac.Reachable fx s)
    (hs : ProxyFrac.step fx s .suActive = some s') : s.aReleased = false := by
  have hinv := ProxyFrac.inv_reachable fx s h
  have hsu := hinv.suI
  have hse := hinv.sealI
  simp only [ProxyFrac.step] at hs
  split at hs
  · split at hs
    · rename_i sl hpc
      unfold ProxyFrac.SuInv at hsu
      rw [hpc] at hsu
      obtain ⟨_, _, h3, _⟩ := hsu
      obtain ⟨hidle, hns⟩ := h3 rfl
      unfold ProxyFrac.SealInv at hse
      rw [hidle] at hse
      rw [hse.2.2.2, hns]
    · cases hs
  · cases hs

/-- non-vacuity: `suActive` is enabled in a reachable state -/
example : ∃ s s', ProxyFrac.run true ProxyFrac.init [.suTry true false false] = some s ∧
    ProxyFrac.step true s .suActive = some s' := ⟨_, _, rfl, rfl⟩

/-- and `sealed.Suicide()` (label `suSealed`, C15 `sealedSuicideOps`) is only reached on a fraction whose `Seal`
finished publishing: never while C15 would still give the role `.active`. -/
theorem cons_proxyfrac_c07_suSealed_after_publish (fx : Bool) (s s' : ProxyFrac.St)
    (hs : ProxyFrac.step fx s .suSealed = some s') : s.suPc = .got false true := by
  simp only [ProxyFrac.step] at hs
  split at hs
  · split at hs
    · assumption
    · cases hs
  · cases hs

end SV.Consistency
