import SeqVerif.Model.ApiLemmas
import SeqVerif.Model.ProxyCompose
import SeqVerif.Consistency.Int64
/-!
# Consistency: the API-boundary model of a search (C05, `SV.Api`, Model/ApiSearch.lean) vs the proxy model of C16
(`SV.ProxySearch`, Model/ProxySearch.lean + ProxyCompose.lean)

* `Api.proxySearch` REUSES `Merge.proxyMerge` (Model/SearchDocs.lean) for `MergeQPRs` + `paginateIDs`: not a duplicate of
  C05's merge; C05's merge vs C16's merge is `ProxyCompose.page_agree` / `merge_total_agree` (= `c16_merge_models_agree`),
  `paginateIDs` alone is `cons_paginate_merge_eq_proxy` (Consistency/Paginate.lean).  Composed below into
  `Api.proxySearch` = `ProxySearch.search` + key conversion.
* the replica loop of `searchShard` is written in `Api.pickReplica` (who answers) and in `ProxySearch.searchShard`
  (what is returned, with the short-circuit codes): equal on the common outcome alphabet {transport error, plain answer}.
* limit arithmetic: `Api` wraps `Offset+Size` like Go's `int`, `ProxySearch` adds naturals - witness below.
-/
namespace SV.Consistency

open SV

/-! ## the replica loop -/

/-- index of the first replica that is up (shared yardstick of the replica-loop models) -/
def apiFirstUp : List Bool → Option Nat
  | [] => none
  | true :: _ => some 0
  | false :: r => (apiFirstUp r).map (· + 1)

theorem apiSearch_pickReplica_range (up pre : List Bool) :
    Api.pickReplica (List.range' pre.length up.length) (pre ++ up) = (apiFirstUp up).map (· + pre.length) := by
  induction up generalizing pre with
  | nil => simp [Api.pickReplica, apiFirstUp]
  | cons b r ih =>
    have hget : (pre ++ b :: r).getD pre.length false = b := by
      simp [List.getD_eq_getElem?_getD]
    simp only [List.length_cons, List.range'_succ, Api.pickReplica, List.find?_cons, hget]
    cases b with
    | true => simp [apiFirstUp]
    | false =>
      have := ih (pre ++ [false])
      simp only [List.length_append, List.length_cons, List.length_nil, Nat.zero_add, List.append_assoc,
        List.cons_append, List.nil_append, Api.pickReplica] at this
      simp only [apiFirstUp, Option.map_map]
      rw [this]
      congr 1
      funext x
      simp only [Function.comp]
      omega

/-- Go `searchShard` without shuffling (`IdxFill` order): `SV.Api.pickReplica` on the index order picks the first
replica that is up.  All inputs. -/
theorem cons_apiSearch_pickReplica_idxFill (up : List Bool) :
    Api.pickReplica (List.range up.length) up = apiFirstUp up := by
  have := apiSearch_pickReplica_range up []
  simpa [List.range_eq_range'] using this

/-- a call outcome of the C16 model seen by the C05 model: "up" = a plain answer (`SearchErrorCode` none) -/
def apiCallUp : ProxySearch.Call → Bool
  | .resp .none _ _ _ => true
  | _ => false

/-- the common outcome alphabet: transport error or plain answer (the Api model has no wants-old-data /
too-many-unique-values / too-many-fractions outcomes inside `pickReplica`; those short-circuit the C16 loop) -/
def ApiCommonCalls (calls : List ProxySearch.Call) : Prop :=
  ∀ c, c ∈ calls → c = .fail ∨ ∃ ids t e, c = .resp .none ids t e

theorem apiSearch_searchShardGo (calls : List ProxySearch.Call) (hc : ApiCommonCalls calls) (k : Nat) (anyErr : Bool) :
    ProxySearch.searchShardGo k anyErr calls =
      match apiFirstUp (calls.map apiCallUp) with
      | some i =>
        (match calls[i]? with
         | some (.resp .none ids t e) => .ok (k + i) ids t e
         | _ => .failed)
      | none => if anyErr = true ∨ calls ≠ [] then .failed else .nilResp := by
  induction calls generalizing k anyErr with
  | nil => cases anyErr <;> simp [ProxySearch.searchShardGo, apiFirstUp]
  | cons c rest ih =>
    have hrest : ApiCommonCalls rest := fun x hx => hc x (List.mem_cons_of_mem _ hx)
    rcases hc c (by simp) with rfl | ⟨ids, t, e, rfl⟩
    · simp only [ProxySearch.searchShardGo, List.map_cons, apiCallUp, apiFirstUp]
      rw [ih hrest (k + 1) true]
      cases hf : apiFirstUp (rest.map apiCallUp) with
      | none => simp
      | some i =>
        simp only [Option.map_some, List.getElem?_cons_succ]
        have : k + 1 + i = k + (i + 1) := by omega
        rw [this]
    · simp [ProxySearch.searchShardGo, apiCallUp, apiFirstUp]

/-- Go `searchShard`: `SV.ProxySearch.searchShard` (C16: returns the answer or a failure class) vs `SV.Api.pickReplica`
(C05 API model: returns WHICH replica answers).  On the common alphabet (`ApiCommonCalls`) the C16 loop returns the
answer of exactly the replica `pickReplica` selects in index order; with no replica up it fails (`nilResp` for a
shard without replicas - the Api model has `none` for both). -/
theorem cons_apiSearch_searchShard_eq_pickReplica (calls : List ProxySearch.Call) (hc : ApiCommonCalls calls) :
    ProxySearch.searchShard calls =
      match Api.pickReplica (List.range calls.length) (calls.map apiCallUp) with
      | some i =>
        (match calls[i]? with
         | some (.resp .none ids t e) => .ok i ids t e
         | _ => .failed)
      | none => if calls ≠ [] then .failed else .nilResp := by
  have h1 := cons_apiSearch_pickReplica_idxFill (calls.map apiCallUp)
  rw [List.length_map] at h1
  rw [h1]
  unfold ProxySearch.searchShard
  rw [apiSearch_searchShardGo calls hc 0 false]
  simp

example : ApiCommonCalls [.fail, .resp .none [(1, 2)] 1 0] := by
  intro c hc
  simp at hc
  rcases hc with rfl | rfl
  · exact Or.inl rfl
  · exact Or.inr ⟨_, _, _, rfl⟩

/-- outside the common alphabet the loops differ by design: a wants-old-data refusal ends the C16 loop although a later
replica is up -/
theorem cons_apiSearch_searchShard_ne_pickReplica_witness :
    ProxySearch.searchShard [.failWod, .resp .none [] 0 0] = .wod ∧
    Api.pickReplica (List.range 2) ([ProxySearch.Call.failWod, .resp .none [] 0 0].map apiCallUp) = some 1 := by decide

/-! ## `Ingestor.Search` when every shard answers -/

/-- the shard answers of the C16 model for given per-shard QPRs, in shard order -/
def apiOkArrival (qs : List ProxySearch.QPR) : List (Nat × ProxySearch.ShardRes) :=
  qs.map fun q => (q.src.1, .ok q.src.2 q.ids q.total q.nerr)

theorem apiSearch_oks_okArrival (qs : List ProxySearch.QPR) : ProxySearch.oks (apiOkArrival qs) = qs := by
  induction qs with
  | nil => rfl
  | cons q r ih =>
    simp only [apiOkArrival, List.map_cons, ProxySearch.oks] at ih ⊢
    rw [ih]

theorem apiSearch_nbad_okArrival (qs : List ProxySearch.QPR) : ProxySearch.nbad (apiOkArrival qs) = 0 := by
  induction qs with
  | nil => rfl
  | cons q r ih =>
    simp only [apiOkArrival, List.map_cons, ProxySearch.nbad] at ih ⊢
    exact ih

theorem apiSearch_searchStores_okArrival (qs : List ProxySearch.QPR) :
    ProxySearch.searchStores (apiOkArrival qs) = .data qs false := by
  have h := (ProxySearch.storesLoop_noSC (apiOkArrival qs) [] 0 false (by
    intro e he
    simp only [apiOkArrival, List.mem_map] at he
    obtain ⟨q, _, rfl⟩ := he
    simp)).2 (by simp [apiSearch_nbad_okArrival])
  simpa [ProxySearch.searchStores, apiSearch_oks_okArrival] using h

theorem apiSearch_any_ok (qs : List Merge.QPR) (x : Api.Resp) (hx : ∀ q, x ≠ .ok q) :
    (qs.map Api.Resp.ok).any (· == x) = false := by
  induction qs with
  | nil => rfl
  | cons q r ih =>
    simp only [List.map_cons, List.any_cons, ih, Bool.or_false]
    exact beq_false_of_ne (fun h => hx q h.symm)

/-- Go `Ingestor.Search` (validation, `MergeQPRs(.., Offset+Size, ..)`, `paginateIDs`) when every shard answers:
`SV.Api.proxySearch` (C05 API model, QPRs of keys `mid*2^64+rid`) and `SV.ProxySearch.search` (C16, QPRs of pairs tagged
with their source, arrival = shard order) return the same page and the same total.
Representation: `ProxyCompose.keyOf` / `ProxyCompose.conv`; `rev = (order = 1)`; the Api side is literally
`Merge.proxyMerge` (reuse).
Domain: a request the proxy accepts (`0 <= size, offset`, declared order, `offset + size < 2^63` - see the witness
below for the last one), RIDs `< 2^64` (`Bounded`). -/
theorem cons_apiSearch_proxySearch_eq_proxysearch_search (r : Api.ProxyReq) (qs : List ProxySearch.QPR)
    (cold : List (Nat × ProxySearch.ShardRes)) (hb : ProxyCompose.Bounded qs)
    (hs : 0 ≤ r.size) (ho : 0 ≤ r.offset) (hord : r.order < 2) (hsum : r.offset + r.size < 9223372036854775808) :
    Api.proxySearch r (qs.map fun q => .ok (ProxyCompose.conv q)) =
        .ok (Merge.proxyMerge (decide (r.order = 0)) (qs.map ProxyCompose.conv) r.offset.toNat r.size.toNat r.interval) ∧
    ∃ ids nerr,
      ProxySearch.search (apiOkArrival qs) cold r.offset.toNat r.size.toNat (decide (r.order = 1)) =
        .ok ids (Merge.proxyMerge (decide (r.order = 0)) (qs.map ProxyCompose.conv) r.offset.toNat r.size.toNat r.interval).total
          nerr false false ∧
      ids.map (fun p => ProxyCompose.keyOf p.1) =
        (Merge.proxyMerge (decide (r.order = 0)) (qs.map ProxyCompose.conv) r.offset.toNat r.size.toNat r.interval).ids := by
  have hdesc : decide (r.order = 0) = !decide (r.order = 1) := by
    have : r.order = 0 ∨ r.order = 1 := by omega
    rcases this with h | h <;> simp [h]
  constructor
  · unfold Api.proxySearch
    have h1 : ¬ (r.size < 0 ∨ r.offset < 0) := by omega
    have h2 : (Api.apiRequest r).isNone = false := by simp [Api.apiRequest, hord]
    have hmap : (qs.map fun q => Api.Resp.ok (ProxyCompose.conv q)) = (qs.map ProxyCompose.conv).map Api.Resp.ok := by
      simp [List.map_map, Function.comp_def]
    have h3 := apiSearch_any_ok (qs.map ProxyCompose.conv) .tooManyFractions (by intro q h; cases h)
    have h4 := apiSearch_any_ok (qs.map ProxyCompose.conv) .panic (by intro q h; cases h)
    have h5 : ¬ Go.wrapI64 (r.offset + r.size) < 0 := by unfold Go.wrapI64; omega
    rw [if_neg h1, h2, hmap, h3, h4, Api.collect_map_ok]
    simp only [Bool.false_eq_true, if_false]
    rw [if_neg h5]
  · have hst := apiSearch_searchStores_okArrival qs
    refine ⟨ProxySearch.paginate (ProxySearch.mergeQPRs (decide (r.order = 1)) (r.offset.toNat + r.size.toNat) qs).ids
      r.offset.toNat r.size.toNat, (ProxySearch.mergeQPRs (decide (r.order = 1)) (r.offset.toNat + r.size.toNat) qs).nerr, ?_, ?_⟩
    · have hlw : ProxySearch.limitWraps r.offset.toNat r.size.toNat = false := by
        unfold ProxySearch.limitWraps
        simp only [decide_eq_false_iff_not]
        omega
      unfold ProxySearch.search
      rw [hst]
      simp only [ProxySearch.finish, hlw, Bool.false_eq_true, if_false]
      rw [ProxyCompose.merge_total_agree (decide (r.order = 1)) (r.offset.toNat + r.size.toNat) r.interval qs hb, hdesc]
      rfl
    · rw [hdesc]
      exact ProxyCompose.page_agree (decide (r.order = 1)) r.offset.toNat r.size.toNat r.interval qs hb

example : ProxyCompose.Bounded [⟨(0, 0), [(5, 7)], 1, 0⟩] := by
  intro q hq i hi
  simp at hq; subst hq
  simp at hi; subst hi
  decide

/-! ## limit arithmetic `sr.Offset + sr.Size` -/

/-- Go computes the merge limit `sr.Offset+sr.Size` in `int`; for `Offset = MaxInt64, Size = 1` it wraps to `MinInt64`
and `MergeQPRs` panics in `ids[:min(len(ids), limit)]` (seq/qpr.go).  Both models now say so: `SV.Api.proxySearch`
returns `.panic`, and `SV.ProxySearch.search` (C16, `limitWraps`, since the wave-5 repair of that model - it used to add
unbounded naturals and return an empty page) returns `.panic` as well; the C16 harness confirms it on the real
handlers and over the real gRPC server (the client sees codes.Internal).  `hsum` above is the domain on which a page is
returned at all. -/
theorem cons_apiSearch_limit_wrap_witness :
    Api.proxySearch ⟨0, 0, 1, 9223372036854775807, 0, false, 0⟩ [.ok ⟨[], 0, none⟩] = .panic ∧
    ProxySearch.search [(0, .ok 0 [] 0 0)] [] 9223372036854775807 1 false = .panic := by
  constructor
  · decide
  · decide

/-- the store side has the same wrap: `limit := int(req.Size + req.Offset)` (int64 addition), `SV.Api.storeParams` -/
theorem cons_apiSearch_storeParams_limit_wraps :
    (Api.storeParams ⟨0, 0, 1, 9223372036854775807, 0, false, 0, false⟩).map (·.limit) = some (-9223372036854775808) := by
  decide

/-! ## integer conversions at the boundary vs Consistency/Int64.lean -/

/-- Go `int64(qpr.Total)` in `proxyapi` (`SV.ProxyRead.toInt64`) is the `wrapI64` the Api model uses for `int64(sr.From)`
etc. (`SV.Api.apiRequest`): composition of `cons_int64_proxyread_toInt64_eq_dist_toInt64` and
`cons_int64_dist_toInt64_eq_go_wrapI64`.  All inputs. -/
theorem cons_apiSearch_proxyread_toInt64_eq_wrapI64 (t : Nat) : ProxyRead.toInt64 t = Go.wrapI64 (t : Int) := by
  rw [cons_int64_proxyread_toInt64_eq_dist_toInt64, cons_int64_dist_toInt64_eq_go_wrapI64]

/-- Go `seq.MID(req.From)` (int64 -> uint64) in `doSearch`: `SV.Api.storeParams` uses `(wrapU64 x).toNat`, the async
model `SV.Async.toU64`; the same function.  All inputs. -/
theorem cons_apiSearch_storeParams_from_eq_async_toU64 (x : Int) : (Go.wrapU64 x).toNat = Async.toU64 x := rfl

end SV.Consistency
