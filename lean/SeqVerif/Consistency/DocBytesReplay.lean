import SeqVerif.Model.WritePath
import SeqVerif.Model.WritePathReplay
/-!
# Consistency: `DocBlocksReader.ReadDocBlock` and the loop of `frac.Active.Replay` -
the C01 model (`SV.WPath`, Model/WPBytes.lean + Model/WritePath.lean: concrete 33-byte header, uint64 wrap of
`FullLen`, the `make([]byte, l)` panic, whole block returned) vs the seed prototype (`SV.WP`,
Model/WritePathReplay.lean: abstract `Codec` with an `H`-byte header, no wrap, no panic, `(ext1, payload)` returned).

The seed file is imported only by the root `SeqVerif.lean` (no `Props/` theorem uses it); it is kept as the proof
seed of `replay_concat`.  Representation change: a seed `Codec` *decodes like* the byte-level model (`SeedMatches`:
`H = 33`, `getLen = WPath.getLen`, `getExt = WPath.getExt1`); a C01 block `blk` (header + payload) corresponds to the
seed triple `(getExt1 blk, blk.drop 33, docs offset)`.
Domain: the bytes are bytes (`< 256`) and the C01 replay does not panic - the seed has no counterpart of the two
panics (`make` with an impossible length, `FullLen` wrapping below the header length).
-/
namespace SV.Consistency

open SV

/-- the seed codec decodes headers as the byte-level model does -/
structure SeedMatches (c : WP.Codec) : Prop where
  H : c.H = WPath.headerLen
  getLen : ∀ b, c.getLen b = WPath.getLen b
  getExt : ∀ b, c.getExt b = WPath.getExt1 b

/-- a header layout (with list elements that need not be `< 256`) for which such a codec exists: non-vacuity of
`SeedMatches`.  `[codec=0] ++ [len,0..] ++ [0 x 8] ++ [ext1,0..] ++ [0 x 8]` -/
def seedCodec : WP.Codec where
  H := 33
  hdr l e := [0] ++ (l :: List.replicate 7 0) ++ List.replicate 8 0 ++ (e :: List.replicate 7 0) ++ List.replicate 8 0
  hdr_len := by intro l e; simp
  getLen := WPath.getLen
  getExt := WPath.getExt1
  getLen_hdr := by intro l e rest; simp [WPath.getLen, WPath.offLen, WPath.rdLE]
  getExt_hdr := by intro l e rest; simp [WPath.getExt1, WPath.offExt1, WPath.rdLE]
  H_pos := by decide

example : SeedMatches seedCodec := ⟨rfl, fun _ => rfl, fun _ => rfl⟩

/-! ## little endian reads look at `k` bytes only -/

theorem replay_rdLE_take (k n : Nat) (xs : List Nat) (h : k ≤ n) : WPath.rdLE k (xs.take n) = WPath.rdLE k xs := by
  induction k generalizing n xs with
  | zero => rfl
  | succ k ih =>
    cases xs with
    | nil => simp
    | cons x xs =>
      obtain ⟨m, rfl⟩ : ∃ m, n = m + 1 := ⟨n - 1, by omega⟩
      simp only [List.take_succ_cons, WPath.rdLE]
      rw [ih m xs (by omega)]

theorem replay_rdLE_append (k : Nat) (xs ys : List Nat) (h : k ≤ xs.length) : WPath.rdLE k (xs ++ ys) = WPath.rdLE k xs := by
  have := replay_rdLE_take k xs.length (xs ++ ys) h
  rw [List.take_left] at this
  exact this.symm

theorem replay_rdLE_lt (k : Nat) (xs : List Nat) (h : ∀ x, x ∈ xs → x < 256) : WPath.rdLE k xs < 256 ^ k := by
  induction k generalizing xs with
  | zero => simp [WPath.rdLE]
  | succ k ih =>
    cases xs with
    | nil => simp only [WPath.rdLE]; exact Nat.pow_pos (by decide)
    | cons x xs =>
      simp only [WPath.rdLE]
      have h1 := h x (by simp)
      have h2 := ih xs (fun y hy => h y (List.mem_cons_of_mem _ hy))
      rw [Nat.pow_succ]
      omega

def ReplayBytes (bs : List Nat) : Prop := ∀ x, x ∈ bs → x < 256

instance (bs : List Nat) : Decidable (ReplayBytes bs) := by unfold ReplayBytes; infer_instance

theorem replay_getLen_lt (bs : List Nat) (h : ReplayBytes bs) : WPath.getLen bs < WPath.two64 := by
  unfold WPath.getLen
  rw [WPath.two64_eq]
  exact replay_rdLE_lt 8 _ (fun x hx => h x (List.mem_of_mem_drop hx))

/-- `GetExt1` of the block cut out by `ReadDocBlock` is `GetExt1` of the bytes it was cut from -/
theorem replay_getExt1_take (bytes : List Nat) (l : Nat) (hl : 33 ≤ l) :
    WPath.getExt1 (bytes.take l) = WPath.getExt1 bytes := by
  unfold WPath.getExt1 WPath.offExt1
  rw [List.drop_take, replay_rdLE_take 8 (l - 17) _ (by omega)]

/-! ## one `ReadDocBlock` -/

/-- seed view of a C01 read result (`panic` has no counterpart; it is excluded by the hypothesis below) -/
def seedStepOf : WPath.Rd → WP.Step
  | .eof => .eof
  | .partialBlk => .partialBlk
  | .panic => .eof
  | .full blk rest => .full (WPath.getExt1 blk) (blk.drop WPath.headerLen) rest

/-- Go `DocBlocksReader.ReadDocBlock` at the head of `bytes`: the seed `SV.WP.readBlock c` (Model/WritePathReplay.lean) =
the seed view of `SV.WPath.readDocBlock` (Model/WritePath.lean), for every codec that decodes like the byte model.
Domain: header incomplete, or the length field describes an allocatable block without uint64 wrap
(`getLen + 33 <= maxAlloc < 2^64`): outside it the C01 model panics / wraps (following the Go code) and the seed has
no such behaviour. -/
theorem cons_docBytes_seedReadBlock_eq_wpReadDocBlock (c : WP.Codec) (hc : SeedMatches c) (bytes : List Nat)
    (hsz : bytes.length < 33 ∨ WPath.getLen bytes + 33 ≤ WPath.maxAlloc) :
    WP.readBlock c bytes = seedStepOf (WPath.readDocBlock bytes) := by
  have h33 : WPath.headerLen = 33 := rfl
  unfold WP.readBlock WPath.readDocBlock
  simp only [hc.H, hc.getLen, hc.getExt, h33]
  by_cases h1 : bytes.length < 33
  · rw [if_pos h1, if_pos h1]; rfl
  · rw [if_neg h1, if_neg h1]
    have hsz' : WPath.getLen bytes + 33 ≤ WPath.maxAlloc := by
      rcases hsz with h | h
      · omega
      · exact h
    have hma : WPath.maxAlloc < WPath.two64 := by decide
    have hl : (WPath.getLen bytes + 33) % WPath.two64 = WPath.getLen bytes + 33 :=
      Nat.mod_eq_of_lt (by omega)
    rw [hl]
    have hA : ¬ (WPath.maxAlloc < WPath.getLen bytes + 33) := by omega
    by_cases h2 : bytes.length < WPath.getLen bytes + 33
    · have hB : bytes.length < 33 + WPath.getLen bytes := by omega
      simp only [hA, h2, hB, if_true, if_false, seedStepOf]
    · have hB : ¬ bytes.length < 33 + WPath.getLen bytes := by omega
      simp only [hA, h2, hB, if_false, seedStepOf, h33]
      rw [replay_getExt1_take bytes _ (by omega), List.drop_take, Nat.add_sub_cancel, Nat.add_comm 33]

example : ([] : List Nat).length < 33 ∨ WPath.getLen [] + 33 ≤ WPath.maxAlloc := Or.inl (by decide)

/-- the domain restriction is necessary: with a length field of `2^64 - 1` the Go code (and the C01 model) computes
`FullLen = 32` by uint64 wrap and returns a 32-byte "block", the seed asks for `33 + 2^64 - 1` bytes -/
theorem cons_docBytes_seedReadBlock_ne_wpReadDocBlock_witness :
    WPath.readDocBlock (0 :: List.replicate 8 255 ++ List.replicate 24 0) =
      .full (0 :: List.replicate 8 255 ++ List.replicate 23 0) [0] ∧
    ∀ c : WP.Codec, SeedMatches c →
      ¬ ∃ e p r, WP.readBlock c (0 :: List.replicate 8 255 ++ List.replicate 24 0) = .full e p r := by
  refine ⟨by decide, ?_⟩
  intro c hc
  rintro ⟨e, p, r, h⟩
  unfold WP.readBlock at h
  rw [hc.H, hc.getLen] at h
  have hg : WPath.getLen (0 :: List.replicate 8 255 ++ List.replicate 24 0) = 18446744073709551615 := by decide
  rw [hg] at h
  simp [WPath.headerLen] at h

/-! ## the loop of `Active.Replay` -/

/-- seed view of the entries handed to the index worker: `(ext1, payload, docs offset)` -/
def seedEntries (es : List WPath.Entry) : List (Nat × List Nat × Nat) :=
  es.map fun e => (WPath.getExt1 e.blk, e.blk.drop WPath.headerLen, e.pos)

theorem replay_getExt1_setExt2 (b : List Nat) (v : Nat) (h : 33 ≤ b.length) :
    WPath.getExt1 (WPath.setExt2 b v) = WPath.getExt1 b := by
  unfold WPath.getExt1 WPath.setExt2 WPath.offExt1 WPath.offExt2
  have h1 : (b.take 25 ++ WPath.leN 8 v ++ b.drop (25 + 8)).drop 17 =
      (b.take 25).drop 17 ++ (WPath.leN 8 v ++ b.drop (25 + 8)) := by
    rw [List.append_assoc, List.drop_append_of_le_length (by simp; omega)]
  rw [h1, replay_rdLE_append 8 _ _ (by simp; omega), List.drop_take, replay_rdLE_take 8 _ _ (by omega)]

theorem replay_drop_setExt2 (b : List Nat) (v : Nat) (h : 33 ≤ b.length) :
    (WPath.setExt2 b v).drop 33 = b.drop 33 := by
  unfold WPath.setExt2 WPath.offExt2
  have hl : (b.take 25 ++ WPath.leN 8 v).length = 33 := by simp; omega
  rw [List.drop_left' hl]

theorem replay_mod_wrap_lt (g : Nat) (hg : g < 18446744073709551616) (hw : 18446744073709551616 ≤ g + 33) :
    (g + 33) % 18446744073709551616 < 33 := by omega

/-- what a successful `ReadDocBlock` returned -/
theorem replay_readDocBlock_full_inv (bytes blk rest : List Nat) (h : WPath.readDocBlock bytes = .full blk rest) :
    33 ≤ bytes.length ∧
    blk = bytes.take ((WPath.getLen bytes + 33) % WPath.two64) ∧
    rest = bytes.drop ((WPath.getLen bytes + 33) % WPath.two64) ∧
    (WPath.getLen bytes + 33) % WPath.two64 ≤ WPath.maxAlloc ∧
    (WPath.getLen bytes + 33) % WPath.two64 ≤ bytes.length := by
  have h33 : WPath.headerLen = 33 := rfl
  unfold WPath.readDocBlock at h
  simp only [h33] at h
  split at h
  · cases h
  · split at h
    · cases h
    · split at h
      · cases h
      · injection h with h1 h2
        exact ⟨by omega, h1.symm, h2.symm, by omega, by omega⟩

/-- Go `frac.Active.Replay` (the read loop): the seed `SV.WP.replay c` (Model/WritePathReplay.lean) = the seed view of
the entries of `SV.WPath.replayGo` (Model/WritePath.lean), same fuel, for every codec that decodes like the byte model.
Domain: the file consists of bytes (`< 256`, so the length field is a uint64) and the C01 replay does not end in a
panic (`panicked = false`); `metaPos` is not observed by the seed. -/
theorem cons_docBytes_seedReplay_eq_wpReplayGo (c : WP.Codec) (hc : SeedMatches c) (fuel : Nat) :
    ∀ (bytes : List Nat) (dp mp : Nat), ReplayBytes bytes → (WPath.replayGo fuel bytes dp mp).panicked = false →
      WP.replay c fuel bytes dp = seedEntries (WPath.replayGo fuel bytes dp mp).entries := by
  induction fuel with
  | zero => intro bytes dp mp _ _; rfl
  | succ fuel ih =>
    intro bytes dp mp hb hp
    have h33 : WPath.headerLen = 33 := rfl
    have hma : WPath.maxAlloc < WPath.two64 := by decide
    unfold WPath.replayGo at hp ⊢
    unfold WP.replay
    cases hr : WPath.readDocBlock bytes with
    | eof =>
      have hdom : bytes.length < 33 ∨ WPath.getLen bytes + 33 ≤ WPath.maxAlloc := by
        left
        unfold WPath.readDocBlock at hr
        simp only [h33] at hr
        split at hr
        · assumption
        · split at hr
          · cases hr
          · split at hr <;> cases hr
      rw [cons_docBytes_seedReadBlock_eq_wpReadDocBlock c hc bytes hdom, hr]
      rfl
    | panic => rw [hr] at hp; cases hp
    | partialBlk =>
      have hdom : bytes.length < 33 ∨ WPath.getLen bytes + 33 ≤ WPath.maxAlloc := by
        unfold WPath.readDocBlock at hr
        simp only [h33] at hr
        split at hr
        · cases hr
        · rename_i h1
          split at hr
          · cases hr
          · rename_i h2
            right
            have hg := replay_getLen_lt bytes hb
            by_cases hw : WPath.getLen bytes + 33 < WPath.two64
            · rw [Nat.mod_eq_of_lt hw] at h2; omega
            · exfalso
              have hlt : (WPath.getLen bytes + 33) % WPath.two64 < 33 := replay_mod_wrap_lt _ hg (Nat.le_of_not_lt hw)
              split at hr
              · omega
              · cases hr
      rw [cons_docBytes_seedReadBlock_eq_wpReadDocBlock c hc bytes hdom, hr]
      rfl
    | full blk rest =>
      rw [hr] at hp
      simp only at hp ⊢
      obtain ⟨hlen, hblk, hrest, hmax, hle⟩ := replay_readDocBlock_full_inv bytes blk rest hr
      have hg := replay_getLen_lt bytes hb
      by_cases hshort : blk.length < WPath.headerLen
      · rw [if_pos hshort] at hp; cases hp
      · rw [if_neg hshort] at hp ⊢
        have hblen : 33 ≤ blk.length := by rw [h33] at hshort; omega
        have hl33 : 33 ≤ (WPath.getLen bytes + 33) % WPath.two64 := by
          rw [hblk, List.length_take] at hblen; omega
        have hT : WPath.two64 = 18446744073709551616 := rfl
        have hnowrap : WPath.getLen bytes + 33 < WPath.two64 := by
          apply Nat.lt_of_not_le
          intro hw
          have : (WPath.getLen bytes + 33) % WPath.two64 < 33 := replay_mod_wrap_lt _ hg hw
          omega
        have hmod : (WPath.getLen bytes + 33) % WPath.two64 = WPath.getLen bytes + 33 := Nat.mod_eq_of_lt hnowrap
        have hdom : bytes.length < 33 ∨ WPath.getLen bytes + 33 ≤ WPath.maxAlloc := by right; omega
        rw [cons_docBytes_seedReadBlock_eq_wpReadDocBlock c hc bytes hdom, hr]
        simp only [seedStepOf]
        have hrb : ReplayBytes rest := by
          intro x hx; rw [hrest] at hx; exact hb x (List.mem_of_mem_drop hx)
        have hp' : (WPath.replayGo fuel rest (dp + WPath.getExt1 blk) (mp + blk.length)).panicked = false := hp
        rw [ih rest (dp + WPath.getExt1 blk) (mp + blk.length) hrb hp']
        simp only [seedEntries, List.map_cons, h33]
        rw [replay_getExt1_setExt2 blk dp hblen, replay_drop_setExt2 blk dp hblen]

/-- Go `frac.Active.Replay` from the start of the meta file: `SV.WPath.replay` (fuel = file length + 1) in the seed view. -/
theorem cons_docBytes_seedReplay_eq_wpReplay (c : WP.Codec) (hc : SeedMatches c) (mfile : List Nat)
    (hb : ReplayBytes mfile) (hp : (WPath.replay mfile).panicked = false) :
    WP.replay c (mfile.length + 1) mfile 0 = seedEntries (WPath.replay mfile).entries :=
  cons_docBytes_seedReplay_eq_wpReplayGo c hc _ mfile 0 0 hb hp

example : ReplayBytes (WPath.enc ⟨0, 0, 0, 0, [7]⟩) ∧ (WPath.replay (WPath.enc ⟨0, 0, 0, 0, [7]⟩)).panicked = false := by
  refine ⟨by decide, by decide⟩

end SV.Consistency
