import SeqVerif.Model.Fields
import SeqVerif.Model.BulkIndex
import SeqVerif.Model.SeqQLFilter
import SeqVerif.Model.ProxySearch
import SeqVerif.Model.Repetitions
import SeqVerif.Model.MergeQPR
import SeqVerif.Model.ProxyCompose
import SeqVerif.Model.EvalTree
/-!
# Model consistency, topics (f) JSON field models and (e4) merge-with-limit models
-/
namespace SV.Consistency

/-! ## (f) insane-json `Dig` (first field with a given name): BulkIndex.lean `dig` vs Fields.lean `digIdx`
The `fields` / `except` pipe SEMANTICS exists only in Fields.lean (`filterAllow`, `filterExcept`, `filterFields`);
SeqQLFilter.lean only parses the pipe into `PipeFields` (syntax) and ProxyRead / ProxyE2E do not model the filter:
no duplicate there.  Dotted names (`joinName`) exist only in BulkIndex.lean. -/

/-- `decoder.Dig(name)`: `SV.BulkIndex.dig` (returns the value node) vs `SV.Fields.digIdx` (returns the index of the
field).  Representation: a `Fld` list <-> the (key, value) list; index <-> element at that index. -/
theorem cons_fields_bulkIndex_dig_eq_fields_digIdx {V : Type} (doc : List (SV.Fields.Fld (List Nat) V)) (k : List Nat) :
    ((doc.map fun f => (f.key, f.val)).find? fun p => p.1 = k).map (·.2) =
      ((SV.Fields.digIdx doc k).bind (doc[·]?)).map (·.val) := by
  unfold SV.Fields.digIdx
  induction doc with
  | nil => simp
  | cons f fs ih =>
    by_cases h : f.key = k
    · simp [List.findIdx?_cons, h]
    · simp only [List.map_cons, List.find?_cons, List.findIdx?_cons, h, decide_false]
      rw [ih]
      cases hfi : List.findIdx? (fun f => decide (f.key = k)) fs with
      | none => simp
      | some i => simp

/-- the same at the type `SV.BulkIndex.JV` with the model's own `dig` -/
theorem cons_fields_bulkIndex_dig_eq_fields_digIdx_JV (doc : List (SV.Fields.Fld (List Nat) SV.BulkIndex.JV)) (k : List Nat) :
    SV.BulkIndex.dig (doc.map fun f => (f.key, f.val)) k = ((SV.Fields.digIdx doc k).bind (doc[·]?)).map (·.val) :=
  cons_fields_bulkIndex_dig_eq_fields_digIdx doc k

/-- `tryParseFieldsFilter` over the pipes `ParseSeqQL` returns: `SV.Fields.firstFieldsPipe` fed with the
`SV.Parser.PipeFields` list of SeqQLFilter.lean (which only ever contains `fields` pipes) picks the first one and
sets `AllowList = !Except`.  Representation: `PipeFields` -> `some (fields, except)`. -/
theorem cons_fields_firstFieldsPipe_of_seqql_pipes (ps : List SV.Parser.PipeFields) :
    SV.Fields.firstFieldsPipe (ps.map fun p => some (p.fields, p.except)) = ps.head?.map fun p => (p.fields, !p.except) := by
  cases ps with
  | nil => rfl
  | cons p ps => simp [SV.Fields.firstFieldsPipe]

/-! ## (e4) top-k / merge-with-limit
Shared (NOT duplicates): `SV.orMerge` / `andMerge` / `nandMerge` are defined once in Nodes.lean; TopK.lean imports
Nodes.lean and only proves `take`-lemmas about `orMerge`; EvalTree.lean, MergeQPR.lean (-> SearchDocs.lean) import TopK.lean.
DocsMerge.lean merges document streams by request position (another Go function, `MergedStreamIterator`).
`seq.MergeQPRs` is modelled three times: MergeQPR.lean (`SV.Merge`, C05: keys `mid*2^64+rid`), ProxySearch.lean
(`SV.ProxySearch`, C16: `(ID, Src)`), Repetitions.lean (`SV.Repetitions`, C17: `(ID, source)` + histogram). -/

/-- `MergeQPRs` IDs, `SV.ProxySearch` vs `SV.Merge`: already proved in ProxyCompose.lean; re-exported.
Representation: `ProxyCompose.keyOf` / `conv`; domain: RIDs `< 2^64` (`Bounded`). -/
theorem cons_seeds_proxy_mergeQPRs_ids_eq_merge_mergeQPRs (rev : Bool) (L hi : Nat) (qs : List SV.ProxySearch.QPR)
    (hb : SV.ProxyCompose.Bounded qs) :
    (SV.ProxySearch.mergeQPRs rev L qs).ids.map (fun p => SV.ProxyCompose.keyOf p.1) =
      (SV.Merge.mergeQPRs (!rev) SV.Merge.emptyQPR (qs.map SV.ProxyCompose.conv) L hi).ids :=
  SV.ProxyCompose.merge_ids_agree rev L hi qs hb

/-- `MergeQPRs` total, the same pair; re-exported -/
theorem cons_seeds_proxy_mergeQPRs_total_eq_merge_mergeQPRs (rev : Bool) (L hi : Nat) (qs : List SV.ProxySearch.QPR)
    (hb : SV.ProxyCompose.Bounded qs) :
    (SV.ProxySearch.mergeQPRs rev L qs).total =
      (SV.Merge.mergeQPRs (!rev) SV.Merge.emptyQPR (qs.map SV.ProxyCompose.conv) L hi).total :=
  SV.ProxyCompose.merge_total_agree rev L hi qs hb

/-- `paginateIDs` after the merge, the same pair; re-exported -/
theorem cons_seeds_proxy_paginate_eq_merge_proxyMerge (rev : Bool) (offset size hi : Nat) (qs : List SV.ProxySearch.QPR)
    (hb : SV.ProxyCompose.Bounded qs) :
    (SV.ProxySearch.paginate (SV.ProxySearch.mergeQPRs rev (offset + size) qs).ids offset size).map
        (fun p => SV.ProxyCompose.keyOf p.1) =
      (SV.Merge.proxyMerge (!rev) (qs.map SV.ProxyCompose.conv) offset size hi).ids :=
  SV.ProxyCompose.page_agree rev offset size hi qs hb

example : SV.ProxyCompose.Bounded [⟨(0, 0), [(5, 7)], 1, 0⟩] := by
  intro q hq i hi
  simp at hq; subst hq; simp at hi; subst hi; decide

/-- `if dst.Total > 0 { dst.Total -= repetitionsCount }`: `SV.ProxySearch.subTotal` = `SV.Merge.subTotal` -/
theorem cons_seeds_proxy_subTotal_eq_merge_subTotal (total reps : Nat) :
    SV.ProxySearch.subTotal total reps = SV.Merge.subTotal total reps := rfl

/-! ### `removeRepetitionsAdvanced`: Repetitions.lean vs ProxySearch.lean -/

/-- source tag of ProxySearch.lean `(shard, replica)` -> the `Nat` source of Repetitions.lean, through any `g` -/
def seedsConvSrc (g : Nat × Nat → Nat) (x : SV.ProxySearch.ID × SV.ProxySearch.Src) : SV.Repetitions.IDSource := (x.1, g x.2)

theorem seeds_removeLoop_fst (g : Nat × Nat → Nat) (interval : Nat) (last : SV.ProxySearch.ID × SV.ProxySearch.Src)
    (xs : List (SV.ProxySearch.ID × SV.ProxySearch.Src)) (h : SV.Repetitions.Hist) :
    (SV.Repetitions.removeLoop interval (seedsConvSrc g last) (xs.map (seedsConvSrc g)) h).1 =
      (SV.ProxySearch.dedupGo last.1 xs).map (seedsConvSrc g) ∧
    (SV.Repetitions.removeLoop interval (seedsConvSrc g last) (xs.map (seedsConvSrc g)) h).2.1 + (SV.ProxySearch.dedupGo last.1 xs).length =
      xs.length := by
  induction xs generalizing last h with
  | nil => simp [SV.Repetitions.removeLoop, SV.ProxySearch.dedupGo]
  | cons x xs ih =>
    simp only [List.map_cons, SV.Repetitions.removeLoop, SV.ProxySearch.dedupGo]
    by_cases e : x.1 = last.1
    · have e' : ¬ (seedsConvSrc g last).1 ≠ (seedsConvSrc g x).1 := by simp [seedsConvSrc, e]
      rw [if_neg e']
      simp only [e, if_true]
      have := ih last (if interval > 0 then SV.Repetitions.histDec h (SV.Repetitions.bucketOf (seedsConvSrc g last).1 interval) else h)
      refine ⟨this.1, ?_⟩
      have h2 := this.2
      simp only [List.length_cons]
      omega
    · have e' : (seedsConvSrc g last).1 ≠ (seedsConvSrc g x).1 := by simp [seedsConvSrc]; exact fun c => e c.symm
      rw [if_pos e']
      simp only [e, if_false, List.map_cons, List.length_cons]
      have := ih x h
      refine ⟨by rw [this.1], ?_⟩
      have h2 := this.2
      omega

/-- kept entries of `removeRepetitionsAdvanced`: `SV.Repetitions.removeRepetitions` (first component) =
`SV.ProxySearch.dedup`, and its repetition count is `len(before) - len(after)` as ProxySearch.lean computes it. -/
theorem cons_seeds_repetitions_removeRepetitions_eq_proxy_dedup (g : Nat × Nat → Nat) (interval : Nat)
    (xs : List (SV.ProxySearch.ID × SV.ProxySearch.Src)) (h : SV.Repetitions.Hist) :
    (SV.Repetitions.removeRepetitions (xs.map (seedsConvSrc g)) h interval).1 = (SV.ProxySearch.dedup xs).map (seedsConvSrc g) ∧
    (SV.Repetitions.removeRepetitions (xs.map (seedsConvSrc g)) h interval).2.1 = xs.length - (SV.ProxySearch.dedup xs).length := by
  cases xs with
  | nil => simp [SV.Repetitions.removeRepetitions, SV.ProxySearch.dedup]
  | cons x xs =>
    have := seeds_removeLoop_fst g interval x xs h
    simp only [List.map_cons, SV.Repetitions.removeRepetitions, SV.ProxySearch.dedup, List.length_cons]
    refine ⟨by rw [this.1], ?_⟩
    have h2 := this.2
    omega

/-- `dst.Total -= repetitionsCount` on uint64: the formula inlined in `SV.Repetitions.mergeQPRs` = `SV.Merge.subTotal`
for a 64-bit total and fewer than 2^64 repetitions. -/
theorem cons_seeds_repetitions_total_eq_merge_subTotal (total reps : Nat)
    (ht : total < 18446744073709551616) (hr : reps < 18446744073709551616) :
    (if total > 0 then (total + SV.Repetitions.two64 - reps % SV.Repetitions.two64) % SV.Repetitions.two64 else total) =
      SV.Merge.subTotal total reps := by
  simp only [SV.Repetitions.two64, SV.Merge.subTotal, SV.Merge.R]
  split
  · split <;> omega
  · rfl

example : (5 : Nat) < 18446744073709551616 ∧ (7 : Nat) < 18446744073709551616 := by decide

/-- `histogram[bucket]--` on uint64: `SV.Repetitions.dec64` = `SV.Merge.decU64` for 64-bit counters -/
theorem cons_seeds_repetitions_dec64_eq_merge_decU64 (c : Nat) (h : c < 18446744073709551616) :
    SV.Repetitions.dec64 c = SV.Merge.decU64 c := by
  simp only [SV.Repetitions.dec64, SV.Repetitions.two64, SV.Merge.decU64, SV.Merge.R]
  split <;> omega

example : (0 : Nat) < 18446744073709551616 := by decide

/-- `bucket := id.MID; bucket -= bucket % histInterval`: `SV.Repetitions.bucketOf` on the pair = `SV.Merge.bucket` on the
key `mid * 2^64 + rid` (RID `< 2^64`) -/
theorem cons_seeds_repetitions_bucketOf_eq_merge_bucket (id : Nat × Nat) (interval : Nat) (h : id.2 < SV.Merge.R) :
    SV.Repetitions.bucketOf id interval = SV.Merge.bucket interval (SV.Merge.key id.1 id.2) := by
  have : SV.Merge.midOf (SV.Merge.key id.1 id.2) = id.1 := by
    unfold SV.Merge.R at h
    simp only [SV.Merge.midOf, SV.Merge.key, SV.Merge.R]
    omega
  simp [SV.Repetitions.bucketOf, SV.Merge.bucket, this]

example : ((3, 4) : Nat × Nat).2 < SV.Merge.R := by decide

/- The whole-function comparison of `SV.Repetitions.mergeQPRs` with `SV.ProxySearch.mergeQPRs` (IDs and total; sorting by
`List.mergeSort` vs the insertion sort `sortS`) is proved in Consistency/SeedsD.lean, together with the finding about the
surviving source.  OPEN: the histogram component of `SV.Repetitions.mergeQPRs` (a function `bucket -> count`) vs
`SV.Merge.mergeQPRs.hist` (association list, `Option`): intended statement
  ∀ k, (SV.Repetitions.mergeQPRs qs limit interval asc).2.2 k = ((SV.Merge.mergeQPRs (!asc) emptyQPR qs' limit interval).hist.getD []).get k
for 64-bit counters and RIDs; only the per-step pieces (`dec64 = decU64`, `bucketOf = bucket`) are proved above. -/

end SV.Consistency
