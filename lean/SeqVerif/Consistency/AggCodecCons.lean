import SeqVerif.Model.AggCodec
import SeqVerif.Model.AggLimits
import SeqVerif.Model.MergeQPR
import SeqVerif.Consistency.TimeRule
import SeqVerif.Consistency.Hist
/-!
# Consistency (wave 2): Model/AggCodec.lean (C06: MID <-> protobuf `Timestamp`) against the other models of "a MID is a time"

* `SV.Agg.midToTs m`  = `timestamppb.New(m.Time())`, `m.Time() = time.UnixMilli(int64(m))`      -> (Seconds, Nanos)
* `SV.Agg.tsToMid ts` = `seq.MID(ts.AsTime().UnixMilli())`                                       (proxy `responseToQPR`)
* `SV.Agg.histTs m`   = `timestamppb.New(seq.MIDToTime(m))`, `MIDToTime = Unix(0,0).Add(Duration(m) * Millisecond)`
versus
* `SV.Dist.midTime m` (C14, Model/Dist.lean): `MID.Time()` as `Int` nanoseconds since the epoch;
* `SV.BulkTime.timeToMID t` (C10): `seq.TimeToMID(t) = MID(t.UnixNano() / int64(time.Millisecond))`, `t` in ns;
* `SV.Go.timeUnixMilli`, `SV.Go.wrapI64` (Base/GoInt.lean, translator prelude).

Units: a `Timestamp` is the pair (s, ns); its instant in ns is `aggcodecTsNanos ts = s * 10^9 + ns`.
Shared, NOT duplicated: `SV.Async.toI64 / toU64 / toKey / fromKey` are C19's definitions, Model/AggCodec.lean opens and
calls them (`binToKey`, `binFromKey`); their equality with `SV.Dist.toInt64/toUint64`, `SV.ProxyRead.toInt64`,
`SV.Go.wrapI64/wrapU64` is in Consistency/Int64.lean and Consistency/TimeRule.lean (cited, used below).
Model/AggLimits.lean is a single model: `consumeLim`/`walkLim` call `SV.Agg.consume` of Model/Agg.lean and the file
itself proves `walkLim_eq : walkLim .. = some (walk ..)` below the limit - re-exported in one line at the end.
-/
namespace SV.Consistency
open SV SV.Agg

/-- the instant of a protobuf `Timestamp` in nanoseconds since the epoch -/
def aggcodecTsNanos (ts : Int × Int) : Int := ts.1 * 1000000000 + ts.2

/-- `time.Unix(sec, nsec)` does not move the instant -/
theorem aggcodec_unixNorm_nanos (sec nsec : Int) :
    aggcodecTsNanos (unixNorm sec nsec) = sec * 1000000000 + nsec := by
  unfold unixNorm aggcodecTsNanos
  generalize Int.tdiv nsec 1000000000 = q
  by_cases h1 : nsec < 0 ∨ nsec ≥ 1000000000
  · by_cases h2 : nsec - q * 1000000000 < 0
    · simp only [h1, h2, if_true]; omega
    · simp only [h1, h2, if_true, if_false]; omega
  · simp only [h1, if_false]

/-- **`timestamppb.New(m.Time())` (C06) = `MID.Time()` (C14)**: the instant of `SV.Agg.midToTs m` is
`SV.Dist.midTime m`, for every MID of the uint64 range (also the MIDs >= 2^63 that `int64(m)` makes negative).
Domain `m < 2^64`: `SV.Async.toI64` does not reduce its argument mod 2^64, `SV.Dist.toInt64` does
(`cons_time_dist_toInt64_ne_async_toI64_witness`). -/
theorem cons_aggcodec_midToTs_nanos_eq_dist_midTime (m : Nat) (h : m < 18446744073709551616) :
    aggcodecTsNanos (midToTs m) = SV.Dist.midTime m := by
  unfold midToTs SV.Dist.midTime
  rw [aggcodec_unixNorm_nanos, cons_time_dist_toInt64_eq_async_toI64 m h]
  have := Int.mul_tdiv_add_tmod (SV.Async.toI64 m) 1000
  generalize Int.tdiv (SV.Async.toI64 m) 1000 = q at this
  generalize Int.tmod (SV.Async.toI64 m) 1000 = r at this
  omega

example : (1758800000123 : Nat) < 18446744073709551616 := by decide

/-- the same against the translator prelude: `time.UnixMilli(int64(m))` -/
theorem cons_aggcodec_midToTs_nanos_eq_go (m : Nat) (h : m < 18446744073709551616) :
    aggcodecTsNanos (midToTs m) = SV.Go.timeUnixMilli (SV.Go.wrapI64 (m : Int)) := by
  rw [cons_aggcodec_midToTs_nanos_eq_dist_midTime m h, cons_time_midTime_eq_go]

/-- **`seq.MIDToTime` (histogram buckets) vs `MID.Time()`**: the instant of `SV.Agg.histTs m` is the int64-wrapped
`SV.Dist.midTime m` (`time.Duration(m) * time.Millisecond` is an int64 multiplication), every `m < 2^64` -/
theorem cons_aggcodec_histTs_nanos_eq_wrapped_midTime (m : Nat) (h : m < 18446744073709551616) :
    aggcodecTsNanos (histTs m) = SV.Go.wrapI64 (SV.Dist.midTime m) := by
  unfold histTs aggcodecTsNanos SV.Dist.midTime
  rw [cons_time_dist_toInt64_eq_async_toI64 m h]
  simp only
  generalize SV.Go.wrapI64 (SV.Async.toI64 m * 1000000) = ns
  omega

/-- ... and inside the int64 nanosecond range (MIDs up to year 2262) it IS `MID.Time()` -/
theorem cons_aggcodec_histTs_nanos_eq_dist_midTime (m : Nat) (h : m ≤ 9223372036854) :
    aggcodecTsNanos (histTs m) = SV.Dist.midTime m := by
  rw [histTs_eq m h]
  exact cons_aggcodec_midToTs_nanos_eq_dist_midTime m (by omega)

example : (1758800000123 : Nat) ≤ 9223372036854 := by decide

/-- the two Go functions that turn a MID into a time (`MID.Time()` used for documents and aggregation buckets,
`seq.MIDToTime` used for histogram buckets) DISAGREE above 2^63 / 10^6 ms: `MIDToTime` overflows the int64
`Duration`.  Both Lean definitions follow their Go function (seq/seq.go:21 and :107); the first overflowing MID: -/
theorem cons_aggcodec_histTs_ne_midToTs_overflow_witness :
    histTs 9223372036855 ≠ midToTs 9223372036855 ∧ histTs 9223372036854 = midToTs 9223372036854 := by
  constructor
  · decide
  · exact histTs_eq _ (by decide)

/-- **`AsTime().UnixMilli()` (C06 `tsToMid`) = `seq.TimeToMID` (C10 `timeToMID`)** on the instant of a valid
(normalised: `0 ≤ Nanos < 10^9`) timestamp after the epoch inside the int64 nanosecond range.  All such inputs. -/
theorem cons_aggcodec_tsToMid_eq_bulktime_timeToMID (ts : Int × Int) (hn0 : 0 ≤ ts.2) (hn1 : ts.2 < 1000000000)
    (h0 : 0 ≤ aggcodecTsNanos ts) (h1 : aggcodecTsNanos ts ≤ SV.TimeRule.maxI) :
    tsToMid ts = SV.BulkTime.timeToMID (aggcodecTsNanos ts) := by
  have e := SV.BulkTime.timeToMID_exact _ h0 h1
  obtain ⟨s, n⟩ := ts
  simp only at hn0 hn1
  rw [tsToMid_norm s n hn0 hn1]
  unfold aggcodecTsNanos at *
  simp only at *
  unfold SV.Async.toU64
  have hs : 0 ≤ s := by omega
  have : (s * 1000 + n / 1000000) = (s * 1000000000 + n) / 1000000 := by omega
  rw [this]
  have hq : 0 ≤ (s * 1000000000 + n) / 1000000 := by omega
  have hq2 : (s * 1000000000 + n) / 1000000 < 18446744073709551616 := by
    unfold SV.TimeRule.maxI at h1; omega
  omega

example : (0 : Int) ≤ 500 ∧ (500 : Int) < 1000000000 ∧ 0 ≤ aggcodecTsNanos (1758800000, 500) ∧
    aggcodecTsNanos (1758800000, 500) ≤ SV.TimeRule.maxI := by decide

/-- before the epoch the two Go conversions differ on sub-millisecond instants: `Time.UnixMilli` rounds DOWN
(`sec*1e3 + nsec/1e6` with `nsec ≥ 0`), `seq.TimeToMID` truncates TOWARDS ZERO (`UnixNano() / 1e6`).  One nanosecond
before 1970: `tsToMid` = MID(-1) = 2^64-1, `timeToMID` = 0.  Each Lean definition matches its Go function
(proxy/search/ingestor.go:504, seq/seq.go:99); not reachable for stored documents (their MIDs are whole ms). -/
theorem cons_aggcodec_tsToMid_ne_bulktime_timeToMID_pre_epoch_witness :
    tsToMid (-1, 999999999) = 18446744073709551615 ∧ SV.BulkTime.timeToMID (aggcodecTsNanos (-1, 999999999)) = 0 := by
  constructor <;> decide

/-- whole chain C14/C10/C06: `TimeToMID` of the instant `midToTs` puts on the wire gives the MID back (MIDs up to
year 2262; `ts_roundtrip` of Model/AggCodec.lean is the same statement through `tsToMid`, for all `m < 2^64`) -/
theorem cons_aggcodec_timeToMID_midToTs (m : Nat) (h : m ≤ 9223372036854) :
    SV.BulkTime.timeToMID (aggcodecTsNanos (midToTs m)) = m := by
  rw [cons_aggcodec_midToTs_nanos_eq_dist_midTime m (by omega)]
  exact cons_time_timeToMID_midTime m h

/-! ## `makeProtoHistogram` against the histogram maps of C05 / C06 -/

/-- `makeProtoHistogram` ships, for every key of the map, the count the map holds for it - read with C05's
`SV.Merge.Hist.get` or C06's `SV.Agg.histGet` (equal by `cons_hist_agg_histGet_eq_merge_get`); keys distinct (a Go map) -/
theorem cons_aggcodec_makeProtoHistogram_counts (h : List (Nat × Nat)) (hn : (h.map (·.1)).Nodup) (k c : Nat)
    (hm : (k, c) ∈ h) :
    (SV.Merge.Hist.get h k, histTs k) ∈ makeProtoHistogram h ∧ SV.Merge.Hist.get h k = c ∧ SV.Agg.histGet h k = c := by
  have hget : SV.Merge.Hist.get h k = c := by
    induction h with
    | nil => cases hm
    | cons x xs ih =>
      obtain ⟨kx, cx⟩ := x
      simp only [List.map_cons, List.nodup_cons] at hn
      rcases List.mem_cons.mp hm with e | e
      · cases e; simp [SV.Merge.Hist.get]
      · have hne : ¬ kx = k := by
          intro e2; subst e2
          exact hn.1 (List.mem_map_of_mem (f := (·.1)) e)
        simp only [SV.Merge.Hist.get, hne, if_false]
        exact ih hn.2 e
  refine ⟨?_, hget, by rw [cons_hist_agg_histGet_eq_merge_get]; exact hget⟩
  rw [hget]
  exact List.mem_map.mpr ⟨(k, c), hm, rfl⟩

example : (([(60000, 2), (120000, 5)] : List (Nat × Nat)).map (·.1)).Nodup := by decide

/-- nothing is added: every shipped bucket comes from an entry of the map -/
theorem cons_aggcodec_makeProtoHistogram_sound (h : List (Nat × Nat)) (c : Nat) (t : Int × Int)
    (hm : (c, t) ∈ makeProtoHistogram h) : ∃ k, (k, c) ∈ h ∧ t = histTs k := by
  obtain ⟨kc, hkc, e⟩ := List.mem_map.mp hm
  simp only [Prod.mk.injEq] at e
  exact ⟨kc.1, by rw [← e.1]; exact hkc, e.2.symm⟩

/-! ## Model/AggLimits.lean: one model, on top of Model/Agg.lean -/

/-- re-export: the limited iterator of Model/AggLimits.lean is the unlimited `SV.Agg.walk` of Model/Agg.lean below the limit -/
theorem cons_agglimits_walkLim_eq_agg_walk (rev : Bool) (limit : Nat) (s : Stream) (lids : List Nat)
    (hw : SourcesWithin limit s) : walkLim rev limit s [] lids = some (walk rev s lids) :=
  walkLim_eq rev limit s s [] lids hw (fun _ h => h) List.nodup_nil (fun _ h => by cases h)

end SV.Consistency
