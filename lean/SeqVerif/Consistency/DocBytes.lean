import SeqVerif.Model.C03Docs
import SeqVerif.Model.FetchBytes
import SeqVerif.Model.WPPlain
import SeqVerif.Model.BulkMetaCodec
/-!
# Consistency: documents inside a docs block (`binary.LittleEndian`, `DocProvider.appendDoc`,
`extractDocsFromBlockFunc` / `ReadDocs`, `MetaData.MarshalBinaryTo`) -
C03 (`SV.C03`, Model/C03Docs.lean, C03Ids.lean) vs C04 (`SV.Fetch`, Model/FetchBytes.lean) vs
C01 (`SV.WPath`, Model/WPBytes.lean, WPIndex.lean, WPPlain.lean) vs C10 (`SV.Bulk`, Model/Bulk.lean, BulkProc.lean,
BulkMetaCodec.lean).  Bytes are `Nat`s in all four families (`List Nat`), so no representation change is needed
except where stated.  The DocBlock header / `ReadDocBlock` / `Replay` pair (C01 vs the seed `SV.WP`) is in
Consistency/DocBytesReplay.lean.
-/
namespace SV.Consistency

open SV

/-! ## little endian fields -/

/-- Go `binary.LittleEndian.PutUint32` / `AppendUint32`: `SV.C03.le32` = `SV.WPath.leN 4` = `SV.Bulk.le32`. All inputs. -/
theorem cons_docBytes_le32_eq (n : Nat) : C03.le32 n = WPath.leN 4 n ∧ C03.le32 n = Bulk.le32 n := by
  refine ⟨?_, rfl⟩
  simp only [C03.le32, WPath.leN, Nat.div_div_eq_div_mul]

/-- Go `binary.LittleEndian.PutUint64`: `SV.C03.le64` (raw RID block) = `SV.WPath.leN 8` (header fields) =
`SV.Bulk.le64` (meta record).  All inputs. -/
theorem cons_docBytes_le64_eq (n : Nat) : C03.le64 n = WPath.leN 8 n ∧ C03.le64 n = Bulk.le64 n := by
  refine ⟨?_, rfl⟩
  simp only [C03.le64, WPath.leN, Nat.div_div_eq_div_mul]

/-- Go `binary.LittleEndian.Uint32(b)`: `SV.C03.unle32` = `SV.WPath.rdLE 4`.  All inputs - both read missing bytes as 0
(Go panics on a slice shorter than 4). -/
theorem cons_docBytes_unle32_eq_rdLE (bs : List Nat) : C03.unle32 bs = WPath.rdLE 4 bs := by
  unfold C03.unle32
  match bs with
  | [] => simp [WPath.rdLE]
  | [a] => simp [WPath.rdLE]
  | [a, b] => simp [WPath.rdLE]
  | [a, b, c] => simp [WPath.rdLE]; omega
  | a :: b :: c :: d :: rest => simp [WPath.rdLE]; omega

/-- Go `binary.LittleEndian.Uint32(block[off:])`: `SV.Fetch.le32 block off` = `SV.C03.unle32 (block.drop off)`.
Domain: the four bytes exist (`off + 4 <= len(block)`, where Go does not panic). -/
theorem cons_docBytes_fetchLe32_eq_unle32 (block : List Nat) (off : Nat) (h : off + 4 ≤ block.length) :
    Fetch.le32 block off = C03.unle32 (block.drop off) := by
  unfold Fetch.le32 C03.unle32
  have hl : 4 ≤ (block.drop off).length := by simp; omega
  match hd : block.drop off with
  | a :: b :: c :: d :: rest => simp
  | [] => rw [hd] at hl; simp at hl
  | [a] => rw [hd] at hl; simp at hl
  | [a, b] => rw [hd] at hl; simp at hl
  | [a, b, c] => rw [hd] at hl; simp at hl

example : 0 + 4 ≤ [1, 0, 0, 0, 7].length := by decide

/-- on a slice shorter than 4 bytes (a Go panic: index out of range) the two size readers differ: the Fetch model
reads 0, the C03 / C01 models read the bytes that are there.  Not observable through `extractDoc` (next theorem). -/
theorem cons_docBytes_fetchLe32_ne_unle32_witness : Fetch.le32 [5] 0 ≠ C03.unle32 ([5].drop 0) := by decide

/-! ## `DocProvider.appendDoc` -/

/-- Go `appendDoc` (4-byte length, then the document): `SV.C03.encDoc` = `SV.Fetch.encDoc` = `SV.Bulk.enc1`. All inputs. -/
theorem cons_docBytes_encDoc_eq (d : List Nat) : C03.encDoc d = Fetch.encDoc d ∧ C03.encDoc d = Bulk.enc1 d :=
  ⟨rfl, rfl⟩

/-- Go `DocProvider.appendDoc` over a bulk: `SV.WPath.rawDocs` (Model/WPIndex.lean) = the concatenation of
`SV.C03.encDoc`.  All inputs. -/
theorem cons_docBytes_rawDocs_eq_flatMap_encDoc (ds : List WPath.LDoc) :
    WPath.rawDocs ds = (ds.map (·.body)).flatMap C03.encDoc := by
  unfold WPath.rawDocs
  induction ds with
  | nil => rfl
  | cons d rest ih =>
    simp only [List.map_cons, List.flatten_cons, List.flatMap_cons, ih, C03.encDoc, (cons_docBytes_le32_eq _).1]

/-- Go `binaryDocs` payload of the bulk path: `SV.Bulk.encodeDocs` (Model/Bulk.lean) = `SV.WPath.rawDocs` on the same
bodies.  All inputs. -/
theorem cons_docBytes_encodeDocs_eq_rawDocs (ds : List WPath.LDoc) :
    Bulk.encodeDocs (ds.map (·.body)) = WPath.rawDocs ds := by
  rw [Bulk.encodeDocs_eq, cons_docBytes_rawDocs_eq_flatMap_encDoc]
  rfl

/-! ## `extractDocsFromBlockFunc` -/

/-- Go `extractDocsFromBlockFunc` for one offset: `SV.C03.extractDoc` = `SV.Fetch.extractDoc`.  ALL inputs: where the
size readers differ (fewer than 4 bytes left) both return the empty document (Go panics there). -/
theorem cons_docBytes_c03ExtractDoc_eq_fetchExtractDoc (block : List Nat) (off : Nat) :
    C03.extractDoc block off = Fetch.extractDoc block off := by
  unfold C03.extractDoc Fetch.extractDoc
  rw [List.drop_drop]
  by_cases h : off + 4 ≤ block.length
  · rw [cons_docBytes_fetchLe32_eq_unle32 block off h]
  · have : block.drop (off + 4) = [] := List.drop_of_length_le (by omega)
    rw [this]; simp

/-- Go `ReadDocs` for the offsets of one block: `SV.Fetch.extractDocs` = mapping `SV.C03.extractDoc`
(what `C03.fetchGroups` does per group).  All inputs. -/
theorem cons_docBytes_fetchExtractDocs_eq_map_c03ExtractDoc (block : List Nat) (offs : List Nat) :
    Fetch.extractDocs block offs = offs.map (C03.extractDoc block) := by
  unfold Fetch.extractDocs
  apply List.map_congr_left
  intro o _
  exact (cons_docBytes_c03ExtractDoc_eq_fetchExtractDoc block o).symm

/-- Go `extractDocsFromBlockFunc` for one offset: `SV.WPath.docAt` (Model/WPIndex.lean, `none` = the slice expression
panics) vs `SV.C03.extractDoc` (total, truncates).  `docAt` is `some (extractDoc ..)` exactly when the size field and
the document lie inside the block, `none` otherwise.  All inputs. -/
theorem cons_docBytes_wpDocAt_eq_c03ExtractDoc (raw : List Nat) (off : Nat) :
    WPath.docAt raw off =
      if raw.length < off + 4 ∨ raw.length < off + 4 + C03.unle32 (raw.drop off) then none
      else some (C03.extractDoc raw off) := by
  unfold WPath.docAt C03.extractDoc
  rw [cons_docBytes_unle32_eq_rdLE, List.drop_drop]
  by_cases h1 : raw.length < off + 4
  · simp [h1]
  · by_cases h2 : raw.length < off + 4 + WPath.rdLE 4 (raw.drop off)
    · simp [h1, h2]
    · simp [h1, h2]

/-- in particular: whenever the C01 model returns a document it is the one the C03 / C04 models return -/
theorem cons_docBytes_wpDocAt_some (raw : List Nat) (off : Nat) (d : List Nat) (h : WPath.docAt raw off = some d) :
    C03.extractDoc raw off = d ∧ Fetch.extractDoc raw off = d := by
  rw [cons_docBytes_wpDocAt_eq_c03ExtractDoc] at h
  split at h
  · cases h
  · have := Option.some.inj h
    exact ⟨this, by rw [← cons_docBytes_c03ExtractDoc_eq_fetchExtractDoc]; exact this⟩

example : WPath.docAt [1, 0, 0, 0, 7] 0 = some [7] := by decide

/-! ## `frac.MetaData.MarshalBinaryTo` (C01 plain codec vs C10 bulk codec) -/

/-- C01 token `(key, value)` -> C10 token record -/
def toBulkTok (kv : WPath.Bytes × WPath.Bytes) : Bulk.Token := ⟨kv.1, kv.2⟩

/-- Go `MetaToken.MarshalBinaryTo`: `SV.WPath.encToken` (Model/WPPlain.lean) = `SV.Bulk.encTok` (Model/BulkMetaCodec.lean). -/
theorem cons_docBytes_encToken_eq_encTok (kv : WPath.Bytes × WPath.Bytes) : WPath.encToken kv = Bulk.encTok (toBulkTok kv) := by
  simp only [WPath.encToken, Bulk.encTok, toBulkTok, ← (cons_docBytes_le32_eq _).1, ← (cons_docBytes_le32_eq _).2,
    List.append_assoc]

/-- Go `marshalAppendMeta` = length prefix + `MetaData.MarshalBinaryTo` (magic 0x3F7C, version 1, MID, RID, size,
tokens): `SV.WPath.encMeta` (Model/WPPlain.lean) = `SV.Bulk.appendMeta []` (Model/BulkMetaCodec.lean) on the record
with the same fields.  All inputs. -/
theorem cons_docBytes_wpEncMeta_eq_bulkAppendMeta (id : WPath.DocID) (size : Nat) (toks : List (WPath.Bytes × WPath.Bytes)) :
    WPath.encMeta id size toks = Bulk.appendMeta [] ⟨id.1, id.2, size, toks.map toBulkTok⟩ := by
  have hbody : WPath.leN 2 0x3F7C ++ WPath.leN 2 1 ++ WPath.leN 8 id.1 ++ WPath.leN 8 id.2 ++ WPath.leN 4 size ++
      WPath.leN 4 toks.length ++ (toks.map WPath.encToken).flatten = Bulk.encMeta ⟨id.1, id.2, size, toks.map toBulkTok⟩ := by
    have htoks : (toks.map WPath.encToken).flatten = (toks.map toBulkTok).flatMap Bulk.encTok := by
      induction toks with
      | nil => rfl
      | cons t rest ih => simp only [List.map_cons, List.flatten_cons, List.flatMap_cons, ih, cons_docBytes_encToken_eq_encTok]
    have h2a : WPath.leN 2 0x3F7C = [124, 63] := by decide
    have h2b : WPath.leN 2 1 = [1, 0] := by decide
    simp only [Bulk.encMeta, htoks, h2a, h2b, ← (cons_docBytes_le64_eq _).1, (cons_docBytes_le64_eq _).2,
      ← (cons_docBytes_le32_eq _).1, (cons_docBytes_le32_eq _).2, List.length_map]
    simp
  unfold WPath.encMeta Bulk.appendMeta
  simp only [List.nil_append]
  rw [hbody, ← (cons_docBytes_le32_eq _).1, (cons_docBytes_le32_eq _).2]

end SV.Consistency
