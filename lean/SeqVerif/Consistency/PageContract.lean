import SeqVerif.Model.SearchDocsLemmas
import SeqVerif.Model.ApiLemmas
import SeqVerif.Model.ProxyCompose
import SeqVerif.Model.ProxyApi
/-!
# Consistency: the paging contract between a proxy and its sources - stated three times, proved once

"A source asked for `limit = offset + size` returns its first `offset + size` ids, and the page `[offset, offset+size)` of
the merge of such cut results is the page of the merge of the full results."

* C02: Props/C02.lean `c02_page_from_cut_results` (+ `c02_page_needs_offset`), over `SV.orMerge` (Model/TopK.lean
  `take_orMerge_take`) - restated below at model level (Props is not imported);
* C05: Model/ApiSearch.lean - every shard computes `limit := int(Size+Offset)` (`storeParams`), the proxy merges at
  `Offset+Size` and paginates (`proxySearch` -> `Merge.proxyMerge`; Model/SearchDocsLemmas.lean `proxyMerge_ids`,
  Model/MergeLemmas.lean `take_sd_flatten_cut`);
* C16: Model/ProxyApi.lean `storeRequest` / `StoreReq.limit` / `storeAnswer` (the request a store receives and its answer),
  merged by `SV.ProxySearch.mergeQPRs` / `paginate`.
Go: proxy/search/search_request.go `GetAPISearchRequest` copies `Size` and `Offset` unchanged; storeapi/grpc_search.go:95
`limit := int(req.Size + req.Offset)`; proxy/search/ingestor.go `MergeQPRs(.., sr.Offset+sr.Size, ..)`, `paginateIDs`.  All three
models use `offset + size`, as Go does; no `size`-only or `+1` variant among them (the clamped request of ProxyApi.lean is
explicitly "NOT the code").
Representation: IDs as keys `mid*2^64+rid` (`ProxyCompose.keyOf`, same as `keyOfPair` of Consistency/IdOrder.lean); a source
= a list sorted in the request's order without repetition (`SortedBy`); merge = `sd` of the concatenation
(= `orMerge` folded, `Merge.sd_append`).
-/
namespace SV.Consistency

open SV SV.Merge

/-! ## the one lemma -/

theorem pageContract_page_eq (l : List Nat) (o s : Nat) : (l.drop o).take s = (l.take (o + s)).drop o := by
  rw [List.drop_take]
  congr 1
  omega

/-- **the paging contract**: cut every source to its first `M >= offset+size` ids, merge (`sd` = sort + drop repetitions
of the union), take the page - the same page as from the uncut sources.  For every order, every number of sources, sources
sorted in that order without repetition.  (Proved from `Merge.take_sd_flatten_cut`, i.e. from `take_orMerge_take`.) -/
theorem cons_page_cut_contract (desc : Bool) (o s M : Nat) (hM : o + s ≤ M) (ds : List (List Nat))
    (hs : ∀ d, d ∈ ds → SortedBy desc d) :
    ((sd desc (ds.map (·.take M)).flatten).drop o).take s = ((sd desc ds.flatten).drop o).take s := by
  rw [pageContract_page_eq, pageContract_page_eq (sd desc ds.flatten)]
  congr 1
  have hmap : ds.map (·.take M) = ds.map (fun d => (sd desc d).take M) := by
    apply List.map_congr_left
    intro d hd
    rw [sd_of_sorted desc d (hs d hd)]
  rw [hmap]
  exact take_sd_flatten_cut desc (o + s) M hM ds

/-! ## instance 1: C02 -/

/-- `c02_page_from_cut_results` (Props/C02.lean) restated over the model-level `SV.orMerge`: cutting the accumulated
partial result to `M >= offset+size` before the merge leaves the page unchanged.  No sortedness needed for this one-sided,
binary form (it is `take_orMerge_take` itself, the lemma the n-ary contract is proved from). -/
theorem cons_page_c02_restated (rev : Bool) (size offset M : Nat) (hM : offset + size ≤ M) (xs ys : List Nat) :
    ((orMerge rev (xs.take M) ys).take (offset + size)).drop offset =
      ((orMerge rev xs ys).take (offset + size)).drop offset := by
  rw [take_orMerge_take rev (offset + size) M hM xs ys]

/-- ... and its two-sided form for sorted inputs IS the contract at two sources: `orMerge` of sorted lists is `sd` of
their concatenation. -/
theorem cons_page_c02_is_instance (rev : Bool) (size offset M : Nat) (hM : offset + size ≤ M) (xs ys : List Nat)
    (hx : SortedBy rev xs) (hy : SortedBy rev ys) :
    ((orMerge rev (xs.take M) (ys.take M)).drop offset).take size = ((orMerge rev xs ys).drop offset).take size := by
  have h := cons_page_cut_contract rev offset size M hM [xs, ys] (by
    intro d hd
    simp at hd
    rcases hd with rfl | rfl
    · exact hx
    · exact hy)
  simp only [List.map_cons, List.map_nil, List.flatten_cons, List.flatten_nil, List.append_nil, sd_append] at h
  rw [sd_of_sorted rev _ (sortedBy_take rev M xs hx), sd_of_sorted rev _ (sortedBy_take rev M ys hy),
    sd_of_sorted rev xs hx, sd_of_sorted rev ys hy] at h
  exact h

/-! ## instance 2: C05 -/

/-- the limit every shard computes in the C05 API model is `offset + size` (cited: `SV.Api.params_of_valid`) -/
theorem cons_page_c05_limit (r : Api.ProxyReq) (hv : r.valid) :
    ∃ sr p, Api.apiRequest r = some sr ∧ Api.storeParams sr = some p ∧ p.limit = (r.offset.toNat + r.size.toNat : Nat) := by
  obtain ⟨sr, p, h1, h2, _, _, h5, _⟩ := Api.params_of_valid r hv
  exact ⟨sr, p, h1, h2, by simpa [Api.meaning] using h5⟩

/-- `Merge.proxyMerge` (the body of `SV.Api.proxySearch`) over shard answers cut to `offset+size` returns the page of the
uncut union: the contract at `M = offset + size`.  (Same conclusion as `Merge.proxyMerge_ids`, obtained from the contract.) -/
theorem cons_page_c05_is_instance (desc : Bool) (stores : List (List Nat)) (hs : ∀ d, d ∈ stores → SortedBy desc d)
    (totals : List Nat → Nat) (offset size hi : Nat) :
    (proxyMerge desc (stores.map fun d => ⟨d.take (offset + size), totals d, none⟩) offset size hi).ids =
      ((sd desc stores.flatten).drop offset).take size := by
  simp only [proxyMerge]
  rw [(paginate_eq _ offset size).1, mergeQPRs_ids]
  have hall : allIds emptyQPR (stores.map fun d => (⟨d.take (offset + size), totals d, none⟩ : QPR)) =
      (stores.map (·.take (offset + size))).flatten := by
    simp [allIds, emptyQPR, List.flatMap_def, List.map_map, Function.comp_def]
  rw [hall, ← pageContract_page_eq, List.take_take, Nat.min_self]
  exact cons_page_cut_contract desc offset size (offset + size) (Nat.le_refl _) stores hs

/-! ## instance 3: C16 -/

/-- the request a store receives in the C16 model asks for `offset + size` ids, and the store answers with its first
`offset + size` (`storeRequest`, `StoreReq.limit`, `storeAnswer`) -/
theorem cons_page_c16_limit (held : List ProxySearch.ID) (offset size : Nat) :
    (ProxyApi.storeRequest offset size).limit = offset + size ∧
    ProxyApi.storeAnswer held (ProxyApi.storeRequest offset size) = .resp .none (held.take (offset + size)) held.length 0 := by
  have h : (ProxyApi.storeRequest offset size).limit = offset + size := by
    simp [ProxyApi.storeRequest, ProxyApi.StoreReq.limit, Nat.add_comm]
  exact ⟨h, by simp only [ProxyApi.storeAnswer, h]⟩

/-- the QPRs the proxy holds when every source `(src, held)` answered `storeAnswer held (storeRequest offset size)` -/
def pageContractQprs (offset size : Nat) (hs : List (ProxySearch.Src × List ProxySearch.ID)) : List ProxySearch.QPR :=
  hs.map fun h => ⟨h.1, h.2.take (ProxyApi.storeRequest offset size).limit, h.2.length, 0⟩

/-- C16: the page `SV.ProxySearch.paginate (mergeQPRs ..)` computes from the stores' cut answers is, as keys, the page of
the merge of everything the stores hold - the contract through `ProxyCompose.page_agree` (C16 merge = C05 merge) and
instance 2.  Domain: RIDs `< 2^64`, each store's ids sorted in the request's order without repetition. -/
theorem cons_page_c16_is_instance (rev : Bool) (offset size : Nat) (hs : List (ProxySearch.Src × List ProxySearch.ID))
    (hb : ∀ h, h ∈ hs → ∀ i, i ∈ h.2 → i.2 < Merge.R)
    (hsorted : ∀ h, h ∈ hs → SortedBy (!rev) (h.2.map ProxyCompose.keyOf)) :
    (ProxySearch.paginate (ProxySearch.mergeQPRs rev (offset + size) (pageContractQprs offset size hs)).ids offset size).map
        (fun p => ProxyCompose.keyOf p.1) =
      ((sd (!rev) (hs.map fun h => h.2.map ProxyCompose.keyOf).flatten).drop offset).take size := by
  have hbound : ProxyCompose.Bounded (pageContractQprs offset size hs) := by
    intro q hq i hi
    obtain ⟨h, hh, rfl⟩ := List.mem_map.mp hq
    exact hb h hh i (List.mem_of_mem_take hi)
  rw [ProxyCompose.page_agree rev offset size 0 _ hbound]
  have hconv : (pageContractQprs offset size hs).map ProxyCompose.conv =
      (hs.map fun h => h.2.map ProxyCompose.keyOf).map fun d => (⟨d.take (offset + size), d.length, none⟩ : QPR) := by
    simp only [pageContractQprs, List.map_map]
    apply List.map_congr_left
    intro h _
    simp [ProxyCompose.conv, (cons_page_c16_limit h.2 offset size).1, List.map_take]
  rw [hconv]
  exact cons_page_c05_is_instance (!rev) _ (by
    intro d hd
    obtain ⟨h, hh, rfl⟩ := List.mem_map.mp hd
    exact hsorted h hh) (fun d => d.length) offset size 0

/-! ## a different limit breaks the contract -/

/-- with `size` ids per source instead of `offset + size` (the hypothesis `hM` violated) the page is wrong: one source
holding `[1,2,3]`, `offset = size = 1` - the page is `[2]`, the merge of the cut answer gives `[]`.  (Props/C02.lean
`c02_page_needs_offset` is the same input over `orMerge`.)  Go sends `Size` and `Offset` and the store adds them; none of
the three models uses the smaller limit. -/
theorem cons_page_size_only_witness :
    ((sd false ([[1, 2, 3]].map (·.take 1)).flatten).drop 1).take 1 = [] ∧
    ((sd false ([[1, 2, 3]] : List (List Nat)).flatten).drop 1).take 1 = [2] := by
  constructor <;> decide

end SV.Consistency
